//! C20: condition setter histories on a freshly loaded engine.
use crate::util::*;
use jbonsai::engine::{Condition, Engine};

pub fn dump(c: &Condition, n: usize, out: &mut String) {
    push_u(out, c.get_sampling_frequency());
    push_u(out, c.get_fperiod());
    push_f(out, c.get_volume());
    for i in 0..n {
        push_f(out, c.get_msd_threshold(i));
    }
    for i in 0..n {
        push_f(out, c.get_gv_weight(i));
    }
    push_u(out, c.get_phoneme_alignment_flag() as usize);
    push_f(out, c.get_speed());
    push_f(out, c.get_alpha());
    push_f(out, c.get_beta());
    push_f(out, c.get_additional_half_tone());
}

/// header values read from the voice metadata independently of `Condition::load_model`
pub fn header(engine: &Engine, out: &mut String) -> usize {
    let g = engine.voices.global_metadata();
    let mut stage = 0usize;
    let mut lg = false;
    let mut alpha = 0.0f64;
    for o in &engine.voices.stream_metadata(0).option {
        if let Some(v) = o.strip_prefix("GAMMA=") {
            stage = v.parse().unwrap();
        } else if let Some(v) = o.strip_prefix("LN_GAIN=") {
            lg = v == "1";
        } else if let Some(v) = o.strip_prefix("ALPHA=") {
            alpha = v.parse().unwrap();
        }
    }
    push_s(out, "hdr");
    push_u(out, g.sampling_frequency);
    push_u(out, g.frame_period);
    push_u(out, g.num_streams);
    push_u(out, stage);
    push_u(out, lg as usize);
    push_f(out, alpha);
    g.num_streams
}

pub fn usize_arg(rng: &mut Rng) -> usize {
    match rng.below(6) {
        0 => 0,
        1 => 1,
        2 => usize::MAX,
        3 => rng.range(2, 480),
        4 => rng.range(8000, 96000),
        _ => rng.next() as usize,
    }
}

/// an argument a few f64 steps away from the value currently stored (seeded change C20f: a setter that drops an update
/// "equal within epsilon" to the stored value); for a stored 0 the neighbours are tiny positives
pub fn near(rng: &mut Rng, cur: f64) -> f64 {
    if !cur.is_finite() { return cur; }
    if cur == 0.0 { return *rng.pick(&[5e-324, 1e-300, 1e-17, 2.2e-16, -5e-324]); }
    let k = rng.range(1, 3) as u64;
    let b = cur.to_bits();
    // (a stored value within three steps of zero has no lower neighbours of the same sign: stay on the value then)
    let nb = if rng.chance(0.5) { b.checked_add(k) } else { b.checked_sub(k) };
    match nb.map(f64::from_bits) { Some(x) if x.is_finite() && (x.is_sign_negative() == cur.is_sign_negative()) => x, _ => cur }
}

/// apply one random setter; returns its protocol text
pub fn random_op(rng: &mut Rng, c: &mut Condition, n: usize) -> String {
    let mut s = String::new();
    match rng.below(10) {
        0 => {
            let i = usize_arg(rng);
            c.set_sampling_frequency(i);
            push_s(&mut s, "sf");
            push_u(&mut s, i);
        }
        1 => {
            let i = usize_arg(rng);
            c.set_fperiod(i);
            push_s(&mut s, "fp");
            push_u(&mut s, i);
        }
        2 => {
            // |v| ≤ 60 dB is the documented envelope; beyond ±6000 dB exp() leaves f64 and the getter
            // cannot round-trip — the property does not claim it
            let f = if rng.chance(0.3) { *rng.pick(&[0.0, -0.0, 60.0, -60.0, 6.0, 20.0, -20.0]) } else { rng.uniform(-60.0, 60.0) };
            c.set_volume(f);
            push_s(&mut s, "vol");
            push_f(&mut s, f);
        }
        3 => {
            let i = rng.below(n);
            let f = if rng.chance(0.25) { near(rng, c.get_msd_threshold(i)) } else { boundary_f64(rng, 0.0, 1.0) };
            c.set_msd_threshold(i, f);
            push_s(&mut s, "msd");
            push_u(&mut s, i);
            push_f(&mut s, f);
        }
        4 => {
            let i = rng.below(n);
            let f = if rng.chance(0.25) { near(rng, c.get_gv_weight(i)) } else { boundary_f64(rng, 0.0, 2.0) };
            c.set_gv_weight(i, f);
            push_s(&mut s, "gv");
            push_u(&mut s, i);
            push_f(&mut s, f);
        }
        5 => {
            let f = if rng.chance(0.25) { near(rng, c.get_speed()) } else { boundary_f64(rng, 1e-6, 50.0) };
            c.set_speed(f);
            push_s(&mut s, "speed");
            push_f(&mut s, f);
        }
        6 => {
            let b = rng.chance(0.5);
            c.set_phoneme_alignment_flag(b);
            push_s(&mut s, "align");
            push_u(&mut s, b as usize);
        }
        7 => {
            let f = if rng.chance(0.25) { near(rng, c.get_alpha()) } else { boundary_f64(rng, 0.0, 1.0) };
            c.set_alpha(f);
            push_s(&mut s, "alpha");
            push_f(&mut s, f);
        }
        8 => {
            let f = if rng.chance(0.25) { near(rng, c.get_beta()) } else { boundary_f64(rng, 0.0, 1.0) };
            c.set_beta(f);
            push_s(&mut s, "beta");
            push_f(&mut s, f);
        }
        _ => {
            let f = if rng.chance(0.25) { near(rng, c.get_additional_half_tone()) } else { boundary_f64(rng, -24.0, 24.0) };
            c.set_additional_half_tone(f);
            push_s(&mut s, "ht");
            push_f(&mut s, f);
        }
    }
    s
}

pub fn history_line(rng: &mut Rng, engine: &Engine, k: usize) -> String {
    let mut e = engine.clone();
    let mut line = String::from("cond");
    let n = header(&e, &mut line);
    let mut ops = String::new();
    let mut dumps = String::new();
    dump(&e.condition, n, &mut dumps);
    for _ in 0..k {
        if rng.chance(0.08) {
            // the voice defaults loaded again into the condition in use: header values are taken, the user's
            // volume / speed / alignment / beta / half tone stay (seeded change C15f)
            let vs = e.voices.clone();
            e.condition.load_model(&vs).expect("load_model");
            push_s(&mut ops, "load");
        } else {
            ops.push_str(&random_op(rng, &mut e.condition, n));
        }
        dump(&e.condition, n, &mut dumps);
    }
    push_s(&mut line, "nops");
    push_u(&mut line, k);
    line.push_str(&ops);
    push_s(&mut line, "dumps");
    line.push_str(&dumps);
    line
}

pub fn gen(seed: u64, thorough: bool) {
    let mut rng = Rng::new(seed);
    // a freshly loaded engine each few cases, so `load_model` itself is exercised
    let ncases = if thorough { 20000 } else { 1500 };
    let mut engine = Engine::load(&[BUNDLED_VOICE]).expect("bundled voice loads");
    let src = crate::engine::Sources::new();
    let mut vrng = Rng::new(seed ^ 0xc20_7001);
    for i in 0..ncases {
        if i % 500 == 0 {
            engine = Engine::load(&[BUNDLED_VOICE]).expect("bundled voice loads");
        } else if i % 100 == 50 {
            // the setters' laws do not depend on the voice: conditions loaded from generated voices too — two or three
            // streams, mel-cepstral or LSP (stage 1..4, log or linear gain), other rates and frame periods (seeded change
            // C20h: `set_beta` limited to 0.5 for LSP voices)
            engine = src.any_engine(&mut vrng).0;
        }
        let k = if i == 0 { 0 } else { rng.range(1, 8) };
        println!("{}", history_line(&mut rng, &engine, k));
    }
}
