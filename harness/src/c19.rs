//! C19 (voice-set and weight validation) and C10 (weighted average of the selected Gaussians).
use crate::util::*;
use crate::voices::*;
use jbonsai::engine::{Condition, Engine};
use jbonsai::model::interporation_weight::{InterporationWeight, WeightError};
use jbonsai::model::voice::model::ModelParameter;
use jbonsai::model::{load_htsvoice_file, ModelError, Models, Voice, VoiceSet};
use std::sync::Arc;

pub fn load_spec(spec: &VoiceSpec, tag: &str) -> Voice {
    let path = format!("{}/voices/{}.htsvoice", work_dir(), tag);
    spec.write(&path);
    let v = load_htsvoice_file(&path).expect("generated voice loads");
    let _ = std::fs::remove_file(&path);
    v
}

pub fn engine_of(voices: Vec<Arc<Voice>>) -> Result<Engine, String> {
    let vs = VoiceSet::new(voices).map_err(|e| format!("{e:?}"))?;
    let mut c = Condition::default();
    c.load_model(&vs).map_err(|e| format!("{e:?}"))?;
    Ok(Engine::new(vs, c))
}

/// canonical text of the metadata `VoiceSet::new` compares
fn push_meta(line: &mut String, v: &Voice) {
    let g = &v.metadata;
    push_s(line, &esc(&g.hts_voice_version));
    push_u(line, g.sampling_frequency);
    push_u(line, g.frame_period);
    push_u(line, g.num_states);
    push_u(line, g.num_streams);
    push_s(line, &esc(&g.stream_type.join(",")));
    push_s(line, &esc(&g.fullcontext_format));
    push_s(line, &esc(&g.fullcontext_version));
    push_s(line, &esc(&serde_json::to_string(&g.gv_off_context).unwrap()));
    push_u(line, v.stream_models.len());
    for s in &v.stream_models {
        push_u(line, s.metadata.vector_length);
        push_u(line, s.metadata.num_windows);
        push_u(line, s.metadata.is_msd as usize);
        push_u(line, s.metadata.use_gv as usize);
        push_s(line, &esc(&s.metadata.option.join(",")));
    }
}

fn mutate_meta(rng: &mut Rng, v: &mut Voice) -> &'static str {
    let ns = v.stream_models.len();
    match rng.below(14) {
        // option lists that are a subset / superset / permutation / value change of the other voices' list
        // (seeded change C19f: options compared by a one-directional containment test)
        11 => { let i = rng.below(ns); if v.stream_models[i].metadata.option.pop().is_some() { "option_removed" } else { v.stream_models[i].metadata.option.push("GAMMA=0".into()); "option" } }
        12 => { let o = &mut v.stream_models[0].metadata.option; if o.is_empty() { o.push("ALPHA=0.5".into()); "option" } else { o.clear(); "option_cleared" } }
        13 => { let o = &mut v.stream_models[0].metadata.option; if o.len() >= 2 { o.swap(0, 1); "option_reordered" } else if let Some(x) = o.get_mut(0) { x.push('1'); "option_value" } else { o.push("ALPHA=0.5".into()); "option" } }
        0 => { v.metadata.sampling_frequency += 1; "sampling_rate" }
        1 => { v.metadata.frame_period += 1; "frame_period" }
        2 => { v.metadata.num_states += 1; "states" }
        3 => { v.metadata.num_streams += 1; "num_streams" }
        4 => { let i = rng.below(ns); v.stream_models[i].metadata.vector_length += 2; "vector_length" }
        5 => { let i = rng.below(ns); v.stream_models[i].metadata.num_windows += 1; "windows_count" }
        6 => { let i = rng.below(ns); v.stream_models[i].metadata.is_msd ^= true; "msd_flag" }
        7 => { let i = rng.below(ns); v.stream_models[i].metadata.use_gv ^= true; "gv_flag" }
        8 => { let i = rng.below(ns); v.stream_models[i].metadata.option.push("ALPHA=0.5".into()); "option" }
        9 => { v.stream_models.pop(); "stream_list_shorter" }
        _ => { v.metadata.stream_type.push("XXX".into()); "stream_type" }
    }
}

fn random_weights(rng: &mut Rng, n: usize) -> (Vec<f64>, &'static str) {
    match rng.below(12) {
        10 => {
            // a valid vector followed by a zero: the sum is still 1, only the count is wrong
            let mut w = vec![1.0 / n as f64; n];
            let s: f64 = w.iter().sum();
            w[0] += 1.0 - s;
            w.push(0.0);
            if rng.chance(0.3) { w.push(0.0); }
            (w, "valid-prefix-too-long")
        }
        11 if n >= 3 => {
            // one component exactly 1, two others cancelling: sums to 1 but is no vertex
            let mut w = vec![0.0; n];
            let mut idx: Vec<usize> = (0..n).collect();
            for i in (1..n).rev() { let j = rng.below(i + 1); idx.swap(i, j); }
            let a = *rng.pick(&[0.5, 0.25, 1.0, 0.125]);
            w[idx[0]] = 1.0;
            w[idx[1]] = a;
            w[idx[2]] = -a;
            (w, "unit-plus-cancel")
        }
        0 => {
            // vertex
            let mut w = vec![0.0; n];
            w[rng.below(n)] = 1.0;
            (w, "vertex")
        }
        1 => {
            // negative / over-unity components summing to 1
            let mut w: Vec<f64> = (0..n).map(|_| rng.uniform(-1.0, 2.0)).collect();
            let s: f64 = w.iter().sum();
            w[0] += 1.0 - s;
            let s2: f64 = w.iter().sum();
            if (s2 - 1.0).abs() > f64::EPSILON { w = vec![1.0 / n as f64; n]; }
            (w, "offsimplex")
        }
        2 => {
            let n2 = if rng.chance(0.5) { n + 1 } else { n.saturating_sub(1) };
            let w = if n2 == 0 { vec![] } else { vec![1.0 / n2 as f64; n2] };
            (w, "wrong-length")
        }
        3 => {
            let mut w = vec![1.0 / n as f64; n];
            w[0] += *rng.pick(&[1e-6, -1e-6, 1e-3, 0.5, -2.0]);
            (w, "sum-off")
        }
        4 => {
            // off by one ulp of the sum: still accepted iff within f64::EPSILON
            let mut w = vec![0.0; n];
            w[0] = f64::from_bits(1.0f64.to_bits() + rng.range(0, 2) as u64);
            (w, "ulp")
        }
        5 => {
            let mut w = vec![1.0 / n as f64; n];
            w[rng.below(n)] = f64::NAN;
            (w, "nan")
        }
        6 => {
            // wrong length AND wrong sum: the sum error must win
            (vec![0.3; n + 1], "wrong-both")
        }
        _ => {
            let mut w: Vec<f64> = (0..n).map(|_| rng.unit()).collect();
            let s: f64 = w.iter().sum();
            for x in &mut w { *x /= s; }
            let s2: f64 = w.iter().sum();
            if (s2 - 1.0).abs() > f64::EPSILON {
                let k = w.len() - 1;
                w[k] += 1.0 - s2;
            }
            (w, "simplex")
        }
    }
}

fn push_iw(line: &mut String, iw: &InterporationWeight, ns: usize) {
    push_fs(line, iw.get_duration());
    for i in 0..ns {
        push_fs(line, iw.get_parameter(i));
    }
    for i in 0..ns {
        push_fs(line, iw.get_gv(i));
    }
}

/// The interpolation weights a caller ends up with after a *history* of setter calls, and the history itself.
/// Every quantity (duration, parameter[i], gv[i]) gets a final valid vector `want`; the calls arrive in a random order over
/// the quantities (so `set_gv(i)` can precede `set_parameter(i)`), a quantity may first receive another valid vector, and
/// updates that must be rejected (wrong count with sum 1, right count with another sum) are interleaved after a quantity's
/// final call. What synthesis uses must be `want` (seeded changes C10h: a rejected vector was stored; C12h: `set_parameter`
/// overwrote the GV weights). Differences between `want` and what the getters return are reported as `shist` lines.
pub struct WantWeights { pub dur: Vec<f64>, pub par: Vec<Vec<f64>>, pub gv: Vec<Vec<f64>> }

pub fn valid_weights(rng: &mut Rng, nv: usize) -> Vec<f64> {
    loop {
        let (w, _) = random_weights(rng, nv);
        let mut probe = InterporationWeight::new(nv, 1);
        if probe.set_duration(&w).is_ok() { return w; }
    }
}

pub fn weight_history(rng: &mut Rng, e: &mut Engine, nv: usize, ns: usize) -> WantWeights {
    let mut want = WantWeights { dur: valid_weights(rng, nv), par: (0..ns).map(|_| valid_weights(rng, nv)).collect(), gv: (0..ns).map(|_| valid_weights(rng, nv)).collect() };
    if nv == 1 { want = WantWeights { dur: vec![1.0], par: vec![vec![1.0]; ns], gv: vec![vec![1.0]; ns] }; }
    // slots: 0 = duration, 1+i = parameter[i], 1+ns+i = gv[i]
    let nslots = 1 + 2 * ns;
    let mut calls: Vec<(usize, u8)> = Vec::new(); // (slot, kind) kind 0 = throwaway valid, 1 = final, 2 = rejected
    for sl in 0..nslots {
        if rng.chance(0.4) { calls.push((sl, 0)); }
        calls.push((sl, 1));
        if rng.chance(0.5) { calls.push((sl, 2)); }
    }
    // shuffle, then restore per-slot order throwaway < final < rejected
    for i in (1..calls.len()).rev() { let j = rng.below(i + 1); calls.swap(i, j); }
    let mut per: Vec<Vec<u8>> = vec![Vec::new(); nslots];
    for (sl, k) in &calls { per[*sl].push(*k); }
    for v in &mut per { v.sort(); v.reverse(); } // pop() yields 0, then 1, then 2
    let mut hist = String::new();
    for (sl, _) in calls.clone() {
        let kind = per[sl].pop().unwrap();
        let w: Vec<f64> = match kind {
            0 => valid_weights(rng, nv),
            1 => if sl == 0 { want.dur.clone() } else if sl <= ns { want.par[sl - 1].clone() } else { want.gv[sl - 1 - ns].clone() },
            _ => match rng.below(3) {
                0 => { let mut w = valid_weights(rng, nv); w.push(0.0); w }                      // too long, prefix valid
                1 if nv >= 2 => { let mut w = vec![0.0; nv - 1]; w[0] = 1.0; w }                // too short, sums to 1
                _ => { let mut w = valid_weights(rng, nv); w[0] += 0.25; w }                    // right count, wrong sum
            },
        };
        let iw = e.condition.get_interporation_weight_mut();
        let r = if sl == 0 { iw.set_duration(&w) } else if sl <= ns { iw.set_parameter(sl - 1, &w) } else { iw.set_gv(sl - 1 - ns, &w) };
        let name = if sl == 0 { "duration".to_string() } else if sl <= ns { format!("parameter[{}]", sl - 1) } else { format!("gv[{}]", sl - 1 - ns) };
        hist.push_str(&format!("set_{}({:?})->{};", name, w, if r.is_ok() { "ok" } else { "err" }));
        if kind == 2 && r.is_ok() {
            // accepted although it should not be: C19's business; from here on this is what the caller has
            if sl == 0 { want.dur = w } else if sl <= ns { want.par[sl - 1] = w } else { want.gv[sl - 1 - ns] = w }
        }
    }
    let iw = e.condition.get_interporation_weight();
    let same = |a: &[f64], b: &[f64]| a.len() == b.len() && a.iter().zip(b).all(|(x, y)| x.to_bits() == y.to_bits());
    let mut report = |name: String, w: &[f64], got: &[f64]| {
        if !same(w, got) {
            let mut line = String::from("shist");
            push_s(&mut line, &esc(&format!("interpolation weights {name}")));
            push_s(&mut line, &esc(&format!("{w:?}")));
            push_s(&mut line, &esc(&format!("{got:?}")));
            push_s(&mut line, &esc(&hist));
            println!("{line}");
        }
    };
    report("duration".into(), &want.dur, iw.get_duration());
    for i in 0..ns {
        report(format!("parameter[{i}]"), &want.par[i], iw.get_parameter(i));
        report(format!("gv[{i}]"), &want.gv[i], iw.get_gv(i));
    }
    want
}

pub fn push_want(line: &mut String, w: &WantWeights) {
    push_fs(line, &w.dur);
    for p in &w.par { push_fs(line, p); }
    for g in &w.gv { push_fs(line, g); }
}

fn res_tok(r: &Result<(), WeightError>) -> &'static str {
    match r {
        Ok(()) => "ok",
        Err(WeightError::InvalidSum) => "err:sum",
        Err(WeightError::InvalidLength(..)) => "err:len",
    }
}

/// k compatible small voices (same metadata seed, different trees and PDFs)
pub fn compatible_voices(rng: &mut Rng, k: usize, pool: &[(String, Vec<String>)], identical: bool) -> (Vec<Arc<Voice>>, VoiceCfg) {
    compatible_voices2(rng, k, pool, identical, false)
}

/// `coarse_first`: every tree of the first voice is a single leaf, so all labels share voice 0's leaf while the other voices
/// separate them (seeded change C10f: blends memoised by the leaf the first voice selects)
pub fn compatible_voices2(rng: &mut Rng, k: usize, pool: &[(String, Vec<String>)], identical: bool, coarse_first: bool) -> (Vec<Arc<Voice>>, VoiceCfg) {
    let cfg = VoiceCfg { nstream: rng.range(2, 3), stage: 0, nstate: rng.range(1, 4), max_leaves: 5 };
    let mseed = rng.next();
    let mut out = Vec::new();
    let mut first: Option<Arc<Voice>> = None;
    for i in 0..k {
        if identical && i > 0 {
            out.push(first.clone().unwrap());
            continue;
        }
        let mut m = Rng(mseed);
        let mut spec = VoiceSpec::random2(&mut m, rng, &cfg, pool);
        if coarse_first && i == 0 {
            let collapse = |ms: &mut crate::voices::ModelSpec| {
                for (t, p) in ms.trees.iter_mut().zip(ms.pdfs.iter_mut()) {
                    t.single = Some(1);
                    t.rows.clear();
                    p.truncate(1);
                }
            };
            collapse(&mut spec.duration);
            for st in spec.streams.iter_mut() {
                collapse(&mut st.model);
                if let Some(g) = st.gv.as_mut() { collapse(g); }
            }
        }
        let v = Arc::new(load_spec(&spec, &format!("c19_{}_{}", std::process::id(), i)));
        if first.is_none() {
            first = Some(v.clone());
        }
        out.push(v);
    }
    (out, cfg)
}

pub fn gen_c19(seed: u64, thorough: bool) {
    let mut rng = Rng::new(seed);
    let pool = question_pool();
    let corpus = corpus();
    let bundled = load_htsvoice_file(&BUNDLED_VOICE).expect("bundled");
    // ---- voice tuples
    let ntuples = if thorough { 600 } else { 80 };
    for t in 0..ntuples {
        let base: Voice = if t % 3 == 0 {
            bundled.clone()
        } else {
            let cfg = VoiceCfg { nstream: rng.range(2, 3), stage: rng.below(3), nstate: rng.range(1, 5), max_leaves: 3 };
            load_spec(&VoiceSpec::random(&mut rng, &cfg, &pool), &format!("c19t_{}", std::process::id()))
        };
        // every fifth tuple: the GV-off contexts are held as a regex-type question (the fallback representation)
        let base: Voice = if t % 5 == 4 { crate::engine::with_gv_off(&base, &["*-sil+*".to_string(), "*-pau+*".to_string()]) } else { base };
        let k = rng.range(0, 4);
        let mut vs: Vec<Voice> = (0..k).map(|_| base.clone()).collect();
        let mut what = "none";
        let mut odd: Option<usize> = None;
        if k >= 2 && rng.chance(0.75) {
            // the odd one out at any position, the first included (an asymmetric comparison only shows one way round)
            let j = rng.range(0, k - 1);
            what = mutate_meta(&mut rng, &mut vs[j]);
            odd = Some(j);
        }
        // every other tuple: the unmutated voices are one allocation (the same `Arc` repeated, as a caller blending a voice
        // with itself writes it), not equal copies (seeded change C19h: a pointer-equality fast path that ends the comparison)
        let share = t % 2 == 1;
        let shared = Arc::new(base.clone());
        let mut line = String::from("vset");
        push_u(&mut line, k);
        for v in &vs {
            push_meta(&mut line, v);
        }
        let r = VoiceSet::new(vs.into_iter().enumerate().map(|(j, v)| if share && odd != Some(j) { shared.clone() } else { Arc::new(v) }).collect());
        push_s(&mut line, match r {
            Ok(_) => "ok",
            Err(ModelError::EmptyVoice) => "err:empty",
            Err(ModelError::MetadataError) => "err:metadata",
            Err(_) => "err:other",
        });
        push_s(&mut line, what);
        println!("{}", line);
    }
    // ---- voices loaded from FILES that declare different window counts but carry the same number of window rows: voice B
    // announces one window fewer than A (its PDFs are cut for that) and still lists all of A's window rows. The declared
    // counts differ, so the set must be refused (seeded change C19i: the constructor replaced the declared count by the number
    // of rows, after which the two looked alike). Control: B against itself is accepted.
    for t in 0..(if thorough { 40 } else { 6 }) {
        let cfg = VoiceCfg { nstream: rng.range(2, 3), stage: 0, nstate: rng.range(1, 3), max_leaves: 3 };
        let a = VoiceSpec::random(&mut rng, &cfg, &pool);
        let Some(k) = (0..a.streams.len()).find(|k| a.streams[*k].windows.len() >= 2) else { continue };
        let mut b = a.clone();
        {
            let st = &mut b.streams[k];
            let (nwin, vl) = (st.windows.len(), st.veclen);
            let keep = vl * (nwin - 1);
            for tree in st.model.pdfs.iter_mut() {
                for pdf in tree.iter_mut() {
                    let mut v: Vec<f32> = pdf[..keep].to_vec();
                    v.extend_from_slice(&pdf[vl * nwin..vl * nwin + keep]);
                    if st.is_msd { v.push(pdf[2 * vl * nwin]); }
                    *pdf = v;
                }
            }
            st.declared_nwin = Some(nwin - 1);
        }
        let (pa, pb) = (format!("{}/voices/c19w_{}_{}_a.htsvoice", work_dir(), std::process::id(), t), format!("{}/voices/c19w_{}_{}_b.htsvoice", work_dir(), std::process::id(), t));
        a.write(&pa);
        b.write(&pb);
        let (va, vb) = (load_htsvoice_file(&pa), load_htsvoice_file(&pb));
        let _ = std::fs::remove_file(&pa);
        let _ = std::fs::remove_file(&pb);
        let (Ok(va), Ok(vb)) = (va, vb) else { continue };
        for (pair, label) in [(vec![va.clone(), vb.clone()], "windows_count_declared"), (vec![vb.clone(), vb.clone()], "none")] {
            let mut line = String::from("vset");
            push_u(&mut line, 2);
            // the metadata as the FILES declare it (the loaded structs may have been "normalised")
            for (j, v) in pair.iter().enumerate() {
                let mut m = v.clone();
                let declared_b = b.streams[k].declared_nwin.unwrap();
                let is_b = label == "none" || j == 1;
                m.stream_models[k].metadata.num_windows = if is_b { declared_b } else { a.streams[k].windows.len() };
                push_meta(&mut line, &m);
            }
            let r = VoiceSet::new(pair.into_iter().map(Arc::new).collect());
            push_s(&mut line, match r {
                Ok(_) => "ok",
                Err(ModelError::EmptyVoice) => "err:empty",
                Err(ModelError::MetadataError) => "err:metadata",
                Err(_) => "err:other",
            });
            push_s(&mut line, label);
            println!("{}", line);
        }
    }
    // ---- the `Engine::load` route with files of the SAME NAME in different directories (speaker_a/voice.htsvoice,
    // speaker_b/voice.htsvoice) whose metadata differ in the sampling rate or the frame period: they are different voices and
    // must be refused (seeded change C19k: parsed voices cached by file name, so the second file was never read)
    for t in 0..(if thorough { 20 } else { 3 }) {
        let cfg = VoiceCfg { nstream: rng.range(2, 3), stage: 0, nstate: rng.range(1, 3), max_leaves: 3 };
        let a = VoiceSpec::random(&mut rng, &cfg, &pool);
        let mut b = a.clone();
        if t % 2 == 0 { b.sr = a.sr + 100; } else { b.fp = a.fp + 1; }
        let (da, db) = (format!("{}/voices/c19k_{}_{}_a", work_dir(), std::process::id(), t), format!("{}/voices/c19k_{}_{}_b", work_dir(), std::process::id(), t));
        let _ = std::fs::create_dir_all(&da);
        let _ = std::fs::create_dir_all(&db);
        let (pa, pb) = (format!("{}/voice.htsvoice", da), format!("{}/voice.htsvoice", db));
        a.write(&pa);
        b.write(&pb);
        if let (Ok(va), Ok(vb)) = (load_htsvoice_file(&pa), load_htsvoice_file(&pb)) {
            for (paths, voices, label) in [(vec![pa.clone(), pb.clone()], vec![va.clone(), vb.clone()], "same-file-name-other-directory"),
                                          (vec![pa.clone(), pa.clone()], vec![va.clone(), va.clone()], "none")] {
                let mut line = String::from("vset");
                push_u(&mut line, 2);
                for v in &voices { push_meta(&mut line, v); }
                let r = catch(std::panic::AssertUnwindSafe(|| Engine::load(&paths).map(|_| ())));
                push_s(&mut line, match r { Ok(Ok(())) => "ok", Ok(Err(_)) => "err:metadata", Err(_) => "err:other" });
                push_s(&mut line, label);
                println!("{}", line);
            }
        }
        let _ = std::fs::remove_dir_all(&da);
        let _ = std::fs::remove_dir_all(&db);
    }
    // ---- weight histories followed by synthesis
    let nhist = if thorough { 3000 } else { 300 };
    let mut cached: Option<(Vec<Arc<Voice>>, usize)> = None;
    for h in 0..nhist {
        if h % 25 == 0 || cached.is_none() {
            let k = rng.range(1, 4);
            let (vs, cfg) = compatible_voices(&mut rng, k, &pool, false);
            cached = Some((vs, cfg.nstream));
        }
        let (vs, ns) = cached.clone().unwrap();
        let nv = vs.len();
        let mut engine = engine_of(vs.clone()).expect("compatible voices");
        let mut reference = engine_of(vs.clone()).expect("compatible voices");
        let nops = rng.range(1, 6);
        let mut line = String::from("wset");
        push_u(&mut line, nv);
        push_u(&mut line, ns);
        push_u(&mut line, nops);
        push_iw(&mut line, engine.condition.get_interporation_weight(), ns);
        let mut nv = nv;
        for _ in 0..nops {
            if rng.chance(0.12) {
                // another voice set (same family, another number of voices) loaded into the condition in use: the weight vectors
                // are rebuilt for the new voice count (seeded change C19g: rebuilt only when the stream count changes)
                let k2 = rng.range(1, 4);
                let new_vs: Vec<Arc<Voice>> = (0..k2).map(|j| vs[j % vs.len()].clone()).collect();
                for e in [&mut engine, &mut reference] {
                    e.voices = VoiceSet::new(new_vs.clone()).expect("compatible voices");
                    let v2 = e.voices.clone();
                    e.condition.load_model(&v2).expect("load_model");
                }
                nv = k2;
                push_s(&mut line, "reload");
                push_u(&mut line, k2);
                push_fs(&mut line, &[]);
                push_s(&mut line, "reload");
                push_s(&mut line, "ok");
                push_iw(&mut line, engine.condition.get_interporation_weight(), ns);
                continue;
            }
            let (w, kind) = random_weights(&mut rng, nv);
            let which = rng.below(3);
            let i = rng.below(ns);
            let iw = engine.condition.get_interporation_weight_mut();
            let r = match which {
                0 => iw.set_duration(&w),
                1 => iw.set_parameter(i, &w),
                _ => iw.set_gv(i, &w),
            };
            if r.is_ok() {
                let riw = reference.condition.get_interporation_weight_mut();
                let _ = match which {
                    0 => riw.set_duration(&w),
                    1 => riw.set_parameter(i, &w),
                    _ => riw.set_gv(i, &w),
                };
            }
            push_s(&mut line, ["dur", "par", "gv"][which]);
            push_u(&mut line, i);
            push_fs(&mut line, &w);
            push_s(&mut line, kind);
            push_s(&mut line, res_tok(&r));
            push_iw(&mut line, engine.condition.get_interporation_weight(), ns);
        }
        // synthesis after the history == synthesis of an engine that only ever saw the accepted updates
        let labels: Vec<String> = { let s = rng.below(corpus.len() - 2); corpus[s..s + 2].to_vec() };
        let a = catch(std::panic::AssertUnwindSafe(|| engine.synthesize(labels.clone()).map_err(|e| format!("{e}"))));
        let b = catch(std::panic::AssertUnwindSafe(|| reference.synthesize(labels.clone()).map_err(|e| format!("{e}"))));
        let same = match (&a, &b) {
            (Ok(Ok(x)), Ok(Ok(y))) => x.len() == y.len() && x.iter().zip(y).all(|(p, q)| p.to_bits() == q.to_bits()),
            _ => false,
        };
        push_s(&mut line, "synth");
        push_u(&mut line, same as usize);
        push_u(&mut line, a.as_ref().ok().and_then(|r| r.as_ref().ok()).map(|w| w.len()).unwrap_or(0));
        println!("{}", line);
    }
}

fn push_mp(line: &mut String, p: &ModelParameter) {
    push_u(line, p.parameters.len());
    for mv in &p.parameters {
        push_f(line, mv.0);
        push_f(line, mv.1);
    }
    match p.msd {
        Some(m) => { push_u(line, 1); push_f(line, m); }
        None => push_u(line, 0),
    }
}

pub fn gen_c10(seed: u64, thorough: bool) {
    let mut rng = Rng::new(seed);
    let pool = question_pool();
    let corpus = corpus();
    let nsets = if thorough { 300 } else { 24 };
    let bundled = Arc::new(load_htsvoice_file(&BUNDLED_VOICE).expect("bundled"));
    for s in 0..nsets {
        let (vs, ns): (Vec<Arc<Voice>>, usize) = if s % 6 == 5 {
            // the bundled voice blended with itself (identical voices)
            let k = rng.range(1, 3);
            ((0..k).map(|_| bundled.clone()).collect(), 3)
        } else {
            let k = rng.range(1, 4);
            let (v, cfg) = compatible_voices2(&mut rng, k, &pool, s % 6 == 4, s % 6 == 2);
            (v, cfg.nstream)
        };
        let nv = vs.len();
        let identical = s % 6 >= 4;
        let mut engine = engine_of(vs.clone()).expect("compatible voices");
        // independent weight vector per quantity, reached through a history of setter calls (any order over the quantities,
        // throwaway and rejected updates in between); the oracle gets the vectors the caller meant, not what is read back
        let want = weight_history(&mut rng, &mut engine, nv, ns);
        let nlab = if s % 6 == 2 { rng.range(4, 8) } else { rng.range(1, 3) };
        let labels: Vec<jlabel::Label> = (0..nlab).map(|_| corpus[rng.below(corpus.len())].parse().unwrap()).collect();
        let iw = engine.condition.get_interporation_weight().clone();
        let models = Models::new(&labels, &engine.voices, &iw);
        let nstate = models.nstate();
        let mut head = String::new();
        push_u(&mut head, nv);
        push_u(&mut head, ns);
        push_want(&mut head, &want);
        push_u(&mut head, identical as usize);
        // duration
        let dur = models.duration();
        for (l, label) in labels.iter().enumerate() {
            let mut line = format!("wavg{} sel dur 0", head);
            for v in &vs {
                push_mp(&mut line, v.duration_model.get_parameter(2, label));
            }
            let got = ModelParameter { parameters: dur[l * nstate..(l + 1) * nstate].to_vec(), msd: None };
            push_mp(&mut line, &got);
            println!("{}", line);
        }
        for i in 0..ns {
            let ms = models.model_stream(i);
            let is_msd = engine.voices.stream_metadata(i).is_msd;
            for (l, label) in labels.iter().enumerate() {
                for st in 0..nstate {
                    let mut line = format!("wavg{} sel par {}", head, i);
                    for v in &vs {
                        push_mp(&mut line, v.stream_models[i].stream_model.get_parameter(st + 2, label));
                    }
                    let (p, msd) = &ms.stream[l * nstate + st];
                    let got = ModelParameter { parameters: p.clone(), msd: if is_msd { Some(*msd) } else { None } };
                    push_mp(&mut line, &got);
                    println!("{}", line);
                }
            }
            if let Some((gvp, _)) = &ms.gv {
                let mut line = format!("wavg{} sel gv {}", head, i);
                for v in &vs {
                    push_mp(&mut line, v.stream_models[i].gv_model.as_ref().unwrap().get_parameter(2, &labels[0]));
                }
                let got = ModelParameter { parameters: gvp.clone(), msd: None };
                push_mp(&mut line, &got);
                println!("{}", line);
            }
        }
    }
}
