//! Synthetic `.htsvoice` files: a plain-data `VoiceSpec`, a random generator for it, and a writer.
//! Every generated voice goes through the real loader (`load_htsvoice_file`), so that C04 checks the
//! loader against the spec and every other property uses voices exactly as a user would get them.
#![allow(dead_code)]

use crate::util::*;
use std::fmt::Write as _;

#[derive(Clone, Debug)]
pub enum Child {
    Node(isize),
    Pdf(usize),
}

#[derive(Clone, Debug)]
pub struct Row {
    pub id: isize,
    pub qname: String,
    pub no: Child,
    pub yes: Child,
}

#[derive(Clone, Debug)]
pub struct TreeSpec {
    pub state: usize,
    /// `None`: a `{ rows }` tree; `Some(k)`: the single-leaf form selecting PDF k
    pub single: Option<usize>,
    pub rows: Vec<Row>,
}

#[derive(Clone, Debug)]
pub struct ModelSpec {
    pub tag: String,
    pub quoted: bool,
    pub questions: Vec<(String, Vec<String>)>,
    pub trees: Vec<TreeSpec>,
    /// per tree, per PDF (1-based id = index+1), the linear float32 layout of the file
    pub pdfs: Vec<Vec<Vec<f32>>>,
}

#[derive(Clone, Debug)]
pub struct StreamSpec {
    pub name: String,
    pub veclen: usize,
    pub is_msd: bool,
    pub use_gv: bool,
    pub options: Vec<String>,
    pub windows: Vec<Vec<f64>>,
    /// `NUM_WINDOWS` as written in the header when it is to differ from the number of window rows (`STREAM_WIN` entries)
    pub declared_nwin: Option<usize>,
    pub model: ModelSpec,
    pub gv: Option<ModelSpec>,
}

#[derive(Clone, Debug)]
pub struct VoiceSpec {
    pub sr: usize,
    pub fp: usize,
    pub nstate: usize,
    pub streams: Vec<StreamSpec>,
    pub duration: ModelSpec,
    pub gv_off: Vec<String>,
    pub stage: usize,
    pub alpha: f64,
    pub log_gain: bool,
}

impl VoiceSpec {
    /// load-only variation of the stream shapes (C04: "vector lengths", "stream sets"): the MSD stream gets a
    /// vector length of 1..3 and a non-MSD stream beyond the spectrum may become MSD. PDFs are rebuilt in the
    /// file layout `means (veclen*nwin) | variances (veclen*nwin) | [msd weight]`. Not for synthesis.
    pub fn vary_shapes(&mut self, rng: &mut Rng) {
        for (si, st) in self.streams.iter_mut().enumerate() {
            if si == 0 { continue; }
            let new_len = if st.is_msd { rng.range(1, 3) } else { st.veclen };
            let new_msd = st.is_msd || rng.chance(0.4);
            if new_len == st.veclen && new_msd == st.is_msd { continue; }
            let nwin = st.windows.len();
            for tree in st.model.pdfs.iter_mut() {
                for pdf in tree.iter_mut() {
                    let mut v: Vec<f32> = (0..new_len * nwin).map(|_| rng.uniform(-2.0, 6.0) as f32).collect();
                    v.extend((0..new_len * nwin).map(|_| rng.log_uniform(0.001, 0.5) as f32));
                    if new_msd { v.push(rng.unit() as f32); }
                    *pdf = v;
                }
            }
            if let Some(g) = st.gv.as_mut() {
                for tree in g.pdfs.iter_mut() {
                    for pdf in tree.iter_mut() {
                        let mut v: Vec<f32> = (0..new_len).map(|_| rng.log_uniform(0.005, 0.3) as f32).collect();
                        v.extend((0..new_len).map(|_| rng.log_uniform(0.0001, 0.01) as f32));
                        *pdf = v;
                    }
                }
            }
            st.veclen = new_len;
            st.is_msd = new_msd;
        }
    }
}

/// the bundled voice's questions (name, patterns), read from the file text by a plain scan
pub fn question_pool() -> Vec<(String, Vec<String>)> {
    let bytes = std::fs::read(BUNDLED_VOICE).expect("bundled voice");
    let mut out: Vec<(String, Vec<String>)> = Vec::new();
    let mut seen = std::collections::HashSet::new();
    for line in bytes.split(|b| *b == b'\n') {
        if !line.starts_with(b"QS ") {
            continue;
        }
        let Ok(s) = std::str::from_utf8(line) else { continue };
        let Some(open) = s.find('{') else { continue };
        let Some(close) = s.rfind('}') else { continue };
        let name = s[3..open].trim().to_string();
        let pats: Vec<String> = s[open + 1..close]
            .split(',')
            .map(|p| p.trim().trim_matches('"').to_string())
            .filter(|p| !p.is_empty())
            .collect();
        if seen.insert(name.clone()) {
            out.push((name, pats));
        }
    }
    out
}

#[derive(Clone, Copy, Debug, PartialEq)]
pub enum TreeShape {
    Single,
    LeftComb,
    RightComb,
    Random,
}

/// a tree over `leaves` PDFs
pub fn random_tree(rng: &mut Rng, state: usize, leaves: usize, shape: TreeShape, pool: &[(String, Vec<String>)], used: &mut Vec<usize>) -> TreeSpec {
    if leaves <= 1 || shape == TreeShape::Single {
        return TreeSpec { state, single: Some(1), rows: vec![] };
    }
    // build a full binary tree with `leaves` leaves; nodes numbered in creation order (BFS-like):
    // every child reference points to a later row, as in HTS files
    #[derive(Clone)]
    enum N {
        Leaf,
        Inner(usize, usize),
    }
    let mut nodes: Vec<N> = vec![N::Leaf];
    let mut leaf_ids: Vec<usize> = vec![0];
    while leaf_ids.len() < leaves {
        let pick = match shape {
            TreeShape::LeftComb | TreeShape::RightComb => leaf_ids.len() - 1,
            _ => rng.below(leaf_ids.len()),
        };
        let at = leaf_ids.remove(pick);
        let a = nodes.len();
        nodes.push(N::Leaf);
        let b = nodes.len();
        nodes.push(N::Leaf);
        nodes[at] = N::Inner(a, b);
        match shape {
            TreeShape::LeftComb => {
                leaf_ids.push(b);
                leaf_ids.push(a); // keep splitting the `no` side
            }
            _ => {
                leaf_ids.push(a);
                leaf_ids.push(b);
            }
        }
    }
    // row numbering: inner nodes in index order get ids 0, -1, -2 …
    let mut inner_index = vec![usize::MAX; nodes.len()];
    let mut k = 0;
    for (i, n) in nodes.iter().enumerate() {
        if matches!(n, N::Inner(..)) {
            inner_index[i] = k;
            k += 1;
        }
    }
    // leaves get PDF ids 1..=leaves in a shuffled order
    let mut pdf_ids: Vec<usize> = (1..=leaves).collect();
    for i in (1..pdf_ids.len()).rev() {
        let j = rng.below(i + 1);
        pdf_ids.swap(i, j);
    }
    let mut next_leaf = 0;
    let mut leaf_pdf = vec![0usize; nodes.len()];
    for (i, n) in nodes.iter().enumerate() {
        if matches!(n, N::Leaf) {
            leaf_pdf[i] = pdf_ids[next_leaf];
            next_leaf += 1;
        }
    }
    let child = |i: usize| -> Child {
        match nodes[i] {
            N::Leaf => Child::Pdf(leaf_pdf[i]),
            N::Inner(..) => Child::Node(-(inner_index[i] as isize)),
        }
    };
    let mut rows = Vec::new();
    for (i, n) in nodes.iter().enumerate() {
        if let N::Inner(a, b) = n {
            let qi = rng.below(pool.len());
            if !used.contains(&qi) {
                used.push(qi);
            }
            rows.push(Row { id: -(inner_index[i] as isize), qname: pool[qi].0.clone(), no: child(*a), yes: child(*b) });
        }
    }
    TreeSpec { state, single: None, rows }
}

pub struct VoiceCfg {
    pub nstream: usize,
    pub stage: usize,
    pub nstate: usize,
    pub max_leaves: usize,
}

fn f0_pdf(rng: &mut Rng, nwin: usize) -> Vec<f32> {
    // layout: means (nwin) | variances (nwin) | msd weight
    let mut v = Vec::new();
    v.push(rng.uniform(80.0f64, 320.0).ln() as f32);
    for _ in 1..nwin {
        v.push(rng.uniform(-0.02, 0.02) as f32);
    }
    for w in 0..nwin {
        v.push(if w == 0 { rng.uniform(0.002, 0.05) } else { rng.uniform(0.0005, 0.01) } as f32);
    }
    let msd = match rng.below(4) {
        0 => rng.uniform(0.0, 0.2),
        1 => rng.uniform(0.8, 1.0),
        2 => 0.5,
        _ => rng.unit(),
    };
    v.push(msd as f32);
    signed_zero_means(rng, &mut v, 1, nwin);
    v
}

/// value class: a few mean entries in `lo..hi` become exactly +0.0 or -0.0 (float32 0x80000000) — a dynamic-feature mean of
/// exactly zero is what a stationary segment has, and the sign of a zero must survive to synthesis bit for bit
/// (seeded changes C04g, C05g)
fn signed_zero_means(rng: &mut Rng, v: &mut [f32], lo: usize, hi: usize) {
    if hi <= lo || !rng.chance(0.2) { return; }
    for _ in 0..rng.range(1, 2) {
        let k = rng.range(lo, hi - 1);
        v[k] = if rng.chance(0.5) { -0.0 } else { 0.0 };
    }
}

fn spectrum_pdf(rng: &mut Rng, veclen: usize, nwin: usize, stage: usize, log_gain: bool) -> Vec<f32> {
    let mut means = Vec::new();
    if stage == 0 {
        for k in 0..veclen {
            means.push(if k == 0 { rng.uniform(0.0, 3.0) } else { rng.normal() * 0.35 / (k as f64).sqrt() });
        }
    } else {
        // gain, then increasing well-separated line spectral frequencies in (0, pi)
        let order = veclen - 1;
        // linear gain: now and then a leaf at or below zero, as an undershooting trajectory would give
        means.push(if log_gain { rng.uniform(-1.0, 1.5) } else if rng.chance(0.15) { rng.uniform(-0.5, 0.05) } else { rng.uniform(0.3, 4.0) });
        let min = std::f64::consts::PI / (2.0 * (order as f64 + 1.0));
        let slack = std::f64::consts::PI - min * (order as f64 + 1.0);
        let mut cuts: Vec<f64> = (0..order).map(|_| rng.unit()).collect();
        cuts.sort_by(|a, b| a.partial_cmp(b).unwrap());
        for (i, c) in cuts.iter().enumerate() {
            means.push(min * (i as f64 + 1.0) + slack * c);
        }
    }
    for _ in veclen..veclen * nwin {
        means.push(rng.normal() * 0.02);
    }
    let mut out: Vec<f32> = means.iter().map(|x| *x as f32).collect();
    for i in 0..veclen * nwin {
        let v = if i < veclen { rng.uniform(0.05, 0.6) } else { rng.uniform(0.01, 0.1) };
        out.push(v as f32);
    }
    // stage 0: any coefficient but the gain; LSP: only the dynamic-feature means (the frequencies must stay increasing)
    signed_zero_means(rng, &mut out, if stage == 0 { 1 } else { veclen }, veclen * nwin);
    out
}

fn lpf_pdf(rng: &mut Rng, veclen: usize, nwin: usize) -> Vec<f32> {
    let mut out = Vec::new();
    for k in 0..veclen * nwin {
        let c = veclen / 2;
        let m = if k < veclen {
            let d = (k as isize - c as isize).abs() as f64;
            if d == 0.0 { rng.uniform(0.4, 0.7) } else { rng.uniform(-0.05, 0.25) / d }
        } else {
            rng.normal() * 0.01
        };
        out.push(m as f32);
    }
    for _ in 0..veclen * nwin {
        out.push(rng.uniform(0.05, 1.0) as f32);
    }
    out
}

pub const WINDOW_SETS: [&[&[f64]]; 7] = [
    &[&[1.0]],
    &[&[1.0], &[-0.5, 0.0, 0.5]],
    &[&[1.0], &[-0.5, 0.0, 0.5], &[1.0, -2.0, 1.0]],
    &[&[1.0], &[-0.2, -0.1, 0.0, 0.1, 0.2], &[0.285714, -0.142857, -0.285714, -0.142857, 0.285714]],
    &[&[1.0], &[-1.0, 1.0, 0.0]],
    // window sets whose widest window is not the last one (seeded change C01g: band width from the last window)
    &[&[1.0], &[-0.2, -0.1, 0.0, 0.1, 0.2], &[1.0, -2.0, 1.0]],
    &[&[1.0], &[-0.2, -0.1, 0.0, 0.1, 0.2]],
];

impl VoiceSpec {
    pub fn random(rng: &mut Rng, cfg: &VoiceCfg, pool: &[(String, Vec<String>)]) -> VoiceSpec {
        let mut m = rng.fork();
        Self::random2(&mut m, rng, cfg, pool)
    }

    /// `m` decides everything that is *metadata* (rates, vector lengths, windows, GV flags, options),
    /// `rng` decides trees and PDFs: same `m` seed, different `rng` ⇒ compatible voices.
    pub fn random2(m: &mut Rng, rng: &mut Rng, cfg: &VoiceCfg, pool: &[(String, Vec<String>)]) -> VoiceSpec {
        let nstate = cfg.nstate;
        let stage = cfg.stage;
        let log_gain = stage > 0 && m.chance(0.5);
        let alpha = *m.pick(&[0.0, 0.35, 0.42, 0.55]);
        let (sr, fp) = *m.pick(&[(48000usize, 240usize), (16000, 80), (22050, 110), (8000, 40)]);
        let shapes = [TreeShape::Single, TreeShape::LeftComb, TreeShape::RightComb, TreeShape::Random, TreeShape::Random];
        let mk_model = |rng: &mut Rng, tag: &str, states: Vec<usize>, pdf: &mut dyn FnMut(&mut Rng) -> Vec<f32>| -> ModelSpec {
            let mut used = Vec::new();
            let mut trees = Vec::new();
            let mut pdfs = Vec::new();
            for st in states {
                let shape = *rng.pick(&shapes);
                let leaves = if shape == TreeShape::Single { 1 } else { rng.range(2, cfg.max_leaves.max(2)) };
                let t = random_tree(rng, st, leaves, shape, pool, &mut used);
                let n = if t.single.is_some() { 1 } else { leaves };
                pdfs.push((0..n).map(|_| pdf(rng)).collect());
                trees.push(t);
            }
            // the trees of a model in any order in the file (each `{*}[state]` carries its state; the PDF lists follow the
            // order of the trees): selection goes by the declared state, not by position (seeded change C04h)
            if trees.len() > 1 && rng.chance(0.4) {
                for i in (1..trees.len()).rev() {
                    let j = rng.below(i + 1);
                    trees.swap(i, j);
                    pdfs.swap(i, j);
                }
            }
            // a few unused questions too
            for _ in 0..rng.below(3) {
                let qi = rng.below(pool.len());
                if !used.contains(&qi) {
                    used.push(qi);
                }
            }
            used.sort();
            let mut questions: Vec<(String, Vec<String>)> = used.iter().map(|i| pool[*i].clone()).collect();
            // question names are local to a model: now and then a model numbers its questions `Q0, Q1, …`, so that the same name
            // stands for different patterns in different models of one voice (seeded change C04i: one question table per voice)
            if rng.chance(0.35) {
                for (k, q) in questions.iter_mut().enumerate() {
                    let new = format!("Q{}", k);
                    for t in trees.iter_mut() {
                        for r in t.rows.iter_mut() {
                            if r.qname == q.0 { r.qname = new.clone(); }
                        }
                    }
                    q.0 = new;
                }
            }
            ModelSpec {
                tag: tag.to_string(),
                quoted: rng.chance(0.7),
                questions,
                trees,
                pdfs,
            }
        };
        let duration = mk_model(rng, "dur", vec![2], &mut |rng: &mut Rng| {
            let mut v: Vec<f32> = (0..nstate).map(|_| rng.log_uniform(0.8, 9.0) as f32).collect();
            v.extend((0..nstate).map(|_| rng.log_uniform(0.2, 20.0) as f32));
            v
        });
        let mut streams = Vec::new();
        for si in 0..cfg.nstream {
            let (name, veclen, is_msd) = match si {
                0 => (if stage == 0 { "MCP" } else { "LSP" }, if stage == 0 { m.range(3, 8) } else { m.range(3, 9) }, false),
                1 => ("LF0", 1, true),
                _ => ("LPF", *m.pick(&[1usize, 3, 5, 7]), false),
            };
            let wset = if si == 2 { WINDOW_SETS[0] } else { *m.pick(&WINDOW_SETS[..]) };
            let windows: Vec<Vec<f64>> = wset.iter().map(|w| w.to_vec()).collect();
            let nwin = windows.len();
            // a GV model on the low-pass stream too, now and then (seeded change C11g: the low-pass stream read the log-F0
            // stream's threshold and GV weight, which only shows when the low-pass stream uses one of them)
            let use_gv = if si < 2 { m.chance(0.6) } else { m.chance(0.3) };
            let states: Vec<usize> = (2..2 + nstate).collect();
            let model = match si {
                0 => mk_model(rng, "mcp", states, &mut |rng: &mut Rng| spectrum_pdf(rng, veclen, nwin, stage, log_gain)),
                1 => mk_model(rng, "lf0", states, &mut |rng: &mut Rng| f0_pdf(rng, nwin)),
                _ => mk_model(rng, "lpf", states, &mut |rng: &mut Rng| lpf_pdf(rng, veclen, nwin)),
            };
            let gv = if use_gv {
                Some(mk_model(rng, "gv", vec![2], &mut |rng: &mut Rng| {
                    let mut v: Vec<f32> = (0..veclen).map(|_| rng.log_uniform(0.005, 0.3) as f32).collect();
                    v.extend((0..veclen).map(|_| rng.log_uniform(0.0001, 0.01) as f32));
                    v
                }))
            } else {
                None
            };
            let mut options = Vec::new();
            if si == 0 {
                if stage > 0 {
                    options.push(format!("GAMMA={}", stage));
                    options.push(format!("LN_GAIN={}", log_gain as usize));
                }
                options.push(format!("ALPHA={}", alpha));
                // the header's option entries in any order, and the flags also spelled out at stage 0
                // (seeded change C04f: a default that depends on the order in which the entries are visited)
                if stage == 0 {
                    match m.below(4) {
                        0 => options.push(format!("LN_GAIN={}", log_gain as usize)),
                        1 => { options.push("GAMMA=0".to_string()); options.push(format!("LN_GAIN={}", log_gain as usize)); }
                        _ => {}
                    }
                }
                // entries the engine does not know (skipped with a notice) among the known ones
                if m.chance(0.25) { options.push("PITCH_SHIFT=2".to_string()); }
                if m.chance(0.1) { options.push("EXPERIMENTAL".to_string()); }
                for i in (1..options.len()).rev() {
                    let j = m.below(i + 1);
                    options.swap(i, j);
                }
            }
            streams.push(StreamSpec { name: name.to_string(), veclen, is_msd, use_gv, options, windows, declared_nwin: None, model, gv });
        }
        VoiceSpec { sr, fp, nstate, streams, duration, gv_off: vec!["*-sil+*".into(), "*-pau+*".into()], stage, alpha, log_gain }
    }

    pub fn to_bytes(&self) -> Vec<u8> {
        let mut data: Vec<u8> = Vec::new();
        let mut put = |blob: &[u8]| -> (usize, usize) {
            let a = data.len();
            data.extend_from_slice(blob);
            (a, data.len() - 1)
        };
        let dur_pdf = put(&pdf_bytes(&self.duration));
        let dur_tree = put(tree_text(&self.duration).as_bytes());
        let mut pos = String::new();
        let _ = writeln!(pos, "DURATION_PDF:{}-{}", dur_pdf.0, dur_pdf.1);
        let _ = writeln!(pos, "DURATION_TREE:{}-{}", dur_tree.0, dur_tree.1);
        let mut win_lines = String::new();
        let mut pdf_lines = String::new();
        let mut tree_lines = String::new();
        let mut gvp_lines = String::new();
        let mut gvt_lines = String::new();
        for s in &self.streams {
            let mut ranges = Vec::new();
            for w in &s.windows {
                let mut t = format!("{}", w.len());
                for c in w {
                    let _ = write!(t, " {:?}", c);
                }
                t.push('\n');
                let r = put(t.as_bytes());
                ranges.push(format!("{}-{}", r.0, r.1));
            }
            let _ = writeln!(win_lines, "STREAM_WIN[{}]:{}", s.name, ranges.join(","));
        }
        for s in &self.streams {
            let r = put(&pdf_bytes(&s.model));
            let _ = writeln!(pdf_lines, "STREAM_PDF[{}]:{}-{}", s.name, r.0, r.1);
        }
        for s in &self.streams {
            let r = put(tree_text(&s.model).as_bytes());
            let _ = writeln!(tree_lines, "STREAM_TREE[{}]:{}-{}", s.name, r.0, r.1);
        }
        for s in &self.streams {
            if let Some(g) = &s.gv {
                let r = put(&pdf_bytes(g));
                let _ = writeln!(gvp_lines, "GV_PDF[{}]:{}-{}", s.name, r.0, r.1);
            }
        }
        for s in &self.streams {
            if let Some(g) = &s.gv {
                let r = put(tree_text(g).as_bytes());
                let _ = writeln!(gvt_lines, "GV_TREE[{}]:{}-{}", s.name, r.0, r.1);
            }
        }
        let mut h = String::new();
        // the two version entries are independent header fields: usually both "1.0", here also unlike each other (chosen from the
        // metadata, so compatible voices agree) (seeded change C04j: the two strings cross-assigned)
        let ver = ["1.0", "1.05", "1.0"][(self.sr / 1000 + self.nstate) % 3];
        let fver = ["1.0", "1.0", "2.1a", "0.9"][(self.fp + self.nstate) % 4];
        let _ = writeln!(h, "[GLOBAL]\nHTS_VOICE_VERSION:{}", ver);
        let _ = writeln!(h, "SAMPLING_FREQUENCY:{}", self.sr);
        let _ = writeln!(h, "FRAME_PERIOD:{}", self.fp);
        let _ = writeln!(h, "NUM_STATES:{}", self.nstate);
        let _ = writeln!(h, "NUM_STREAMS:{}", self.streams.len());
        let names: Vec<&str> = self.streams.iter().map(|s| s.name.as_str()).collect();
        let _ = writeln!(h, "STREAM_TYPE:{}", names.join(","));
        let _ = writeln!(h, "FULLCONTEXT_FORMAT:HTS_TTS_JPN\nFULLCONTEXT_VERSION:{}", fver);
        let off: Vec<String> = self.gv_off.iter().map(|p| format!("\"{}\"", p)).collect();
        let _ = writeln!(h, "GV_OFF_CONTEXT:{}", off.join(","));
        h.push_str("COMMENT:\n[STREAM]\n");
        for s in &self.streams {
            let _ = writeln!(h, "VECTOR_LENGTH[{}]:{}", s.name, s.veclen);
        }
        for s in &self.streams {
            let _ = writeln!(h, "IS_MSD[{}]:{}", s.name, s.is_msd as usize);
        }
        for s in &self.streams {
            let _ = writeln!(h, "NUM_WINDOWS[{}]:{}", s.name, s.declared_nwin.unwrap_or(s.windows.len()));
        }
        for s in &self.streams {
            let _ = writeln!(h, "USE_GV[{}]:{}", s.name, s.use_gv as usize);
        }
        for s in &self.streams {
            let _ = writeln!(h, "OPTION[{}]:{}", s.name, s.options.join(","));
        }
        h.push_str("[POSITION]\n");
        h.push_str(&pos);
        h.push_str(&win_lines);
        h.push_str(&pdf_lines);
        h.push_str(&tree_lines);
        h.push_str(&gvp_lines);
        h.push_str(&gvt_lines);
        h.push_str("[DATA]\n");
        let mut out = h.into_bytes();
        out.extend_from_slice(&data);
        out
    }

    pub fn write(&self, path: &str) {
        if let Some(dir) = std::path::Path::new(path).parent() {
            let _ = std::fs::create_dir_all(dir);
        }
        std::fs::write(path, self.to_bytes()).expect("write voice");
    }
}

pub fn leaf_name(m: &ModelSpec, state: usize, id: usize) -> String {
    let n = format!("{}_s{}_{}", m.tag, state, id);
    if m.quoted {
        format!("\"{}\"", n)
    } else {
        n
    }
}

pub fn tree_text(m: &ModelSpec) -> String {
    let mut t = String::new();
    for (name, pats) in &m.questions {
        let ps: Vec<String> = pats.iter().map(|p| format!("\"{}\"", p)).collect();
        let _ = writeln!(t, "QS {} {{ {} }}", name, ps.join(","));
    }
    if !m.questions.is_empty() {
        t.push('\n');
    }
    for tr in &m.trees {
        let _ = writeln!(t, "{{*}}[{}]", tr.state);
        match tr.single {
            Some(k) => {
                let _ = writeln!(t, "   {}", leaf_name(m, tr.state, k));
            }
            None => {
                t.push_str("{\n");
                for r in &tr.rows {
                    let c = |c: &Child| match c {
                        Child::Node(i) => format!("{}", i),
                        Child::Pdf(k) => leaf_name(m, tr.state, *k),
                    };
                    let _ = writeln!(t, " {:>4} {:<50} {:>16} {:>16} ", r.id, r.qname, c(&r.no), c(&r.yes));
                }
                t.push_str("}\n");
            }
        }
        t.push('\n');
    }
    t
}

pub fn pdf_bytes(m: &ModelSpec) -> Vec<u8> {
    let mut b = Vec::new();
    for p in &m.pdfs {
        b.extend_from_slice(&(p.len() as u32).to_le_bytes());
    }
    for p in &m.pdfs {
        for pdf in p {
            for x in pdf {
                b.extend_from_slice(&x.to_le_bytes());
            }
        }
    }
    b
}

pub fn work_dir() -> String {
    std::env::var("VERIF_WORK").unwrap_or_else(|_| "/verif/work".to_string())
}
