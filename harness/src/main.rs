//! jbharness — runs the real jbonsai code (path dependency on /repo, current working tree) on
//! generated cases and writes one protocol line per case for the Lean driver.
mod c02;
mod c08;
mod c20;
mod util;

fn main() {
    let args: Vec<String> = std::env::args().collect();
    if args.len() < 3 || args[1] != "gen" {
        eprintln!("usage: jbharness gen <Cxx> [--seed N] [--tier quick|thorough]");
        std::process::exit(2);
    }
    let prop = args[2].as_str();
    let mut seed = 1u64;
    let mut thorough = false;
    let mut i = 3;
    while i < args.len() {
        match args[i].as_str() {
            "--seed" => {
                seed = args[i + 1].parse().unwrap_or(1);
                i += 1;
            }
            "--tier" => {
                thorough = args[i + 1] == "thorough";
                i += 1;
            }
            _ => {}
        }
        i += 1;
    }
    match prop {
        "C02" => c02::gen(seed, thorough),
        "C08" => c08::gen_c08(seed, thorough),
        "C09" => c08::gen_c09(seed, thorough),
        "C20" => c20::gen(seed, thorough),
        _ => {
            eprintln!("unknown property {}", prop);
            std::process::exit(2);
        }
    }
}
