//! jbharness — runs the real jbonsai code (path dependency on /repo, current working tree) on
//! generated cases and writes one protocol line per case for the Lean driver.
mod c02;
mod c03;
mod c04;
mod c05;
mod c08;
mod c17;
mod c18;
mod c19;
mod c20;
mod engine;
mod util;
mod voc;
mod voices;

fn main() {
    let args: Vec<String> = std::env::args().collect();
    if args.len() >= 2 && args[1] == "voice-selftest" {
        selftest();
        return;
    }
    if args.len() >= 3 && args[1] == "load" {
        // replay of one voice file through the real loader, panics with their full message
        match jbonsai::model::load_htsvoice_file(&args[2]) {
            Ok(v) => println!("ok: {} streams", v.stream_models.len()),
            Err(e) => println!("error: {}", e),
        }
        return;
    }
    if args.len() >= 3 && args[1] == "synth" {
        // replay: load one voice file through `Engine::load` and synthesize the first corpus labels; outcome on stdout
        let n: usize = args.get(3).and_then(|s| s.parse().ok()).unwrap_or(2);
        let labels: Vec<String> = util::corpus().into_iter().take(n).collect();
        let path = args[2].clone();
        let r = util::catch(std::panic::AssertUnwindSafe(move || {
            jbonsai::Engine::load(&[path]).map_err(|e| format!("load error: {e}")).and_then(|e| e.synthesize(labels).map(|w| w.len()).map_err(|e| format!("synthesis error: {e}")))
        }));
        match r {
            Ok(Ok(n)) => println!("ok: {} samples", n),
            Ok(Err(e)) => println!("{}", e),
            Err(site) => println!("PANIC at {}", site),
        }
        return;
    }
    if args.len() < 3 || args[1] != "gen" {
        eprintln!("usage: jbharness gen <Cxx> [--seed N] [--tier quick|thorough]");
        std::process::exit(2);
    }
    let prop = args[2].as_str();
    let mut seed = 1u64;
    let mut thorough = false;
    let mut i = 3;
    while i < args.len() {
        match args[i].as_str() {
            "--seed" => {
                seed = args[i + 1].parse().unwrap_or(1);
                i += 1;
            }
            "--tier" => {
                thorough = args[i + 1] == "thorough";
                i += 1;
            }
            _ => {}
        }
        i += 1;
    }
    match prop {
        "C01" => engine::gen_c01(seed, thorough),
        "C02" => c02::gen(seed, thorough),
        "C03" => { c03::gen(seed, thorough); engine::gen_plumb(seed, "C03", thorough) }
        "C04" => { c04::gen(seed, thorough); engine::gen_tie_e2e(seed, "C04", thorough) }
        "C05" => { c05::gen_c05(seed, thorough); engine::gen_tie(seed, "C05", thorough); engine::gen_plumb(seed, "C05", thorough) }
        "VOC0" => voc::gen_raw(seed, thorough, false),
        "VOC1" => voc::gen_raw(seed, thorough, true),
        "C06" => { voc::gen_c06(seed, thorough); engine::gen_tie(seed, "C06", thorough); engine::gen_plumb(seed, "C06", thorough) }
        "C07" => { voc::gen_c07(seed, thorough); engine::gen_tie(seed, "C07", thorough); engine::gen_plumb(seed, "C07", thorough) }
        "C11" => { engine::gen_c11(seed, thorough); voc::gen_c11_render(seed, thorough); c05::gen_mask_class(seed, thorough); engine::gen_tie(seed, "C11", thorough); engine::gen_plumb(seed, "C11", thorough) }
        "C12" => { engine::gen_c12(seed, thorough); engine::gen_tie(seed, "C12", thorough); engine::gen_plumb(seed, "C12", thorough) }
        "C13" => { voc::gen_c13(seed, thorough); engine::gen_tie(seed, "C13", thorough); engine::gen_plumb(seed, "C13", thorough) }
        "C14" => { voc::gen_c14(seed, thorough); engine::gen_tie(seed, "C14", thorough); engine::gen_plumb(seed, "C14", thorough) }
        "C08" => { c08::gen_c08(seed, thorough); engine::gen_tie(seed, "C08", thorough); engine::gen_plumb(seed, "C08", thorough) }
        "C09" => { c08::gen_c09(seed, thorough); engine::gen_tie(seed, "C09", thorough); engine::gen_plumb(seed, "C09", thorough) }
        "C10" => { c19::gen_c10(seed, thorough); engine::gen_tie_e2e(seed, "C10", thorough) }
        "C15" => { engine::gen_c15(seed, thorough); engine::gen_tie(seed, "C15", thorough); engine::gen_plumb(seed, "C15", thorough) }
        "C16" => { engine::gen_c16(seed, thorough); engine::gen_tie(seed, "C16", thorough); engine::gen_plumb(seed, "C16", thorough) }
        "C17" => c17::gen(seed, thorough),
        "C18" => c18::gen(seed, thorough),
        "C19" => c19::gen_c19(seed, thorough),
        "C20" => { c20::gen(seed, thorough); engine::gen_plumb(seed, "C20", thorough) }
        _ => {
            eprintln!("unknown property {}", prop);
            std::process::exit(2);
        }
    }
}

fn selftest() {
    use util::*;
    let pool = voices::question_pool();
    eprintln!("question pool: {}", pool.len());
    let mut rng = Rng::new(7);
    let corpus = corpus();
    for i in 0..40 {
        let cfg = voices::VoiceCfg { nstream: 2 + (i % 2), stage: if i % 4 < 2 { 0 } else { 1 + i % 3 }, nstate: 1 + i % 7, max_leaves: 6 };
        let spec = voices::VoiceSpec::random(&mut rng, &cfg, &pool);
        let path = format!("{}/voices/selftest_{}.htsvoice", voices::work_dir(), i);
        spec.write(&path);
        let r = catch(std::panic::AssertUnwindSafe(|| jbonsai::Engine::load(&[&path])));
        match r {
            Ok(Ok(e)) => {
                let labels: Vec<String> = corpus[10..14].to_vec();
                let w = catch(std::panic::AssertUnwindSafe(|| e.synthesize(labels)));
                match w {
                    Ok(Ok(w)) => eprintln!("voice {i} nstream={} stage={} nstate={}: {} samples, finite={}", cfg.nstream, cfg.stage, cfg.nstate, w.len(), w.iter().all(|x| x.is_finite())),
                    Ok(Err(e)) => eprintln!("voice {i}: synth err {e}"),
                    Err(site) => eprintln!("voice {i} nstream={} stage={}: synth PANIC {site}", cfg.nstream, cfg.stage),
                }
            }
            Ok(Err(e)) => eprintln!("voice {i}: load err {e}"),
            Err(site) => eprintln!("voice {i}: load PANIC {site}"),
        }
    }
}
