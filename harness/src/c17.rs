//! C17: the four label input forms agree; corrupted label text is an error, never a panic.
use crate::engine::*;
use crate::util::*;
use jbonsai::label::{LabelError, Labels};

fn bits_eq(a: &[f64], b: &[f64]) -> bool {
    a.len() == b.len() && a.iter().zip(b).all(|(x, y)| x.to_bits() == y.to_bits())
}

fn corrupt(rng: &mut Rng, line: &str) -> (String, &'static str) {
    let with_times = |rng: &mut Rng, a: &str, b: &str| format!("{} {} {}", a, b, line);
    // a multi-byte character put inside the (ASCII) label text at a byte offset around 64 or anywhere: whatever a
    // reporting path does with byte offsets of the offending line must respect character boundaries (seeded change C17h)
    let inject = |rng: &mut Rng, l: &str| -> String {
        let ch = *rng.pick(&["盆", "é", "😀", "栽"]);
        let lo = if rng.chance(0.7) { 40usize.min(l.len()) } else { 0 };
        let hi = if lo > 0 { 80usize.min(l.len()) } else { l.len() };
        let mut at = if hi > lo { rng.range(lo, hi) } else { lo };
        // (a line corrupted a second time may already hold multi-byte characters)
        while at > 0 && !l.is_char_boundary(at) { at -= 1; }
        let mut s = String::with_capacity(l.len() + 8);
        s.push_str(&l[..at]);
        s.push_str(ch);
        if rng.chance(0.5) { s.push_str(ch); }
        s.push_str(&l[at..]);
        s
    };
    match rng.below(20) {
        16 => { let t = *rng.pick(&["0", "100", "12345678", "1e3"]); let u = inject(rng, line); (format!("{} {}", t, u), "two-tokens-long-unicode") }
        17 => { let u = inject(rng, line); (format!("0 100 {}", u), "times-unicode-label") }
        18 => { let u = inject(rng, line); (u, "unicode-inside") }
        19 => { let u = inject(rng, line); (format!("{} 100", u), "unicode-label-then-token") }
        0 => (with_times(rng, "0", "1000000"), "valid-times"),
        1 => (format!("0 1000000"), "two-tokens"),
        2 => (with_times(rng, "abc", "100"), "bad-start"),
        3 => (with_times(rng, "100", "1e"), "bad-end"),
        4 => (with_times(rng, "nan", "inf"), "nan-inf-times"),
        5 => (with_times(rng, "-5", "1e400"), "negative-huge-times"),
        6 => (format!(" {}", line), "leading-space"),
        7 => (format!("{} ", line), "trailing-space"),
        8 => (format!("0  100 {}", line), "double-space"),
        9 => {
            let mut s = line.to_string();
            let mut cut = rng.below(s.len().max(1));
            while !s.is_char_boundary(cut) { cut -= 1; }
            s.truncate(cut);
            (s, "truncated-label")
        }
        10 => {
            let mut b = line.as_bytes().to_vec();
            for _ in 0..rng.range(1, 4) {
                if b.is_empty() { break; }
                let i = rng.below(b.len());
                b[i] = rng.range(33, 126) as u8;
            }
            (String::from_utf8_lossy(&b).to_string(), "random-bytes")
        }
        11 => (format!("{}盆栽", line), "unicode-tail"),
        12 => (format!("１２ ３４ {}", line), "unicode-times"),
        13 => (format!("{} {}", line, line), "duplicated-label"),
        14 => (String::from("   "), "spaces-only"),
        _ => (with_times(rng, "1e3", "2.5e3"), "exponent-times"),
    }
}

pub fn gen(seed: u64, thorough: bool) {
    let mut rng = Rng::new(seed);
    let src = Sources::new();
    // ---- (a) the four input forms
    let nforms = if thorough { 300 } else { 30 };
    for i in 0..nforms {
        let (mut e, kind) = src.any_engine(&mut rng);
        random_condition(&mut rng, &mut e, true);
        // alignment on for every other case: all forms of unstamped labels still agree (every label falls back to the model
        // durations), and the stamped forms agree with each other (seeded change C17g: parsed labels carried no time entries)
        let align = i % 2 == 1;
        e.condition.set_phoneme_alignment_flag(align);
        let n = rng.range(1, 4);
        let recombine = rng.chance(0.5);
        let mut lines = src.labels(&mut rng, n, recombine);
        // every third case: a label line repeated right after itself (a front end emits identical full-context labels for, e.g.,
        // a doubled pause) — each is a label of its own in every input form (seeded change C17i: the owned-vector form dedup'ed)
        if i % 3 == 2 && n < 4 {
            let k = rng.below(n);
            let dup = lines[k].clone();
            lines.insert(k, dup);
        }
        let n = lines.len();
        let refs: Vec<&str> = lines.iter().map(|s| s.as_str()).collect();
        let parsed: Vec<jlabel::Label> = lines.iter().map(|l| l.parse().unwrap()).collect();
        let w_slice = e.synthesize(&refs[..]).unwrap();
        let w_vec = e.synthesize(lines.clone()).unwrap();
        let w_labels = e.synthesize(parsed).unwrap();
        let w_array = match n {
            1 => e.synthesize(&[lines[0].clone()]).unwrap(),
            2 => e.synthesize(&[lines[0].clone(), lines[1].clone()]).unwrap(),
            3 => e.synthesize(&[lines[0].clone(), lines[1].clone(), lines[2].clone()]).unwrap(),
            _ => e.synthesize(&[lines[0].clone(), lines[1].clone(), lines[2].clone(), lines[3].clone()]).unwrap(),
        };
        // blank lines anywhere
        let mut blanks = Vec::new();
        for l in &lines {
            if rng.chance(0.5) { blanks.push(String::new()); }
            blanks.push(l.clone());
        }
        blanks.push(String::new());
        let w_blank = e.synthesize(blanks).unwrap();
        // time stamps (100 ns units) with alignment off
        let timed: Vec<String> = lines.iter().enumerate().map(|(k, l)| format!("{} {} {}", k * 1000000 + rng.below(1000), (k + 1) * 1000000, l)).collect();
        let w_timed = if align {
            // with alignment on the stamps matter: compare the two stamped forms with each other
            let trefs: Vec<&str> = timed.iter().map(|s| s.as_str()).collect();
            let a = e.synthesize(timed.clone()).unwrap();
            let b = e.synthesize(&trefs[..]).unwrap();
            // … and the array-reference form of the stamped lines (seeded change C17k: that form alone converted the stamps
            // with rate and frame period swapped)
            let c = match timed.len() {
                1 => e.synthesize(&[timed[0].clone()]).unwrap(),
                2 => e.synthesize(&[timed[0].clone(), timed[1].clone()]).unwrap(),
                3 => e.synthesize(&[timed[0].clone(), timed[1].clone(), timed[2].clone()]).unwrap(),
                4 => e.synthesize(&[timed[0].clone(), timed[1].clone(), timed[2].clone(), timed[3].clone()]).unwrap(),
                _ => a.clone(),
            };
            if bits_eq(&a, &b) && bits_eq(&a, &c) { w_slice.clone() } else { a }
        } else { e.synthesize(timed.clone()).unwrap() };
        let mut line = format!("forms {} {}", kind, n);
        push_u(&mut line, bits_eq(&w_slice, &w_vec) as usize);
        push_u(&mut line, bits_eq(&w_slice, &w_array) as usize);
        push_u(&mut line, bits_eq(&w_slice, &w_labels) as usize);
        push_u(&mut line, bits_eq(&w_slice, &w_blank) as usize);
        push_u(&mut line, bits_eq(&w_slice, &w_timed) as usize);
        // units: 100 ns → frames
        let labs = Labels::load_from_strings(e.condition.get_sampling_frequency(), e.condition.get_fperiod(), &timed).unwrap();
        let rate = e.condition.get_sampling_frequency() as f64 / (e.condition.get_fperiod() as f64 * 1e7);
        let want_end = (n as f64) * 1000000.0 * rate;
        push_f(&mut line, labs.times().last().unwrap().1);
        push_f(&mut line, want_end);
        push_u(&mut line, w_slice.len());
        println!("{}", line);
        let _ = i;
    }
    // ---- (a2) units through the engine entry point, under setter histories
    gen_units(&mut rng, &src, if thorough { 300 } else { 40 });
    // ---- (b) corrupted lines
    let ncorr = if thorough { 40000 } else { 2000 };
    let engine = src.bundled.clone();
    for _ in 0..ncorr {
        let n = rng.range(1, 4);
        let rc = rng.below(2) == 0;
        let mut lines = src.labels(&mut rng, n, rc);
        let mut kinds = Vec::new();
        for _ in 0..rng.range(1, 2) {
            let k = rng.below(n);
            let (c, kind) = corrupt(&mut rng, &lines[k].clone());
            lines[k] = c;
            kinds.push(kind);
        }
        if rng.chance(0.2) {
            lines.insert(rng.below(n + 1), String::new());
        }
        if rng.chance(0.15) {
            // no corruption: time-stamped lines (some stamped, some not) with blank lines in between
            lines = src.labels(&mut rng, n, rc);
            let mut t = 0u64;
            let mut out = Vec::new();
            for l in &lines {
                let len = rng.range(1, 40) as u64 * 50000;
                if rng.chance(0.4) { out.push(String::new()); }
                out.push(if rng.chance(0.8) { format!("{} {} {}", t, t + len, l) } else { l.clone() });
                t += len;
            }
            if rng.chance(0.5) { out.push(String::new()); }
            lines = out;
            kinds = vec!["timed-with-blanks"];
        }
        let (sr, fp) = *rng.pick(&[(48000usize, 240usize), (44100, 220), (16000, 80), (48000, 256)]);
        let mut line = format!("lines {} {} {} {}", kinds.join("+"), sr, fp, lines.len());
        for l in &lines {
            push_s(&mut line, &esc(l));
            let toks: Vec<&str> = l.splitn(3, ' ').collect();
            push_u(&mut line, toks.len());
            for t in &toks {
                push_s(&mut line, &esc(t));
                match t.parse::<f64>() {
                    Ok(v) => { push_u(&mut line, 1); push_f(&mut line, v); }
                    Err(_) => { push_u(&mut line, 0); push_f(&mut line, 0.0); }
                }
                let lab_ok = catch(std::panic::AssertUnwindSafe(|| t.parse::<jlabel::Label>().is_ok())).unwrap_or(false);
                push_u(&mut line, lab_ok as usize);
            }
        }
        let r = catch(std::panic::AssertUnwindSafe(|| Labels::load_from_strings(sr, fp, &lines)));
        match &r {
            Ok(Ok(l)) => {
                push_s(&mut line, "ok");
                push_u(&mut line, l.labels().len());
                push_u(&mut line, l.times().len());
                for (a, b) in l.times() { push_f(&mut line, *a); push_f(&mut line, *b); }
            }
            Ok(Err(e)) => push_s(&mut line, match e {
                LabelError::JLabelParse(_) => "err:jlabel",
                LabelError::MissingLabel(_) => "err:missing",
                LabelError::FloatParse(_) => "err:float",
                LabelError::LengthMismatch => "err:length",
            }),
            Err(site) => push_s(&mut line, &format!("panic:{}", esc(site))),
        }
        // the engine entry point reports the same class
        let g = catch(std::panic::AssertUnwindSafe(|| engine.generator(lines.clone()).map(|_| ())));
        push_s(&mut line, match &g { Ok(Ok(())) => "gen-ok", Ok(Err(jbonsai::EngineError::LabelError(_))) => "gen-labelerr", Ok(Err(_)) => "gen-othererr", Err(_) => "gen-panic" });
        println!("{}", line);
    }
}
