//! Stage-level vocoder runs through the public `Vocoder::new` / `synthesize` (C06 C07 C13 C14 C16).
use crate::util::*;
use jbonsai::vocoder::Vocoder;

#[derive(Clone)]
pub struct VocCase {
    pub nmcp: usize,
    pub nlpf: usize,
    pub stage: usize,
    pub log_gain: bool,
    pub rate: usize,
    pub alpha: f64,
    pub beta: f64,
    pub volume: f64,
    pub fperiod: usize,
    /// per frame: (lf0, spectrum, lpf)
    pub frames: Vec<(f64, Vec<f64>, Vec<f64>)>,
}

pub const NODATA: f64 = -1e10;

impl VocCase {
    pub fn run(&self) -> Result<Vec<f64>, String> {
        let c = self.clone();
        catch(std::panic::AssertUnwindSafe(move || {
            let mut v = Vocoder::new(c.nmcp, c.nlpf, c.stage, c.log_gain, c.rate, c.alpha, c.beta, c.volume, c.fperiod);
            let mut out = Vec::with_capacity(c.fperiod * c.frames.len());
            let mut buf = vec![0.0; c.fperiod];
            // half way through, rendering continues on a clone of the vocoder and the original is dropped: a copy carries the whole
            // state — delay lines, excitation phase, noise generator, previous coefficients (seeded change C13j: a hand-written
            // `Clone` of the LSP filter that zeroed its delay lines)
            let fork_at = c.frames.len() / 2;
            for (k, (lf0, sp, lpf)) in c.frames.iter().enumerate() {
                if k == fork_at {   // for a single frame: a clone of the fresh vocoder (seeded change C06j)
                    let v2 = v.clone();
                    v = v2;
                }
                v.synthesize(*lf0, sp, lpf, &mut buf);
                out.extend_from_slice(&buf);
            }
            out
        }))
    }
    pub fn push(&self, line: &mut String) {
        let pinned = std::env::var("JB_FIX").map(|v| v == "pinned").unwrap_or(false);
        push_s(line, if pinned { "fx 0 0" } else { "fx 1 1" });
        push_u(line, self.nmcp);
        push_u(line, self.nlpf);
        push_u(line, self.stage);
        push_u(line, self.log_gain as usize);
        push_u(line, self.rate);
        push_f(line, self.alpha);
        push_f(line, self.beta);
        push_f(line, self.volume);
        push_u(line, self.fperiod);
        push_u(line, self.frames.len());
        for (lf0, sp, lpf) in &self.frames {
            push_f(line, *lf0);
            for x in sp {
                push_f(line, *x);
            }
            for x in lpf {
                push_f(line, *x);
            }
        }
    }
}

pub fn push_wave(line: &mut String, r: &Result<Vec<f64>, String>) {
    match r {
        Ok(w) => {
            push_s(line, "ok");
            push_fs(line, w);
        }
        Err(site) => {
            push_s(line, "panic");
            push_s(line, &esc(site));
        }
    }
}

/// all-pass warped frequency
pub fn warp(w: f64, alpha: f64) -> f64 {
    w + 2.0 * (alpha * w.sin()).atan2(1.0 - alpha * w.cos())
}

/// random mel-cepstrum of `order` coefficients with |Σ_{m≥1} c_m cos(m w~)| ≤ bound on a dense grid
pub fn random_cepstrum(rng: &mut Rng, n: usize, alpha: f64, bound: f64) -> Vec<f64> {
    let mut c: Vec<f64> = (0..n)
        .map(|k| if k == 0 { rng.uniform(-1.0, 2.0) } else { rng.normal() / (k as f64).powf(rng.uniform(0.5, 1.5)) })
        .collect();
    let mut peak: f64 = 0.0;
    for i in 0..=256 {
        let w = warp(std::f64::consts::PI * i as f64 / 256.0, alpha);
        let s: f64 = (1..n).map(|m| c[m] * (m as f64 * w).cos()).sum();
        peak = peak.max(s.abs());
    }
    let target = rng.uniform(0.3, bound);
    if peak > 0.0 {
        for x in c.iter_mut().skip(1) {
            *x *= target / peak;
        }
    }
    c
}

/// increasing line spectral frequencies with spacing ≥ pi/(4(order+1))
pub fn random_lsp(rng: &mut Rng, order: usize) -> Vec<f64> {
    let min = std::f64::consts::PI / (4.0 * (order as f64 + 1.0)) * 1.05;
    let slack = std::f64::consts::PI - min * (order as f64 + 1.0);
    let mut cuts: Vec<f64> = (0..order).map(|_| rng.unit()).collect();
    cuts.sort_by(|a, b| a.partial_cmp(b).unwrap());
    cuts.iter().enumerate().map(|(i, c)| min * (i as f64 + 1.0) + slack * c).collect()
}

/// general model-vs-implementation streams (any mode): random short runs
pub fn random_case(rng: &mut Rng, stage_nonzero: bool) -> VocCase {
    let stage = if stage_nonzero { rng.range(1, 4) } else { 0 };
    let nmcp = if stage == 0 { rng.range(3, 12) } else { rng.range(3, 10) };
    let nlpf = *rng.pick(&[0usize, 0, 1, 3, 5, 9]);
    let rate = *rng.pick(&[8000usize, 16000, 22050, 48000]);
    let fperiod = rng.range(5, 60);
    let alpha = *rng.pick(&[0.0, 0.31, 0.42, 0.55]);
    let beta = if rng.chance(0.4) { rng.uniform(0.05, 0.5) } else { 0.0 };
    let log_gain = stage > 0 && rng.chance(0.5);
    let nframes = rng.range(1, 5);
    let base = if stage == 0 { random_cepstrum(rng, nmcp, alpha, 1.5) } else { Vec::new() };
    let frames = (0..nframes)
        .map(|_| {
            let lf0 = if rng.chance(0.7) { rng.uniform(60.0f64, 500.0).ln() } else { NODATA };
            let sp: Vec<f64> = if stage == 0 {
                base.iter().map(|x| x + rng.normal() * 0.05).collect()
            } else {
                // value class: a gain of exactly one (linear 1.0, log 0.0 / -0.0) every seventh case (seeded change C13g: a
        // "multiply by one" shortcut in the normalisation that also skips the assignment of element 0)
        let mut v = vec![if rng.chance(0.15) { if log_gain { if rng.chance(0.5) { 0.0 } else { -0.0 } } else { 1.0 } }
            // value class: a very small or very large gain (K = 1e-20 … 1e+6): the response scales with K whatever its size
            // (seeded change C13k: a "denormal guard" with f64::EPSILON as an absolute limit in the MGLSA recursion)
            else if rng.chance(0.12) { if log_gain { *rng.pick(&[-46.0, -36.0, -30.0, 14.0]) } else { *rng.pick(&[1e-20, 1e-16, 1e-13, 1e6]) } }
            else if log_gain { rng.uniform(-1.0, 1.0) } else { rng.uniform(0.3, 3.0) }];
                v.extend(random_lsp(rng, nmcp - 1));
                v
            };
            let mut lpf: Vec<f64> = (0..nlpf).map(|_| rng.uniform(-0.2, 0.3)).collect();
            if nlpf > 0 {
                lpf[nlpf / 2] += 0.5;
            }
            (lf0, sp, lpf)
        })
        .collect();
    VocCase { nmcp, nlpf, stage, log_gain, rate, alpha, beta, volume: 1.0, fperiod, frames }
}

pub fn gen_raw(seed: u64, thorough: bool, stage_nonzero: bool) {
    let mut rng = Rng::new(seed);
    let n = if thorough { 3000 } else { 150 };
    for _ in 0..n {
        let c = random_case(&mut rng, stage_nonzero);
        let mut line = String::from("voc RAW");
        c.push(&mut line);
        push_wave(&mut line, &c.run());
        println!("{}", line);
    }
}

// ------------------------------------------------------------------------------------------ C06
pub fn gen_c06(seed: u64, thorough: bool) {
    let mut rng = Rng::new(seed);
    let n = if thorough { 1200 } else { 60 };
    for i in 0..n {
        let order = match i % 4 { 0 => rng.range(2, 6), 1 => rng.range(7, 24), _ => rng.range(2, 40) };
        let nmcp = order + 1;
        let alpha = if i % 5 == 0 { 0.0 } else { rng.uniform(0.0, 0.6) };
        let rate = *rng.pick(&[8000usize, 16000, 22050, 44100, 48000, 96000]);
        let mut c = random_cepstrum(&mut rng, nmcp, alpha, 2.0);
        // value class: a gain term far from 0 on either side — the response scales with exp(c0) whatever its size, samples of
        // magnitude 1e5 or 1e-6 included (seeded change C06h: output samples limited to the 16-bit PCM range)
        if i % 6 == 3 { c[0] = match rng.below(4) { 0 | 1 => rng.uniform(6.0, 11.0), 2 => rng.uniform(-14.0, -6.0), _ => rng.uniform(-60.0, -20.0) }; }
        // … down to responses of magnitude 1e-26 (seeded change C06i: a "denormal guard" with f64::EPSILON as its limit)
        // one pulse, observed for one frame of rate/20 - 1 samples (no second pulse at the 20 Hz pitch floor); the
        // filter does not depend on the rate, so a response that has not died out is observed at 4x, 16x, 64x the rate
        let mut mult = 1usize;
        let (case, out) = loop {
            let r = rate * mult;
            let fperiod = if mult == 1 { (r / 20 - 1).min(1600) } else { r / 20 - 1 };
            let case = VocCase {
                nmcp, nlpf: 0, stage: 0, log_gain: false, rate: r, alpha, beta: 0.0, volume: 1.0, fperiod,
                frames: vec![(20.0f64.ln(), c.clone(), vec![])],
            };
            let out = case.run();
            let settled = match &out {
                Ok(w) if w.iter().all(|x| x.is_finite()) => {
                    let tot: f64 = w.iter().map(|x| x * x).sum();
                    let tail: f64 = w[w.len() * 7 / 8..].iter().map(|x| x * x).sum();
                    tail <= 1e-11 * tot
                }
                _ => true,
            };
            if settled || mult >= 64 { break (case, out); }
            mult *= 4;
        };
        let mut line = String::from("voc C06");
        case.push(&mut line);
        push_wave(&mut line, &out);
        push_u(&mut line, *rng.pick(&[33usize, 65, 129, 257]));
        println!("{}", line);
    }
    gen_c06_history(&mut rng, if thorough { 300 } else { 16 });
}

/// the spectrum of a frame is that frame's cepstrum whatever came before: a lead-in frame with another cepstrum, then the
/// cepstrum under test repeated (the coefficients glide in frame 1 and stand still in frame 2); the pulse response is read
/// from frame 2 (seeded change C06g: a gain cached while the coefficients glide and not refreshed when they settle)
pub fn gen_c06_history(rng: &mut Rng, n: usize) {
    for i in 0..n {
        let order = match i % 3 { 0 => rng.range(2, 6), 1 => rng.range(7, 24), _ => rng.range(2, 40) };
        let nmcp = order + 1;
        let alpha = if i % 5 == 0 { 0.0 } else { rng.uniform(0.0, 0.6) };
        let rate = *rng.pick(&[8000usize, 16000, 44100, 48000]);
        let a = random_cepstrum(rng, nmcp, alpha, 2.0);
        let b = random_cepstrum(rng, nmcp, alpha, 2.0);
        let mut mult = 1usize;
        let (case, out) = loop {
            let r = rate * mult;
            let fperiod = r / 20; // the period at the 20 Hz floor: one pulse per frame, on its first sample
            let case = VocCase {
                nmcp, nlpf: 0, stage: 0, log_gain: false, rate: r, alpha, beta: 0.0, volume: 1.0, fperiod,
                frames: vec![(20.0f64.ln(), a.clone(), vec![]), (20.0f64.ln(), b.clone(), vec![]), (20.0f64.ln(), b.clone(), vec![])],
            };
            let out = case.run();
            let settled = match &out {
                Ok(w) if w.iter().all(|x| x.is_finite()) && w.len() == 3 * fperiod => (1..3).all(|f| {
                    let fr = &w[f * fperiod..(f + 1) * fperiod];
                    let tot: f64 = fr.iter().map(|x| x * x).sum();
                    let tail: f64 = fr[fperiod * 7 / 8..].iter().map(|x| x * x).sum();
                    tail <= 1e-11 * tot
                }),
                _ => true,
            };
            if settled || mult >= 16 { break (case, out); }
            mult *= 4;
        };
        let mut line = String::from("voc C06h");
        case.push(&mut line);
        push_wave(&mut line, &out);
        push_u(&mut line, *rng.pick(&[33usize, 65, 129]));
        println!("{}", line);
    }
}

// ------------------------------------------------------------------------------------------ C07
fn f0_track(rng: &mut Rng, rate: usize, nframes: usize) -> Vec<f64> {
    let hi = (rate as f64 / 2.0).min(20000.0);
    let pick_f0 = |rng: &mut Rng| -> f64 {
        match rng.below(5) {
            0 => {
                // exactly integer period
                let p = rng.range(2, (rate / 20).min(2000)) as f64;
                rate as f64 / p
            }
            1 => rng.log_uniform(20.0, hi),
            2 => rng.uniform(60.0, 400.0f64.min(hi)),
            3 => *rng.pick(&[20.0, 25.0, 100.0, 440.0]),
            _ => rng.log_uniform(40.0, hi),
        }
    };
    let style = rng.below(5);
    let base = pick_f0(rng);
    (0..nframes)
        .map(|i| match style {
            0 => base.ln(),                                                   // constant
            1 => if i < nframes / 2 { base.ln() } else { (base * 1.25).min(hi).ln() }, // one step
            2 => if rng.chance(0.35) { NODATA } else { base.ln() },          // switches, constant F0
            3 => if rng.chance(0.3) { NODATA } else { pick_f0(rng).ln() },   // steps and switches
            _ => NODATA,                                                      // all unvoiced
        })
        .collect()
}

/// inputs kept from earlier runs (`/verif/corpus/C07.txt`: rate fperiod alpha, then log-F0 per frame as bit patterns), run first
fn c07_corpus() {
    let path = format!("{}/../corpus/C07.txt", env!("CARGO_MANIFEST_DIR"));
    let Ok(text) = std::fs::read_to_string(&path) else { return };
    for l in text.lines().filter(|l| !l.trim().is_empty() && !l.starts_with('#')) {
        let t: Vec<&str> = l.split_whitespace().collect();
        let rate: usize = t[0].parse().expect("rate");
        let fperiod: usize = t[1].parse().expect("fperiod");
        let alpha: f64 = t[2].parse().expect("alpha");
        let case = VocCase {
            nmcp: 3, nlpf: 0, stage: 0, log_gain: false, rate, alpha, beta: 0.0, volume: 1.0, fperiod,
            frames: t[3..].iter().map(|x| (f64::from_bits(u64::from_str_radix(x, 16).expect("lf0 bits")), vec![0.0; 3], vec![])).collect(),
        };
        let mut line = String::from("voc C07");
        case.push(&mut line);
        push_wave(&mut line, &case.run());
        println!("{}", line);
    }
}

/// C11, rendering clause at stage level: voiced frames (log-F0 anywhere — inside the range, below the 20 Hz floor, above the
/// ceiling) and no-data frames through `Vocoder::synthesize` with a zero spectrum and no low-pass stream
/// (seeded change C11h: "no data" tested as `lf0 < MIN_LF0`, so low voiced frames were rendered with noise)
pub fn gen_c11_render(seed: u64, thorough: bool) {
    let mut rng = Rng::new(seed ^ 0xc11_0001);
    let n = if thorough { 600 } else { 40 };
    for i in 0..n {
        let rate = *rng.pick(&[8000usize, 16000, 22050, 44100, 48000, 96000]);
        let fperiod = rng.range(40, 480);
        let nframes = rng.range(6, 24);
        let frames: Vec<(f64, Vec<f64>, Vec<f64>)> = (0..nframes).map(|_| {
            let lf0 = match rng.below(6) {
                0 => NODATA,
                1 => rng.uniform(1.0f64.ln(), 19.99f64.ln()),          // voiced, below the floor
                2 => 20.0f64.ln() - rng.uniform(0.0, 1e-9),            // just below it
                3 => rng.uniform(20000.0f64.ln(), 40000.0f64.ln()),    // above the ceiling
                _ => rng.uniform(50.0f64.ln(), 500.0f64.ln()),
            };
            (lf0, vec![0.0; 3], vec![])
        }).collect();
        let case = VocCase { nmcp: 3, nlpf: 0, stage: 0, log_gain: false, rate, alpha: *[0.0, 0.42, 0.55].get(i % 3).unwrap(), beta: 0.0, volume: 1.0, fperiod, frames };
        let mut line = String::from("voc C11r");
        case.push(&mut line);
        push_wave(&mut line, &case.run());
        println!("{}", line);
    }
}

pub fn gen_c07(seed: u64, thorough: bool) {
    c07_corpus();
    let mut rng = Rng::new(seed);
    let n = if thorough { 4000 } else { 200 };
    for i in 0..n {
        let rate = *rng.pick(&[8000usize, 16000, 22050, 44100, 48000, 96000]);
        let fperiod = rng.range(40, 480);
        let nlpf = if i % 3 == 0 { 2 * rng.range(0, 15) + 1 } else { 0 };
        let nframes = if i % 10 == 9 { 60 } else { rng.range(3, 14) };
        let track = f0_track(&mut rng, rate, nframes);
        let h: Vec<f64> = {
            let mut h: Vec<f64> = (0..nlpf).map(|_| rng.uniform(-0.3, 0.3)).collect();
            if nlpf > 0 { h[nlpf / 2] += 0.6; }
            h
        };
        let mk = |lpf: &dyn Fn(usize) -> Vec<f64>| VocCase {
            nmcp: 3, nlpf, stage: 0, log_gain: false, rate, alpha: *[0.0, 0.42, 0.55].get(i % 3).unwrap(), beta: 0.0, volume: 1.0, fperiod,
            frames: track.iter().enumerate().map(|(k, lf0)| (*lf0, vec![0.0; 3], lpf(k))).collect(),
        };
        // per-frame low-pass: h scaled a little differently per frame
        let scale: Vec<f64> = (0..nframes).map(|_| rng.uniform(0.7, 1.2)).collect();
        let case = mk(&|k| h.iter().map(|x| x * scale[k]).collect());
        let mut line = String::from("voc C07");
        case.push(&mut line);
        push_wave(&mut line, &case.run());
        if nlpf > 0 {
            let delta = mk(&|_| { let mut d = vec![0.0; nlpf]; d[nlpf / 2] = 1.0; d });
            let zero = mk(&|_| vec![0.0; nlpf]);
            push_s(&mut line, "aux");
            push_wave(&mut line, &delta.run());
            push_wave(&mut line, &zero.run());
        }
        println!("{}", line);
    }
}

// ------------------------------------------------------------------------------------------ C13
/// one C13 case: the response to a single pulse. The observation window is one frame of `rate/20 - 1`
/// samples (the pitch floor is 20 Hz, so no second pulse falls inside); the filter does not depend on the
/// rate, so the window is lengthened (rate x4, up to x64) until the response has died out in it.
fn c13_case(order: usize, stage: usize, log_gain: bool, rate: usize, alpha: f64, beta: f64, v: &[f64], k: usize) -> String {
    let mut mult = 1usize;
    loop {
        let r = rate * mult;
        let fperiod = r / 20 - 1;
        let case = VocCase {
            nmcp: order + 1, nlpf: 0, stage, log_gain, rate: r, alpha, beta, volume: 1.0, fperiod,
            frames: vec![(20.0f64.ln(), v.to_vec(), vec![])],
        };
        let out = case.run();
        let settled = match &out {
            Ok(w) if w.iter().all(|x| x.is_finite()) => {
                let tot: f64 = w.iter().map(|x| x * x).sum();
                let tail: f64 = w[w.len() * 7 / 8..].iter().map(|x| x * x).sum();
                tail <= 1e-12 * tot
            }
            _ => true,
        };
        if settled || mult >= 64 {
            let mut line = String::from("voc C13");
            case.push(&mut line);
            push_wave(&mut line, &out);
            push_u(&mut line, k);
            return line;
        }
        mult *= 4;
    }
}

/// the spectrum of a frame is that frame's gain and frequencies whatever came before: a lead-in frame with the SAME line
/// spectral frequencies and another gain, then the frame under test twice; the response is read from the third frame
/// (seeded change C13i: coefficients reused when the frequencies repeat, the gain left out of the comparison)
pub fn gen_c13_history(rng: &mut Rng, n: usize) {
    for i in 0..n {
        let order = rng.range(2, 12);
        let stage = rng.range(1, 3);
        let log_gain = i % 2 == 0;
        let alpha = if i % 4 == 0 { 0.0 } else { rng.uniform(0.0, 0.55) };
        let rate = *rng.pick(&[8000usize, 16000, 48000]);
        let lsf = random_lsp(rng, order);
        let g = |rng: &mut Rng| if log_gain { rng.uniform(-1.0, 1.5) } else { rng.uniform(0.3, 4.0) };
        let (g1, g2) = (g(rng), g(rng));
        let frame = |gain: f64| { let mut v = vec![gain]; v.extend_from_slice(&lsf); v };
        let mut mult = 1usize;
        let (case, out) = loop {
            let r = rate * mult;
            let fperiod = r / 20; // the period at the 20 Hz floor: one pulse per frame, on its first sample
            let case = VocCase {
                nmcp: order + 1, nlpf: 0, stage, log_gain, rate: r, alpha, beta: 0.0, volume: 1.0, fperiod,
                frames: vec![(20.0f64.ln(), frame(g1), vec![]), (20.0f64.ln(), frame(g2), vec![]), (20.0f64.ln(), frame(g2), vec![])],
            };
            let out = case.run();
            let settled = match &out {
                Ok(w) if w.iter().all(|x| x.is_finite()) && w.len() == 3 * fperiod => (1..3).all(|f| {
                    let fr = &w[f * fperiod..(f + 1) * fperiod];
                    let tot: f64 = fr.iter().map(|x| x * x).sum();
                    let tail: f64 = fr[fperiod * 7 / 8..].iter().map(|x| x * x).sum();
                    tail <= 1e-12 * tot
                }),
                _ => true,
            };
            if settled || mult >= 16 { break (case, out); }
            mult *= 4;
        };
        let mut line = String::from("voc C13h");
        case.push(&mut line);
        push_wave(&mut line, &out);
        push_u(&mut line, *rng.pick(&[33usize, 65, 129]));
        println!("{}", line);
    }
}

/// inputs kept from earlier runs (`/verif/corpus/C13.txt`: order stage log_gain rate alpha beta k v...), run first
fn c13_corpus() -> Vec<String> {
    let path = format!("{}/../corpus/C13.txt", env!("CARGO_MANIFEST_DIR"));
    let Ok(text) = std::fs::read_to_string(&path) else { return vec![] };
    let mut out = Vec::new();
    for l in text.lines().filter(|l| !l.trim().is_empty() && !l.starts_with('#')) {
        let t: Vec<&str> = l.split_whitespace().collect();
        let u = |i: usize| t[i].parse::<usize>().expect("corpus integer");
        let f = |i: usize| f64::from_bits(u64::from_str_radix(t[i], 16).expect("corpus float"));
        let v: Vec<f64> = (7..t.len()).map(f).collect();
        out.push(c13_case(u(0), u(1), u(2) != 0, u(3), f(4), f(5), &v, u(6)));
    }
    out
}

pub fn gen_c13(seed: u64, thorough: bool) {
    for l in c13_corpus() { println!("{}", l); }
    let mut rng = Rng::new(seed);
    let n = if thorough { 1500 } else { 80 };
    for i in 0..n {
        let order = if i % 3 == 0 { rng.range(2, 6) } else { rng.range(2, 24) };
        let stage = rng.range(1, 4);
        let alpha = if i % 5 == 0 { 0.0 } else { rng.uniform(0.0, 0.6) };
        let log_gain = rng.chance(0.5);
        let rate = *rng.pick(&[48000usize, 96000]);
        let beta = if i % 4 == 3 { rng.uniform(0.05, 0.4) } else { 0.0 };
        // value class: a gain of exactly one (linear 1.0, log 0.0 / -0.0) every seventh case
        let mut v = vec![if i % 7 == 3 { if log_gain { if rng.chance(0.5) { 0.0 } else { -0.0 } } else { 1.0 } }
            // value class: a very small or very large gain (K = 1e-20 … 1e+6): the response scales with K whatever its size
            // (seeded change C13k: a "denormal guard" with f64::EPSILON as an absolute limit in the MGLSA recursion)
            else if i % 7 == 5 { if log_gain { *rng.pick(&[-46.0, -36.0, -30.0, 14.0]) } else { *rng.pick(&[1e-20, 1e-16, 1e-13, 1e6]) } }
            else if log_gain { rng.uniform(-1.0, 1.0) } else { rng.uniform(0.3, 3.0) }];
        v.extend(random_lsp(&mut rng, order));
        let k = *rng.pick(&[65usize, 129, 257]);
        println!("{}", c13_case(order, stage, log_gain, rate, alpha, beta, &v, k));
        if beta != 0.0 {
            // the LSP post-filter moves the frequencies and compensates the gain; with one pulse at sample 0 the
            // compensated gain is never applied, so tie it to the model on three frames with a pulse train
            let case = VocCase {
                nmcp: order + 1, nlpf: 0, stage, log_gain, rate: 16000, alpha, beta, volume: 1.0, fperiod: 160,
                frames: (0..3).map(|_| (200.0f64.ln(), v.clone(), vec![])).collect(),
            };
            let mut line = String::from("voc RAW");
            case.push(&mut line);
            push_wave(&mut line, &case.run());
            println!("{}", line);
        }
    }
    gen_c13_history(&mut rng, if thorough { 300 } else { 16 });
}

// ------------------------------------------------------------------------------------------ C14
pub fn gen_c14(seed: u64, thorough: bool) {
    let mut rng = Rng::new(seed);
    let n = if thorough { 1000 } else { 50 };
    for i in 0..n {
        let order = if i % 6 == 0 { 2 } else if i % 3 == 1 { rng.range(3, 8) } else { rng.range(3, 40) };
        let nmcp = order + 1; // "order 2" = three coefficients? the no-op case is len <= 2
        // length 2 is the no-op case; length exactly 3 is the shortest vector the post-filter acts on (seeded change C14j: an
        // order-versus-length guard that switched the filter off for three coefficients)
        let nmcp = if i % 6 == 0 { 2 } else if i % 6 == 3 { 3 } else { nmcp };
        let alpha = if i % 5 == 0 { 0.0 } else { rng.uniform(0.0, 0.6) };
        let beta = if i % 7 == 6 { 0.0 } else { rng.uniform(0.02, 0.5) };
        let rate = 16000usize;
        let f0 = 20.01f64;
        let fperiod = 700usize;
        let mut c = random_cepstrum(&mut rng, nmcp, alpha, 2.0 / (1.0 + beta));
        if nmcp > 1 && c[1].abs() < 0.3 {
            c[1] = if c[1] < 0.0 { -0.3 } else { 0.3 };
        }
        // value class (every fifth case): a gain term far from 0 — the energy the post-filter preserves is then 1e-35 or 1e+9,
        // and the 1 % clause is relative (seeded change C14i: the measured energy floored at f64::EPSILON)
        if i % 5 == 2 { c[0] = if rng.chance(0.7) { rng.uniform(-45.0, -15.0) } else { rng.uniform(5.0, 10.0) }; }
        // value class (every eighth case): the first-order term of the UNWARPED cepstrum vanishes, so the second sample of
        // the impulse response the post-filter measures is zero — c1 = +-0 at alpha 0, the cancelling c1 otherwise
        // (seeded change C14g: the impulse-response recursion stopped at the first near-zero sample)
        if i % 8 == 3 && nmcp > 2 {
            let first = |c: &[f64]| unwarped_first_order(c, alpha);
            let mut c0 = c.clone(); c0[1] = 0.0;
            let mut c1 = c.clone(); c1[1] = 1.0;
            let (a0, a1) = (first(&c0), first(&c1));
            c[1] = if alpha == 0.0 { if rng.chance(0.5) { 0.0 } else { -0.0 } } else { -a0 / (a1 - a0) };
        }
        let mk = |beta: f64| VocCase {
            nmcp, nlpf: 0, stage: 0, log_gain: false, rate, alpha, beta, volume: 1.0, fperiod,
            frames: (0..3).map(|_| (f0.ln(), c.clone(), vec![])).collect(),
        };
        let with = mk(beta);
        let without = mk(0.0);
        let mut line = String::from("voc C14");
        with.push(&mut line);
        push_wave(&mut line, &with.run());
        push_s(&mut line, "aux");
        push_wave(&mut line, &without.run());
        println!("{}", line);
    }
    gen_c14_mixed(&mut rng, if thorough { 600 } else { 40 });
}

/// first-order coefficient of the cepstrum after undoing the frequency warping (SPTK `freqt` with `-alpha`, target order 1)
fn unwarped_first_order(c: &[f64], alpha: f64) -> f64 {
    let a = -alpha;
    let (mut g0, mut g1) = (0.0f64, 0.0f64);
    for i in (0..c.len()).rev() {
        let d0 = g0;
        let d1 = g1;
        g0 = c[i] + a * d0;
        g1 = (1.0 - a * a) * d0 + a * d1;
    }
    g1
}

/// mixed voicing: the post-filter acts on every frame, voiced or not (seeded change C14f: skipped on noise-excited frames)
pub fn gen_c14_mixed(rng: &mut Rng, n: usize) {
    for i in 0..n {
        let nmcp = if i % 7 == 0 { 2 } else { rng.range(3, 25) + 1 };
        let alpha = if i % 5 == 0 { 0.0 } else { rng.uniform(0.0, 0.6) };
        let beta = if i % 6 == 5 { 0.0 } else { rng.uniform(0.05, 0.5) };
        let rate = 16000usize;
        let fperiod = rng.range(40, 200);
        let nframes = rng.range(3, 6);
        let nlpf = if i % 3 == 0 { 0 } else { 2 * rng.range(1, 4) + 1 };
        let lpf: Vec<f64> = (0..nlpf).map(|_| rng.uniform(-0.3, 0.3)).collect();
        let pattern = i % 4; // 0: all unvoiced, 1: U V U .., 2: V U U .., 3: random
        let mut c = random_cepstrum(rng, nmcp, alpha, 2.0 / (1.0 + beta));
        if nmcp > 2 && c[2].abs() < 0.05 { c[2] = 0.1; }
        let f0 = rng.uniform(80.0, 300.0);
        let frames: Vec<(f64, Vec<f64>, Vec<f64>)> = (0..nframes).map(|k| {
            let voiced = match pattern { 0 => false, 1 => k % 2 == 1, 2 => k == 0, _ => rng.chance(0.4) };
            // the spectrum drifts a little from frame to frame
            let ck: Vec<f64> = c.iter().enumerate().map(|(m, x)| if m == 0 { *x } else { x * (1.0 + 0.05 * k as f64) }).collect();
            (if voiced { f0.ln() } else { NODATA }, ck, lpf.clone())
        }).collect();
        let mk = |beta: f64| VocCase { nmcp, nlpf, stage: 0, log_gain: false, rate, alpha, beta, volume: 1.0, fperiod, frames: frames.clone() };
        let with = mk(beta);
        let without = mk(0.0);
        let mut line = String::from("voc C14m");
        with.push(&mut line);
        push_wave(&mut line, &with.run());
        push_s(&mut line, "aux");
        push_wave(&mut line, &without.run());
        println!("{}", line);
    }
}

// ------------------------------------------------------------------------------------------ C16 (stage level)
pub fn gen_c16_stage(rng: &mut Rng, n: usize) {
    for i in 0..n {
        let mut case = random_case(rng, i % 2 == 1);
        let v_db = if i % 5 == 0 { *rng.pick(&[6.0205999132796239, -6.0205999132796239, 20.0, -60.0, 60.0]) }
                   else if i % 5 == 2 { *rng.pick(&[0.005, -0.008, 1e-4, -1e-6, 0.0086, -0.0009]) }   // a hair away from 0 dB (C16j)
                   else { rng.uniform(-60.0, 60.0) };
        let unit = case.clone();
        case.volume = 10f64.powf(v_db / 20.0);
        let mut line = String::from("voc C16");
        case.push(&mut line);
        push_wave(&mut line, &case.run());
        push_s(&mut line, "aux");
        push_f(&mut line, v_db);
        push_wave(&mut line, &unit.run());
        println!("{}", line);
    }
}
