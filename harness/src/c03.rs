//! C03: determinism, purity and sharing across threads.
use crate::engine::*;
use crate::util::*;
use jbonsai::Engine;
use std::sync::{Arc, Barrier};

fn bits_eq(a: &[f64], b: &[f64]) -> bool {
    a.len() == b.len() && a.iter().zip(b).all(|(x, y)| x.to_bits() == y.to_bits())
}

fn getters(e: &Engine) -> String {
    let mut s = String::new();
    crate::c20::dump(&e.condition, e.voices.global_metadata().num_streams, &mut s);
    s
}

// compile-time: the engine can be shared, a generator can be moved to another thread
fn assert_send_sync<T: Send + Sync>() {}
fn assert_send<T: Send>() {}

pub fn gen(seed: u64, thorough: bool) {
    assert_send_sync::<Engine>();
    assert_send::<jbonsai::speech::SpeechGenerator>();
    let mut rng = Rng::new(seed);
    let src = Sources::new();
    // ---- (0) state a call may leave behind on its *thread* (floating-point mode bits, thread-locals): on a thread that has
    // never synthesized anything — spawned before the first batch call of this process, so it inherits clean state — a live
    // generator is stepped half way, a batch synthesis of another utterance runs, the generator is stepped to its end; the
    // same generator stepped in one go before any batch call, and the batch result, must all agree bit for bit. The volume is
    // so low that every sample is subnormal, which makes the arithmetic sensitive to flush-to-zero modes (seeded change C03i).
    {
        let e0 = src.bundled.clone();
        let labels_a = src.labels(&mut rng, 2, false);
        let labels_b = src.labels(&mut rng, 1, false);
        let handle = std::thread::spawn(move || {
            let mut e = e0;
            e.condition.set_fperiod(8);
            e.condition.set_volume(-6300.0);
            let fp = e.condition.get_fperiod();
            let step_all = |e: &Engine, labels: &Vec<String>, pause: Option<(&Vec<String>, usize)>| -> Vec<f64> {
                let mut g = e.generator(labels.clone()).unwrap();
                let mut out = Vec::new();
                let mut buf = vec![0.0; fp];
                let mut k = 0usize;
                while g.generate_step(&mut buf) > 0 {
                    out.extend_from_slice(&buf);
                    k += 1;
                    if let Some((other, at)) = pause { if k == at { let _ = e.synthesize(other.clone()).unwrap(); } }
                }
                out
            };
            let clean = step_all(&e, &labels_a, None);                       // before any batch call on this thread
            let around = step_all(&e, &labels_a, Some((&labels_b, 5)));      // a batch call in the middle
            let after = step_all(&e, &labels_a, None);                       // after it
            let batch = e.synthesize(labels_a.clone()).unwrap();
            let subnormal = clean.iter().filter(|x| **x != 0.0 && x.abs() < f64::MIN_POSITIVE).count();
            (bits_eq(&clean, &around), bits_eq(&clean, &after), bits_eq(&clean, &batch), subnormal)
        });
        let (around_ok, after_ok, batch_ok, subnormal) = handle.join().expect("thread");
        let mut line = String::from("det thread-state 1");
        push_u(&mut line, (after_ok && batch_ok) as usize);   // "repeating a synthesis call gave a different waveform"
        push_u(&mut line, 1);
        push_u(&mut line, 1);
        push_u(&mut line, around_ok as usize);                // "interleaving live generators and syntheses changed an output"
        push_u(&mut line, 1);
        push_u(&mut line, subnormal);
        println!("{}", line);
    }
    // ---- (a) k threads on one shared engine, random start stagger, mixed synthesize / generator use
    let nsched = if thorough { 500 } else { 60 };
    for i in 0..nsched {
        // every fifth schedule: three different compatible voices blended with off-vertex weights (a sum over voices whose
        // order must not depend on anything but the list: seeded change C03j, terms added in a hash map's iteration order)
        let three = i % 5 == 2;
        let (factory, kind): (Box<dyn Fn() -> Engine>, &'static str) =
            if three {
                let (vs, _) = crate::c19::compatible_voices(&mut rng, 3, &src.pool, false);
                (Box::new(move || crate::c19::engine_of(vs.clone()).expect("compatible voices")), "three-voices")
            } else if i % 3 == 0 { (Box::new(|| Engine::load(&[BUNDLED_VOICE]).expect("bundled voice")), "bundled") } else { src.any_engine_factory(&mut rng) };
        let mut e = factory();
        random_condition(&mut rng, &mut e, true);
        if three {
            let ns = e.voices.global_metadata().num_streams;
            let iw = e.condition.get_interporation_weight_mut();
            let w = [0.5, 0.3, 0.2];
            iw.set_duration(&w).expect("weights");
            for s in 0..ns { iw.set_parameter(s, &[0.2, 0.5, 0.3]).expect("weights"); iw.set_gv(s, &w).expect("weights"); }
        }
        // every fourth schedule runs with phoneme alignment on, the utterances carrying no time stamps, stamps on all lines but
        // the last ones, or on the first line only — the paths that fall back to model durations (seeded change C03h: a
        // process-wide "notice printed once" latch that also guarded the fallback, so only the first call in the process was right)
        // one schedule in eight renders at a volume so low that every sample is subnormal: results must not depend on
        // floating-point mode bits another call left behind on the thread (seeded change C03i: flush-to-zero set by `generate_all`)
        if i % 8 == 6 { e.condition.set_volume(-6300.0); }
        let aligned = i % 4 == 1;
        e.condition.set_phoneme_alignment_flag(aligned);
        let k = *rng.pick(&[2usize, 4, 8, 16]);
        // utterances of different lengths and from different sentences (the voice's GV trees look at utterance-level fields)
        let mut utterances: Vec<Vec<String>> = (0..3).map(|j| { let n = if j == 1 { rng.range(4, 9) } else { rng.range(1, 3) }; let rc = rng.chance(0.5); src.labels(&mut rng, n, rc) }).collect();
        if aligned {
            let per = e.condition.get_fperiod() as f64 * 1e7 / e.condition.get_sampling_frequency() as f64;
            for (j, u) in utterances.iter_mut().enumerate() {
                let n = u.len();
                let mut t = 0.0f64;
                for (l, line) in u.iter_mut().enumerate() {
                    let len = rng.uniform(5.0, 30.0);
                    let stamp = match j { 0 => false, 1 => l + 2 < n, _ => l == 0 && n > 1 };
                    if stamp { *line = format!("{} {} {}", (t * per).round() as u64, ((t + len) * per).round() as u64, line); }
                    t += len;
                }
            }
        }
        let before = getters(&e);
        // reference: every utterance on its own freshly loaded engine (same condition) that has never synthesized
        // anything else — a result that depends on what an engine did before cannot equal it
        let reference: Vec<Vec<f64>> = utterances.iter().map(|u| { let mut f = factory(); f.condition = e.condition.clone(); f.synthesize(u.clone()).unwrap() }).collect();
        // the same engine, one utterance after the other, twice
        let first_pass_ok = utterances.iter().zip(&reference).all(|(u, r)| bits_eq(&e.synthesize(u.clone()).unwrap(), r));
        let repeat_ok = first_pass_ok && utterances.iter().zip(&reference).all(|(u, r)| bits_eq(&e.synthesize(u.clone()).unwrap(), r));
        let clone_ok = { let c = e.clone(); utterances.iter().zip(&reference).all(|(u, r)| bits_eq(&c.synthesize(u.clone()).unwrap(), r)) };
        let shared = Arc::new(e.clone());
        let barrier = Arc::new(Barrier::new(k));
        let fp = e.condition.get_fperiod();
        let plans: Vec<(usize, bool, u64)> = (0..k).map(|_| (rng.below(3), rng.chance(0.5), rng.next() % 2000)).collect();
        let mut handles = Vec::new();
        for (u, stepwise, spin) in plans.clone() {
            let eng = shared.clone();
            let bar = barrier.clone();
            let labels = utterances[u].clone();
            handles.push(std::thread::spawn(move || {
                bar.wait();
                let mut x = 0u64;
                for j in 0..spin { x = x.wrapping_add(j * j); }
                std::hint::black_box(x);
                let t0 = std::time::Instant::now();
                let w = if stepwise {
                    let mut g = eng.generator(labels).unwrap();
                    let mut out = Vec::new();
                    let mut buf = vec![0.0; fp];
                    while g.generate_step(&mut buf) > 0 { out.extend_from_slice(&buf); std::thread::yield_now(); }
                    out
                } else {
                    eng.synthesize(labels).unwrap()
                };
                (w, t0, std::time::Instant::now())
            }));
        }
        let results: Vec<(Vec<f64>, std::time::Instant, std::time::Instant)> = handles.into_iter().map(|h| h.join().expect("thread")).collect();
        let threads_ok = results.iter().zip(&plans).all(|((w, _, _), (u, _, _))| bits_eq(w, &reference[*u]));
        // overlap in time (measured)
        let mut overlaps = 0usize;
        for a in 0..k { for b in (a + 1)..k { if results[a].1 < results[b].2 && results[b].1 < results[a].2 { overlaps += 1; } } }
        // interleaved live generators on one thread
        let mut g1 = e.generator(utterances[0].clone()).unwrap();
        let mut g2 = e.generator(utterances[1].clone()).unwrap();
        let (mut o1, mut o2) = (Vec::new(), Vec::new());
        let mut buf = vec![0.0; fp];
        let mut iter = 0usize;
        loop {
            let a = g1.generate_step(&mut buf);
            if a > 0 { o1.extend_from_slice(&buf); }
            // a whole synthesis in between the two live generators, every eighth step
            if iter % 8 == 0 {
                let mid = e.synthesize(utterances[2].clone()).unwrap();
                if !bits_eq(&mid, &reference[2]) { o1.clear(); break; }
            }
            iter += 1;
            let b = g2.generate_step(&mut buf);
            if b > 0 { o2.extend_from_slice(&buf); }
            if a == 0 && b == 0 { break; }
        }
        let interleave_ok = bits_eq(&o1, &reference[0]) && bits_eq(&o2, &reference[1]);
        let after = getters(&e);
        let mut line = format!("det {} {}", kind, k);
        push_u(&mut line, repeat_ok as usize);
        push_u(&mut line, clone_ok as usize);
        push_u(&mut line, threads_ok as usize);
        push_u(&mut line, interleave_ok as usize);
        push_u(&mut line, (before == after) as usize);
        push_u(&mut line, overlaps);
        println!("{}", line);
    }
    // ---- (a1) copies of an engine: `clone()` and `Engine::new` from the parts carry exactly the state of the original.
    // The whole state is compared through `Debug` (it shows the stored linear gain, which the dB getter rounds away) for many
    // settings, and the waveform for the first difference found and for a few settings anyway
    // (seeded change C03g: copies rebuilt through the setters; the dB round trip of the volume is not exact for ~0.5 % of values)
    {
        let mut e = Engine::load(&[BUNDLED_VOICE]).expect("bundled voice");
        e.condition.set_fperiod(24);
        let lines = src.labels(&mut rng, 2, false);
        let nvol = if thorough { 60000 } else { 6000 };
        let mut state_diffs = 0usize;
        let mut wave_diffs = 0usize;
        let mut waves = 0usize;
        let mut first_bad = 0.0f64;
        for j in 0..nvol {
            let v = match j % 3 { 0 => (rng.range(0, 400) as f64 - 200.0) / 10.0, 1 => rng.uniform(-20.0, 20.0), _ => rng.uniform(-60.0, 60.0) };
            e.condition.set_volume(v);
            e.condition.set_speed(rng.uniform(0.5, 2.0));
            e.condition.set_additional_half_tone(rng.uniform(-12.0, 12.0));
            e.condition.set_alpha(rng.unit());
            e.condition.set_beta(rng.unit() * 0.5);
            e.condition.set_msd_threshold(1, rng.unit());
            e.condition.set_gv_weight(0, rng.uniform(0.0, 2.0));
            let c1 = e.clone();
            let c2 = Engine::new(e.voices.clone(), e.condition.clone());
            let d0 = format!("{:?}", e.condition);
            let differs = format!("{:?}", c1.condition) != d0 || format!("{:?}", c2.condition) != d0;
            if differs { state_diffs += 1; if state_diffs == 1 { first_bad = v; } }
            if (differs && wave_diffs == 0) || j % (nvol / 4) == 0 {
                waves += 1;
                let w0 = e.synthesize(lines.clone()).unwrap();
                if !bits_eq(&c1.synthesize(lines.clone()).unwrap(), &w0) || !bits_eq(&c2.synthesize(lines.clone()).unwrap(), &w0) {
                    wave_diffs += 1;
                    if wave_diffs == 1 { first_bad = v; }
                }
            }
        }
        let mut line = String::from("clones");
        push_u(&mut line, nvol);
        push_u(&mut line, waves);
        push_u(&mut line, state_diffs);
        push_u(&mut line, wave_diffs);
        push_f(&mut line, first_bad);
        println!("{}", line);
    }
    // ---- (a2) rate / frame-period histories with alignment on and time-stamped strings
    gen_units(&mut rng, &src, if thorough { 300 } else { 40 });
    // ---- (b) setter histories ending in the same values: same getters, same waveform
    let nhist = if thorough { 2000 } else { 150 };
    for _ in 0..nhist {
        let (base, kind) = if rng.chance(0.5) { (src.bundled.clone(), "bundled") } else { src.any_engine(&mut rng) };
        let ns = base.voices.global_metadata().num_streams;
        // final values
        let mut target = base.clone();
        random_condition(&mut rng, &mut target, true);
        target.condition.set_phoneme_alignment_flag(false);
        let finals = {
            let c = &target.condition;
            (c.get_sampling_frequency(), c.get_fperiod(), c.get_volume(), (0..ns).map(|i| c.get_msd_threshold(i)).collect::<Vec<_>>(),
             (0..ns).map(|i| c.get_gv_weight(i)).collect::<Vec<_>>(), c.get_speed(), c.get_alpha(), c.get_beta(), c.get_additional_half_tone())
        };
        let apply_finals = |e: &mut Engine, order: &[usize]| {
            let c = &mut e.condition;
            for f in order {
                match f {
                    0 => c.set_sampling_frequency(finals.0),
                    1 => c.set_fperiod(finals.1),
                    2 => c.set_volume(finals.2),
                    3 => for i in 0..ns { c.set_msd_threshold(i, finals.3[i]) },
                    4 => for i in 0..ns { c.set_gv_weight(i, finals.4[i]) },
                    5 => c.set_speed(finals.5),
                    6 => c.set_alpha(finals.6),
                    7 => c.set_beta(finals.7),
                    _ => c.set_additional_half_tone(finals.8),
                }
            }
        };
        let mut order1: Vec<usize> = (0..9).collect();
        let mut order2: Vec<usize> = (0..9).collect();
        for i in (1..9).rev() { let j = rng.below(i + 1); order1.swap(i, j); let j2 = rng.below(i + 1); order2.swap(i, j2); }
        let mut e1 = base.clone();
        let mut e2 = base.clone();
        // noise history first (different for the two engines), then the final values in different orders
        for _ in 0..rng.range(0, 6) { let _ = crate::c20::random_op(&mut rng, &mut e1.condition, ns); }
        for _ in 0..rng.range(0, 6) { let _ = crate::c20::random_op(&mut rng, &mut e2.condition, ns); }
        e1.condition.set_phoneme_alignment_flag(false);
        e2.condition.set_phoneme_alignment_flag(false);
        apply_finals(&mut e1, &order1);
        apply_finals(&mut e2, &order2);
        let n = rng.range(1, 3);
        let labels = src.labels(&mut rng, n, false);
        let w1 = catch(std::panic::AssertUnwindSafe(|| e1.synthesize(labels.clone()).map_err(|e| format!("{e}"))));
        let w2 = catch(std::panic::AssertUnwindSafe(|| e2.synthesize(labels.clone()).map_err(|e| format!("{e}"))));
        let same_wave = match (&w1, &w2) { (Ok(Ok(a)), Ok(Ok(b))) => bits_eq(a, b), _ => false };
        let mut line = format!("hist {}", kind);
        push_u(&mut line, (getters(&e1) == getters(&e2)) as usize);
        push_u(&mut line, same_wave as usize);
        println!("{}", line);
    }
    // interpolation weights are settings too: on three compatible voices, an engine whose weights were set away from the
    // defaults and then back to exactly the default vectors must synthesize like an engine that never touched them
    // (seeded change C03k: a hidden "uniform" flag that only the defaults set, selecting another summation order)
    for t in 0..(if thorough { 30 } else { 4 }) {
        let (vs, cfg) = crate::c19::compatible_voices(&mut rng, 3, &src.pool, false);
        let e1 = crate::c19::engine_of(vs.clone()).expect("compatible voices");
        let mut e2 = crate::c19::engine_of(vs.clone()).expect("compatible voices");
        let ns = cfg.nstream;
        let d: Vec<f64> = e1.condition.get_interporation_weight().get_duration().to_vec();
        {
            let iw = e2.condition.get_interporation_weight_mut();
            iw.set_duration(&[0.2, 0.3, 0.5]).expect("weights");
            iw.set_duration(&d).expect("weights");
            for s in 0..ns {
                let p: Vec<f64> = e1.condition.get_interporation_weight().get_parameter(s).to_vec();
                let g: Vec<f64> = e1.condition.get_interporation_weight().get_gv(s).to_vec();
                iw.set_parameter(s, &[0.5, 0.25, 0.25]).expect("weights");
                iw.set_parameter(s, &p).expect("weights");
                iw.set_gv(s, &[0.25, 0.25, 0.5]).expect("weights");
                iw.set_gv(s, &g).expect("weights");
            }
        }
        let labels = src.labels(&mut rng, 2 + t % 2, false);
        let w1 = catch(std::panic::AssertUnwindSafe(|| e1.synthesize(labels.clone()).map_err(|e| format!("{e}"))));
        let w2 = catch(std::panic::AssertUnwindSafe(|| e2.synthesize(labels.clone()).map_err(|e| format!("{e}"))));
        let same_wave = match (&w1, &w2) { (Ok(Ok(a)), Ok(Ok(b))) => bits_eq(a, b), _ => false };
        let iw_same = { let (a, b) = (e1.condition.get_interporation_weight(), e2.condition.get_interporation_weight());
            a.get_duration().to_vec() == b.get_duration().to_vec() && (0..ns).all(|s| a.get_parameter(s).to_vec() == b.get_parameter(s).to_vec() && a.get_gv(s).to_vec() == b.get_gv(s).to_vec()) };
        let mut line = String::from("hist three-voices-weights-away-and-back");
        push_u(&mut line, (getters(&e1) == getters(&e2) && iw_same) as usize);
        push_u(&mut line, same_wave as usize);
        println!("{}", line);
    }
}
