//! C05 (MLPG = maximum-likelihood solution) on caller-built `ModelStream`s through the public
//! `MlpgAdjust::new(..).create(&durations)`; also the stage-level streams of C11/C12.
use crate::util::*;
use jbonsai::mlpg_adjust::MlpgAdjust;
use jbonsai::model::voice::window::{Window, Windows};
use jbonsai::model::{MeanVari, ModelStream, StreamParameter};

pub const WSETS: [&[&[f64]]; 7] = [
    &[&[1.0]],
    &[&[1.0], &[-0.5, 0.0, 0.5]],
    &[&[1.0], &[-0.5, 0.0, 0.5], &[1.0, -2.0, 1.0]],
    &[&[1.0], &[-0.2, -0.1, 0.0, 0.1, 0.2], &[0.285714, -0.142857, -0.285714, -0.142857, 0.285714]],
    &[&[1.0], &[-1.0, 1.0, 0.0], &[0.25, -0.5, 0.25]],
    // window sets whose widest window is not the last one (seeded change C01g: band width from the last window)
    &[&[1.0], &[-0.2, -0.1, 0.0, 0.1, 0.2], &[1.0, -2.0, 1.0]],
    &[&[1.0], &[-0.2, -0.1, 0.0, 0.1, 0.2]],
];

pub struct StreamCase {
    pub veclen: usize,
    pub windows: Vec<Vec<f64>>,
    pub stream: Vec<(Vec<MeanVari>, f64)>,
    pub durs: Vec<usize>,
    pub thr: f64,
    pub gvw: f64,
    pub gv: Option<(Vec<MeanVari>, Vec<bool>)>,
}

impl StreamCase {
    pub fn push(&self, line: &mut String) {
        push_u(line, self.veclen);
        push_u(line, self.windows.len());
        for w in &self.windows {
            push_fs(line, w);
        }
        push_u(line, self.stream.len());
        for (ps, msd) in &self.stream {
            push_u(line, ps.len());
            for MeanVari(m, v) in ps {
                push_f(line, *m);
                push_f(line, *v);
            }
            push_f(line, *msd);
        }
        push_us(line, &self.durs);
        push_f(line, self.thr);
        push_f(line, self.gvw);
        match &self.gv {
            None => push_u(line, 0),
            Some((p, sw)) => {
                push_u(line, 1);
                push_u(line, p.len());
                for MeanVari(m, v) in p {
                    push_f(line, *m);
                    push_f(line, *v);
                }
                push_u(line, sw.len());
                for b in sw {
                    push_u(line, *b as usize);
                }
            }
        }
    }
    pub fn run(&self) -> Result<Vec<Vec<f64>>, String> {
        let windows = Windows::new(self.windows.iter().map(|w| Window::new(w.clone())).collect());
        let ms = ModelStream {
            vector_length: self.veclen,
            stream: StreamParameter::new(self.stream.clone()),
            gv: self.gv.clone(),
            windows: &windows,
        };
        let durs = self.durs.clone();
        let (gvw, thr) = (self.gvw, self.thr);
        // `create` takes `&self`: it must be a function of its argument.  On every other case the same `MlpgAdjust`
        // is first asked for a different duration vector (same state count, other frame counts), and the call under
        // test comes second (seeded change C05f: a mask memoised by the first call).
        let total: usize = durs.iter().sum();
        let mut decoy: Vec<usize> = durs.iter().enumerate().map(|(i, d)| if i % 2 == 0 { d + 1 + i % 3 } else { 1.max(d / 2) }).collect();
        // … and on every fourth case the decoy has the SAME number of frames, differently distributed over the states (frames
        // moved from the longest state to its neighbours): a cache keyed by the frame count would go stale (seeded change C11j)
        if total % 4 == 3 && durs.len() >= 2 {
            decoy = durs.clone();
            let (k, _) = decoy.iter().enumerate().max_by_key(|(_, d)| **d).unwrap();
            let mv = decoy[k] / 2;
            decoy[k] -= mv;
            let n = decoy.len();
            decoy[(k + 1) % n] += mv - mv / 2;
            decoy[(k + n - 1) % n] += mv / 2;
        }
        let with_decoy = total % 2 == 1;
        catch(std::panic::AssertUnwindSafe(move || {
            let adj = MlpgAdjust::new(gvw, thr, ms);
            if with_decoy {
                let _ = std::panic::catch_unwind(std::panic::AssertUnwindSafe(|| adj.create(&decoy)));
            }
            adj.create(&durs)
        }))
    }
}

pub fn push_traj(line: &mut String, r: &Result<Vec<Vec<f64>>, String>) {
    match r {
        Ok(t) => {
            push_s(line, "ok");
            push_u(line, t.len());
            push_u(line, t.first().map(|r| r.len()).unwrap_or(0));
            for row in t {
                for x in row {
                    push_f(line, *x);
                }
            }
        }
        Err(site) => {
            push_s(line, "panic");
            push_s(line, &esc(site));
        }
    }
}

/// voicing pattern over states: MSD weights around the threshold
pub fn voicing(rng: &mut Rng, n: usize, msd: bool) -> Vec<f64> {
    if !msd {
        return vec![f64::MAX; n];
    }
    let style = rng.below(7);
    (0..n)
        .map(|i| match style {
            0 => 0.9,                                             // all voiced
            1 => 0.1,                                             // all unvoiced
            2 => if rng.chance(0.5) { 0.9 } else { 0.1 },         // random, islands of 1 and 2 likely
            3 => if (i / 2) % 2 == 0 { 0.8 } else { 0.2 },        // islands of exactly two states
            4 => if i % 2 == 0 { 0.7 } else { 0.3 },              // islands of one state
            // exact ties with the threshold (0.5) and its f64 neighbours: a weight equal to the threshold is unvoiced
            // (seeded change C05h: `>=`)
            5 => *rng.pick(&[0.5, 0.5, f64::from_bits(0.5f64.to_bits() + 1), f64::from_bits(0.5f64.to_bits() - 1), 0.9, 0.1]),
            _ => rng.unit(),
        })
        .collect()
}

pub fn random_stream(rng: &mut Rng, max_states: usize, msd: bool) -> StreamCase {
    let n = match rng.below(3) {
        0 => rng.range(1, 4),
        1 => rng.range(1, 12),
        _ => rng.range(1, max_states),
    };
    let veclen = rng.range(1, 4);
    let wset = *rng.pick(&WSETS[..]);
    let windows: Vec<Vec<f64>> = wset.iter().map(|w| w.to_vec()).collect();
    let nwin = windows.len();
    let v = voicing(rng, n, msd);
    let short = rng.chance(0.4);
    let zero_means = rng.chance(0.15);
    let stream = (0..n)
        .map(|i| {
            let ps = (0..nwin * veclen)
                .map(|k| {
                    // value classes: exactly zero means (both signs) — what a stationary segment's dynamic features are
                    // (seeded change C05g: an observation with mean 0 dropped together with its precision)
                    let m = if zero_means && rng.chance(0.5) { if rng.chance(0.5) { 0.0 } else { -0.0 } }
                        else if k < veclen { rng.uniform(-3.0, 3.0) } else { rng.uniform(-0.5, 0.5) };
                    MeanVari(m, rng.uniform(0.05, 3.0))
                })
                .collect();
            (ps, v[i])
        })
        .collect();
    let durs = (0..n).map(|_| if short { rng.range(1, 2) } else { rng.range(1, 8) }).collect();
    StreamCase { veclen, windows, stream, durs, thr: 0.5, gvw: 1.0, gv: None }
}

/// C11's own run of the stage-level class (MSD streams only): the mask of `MlpgAdjust::create` — voiced iff the state's weight
/// exceeds the threshold, no-data on the unvoiced frames — on caller-built streams, with the decoy calls of `StreamCase::run`
pub fn gen_mask_class(seed: u64, thorough: bool) {
    let mut rng = Rng::new(seed ^ 0xc11_5a5a);
    for _ in 0..(if thorough { 2000 } else { 120 }) {
        let mut c = random_stream(&mut rng, 40, true);
        c.thr = *rng.pick(&[0.5, 0.5, 0.2, 0.8, 0.0, 1.0]);
        let mut line = String::from("mlpg");
        c.push(&mut line);
        push_traj(&mut line, &c.run());
        println!("{}", line);
    }
}

pub fn gen_c05(seed: u64, thorough: bool) {
    let mut rng = Rng::new(seed);
    let n = if thorough { 8000 } else { 400 };
    for _ in 0..n {
        let msd = rng.chance(0.75);
        let c = random_stream(&mut rng, 60, msd);
        let mut line = String::from("mlpg");
        c.push(&mut line);
        push_traj(&mut line, &c.run());
        println!("{}", line);
    }
}
