//! C04: a loaded voice is exactly what the file says.
use crate::engine::Sources;
use crate::util::*;
use crate::voices::*;
use jbonsai::model::voice::model::Model;
use jbonsai::model::{load_htsvoice_file, Voice};
use jbonsai::Engine;

/// `handed`: the Gaussian that `Models` hands to synthesis for this entry (single voice, weight 1), when available; it
/// replaces the voice-level entry in the comparison — the property speaks about what synthesis receives, bit for bit
/// (seeded change C04g: the blend loses the sign of a negative-zero entry)
fn push_entry(line: &mut String, m: &Model, state: usize, label: &jlabel::Label, handed: Option<(Vec<jbonsai::model::MeanVari>, Option<f64>)>) {
    let r = catch(std::panic::AssertUnwindSafe(|| {
        let (t, p) = m.get_index(state, label);
        let mut par = m.get_parameter(state, label).clone();
        if let Some((ps, msd)) = handed {
            par.parameters = ps;
            par.msd = msd;
        }
        (t, p, par)
    }));
    match r {
        Ok((Some(t), Some(p), par)) => {
            push_s(line, "e");
            push_u(line, t);
            push_u(line, p);
            push_u(line, par.parameters.len());
            for mv in &par.parameters {
                push_f(line, mv.0);
                push_f(line, mv.1);
            }
            match par.msd {
                Some(x) => { push_u(line, 1); push_f(line, x); }
                None => push_u(line, 0),
            }
        }
        Ok(_) => push_s(line, "none"),
        Err(site) => { push_s(line, "panic"); push_s(line, &esc(&site)); }
    }
}

fn meta_line(path: &str, v: &Voice, e: &Engine) -> String {
    let mut line = format!("htsmeta {}", path);
    let g = &v.metadata;
    push_u(&mut line, g.sampling_frequency);
    push_u(&mut line, g.frame_period);
    push_u(&mut line, g.num_states);
    push_u(&mut line, g.num_streams);
    push_s(&mut line, &esc(&g.stream_type.join(",")));
    push_s(&mut line, &esc(&g.hts_voice_version));
    push_s(&mut line, &esc(&g.fullcontext_format));
    push_s(&mut line, &esc(&g.fullcontext_version));
    push_u(&mut line, v.stream_models.len());
    for s in &v.stream_models {
        push_u(&mut line, s.metadata.vector_length);
        push_u(&mut line, s.metadata.num_windows);
        push_u(&mut line, s.metadata.is_msd as usize);
        push_u(&mut line, s.metadata.use_gv as usize);
        push_s(&mut line, &esc(&s.metadata.option.join(",")));
        let wins: Vec<Vec<f64>> = s.windows.iter().map(|w| { let mut c: Vec<f64> = w.iter_rev(0).map(|(_, c)| c).collect(); c.reverse(); c }).collect();
        push_u(&mut line, wins.len());
        for w in &wins { push_fs(&mut line, w); }
    }
    // the engine's defaults
    let c = &e.condition;
    push_s(&mut line, "engine");
    push_u(&mut line, c.get_sampling_frequency());
    push_u(&mut line, c.get_fperiod());
    push_f(&mut line, c.get_alpha());
    // stage / log-gain are not readable through getters: observe them through a LSP-vs-MCP synthesis elsewhere (C13);
    push_f(&mut line, c.get_volume());
    push_f(&mut line, c.get_speed());
    // gamma stage and log-gain flag have no getter; they are public through `Debug` (a field missing from the debug text is
    // reported as "unknown" and not compared)
    let dbg = format!("{:?}", c);
    let field = |name: &str| -> String {
        dbg.find(&format!("{name}: ")).map(|i| dbg[i + name.len() + 2..].chars().take_while(|ch| ch.is_alphanumeric() || *ch == '.' || *ch == '-').collect()).unwrap_or_else(|| "unknown".to_string())
    };
    push_s(&mut line, &esc(&field("stage")));
    push_s(&mut line, &esc(&field("use_log_gain")));
    line
}

fn label_lines(path: &str, v: &Voice, e: &Engine, labels: &[String]) {
    let nstate = v.metadata.num_states;
    for (li, l) in labels.iter().enumerate() {
        let lab: jlabel::Label = l.parse().expect("label");
        let mut line = format!("hts {} {}", path, esc(&lab.to_string()));
        // every other label: the values come from `Models` (what `Engine::generator` reads), not from the voice
        let models = if li % 2 == 0 {
            let one = [lab.clone()];
            catch(std::panic::AssertUnwindSafe(|| {
                let m = jbonsai::model::Models::new(&one, &e.voices, e.condition.get_interporation_weight());
                let dur = m.duration();
                let streams: Vec<(Vec<(Vec<jbonsai::model::MeanVari>, f64)>, Option<Vec<jbonsai::model::MeanVari>>)> = (0..v.stream_models.len())
                    .map(|i| { let ms = m.model_stream(i); (ms.stream.iter().cloned().collect(), ms.gv.as_ref().map(|g| g.0.clone())) })
                    .collect();
                (dur, streams)
            })).ok()
        } else { None };
        push_entry(&mut line, &v.duration_model, 2, &lab, models.as_ref().map(|m| (m.0.clone(), None)));
        push_u(&mut line, v.stream_models.len());
        for (si, s) in v.stream_models.iter().enumerate() {
            push_u(&mut line, nstate);
            for st in 0..nstate {
                let handed = models.as_ref().and_then(|m| m.1[si].0.get(st).map(|(ps, msd)| (ps.clone(), if s.metadata.is_msd { Some(*msd) } else { None })));
                push_entry(&mut line, &s.stream_model, st + 2, &lab, handed);
            }
            match &s.gv_model {
                Some(g) => {
                    push_u(&mut line, 1);
                    let handed = models.as_ref().and_then(|m| m.1[si].1.clone()).map(|ps| (ps, None));
                    push_entry(&mut line, g, 2, &lab, handed);
                }
                None => push_u(&mut line, 0),
            }
        }
        println!("{}", line);
    }
}

pub fn gen(seed: u64, thorough: bool) {
    let mut rng = Rng::new(seed);
    let src = Sources::new();
    // bundled voice
    let bundled = load_htsvoice_file(&BUNDLED_VOICE).unwrap();
    let be = Engine::load(&[BUNDLED_VOICE]).unwrap();
    println!("{}", meta_line(BUNDLED_VOICE, &bundled, &be));
    let nb = if thorough { 1456 } else { 120 };
    let mut labels: Vec<String> = if thorough { src.corpus.clone() } else { (0..nb / 2).map(|_| src.corpus[rng.below(src.corpus.len())].clone()).collect() };
    let nrec = if thorough { 4000 } else { nb / 2 };
    labels.extend(src.labels(&mut rng, nrec, true));
    label_lines(BUNDLED_VOICE, &bundled, &be, &labels);
    // generated voices
    let nv = if thorough { 120 } else { 14 };
    for i in 0..nv {
        let cfg = VoiceCfg { nstream: rng.range(2, 3), stage: if i % 3 == 0 { rng.range(1, 3) } else { 0 }, nstate: rng.range(1, 7), max_leaves: rng.range(2, 12) };
        let mut spec = VoiceSpec::random(&mut rng, &cfg, &src.pool);
        if i % 2 == 1 { spec.vary_shapes(&mut rng); }
        let path = format!("{}/voices/C04_{}_{}.htsvoice", work_dir(), seed, i);
        spec.write(&path);
        let (v, e) = match (load_htsvoice_file(&path), Engine::load(&[&path])) {
            (Ok(v), Ok(e)) => (v, e),
            (Err(err), _) => { println!("htsmeta {} loaderr {}", path, esc(&format!("{err:?}"))); continue; }
            (_, Err(err)) => { println!("htsmeta {} loaderr {}", path, esc(&format!("{err:?}"))); continue; }
        };
        println!("{}", meta_line(&path, &v, &e));
        let n = if thorough { 60 } else { 20 };
        let mut labels = src.labels(&mut rng, n / 2, false);
        labels.extend(src.labels(&mut rng, n / 2, true));
        label_lines(&path, &v, &e, &labels);
    }
}
