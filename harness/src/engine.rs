//! Engine-level cases: the whole pipeline on bundled and generated voices (C01, C03, C11, C12, C15, C16, C17).
use crate::c19::{engine_of, load_spec};
use crate::util::*;
use crate::voices::*;
use jbonsai::duration::DurationEstimator;
use jbonsai::label::Labels;
use jbonsai::model::{MeanVari, ModelStream, Models};
use jbonsai::Engine;
use std::sync::Arc;

pub struct Sources {
    pub pool: Vec<(String, Vec<String>)>,
    pub corpus: Vec<String>,
    pub parsed: Vec<jlabel::Label>,
    pub bundled: Engine,
}

impl Sources {
    pub fn new() -> Self {
        let corpus = corpus();
        let parsed = corpus.iter().map(|l| l.parse().expect("corpus label parses")).collect();
        Sources { pool: question_pool(), corpus, parsed, bundled: Engine::load(&[BUNDLED_VOICE]).expect("bundled voice") }
    }
    /// consecutive corpus labels, or labels whose twelve field groups are recombined across the corpus
    pub fn labels(&self, rng: &mut Rng, n: usize, recombine: bool) -> Vec<String> {
        if !recombine {
            let s = rng.below(self.corpus.len() - n);
            return self.corpus[s..s + n].to_vec();
        }
        (0..n)
            .map(|_| {
                let pick = |rng: &mut Rng| &self.parsed[rng.below(self.parsed.len())];
                let l = jlabel::Label {
                    phoneme: pick(rng).phoneme.clone(),
                    mora: pick(rng).mora.clone(),
                    word_prev: pick(rng).word_prev.clone(),
                    word_curr: pick(rng).word_curr.clone(),
                    word_next: pick(rng).word_next.clone(),
                    accent_phrase_prev: pick(rng).accent_phrase_prev.clone(),
                    accent_phrase_curr: pick(rng).accent_phrase_curr.clone(),
                    accent_phrase_next: pick(rng).accent_phrase_next.clone(),
                    breath_group_prev: pick(rng).breath_group_prev.clone(),
                    breath_group_curr: pick(rng).breath_group_curr.clone(),
                    breath_group_next: pick(rng).breath_group_next.clone(),
                    utterance: pick(rng).utterance.clone(),
                };
                l.to_string()
            })
            .collect()
    }
    pub fn generated(&self, rng: &mut Rng, nstream: usize, stage: usize, nstate: usize) -> Engine {
        let cfg = VoiceCfg { nstream, stage, nstate, max_leaves: 6 };
        let spec = VoiceSpec::random(rng, &cfg, &self.pool);
        let v = load_spec(&spec, &format!("eng_{}", std::process::id()));
        engine_of(vec![Arc::new(v)]).expect("engine")
    }
    /// like `any_engine`, but returns a factory that loads the voice from its file again on every call, so
    /// that two engines share nothing (no `Arc`, no cache) — used to observe history dependence
    pub fn any_engine_factory(&self, rng: &mut Rng) -> (Box<dyn Fn() -> Engine>, &'static str) {
        if rng.below(3) == 0 {
            (Box::new(|| Engine::load(&[BUNDLED_VOICE]).expect("bundled voice")), "bundled")
        } else {
            let nstream = rng.range(2, 3);
            let stage = if rng.chance(0.5) { 0 } else { rng.range(1, 3) };
            let nstate = rng.range(1, 7);
            let cfg = VoiceCfg { nstream, stage, nstate, max_leaves: 6 };
            let spec = VoiceSpec::random(rng, &cfg, &self.pool);
            let name = format!("fac_{}", std::process::id());
            (Box::new(move || engine_of(vec![Arc::new(load_spec(&spec, &name))]).expect("engine")), if stage == 0 { "gen-mcp" } else { "gen-lsp" })
        }
    }
    /// bundled (1 in 3) or a generated voice over {2,3 streams} × {stage 0, ≥1} × nstate 1..7
    pub fn any_engine(&self, rng: &mut Rng) -> (Engine, &'static str) {
        if rng.below(3) == 0 {
            (self.bundled.clone(), "bundled")
        } else {
            let nstream = rng.range(2, 3);
            let stage = if rng.chance(0.5) { 0 } else { rng.range(1, 3) };
            let nstate = rng.range(1, 7);
            let e = self.generated(rng, nstream, stage, nstate);
            (e, if stage == 0 { "gen-mcp" } else { "gen-lsp" })
        }
    }
}

/// every getter of the condition, by name, as text (floats as bit patterns)
pub fn cond_snapshot(e: &Engine) -> Vec<(String, String)> {
    let c = &e.condition;
    let ns = e.voices.global_metadata().num_streams;
    let mut v = vec![
        ("sampling_frequency".to_string(), c.get_sampling_frequency().to_string()),
        ("fperiod".to_string(), c.get_fperiod().to_string()),
        ("volume".to_string(), hx(c.get_volume())),
        ("alignment".to_string(), (c.get_phoneme_alignment_flag() as usize).to_string()),
        ("speed".to_string(), hx(c.get_speed())),
        ("alpha".to_string(), hx(c.get_alpha())),
        ("beta".to_string(), hx(c.get_beta())),
        ("half_tone".to_string(), hx(c.get_additional_half_tone())),
    ];
    for i in 0..ns {
        v.push((format!("msd_threshold[{i}]"), hx(c.get_msd_threshold(i))));
        v.push((format!("gv_weight[{i}]"), hx(c.get_gv_weight(i))));
    }
    v
}

/// report (as `shist` case lines) every setting of `names` (all when empty) that differs between two snapshots
pub fn shist_report(before: &[(String, String)], after: &[(String, String)], names: &[&str], hist: &str) {
    for ((n, b), (_, a)) in before.iter().zip(after.iter()) {
        if b != a && (names.is_empty() || names.iter().any(|x| n.starts_with(x))) {
            let mut line = String::from("shist");
            push_s(&mut line, &esc(n));
            push_s(&mut line, b);
            push_s(&mut line, a);
            push_s(&mut line, &esc(hist));
            println!("{line}");
        }
    }
}

/// calls that must not change any setting: each one sets a setting to another in-range value and then back to what its
/// getter returned (every setter except the volume's stores what it is given, so this is exact), or toggles the
/// alignment flag twice. Returns the calls as text. (Seeded change C08h: switching alignment on reset the speed.)
pub fn neutral_calls(rng: &mut Rng, e: &mut Engine) -> String {
    let ns = e.voices.global_metadata().num_streams;
    let mut hist = String::new();
    let n = rng.range(2, 5);
    for _ in 0..n {
        let c = &mut e.condition;
        match rng.below(9) {
            0 => { let o = c.get_phoneme_alignment_flag(); c.set_phoneme_alignment_flag(!o); c.set_phoneme_alignment_flag(o); hist.push_str(&format!("alignment({})then({});", !o, o)); }
            1 => { let o = c.get_speed(); let v = rng.log_uniform(0.25, 4.0); c.set_speed(v); c.set_speed(o); hist.push_str(&format!("speed({v})then({o});")); }
            2 => { let o = c.get_beta(); let v = rng.uniform(0.0, 0.8); c.set_beta(v); c.set_beta(o); hist.push_str(&format!("beta({v})then({o});")); }
            3 => { let o = c.get_alpha(); let v = rng.uniform(0.0, 0.8); c.set_alpha(v); c.set_alpha(o); hist.push_str(&format!("alpha({v})then({o});")); }
            4 => { let o = c.get_additional_half_tone(); let v = rng.uniform(-24.0, 24.0); c.set_additional_half_tone(v); c.set_additional_half_tone(o); hist.push_str(&format!("half_tone({v})then({o});")); }
            5 => { let o = c.get_fperiod(); let v = rng.range(1, 480); c.set_fperiod(v); c.set_fperiod(o); hist.push_str(&format!("fperiod({v})then({o});")); }
            6 => { let o = c.get_sampling_frequency(); let v = *rng.pick(&[8000usize, 16000, 22050, 44100, 48000, 96000]); c.set_sampling_frequency(v); c.set_sampling_frequency(o); hist.push_str(&format!("sampling_frequency({v})then({o});")); }
            7 => { let i = rng.below(ns); let o = c.get_msd_threshold(i); let v = rng.uniform(0.0, 1.0); c.set_msd_threshold(i, v); c.set_msd_threshold(i, o); hist.push_str(&format!("msd_threshold[{i}]({v})then({o});")); }
            _ => { let i = rng.below(ns); let o = c.get_gv_weight(i); let v = rng.uniform(0.0, 2.0); c.set_gv_weight(i, v); c.set_gv_weight(i, o); hist.push_str(&format!("gv_weight[{i}]({v})then({o});")); }
        }
    }
    hist
}

/// after the caller's settings are in place: neutral calls, and — every third time — a reload of the voice defaults into the
/// condition in use, which must leave the caller's volume, speed, alignment flag, beta and half tone alone (seeded changes
/// C14h, C15f, C16g); the header-defined settings the reload resets are put back afterwards.
pub fn history_guard(rng: &mut Rng, e: &mut Engine) {
    let before = cond_snapshot(e);
    let mut hist = neutral_calls(rng, e);
    shist_report(&before, &cond_snapshot(e), &[], &hist);
    if rng.chance(0.34) {
        let vs = e.voices.clone();
        // interpolation weights are reset by a reload too: keep and restore them
        let iw = e.condition.get_interporation_weight().clone();
        if e.condition.load_model(&vs).is_ok() {
            hist.push_str("load_model;");
            let ns = vs.global_metadata().num_streams;
            *e.condition.get_interporation_weight_mut() = iw;
            let get = |k: &str| before.iter().find(|(n, _)| n == k).map(|(_, v)| v.clone()).unwrap();
            let f = |s: String| f64::from_bits(u64::from_str_radix(&s, 16).unwrap());
            e.condition.set_sampling_frequency(get("sampling_frequency").parse().unwrap());
            e.condition.set_fperiod(get("fperiod").parse().unwrap());
            e.condition.set_alpha(f(get("alpha")));
            for i in 0..ns {
                e.condition.set_msd_threshold(i, f(get(&format!("msd_threshold[{i}]"))));
                e.condition.set_gv_weight(i, f(get(&format!("gv_weight[{i}]"))));
            }
            shist_report(&before, &cond_snapshot(e), &[], &hist);
        }
    }
}

/// Setting plumbing through the public routes to a configured engine (no synthesis; prints `shist` lines for what fails
/// and one `shistok` line with the number of histories tried): (a) load, then set; (b) `Condition::default()`, set the
/// caller's settings, `load_model`, `Engine::new`; (c) a configured engine reloading its voices; (d) clone — each followed by
/// neutral calls. The caller-owned settings (volume, speed, alignment flag, beta, half tone) must read back what was set on
/// every route, in particular the property's own setting `tag` is always given a non-default value.
pub fn gen_plumb(seed: u64, tag: &str, thorough: bool) {
    let mut rng = Rng::new(seed ^ 0x91b0_0000_u64);
    let src = Sources::new();
    let n = if thorough { 400 } else { 24 };
    for k in 0..n {
        let (mut e, _) = src.any_engine(&mut rng);
        random_condition_inner(&mut rng, &mut e, true);
        {
            let ns = e.voices.global_metadata().num_streams;
            let c = &mut e.condition;
            match tag {
                "C14" => c.set_beta(rng.uniform(0.05, 0.8)),
                "C08" => c.set_speed(rng.log_uniform(0.25, 4.0)),
                "C09" | "C17" => c.set_phoneme_alignment_flag(true),
                "C15" => c.set_additional_half_tone(rng.uniform(-24.0, 24.0)),
                "C16" => c.set_volume(rng.uniform(-20.0, 20.0)),
                "C11" => { let i = rng.below(ns); c.set_msd_threshold(i, rng.uniform(0.0, 1.0)); }
                "C12" => { let i = rng.below(ns); c.set_gv_weight(i, rng.uniform(0.0, 2.0)); }
                "C06" | "C13" => c.set_alpha(rng.uniform(0.0, 0.8)),
                _ => {}
            }
        }
        // the float settings store an in-range argument as given, whatever the other settings are (seeded change C14k: beta
        // limited to 1 - alpha): set alpha high, then beta, and read back
        if tag == "C14" || tag == "C20" || tag == "C06" {
            let (a, b) = (rng.uniform(0.5, 0.8), rng.uniform(0.3, 0.8));
            e.condition.set_alpha(a);
            e.condition.set_beta(b);
            let got = cond_snapshot(&e);
            let wantab = vec![("alpha".to_string(), hx(a)), ("beta".to_string(), hx(b))];
            let gotab: Vec<(String, String)> = wantab.iter().map(|(n, _)| got.iter().find(|(m, _)| m == n).cloned().unwrap()).collect();
            shist_report(&wantab, &gotab, &[], &format!("set_alpha({a});set_beta({b})"));
        }
        let want = cond_snapshot(&e);
        let owned = ["volume", "alignment", "speed", "beta", "half_tone"];
        let f = |s: &str| f64::from_bits(u64::from_str_radix(s, 16).unwrap());
        let get = |k: &str| want.iter().find(|(n, _)| n == k).map(|(_, v)| v.clone()).unwrap();
        let set_owned = |c: &mut jbonsai::engine::Condition, order: usize| {
            // the five caller-owned settings in one of several orders
            let mut idx = [0usize, 1, 2, 3, 4];
            idx.rotate_left(order % 5);
            if order % 2 == 1 { idx.reverse(); }
            for j in idx {
                match j {
                    0 => c.set_volume(f64::from_bits(u64::from_str_radix(&get("volume"), 16).unwrap())),
                    1 => c.set_phoneme_alignment_flag(get("alignment") == "1"),
                    2 => c.set_speed(f(&get("speed"))),
                    3 => c.set_beta(f(&get("beta"))),
                    _ => c.set_additional_half_tone(f(&get("half_tone"))),
                }
            }
        };
        match k % 4 {
            0 => {
                // (b) hand-built condition, settings first, voice defaults second
                let mut c = jbonsai::engine::Condition::default();
                set_owned(&mut c, k / 4);
                if c.load_model(&e.voices).is_ok() {
                    // … then the settings the voice defaults overwrite, as the caller wants them; `Engine::new` must take the
                    // condition as it is (seeded change C20i: `Engine::new` reloading the defaults when the rate differs)
                    let ns = e.voices.global_metadata().num_streams;
                    c.set_sampling_frequency(get("sampling_frequency").parse().unwrap());
                    c.set_fperiod(get("fperiod").parse().unwrap());
                    c.set_alpha(f(&get("alpha")));
                    for i in 0..ns {
                        c.set_msd_threshold(i, f(&get(&format!("msd_threshold[{i}]"))));
                        c.set_gv_weight(i, f(&get(&format!("gv_weight[{i}]"))));
                    }
                    let e2 = Engine::new(e.voices.clone(), c);
                    // the volume goes through dB -> linear -> dB once more on this route: compare it by value
                    let got = cond_snapshot(&e2);
                    let exact = ["alignment", "speed", "beta", "half_tone", "sampling_frequency", "fperiod", "alpha", "msd_threshold", "gv_weight"];
                    shist_report(&want, &got, &exact, "Condition::default();set caller settings;load_model;Engine::new");
                    let (v0, v1) = (f(&get("volume")), e2.condition.get_volume());
                    if !((v0 - v1).abs() <= 1e-9 * v0.abs().max(1.0)) {
                        shist_report(&want, &got, &["volume"], "Condition::default();set_volume;load_model;Engine::new");
                    }
                }
            }
            1 => {
                // (c) reload into the configured engine
                let vs = e.voices.clone();
                if e.condition.load_model(&vs).is_ok() {
                    shist_report(&want, &cond_snapshot(&e), &owned, "configure;load_model (reload)");
                }
            }
            2 => {
                // (d) clone, then neutral calls on the clone: neither copy may change
                let mut e2 = e.clone();
                let h = neutral_calls(&mut rng, &mut e2);
                shist_report(&want, &cond_snapshot(&e2), &[], &format!("clone;{h}"));
                shist_report(&want, &cond_snapshot(&e), &[], &format!("clone;{h} (original)"));
            }
            _ => {
                // (a) neutral calls on the configured engine
                let h = neutral_calls(&mut rng, &mut e);
                shist_report(&want, &cond_snapshot(&e), &[], &h);
            }
        }
    }
    println!("shistok {} {}", n, tag);
}

/// a random condition inside the operating envelope of C01
pub fn random_condition(rng: &mut Rng, e: &mut Engine, small_fperiod: bool) {
    random_condition_inner(rng, e, small_fperiod);
    history_guard(rng, e);
}

fn random_condition_inner(rng: &mut Rng, e: &mut Engine, small_fperiod: bool) {
    let ns = e.voices.global_metadata().num_streams;
    let c = &mut e.condition;
    if small_fperiod {
        c.set_fperiod(rng.range(1, 24));
    } else if rng.chance(0.3) {
        c.set_fperiod(rng.range(1, 480));
    }
    if rng.chance(0.3) {
        c.set_sampling_frequency(*rng.pick(&[8000usize, 16000, 22050, 44100, 48000, 96000]));
    }
    if rng.chance(0.5) {
        c.set_alpha(rng.uniform(0.0, 0.8));
    }
    if rng.chance(0.4) {
        c.set_beta(rng.uniform(0.0, 0.8));
    }
    for i in 0..ns {
        if rng.chance(0.5) {
            c.set_gv_weight(i, rng.uniform(0.0, 2.0));
        }
        if rng.chance(0.5) {
            c.set_msd_threshold(i, *rng.pick(&[0.0, 1.0, 0.5, 0.2, 0.8, 0.35, 0.65]));
        }
    }
    if rng.chance(0.4) {
        c.set_additional_half_tone(rng.uniform(-24.0, 24.0));
    }
    if rng.chance(0.4) {
        c.set_volume(rng.uniform(-20.0, 20.0));
    }
    if rng.chance(0.5) {
        c.set_speed(rng.log_uniform(0.25, 4.0));
    }
}

pub fn push_stream(line: &mut String, ms: &ModelStream) {
    push_u(line, ms.vector_length);
    let wins: Vec<Vec<f64>> = ms
        .windows
        .iter()
        .map(|w| {
            // coefficients are private: recover them through the public iterator (reverse order)
            let mut v: Vec<f64> = w.iter_rev(0).map(|(_, c)| c).collect();
            v.reverse();
            v
        })
        .collect();
    push_u(line, wins.len());
    for w in &wins {
        push_fs(line, w);
    }
    push_u(line, ms.stream.len());
    for (ps, msd) in ms.stream.iter() {
        push_u(line, ps.len());
        for MeanVari(m, v) in ps {
            push_f(line, *m);
            push_f(line, *v);
        }
        push_f(line, *msd);
    }
    match &ms.gv {
        None => push_u(line, 0),
        Some((p, sw)) => {
            push_u(line, 1);
            push_u(line, p.len());
            for MeanVari(m, v) in p {
                push_f(line, *m);
                push_f(line, *v);
            }
            push_u(line, sw.len());
            for b in sw {
                push_u(line, *b as usize);
            }
        }
    }
}

pub fn push_condition(line: &mut String, e: &Engine, volume_db: f64) {
    let c = &e.condition;
    let ns = e.voices.global_metadata().num_streams;
    let mut stage = 0usize;
    let mut lg = false;
    for o in &e.voices.stream_metadata(0).option {
        if let Some(v) = o.strip_prefix("GAMMA=") {
            stage = v.parse().unwrap_or(0);
        } else if let Some(v) = o.strip_prefix("LN_GAIN=") {
            lg = v == "1";
        }
    }
    push_u(line, c.get_sampling_frequency());
    push_u(line, c.get_fperiod());
    push_f(line, volume_db);
    push_u(line, ns);
    for i in 0..ns {
        push_f(line, c.get_msd_threshold(i));
    }
    for i in 0..ns {
        push_f(line, c.get_gv_weight(i));
    }
    push_u(line, c.get_phoneme_alignment_flag() as usize);
    push_f(line, c.get_speed());
    push_u(line, stage);
    push_u(line, lg as usize);
    push_f(line, c.get_alpha());
    push_f(line, c.get_beta());
    push_f(line, c.get_additional_half_tone());
}

pub fn push_matrix(line: &mut String, m: &[Vec<f64>]) {
    push_u(line, m.len());
    push_u(line, m.first().map(|r| r.len()).unwrap_or(0));
    for r in m {
        for x in r {
            push_f(line, *x);
        }
    }
}

/// One full-pipeline case. `lines` are label lines (possibly with time stamps).
pub fn pipe_line(tag: &str, e: &Engine, volume_db: f64, lines: &[String], kind: &str) -> String {
    let mut line = format!("pipe {} {}", tag, kind);
    push_condition(&mut line, e, volume_db);
    let labs = match Labels::load_from_strings(e.condition.get_sampling_frequency(), e.condition.get_fperiod(), lines) {
        Ok(l) => l,
        Err(err) => {
            push_s(&mut line, "labelerr");
            push_s(&mut line, &esc(&format!("{err:?}")));
            return line;
        }
    };
    let models = Models::new(labs.labels(), &e.voices, e.condition.get_interporation_weight());
    let nstate = models.nstate();
    let ns = e.voices.global_metadata().num_streams;
    push_s(&mut line, "in");
    push_u(&mut line, labs.labels().len());
    push_u(&mut line, nstate);
    let dur = models.duration();
    push_u(&mut line, dur.len());
    for MeanVari(m, v) in &dur {
        push_f(&mut line, *m);
        push_f(&mut line, *v);
    }
    for i in 0..ns {
        push_stream(&mut line, &models.model_stream(i));
    }
    push_u(&mut line, labs.times().len());
    for (s, t) in labs.times() {
        push_f(&mut line, *s);
        push_f(&mut line, *t);
    }
    // implementation outputs: durations (public stage API), trajectories (hook), waveform
    let est = DurationEstimator::new(dur.clone(), nstate);
    let cond = &e.condition;
    let durs = catch(std::panic::AssertUnwindSafe(|| {
        if cond.get_phoneme_alignment_flag() { est.create_with_alignment(labs.times()) } else { est.create(cond.get_speed()) }
    }));
    push_s(&mut line, "out");
    match &durs {
        Ok(d) => {
            push_s(&mut line, "ok");
            push_us(&mut line, d);
        }
        Err(s) => {
            push_s(&mut line, "panic");
            push_s(&mut line, &esc(s));
        }
    }
    let owned: Vec<String> = lines.to_vec();
    let gen = catch(std::panic::AssertUnwindSafe(|| e.generator(owned.clone())));
    match gen {
        Ok(Ok(g)) => {
            push_s(&mut line, "ok");
            {
                let (sp, lf0, lpf) = g.verif_parameters();
                push_matrix(&mut line, sp);
                push_matrix(&mut line, lf0);
                push_matrix(&mut line, lpf);
            }
            let fp = e.condition.get_fperiod();
            match catch(std::panic::AssertUnwindSafe(move || g.generate_all())) {
                Ok(w) => {
                    // the other two public routes to the same waveform must complete and agree bit for bit:
                    // Engine::synthesize, and a generator stepped k frames and then finished (seeded change C01f)
                    let k = 1 + w.len() % 3;
                    let o2 = owned.clone();
                    let r_syn = catch(std::panic::AssertUnwindSafe(|| e.synthesize(o2).map_err(|x| format!("{x}"))));
                    let o3 = owned.clone();
                    let r_step = catch(std::panic::AssertUnwindSafe(|| {
                        let mut g2 = e.generator(o3).map_err(|x| format!("{x}"))?;
                        let mut acc: Vec<f64> = Vec::new();
                        let mut buf = vec![0.0f64; fp];
                        for _ in 0..k {
                            let n = g2.generate_step(&mut buf);
                            acc.extend_from_slice(&buf[..n]);
                        }
                        acc.extend(g2.generate_all());
                        Ok::<Vec<f64>, String>(acc)
                    }));
                    let bits = |a: &[f64], b: &[f64]| a.len() == b.len() && a.iter().zip(b).all(|(x, y)| x.to_bits() == y.to_bits());
                    let route_fail = match (&r_syn, &r_step) {
                        (Err(s), _) => Some(format!("route synthesize panics: {s}")),
                        (_, Err(s)) => Some(format!("route {k} x generate_step + generate_all panics: {s}")),
                        (Ok(Err(x)), _) => Some(format!("route synthesize fails: {x}")),
                        (_, Ok(Err(x))) => Some(format!("route generator fails: {x}")),
                        (Ok(Ok(a)), _) if !bits(a, &w) => Some(format!("route synthesize returns {} samples / other bits than generate_all ({})", a.len(), w.len())),
                        (_, Ok(Ok(b))) if !bits(b, &w) => Some(format!("route {k} x generate_step + generate_all returns {} samples / other bits than generate_all ({})", b.len(), w.len())),
                        _ => None,
                    };
                    if let Some(msg) = route_fail {
                        push_s(&mut line, "panic");
                        push_s(&mut line, &esc(&msg));
                    } else {
                        push_s(&mut line, "ok");
                        push_fs(&mut line, &w);
                    }
                }
                Err(s) => {
                    push_s(&mut line, "panic");
                    push_s(&mut line, &esc(&s));
                }
            }
        }
        Ok(Err(err)) => {
            push_s(&mut line, "err");
            push_s(&mut line, &esc(&format!("{err}")));
        }
        Err(s) => {
            push_s(&mut line, "panic");
            push_s(&mut line, &esc(&s));
        }
    }
    line
}

pub fn gen_c01(seed: u64, thorough: bool) {
    let mut rng = Rng::new(seed);
    let src = Sources::new();
    let n = if thorough { 800 } else { 60 };
    for i in 0..n {
        println!("{}", pipe_case(&mut rng, &src, i, "C01"));
    }
    // the same pipeline driven from the voice files alone (header, trees, PDFs, interpolation included)
    gen_e2e(&mut rng, &src, "C01", if thorough { 200 } else { 24 });
}

/// The engine tie shared by every property whose subject is reached through `Engine::generator`: a few whole-pipeline
/// cases (random voice, labels and in-envelope condition incl. rate / frame-period overrides, speed, alignment, volume,
/// half tone, thresholds, GV weights, alpha, beta) whose durations, trajectories and waveform are compared with the model
/// composition.  A property's own generators exercise its stage through the stage's public API; this class is what
/// notices a change in the glue that feeds the stage (which setting reaches which stage, in which unit).
pub fn gen_tie(seed: u64, tag: &str, thorough: bool) {
    let mut rng = Rng::new(seed ^ 0x7e11_0000_u64);
    let src = Sources::new();
    let n = if thorough { 120 } else { 10 };
    for k in 0..n {
        // indices chosen so that the long bundled-voice cases (i % 6 == 0) and the empty utterance are skipped
        let i = 6 * k + 1 + k % 5;
        println!("{}", pipe_case(&mut rng, &src, i, tag));
    }
    // the header's option entries reach the engine whatever their order: LSP voices with the log-gain flag written BEFORE the
    // stage (chosen here, not drawn: the writer's shuffle once stopped producing this order when its random stream shifted, and
    // the seeded change C13h — a flag that is only honoured once the stage is known — slipped through the recent-seed sweep)
    if tag == "C13" || tag == "C01" || tag == "C04" {
        for k in 0..3usize {
            let cfg = VoiceCfg { nstream: 2 + k % 2, stage: 1 + k % 3, nstate: rng.range(1, 4), max_leaves: 4 };
            let mut spec = VoiceSpec::random(&mut rng, &cfg, &src.pool);
            spec.log_gain = true;
            spec.streams[0].options = vec!["LN_GAIN=1".to_string(), format!("GAMMA={}", cfg.stage), format!("ALPHA={}", spec.alpha)];
            let v = load_spec(&spec, &format!("tie_lng_{}_{}", std::process::id(), k));
            let Ok(mut e) = engine_of(vec![Arc::new(v)]) else { continue };
            e.condition.set_fperiod(rng.range(4, 24));
            let lines = src.labels(&mut rng, 2, false);
            println!("{}", pipe_line(tag, &e, 0.0, &lines, "gen-lsp"));
        }
    }
}

/// like `gen_tie`, from the voice files alone
pub fn gen_tie_e2e(seed: u64, tag: &str, thorough: bool) {
    let mut rng = Rng::new(seed ^ 0x7e11_e2e0_u64);
    let src = Sources::new();
    gen_e2e(&mut rng, &src, tag, if thorough { 60 } else { 6 });
}

pub fn pipe_case(rng: &mut Rng, src: &Sources, i: usize, tag: &str) -> String {
    {
        let mut rng: &mut Rng = rng;
        let (mut e, kind) = src.any_engine(rng);
        let small = i % 6 != 0;
        random_condition(&mut rng, &mut e, small);
        let vdb = if rng.chance(0.4) { rng.uniform(-20.0, 20.0) } else { 0.0 };
        e.condition.set_volume(vdb);
        let nlab = if i % 10 == 9 { 0 } else if kind == "bundled" && !small { rng.range(1, 2) } else { rng.range(1, 6) };
        let recombine = rng.chance(0.5);
        let mut lines = if i % 8 == 5 {
            // silence / pause only: no frame is GV-eligible, nothing is voiced
            let sil: Vec<&String> = src.corpus.iter().filter(|l| l.contains("-sil+") || l.contains("-pau+")).collect();
            (0..rng.range(1, 3)).map(|_| sil[rng.below(sil.len())].clone()).collect()
        } else {
            src.labels(&mut rng, nlab, recombine)
        };
        // alignment on for every fourth case (by index, so that every run has each stamping pattern):
        // 0 = random 70 % of the lines stamped, 1 = the last two or more lines unstamped, 2 = only the first line
        // stamped, 3 = every line stamped
        if i % 4 == 2 && i % 8 != 5 && i % 10 != 9 {
            let pattern = (i / 4) % 4;
            if pattern == 1 && lines.len() < 3 {
                let want = rng.range(3, 6);
                lines = src.labels(&mut rng, want, recombine);
            }
            let nl = lines.len();
            e.condition.set_phoneme_alignment_flag(true);
            // with alignment on the speaking rate must have no effect: every aligned case sets a speed other than 1 (the random
            // condition leaves it at 1 half of the time; a shifted random stream once left every aligned case of C09's ten
            // pipeline cases at speed 1 and the seeded change C09h — label times divided by the speed — slipped through)
            e.condition.set_speed(if (i / 4) % 2 == 0 { rng.log_uniform(0.4, 0.9) } else { rng.log_uniform(1.2, 3.0) });
            let per = e.condition.get_fperiod() as f64 * 1e7 / e.condition.get_sampling_frequency() as f64;
            let mut t = 0.0f64;
            let unstamped_tail = if nl >= 3 { rng.range(2, nl - 1) } else { 0 };
            for (k, l) in lines.iter_mut().enumerate() {
                let len = rng.uniform(2.0, 40.0);
                let stamp = match pattern {
                    0 => rng.chance(0.7),
                    1 => k + unstamped_tail < nl,
                    2 => k == 0,
                    _ => true,
                };
                if stamp {
                    *l = format!("{} {} {}", (t * per).round() as u64, ((t + len) * per).round() as u64, l);
                }
                t += len;
            }
        }
        pipe_line(tag, &e, vdb, &lines, kind)
    }
}

// =========================================================================================== helpers
pub type Traj = (Vec<Vec<f64>>, Vec<Vec<f64>>, Vec<Vec<f64>>);

pub fn trajectories(e: &Engine, lines: &[String]) -> Result<Traj, String> {
    let owned = lines.to_vec();
    match catch(std::panic::AssertUnwindSafe(|| e.generator(owned))) {
        Ok(Ok(g)) => {
            let (a, b, c) = g.verif_parameters();
            Ok((a.to_vec(), b.to_vec(), c.to_vec()))
        }
        Ok(Err(err)) => Err(format!("err:{err}")),
        Err(site) => Err(format!("panic:{site}")),
    }
}

pub fn same_bits(a: &[Vec<f64>], b: &[Vec<f64>]) -> bool {
    a.len() == b.len() && a.iter().zip(b).all(|(x, y)| x.len() == y.len() && x.iter().zip(y).all(|(p, q)| p.to_bits() == q.to_bits()))
}

fn column0(m: &[Vec<f64>]) -> Vec<f64> {
    m.iter().map(|r| r.first().copied().unwrap_or(f64::NAN)).collect()
}

fn impl_durations(e: &Engine, lines: &[String]) -> Vec<usize> {
    let labs = Labels::load_from_strings(e.condition.get_sampling_frequency(), e.condition.get_fperiod(), lines).expect("labels");
    let models = Models::new(labs.labels(), &e.voices, e.condition.get_interporation_weight());
    let est = DurationEstimator::new(models.duration(), models.nstate());
    if e.condition.get_phoneme_alignment_flag() { est.create_with_alignment(labs.times()) } else { est.create(e.condition.get_speed()) }
}

fn stream_states(e: &Engine, lines: &[String], i: usize) -> Vec<(Vec<MeanVari>, f64)> {
    let labs = Labels::load_from_strings(e.condition.get_sampling_frequency(), e.condition.get_fperiod(), lines).expect("labels");
    let models = Models::new(labs.labels(), &e.voices, e.condition.get_interporation_weight());
    models.model_stream(i).stream.iter().cloned().collect()
}

/// PDF-perturbed copy of a voice (same trees and metadata), through its serde representation
pub fn perturb_voice(v: &jbonsai::model::Voice, rng: &mut Rng) -> jbonsai::model::Voice {
    fn walk(val: &mut serde_json::Value, rng: &mut Rng, in_pdf: bool) {
        match val {
            serde_json::Value::Object(m) => {
                for (k, x) in m.iter_mut() {
                    let pdf = in_pdf || k == "pdf";
                    if pdf && k == "msd" {
                        if let Some(f) = x.as_f64() {
                            *x = serde_json::json!((f + rng.uniform(-0.3, 0.3)).clamp(0.0, 1.0));
                        }
                    } else {
                        walk(x, rng, pdf);
                    }
                }
            }
            serde_json::Value::Array(a) => {
                if in_pdf && a.len() == 2 && a[0].is_number() && a[1].is_number() {
                    let m = a[0].as_f64().unwrap();
                    let s = a[1].as_f64().unwrap();
                    a[0] = serde_json::json!(m + rng.normal() * 0.15 * s.abs().sqrt());
                    a[1] = serde_json::json!(s * rng.uniform(0.8, 1.25));
                } else {
                    for x in a.iter_mut() {
                        walk(x, rng, in_pdf);
                    }
                }
            }
            _ => {}
        }
    }
    let mut val = serde_json::to_value(v).expect("voice serializes");
    walk(&mut val, rng, false);
    serde_json::from_value(val).expect("voice deserializes")
}

/// copy of a voice whose GV-off contexts are replaced (through its serde representation)
pub fn with_gv_off(v: &jbonsai::model::Voice, patterns: &[String]) -> jbonsai::model::Voice {
    let mut val = serde_json::to_value(v).expect("voice serializes");
    val["metadata"]["gv_off_context"] = serde_json::json!({ "Regex": patterns });
    serde_json::from_value(val).expect("voice deserializes")
}

// =========================================================================================== C11
pub fn gen_c11(seed: u64, thorough: bool) {
    let mut rng = Rng::new(seed);
    let src = Sources::new();
    let n = if thorough { 2500 } else { 150 };
    let bundled_voice = jbonsai::model::load_htsvoice_file(&BUNDLED_VOICE).unwrap();
    for i in 0..n {
        // every seventh case: two voices (bundled + perturbed copy) blended on the log-F0 stream; the voicing
        // weights handed to the oracle are then blended here from each voice's own values, not read back
        let mut blend: Option<(Engine, Engine, f64)> = None;
        let (mut e, kind) = match if i % 7 == 6 { 9 } else { i % 4 } {
            9 => {
                let v1 = Arc::new(bundled_voice.clone());
                let v2 = Arc::new(perturb_voice(&bundled_voice, &mut rng));
                let mut e = engine_of(vec![v1.clone(), v2.clone()]).unwrap();
                let a = *rng.pick(&[0.5, 0.25, 0.8, 1.3, -0.2]);
                e.condition.get_interporation_weight_mut().set_parameter(1, &[a, 1.0 - a]).expect("valid weights");
                blend = Some((engine_of(vec![v1]).unwrap(), engine_of(vec![v2]).unwrap(), a));
                (e, "two-voices")
            }
            0 => (src.bundled.clone(), "bundled"),
            1 => (engine_of(vec![Arc::new(perturb_voice(&bundled_voice, &mut rng))]).unwrap(), "perturbed"),
            _ => {
                let ns = rng.range(2, 3);
                let nst = rng.range(1, 6);
                (src.generated(&mut rng, ns, 0, nst), "generated")
            }
        };
        let ns = e.voices.global_metadata().num_streams;
        random_condition(&mut rng, &mut e, true);
        e.condition.set_phoneme_alignment_flag(false);
        let nlab = rng.range(2, 6);
        let recombine = rng.chance(0.5);
        let lines = src.labels(&mut rng, nlab, recombine);
        // thresholds incl. exactly the MSD values present, 0 and 1
        let mut states = stream_states(&e, &lines, 1);
        if let Some((e1, e2, a)) = &blend {
            let (s1, s2) = (stream_states(e1, &lines, 1), stream_states(e2, &lines, 1));
            for (k, st) in states.iter_mut().enumerate() {
                st.1 = a * s1[k].1 + (1.0 - a) * s2[k].1;
            }
        }
        let pick_thr = |rng: &mut Rng| -> f64 {
            match rng.below(5) {
                0 => states[rng.below(states.len())].1.clamp(0.0, 1.0),
                4 => {
                    // one to three f64 steps below or above a voicing weight that is present
                    let w = states[rng.below(states.len())].1.clamp(1e-3, 1.0 - 1e-3);
                    let k = rng.range(1, 3) as u64;
                    if rng.chance(0.5) { f64::from_bits(w.to_bits() - k) } else { f64::from_bits(w.to_bits() + k) }
                }
                1 => *rng.pick(&[0.0, 1.0, 0.5]),
                _ => rng.unit(),
            }
        };
        let (mut t1, mut t2) = (pick_thr(&mut rng), pick_thr(&mut rng));
        if t1 > t2 { std::mem::swap(&mut t1, &mut t2); }
        e.condition.set_msd_threshold(1, t1);
        let durs = impl_durations(&e, &lines);
        let a = trajectories(&e, &lines);
        let mut eb = e.clone();
        eb.condition.set_msd_threshold(1, t2);
        let b = trajectories(&eb, &lines);
        // C: touch stream 0 (and 2): stream 1 must be unchanged
        let mut ec = e.clone();
        ec.condition.set_msd_threshold(0, rng.unit());
        ec.condition.set_gv_weight(0, rng.uniform(0.0, 2.0));
        if ns > 2 {
            ec.condition.set_msd_threshold(2, rng.unit());
            ec.condition.set_gv_weight(2, rng.uniform(0.0, 2.0));
        }
        let c = trajectories(&ec, &lines);
        // D: touch stream 1: streams 0 and 2 must be unchanged
        let mut ed = e.clone();
        ed.condition.set_msd_threshold(1, rng.unit());
        ed.condition.set_gv_weight(1, rng.uniform(0.0, 2.0));
        let d = trajectories(&ed, &lines);
        let mut line = format!("thr {}", kind);
        push_f(&mut line, t1);
        push_f(&mut line, t2);
        push_u(&mut line, states.len());
        for s in &states { push_f(&mut line, s.1); }
        push_us(&mut line, &durs);
        match (a, b, c, d) {
            (Ok(a), Ok(b), Ok(c), Ok(d)) => {
                push_s(&mut line, "ok");
                push_fs(&mut line, &column0(&a.1));
                push_fs(&mut line, &column0(&b.1));
                push_u(&mut line, same_bits(&a.1, &c.1) as usize);
                push_u(&mut line, (same_bits(&a.0, &d.0) && same_bits(&a.2, &d.2)) as usize);
            }
            (a, b, c, d) => {
                push_s(&mut line, "fail");
                push_s(&mut line, &esc(&format!("{:?}", [a.err(), b.err(), c.err(), d.err()])));
            }
        }
        println!("{}", line);
    }
}

// =========================================================================================== C15
pub fn gen_c15(seed: u64, thorough: bool) {
    let mut rng = Rng::new(seed);
    let src = Sources::new();
    let n = if thorough { 1500 } else { 80 };
    let bundled_voice = jbonsai::model::load_htsvoice_file(&BUNDLED_VOICE).unwrap();
    for i in 0..n {
        // C15 quantifies over the bundled voice and PDF-perturbed copies of it (not over synthetic voices,
        // whose constant log-F0 trajectories make the GV stage amplify rounding noise)
        let (mut e, kind) = match i % 2 {
            0 => (src.bundled.clone(), "bundled"),
            _ => (engine_of(vec![Arc::new(perturb_voice(&bundled_voice, &mut rng))]).unwrap(), "perturbed"),
        };
        random_condition(&mut rng, &mut e, true);
        let nlab = rng.range(2, 6);
        let recombine = rng.chance(0.5);
        let lines = src.labels(&mut rng, nlab, recombine);
        let h = match i % 5 { 0 => 0.0, 1 => *rng.pick(&[24.0, -24.0, 12.0, -12.0, 1.0]), 2 => rng.uniform(-80.0, 80.0), _ => rng.uniform(-24.0, 24.0) };
        e.condition.set_additional_half_tone(0.0);
        // every third case sets the half tone BEFORE the voice defaults are (re)loaded into the condition — the order of a
        // hand-built `Condition` or of voices reloaded into a running engine (seeded change C15f); `load_model` takes the
        // header's values and must leave the user's half tone alone.  The reference goes through the same reload.
        let reload = i % 3 == 1;
        if reload {
            let vs = e.voices.clone();
            e.condition.load_model(&vs).expect("load_model");
        }
        let base = trajectories(&e, &lines);
        let states = stream_states(&e, &lines, 1);
        let mut eh = e.clone();
        eh.condition.set_additional_half_tone(h);
        if reload {
            let vs = eh.voices.clone();
            eh.condition.load_model(&vs).expect("load_model");
        }
        let shifted = trajectories(&eh, &lines);
        let mut line = format!("ht {}", kind);
        push_f(&mut line, h);
        push_u(&mut line, states.len());
        for s in &states { push_f(&mut line, s.0[0].0); }
        match (base, shifted) {
            (Ok(a), Ok(b)) => {
                push_s(&mut line, "ok");
                push_fs(&mut line, &column0(&a.1));
                push_fs(&mut line, &column0(&b.1));
                push_u(&mut line, same_bits(&a.0, &b.0) as usize);
                push_u(&mut line, same_bits(&a.2, &b.2) as usize);
                push_u(&mut line, same_bits(&a.1, &b.1) as usize);
            }
            (a, b) => {
                push_s(&mut line, "fail");
                push_s(&mut line, &esc(&format!("{:?}", [a.err(), b.err()])));
            }
        }
        println!("{}", line);
    }
}

// =========================================================================================== C16
/// the waveform through one of the three public routes
pub fn render_route(e: &Engine, lines: &[String], route: usize) -> Result<Vec<f64>, String> {
    match route {
        0 => e.synthesize(lines.to_vec()).map_err(|x| format!("{x}")),
        1 => Ok(e.generator(lines.to_vec()).map_err(|x| format!("{x}"))?.generate_all()),
        _ => {
            let mut g = e.generator(lines.to_vec()).map_err(|x| format!("{x}"))?;
            let fp = e.condition.get_fperiod();
            let mut buf = vec![0.0f64; fp + 3];
            let mut acc = Vec::new();
            loop {
                let n = g.generate_step(&mut buf);
                if n == 0 { break; }
                acc.extend_from_slice(&buf[..n]);
            }
            Ok(acc)
        }
    }
}

pub fn gen_c16(seed: u64, thorough: bool) {
    let mut rng = Rng::new(seed);
    let src = Sources::new();
    crate::voc::gen_c16_stage(&mut rng, if thorough { 600 } else { 40 });
    let n = if thorough { 600 } else { 40 };
    for i in 0..n {
        let (mut e, kind) = src.any_engine(&mut rng);
        random_condition(&mut rng, &mut e, true);
        let nlab = rng.range(1, 3);
        let lines = src.labels(&mut rng, nlab, false);
        // value classes: round gains, the range ends, and volumes a hair away from 0 dB (gain within 1e-3 … 1e-9 of 1: the gain is
        // v dB however small v is — seeded change C16j: a linear gain within 1e-3 of 1 replaced by exactly 1)
        let v = if i % 6 == 0 { *rng.pick(&[6.0205999132796239, -6.0205999132796239, 60.0, -60.0, 20.0]) }
                else if i % 6 == 3 { *rng.pick(&[0.005, -0.008, 1e-4, -1e-6, 0.0086, -0.0009]) }
                else { rng.uniform(-60.0, 60.0) };
        // the gain must reach every public route to the samples (seeded change C16f: applied by `synthesize` only):
        // route 0 = Engine::synthesize, 1 = generator().generate_all(), 2 = generator() + generate_step loop
        let route = i % 3;
        // every fourth case sets the volume BEFORE the voice defaults are (re)loaded into the condition (hand-built condition,
        // voices reloaded into a running engine): `load_model` must leave the user's volume alone (seeded change C16g)
        let reload = i % 4 == 3;
        e.condition.set_volume(0.0);
        if reload { let vs = e.voices.clone(); e.condition.load_model(&vs).expect("load_model"); }
        let w0 = catch(std::panic::AssertUnwindSafe(|| render_route(&e, &lines, route)));
        let mut before = String::new();
        crate::c20::dump(&e.condition, e.voices.global_metadata().num_streams, &mut before);
        e.condition.set_volume(v);
        if reload { let vs = e.voices.clone(); e.condition.load_model(&vs).expect("load_model"); }
        let mut after = String::new();
        crate::c20::dump(&e.condition, e.voices.global_metadata().num_streams, &mut after);
        let wv = catch(std::panic::AssertUnwindSafe(|| render_route(&e, &lines, route)));
        let mut line = format!("vol {}", kind);
        push_f(&mut line, v);
        push_f(&mut line, e.condition.get_volume());
        // every getter except volume is token-identical
        let strip = |s: &str| -> Vec<String> { s.split_whitespace().enumerate().filter(|(k, _)| *k != 2).map(|(_, t)| t.to_string()).collect() };
        push_u(&mut line, (strip(&before) == strip(&after)) as usize);
        match (w0, wv) {
            (Ok(Ok(a)), Ok(Ok(b))) => {
                push_s(&mut line, "ok");
                push_fs(&mut line, &a);
                push_fs(&mut line, &b);
            }
            _ => push_s(&mut line, "fail"),
        }
        println!("{}", line);
    }
}

// =========================================================================================== C12
pub fn gen_c12(seed: u64, thorough: bool) {
    use jbonsai::mlpg_adjust::MlpgAdjust;
    let mut rng = Rng::new(seed);
    let src = Sources::new();
    let n = if thorough { 600 } else { 40 };
    let bundled_voice = jbonsai::model::load_htsvoice_file(&BUNDLED_VOICE).unwrap();
    let gv_off_patterns = crate::util::gv_off_patterns_of_file(&BUNDLED_VOICE);
    // (a) stage-level model correspondence with GV on small streams
    for _ in 0..(if thorough { 2000 } else { 120 }) {
        let msd = rng.chance(0.5);
        let mut c = crate::c05::random_stream(&mut rng, 24, msd);
        let nst = c.stream.len();
        c.gvw = rng.uniform(0.25, 2.0);
        let gvp: Vec<MeanVari> = (0..c.veclen).map(|_| MeanVari(rng.log_uniform(0.05, 2.0), rng.log_uniform(0.001, 0.5))).collect();
        let style = rng.below(4);
        let sw: Vec<bool> = (0..nst).map(|_| match style { 0 => true, 1 => false, _ => rng.chance(0.7) }).collect();
        c.gv = Some((gvp, sw));
        let mut line = String::from("mlpg");
        c.push(&mut line);
        crate::c05::push_traj(&mut line, &c.run());
        println!("{}", line);
    }
    // (b) the property on the bundled voice and perturbed copies
    for i in 0..n {
        // every fifth case: a perturbed copy whose GV-off contexts also cover a vowel, so that voiced frames are ineligible too
        let mut gv_off_patterns = gv_off_patterns.clone();
        let mut two: Option<(Arc<jbonsai::model::Voice>, Arc<jbonsai::model::Voice>)> = None;
        let (e0, kind) = if i % 5 == 4 {
            gv_off_patterns.push(rng.pick(&["*-a+*", "*-o+*", "*-i+*"]).to_string());
            (engine_of(vec![Arc::new(with_gv_off(&perturb_voice(&bundled_voice, &mut rng), &gv_off_patterns))]).unwrap(), "perturbed-gvoff")
        } else if i % 5 == 3 {
            // two voices (bundled + perturbed copy) whose GV Gaussians differ, interpolation weights per quantity set through a
            // history of setter calls (GV weights unlike the parameter weights, `set_gv` possibly before `set_parameter`); the
            // GV means handed to the oracle are blended below from each voice's own values with the weights the caller meant
            let v1 = Arc::new(bundled_voice.clone());
            let v2 = Arc::new(perturb_voice(&bundled_voice, &mut rng));
            two = Some((v1.clone(), v2.clone()));
            (engine_of(vec![v1, v2]).unwrap(), "two-voices")
        } else if i % 2 == 0 { (src.bundled.clone(), "bundled") } else { (engine_of(vec![Arc::new(perturb_voice(&bundled_voice, &mut rng))]).unwrap(), "perturbed") };
        let mut e0 = e0;
        let want2 = if two.is_some() { Some(crate::c19::weight_history(&mut rng, &mut e0, 2, 3)) } else { None };
        let silence_only = i % 8 == 7;
        let lines: Vec<String> = if silence_only {
            src.corpus.iter().filter(|l| l.contains("-sil+") || l.contains("-pau+")).take(rng.range(1, 3)).cloned().collect()
        } else {
            let nlab = rng.range(10, 60);
            if rng.chance(0.5) { src.labels(&mut rng, nlab, false) } else { (0..nlab).map(|_| src.corpus[rng.below(src.corpus.len())].clone()).collect() }
        };
        let stream = rng.below(2);
        let mut ws: Vec<f64> = (0..3).map(|_| rng.uniform(0.25, 2.0)).collect();
        ws.sort_by(|a, b| a.partial_cmp(b).unwrap());
        let labs = Labels::load_from_strings(e0.condition.get_sampling_frequency(), e0.condition.get_fperiod(), &lines).expect("labels");
        let models = Models::new(labs.labels(), &e0.voices, e0.condition.get_interporation_weight());
        let ms = models.model_stream(stream);
        let (mut gvp, gvsw) = ms.gv.clone().expect("bundled GV streams");
        if let (Some((v1, v2)), Some(w)) = (&two, &want2) {
            let l0 = &labs.labels()[0];
            let g1 = v1.stream_models[stream].gv_model.as_ref().unwrap().get_parameter(2, l0);
            let g2 = v2.stream_models[stream].gv_model.as_ref().unwrap().get_parameter(2, l0);
            for (m, g) in gvp.iter_mut().enumerate() {
                g.0 = w.gv[stream][0] * g1.parameters[m].0 + w.gv[stream][1] * g2.parameters[m].0;
            }
        }
        let durs = impl_durations(&e0, &lines);
        // eligibility is decided from the voice file's GV_OFF_CONTEXT patterns and the label text,
        // not from the switch the library computed (which the driver checks against the patterns)
        let nstate = e0.voices.global_metadata().num_states;
        let lab_text: Vec<String> = labs.labels().iter().map(|l| l.to_string()).collect();
        let indep_sw: Vec<bool> = lab_text.iter().flat_map(|l| vec![!gv_off_patterns.iter().any(|p| crate::util::glob(p.as_bytes(), l.as_bytes())); nstate]).collect();
        let mut line = format!("gvv {} {}", kind, stream);
        push_u(&mut line, gv_off_patterns.len());
        for p in &gv_off_patterns { push_s(&mut line, &esc(p)); }
        push_u(&mut line, nstate);
        push_u(&mut line, lab_text.len());
        for l in &lab_text { push_s(&mut line, &esc(l)); }
        push_u(&mut line, gvsw.len());
        for b in &gvsw { push_u(&mut line, *b as usize); }
        push_fs(&mut line, &ws);
        push_u(&mut line, gvp.len());
        for MeanVari(m, _) in &gvp { push_f(&mut line, *m); }
        let mut eligible_count = 0usize;
        let mut ml_equal = true;
        let mut vars: Vec<Vec<f64>> = Vec::new();
        for w in &ws {
            let mut e = e0.clone();
            e.condition.set_gv_weight(stream, *w);
            let t = trajectories(&e, &lines).expect("trajectories");
            let tr = if stream == 0 { &t.0 } else { &t.1 };
            // eligible frames: GV switch of the state, and (for log-F0) voiced
            let mut elig: Vec<usize> = Vec::new();
            let mut f = 0usize;
            for (k, d) in durs.iter().enumerate() {
                for _ in 0..*d {
                    if indep_sw.get(k).copied().unwrap_or(false) && tr[f][0] != -1e10 { elig.push(f); }
                    f += 1;
                }
            }
            eligible_count = elig.len();
            let dim = tr.first().map(|r| r.len()).unwrap_or(0);
            let mut v = Vec::new();
            for m in 0..dim {
                let mean: f64 = elig.iter().map(|f| tr[*f][m]).sum::<f64>() / elig.len().max(1) as f64;
                v.push(elig.iter().map(|f| (tr[*f][m] - mean).powi(2)).sum::<f64>() / elig.len().max(1) as f64);
            }
            vars.push(v);
            if elig.is_empty() {
                // must equal the plain ML solution: same stream without GV through the public stage API
                let ms2 = models.model_stream(stream);
                let ml = MlpgAdjust::new(*w, e.condition.get_msd_threshold(stream), ModelStream { gv: None, ..ms2 }).create(&durs);
                ml_equal &= same_bits(&ml, tr);
            }
        }
        push_u(&mut line, eligible_count);
        for v in &vars { push_fs(&mut line, v); }
        push_u(&mut line, ml_equal as usize);
        // a stream without GV (low-pass) is unaffected by its GV weight
        let mut e1 = e0.clone();
        e1.condition.set_gv_weight(2, 0.3);
        let mut e2 = e0.clone();
        e2.condition.set_gv_weight(2, 1.7);
        let short: Vec<String> = lines.iter().take(4).cloned().collect();
        let (t1, t2) = (trajectories(&e1, &short).unwrap(), trajectories(&e2, &short).unwrap());
        push_u(&mut line, same_bits(&t1.2, &t2.2) as usize);
        println!("{}", line);
    }
}

// =========================================================================================== units
/// Time stamps (100 ns units) for `lines` such that label k ends exactly at a whole number of frames at the
/// given (rate, frame period) and every label gets more than one frame per state; returns the stamped lines and
/// the total number of frames the utterance must then have with alignment on (C09's law, C17's unit clause).
pub fn stamp_lines(rng: &mut Rng, lines: &[String], sf: usize, fp: usize, nstate: usize) -> (Vec<String>, usize) {
    let rate = sf as f64 / (fp as f64 * 1e7);
    let mut cum = 0usize;
    let mut prev = 0u64;
    let mut out = Vec::new();
    for l in lines {
        cum += rng.range(nstate + 1, nstate + 30);
        let end = (cum as f64 / rate).round() as u64;
        out.push(format!("{} {} {}", prev, end, l));
        prev = end;
    }
    (out, cum)
}

/// `units`: an engine whose sampling rate and frame period were reached through a setter HISTORY (several
/// calls in random order), alignment on, fully time-stamped label strings through `Engine::synthesize`: the
/// waveform must have `fperiod x frames` samples with the frames the 100 ns stamps say at the CURRENT rate and
/// frame period; and an engine that reached the same values through another history gives the same waveform.
pub fn gen_units(rng: &mut Rng, src: &Sources, n: usize) {
    for i in 0..n {
        let (base, kind) = if i % 3 == 0 { (src.bundled.clone(), "bundled") } else { src.any_engine(rng) };
        let nstate = base.voices.global_metadata().num_states;
        let sf = *rng.pick(&[8000usize, 16000, 22050, 44100, 48000, 96000]);
        let fp = if rng.chance(0.5) { rng.range(1, 40) } else { rng.range(41, 480) };
        let history = |rng: &mut Rng, e: &mut Engine, last: usize| {
            // noise calls, then the final values with `last` (0 = rate, 1 = frame period) set last
            for _ in 0..rng.range(0, 4) {
                if rng.chance(0.5) { e.condition.set_fperiod(rng.range(1, 480)); } else { e.condition.set_sampling_frequency(*rng.pick(&[8000usize, 16000, 44100, 48000])); }
                if rng.chance(0.3) { e.condition.set_phoneme_alignment_flag(rng.chance(0.5)); }
            }
            if last == 0 { e.condition.set_fperiod(fp); e.condition.set_phoneme_alignment_flag(true); e.condition.set_sampling_frequency(sf); }
            else { e.condition.set_sampling_frequency(sf); e.condition.set_phoneme_alignment_flag(true); e.condition.set_fperiod(fp); }
        };
        let mut e1 = base.clone();
        let mut e2 = base.clone();
        let last1 = i % 2;
        history(rng, &mut e1, last1);
        history(rng, &mut e2, 1 - last1);
        let nlab = rng.range(1, 4);
        let recomb = rng.chance(0.5);
        let lines = src.labels(rng, nlab, recomb);
        let (stamped, frames) = stamp_lines(rng, &lines, sf, fp, nstate);
        let w1 = catch(std::panic::AssertUnwindSafe(|| e1.synthesize(stamped.clone()).map_err(|e| format!("{e}"))));
        let w2 = catch(std::panic::AssertUnwindSafe(|| e2.synthesize(stamped.clone()).map_err(|e| format!("{e}"))));
        let (len1, len2, same) = match (&w1, &w2) {
            (Ok(Ok(a)), Ok(Ok(b))) => (a.len() as i64, b.len() as i64, a.len() == b.len() && a.iter().zip(b).all(|(x, y)| x.to_bits() == y.to_bits())),
            (Ok(Ok(a)), _) => (a.len() as i64, -1, false),
            (_, Ok(Ok(b))) => (-1, b.len() as i64, false),
            _ => (-1, -1, false),
        };
        let mut line = format!("units {} {} {} {} {} {} {}", kind, sf, fp, nstate, nlab, frames, if last1 == 0 { "rate-last" } else { "period-last" });
        line.push_str(&format!(" {} {} {}", len1, len2, same as usize));
        println!("{}", line);
    }
}

// =========================================================================================== e2e
/// in-envelope setter calls, applied to `c` and returned in the `cond` op syntax
pub fn envelope_ops(rng: &mut Rng, c: &mut jbonsai::engine::Condition, ns: usize) -> (String, usize) {
    let mut s = String::new();
    let mut n = 0;
    let mut emit = |s: &mut String, name: &str, idx: Option<usize>, v: Option<f64>, u: Option<usize>| {
        push_s(s, name);
        if let Some(i) = idx { push_u(s, i); }
        if let Some(x) = v { push_f(s, x); }
        if let Some(x) = u { push_u(s, x); }
    };
    if rng.chance(0.8) { let v = rng.range(1, 24); c.set_fperiod(v); emit(&mut s, "fp", None, None, Some(v)); n += 1; }
    if rng.chance(0.3) { let v = *rng.pick(&[8000usize, 16000, 22050, 44100, 48000, 96000]); c.set_sampling_frequency(v); emit(&mut s, "sf", None, None, Some(v)); n += 1; }
    if rng.chance(0.5) { let v = rng.uniform(0.0, 0.8); c.set_alpha(v); emit(&mut s, "alpha", None, Some(v), None); n += 1; }
    if rng.chance(0.3) { let v = rng.uniform(0.0, 0.8); c.set_beta(v); emit(&mut s, "beta", None, Some(v), None); n += 1; }
    for i in 0..ns {
        if rng.chance(0.4) { let v = rng.uniform(0.0, 2.0); c.set_gv_weight(i, v); emit(&mut s, "gv", Some(i), Some(v), None); n += 1; }
        if rng.chance(0.4) { let v = *rng.pick(&[0.0, 1.0, 0.5, 0.2, 0.8, 0.35]); c.set_msd_threshold(i, v); emit(&mut s, "msd", Some(i), Some(v), None); n += 1; }
    }
    if rng.chance(0.4) { let v = rng.uniform(-24.0, 24.0); c.set_additional_half_tone(v); emit(&mut s, "ht", None, Some(v), None); n += 1; }
    if rng.chance(0.4) { let v = rng.uniform(-20.0, 20.0); c.set_volume(v); emit(&mut s, "vol", None, Some(v), None); n += 1; }
    if rng.chance(0.5) { let v = rng.log_uniform(0.25, 4.0); c.set_speed(v); emit(&mut s, "speed", None, Some(v), None); n += 1; }
    (s, n)
}

/// the whole library from the voice FILES: the driver reads the same files and runs the Lean model
pub fn e2e_line(kind: &str, paths: &[String], e: &Engine, want: Option<&crate::c19::WantWeights>, ops: &str, nops: usize, lines: &[String]) -> String {
    let ns = e.voices.global_metadata().num_streams;
    let mut line = format!("e2e {}", paths.len());
    for p in paths { push_s(&mut line, p); }
    push_s(&mut line, kind);
    push_u(&mut line, paths.len());
    push_u(&mut line, ns);
    let iw = e.condition.get_interporation_weight();
    match want {
        Some(w) => crate::c19::push_want(&mut line, w),
        None => {
            push_fs(&mut line, iw.get_duration());
            for i in 0..ns { push_fs(&mut line, iw.get_parameter(i)); }
            for i in 0..ns { push_fs(&mut line, iw.get_gv(i)); }
        }
    }
    push_s(&mut line, "nops");
    push_u(&mut line, nops);
    line.push_str(ops);
    let labs = Labels::load_from_strings(e.condition.get_sampling_frequency(), e.condition.get_fperiod(), lines).expect("labels");
    push_u(&mut line, labs.labels().len());
    for l in labs.labels() { push_s(&mut line, &esc(&l.to_string())); }
    push_u(&mut line, labs.times().len());
    for (s, t) in labs.times() { push_f(&mut line, *s); push_f(&mut line, *t); }
    let owned = lines.to_vec();
    match catch(std::panic::AssertUnwindSafe(|| e.synthesize(owned).map_err(|x| format!("{x}")))) {
        Ok(Ok(w)) => { push_s(&mut line, "ok"); push_fs(&mut line, &w); }
        Ok(Err(x)) => { push_s(&mut line, "err"); push_s(&mut line, &esc(&x)); }
        Err(site) => { push_s(&mut line, "panic"); push_s(&mut line, &esc(&site)); }
    }
    line
}

pub fn gen_e2e(rng: &mut Rng, src: &Sources, tag: &str, n: usize) {
    for i in 0..n {
        // one voice (bundled or generated) or 2..3 compatible generated voices with random valid weights
        let (paths, kind): (Vec<String>, &str) = if i % 4 == 0 {
            (vec![BUNDLED_VOICE.to_string()], "bundled")
        } else {
            let k = if i % 4 == 3 { rng.range(2, 3) } else { 1 };
            let cfg = VoiceCfg { nstream: rng.range(2, 3), stage: if rng.chance(0.6) { 0 } else { rng.range(1, 3) }, nstate: rng.range(1, 5), max_leaves: 6 };
            let mseed = rng.next();
            let ps: Vec<String> = (0..k).map(|j| {
                let mut m = Rng(mseed);
                let spec = VoiceSpec::random2(&mut m, rng, &cfg, &src.pool);
                let path = format!("{}/voices/{}_e2e_{}_{}.htsvoice", work_dir(), tag, i, j);
                spec.write(&path);
                path
            }).collect();
            (ps, if k == 1 { "generated" } else { "blend" })
        };
        let mut e = match catch(std::panic::AssertUnwindSafe(|| Engine::load(&paths))) {
            Ok(Ok(e)) => e,
            other => { eprintln!("e2e: engine does not load: {:?}", other.map(|r| r.map(|_| ()).map_err(|x| format!("{x}")))); continue; }
        };
        let ns = e.voices.global_metadata().num_streams;
        let mut want: Option<crate::c19::WantWeights> = None;
        if paths.len() > 1 {
            // random valid weights per quantity, through a setter history — the weights the caller meant are part of the case
            let nv = paths.len();
            want = Some(crate::c19::weight_history(rng, &mut e, nv, ns));
        }
        let (ops, nops) = envelope_ops(rng, &mut e.condition, ns);
        let nlab = if kind == "bundled" { rng.range(1, 2) } else { rng.range(1, 5) };
        let recombine = rng.chance(0.5);
        let lines = src.labels(rng, nlab, recombine);
        println!("{}", e2e_line(kind, &paths, &e, want.as_ref(), &ops, nops, &lines));
    }
}
