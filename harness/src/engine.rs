//! Engine-level cases: the whole pipeline on bundled and generated voices (C01, C03, C11, C12, C15, C16, C17).
use crate::c19::{engine_of, load_spec};
use crate::util::*;
use crate::voices::*;
use jbonsai::duration::DurationEstimator;
use jbonsai::label::Labels;
use jbonsai::model::{MeanVari, ModelStream, Models};
use jbonsai::Engine;
use std::sync::Arc;

pub struct Sources {
    pub pool: Vec<(String, Vec<String>)>,
    pub corpus: Vec<String>,
    pub parsed: Vec<jlabel::Label>,
    pub bundled: Engine,
}

impl Sources {
    pub fn new() -> Self {
        let corpus = corpus();
        let parsed = corpus.iter().map(|l| l.parse().expect("corpus label parses")).collect();
        Sources { pool: question_pool(), corpus, parsed, bundled: Engine::load(&[BUNDLED_VOICE]).expect("bundled voice") }
    }
    /// consecutive corpus labels, or labels whose twelve field groups are recombined across the corpus
    pub fn labels(&self, rng: &mut Rng, n: usize, recombine: bool) -> Vec<String> {
        if !recombine {
            let s = rng.below(self.corpus.len() - n);
            return self.corpus[s..s + n].to_vec();
        }
        (0..n)
            .map(|_| {
                let pick = |rng: &mut Rng| &self.parsed[rng.below(self.parsed.len())];
                let l = jlabel::Label {
                    phoneme: pick(rng).phoneme.clone(),
                    mora: pick(rng).mora.clone(),
                    word_prev: pick(rng).word_prev.clone(),
                    word_curr: pick(rng).word_curr.clone(),
                    word_next: pick(rng).word_next.clone(),
                    accent_phrase_prev: pick(rng).accent_phrase_prev.clone(),
                    accent_phrase_curr: pick(rng).accent_phrase_curr.clone(),
                    accent_phrase_next: pick(rng).accent_phrase_next.clone(),
                    breath_group_prev: pick(rng).breath_group_prev.clone(),
                    breath_group_curr: pick(rng).breath_group_curr.clone(),
                    breath_group_next: pick(rng).breath_group_next.clone(),
                    utterance: pick(rng).utterance.clone(),
                };
                l.to_string()
            })
            .collect()
    }
    pub fn generated(&self, rng: &mut Rng, nstream: usize, stage: usize, nstate: usize) -> Engine {
        let cfg = VoiceCfg { nstream, stage, nstate, max_leaves: 6 };
        let spec = VoiceSpec::random(rng, &cfg, &self.pool);
        let v = load_spec(&spec, &format!("eng_{}", std::process::id()));
        engine_of(vec![Arc::new(v)]).expect("engine")
    }
    /// bundled (1 in 3) or a generated voice over {2,3 streams} × {stage 0, ≥1} × nstate 1..7
    pub fn any_engine(&self, rng: &mut Rng) -> (Engine, &'static str) {
        if rng.below(3) == 0 {
            (self.bundled.clone(), "bundled")
        } else {
            let nstream = rng.range(2, 3);
            let stage = if rng.chance(0.5) { 0 } else { rng.range(1, 3) };
            let nstate = rng.range(1, 7);
            let e = self.generated(rng, nstream, stage, nstate);
            (e, if stage == 0 { "gen-mcp" } else { "gen-lsp" })
        }
    }
}

/// a random condition inside the operating envelope of C01
pub fn random_condition(rng: &mut Rng, e: &mut Engine, small_fperiod: bool) {
    let ns = e.voices.global_metadata().num_streams;
    let c = &mut e.condition;
    if small_fperiod {
        c.set_fperiod(rng.range(1, 24));
    } else if rng.chance(0.3) {
        c.set_fperiod(rng.range(1, 480));
    }
    if rng.chance(0.3) {
        c.set_sampling_frequency(*rng.pick(&[8000usize, 16000, 22050, 44100, 48000, 96000]));
    }
    if rng.chance(0.5) {
        c.set_alpha(rng.uniform(0.0, 0.8));
    }
    if rng.chance(0.4) {
        c.set_beta(rng.uniform(0.0, 0.8));
    }
    for i in 0..ns {
        if rng.chance(0.5) {
            c.set_gv_weight(i, rng.uniform(0.0, 2.0));
        }
        if rng.chance(0.5) {
            c.set_msd_threshold(i, *rng.pick(&[0.0, 1.0, 0.5, 0.2, 0.8, 0.35, 0.65]));
        }
    }
    if rng.chance(0.4) {
        c.set_additional_half_tone(rng.uniform(-24.0, 24.0));
    }
    if rng.chance(0.4) {
        c.set_volume(rng.uniform(-20.0, 20.0));
    }
    if rng.chance(0.5) {
        c.set_speed(rng.log_uniform(0.25, 4.0));
    }
}

pub fn push_stream(line: &mut String, ms: &ModelStream) {
    push_u(line, ms.vector_length);
    let wins: Vec<Vec<f64>> = ms
        .windows
        .iter()
        .map(|w| {
            // coefficients are private: recover them through the public iterator (reverse order)
            let mut v: Vec<f64> = w.iter_rev(0).map(|(_, c)| c).collect();
            v.reverse();
            v
        })
        .collect();
    push_u(line, wins.len());
    for w in &wins {
        push_fs(line, w);
    }
    push_u(line, ms.stream.len());
    for (ps, msd) in ms.stream.iter() {
        push_u(line, ps.len());
        for MeanVari(m, v) in ps {
            push_f(line, *m);
            push_f(line, *v);
        }
        push_f(line, *msd);
    }
    match &ms.gv {
        None => push_u(line, 0),
        Some((p, sw)) => {
            push_u(line, 1);
            push_u(line, p.len());
            for MeanVari(m, v) in p {
                push_f(line, *m);
                push_f(line, *v);
            }
            push_u(line, sw.len());
            for b in sw {
                push_u(line, *b as usize);
            }
        }
    }
}

pub fn push_condition(line: &mut String, e: &Engine, volume_db: f64) {
    let c = &e.condition;
    let ns = e.voices.global_metadata().num_streams;
    let mut stage = 0usize;
    let mut lg = false;
    for o in &e.voices.stream_metadata(0).option {
        if let Some(v) = o.strip_prefix("GAMMA=") {
            stage = v.parse().unwrap_or(0);
        } else if let Some(v) = o.strip_prefix("LN_GAIN=") {
            lg = v == "1";
        }
    }
    push_u(line, c.get_sampling_frequency());
    push_u(line, c.get_fperiod());
    push_f(line, volume_db);
    push_u(line, ns);
    for i in 0..ns {
        push_f(line, c.get_msd_threshold(i));
    }
    for i in 0..ns {
        push_f(line, c.get_gv_weight(i));
    }
    push_u(line, c.get_phoneme_alignment_flag() as usize);
    push_f(line, c.get_speed());
    push_u(line, stage);
    push_u(line, lg as usize);
    push_f(line, c.get_alpha());
    push_f(line, c.get_beta());
    push_f(line, c.get_additional_half_tone());
}

pub fn push_matrix(line: &mut String, m: &[Vec<f64>]) {
    push_u(line, m.len());
    push_u(line, m.first().map(|r| r.len()).unwrap_or(0));
    for r in m {
        for x in r {
            push_f(line, *x);
        }
    }
}

/// One full-pipeline case. `lines` are label lines (possibly with time stamps).
pub fn pipe_line(tag: &str, e: &Engine, volume_db: f64, lines: &[String], kind: &str) -> String {
    let mut line = format!("pipe {} {}", tag, kind);
    push_condition(&mut line, e, volume_db);
    let labs = match Labels::load_from_strings(e.condition.get_sampling_frequency(), e.condition.get_fperiod(), lines) {
        Ok(l) => l,
        Err(err) => {
            push_s(&mut line, "labelerr");
            push_s(&mut line, &esc(&format!("{err:?}")));
            return line;
        }
    };
    let models = Models::new(labs.labels(), &e.voices, e.condition.get_interporation_weight());
    let nstate = models.nstate();
    let ns = e.voices.global_metadata().num_streams;
    push_s(&mut line, "in");
    push_u(&mut line, labs.labels().len());
    push_u(&mut line, nstate);
    let dur = models.duration();
    push_u(&mut line, dur.len());
    for MeanVari(m, v) in &dur {
        push_f(&mut line, *m);
        push_f(&mut line, *v);
    }
    for i in 0..ns {
        push_stream(&mut line, &models.model_stream(i));
    }
    push_u(&mut line, labs.times().len());
    for (s, t) in labs.times() {
        push_f(&mut line, *s);
        push_f(&mut line, *t);
    }
    // implementation outputs: durations (public stage API), trajectories (hook), waveform
    let est = DurationEstimator::new(dur.clone(), nstate);
    let cond = &e.condition;
    let durs = catch(std::panic::AssertUnwindSafe(|| {
        if cond.get_phoneme_alignment_flag() { est.create_with_alignment(labs.times()) } else { est.create(cond.get_speed()) }
    }));
    push_s(&mut line, "out");
    match &durs {
        Ok(d) => {
            push_s(&mut line, "ok");
            push_us(&mut line, d);
        }
        Err(s) => {
            push_s(&mut line, "panic");
            push_s(&mut line, &esc(s));
        }
    }
    let owned: Vec<String> = lines.to_vec();
    let gen = catch(std::panic::AssertUnwindSafe(|| e.generator(owned.clone())));
    match gen {
        Ok(Ok(g)) => {
            push_s(&mut line, "ok");
            {
                let (sp, lf0, lpf) = g.verif_parameters();
                push_matrix(&mut line, sp);
                push_matrix(&mut line, lf0);
                push_matrix(&mut line, lpf);
            }
            match catch(std::panic::AssertUnwindSafe(move || g.generate_all())) {
                Ok(w) => {
                    push_s(&mut line, "ok");
                    push_fs(&mut line, &w);
                }
                Err(s) => {
                    push_s(&mut line, "panic");
                    push_s(&mut line, &esc(&s));
                }
            }
        }
        Ok(Err(err)) => {
            push_s(&mut line, "err");
            push_s(&mut line, &esc(&format!("{err}")));
        }
        Err(s) => {
            push_s(&mut line, "panic");
            push_s(&mut line, &esc(&s));
        }
    }
    line
}

pub fn gen_c01(seed: u64, thorough: bool) {
    let mut rng = Rng::new(seed);
    let src = Sources::new();
    let n = if thorough { 1500 } else { 60 };
    for i in 0..n {
        let (mut e, kind) = src.any_engine(&mut rng);
        let small = i % 6 != 0;
        random_condition(&mut rng, &mut e, small);
        let vdb = if rng.chance(0.4) { rng.uniform(-20.0, 20.0) } else { 0.0 };
        e.condition.set_volume(vdb);
        let nlab = if i % 10 == 9 { 0 } else if kind == "bundled" && !small { rng.range(1, 2) } else { rng.range(1, 6) };
        let recombine = rng.chance(0.5);
        let mut lines = src.labels(&mut rng, nlab, recombine);
        if rng.chance(0.3) && nlab > 0 {
            // alignment on, with time stamps on some lines
            e.condition.set_phoneme_alignment_flag(true);
            let per = e.condition.get_fperiod() as f64 * 1e7 / e.condition.get_sampling_frequency() as f64;
            let mut t = 0.0f64;
            for l in lines.iter_mut() {
                let len = rng.uniform(2.0, 40.0);
                if rng.chance(0.7) {
                    *l = format!("{} {} {}", (t * per).round() as u64, ((t + len) * per).round() as u64, l);
                }
                t += len;
            }
        }
        println!("{}", pipe_line("C01", &e, vdb, &lines, kind));
    }
}
