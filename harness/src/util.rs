//! Shared helpers: one splitmix64 PRNG, hex-bit float printing, the label corpus.
#![allow(dead_code)]

use std::fmt::Write;

pub struct Rng(pub u64);

impl Rng {
    pub fn new(seed: u64) -> Self {
        Rng(seed ^ 0x9E37_79B9_7F4A_7C15)
    }
    pub fn next(&mut self) -> u64 {
        self.0 = self.0.wrapping_add(0x9E37_79B9_7F4A_7C15);
        let mut z = self.0;
        z = (z ^ (z >> 30)).wrapping_mul(0xBF58_476D_1CE4_E5B9);
        z = (z ^ (z >> 27)).wrapping_mul(0x94D0_49BB_1331_11EB);
        z ^ (z >> 31)
    }
    /// uniform in [0, n)
    pub fn below(&mut self, n: usize) -> usize {
        if n == 0 {
            0
        } else {
            (self.next() % n as u64) as usize
        }
    }
    /// uniform in [lo, hi] (inclusive)
    pub fn range(&mut self, lo: usize, hi: usize) -> usize {
        lo + self.below(hi - lo + 1)
    }
    /// uniform in [0,1)
    pub fn unit(&mut self) -> f64 {
        (self.next() >> 11) as f64 / (1u64 << 53) as f64
    }
    pub fn uniform(&mut self, lo: f64, hi: f64) -> f64 {
        lo + (hi - lo) * self.unit()
    }
    pub fn chance(&mut self, p: f64) -> bool {
        self.unit() < p
    }
    pub fn pick<'a, T>(&mut self, xs: &'a [T]) -> &'a T {
        &xs[self.below(xs.len())]
    }
    /// log-uniform in [lo, hi], lo > 0
    pub fn log_uniform(&mut self, lo: f64, hi: f64) -> f64 {
        (lo.ln() + (hi.ln() - lo.ln()) * self.unit()).exp()
    }
    /// standard normal (Box–Muller)
    pub fn normal(&mut self) -> f64 {
        let u1 = self.unit().max(1e-300);
        let u2 = self.unit();
        (-2.0 * u1.ln()).sqrt() * (2.0 * std::f64::consts::PI * u2).cos()
    }
    pub fn fork(&mut self) -> Rng {
        Rng(self.next())
    }
}

pub fn hx(x: f64) -> String {
    format!("{:016x}", x.to_bits())
}

pub fn push_f(out: &mut String, x: f64) {
    let _ = write!(out, " {:016x}", x.to_bits());
}
pub fn push_u(out: &mut String, x: usize) {
    let _ = write!(out, " {}", x);
}
pub fn push_s(out: &mut String, s: &str) {
    out.push(' ');
    out.push_str(s);
}
pub fn push_fs(out: &mut String, xs: &[f64]) {
    push_u(out, xs.len());
    for x in xs {
        push_f(out, *x);
    }
}
pub fn push_us(out: &mut String, xs: &[usize]) {
    push_u(out, xs.len());
    for x in xs {
        push_u(out, *x);
    }
}

/// percent-escape anything that is not printable ASCII without spaces
pub fn esc(s: &str) -> String {
    let mut o = String::new();
    for b in s.bytes() {
        if b > 0x20 && b < 0x7f && b != b'%' {
            o.push(b as char);
        } else {
            let _ = write!(o, "%{:02x}", b);
        }
    }
    if o.is_empty() {
        o.push_str("%");
    }
    o
}

pub const BUNDLED_VOICE: &str =
    "/repo/models/hts_voice_nitech_jp_atr503_m001-1.05/nitech_jp_atr503_m001.htsvoice";
pub const CORPUS: &str = "/repo/examples/genji/genji.lab";

/// The label corpus: last space-separated token of each non-empty line.
pub fn corpus() -> Vec<String> {
    let text = std::fs::read_to_string(CORPUS).expect("corpus");
    text.lines()
        .filter(|l| !l.trim().is_empty())
        .map(|l| l.rsplit(' ').next().unwrap().to_string())
        .collect()
}

/// Run `f`, converting a panic into `Err(file:line message)`.
pub fn catch<T>(f: impl FnOnce() -> T + std::panic::UnwindSafe) -> Result<T, String> {
    use std::sync::Mutex;
    static LAST: Mutex<String> = Mutex::new(String::new());
    std::panic::set_hook(Box::new(|info| {
        let loc = info
            .location()
            .map(|l| {
                let f = l.file();
                let f = f.rsplit("/src/").next().unwrap_or(f);
                format!("{}:{}", f, l.line())
            })
            .unwrap_or_else(|| "?".into());
        *LAST.lock().unwrap() = loc;
    }));
    let r = std::panic::catch_unwind(f);
    let _ = std::panic::take_hook();
    r.map_err(|_| LAST.lock().unwrap().clone())
}

/// "interesting" finite f64 values for setter arguments
pub fn boundary_f64(rng: &mut Rng, lo: f64, hi: f64) -> f64 {
    let specials = [
        0.0,
        -0.0,
        1.0,
        -1.0,
        lo,
        hi,
        f64::from_bits(lo.to_bits().wrapping_add(1)),
        f64::from_bits(lo.to_bits().wrapping_sub(1)),
        f64::from_bits(hi.to_bits().wrapping_add(1)),
        f64::from_bits(hi.to_bits().wrapping_sub(1)),
        f64::MIN_POSITIVE / 4.0,
        -f64::MIN_POSITIVE / 4.0,
        1e300,
        -1e300,
        f64::MAX,
        f64::MIN,
        0.5,
        2.0,
        1e-6,
        1e-7,
    ];
    match rng.below(4) {
        0 => {
            let v = *rng.pick(&specials);
            if v.is_finite() {
                v
            } else {
                0.0
            }
        }
        1 => rng.uniform(lo, hi),
        2 => {
            let span = (hi - lo).abs().max(1.0);
            rng.uniform(lo - span, hi + span)
        }
        _ => {
            let m = rng.log_uniform(1e-12, 1e12);
            if rng.chance(0.5) {
                m
            } else {
                -m
            }
        }
    }
}

/// HTS wildcard match (`*` any run, `?` one byte), written here independently of the library's matcher
pub fn glob(p: &[u8], s: &[u8]) -> bool {
    let (mut i, mut j, mut star, mut mark) = (0usize, 0usize, None::<usize>, 0usize);
    while j < s.len() {
        if i < p.len() && (p[i] == b'?' || (p[i] != b'*' && p[i] == s[j])) { i += 1; j += 1; }
        else if i < p.len() && p[i] == b'*' { star = Some(i); mark = j; i += 1; }
        else if let Some(st) = star { i = st + 1; mark += 1; j = mark; }
        else { return false; }
    }
    while i < p.len() && p[i] == b'*' { i += 1; }
    i == p.len()
}

/// the `GV_OFF_CONTEXT:` patterns read straight from the voice file's [GLOBAL] section
pub fn gv_off_patterns_of_file(path: &str) -> Vec<String> {
    let bytes = std::fs::read(path).expect("voice file");
    let key = b"GV_OFF_CONTEXT:";
    let pos = bytes.windows(key.len()).position(|w| w == key).expect("GV_OFF_CONTEXT");
    let rest = &bytes[pos + key.len()..];
    let end = rest.iter().position(|b| *b == b'\n').unwrap_or(rest.len());
    String::from_utf8_lossy(&rest[..end]).split(',').map(|t| t.trim().trim_matches('"').to_string()).filter(|t| !t.is_empty()).collect()
}
