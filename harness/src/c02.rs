//! C02: caller histories on real generators (real vocoder), compared with the one-shot waveform.
use crate::util::*;
use jbonsai::speech::SpeechGenerator;
use jbonsai::vocoder::Vocoder;
use jbonsai::Engine;

pub fn sentinel(i: usize) -> f64 {
    -7777.0 - i as f64
}

#[derive(Clone, Copy, Debug)]
pub enum Op {
    Step(usize),
    Query,
    Finish,
}

/// Random small trajectories rendered through the public `SpeechGenerator::new` + `Vocoder::new`.
pub struct Direct {
    pub fperiod: usize,
    pub nmcp: usize,
    pub nlpf: usize,
    pub rate: usize,
    pub alpha: f64,
    pub beta: f64,
    pub volume: f64,
    /// 0 = mel-cepstral; 1.. = LSP (gamma = -1/stage): the spectrum rows are then gain + increasing line spectral frequencies
    pub stage: usize,
    pub log_gain: bool,
    pub spectrum: Vec<Vec<f64>>,
    pub lf0: Vec<Vec<f64>>,
    pub lpf: Vec<Vec<f64>>,
}

impl Direct {
    pub fn random(rng: &mut Rng, n: usize) -> Self {
        let fperiod = rng.range(1, 12);
        let nmcp = rng.range(3, 8);
        let nlpf = *rng.pick(&[1usize, 3, 5]);
        let rate = *rng.pick(&[8000usize, 16000, 48000]);
        let voiced_all = rng.chance(0.3);
        // every third generator renders through the LSP filter family (seeded change C02j: the LSP branch rendered as many
        // samples as the caller's buffer holds, so a step with a buffer longer than one frame ran the filter too far)
        let stage = if rng.below(3) == 0 { rng.range(1, 3) } else { 0 };
        let log_gain = stage > 0 && rng.chance(0.5);
        let spectrum = (0..n)
            .map(|_| {
                if stage == 0 {
                    (0..nmcp).map(|k| if k == 0 { rng.uniform(-1.0, 2.0) } else { rng.uniform(-0.3, 0.3) }).collect()
                } else {
                    let mut v = vec![if log_gain { rng.uniform(-1.0, 1.0) } else { rng.uniform(0.3, 3.0) }];
                    v.extend(crate::voc::random_lsp(rng, nmcp - 1));
                    v
                }
            })
            .collect();
        let lf0 = (0..n)
            .map(|_| {
                if voiced_all || rng.chance(0.6) {
                    vec![rng.uniform(80.0f64, 400.0).ln()]
                } else {
                    vec![-1e10]
                }
            })
            .collect();
        let lpf = (0..n)
            .map(|_| {
                let mut h: Vec<f64> = (0..nlpf).map(|_| rng.uniform(-0.2, 0.4)).collect();
                h[nlpf / 2] += 0.5;
                h
            })
            .collect();
        Direct {
            fperiod,
            nmcp,
            nlpf,
            rate,
            alpha: *rng.pick(&[0.0, 0.42, 0.55]),
            beta: *rng.pick(&[0.0, 0.0, 0.3]),
            volume: 1.0,
            stage,
            log_gain,
            spectrum,
            lf0,
            lpf,
        }
    }
    pub fn generator(&self) -> SpeechGenerator {
        let v = Vocoder::new(
            self.nmcp, self.nlpf, self.stage, self.log_gain, self.rate, self.alpha, self.beta, self.volume, self.fperiod,
        );
        SpeechGenerator::new(self.fperiod, v, self.spectrum.clone(), self.lf0.clone(), self.lpf.clone())
    }
}

/// run one history; append the per-op implementation outputs to `line`
pub fn run_history(mut g: SpeechGenerator, ops: &[Op], line: &mut String) {
    let mut gen = Some(g);
    for op in ops {
        match op {
            Op::Step(b) => {
                let Some(ref mut gg) = gen else { break };
                let mut buf: Vec<f64> = (0..*b).map(sentinel).collect();
                let r = catch(std::panic::AssertUnwindSafe(|| gg.generate_step(&mut buf)));
                match r {
                    Ok(ret) => {
                        push_s(line, "step");
                        push_u(line, *b);
                        push_u(line, ret);
                        for x in &buf {
                            push_f(line, *x);
                        }
                    }
                    Err(site) => {
                        push_s(line, "steppanic");
                        push_u(line, *b);
                        push_s(line, &esc(&site));
                        return;
                    }
                }
            }
            Op::Query => {
                let Some(ref gg) = gen else { break };
                push_s(line, "frames");
                push_u(line, gg.synthesized_frames());
            }
            Op::Finish => {
                let Some(gg) = gen.take() else { break };
                push_s(line, "finish");
                match catch(std::panic::AssertUnwindSafe(move || gg.generate_all())) {
                    Ok(w) => {
                        push_s(line, "ok");
                        push_fs(line, &w);
                    }
                    Err(site) => {
                        push_s(line, "panic");
                        push_s(line, &esc(&site));
                    }
                }
                return;
            }
        }
    }
    g = match gen {
        Some(g) => g,
        None => return,
    };
    drop(g);
}

fn random_ops(rng: &mut Rng, n: usize, fp: usize) -> Vec<Op> {
    let len = rng.range(1, n + 6);
    let mut ops = Vec::new();
    let finish_at = if rng.chance(0.7) { Some(rng.below(len)) } else { None };
    for i in 0..len {
        if Some(i) == finish_at {
            ops.push(Op::Finish);
            break;
        }
        if rng.chance(0.2) {
            ops.push(Op::Query);
        } else {
            ops.push(Op::Step(rng.range(fp, 3 * fp)));
        }
    }
    ops
}

fn emit(fp: usize, n: usize, oneshot: &[f64], gen: SpeechGenerator, ops: &[Op]) {
    let mut line = String::from("gen");
    push_u(&mut line, fp);
    push_u(&mut line, n);
    push_fs(&mut line, oneshot);
    push_u(&mut line, ops.len());
    run_history(gen, ops, &mut line);
    push_s(&mut line, "end");
    println!("{}", line);
}

pub fn gen(seed: u64, thorough: bool) {
    let mut rng = Rng::new(seed);
    // (1) exhaustive histories of length ≤ L over {step fp, step fp+1, step 3fp, query, finish}
    let maxlen = if thorough { 5 } else { 4 };
    for n in 0..=3usize {
        let d = Direct::random(&mut rng, n);
        let oneshot = d.generator().generate_all();
        let fp = d.fperiod;
        let alphabet = [Op::Step(fp), Op::Step(fp + 1), Op::Step(3 * fp), Op::Query, Op::Finish];
        for len in 1..=maxlen {
            let total = 5usize.pow(len as u32);
            for code in 0..total {
                let mut c = code;
                let mut ops = Vec::new();
                let mut finished_early = false;
                for i in 0..len {
                    let o = alphabet[c % 5];
                    c /= 5;
                    ops.push(o);
                    if matches!(o, Op::Finish) && i + 1 < len {
                        finished_early = true;
                        break;
                    }
                }
                if finished_early {
                    continue; // same history as a shorter one
                }
                emit(fp, n, &oneshot, d.generator(), &ops);
            }
        }
    }
    // (2) random histories on random small trajectories
    let nrand = if thorough { 20000 } else { 800 };
    for _ in 0..nrand {
        let n = rng.range(0, 12);
        let d = Direct::random(&mut rng, n);
        let oneshot = d.generator().generate_all();
        let ops = random_ops(&mut rng, n, d.fperiod);
        emit(d.fperiod, n, &oneshot, d.generator(), &ops);
    }
    // (2b) long generators: thousands of frames (beyond any block size an implementation might work in: 2048, 4096), frame
    // period 1..2 to keep the lines short; a few steps and then `generate_all`, and one history that steps through every
    // frame, past the end (seeded change C02i: `generate_all` rendering in blocks of 2048 frames appended the whole last block)
    let nlong = if thorough { 12 } else { 3 };
    for k in 0..nlong {
        let n = *rng.pick(&[2049usize, 2500, 4097, 4500, 3000]) + rng.below(40);
        let mut d = Direct::random(&mut rng, n);
        d.fperiod = rng.range(1, 2);
        let oneshot = d.generator().generate_all();
        let fp = d.fperiod;
        let ops: Vec<Op> = if k % 3 == 2 {
            let mut o: Vec<Op> = (0..n + 2).map(|_| Op::Step(fp)).collect();
            o.push(Op::Query);
            o.push(Op::Finish);
            o
        } else {
            let mut o: Vec<Op> = (0..rng.below(6)).map(|_| Op::Step(rng.range(fp, 3 * fp))).collect();
            o.push(Op::Query);
            o.push(Op::Finish);
            o.push(Op::Step(fp));
            o
        };
        emit(fp, n, &oneshot, d.generator(), &ops);
    }
    // (3) real utterances through the engine (bundled voice), small frame period to keep lines short
    let corpus = corpus();
    let mut engine = Engine::load(&[BUNDLED_VOICE]).expect("bundled voice");
    let nreal = if thorough { 300 } else { 25 };
    for i in 0..nreal {
        let fp = if i % 8 == 0 { 240 } else { rng.range(1, 16) };
        engine.condition.set_fperiod(fp);
        engine.condition.set_speed(rng.uniform(1.0, 4.0));
        engine.condition.set_beta(*rng.pick(&[0.0, 0.2]));
        // the whole condition varies: the generator and the one-shot call must read the same settings
        // (seeded change C02f: a setting applied by `synthesize` only)
        engine.condition.set_volume(*rng.pick(&[0.0, -6.0, 3.0, 12.0, -20.0]));
        engine.condition.set_additional_half_tone(*rng.pick(&[0.0, 0.0, 2.5, -3.0]));
        engine.condition.set_alpha(*rng.pick(&[0.55, 0.55, 0.42, 0.0]));
        engine.condition.set_msd_threshold(1, *rng.pick(&[0.5, 0.5, 0.2, 0.8]));
        engine.condition.set_gv_weight(0, *rng.pick(&[1.0, 1.0, 0.5, 1.5]));
        engine.condition.set_gv_weight(1, *rng.pick(&[1.0, 1.0, 0.0, 1.3]));
        let nlab = rng.range(1, 3);
        let start = rng.below(corpus.len() - nlab);
        let labels: Vec<String> = corpus[start..start + nlab].to_vec();
        let oneshot = engine.synthesize(labels.clone()).expect("synthesize");
        let n = oneshot.len() / fp;
        let ops = random_ops(&mut rng, n.min(40), fp);
        let g = engine.generator(labels).expect("generator");
        emit(fp, n, &oneshot, g, &ops);
    }
}
