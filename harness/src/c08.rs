//! C08 (speaking rate) and C09 (alignment): DurationEstimator on generated and real duration models.
use crate::util::*;
use jbonsai::duration::DurationEstimator;
use jbonsai::label::Labels;
use jbonsai::model::{MeanVari, Models};
use jbonsai::Engine;

pub fn out_durations(r: Result<Vec<usize>, String>, out: &mut String) {
    match r {
        Ok(d) => {
            push_s(out, "ok");
            push_us(out, &d);
        }
        Err(site) => {
            push_s(out, "panic");
            push_s(out, &esc(&site));
        }
    }
}

pub fn random_params(rng: &mut Rng, n: usize) -> Vec<MeanVari> {
    let style = rng.below(5);
    let mut v = Vec::with_capacity(n);
    for i in 0..n {
        let (m, s) = match style {
            // equal-cost ties on purpose: few distinct Gaussians repeated
            0 => {
                let k = i % 3;
                ([1.7, 3.2, 6.5][k], [0.8, 2.5, 9.0][k])
            }
            1 => (rng.log_uniform(0.2, 60.0), rng.log_uniform(1e-3, 400.0)),
            2 => (rng.uniform(0.2, 6.0), rng.uniform(0.5, 4.0)),
            // means on rounding ties x.5
            3 => ((rng.range(0, 20) as f64) + 0.5, rng.log_uniform(1e-3, 400.0)),
            _ => (rng.log_uniform(1.0, 40.0), rng.log_uniform(0.1, 100.0)),
        };
        v.push(MeanVari(m, s));
    }
    v
}

fn push_params(line: &mut String, ps: &[MeanVari]) {
    for MeanVari(m, v) in ps {
        push_f(line, *m);
        push_f(line, *v);
    }
}

pub fn real_params(rng: &mut Rng, engine: &Engine, corpus: &[String], nlab: usize) -> Vec<MeanVari> {
    let start = rng.below(corpus.len() - nlab);
    let labels: Vec<jlabel::Label> = corpus[start..start + nlab]
        .iter()
        .map(|l| l.parse().unwrap())
        .collect();
    let models = Models::new(
        &labels,
        &engine.voices,
        engine.condition.get_interporation_weight(),
    );
    models.duration()
}

fn pick_speed(rng: &mut Rng, f1: usize) -> f64 {
    match rng.below(6) {
        0 => 1.0,
        1 => {
            // makes F1/s a rounding tie k+0.5
            let k = rng.range(1, 2 * f1.max(1)) as f64 + 0.5;
            (f1 as f64 / k).clamp(0.1, 50.0)
        }
        2 => *rng.pick(&[0.1, 0.25, 0.5, 2.0, 4.0, 10.0, 50.0, 1.4, 1.2]),
        // a speed barely different from 1: the target differs from F1 by only 1..3 frames
        3 => {
            let j = rng.range(1, 3) as f64;
            let f = f1.max(8) as f64;
            if rng.chance(0.5) { f / (f + j) } else { f / (f - j) }
        }
        _ => rng.log_uniform(0.1, 50.0),
    }
}

pub fn gen_c08(seed: u64, thorough: bool) {
    let mut rng = Rng::new(seed);
    let engine = Engine::load(&[BUNDLED_VOICE]).expect("bundled voice");
    let corpus = corpus();
    let ncases = if thorough { 30000 } else { 1500 };
    for i in 0..ncases {
        let ps = if i % 10 == 9 {
            let nlab = rng.range(1, 30);
            real_params(&mut rng, &engine, &corpus, nlab)
        } else {
            let n = match rng.below(4) {
                0 => rng.range(1, 4),
                1 => rng.range(5, 30),
                2 => rng.range(31, 200),
                _ => rng.range(1, 600),
            };
            random_params(&mut rng, n)
        };
        let est = DurationEstimator::new(ps.clone(), 1);
        let d1 = catch(std::panic::AssertUnwindSafe(|| est.create(1.0)));
        let f1: usize = d1.as_ref().map(|d| d.iter().sum()).unwrap_or(1);
        let s = pick_speed(&mut rng, f1);
        let s2 = pick_speed(&mut rng, f1);
        let ds = catch(std::panic::AssertUnwindSafe(|| est.create(s)));
        let ds2 = catch(std::panic::AssertUnwindSafe(|| est.create(s2)));
        let mut line = String::from("dur");
        push_u(&mut line, ps.len());
        push_params(&mut line, &ps);
        push_f(&mut line, s);
        push_f(&mut line, s2);
        out_durations(d1, &mut line);
        out_durations(ds, &mut line);
        out_durations(ds2, &mut line);
        println!("{}", line);
    }
    // engine level: the speed reaches the estimator unchanged whatever the output settings are (frame period and
    // sampling-rate overrides, volume, ...): `Engine::synthesize` returns frame_period x max(round(F1/s), #states) samples
    // (seeded change C08f: the speed rescaled by the frame-shift ratio inside Engine::generator)
    let mut engine = Engine::load(&[BUNDLED_VOICE]).expect("bundled voice");
    let nengine = if thorough { 600 } else { 40 };
    for i in 0..nengine {
        let nlab = rng.range(1, 12);
        let start = rng.below(corpus.len() - nlab);
        let labels: Vec<String> = corpus[start..start + nlab].to_vec();
        let parsed: Vec<jlabel::Label> = labels.iter().map(|l| l.parse().unwrap()).collect();
        let ps = Models::new(&parsed, &engine.voices, engine.condition.get_interporation_weight()).duration();
        let f1: usize = DurationEstimator::new(ps.clone(), 1).create(1.0).iter().sum();
        // every seventh case: a pause-only utterance (about 16 frames per state at speed 1) at a speed between 10 and 15, where the
        // total is still above one frame per state — the law has no upper speed limit (seeded change C08j: the engine's setter
        // capped the speed at 10)
        let pause_case = i % 7 == 3;
        let (labels, parsed, ps, f1) = if pause_case {
            let sil: Vec<&String> = corpus.iter().filter(|l| l.contains("-sil+") || l.contains("-pau+")).collect();
            let labels: Vec<String> = (0..rng.range(1, 2)).map(|_| sil[rng.below(sil.len())].clone()).collect();
            let parsed: Vec<jlabel::Label> = labels.iter().map(|l| l.parse().unwrap()).collect();
            let ps = Models::new(&parsed, &engine.voices, engine.condition.get_interporation_weight()).duration();
            let f1: usize = DurationEstimator::new(ps.clone(), 1).create(1.0).iter().sum();
            (labels, parsed, ps, f1)
        } else { (labels, parsed, ps, f1) };
        let _ = &parsed;
        let s = if pause_case { rng.uniform(10.0, 15.0) } else if i % 5 == 0 { *rng.pick(&[0.5, 2.0, 1.0]) } else { pick_speed(&mut rng, f1) };
        let fp = *rng.pick(&[240usize, 240, 120, 360, 80, 1, 7, 441]);
        let rate = *rng.pick(&[48000usize, 48000, 44100, 16000, 22050, 96000]);
        engine.condition.set_sampling_frequency(rate);
        engine.condition.set_fperiod(fp);
        engine.condition.set_speed(s);
        engine.condition.set_volume(*rng.pick(&[0.0, -10.0]));
        let fp_eff = engine.condition.get_fperiod();
        // the speed the caller asked for, limited from below as documented (>= 1e-6) — not what the getter returns
        let s_eff = s.max(1e-6);
        // calls that do not concern the speed (each sets another setting and puts it back, or toggles the alignment flag
        // twice) between setting the speed and synthesizing: the utterance must still have the length for `s_eff`
        let snap = crate::engine::cond_snapshot(&engine);
        let hist = crate::engine::neutral_calls(&mut rng, &mut engine);
        crate::engine::shist_report(&snap, &crate::engine::cond_snapshot(&engine), &[], &hist);
        let e2 = &engine;
        let r = catch(std::panic::AssertUnwindSafe(move || e2.synthesize(labels).map(|w| w.len()).map_err(|e| format!("{e:?}"))));
        let mut line = String::from("durE");
        push_u(&mut line, ps.len());
        push_params(&mut line, &ps);
        push_f(&mut line, s_eff);
        push_u(&mut line, fp_eff);
        push_u(&mut line, rate);
        match r {
            Ok(Ok(n)) => { push_s(&mut line, "ok"); push_u(&mut line, n); }
            Ok(Err(e)) => { push_s(&mut line, "err"); push_s(&mut line, &esc(&e)); }
            Err(site) => { push_s(&mut line, "panic"); push_s(&mut line, &esc(&site)); }
        }
        println!("{}", line);
    }
}

/// all 4^n combinations of {none, start, end, both} for small n are enumerated by index
fn annotation(rng: &mut Rng, n: usize, ps: &[MeanVari], nstate: usize, exhaustive_code: Option<usize>) -> Vec<(f64, f64)> {
    // nominal boundaries from the model durations scaled by a random factor
    let scale = rng.log_uniform(0.3, 3.0);
    let mut t = 0.0f64;
    let mut bounds = Vec::with_capacity(n + 1);
    bounds.push(0.0);
    for l in 0..n {
        let mut len: f64 = ps[l * nstate..(l + 1) * nstate].iter().map(|p| p.0.max(0.3)).sum();
        len *= scale * rng.uniform(0.5, 1.5);
        match rng.below(12) {
            0 => len = 0.0,               // zero-length label
            1 => len = rng.uniform(0.0, 2.0), // shorter than its states
            _ => {}
        }
        t += len;
        bounds.push(t);
    }
    let style = rng.below(4);
    let mut times = Vec::with_capacity(n);
    for l in 0..n {
        let code = match exhaustive_code {
            Some(c) => (c >> (2 * l)) & 3,
            None => match style {
                0 => 3,
                1 => rng.below(4),
                2 => if rng.chance(0.3) { 3 } else { 0 },
                _ => if rng.chance(0.8) { 3 } else { rng.below(4) },
            },
        };
        let mut s = bounds[l];
        let mut e = bounds[l + 1];
        if rng.chance(0.05) {
            // non-monotone
            e = (s - rng.uniform(0.0, 5.0)).max(0.0);
        }
        if rng.chance(0.5) {
            s = s.round();
            e = e.round();
        } else if rng.chance(0.3) {
            e = e.floor() + 0.5; // rounding tie
        }
        times.push((if code & 1 != 0 { s } else { -1.0 }, if code & 2 != 0 { e } else { -1.0 }));
    }
    times
}

pub fn gen_c09(seed: u64, thorough: bool) {
    let mut rng = Rng::new(seed);
    let engine = Engine::load(&[BUNDLED_VOICE]).expect("bundled voice");
    let corpus = corpus();
    let labels_all: Vec<jlabel::Label> = corpus.iter().take(64).map(|l| l.parse().unwrap()).collect();
    let ncases = if thorough { 40000 } else { 2000 };
    let mut exhaustive = 0usize; // enumerates (n, code) for n ≤ 4 (quick: n ≤ 3)
    let exh_max_n = if thorough { 4 } else { 3 };
    let mut exh_n = 1usize;
    for i in 0..ncases {
        let (n, code) = if exh_n <= exh_max_n {
            let r = (exh_n, Some(exhaustive));
            exhaustive += 1;
            if exhaustive >= 1 << (2 * exh_n) {
                exhaustive = 0;
                exh_n += 1;
            }
            r
        } else {
            (rng.range(1, 8), None)
        };
        let real = i % 7 == 6;
        let nstate = if real { 5 } else { rng.range(1, 7) };
        let ps = if real { real_params(&mut rng, &engine, &corpus, n) } else { random_params(&mut rng, n * nstate) };
        let frames_route = rng.chance(0.5) || code.is_some();
        let (sr, fp) = *rng.pick(&[(48000usize, 240usize), (16000, 80), (44100, 220), (8000, 40), (96000, 480)]);
        let ann = annotation(&mut rng, n, &ps, nstate, code);
        let labels: Vec<jlabel::Label> = labels_all[..n].to_vec();
        let mut line = String::from("align");
        push_u(&mut line, n);
        push_u(&mut line, nstate);
        push_params(&mut line, &ps);
        push_u(&mut line, sr);
        push_u(&mut line, fp);
        let built: Result<Labels, String>;
        if frames_route {
            push_s(&mut line, "frames");
            for (s, e) in &ann {
                push_f(&mut line, *s);
                push_f(&mut line, *e);
            }
            built = Labels::new(labels, Some(ann.clone())).map_err(|e| format!("{e:?}"));
        } else {
            // the string route needs both or neither; times in 100 ns units (integers)
            push_s(&mut line, "u100ns");
            let per_frame = fp as f64 * 1e7 / sr as f64;
            let mut lines = Vec::new();
            for (l, (s, e)) in ann.iter().enumerate() {
                if *s >= 0.0 && *e >= 0.0 {
                    let su = (s * per_frame).round();
                    let eu = (e * per_frame).round();
                    push_f(&mut line, su);
                    push_f(&mut line, eu);
                    lines.push(format!("{} {} {}", su as u64, eu as u64, corpus[l]));
                } else if rng.chance(0.5) {
                    // HTS-style: an unknown time is written as -1 (kept per field)
                    let su = if *s >= 0.0 { (s * per_frame).round() } else { -1.0 };
                    let eu = if *e >= 0.0 { (e * per_frame).round() } else { -1.0 };
                    push_f(&mut line, su);
                    push_f(&mut line, eu);
                    lines.push(format!("{} {} {}", su as i64, eu as i64, corpus[l]));
                } else {
                    push_f(&mut line, -1.0);
                    push_f(&mut line, -1.0);
                    lines.push(corpus[l].clone());
                }
            }
            built = Labels::load_from_strings(sr, fp, &lines).map_err(|e| format!("{e:?}"));
        }
        let lab = match built {
            Ok(l) => l,
            Err(e) => {
                eprintln!("unexpected label error {e}");
                continue;
            }
        };
        for (s, e) in lab.times() {
            push_f(&mut line, *s);
            push_f(&mut line, *e);
        }
        let est = DurationEstimator::new(ps.clone(), nstate);
        let d = catch(std::panic::AssertUnwindSafe(|| est.create_with_alignment(lab.times())));
        out_durations(d, &mut line);
        println!("{}", line);
    }
}
