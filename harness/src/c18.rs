//! C18: fault enumeration on valid voice files — the loader must answer ok or error, never panic,
//! hang or allocate without bound. Each faulted file is written to disk (the Lean reader parses the
//! same file) and loaded in-process under catch_unwind; the whole harness runs under an address-space
//! limit and a wall-clock limit set by `check`, so an abort or hang is an observation too.
use crate::engine::Sources;
use crate::util::*;
use crate::voices::*;
use jbonsai::Engine;

struct Parts {
    head: String,     // everything up to and including "[DATA]\n"
    data: Vec<u8>,
}

fn split(bytes: &[u8]) -> Parts {
    let marker = b"[DATA]\n";
    let pos = bytes.windows(marker.len()).position(|w| w == marker).expect("data marker") + marker.len();
    Parts { head: String::from_utf8_lossy(&bytes[..pos]).to_string(), data: bytes[pos..].to_vec() }
}

fn join(p: &Parts) -> Vec<u8> {
    let mut v = p.head.clone().into_bytes();
    v.extend_from_slice(&p.data);
    v
}

/// one fault; returns its class name
fn fault(rng: &mut Rng, bytes: &[u8]) -> (Vec<u8>, String) {
    if !bytes.windows(7).any(|w| w == b"[DATA]\n") {
        // already truncated before the data section: only a further truncation applies
        let cut = rng.below(bytes.len().max(1));
        return (bytes[..cut].to_vec(), "truncate".into());
    }
    let mut p = split(bytes);
    let lines: Vec<String> = p.head.lines().map(|s| s.to_string()).collect();
    let numeric: Vec<usize> = lines.iter().enumerate().filter(|(_, l)| l.contains(':') && l.chars().any(|c| c.is_ascii_digit()) && !l.starts_with("HTS_VOICE") && !l.starts_with("FULLCONTEXT") && !l.starts_with("GV_OFF") && !l.starts_with("OPTION")).map(|(i, _)| i).collect();
    let rebuild = |ls: &[String]| -> String { let mut s = ls.join("\n"); s.push('\n'); s };
    match rng.below(17) {
        15 => {
            // a valid multi-byte character where a header value starts (a byte-wise cursor that advances by one then cuts a
            // character in two: seeded change C18d)
            if numeric.is_empty() { return (bytes.to_vec(), "none".into()); }
            let li = *rng.pick(&numeric);
            let line = &lines[li];
            let Some((k, v)) = line.split_once(':') else { return (bytes.to_vec(), "none".into()); };
            let ch = *rng.pick(&["é", "５", "あ", "𝟙", "ß"]);
            let mut ls = lines.clone();
            ls[li] = if rng.chance(0.5) { format!("{}:{}{}", k, ch, v) } else { format!("{}:{}{}", k, ch, v.chars().skip(1).collect::<String>()) };
            p.head = rebuild(&ls);
            (join(&p), "value-multibyte-first-char".into())
        }
        16 => {
            let k = rng.below(6);
            match blank_tree_body(&p.data, k) {
                Some(d) => { p.data = d; (join(&p), "tree-without-nodes".into()) }
                None => (bytes.to_vec(), "none".into()),
            }
        }
        0 => {
            // truncation at a section boundary or a random offset
            let all = join(&p);
            let cut = match rng.below(3) {
                0 => p.head.len(),
                1 => p.head.find("[POSITION]").unwrap_or(0),
                _ => rng.below(all.len()),
            };
            (all[..cut].to_vec(), "truncate".into())
        }
        1 | 2 | 3 => {
            // one header number replaced
            if numeric.is_empty() { return (bytes.to_vec(), "none".into()); }
            let li = *rng.pick(&numeric);
            let line = &lines[li];
            // pick one digit run
            // byte offsets throughout (a line faulted before may hold multi-byte characters; ASCII digits are single bytes, so
            // the ends of a digit run are character boundaries)
            let chars: &[u8] = line.as_bytes();
            let mut runs = Vec::new();
            let mut i = line.find(':').unwrap() + 1;
            while i < chars.len() {
                if chars[i].is_ascii_digit() {
                    let s = i;
                    while i < chars.len() && chars[i].is_ascii_digit() { i += 1; }
                    runs.push((s, i));
                } else { i += 1; }
            }
            if runs.is_empty() { return (bytes.to_vec(), "none".into()); }
            let (s, e) = *rng.pick(&runs);
            let v: u128 = line[s..e].parse().unwrap_or(0);
            let (rep, kind) = match rng.below(8) {
                0 => ("0".to_string(), "zero"),
                1 => ("1".to_string(), "one"),
                2 => (format!("{}", v + 1), "plus1"),
                3 => (format!("{}", v.saturating_sub(1)), "minus1"),
                4 => ("4000000000".to_string(), "huge"),
                5 => ("99999999999999999999999999".to_string(), "overflow"),
                6 => ("-5".to_string(), "negative"),
                _ => ("abc".to_string(), "text"),
            };
            let mut ls = lines.clone();
            ls[li] = format!("{}{}{}", &line[..s], rep, &line[e..]);
            p.head = rebuild(&ls);
            let key = line.split(':').next().unwrap_or("").split('[').next().unwrap_or("").to_string();
            (join(&p), format!("num:{}:{}", key, kind))
        }
        4 => {
            // offsets swapped / inverted in one range
            let cands: Vec<usize> = lines.iter().enumerate().filter(|(_, l)| l.contains("_PDF") || l.contains("_TREE") || l.contains("_WIN")).map(|(i, _)| i).collect();
            if cands.is_empty() { return (bytes.to_vec(), "none".into()); }
            let li = *rng.pick(&cands);
            let line = &lines[li];
            let Some((k, v)) = line.split_once(':') else { return (bytes.to_vec(), "none".into()); };
            let first = v.split(',').next().unwrap();
            if let Some((a, b)) = first.split_once('-') {
                let mut ls = lines.clone();
                ls[li] = format!("{}:{}-{}{}", k, b, a, &v[first.len()..]);
                p.head = rebuild(&ls);
                (join(&p), "range-inverted".into())
            } else { (bytes.to_vec(), "none".into()) }
        }
        5 => {
            if lines.is_empty() { return (bytes.to_vec(), "none".into()); }
            let li = rng.below(lines.len());
            let mut ls = lines.clone();
            ls.remove(li);
            p.head = rebuild(&ls);
            (join(&p), "line-deleted".into())
        }
        6 => {
            if lines.is_empty() { return (bytes.to_vec(), "none".into()); }
            let li = rng.below(lines.len());
            let mut ls = lines.clone();
            ls.insert(li, lines[li].clone());
            p.head = rebuild(&ls);
            (join(&p), "line-duplicated".into())
        }
        7 | 8 => {
            // rename a question definition (its uses become undefined) or break a node reference
            let qs: Vec<usize> = p.data.windows(3).enumerate().filter(|(_, w)| *w == b"QS ").map(|(i, _)| i + 3).collect();
            if qs.is_empty() { return (bytes.to_vec(), "none".into()); }
            if rng.chance(0.5) {
                let s = *rng.pick(&qs);
                if s < p.data.len() { p.data[s] = b'Z'; }
                (join(&p), "question-renamed".into())
            } else {
                let refs: Vec<usize> = (1..p.data.len().saturating_sub(1)).filter(|i| p.data[*i] == b'-' && p.data[*i - 1] == b' ' && p.data[*i + 1].is_ascii_digit()).take(400).collect();
                if refs.is_empty() { return (bytes.to_vec(), "none".into()); }
                let i = *rng.pick(&refs);
                p.data[i + 1] = b'9';
                p.data.insert(i + 1, b'9');
                (join(&p), "node-reference-changed".into())
            }
        }
        9 => {
            // byte flip in a text section
            let text_end = p.head.len();
            let mut all = join(&p);
            let i = rng.below(text_end);
            all[i] ^= 1 << rng.below(7);
            (all, "header-byte-flip".into())
        }
        10 => {
            // non-UTF-8 header
            let mut all = join(&p);
            let i = rng.below(p.head.len());
            all[i] = 0xff;
            (all, "header-non-utf8".into())
        }
        11 => {
            // single-leaf tree whose only child is a node id
            let pat = b"]\n   \"";
            match p.data.windows(pat.len()).position(|w| w == pat) {
                Some(i) => {
                    let start = i + 5;
                    let end = start + p.data[start..].iter().position(|b| *b == b'\n').unwrap_or(1);
                    let mut d = p.data[..start].to_vec();
                    d.extend_from_slice(b"-3");
                    d.extend_from_slice(&p.data[end..]);
                    p.data = d;
                    (join(&p), "lone-child-node-id".into())
                }
                None => (bytes.to_vec(), "none".into()),
            }
        }
        12 => {
            let ls: Vec<String> = lines.iter().map(|l| if l.starts_with("STREAM_TYPE:") { "STREAM_TYPE:".to_string() } else { l.clone() }).collect();
            p.head = rebuild(&ls);
            (join(&p), "no-streams".into())
        }
        13 => {
            // a tree section ending in newline + one byte >= 0x80 (byte-wise parsers that read it as a char)
            let cands: Vec<usize> = lines.iter().enumerate().filter(|(_, l)| l.contains("_TREE")).map(|(i, _)| i).collect();
            if cands.is_empty() { return (bytes.to_vec(), "none".into()); }
            let line = &lines[*rng.pick(&cands)];
            let ranges: Vec<&str> = line.split_once(':').map(|(_, v)| v.split(',').collect()).unwrap_or_default();
            if ranges.is_empty() { return (bytes.to_vec(), "none".into()); }
            let r = *rng.pick(&ranges);
            match r.split_once('-').and_then(|(_, b)| b.trim().parse::<usize>().ok()) {
                Some(end) if end >= 1 && end < p.data.len() => {
                    p.data[end - 1] = b'\n';
                    p.data[end] = *rng.pick(&[0x80u8, 0xc3, 0xe3, 0xf0, 0xff]);
                    (join(&p), "tree-trailing-non-ascii".into())
                }
                _ => (bytes.to_vec(), "none".into()),
            }
        }
        _ => {
            // random bytes inside the data section text/binary
            let i = rng.below(p.data.len().max(1));
            if !p.data.is_empty() { p.data[i] = rng.below(256) as u8; }
            (join(&p), "data-byte".into())
        }
    }
}

/// the `k`-th braced tree body with its node lines blanked (same length, so every offset of the header stays valid): a tree
/// `{ }` that the grammar accepts and that has no node at all (seeded change C18f)
fn blank_tree_body(data: &[u8], k: usize) -> Option<Vec<u8>> {
    let opens: Vec<usize> = (0..data.len().saturating_sub(1)).filter(|i| data[*i] == b'{' && data[*i + 1] == b'\n' && (*i == 0 || data[*i - 1] == b'\n')).take(64).collect();
    if opens.is_empty() { return None; }
    let o = opens[k % opens.len()];
    let close = (o..data.len()).find(|i| data[*i] == b'}')?;
    let mut d = data.to_vec();
    for b in d[o + 1..close].iter_mut() { if *b != b'\n' { *b = b' '; } }
    Some(d)
}

/// every header number of `bytes` replaced in turn by each of the given values: a complete enumeration of the
/// single-number faults of one file (the random stream above samples the same space with other faults mixed in)
fn enumerate_number_faults(bytes: &[u8], values: &[(&str, &str)]) -> Vec<(Vec<u8>, String)> {
    let mut out = Vec::new();
    if !bytes.windows(7).any(|w| w == b"[DATA]\n") { return out; }
    let p = split(bytes);
    let lines: Vec<String> = p.head.lines().map(|s| s.to_string()).collect();
    for (li, line) in lines.iter().enumerate() {
        if !(line.contains(':') && line.chars().any(|c| c.is_ascii_digit())) || line.starts_with("HTS_VOICE") || line.starts_with("FULLCONTEXT") || line.starts_with("GV_OFF") || line.starts_with("OPTION") { continue; }
        let b = line.as_bytes();
        let mut i = line.find(':').unwrap() + 1;
        while i < b.len() {
            if b[i].is_ascii_digit() {
                let s0 = i;
                while i < b.len() && b[i].is_ascii_digit() { i += 1; }
                for (rep, kind) in values {
                    let mut ls = lines.clone();
                    ls[li] = format!("{}{}{}", &line[..s0], rep, &line[i..]);
                    let mut head = ls.join("\n");
                    head.push('\n');
                    let key = line.split(':').next().unwrap_or("").split('[').next().unwrap_or("").to_string();
                    out.push((join(&Parts { head, data: p.data.clone() }), format!("num:{}:{}", key, kind)));
                }
            } else { i += 1; }
        }
    }
    out
}

/// every header line `KEY:value` / `KEY[SUB]:value` of `bytes` with its key damaged, one fault at a time: each single character
/// of the key deleted (so also `KEY[SUB:`, `KEYSUB]:`), the sub-key cut off after the bracket (`KEY[:`), emptied (`KEY[]:`),
/// brackets doubled or swapped, the key removed, the colon replaced by a space. A complete enumeration over one file
/// (seeded change C18h: `KEY[:value` made the key grouping slice `len - 1` of an empty sub-key).
fn enumerate_key_faults(bytes: &[u8]) -> Vec<(Vec<u8>, String)> {
    let mut out = Vec::new();
    if !bytes.windows(7).any(|w| w == b"[DATA]\n") { return out; }
    let p = split(bytes);
    let lines: Vec<String> = p.head.lines().map(|s| s.to_string()).collect();
    for (li, line) in lines.iter().enumerate() {
        let Some(colon) = line.find(':') else { continue };
        if line.starts_with('[') && line.ends_with(']') { continue; }
        let (key, rest) = (&line[..colon], &line[colon..]);
        if !key.is_ascii() { continue; }
        let mut variants: Vec<(String, String)> = Vec::new();
        for k in 0..key.len() {
            variants.push((format!("{}{}{}", &key[..k], &key[k + 1..], rest), format!("key-del:{}", &key[k..k + 1])));
        }
        if let Some(b) = key.find('[') {
            variants.push((format!("{}{}", &key[..b + 1], rest), "key-cut-after-bracket".into()));
            variants.push((format!("{}]{}", &key[..b + 1], rest), "key-empty-sub".into()));
            variants.push((format!("{}[{}{}", &key[..b + 1], &key[b + 1..], rest), "key-double-open".into()));
            variants.push((format!("{}]{}", key, rest), "key-double-close".into()));
            variants.push((format!("{}]{}[{}", &key[..b], &key[b + 1..key.len().saturating_sub(1)], rest), "key-brackets-swapped".into()));
            variants.push((format!("{}{}", &key[..b], rest), "key-without-sub".into()));
        } else {
            variants.push((format!("{}[{}", key, rest), "key-trailing-open".into()));
            variants.push((format!("{}[X]{}", key, rest), "key-unexpected-sub".into()));
        }
        variants.push((rest.to_string(), "key-removed".into()));
        variants.push((format!("{} {}", key, &rest[1..]), "colon-removed".into()));
        for (l2, kind) in variants {
            let mut ls = lines.clone();
            ls[li] = l2;
            let mut head = ls.join("\n");
            head.push('\n');
            out.push((join(&Parts { head, data: p.data.clone() }), kind));
        }
    }
    out
}

/// every PAIR of lines of the [GLOBAL] section damaged together, each line either with its value emptied or (when it holds a
/// number) with the number replaced by 0: consistency checks that compare two header entries with each other only show when
/// both are off (seeded change C18i: `NUM_STREAMS:0` together with an empty `STREAM_TYPE:` passed the stream-count guard)
fn enumerate_global_pairs(bytes: &[u8]) -> Vec<(Vec<u8>, String)> {
    let mut out = Vec::new();
    if !bytes.windows(7).any(|w| w == b"[DATA]\n") { return out; }
    let p = split(bytes);
    let lines: Vec<String> = p.head.lines().map(|s| s.to_string()).collect();
    let Some(g0) = lines.iter().position(|l| l == "[GLOBAL]") else { return out };
    let g1 = lines.iter().enumerate().skip(g0 + 1).find(|(_, l)| l.starts_with('[') && l.ends_with(']')).map(|(i, _)| i).unwrap_or(lines.len());
    let idx: Vec<usize> = (g0 + 1..g1).filter(|i| lines[*i].contains(':')).collect();
    let variants = |l: &str| -> Vec<(String, &'static str)> {
        let c = l.find(':').unwrap();
        let mut v = vec![(format!("{}:", &l[..c]), "emptied")];
        if l[c + 1..].chars().all(|ch| ch.is_ascii_digit()) && !l[c + 1..].is_empty() { v.push((format!("{}:0", &l[..c]), "zero")); }
        v
    };
    for (a, &i) in idx.iter().enumerate() {
        for &j in idx.iter().skip(a + 1) {
            for (li, ki) in variants(&lines[i]) {
                for (lj, kj) in variants(&lines[j]) {
                    let mut ls = lines.clone();
                    ls[i] = li.clone();
                    ls[j] = lj;
                    let mut head = ls.join("\n");
                    head.push('\n');
                    let key = |l: &str| l.split(':').next().unwrap_or("").to_string();
                    out.push((join(&Parts { head, data: p.data.clone() }), format!("pair:{}:{}+{}:{}", key(&lines[i]), ki, key(&lines[j]), kj)));
                }
            }
        }
    }
    out
}

/// the `OPTION[...]` lines (comma-separated `KEY=value` entries the engine reads after loading): an `=` removed, an empty
/// entry, a bare key, an empty or non-numeric value, an unknown key — through `Engine::load`, which must return an engine or
/// an error (seeded change C18j: an entry without `=` sliced an empty string)
fn enumerate_option_faults(bytes: &[u8]) -> Vec<(Vec<u8>, String)> {
    let mut out = Vec::new();
    if !bytes.windows(7).any(|w| w == b"[DATA]\n") { return out; }
    let p = split(bytes);
    let lines: Vec<String> = p.head.lines().map(|s| s.to_string()).collect();
    for (li, line) in lines.iter().enumerate() {
        if !line.starts_with("OPTION[") { continue; }
        let Some(colon) = line.find(':') else { continue };
        let (key, val) = (&line[..colon + 1], &line[colon + 1..]);
        let mut variants: Vec<(String, &'static str)> = Vec::new();
        for (k, ch) in val.char_indices() {
            if ch == '=' {
                variants.push((format!("{}{}{}", key, &val[..k], &val[k + 1..]), "option-equals-removed"));
                variants.push((format!("{}{}<{}", key, &val[..k], &val[k + 1..]), "option-equals-flipped"));
                variants.push((format!("{}{}={}", key, &val[..k + 1], &val[k + 1..]), "option-equals-doubled"));
            }
        }
        let sep = if val.is_empty() { "" } else { "," };
        for (extra, kind) in [("", "option-trailing-comma"), ("BARE", "option-bare-key"), ("=", "option-only-equals"), ("GAMMA=", "option-empty-value"),
                              ("ALPHA=abc", "option-text-value"), ("GAMMA=-1", "option-negative"), ("LN_GAIN=2", "option-flag-out-of-range"), ("FOO=1", "option-unknown-key")] {
            variants.push((format!("{}{}{}{}", key, val, if extra.is_empty() { "," } else { sep }, extra), kind));
        }
        for (l2, kind) in variants {
            let mut ls = lines.clone();
            ls[li] = l2;
            let mut head = ls.join("\n");
            head.push('\n');
            out.push((join(&Parts { head, data: p.data.clone() }), kind.to_string()));
        }
    }
    out
}

/// every `{*}[N]` tree header of the data section with its state number replaced by 0, 1, 9, 4000000000 or -1, one at a time: a
/// state number is a label the file assigns, not a position (seeded change C18k: trees stored at index `state - 2`)
fn enumerate_tree_state_faults(bytes: &[u8]) -> Vec<(Vec<u8>, String)> {
    let mut out = Vec::new();
    if !bytes.windows(7).any(|w| w == b"[DATA]\n") { return out; }
    let p = split(bytes);
    let d = &p.data;
    let mut sites = Vec::new();
    let mut i = 0;
    while i + 4 < d.len() && sites.len() < 24 {
        if &d[i..i + 4] == b"{*}[" {
            let s = i + 4;
            let mut e = s;
            while e < d.len() && d[e].is_ascii_digit() { e += 1; }
            if e > s && e < d.len() && d[e] == b']' { sites.push((s, e)); }
            i = e;
        } else { i += 1; }
    }
    for (s, e) in sites {
        for rep in ["0", "1", "9", "4000000000", "-1"] {
            // same length is not needed: the [POSITION] ranges are rewritten? no — keep the byte count by padding the tree text
            let old_len = e - s;
            let mut nd = d[..s].to_vec();
            nd.extend_from_slice(rep.as_bytes());
            nd.extend_from_slice(&d[e..]);
            // keep every later byte offset valid: pad or trim blanks right after the closing bracket when possible
            if rep.len() != old_len { continue; }
            out.push((join(&Parts { head: p.head.clone(), data: nd }), format!("tree-state:{}", rep)));
        }
    }
    out
}

pub fn gen(seed: u64, thorough: bool) {
    let mut rng = Rng::new(seed);
    let src = Sources::new();
    let bundled = std::fs::read(BUNDLED_VOICE).unwrap();
    let nv = if thorough { 60 } else { 8 };
    let mut bases: Vec<Vec<u8>> = Vec::new();
    for i in 0..nv {
        let cfg = VoiceCfg { nstream: rng.range(2, 3), stage: if i % 3 == 0 { 1 } else { 0 }, nstate: rng.range(1, 4), max_leaves: 4 };
        bases.push(VoiceSpec::random(&mut rng, &cfg, &src.pool).to_bytes());
    }
    let n = if thorough { 30000 } else { 700 };
    let dir = format!("{}/voices", work_dir());
    let _ = std::fs::create_dir_all(&dir);
    // complete enumeration first: every header number of one generated voice x eight replacement values, and of the
    // bundled voice x the two values that make sizes vanish or explode
    let mut fixed: Vec<(Vec<u8>, String)> = enumerate_number_faults(&bases[0], &[("0", "zero"), ("1", "one"), ("2", "two"), ("4000000000", "huge"),
        ("99999999999999999999999999", "overflow"), ("-5", "negative"), ("abc", "text"), ("", "empty"), ("５", "fullwidth-digit"), ("é1", "accent-first")]);
    // every braced tree of two generated voices with its node lines blanked, one at a time
    for b in bases.iter().take(3) {
        let p = split(b);
        for k in 0..12 {
            if let Some(d) = blank_tree_body(&p.data, k) { fixed.push((join(&Parts { head: p.head.clone(), data: d }), "tree-without-nodes".into())); }
        }
    }
    fixed.extend(enumerate_number_faults(&bundled, &[("0", "zero"), ("4000000000", "huge")]));
    // every header key of one generated voice damaged in every single-character way
    fixed.extend(enumerate_key_faults(&bases[1 % bases.len()]));
    // every pair of [GLOBAL] entries of one generated voice damaged together
    fixed.extend(enumerate_global_pairs(&bases[2 % bases.len()]));
    // the option entries of two generated voices (one mel-cepstral, one LSP) damaged one at a time
    for b in bases.iter().take(4) { fixed.extend(enumerate_tree_state_faults(b)); }
    fixed.extend(enumerate_option_faults(&bases[0]));
    fixed.extend(enumerate_option_faults(&bases[1 % bases.len()]));
    let nfixed = fixed.len();
    for i in 0..(nfixed + n) {
        let (bytes, kind) = if i < nfixed { fixed[i].clone() } else {
            let use_bundled = i % 40 == 39;
            let base: &Vec<u8> = if use_bundled { &bundled } else { &bases[rng.below(bases.len())] };
            let (mut bytes, mut kind) = fault(&mut rng, base);
            if rng.chance(0.25) {
                let (b2, k2) = fault(&mut rng, &bytes);
                bytes = b2;
                kind = format!("{}+{}", kind, k2);
            }
            (bytes, kind)
        };
        // keep only small files on disk for the Lean reader; large ones are checked on the implementation only
        let path = format!("{}/C18_{}_{}.htsvoice", dir, seed, i);
        let small = bytes.len() < 200_000;
        if small {
            std::fs::write(&path, &bytes).unwrap();
        }
        let tmp = format!("{}/C18_cur_{}.htsvoice", dir, std::process::id());
        std::fs::write(&tmp, &bytes).unwrap();
        eprintln!("BEGIN case {} kind {}", i, kind);
        let t0 = std::time::Instant::now();
        let r = catch(std::panic::AssertUnwindSafe(|| Engine::load(&[&tmp]).map(|e| {
            (e.voices.global_metadata().num_states, e.voices.global_metadata().num_streams, e.condition.get_sampling_frequency())
        })));
        let ms = t0.elapsed().as_millis();
        let _ = std::fs::remove_file(&tmp);
        let mut line = format!("htsf {} {}", if small { path.clone() } else { "-".to_string() }, esc(&kind));
        match r {
            Ok(Ok((a, b, c))) => { push_s(&mut line, "ok"); push_u(&mut line, a); push_u(&mut line, b); push_u(&mut line, c); }
            Ok(Err(e)) => { push_s(&mut line, "err"); push_s(&mut line, &esc(&format!("{e}").chars().take(60).collect::<String>())); }
            Err(site) => { push_s(&mut line, "panic"); push_s(&mut line, &esc(&site)); }
        }
        push_u(&mut line, ms as usize);
        println!("{}", line);
    }
}
