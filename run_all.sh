#!/bin/sh
# Run every claimed check (quick tier by default) and summarise; evidence/*.json is rewritten.
cd "$(dirname "$0")"
TIER=${1:-quick}
for id in $(python3 -c "import json;print(' '.join(c['property_id'] for c in json.load(open('MANIFEST.json'))['checks']))"); do
  start=$(date +%s)
  out=$(./check $id --tier $TIER 2>&1 | tail -3)
  rc=$?
  echo "$id rc=$rc $(( $(date +%s) - start ))s :: $out"
done
