#!/bin/sh
# verify_seed.sh <Cxx> <worktree> : confirm a seeded change myself, then store it under /verif/seeded/<name>
# (1) with the change: crate builds, lib tests 30 passed / 2 failed, demo FAILS; (2) without: demo PASSES.
id=$1; wt=$2; name=${3:-$id}
export CARGO_NET_OFFLINE=true
cd "$wt" || exit 2
feat=""
grep -q "verif_parameters" tests/demo_$id.rs 2>/dev/null && feat="--features verif-hooks"
git apply -R _deliver/patch.diff 2>/dev/null; git apply _deliver/patch.diff || { echo "$id: patch does not apply"; exit 1; }
lib_with=$(cargo test --lib --offline 2>&1 | grep 'test result' | head -1)
demo_with=$(cargo test $feat --test demo_$id --offline 2>&1 | grep 'test result' | head -1)
git apply -R _deliver/patch.diff
demo_without=$(cargo test $feat --test demo_$id --offline 2>&1 | grep 'test result' | head -1)
git apply _deliver/patch.diff
echo "$id lib_with=[$lib_with] demo_with=[$demo_with] demo_without=[$demo_without]"
case "$lib_with" in *"30 passed; 2 failed"*) ;; *) echo "$id: REJECT lib tests"; exit 1;; esac
case "$demo_with" in *FAILED*) ;; *) echo "$id: REJECT demo does not fail with the change"; exit 1;; esac
case "$demo_without" in *"test result: ok"*) ;; *) echo "$id: REJECT demo does not pass without the change"; exit 1;; esac
d=/verif/seeded/$name
mkdir -p $d
cp _deliver/patch.diff $d/patch.diff
cp tests/demo_$id.rs $d/demo_$id.rs
cp _deliver/NOTES.md $d/NOTES.md 2>/dev/null
printf '%s\n' "$lib_with" "$demo_with" "$demo_without" > $d/verified.txt
echo "$id: ACCEPTED -> $d"
