#!/bin/sh
# cleanseeds.sh [seeds...] — to be started with `vp run --with-repo -- tools/cleanseeds.sh 2 3 4`: every quick check on an untouched
# snapshot of the repository under other generator seeds; any line that is not OK is a false alarm (or a finding) to be examined.
set -e
[ -n "$VP_RUN_REPO" ] || { echo "needs vp run --with-repo"; exit 2; }
sed -i "s#path = \"/repo\"#path = \"$VP_RUN_REPO\"#" harness/Cargo.toml
./setup.sh > setup.log 2>&1 || { tail -20 setup.log; exit 2; }
set +e
for seed in ${@:-2 3 4}; do
  for id in $(python3 -c "import json;print(' '.join(c['property_id'] for c in json.load(open('MANIFEST.json'))['checks']))"); do
    out=$(VERIF_SEED=$seed ./check $id --tier quick 2>&1 | grep -E "^(VIOLATION|OK)" | head -1 | cut -c1-140)
    case "$out" in OK*) ;; *) echo "NOT-OK seed=$seed $id :: $out";; esac
  done
  echo "seed $seed :: done"
done
