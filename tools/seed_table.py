#!/usr/bin/env python3
"""Print the markdown table of seeded changes (seeded/*/meta.json + result_quick.json)."""
import json, os, glob
root = os.path.dirname(os.path.dirname(os.path.abspath(__file__)))
rows = []
for d in sorted(x for x in glob.glob(os.path.join(root, "seeded", "*")) if os.path.isdir(x)):
    m = json.load(open(os.path.join(d, "meta.json")))
    res = {}
    for f in glob.glob(os.path.join(d, "result_*.json")):
        r = json.load(open(f))
        for p, v in r["results"].items():
            line = next((l for l in v["lines"] if l.startswith("VIOLATION")), (v["lines"] or ["?"])[-1])
            kind = "caught (concrete input)" if line.startswith("VIOLATION") and "no-failing-input-found" not in line else \
                   "caught (no-failing-input-found)" if line.startswith("VIOLATION") else "MISSED"
            res[p] = kind
    caught = "; ".join(f"{p}: {k}" for p, k in sorted(res.items())) or "not run"
    rows.append((os.path.basename(d), m["property"], m["file"], m["what"], m["needs"], caught))
print("| seed | property | file | change | needs to manifest | quick check |")
print("|---|---|---|---|---|---|")
for r in rows:
    print("| " + " | ".join(x.replace("|", "/") for x in r) + " |")
