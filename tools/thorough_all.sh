#!/bin/sh
# thorough_all.sh — to be started with `vp run --with-repo -- tools/thorough_all.sh`: the thorough tier of every check against an
# untouched snapshot of the repository; any VIOLATION here is either a finding or a false alarm to be examined before it is believed.
set -e
[ -n "$VP_RUN_REPO" ] || { echo "needs vp run --with-repo"; exit 2; }
sed -i "s#path = \"/repo\"#path = \"$VP_RUN_REPO\"#" harness/Cargo.toml
./setup.sh > setup.log 2>&1 || { tail -20 setup.log; exit 2; }
set +e
for id in ${1:-$(python3 -c "import json;print(' '.join(c['property_id'] for c in json.load(open('MANIFEST.json'))['checks']))")}; do
  start=$(date +%s)
  out=$(./check $id --tier thorough 2>&1 | grep -E "^(VIOLATION|OK|KNOWN)" | cut -c1-300)
  echo "$id $(( $(date +%s) - start ))s :: $out"
done
