#!/bin/sh
# patchsweep.sh <dir-with-*.diff>  — to be started with `vp run --with-repo -- tools/patchsweep.sh /abs/dir`:
# each patch (a behaviour-preserving refactor) is applied to the repository snapshot, ALL quick checks run from this snapshot
# of /verif, and the snapshot is restored.  Any VIOLATION here is a false alarm of the machinery.  Never touches /repo or /verif.
set -e
[ -n "$VP_RUN_REPO" ] || { echo "needs vp run --with-repo"; exit 2; }
dir=$1
sed -i "s#path = \"/repo\"#path = \"$VP_RUN_REPO\"#" harness/Cargo.toml
./setup.sh > setup.log 2>&1 || { tail -20 setup.log; exit 2; }
set +e
for p in "$dir"/*.diff; do
  name=$(basename $p .diff)
  if git -C "$VP_RUN_REPO" apply "$p" 2>/dev/null; then
    for id in $(python3 -c "import json;print(' '.join(c['property_id'] for c in json.load(open('MANIFEST.json'))['checks']))"); do
      out=$(./check $id --tier quick 2>&1 | grep -E "^(VIOLATION|OK)" | head -1 | cut -c1-140)
      case "$out" in OK*) ;; *) echo "FALSE-ALARM? $name $id :: $out"; cp replays/$(echo "$out" | sed -n 's#.*replays/\([^ ]*\).*#\1#p') "$dir/${name}_${id}_replay.json" 2>/dev/null;; esac
    done
    git -C "$VP_RUN_REPO" checkout -- .
    echo "$name :: done"
  else
    echo "$name :: patch does not apply"
  fi
done
