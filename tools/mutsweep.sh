#!/bin/sh
# mutsweep.sh <n> <seed> [files]  — to be started with `vp run --with-repo -- tools/mutsweep.sh n seed`:
# points the snapshot's harness at the repository snapshot ($VP_RUN_REPO), builds the framework there and runs
# tools/mutate.py on the copies.  Never touches /repo or /verif.
set -e
[ -n "$VP_RUN_REPO" ] || { echo "needs vp run --with-repo"; exit 2; }
sed -i "s#path = \"/repo\"#path = \"$VP_RUN_REPO\"#" harness/Cargo.toml
./setup.sh > setup.log 2>&1 || { tail -20 setup.log; exit 2; }
if [ -n "$3" ]; then
  python3 tools/mutate.py "$VP_RUN_REPO" . "$1" "$2" --files "$3"
else
  python3 tools/mutate.py "$VP_RUN_REPO" . "$1" "$2"
fi
