#!/usr/bin/env python3
"""mk_meta.py <seed-id> <property> <file> <what> <needs> [round-note]"""
import json, os, sys
k, prop, file, what, needs = sys.argv[1:6]
rnd = sys.argv[6] if len(sys.argv) > 6 else 'later round: told which mechanisms earlier seeds used, to force a different one'
d = f'/verif/seeded/{k}'
v = open(os.path.join(d, 'verified.txt')).read().splitlines()
m = dict(property=prop, file=file, what=what, needs=needs, demonstration=f'demo_{k}.rs',
         author=f'independent sub-agent ({rnd})',
         confirmed_by_me=dict(lib_tests_with_change=v[0], demo_with_change=v[1], demo_without_change=v[2], how=f'tools/verify_seed.sh {k} /tmp/wt_{k}'))
json.dump(m, open(os.path.join(d, 'meta.json'), 'w'), indent=1)
