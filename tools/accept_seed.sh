#!/bin/sh
# accept_seed.sh <sid> <prop> <file> <what> <needs> : verify a sub-agent's seeded change myself, store it, drop the worktree, run the quick check
sid=$1; prop=$2
cd "$(dirname "$0")/.."
tools/verify_seed.sh $sid /tmp/wt_$sid 2>&1 | tail -2
[ -f seeded/$sid/verified.txt ] || exit 1
tools/mk_meta.py $sid $prop "$3" "$4" "$5" "wave 12-13: told which mechanisms earlier seeds used and pointed at routes, histories, object reuse and value classes"
git -C /repo worktree remove --force /tmp/wt_$sid
tools/try_seed.py seeded/$sid
