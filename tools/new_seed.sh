#!/bin/sh
# new_seed.sh <seed-id> <property-id> : scratch worktree /tmp/wt_<seed-id> + prompt /tmp/mutprompt_<seed-id>.txt whose note lists
# the mechanisms earlier seeds of that property used (so the new author must find a different one).
sid=$1; pid=$2
cd "$(dirname "$0")/.."
git -C /repo worktree add --detach /tmp/wt_$sid >/dev/null 2>&1 || { echo "worktree failed"; exit 1; }
mkdir -p /tmp/wt_$sid/_deliver
note=$(python3 - "$pid" <<'PY'
import json,glob,sys
pid=sys.argv[1]
ms=[]
for f in sorted(glob.glob('/verif/seeded/*/meta.json')):
    m=json.load(open(f))
    if m['property']==pid: ms.append(m['file']+': '+m['what'])
print("Earlier authors already used the following mechanisms for this property; yours must be DIFFERENT in both the code site and the kind of trigger (prefer one that needs a multi-step history, an unusual-but-valid configuration, or two cooperating edits; also consider: a second public route to the same result that bypasses your edit or is the only one affected, one object reused for several calls, the order of setter / loader / constructor calls, clones, rarely used public constructors and stage-level public APIs used directly, value classes such as negative zero, exact ties, equal neighbours, empty or length-one collections; and, new in this round: integer boundaries (usize subtraction, f64 -> usize casts, rounding at .5, first / last element of a loop), the interaction of two in-range settings that are each harmless alone, state carried from one frame / label / call to the next, utterances of one label or of several hundred, voices whose streams differ in shape (vector length, window count, number of states, tree depth), error-path plumbing (which error, whether state was already modified), and quantities that are usually equal in ordinary use but need not be (sampling rate vs. the voice's, frame period vs. the voice's, number of windows vs. band width, number of voices vs. number of weights); and, new in THIS round: effects that only show over long runs (a counter / phase / accumulator drifting over hundreds of frames, more than 65536 samples, many identical labels in a row), confusion between label-level, state-level and frame-level indices, numeric edge values (subnormals, exact powers of two, huge-but-finite values, a*b/b != a), voice features the bundled voice does not have (question patterns using '?', several patterns per question, duplicate question names across models, width-5 windows, one-state voices, seven-state voices, trees of depth 1), and behaviour that differs between the first and the later frames / labels / calls); and, new in the LATEST round: hand-written or derived trait impls that skip or mishandle a field (Clone, PartialEq, Default, Serialize/Deserialize round trips of the public structs), conversions between number types (usize <-> f64, f32 -> f64, i64 parsing), ordering / sort stability / tie-breaking, shared helpers used from two call sites with different expectations, and public constructors or setters of the stage-level structs that a direct user of the stage API would call)): " + " | ".join(ms))
PY
)
python3 tools/mk_mutprompt.py $sid $pid "$note"
