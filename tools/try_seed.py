#!/usr/bin/env python3
"""try_seed.py <seeded/ID> [--tier quick|thorough] [--props C01,C02]
Apply a seeded change to /repo, run the check(s) of the property it breaks, undo it, and record the
outcome in <seeded/ID>/result.json. /repo is restored with `git checkout -- .` whatever happens."""
import sys, os, json, subprocess, time
d = os.path.abspath(sys.argv[1])
tier = "quick"
props = None
a = sys.argv[2:]
while a:
    if a[0] == "--tier": tier = a[1]; a = a[2:]
    elif a[0] == "--props": props = a[1].split(","); a = a[2:]
    else: a = a[1:]
meta = json.load(open(os.path.join(d, "meta.json")))
props = props or [meta["property"]]
root = os.path.dirname(os.path.dirname(os.path.abspath(__file__)))
assert subprocess.run(["git", "-C", "/repo", "status", "--porcelain", "--untracked-files=no"], capture_output=True, text=True).stdout.strip() == "", "/repo not clean"
res = {}
try:
    subprocess.run(["git", "-C", "/repo", "apply", os.path.join(d, "patch.diff")], check=True)
    for p in props:
        t0 = time.time()
        r = subprocess.run([os.path.join(root, "check"), p, "--tier", tier], capture_output=True, text=True, cwd=root)
        lines = [l for l in r.stdout.splitlines() if l.startswith(("VIOLATION", "OK", "KNOWN"))]
        res[p] = dict(rc=r.returncode, seconds=round(time.time() - t0, 1), lines=lines[:5])
        print(p, r.returncode, lines[:3])
finally:
    subprocess.run(["git", "-C", "/repo", "checkout", "--", "."], check=True)
    # the evidence files these runs rewrote describe a tree with a seeded change: put the committed ones back
    for p in props:
        subprocess.run(["git", "-C", root, "checkout", "--", f"evidence/{p}.json"])
json.dump(dict(tier=tier, results=res, at=time.strftime("%Y-%m-%dT%H:%M:%S")), open(os.path.join(d, f"result_{tier}.json"), "w"), indent=1)
