#!/bin/sh
# seedsweep.sh  — to be started with `vp run --with-repo -- tools/seedsweep.sh`: every seeded change is applied to the
# repository snapshot ($VP_RUN_REPO), the quick check of its property runs from this snapshot of /verif, and the
# snapshot is restored.  Never touches /repo or /verif.  One line per seed.
set -e
[ -n "$VP_RUN_REPO" ] || { echo "needs vp run --with-repo"; exit 2; }
sed -i "s#path = \"/repo\"#path = \"$VP_RUN_REPO\"#" harness/Cargo.toml
./setup.sh > setup.log 2>&1 || { tail -20 setup.log; exit 2; }
set +e
for d in seeded/*/; do
  id=$(basename $d)
  prop=$(python3 -c "import json;print(json.load(open('$d/meta.json'))['property'])")
  if git -C "$VP_RUN_REPO" apply "$(pwd)/$d/patch.diff" 2>/dev/null; then
    out=$(./check $prop --tier quick 2>&1 | grep -E "^(VIOLATION|OK)" | head -1 | cut -c1-120)
    git -C "$VP_RUN_REPO" checkout -- . 
    echo "$id $prop :: $out"
  else
    echo "$id $prop :: patch does not apply"
  fi
done
