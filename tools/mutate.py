#!/usr/bin/env python3
"""mutate.py <repo> <verif> <n> <seed> [--files a.rs,b.rs] : systematic single-token mutants of the library source.

For each sampled mutant: apply it to <repo>, build, run the pinned lib tests (baseline: 30 passed / 2 failed); a
mutant the tests kill or that does not compile is skipped. Otherwise run the quick checks of the properties mapped
to the file and record which check (if any) reports a VIOLATION. Survivors are printed at the end: each is either
an equivalent mutant or a hole in the checks. Works on copies (vp run --with-repo), never on /repo itself.
"""
import json, os, random, re, subprocess, sys, time

repo, verif, n, seed = sys.argv[1], sys.argv[2], int(sys.argv[3]), int(sys.argv[4])
only = None
if '--files' in sys.argv:
    only = sys.argv[sys.argv.index('--files') + 1].split(',')
ENV = dict(os.environ, CARGO_NET_OFFLINE='true')

FILE_PROPS = {
    'src/duration.rs': ['C08', 'C09', 'C01'],
    'src/label.rs': ['C17', 'C09'],
    'src/speech.rs': ['C02', 'C01'],
    'src/engine.rs': ['C20', 'C19', 'C11', 'C15', 'C16', 'C01', 'C03'],
    'src/mlpg_adjust/mod.rs': ['C05', 'C11', 'C12', 'C01'],
    'src/mlpg_adjust/mlpg.rs': ['C05', 'C12', 'C01'],
    'src/mlpg_adjust/mask.rs': ['C05', 'C11'],
    'src/model/mod.rs': ['C10', 'C12', 'C04', 'C01'],
    'src/model/mean_vari.rs': ['C05', 'C10'],
    'src/model/stream_parameter.rs': ['C15', 'C11'],
    'src/model/interporation_weight.rs': ['C19', 'C10'],
    'src/model/voice_set.rs': ['C19', 'C10'],
    'src/model/voice/model.rs': ['C04', 'C10'],
    'src/model/voice/tree.rs': ['C04'],
    'src/model/voice/window.rs': ['C05', 'C04'],
    'src/model/voice/question.rs': ['C04'],
    'src/model/parser/mod.rs': ['C04', 'C18'],
    'src/model/parser/base.rs': ['C04', 'C18'],
    'src/model/parser/window.rs': ['C04', 'C18'],
    'src/model/parser/model/mod.rs': ['C04', 'C18'],
    'src/model/parser/model/tree.rs': ['C04', 'C18'],
    'src/model/parser/model/question.rs': ['C04', 'C18'],
    'src/model/parser/header/mod.rs': ['C04', 'C18'],
    'src/model/parser/header/de.rs': ['C04', 'C18'],
    'src/vocoder/mod.rs': ['C06', 'C13', 'C16', 'C07', 'C02', 'C01'],
    'src/vocoder/excitation.rs': ['C07'],
    'src/vocoder/cepstrum.rs': ['C06', 'C14', 'C13'],
    'src/vocoder/coefficients.rs': ['C06', 'C14'],
    'src/vocoder/generalized.rs': ['C13'],
    'src/vocoder/lsp.rs': ['C13', 'C01'],
    'src/vocoder/mglsa.rs': ['C13'],
    'src/vocoder/mlsa/mod.rs': ['C06', 'C14'],
    'src/vocoder/mlsa/fir.rs': ['C06'],
    'src/vocoder/stage.rs': ['C13', 'C06'],
}
OPS = [
    (r' < ', ' <= '), (r' <= ', ' < '), (r' > ', ' >= '), (r' >= ', ' > '), (r' == ', ' != '), (r' != ', ' == '),
    (r' \+ ', ' - '), (r' - ', ' + '), (r' \* ', ' / '), (r' && ', ' || '), (r' \|\| ', ' && '),
    (r' \+= ', ' -= '), (r' -= ', ' += '), (r' \*= ', ' /= '),
    (r'\b0\.5\b', '0.25'), (r'\b1\.0\b', '2.0'), (r'\b2\.0\b', '1.0'), (r' \+ 1\b', ' + 2'), (r' - 1\b', ' - 2'),
    (r'\.min\(', '.max('), (r'\.max\(', '.min('), (r'\btrue\b', 'false'), (r'\bfalse\b', 'true'),
    (r'\.rev\(\)', ''), (r'\.skip\(1\)', '.skip(0)'), (r'\.abs\(\)', ''),
]

def candidate_lines(path):
    out = []
    text = open(os.path.join(repo, path)).read().split('\n')
    in_test = False
    for i, line in enumerate(text):
        s = line.strip()
        if s.startswith('#[cfg(test)]'):
            in_test = True
        if in_test:
            continue
        if not s or s.startswith('//') or s.startswith('use ') or s.startswith('#[') or s.startswith('pub use') \
           or 'assert' in s or 'panic!' in s or 'expect(' in s or 'format!' in s or '#[error' in s or s.startswith('///'):
            continue
        code = line.split('//')[0]
        for k, (pat, rep) in enumerate(OPS):
            for m in re.finditer(pat, code):
                # skip generics / lifetimes / arrows
                ctx = code[max(0, m.start() - 2):m.end() + 2]
                if '->' in ctx or '=>' in ctx or "'" in ctx:
                    continue
                out.append((path, i, m.start(), m.end(), k))
    return out

def run(cmd, cwd, timeout=1800):
    try:
        p = subprocess.run(cmd, cwd=cwd, env=ENV, shell=True, capture_output=True, text=True, timeout=timeout)
        return p.returncode, p.stdout + p.stderr
    except subprocess.TimeoutExpired:
        return -9, 'timeout'

files = [f for f in FILE_PROPS if os.path.exists(os.path.join(repo, f)) and (only is None or f in only)]
cands = []
for f in files:
    cands.extend(candidate_lines(f))
rng = random.Random(seed)
rng.shuffle(cands)
print(f'{len(cands)} candidate mutation sites in {len(files)} files; sampling {n}', flush=True)
results = []
done = 0
for (path, li, a, b, k) in cands:
    if done >= n:
        break
    full = os.path.join(repo, path)
    orig = open(full).read()
    lines = orig.split('\n')
    new_line = lines[li][:a] + re.sub(OPS[k][0], OPS[k][1], lines[li][a:b], count=1) + lines[li][b:]
    if new_line == lines[li]:
        continue
    mutated = lines[:]
    mutated[li] = new_line
    open(full, 'w').write('\n'.join(mutated))
    rec = dict(file=path, line=li + 1, before=lines[li].strip(), after=new_line.strip())
    try:
        rc, out = run('cargo test --lib --offline 2>&1 | grep "test result" | tail -1', repo)
        if '30 passed; 2 failed' not in out:
            rec['status'] = 'killed-by-tests-or-build'
            continue
        done += 1
        killed_by = None
        for prop in FILE_PROPS[path]:
            rc, out = run(f'./check {prop} --tier quick 2>&1 | grep -E "^(VIOLATION|OK)" | head -3', verif)
            if 'VIOLATION' in out:
                killed_by = prop
                rec['line_out'] = out.strip().split('\n')[0][:200]
                break
        rec['status'] = f'killed:{killed_by}' if killed_by else 'SURVIVED'
        print(json.dumps(rec), flush=True)
    finally:
        open(full, 'w').write(orig)
        results.append(rec)
surv = [r for r in results if r.get('status') == 'SURVIVED']
print(f'== {done} mutants passed the pinned tests; {done - len(surv)} caught by the checks; {len(surv)} survived')
for r in surv:
    print('SURVIVOR', json.dumps(r))
