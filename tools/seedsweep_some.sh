#!/bin/sh
# seedsweep_some.sh <glob> — like seedsweep.sh for the seeds whose directory name matches the shell pattern (e.g. '*[ij]')
set -e
[ -n "$VP_RUN_REPO" ] || { echo "needs vp run --with-repo"; exit 2; }
pat=${1:-*}
sed -i "s#path = \"/repo\"#path = \"$VP_RUN_REPO\"#" harness/Cargo.toml
./setup.sh > setup.log 2>&1 || { tail -20 setup.log; exit 2; }
set +e
for d in seeded/$pat/; do
  id=$(basename $d)
  prop=$(python3 -c "import json;print(json.load(open('$d/meta.json'))['property'])")
  if git -C "$VP_RUN_REPO" apply "$(pwd)/$d/patch.diff" 2>/dev/null; then
    out=$(./check $prop --tier quick 2>&1 | grep -E "^(VIOLATION|OK)" | head -1 | cut -c1-120)
    git -C "$VP_RUN_REPO" checkout -- .
    echo "$id $prop :: $out"
  else
    echo "$id $prop :: patch does not apply"
  fi
done
