#!/bin/sh
# Re-run every seeded change against the current /repo and /verif (quick tier); prints one line per seed.
cd "$(dirname "$0")/.."
for d in seeded/*/; do
  id=$(basename $d)
  if git -C /repo apply --check "$(pwd)/$d/patch.diff" 2>/dev/null; then
    ./tools/try_seed.py $d 2>&1 | tail -1 | sed "s/^/$id: /"
  else
    echo "$id: patch no longer applies to /repo HEAD"
  fi
done
