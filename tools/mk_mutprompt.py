#!/usr/bin/env python3
"""mk_mutprompt.py <seed-id> <property-id> [note]  -> /tmp/mutprompt_<seed-id>.txt
Prompt for an independent sub-agent that authors one seeded change: it gets the property text and a scratch
worktree, nothing from /verif."""
import json, sys
sid, pid = sys.argv[1], sys.argv[2]
note = sys.argv[3] if len(sys.argv) > 3 else ""
prop = next(json.loads(l) for l in open('/verif/properties.jsonl') if json.loads(l)['id'] == pid)
tmpl = open('/tmp/mutprompt_C02.txt').read() if False else None
W = f"/tmp/wt_{sid}"
text = f"""You are testing a verification harness by authoring one realistic, subtle bug ("seeded change") in a Rust library. Work ONLY inside the directory {W}, which is a scratch git worktree of the crate `jbonsai` (a Rust rewrite of the HTS speech synthesis engine: it parses .htsvoice models and synthesizes waveforms from full-context labels). Do not read or touch /verif, /repo, or any other /tmp/wt_* directory; do not commit anything. There is no network: always run cargo with `CARGO_NET_OFFLINE=true cargo ... --offline`.

The semantic property your change must BREAK:

---
{prop['title']}

{prop['statement']}

Quantified over: {prop['quantifier']['text']}

---
{('IMPORTANT: ' + note + chr(10)) if note else ''}
Requirements for the change:
1. It edits the library source under {W}/src only (not tests, not Cargo.toml), is small (a few lines), and looks like a plausible mistake or "optimisation" a developer could make.
2. The crate must still compile and the existing unit tests must still give exactly the baseline result: `cd {W} && CARGO_NET_OFFLINE=true cargo test --lib --offline` → `30 passed; 2 failed` (the two failures `model::tests::multiple_models` and `tests::bonsai_multi` are pre-existing: their voice files are not shipped; every other test must pass). Check this BEFORE and AFTER your change.
3. The breakage must need something specific to manifest — a particular input class, a multi-step sequence of calls, an unusual but in-range configuration value, a particular size/boundary, or two cooperating sites that each look fine alone — NOT something every ordinary call would expose at once (for instance it must not change the waveform of the default synthesis of an ordinary sentence, since the pinned tests check that).
4. Provide a demonstration that FAILS with your change and PASSES without it: an integration test file {W}/tests/demo_{sid}.rs using only the crate's public API (the bundled voice is at models/hts_voice_nitech_jp_atr503_m001-1.05/nitech_jp_atr503_m001.htsvoice; sample labels are in src/lib.rs tests and examples/genji/genji.lab (label = last space-separated token of each line); public modules include jbonsai::engine, jbonsai::duration, jbonsai::label, jbonsai::mlpg_adjust, jbonsai::model, jbonsai::speech, jbonsai::vocoder). Run it both ways (save `git diff -- src > {W}/_deliver/patch.diff`, revert with `git apply -R`, re-apply with `git apply`; do NOT use `git stash` — the stash is shared between worktrees) with `CARGO_NET_OFFLINE=true cargo test --test demo_{sid} --offline` and record the outputs.

Deliverables, in {W}/_deliver/ :
  - patch.diff : `git diff -- src` of your change (must apply with `git apply` on a clean checkout of the same commit)
  - demo_{sid}.rs : a copy of the demonstration test
  - NOTES.md : which clause of the property is broken, what exactly is needed for the breakage to manifest, the commands you ran and their results (baseline lib tests before/after, demo with/without the change).

Leave the worktree with your src change APPLIED and the demo test file in tests/. Be careful and actually run everything; report at the end a 5-line summary (file changed, nature of the change, trigger condition, lib test result, demo result with/without).
"""
open(f'/tmp/mutprompt_{sid}.txt', 'w').write(text)
print(f'/tmp/mutprompt_{sid}.txt')
