"""Per-property configuration for ./check (rules, clauses decided as theorem vs test, assumptions)."""

TIMEOUT = {"quick": 1500, "thorough": 6 * 3600}

TRUSTED_BASE = [
    "Lean 4.33.0 kernel (thorough tier: re-checked by leanchecker)",
    "axioms allowed: propext, Classical.choice, Quot.sound (audited per theorem with collectAxioms)",
    "Mathlib v4.33.0 as installed",
    "hand-written Lean model Jb/Model/* — tied to /repo by this run's correspondence suite",
    "Rust harness /verif/harness (generators, canonicalisation) and driver I/O code",
    "Lean Float runtime + glibc libm for executing the model (not for theorems)",
]

ASSUMPTIONS = [
    "theorems are about exact arithmetic over a linearly ordered field; IEEE-754 rounding is outside them",
    "model faithfulness is sampled (differential testing with the stated generators), not proved",
]

PROPS = {
    "C20": dict(
        rule="random setter histories (0..8 ops) on a freshly loaded engine; arguments drawn from "
             "boundary values (0, -0, bounds +-1ulp, subnormals, +-1e300, f64::MAX, usize::MAX) and "
             "uniform/log-uniform ranges; a class is (setter, region of its argument: below/lo/inside/hi/above); "
             "a case is non-trivial when it contains at least one setter call",
        theorem_clauses=["get(set x) = clamp(x) for all 10 setters", "frame: other getters unchanged",
                         "idempotence / last-wins / commutation", "fresh defaults", "dB round trip (given ln∘exp=id)"],
        test_clauses=["bit-level equality of stored values on f64", "header values reach the defaults (load path)"],
        assumptions=["setter arguments finite (the property's quantifier)"],
    ),
    "C02": dict(
        rule="caller histories over {generate_step with buffer fperiod..3*fperiod, synthesized_frames, generate_all}: "
             "exhaustive up to length 4 (thorough 5) on generators of 0..3 frames over the alphabet {step fp, step fp+1, step 3fp, query, finish}; "
             "random histories on 0..12-frame random trajectories through the real Vocoder (stage 0, odd low-pass orders, voiced/unvoiced, beta 0/0.3); "
             "real utterances of the bundled voice with overridden frame period. A class is (frame-count bucket, where finish happens: "
             "fresh/mid/exhausted/none, number of accepted steps, number of exhausted steps); non-trivial = at least one accepted step and one op after it",
        theorem_clauses=["history refinement to the cursor machine over the one-shot waveform (all histories, all buffer sizes)",
                         "exhausted step returns 0 and leaves the buffer untouched", "generate_all returns the not-yet-produced suffix",
                         "chunk concatenation = one-shot", "pinned-commit defect as a theorem about finish … false",
                         "LIBRARY LEVEL (C02Lib): every history of step / query / finish on the generator Engine::generator builds from the voice files is the cursor specification over the waveform synthesize returns"],
        test_clauses=["the real Vocoder yields exactly fperiod samples per frame and is deterministic (bitwise comparison with the one-shot waveform)"],
        assumptions=["abstract vocoder: one frame yields fperiod samples (checked on the real vocoder by the correspondence)"],
    ),
    "C08": dict(
        rule="DurationEstimator::new(ps,1).create(s) on generated duration models (1..200 states; means 0.2..60 log-uniform, variances 1e-3..400; "
             "a tie family with three repeated Gaussians; means on x.5 rounding ties) and on the bundled voice's duration Gaussians for corpus labels; "
             "speeds log-uniform in [0.1,50], exactly 1, fixed ladder, and speeds making F1/s a rounding tie; each case runs speed 1, s and s2. "
             "class = (branch taken at speed s: speed1/floor/exact/up/down, size bucket); non-trivial = speed != 1 and total differs from the speed-1 total",
        theorem_clauses=["speed 1: max(1, round(mean)) per state", "create never panics, greedy loop terminates within |target-sum| steps",
                         "length and >=1 per state", "total = max(round(F1/s), n)", "total non-increasing in s", "pipeline level: at speed s synthesis returns frame_period x max(round(F1/s), #states) samples",
                         "LIBRARY LEVEL (C08Lib): for a well-formed voice set and a history ending in set_speed(s), synthesize returns frame_period x max(round(F1/max(s,1e-6)), labels x states) samples, every state >= 1 frame"],
        test_clauses=["f64 rounding of F1/s and of the rho-adjusted means (whole vectors compared exactly, pins the greedy choice)"],
        assumptions=["variances non-zero (the property's range)"],
    ),
    "C09": dict(
        rule="annotations over 1..8 labels x 1..7 states: exhaustive over {none,start,end,both} per label for <=3 labels (thorough 4), random beyond; "
             "boundaries from scaled model durations incl. zero-length labels, groups that cannot fit, non-monotone ends, rounding ties; both the string "
             "route (100 ns units, load_from_strings) and Labels::new with frame values; generated and bundled duration models. "
             "class = (#known ends, #unknown ends (capped 4), tail known/unknown); non-trivial = at least one known and one unknown end",
        theorem_clauses=["Labels::new gap filling = non-sequential spec", "no label vanishes: one duration >=1 per state (repaired tail)",
                         "cumulative law per known end; c + round(e-c) = round(e)", "group that cannot fit gets exactly one frame per state",
                         "pinned-commit defect (trailing labels dropped) as a theorem",
                         "LIBRARY LEVEL: with alignment on the library's durations are createWithAlignment of the interpolated duration model and the caller's times: no label vanishes, cumulative law per known end, frames up to a known end e = round(e) when the group fits"],
        test_clauses=["100 ns -> frame conversion in f64", "exact duration vectors"],
        assumptions=["times finite, known times >= 0 (the property's quantifier)"],
    ),
    "C19": dict(
        rule="(a) voice tuples: 0..3 copies of the bundled voice or of a generated voice (2/3 streams, stage 0..2, 1..5 states), one copy mutated in "
             "exactly one metadata field (sampling rate, frame period, states, stream count, vector length, window count, MSD flag, GV flag, option, "
             "stream list, stream type) or in none; class = (count, mutated field). (b) histories of 1..6 weight updates on engines of 1..4 compatible "
             "generated voices: simplex, vertex, off-simplex summing to 1, wrong length, sum off by 1e-6..2, sum off by 1 ulp, NaN, wrong length AND sum; "
             "after each update all getters are dumped; after the history the waveform is compared bitwise with an engine that only ever saw the accepted "
             "updates; class = (setter, weight kind, result). non-trivial = at least one accepted and one rejected update (histories) / two or more voices (tuples)",
        theorem_clauses=["VoiceSet::new ok iff non-empty and all metadata equal; error kinds", "setter accepted iff |sum-1|<=eps and count = nvoices",
                         "sum checked before length", "accepted update stores exactly the weights, other vectors untouched",
                         "rejected update is a no-op in any history", "lengths invariant through any history", "default = average, itself valid",
                         "LIBRARY LEVEL: a rejected weight update anywhere in a history of updates leaves what synthesize returns unchanged; two weight histories ending in the same vectors synthesize alike"],
        test_clauses=["f64 summation and f64::EPSILON comparison", "synthesis after a rejected update uses the previous weights (bitwise waveform)"],
        assumptions=["metadata compared as canonical text of the fields VoiceSet::new compares"],
    ),
    "C10": dict(
        rule="voice sets of 1..4 compatible generated voices (same metadata seed, different trees and PDFs), identical-voice sets, and the bundled voice "
             "blended with itself; an independent valid weight vector per quantity (duration, parameter i, GV i) drawn from simplex/vertex/off-simplex; "
             "1..3 corpus labels; one case per (quantity, label, state): per-voice Gaussians from each voice's own get_parameter vs Models::duration / "
             "model_stream(i).stream / .gv. class = (quantity, #voices, vertex/identical/blend, msd/plain); non-trivial = >=2 voices, non-vertex weight, "
             "pairwise different selected Gaussians (or the identical-voice law)",
        theorem_clauses=["means and variances are the weighted sums", "voicing weight is the weighted sum", "vertex weights reproduce the first voice exactly",
                         "identical voices with weights summing to 1 reproduce the voice", "each quantity reads only its own weight vector"],
        test_clauses=["rounding of the f64 weighted sum (1e-12 relative)", "which weight vector reaches which quantity in Models (wiring)"],
        assumptions=[],
    ),
    "C05": dict(
        rule="caller-built ModelStreams through MlpgAdjust::new(1.0, 0.5, stream-without-GV).create(&durations): 1..60 states, durations 1..8 (or 1..2), "
             "vector length 1..4, variances in [0.05,3], voicing patterns {all voiced, all unvoiced, random, islands of two states, islands of one state, "
             "random weights} and non-MSD streams, window sets {static; +delta; +delta+delta-delta; width-5; asymmetric [-1,1,0]}. "
             "class = (#windows, max width, voicing class, vector length); non-trivial = a voiced island of >= 2 frames and at least one dynamic window",
        theorem_clauses=["frame -> state assignment by durations", "boundary distances = voiced run lengths; dynamic window ignored iff span touches unvoiced/edge",
                         "fill: NODATA exactly on unvoiced frames", "calc_wuw_and_wum assembles exactly the band of W'U^-1W and W'U^-1 mu",
                         "create's observation sequences carry zero precision where a span leaves the voiced frames (EdgeZero by construction)",
                         "positive definite => every LDL^T pivot positive", "banded LDL^T + substitutions solve A c = r for every length and band width",
                         "solve returns the solution of the dense normal equations", "normal equations with precisions >= 0 imply maximum likelihood",
                         "END TO END: create returns a trajectory on every well-formed stream and each column maximises the log-likelihood over all sequences",
                         "LIBRARY LEVEL: the trajectory Engine::generator hands to the vocoder for a stream without GV is the maximum-likelihood solution for Models::model_stream(j) and the library's durations"],
        test_clauses=["rounding accuracy in f64 (normal-equation residual built from the definition over absolute frames <= 1e-8 of scale)"],
        assumptions=["variances in the property's range (with_ivar's saturation branches are outside it)"],
    ),
    "C07": dict(
        rule="public Vocoder with an all-zero 3-coefficient spectrum (identity filter), rates 8k..96k, frame periods 40..480, 3..14 frames (every 10th case 60 "
             "frames), F0 tracks {constant, one step, voiced/unvoiced switches at constant F0, steps and switches, all unvoiced} with F0 from 20 Hz to rate/2 "
             "incl. exactly integer periods; every third case with an odd low-pass order 1..31 and a random per-frame h, plus two auxiliary runs (h = delta, "
             "h = 0) from which the mixing law is checked. class = (low-pass order bucket, voicing pattern, steps/const, integer/fractional period); "
             "non-trivial = at least one voiced frame",
        theorem_clauses=["pulse fires iff counter+1 > period; height sqrt(period)", "every gap of a constant-F0 stretch is floor(T0) or ceil(T0), = T0 for integer T0", "ring buffer output = convolution of queued contributions: h*pulses + (delta-h)*noise",
                         "start fires at once, counter 1", "linear glide of the period across a frame", "period = rate/exp(clamp lf0), NODATA -> unvoiced",
                         "LCG deviates in [0,1]", "pinned-commit defect (first gap T0-1 for integer T0) as a statement",
                         "unit mean power: over n samples at a constant period the energy of the pulse train is n + c0 - cn, within one period of n; every sample is 0 or sqrt(T0)"],
        test_clauses=["noise mean ~ 0, variance ~ 1 (>= 5000 unvoiced samples)",
                      "pulse heights under glide, mean power over constant stretches"],
        assumptions=["the MLSA filter with zero coefficients is the identity (theorem mlsaDf_zero, C06)"],
    ),
    "C06": dict(
        rule="pulse responses through the public Vocoder (stage 0, one long frame, F0 = 20 Hz, no low-pass): cepstral orders 2..40, alpha in [0,0.6] incl. 0, "
             "random cepstra rescaled so that |sum_{m>=1} c_m cos(m w~)| <= 2, rates 8k..96k, DFT on 33/65/129/257 frequencies. "
             "class = (order bucket, alpha bucket, rate); non-trivial = non-zero cepstrum beyond c0",
        theorem_clauses=["mc2b and b2mc are mutually inverse for every alpha", "zero coefficients: the MLSA cascade is the identity in every state",
                         "c0 -> c0+delta shifts only b0 and multiplies the filter input by exp(delta)", "the MLSA cascade is homogeneous: scaling the excitation scales the response (so the response scales with exp(c0))", "with frozen coefficients the MLSA filter is linear and time-invariant: output = excitation convolved with the pulse response",
                         "transfer function, every alpha: the filter is two cascaded stages, each exactly P(F)/P(-F) of its basic filter (P = the code's degree-5 Pade polynomial), and b0 + F1 + F2 = sum_m c_m z~^-m (the warped cepstrum polynomial)"],
        test_clauses=["|ln|H(e^jw)| - sum c_m cos(m w~)| <= 0.01 neper on every bin (Pade approximation error of a concrete rational function)",
                      "response decayed inside the frame"],
        assumptions=[],
    ),
    "C13": dict(
        rule="pulse responses through the public Vocoder with stage 1..4: LSP orders 2..24 even and odd, alpha in [0,0.6] incl. 0, linear and log gain, "
             "random increasing frequencies with spacing >= pi/(4(order+1)), rates 48k/96k, one frame of rate/20-1 samples; every 4th case with beta>0 "
             "(finite/decaying only). class = (order bucket, parity, stage, alpha, gain kind, beta); spectrum clause evaluated when the truncated tail is < -120 dB",
        theorem_clauses=["repaired lsp2lpc does not read the gain element; head coefficient 1", "gc2gc between equal gamma is truncation",
                         "ignorm inverts gnorm (given the power law)", "MGLSA = cascade of `stage` sections", "gamma = -1/stage", "well-separated frequencies pass the stability check unchanged", "lsp2lpc = coefficients of (P+Q)/2 for every order", "with frozen coefficients the MGLSA cascade is linear and time-invariant: output = excitation convolved with the pulse response", "alpha = 0: the per-frame coefficient chain collapses to [K, a_1..a_m] with a = coefficients of (P+Q)/2, and the cascade computes the all-pole difference equation of 1/A(z)^stage",
                         "every alpha: the filter is `stage` identical sections; one section inverts 1 + sum_k c_k Phi_k (warped basis); for the vocoder's LSP coefficients it is kappa/A(z~) with A = (P+Q)/2 in the warped delay, and c[0]*kappa^stage is the gain K (power laws as hypotheses)"],
        test_clauses=["|ln|H| - ln(K/|A(e^{jw~})|^s)| <= 0.001 neper within 100 dB of the peak, A from polynomial multiplication of the LSP factors",
                      "finite, decaying response"],
        assumptions=[],
    ),
    "C14": dict(
        rule="three-frame stationary runs through the public Vocoder at 16 kHz, F0 20.01 Hz, frame period 700, with beta and with beta = 0: cepstra as C06 "
             "(scaled by 1/(1+beta), |c1| >= 0.3), orders 3..40, the two-coefficient no-op case, alpha in [0,0.6] incl. 0, beta in [0.02,0.5] and 0. "
             "class = (length bucket, beta bucket, alpha zero/non-zero); non-trivial = beta > 0 and more than two coefficients",
        theorem_clauses=["coefficient law: orders >= 2 times (1+beta), order 1 unchanged, order 0 shifted by ln(e1/e2)/2 - beta*alpha^2*b2",
                         "beta <= 0 or <= 2 coefficients: no-op", "freqt at alpha = 0 is the identity (repaired order); pinned order reverses (defect)", "the gain compensation restores the 576-tap impulse-response energy exactly (exp additive/positive, exp ln = id as hypotheses)"],
        test_clauses=["energy of the running filter's impulse response within 1 % (frames 2-3)", "log-spectrum difference = beta*sum_{m>=2} c_m cos(m w~) + const within 0.04 neper",
                      "bit-identical output for beta = 0 / two coefficients"],
        assumptions=[],
    ),
    "C16": dict(
        rule="(a) stage-level: random short runs of both filter families (stage 0 and 1..4, with/without low-pass, post-filter) at volume 10^(v/20) vs volume 1; "
             "(b) engine-level: bundled and generated voices (2/3 streams, stage 0 / >=1), random in-envelope conditions, 1..3 labels, set_volume(v) vs 0 dB, v in [-60,60] "
             "incl. +-6.02, +-60, 20; get_volume read back; all other getters compared. class = (voice kind / stage, sign of v); non-trivial = v != 0",
        theorem_clauses=["one frame at gain g = frame at gain 1 scaled, vocoder state identical (any family)", "whole rendering scales by g (induction over frames)",
                         "get_volume(set_volume v) = v given ln(exp x) = x", "decibels add (exp of a sum)", "set_volume changes no other setting", "pipeline level: Engine::synthesize at gain g = g x synthesize at gain 1; set_volume(v) = exp(v*DB) x the 0 dB waveform",
                         "LIBRARY LEVEL: appending set_volume(v) to any setter history multiplies every sample synthesize returns by exp(v ln10/20), for every voice set, weights and labels (needs: the speed test reads the speed only; counterexample otherwise)"],
        test_clauses=["10^(v/20) vs exp(v*DB) in f64 (1e-12 relative)"],
        assumptions=["exp/ln laws enter as explicit hypotheses on the Transc instance"],
    ),
    "C01": dict(
        rule="whole-pipeline cases: bundled voice (1 in 3) or generated voices over {2,3 streams} x {stage 0, stage 1..3} x 1..7 states x window sets; random "
             "in-envelope conditions (alpha, beta in [0,0.8], GV weights [0,2], thresholds, half tone +-24, volume +-20 dB, speed [0.25,4], frame-period and "
             "rate overrides), 0..6 labels (consecutive corpus labels or labels with the twelve field groups recombined across the corpus), alignment on with "
             "time stamps on some lines in 30 % of cases. The model is fed the dumped Models::duration()/model_stream(i) and must reproduce durations, the three "
             "trajectories (hook) and the waveform; every 8th case is a silence/pause-only utterance. In addition 24 (thorough 400) end-to-end cases drive the Lean model from the voice FILES alone — header defaults, setter history, tree selection with wildcard questions, interpolation of 1..3 voices, durations, MLPG+GV, vocoder — and compare the waveform with Engine::synthesize. class = (voice kind, #streams, stage, alignment/speed, empty/non-empty, #states); "
             "non-trivial = >= 2 labels with both voiced and unvoiced frames",
        theorem_clauses=["waveform length = fperiod x sum of durations", "one duration >= 1 per state (speed and alignment paths), F >= labels x states",
                         "MLPG shape on well-formed streams; the GV switch must cover every state (machine-checked counterexample otherwise)",
                         "two-stream configuration never panics (repaired)", "one vocoder frame = fperiod samples", "END TO END totality: for every well-formed engine input (2 or 3 streams, speed or alignment) synthesis returns, every state lasts >= 1 frame, samples = frame_period x F",
                         "FROM THE VOICES (Synth.VoicesWF): tree selection, interpolation, header defaults and any setter history inside the theorem — total, frame-exact, F >= labels x states, empty labels -> empty waveform",
                         "FROM THE BYTES (bytes_to_waveform_total): reader accepted + computable supportedVoice/compatibleVoice checks + one weight per voice => C01 for every label sequence and history; the driver runs the checks on the files of every e2e case (class tag supported/UNSUPPORTED)",
                         "machine-checked counterexample: more STREAM_WIN entries than NUM_WINDOWS loads and then panics in MlpgAdjust::create (replayed on the code: corpus/observations)"],
        test_clauses=["all samples finite inside the stable range; otherwise a non-finite sample only after |x| > 1e150", "no panic on every generated case",
                      "setter / loader histories that do not concern a setting leave it alone (neutral calls, reload, Condition::default route, clone) on every pipeline case"],
        assumptions=["supported voice = passes the computable supportedVoice check (true of the bundled voice and of every generated voice, measured per run)"],
    ),
    "C11": dict(
        rule="bundled, PDF-perturbed and generated voices (different voicing-weight distributions); 2..6 labels; two thresholds t1 <= t2 for the log-F0 stream "
             "drawn from {the voicing weights actually present, 0, 1, 0.5, uniform}; four engine runs per case through the hook: base, raised threshold, stream "
             "0 (and 2) threshold+GV weight changed, stream 1 threshold+GV weight changed. class = (voice kind, whether the voiced set shrinks, whether any frame "
             "stays voiced); non-trivial = threshold splits the utterance",
        theorem_clauses=["frame voiced iff voicing weight of its state > threshold", "raising the threshold only removes voiced frames",
                         "unvoiced frames carry NODATA in every dimension", "NODATA -> period 0 (noise branch)", "stream i reads only its own threshold and GV weight",
                         "non-MSD streams are all voiced",
                         "LIBRARY LEVEL: appending set_msd_threshold(i, x) / set_gv_weight(i, x) leaves durations and the trajectories of every other stream of Synth.params unchanged"],
        test_clauses=["which condition index reaches which stream inside Engine::generator (bitwise trajectory equality under changes to other streams)"],
        assumptions=[],
    ),
    "C12": dict(
        rule="(a) stage level: random small streams with a GV model and switch through MlpgAdjust (model vs implementation, 1e-6); (b) bundled voice and "
             "PDF-perturbed copies, utterances of 10..60 corpus labels (consecutive or shuffled), GV stream 0 or 1, three ascending weights in [0.25,2]: variance of "
             "every coefficient over eligible frames (GV switch on, voiced) vs weight x GV mean; silence-only utterances for the no-eligible case (compared bitwise "
             "with the ML solution from the stage API); low-pass stream under two GV weights. class = (voice kind, stream, eligibility class)",
        theorem_clauses=["target = gv_mean x gv_weight; switch expanded by durations and restricted to voiced frames", "no eligible frame -> plain ML solution",
                         "a stream without GV ignores the GV weight", "conv_gv sets the variance over eligible frames exactly to the target, keeps their mean and the ineligible frames", "GV switch of a state is on iff its label matches no GV-off pattern",
                         "LIBRARY LEVEL: the GV switch the stages receive is 'label outside the GV-off contexts' per state; a stream whose voice has USE_GV = 0 is unaffected by set_gv_weight (trajectories and waveform)"],
        test_clauses=["variance within 20 % of the target when >= 100 frames are eligible", "variance monotone in the weight", "five Newton-like steps (model bit-identical)"],
        assumptions=["the 20 % and monotonicity clauses are empirical properties of a truncated iteration; not provable in exact arithmetic without a convergence analysis"],
    ),
    "C15": dict(
        rule="the bundled voice and PDF-perturbed copies (the property's quantifier) with random in-envelope conditions (GV on), 2..6 labels; h in [-24,24] incl. 0, +-12, +-24 and values up "
             "to +-80 that drive the clamp; two engine runs (h and 0) through the hook. class = (voice kind, zero/up/down/clamped); non-trivial = h != 0 with a voiced frame",
        theorem_clauses=["h = 0 is the identity", "static mean -> clamp(m + h*ln2/12), nothing else of the state changes", "voicing mask unchanged", "durations unchanged",
                         "spectrum and low-pass streams unchanged", "trajectory level: shifting every static mean by h shifts the ML trajectory by exactly h (dynamic windows summing to 0)", "the shift law also holds through conv_gv and the five adaptive Newton-like GV steps (par_shift)", "END TO END (model): create after apply_additional_half_tone(h) = create + h*ln2/12 on every voiced frame, NODATA kept, while no state mean is clamped", "pipeline level: durations, spectrum, low-pass unchanged; log-F0 + h*ln2/12 on voiced frames",
                         "LIBRARY LEVEL: appending set_additional_half_tone(h) leaves durations, spectrum and low-pass trajectories of Synth.params unchanged, for every h"],
        test_clauses=["log-F0 of every voiced frame moves by h*ln2/12 through MLPG and GV (1e-6) while no state is clamped"],
        assumptions=["shift-equivariance of the ML solution and of the GV iteration is tested, not proved"],
    ),
    "C17": dict(
        rule="(a) utterances of 1..4 labels on bundled/generated voices in all four input forms (&[&str], &[String; N], Vec<String>, Vec<Label>), with blank lines "
             "inserted, and with 100 ns time stamps while alignment is off: waveforms compared bitwise; time-stamp conversion checked. (b) 1..4 lines with one or two "
             "corruptions out of 16 kinds (two tokens, bad start/end, nan/inf, negative/huge, leading/trailing/double space, truncated label, random bytes, unicode in label "
             "or times, duplicated label, spaces only, exponent notation, valid times) and optional blank line: outcome class vs the model fed with the per-token verdicts of "
             "str::parse::<f64> and Label::from_str. class = (corruption kinds, outcome)",
        theorem_clauses=["splitn(3,' ') yields 1..3 pieces (the expect is unreachable)", "loading is total into ok|error — no panic outcome exists",
                         "blank lines ignored anywhere", "error cases in the code's order", "strings without times = parsed labels with unknown times",
                         "durations ignore time stamps when alignment is off",
                         "LIBRARY LEVEL: load lines -> fill time gaps -> synthesize gives the same outcome with every blank line removed"],
        test_clauses=["jlabel's parser and f64 parsing themselves (parameters of the model)", "bitwise equality of waveforms across forms"],
        assumptions=["jlabel::Label::from_str and str::parse::<f64> are outside the model; their verdicts travel with each case"],
    ),
    "C03": dict(
        rule="(a) schedules: k in {2,4,8,16} threads behind a start barrier with random spin stagger on one shared Arc<Engine> (bundled or generated voice, random "
             "in-envelope condition), each thread synthesizing or stepping a generator frame by frame (yielding between frames) for one of three utterances; "
             "compared bitwise with the sequential run; plus repeat, clone, two interleaved live generators with syntheses in between, and getters before/after. "
             "(b) setter histories: two engines receive different random setter prefixes, then the same final values for all nine settings in different random orders; "
             "getters and waveforms compared bitwise. class = (voice kind, thread count) / hist; non-trivial (a) = at least two calls overlapped in time (measured)",
        theorem_clauses=["schedule irrelevance for call-local machines over a read-only engine value", "only the last call on each setting matters; different settings commute",
                         "equal condition values give equal waveforms (synthesis is a function, returns no new engine)"],
        test_clauses=["real thread interleavings on the real binary (bitwise)", "no hidden shared mutable state (source scan recorded; Send+Sync compile-time assertion)"],
        assumptions=["Rust's type system for data-race freedom of safe code", "OS scheduler behaviour is sampled, not enumerated"],
    ),
    "C04": dict(
        rule="the bundled voice (120 labels quick / all 1456 + 4000 recombined thorough) and generated voices (2/3 streams, stage 0 / 1..3, 1..7 states, vector "
             "lengths, five window sets, tree shapes single-leaf / left comb / right comb / random with 2..12 leaves, quoted and unquoted leaf names, questions "
             "sampled from the bundled voice's 781 incl. the regex-fallback ones): one case per (voice, label) comparing, for the duration model, every state of "
             "every stream model and every GV model, the tree index, the PDF index and every mean / variance / voicing weight bit for bit with the Lean reader's "
             "walk of the file's own trees; one metadata case per voice (global + per-stream metadata, options, windows, engine defaults). "
             "class = (deepest walk in question nodes, first leaves reached); non-trivial = a walk through >= 2 question nodes",
        theorem_clauses=["glob = Matches ('*' any string, '?' any one character)", "question holds iff some pattern matches", "single-leaf tree selects its PDF",
                         "index form (convert_tree + search_node) = walk of the file's tree by node id; yes -> second child, no -> first",
                         "from_linear layout: means | variances | voicing weight", "engine defaults = header values",
                         "every Gaussian selection can hand to synthesis is one of the file's PDFs, entry id-1 of the tree whose declared state matches, with the announced layout",
                         "an accepted, forward-referencing, non-empty tree ends in a PDF id for every label",
                         "READ-BACK: little-endian words, a PDF (means | variances | voicing weight), the whole PDF block (any number of trees / PDFs), window rows, header numbers and byte ranges are read back exactly as a writer wrote them (bit for bit for the float32 entries)"],
        test_clauses=["the byte-level grammar of the reader vs the loader (same files parsed by both)", "jlabel-question's matcher agrees with wildcard matching on the label text",
                      "f32 -> f64 widening exact (bitwise comparison)"],
        assumptions=["labels are well-formed Open JTalk labels in canonical text form"],
    ),
    "C18": dict(
        rule="single and (25 %) double faults on generated voices and (1 in 40) the bundled voice: truncation at section boundaries and random offsets; each header "
             "number -> {0, 1, v+-1, 4e9, 26 digits, negative, text}; inverted ranges; header line deleted / duplicated; question definition renamed; node "
             "reference changed; lone child replaced by a node id; empty STREAM_TYPE; header byte flip; non-UTF-8 header byte; random data byte. Each file is "
             "loaded by Engine::load under catch_unwind with the harness under a 6 GiB address-space limit and a wall-clock limit (BEGIN markers name the case on "
             "abort/hang), and parsed by the Lean reader. class = (fault kinds, loader outcome, drift flag); non-trivial = an actual fault was applied",
        theorem_clauses=["for every byte sequence the guarded reader returns a voice or an error (no panic outcome)", "the reader is total (structural/fuelled recursion)",
                         "pinned-commit panic sites witnessed on the unguarded model (inverted range, truncated file, unknown question, lone node child, overlong number)",
                         "size bounds: an accepted voice has no more streams, questions, trees, tree rows, PDF words, windows or window coefficients than the file has bytes",
                         "what acceptance guarantees (accepted_voice_shape): stream count, PDF layouts per model (NUM_STATES / VECTOR_LENGTH x NUM_WINDOWS (+ voicing weight iff MSD) / VECTOR_LENGTH), GV model iff USE_GV, one PDF list per tree, every node / question reference resolves",
                         "acceptance is not well-formedness: one accepted byte image (kernel-evaluated) with fewer windows than announced, an out-of-range leaf, a cyclic tree, an empty tree, a missing state"],
        test_clauses=["the real loader never panics / aborts / exceeds the time limit on any enumerated fault", "when both accept, the loaded metadata equals the file's",
                      "ok-vs-err disagreements between reader and loader are counted as drift (both satisfy C18)"],
        assumptions=["hang and unbounded allocation of the real binary are runtime observations under rlimit/timeout", "the header model is the line grammar of Appendix E, not serde's machinery"],
    ),
}
