"""Per-property configuration for ./check (rules, clauses decided as theorem vs test, assumptions)."""

TIMEOUT = {"quick": 1500, "thorough": 6 * 3600}

TRUSTED_BASE = [
    "Lean 4.33.0 kernel (thorough tier: re-checked by leanchecker)",
    "axioms allowed: propext, Classical.choice, Quot.sound (audited per theorem with collectAxioms)",
    "Mathlib v4.33.0 as installed",
    "hand-written Lean model Jb/Model/* — tied to /repo by this run's correspondence suite",
    "Rust harness /verif/harness (generators, canonicalisation) and driver I/O code",
    "Lean Float runtime + glibc libm for executing the model (not for theorems)",
]

ASSUMPTIONS = [
    "theorems are about exact arithmetic over a linearly ordered field; IEEE-754 rounding is outside them",
    "model faithfulness is sampled (differential testing with the stated generators), not proved",
]

PROPS = {
    "C20": dict(
        rule="random setter histories (0..8 ops) on a freshly loaded engine; arguments drawn from "
             "boundary values (0, -0, bounds +-1ulp, subnormals, +-1e300, f64::MAX, usize::MAX) and "
             "uniform/log-uniform ranges; a class is (setter, region of its argument: below/lo/inside/hi/above); "
             "a case is non-trivial when it contains at least one setter call",
        theorem_clauses=["get(set x) = clamp(x) for all 10 setters", "frame: other getters unchanged",
                         "idempotence / last-wins / commutation", "fresh defaults", "dB round trip (given ln∘exp=id)"],
        test_clauses=["bit-level equality of stored values on f64", "header values reach the defaults (load path)"],
        assumptions=["setter arguments finite (the property's quantifier)"],
    ),
}
