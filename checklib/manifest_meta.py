"""Text of the level claimed per property (kept apart from the machinery)."""
HOOK_COMMITS = ["7f5019f"]
NOTES = ("All checks: ./check <id> --tier quick|thorough; they rebuild the harness against /repo's working tree "
         "(cargo path dependency), re-check the Lean proofs (lake build, axiom audit), run the correspondence and "
         "the property oracle, and rewrite evidence/<id>.json. Known findings: known_findings.json.")
NOT_YET = {}
LEVEL = {
    "C20": dict(
        text="Every clause of C20 is a theorem over the model of Condition (any linearly ordered field, usize as Nat): "
             "get∘set = clamp for each of the ten setters, frame (no other getter changes), idempotence, last-wins, "
             "commutation, fresh defaults, dB round trip from ln∘exp = id. The model is tied to src/engine.rs on every "
             "run by executing the same definitions on Float against the real setters/getters on random histories with "
             "boundary-value arguments (bitwise comparison of stored values) — right level: the property is pure "
             "decision logic, fully provable; only f64 bit behaviour is left to the correspondence.",
        note="Trusted: Lean kernel; axioms ⊆ {propext, Classical.choice, Quot.sound}; hand-written model tied by differential "
             "testing; exact-arithmetic semantics for f64; finite arguments only (NaN excluded by the property).",
    ),
    "C02": dict(
        text="Theorem history_refines: every call history over {generate_step with any buffer, synthesized_frames, generate_all} on the "
             "generator model yields exactly the observations of the specification machine 'cursor into the one-shot waveform' — by induction over "
             "the history, for any frame count, buffer sizes and any vocoder whose frames yield fperiod samples; corollaries: chunk concatenation = "
             "one-shot, exhausted step returns 0 and writes nothing, generate_all = remaining suffix. The model is tied to src/speech.rs by running "
             "the same state machine (vocoder abstracted as the implementation's own one-shot transcript) against real generators on exhaustive short "
             "and random long histories, bitwise. The defect found (generate_all after a step panicked) is repaired in /repo (fix: ed3d9ae) and kept as "
             "a theorem about the pinned indexing.",
        note="Trusted: Lean kernel; axioms ⊆ {propext, Classical.choice, Quot.sound}; hand-written model tied by differential testing; the real "
             "vocoder is abstracted by its transcript (its determinism and frame length are observed, not proved).",
    ),
}
