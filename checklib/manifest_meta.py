"""Text of the level claimed per property (kept apart from the machinery)."""
HOOK_COMMITS = ["7f5019f"]
NOTES = ("All checks: ./check <id> --tier quick|thorough; they rebuild the harness against /repo's working tree "
         "(cargo path dependency), re-check the Lean proofs (lake build, axiom audit), run the correspondence and "
         "the property oracle, and rewrite evidence/<id>.json. Known findings: known_findings.json.")
NOT_YET = {}
LEVEL = {
    "C20": dict(
        text="Every clause of C20 is a theorem over the model of Condition (any linearly ordered field, usize as Nat): "
             "get∘set = clamp for each of the ten setters, frame (no other getter changes), idempotence, last-wins, "
             "commutation, fresh defaults, dB round trip from ln∘exp = id. The model is tied to src/engine.rs on every "
             "run by executing the same definitions on Float against the real setters/getters on random histories with "
             "boundary-value arguments (bitwise comparison of stored values) — right level: the property is pure "
             "decision logic, fully provable; only f64 bit behaviour is left to the correspondence.",
        note="Trusted: Lean kernel; axioms ⊆ {propext, Classical.choice, Quot.sound}; hand-written model tied by differential "
             "testing; exact-arithmetic semantics for f64; finite arguments only (NaN excluded by the property).",
    ),
    "C02": dict(
        text="Theorem history_refines: every call history over {generate_step with any buffer, synthesized_frames, generate_all} on the "
             "generator model yields exactly the observations of the specification machine 'cursor into the one-shot waveform' — by induction over "
             "the history, for any frame count, buffer sizes and any vocoder whose frames yield fperiod samples; corollaries: chunk concatenation = "
             "one-shot, exhausted step returns 0 and writes nothing, generate_all = remaining suffix. The model is tied to src/speech.rs by running "
             "the same state machine (vocoder abstracted as the implementation's own one-shot transcript) against real generators on exhaustive short "
             "and random long histories, bitwise. The defect found (generate_all after a step panicked) is repaired in /repo (fix: ed3d9ae) and kept as "
             "a theorem about the pinned indexing. Lifted to the whole library (C02Lib library_history_refines): the same refinement for the generator Engine::generator builds from the voice files, against the waveform Synth.synthesize returns.",
        note="Trusted: Lean kernel; axioms ⊆ {propext, Classical.choice, Quot.sound}; hand-written model tied by differential testing; the real "
             "vocoder is abstracted by its transcript (its determinism and frame length are observed, not proved).",
    ),
    "C08": dict(
        text="All clauses are theorems about the model of DurationEstimator::create over any ordered field with floor: create(1) = max(1,round(mean)); "
             "create is total (the unwrap on an empty min_by is unreachable by pigeonhole, the greedy loop ends within |target-sum| iterations); one "
             "duration >= 1 per state; total = max(round(F1/s), n); antitone in s. Tied to src/duration.rs by exact comparison of whole duration vectors "
             "(which also pins the first-minimum greedy choice) on generated and real duration models. f64 rounding itself is test-level. Lifted to the whole library (C08Lib library_speed_law).",
        note="Trusted: Lean kernel; axioms ⊆ {propext, Classical.choice, Quot.sound}; roundMax1 x = max 1 ⌊x+1/2⌋₊ as the exact-arithmetic meaning of "
             "x.round().max(1.0) as usize; total_cmp on NaN costs is outside the model (variances non-zero).",
    ),
    "C09": dict(
        text="Theorems: Labels::new gap filling equals a non-sequential specification; with the repaired tail handling every label keeps all its states "
             "(each >= 1 frame) and nothing panics; for every label with known end the frames through it are c + round(e-c) = round(e) unless the group "
             "cannot fit, in which case each state gets exactly 1; unknown-end labels share one estimate call (by construction). The defect found — "
             "trailing labels without an end vanished — is repaired in /repo (fix: 7c58cfc) and kept as a theorem about the pinned behaviour. Tied to "
             "src/label.rs and src/duration.rs by exhaustive small and random annotations, exact comparison. Lifted to the whole library (library_alignment_law, library_alignment_round_end).",
        note="Trusted: as C08; jlabel parsing is outside (labels are opaque); str::parse::<f64> exercised only through integer time stamps.",
    ),
    "C19": dict(
        text="Theorems over the model of VoiceSet::new and InterporationWeight: combination succeeds iff the list is non-empty and all global and per-stream "
             "metadata equal (EmptyVoice / MetadataError otherwise); a weight update is accepted iff |sum-1| <= eps and count = nvoices, sum error first; an "
             "accepted update stores exactly the weights and touches nothing else; a rejected update is a no-op inside any history (so previous weights stay in "
             "force); every vector keeps nvoices entries. Tied to the code by metadata-mutated voice tuples and update histories with getters compared bitwise "
             "and a waveform comparison after each history. Lifted to the whole library (library_rejected_update_is_noop).",
        note="Trusted: Lean kernel; axioms ⊆ {propext, Classical.choice, Quot.sound}; model tied by differential testing; approx::abs_diff_ne modelled as |a-b| <= eps with eps = f64::EPSILON passed in.",
    ),
    "C10": dict(
        text="Theorems over the model of VoiceSet::weighted / ModelParameter::{mul, mul_add_assign}: every mean, variance and voicing weight of the result is "
             "Σ_v w_v·p_v; weights (1,0,…) return the first voice exactly; identical voices with weights summing to 1 return that voice; a setter for one "
             "quantity leaves the other quantities' vectors alone. Which vector Models::duration/stream/gv actually read is established by the correspondence "
             "(independent random weights per quantity; per-voice Gaussians taken from each voice's own trees).",
        note="Trusted: as C19; tree selection itself is C04's subject — here each voice's own get_parameter is the input.",
    ),
    "C05": dict(
        text="Theorems (any ordered field, unbounded sizes), now closed end to end: frames take the Gaussian of the state their duration assigns; boundary distances "
             "are the voiced run lengths and a dynamic window is dropped exactly when its span touches an unvoiced frame or the utterance edge; fill puts NODATA "
             "exactly on unvoiced frames; calc_wuw_and_wum assembles exactly the band of W'U^-1 W and W'U^-1 mu for the window matrix defined from scratch (the "
             "latent break of F8 is shown harmless); the observation sequences create builds satisfy the edge hypothesis by construction; the assembled matrix "
             "is positive definite when static precisions are positive, so every LDL^T pivot is positive; the banded factorisation + substitutions as coded "
             "return the solution of the dense normal equations; that solution maximises the Gaussian log-likelihood over ALL sequences. Capstone "
             "create_total_and_ml: on every well-formed stream without GV the model of MlpgAdjust::create returns a trajectory whose every column, restricted "
             "to the voiced frames, is the likelihood maximiser. What remains test-level is f64 rounding only: the oracle rebuilds the normal-equation residual "
             "from the definition on the implementation's output (<= 1e-8 of scale) and the model is bit-identical to the implementation on all executed cases. Lifted to the whole library (library_trajectory_is_ml).",
        note="Trusted: Lean kernel; axioms ⊆ {propext, Classical.choice, Quot.sound}; model tied by differential testing (1e-9 relative, bit-identical in "
             "practice); exact-arithmetic semantics (floating-point rounding is measured, not proved).",
    ),
    "C07": dict(
        text="Theorems over the excitation model: a pulse fires exactly when counter+1 exceeds the period and has height sqrt(period); from any counter in (0,1] — "
             "which a start and every pulse leave — the next gap is floor(T0) or floor(T0)+1 and exactly T0 for integer T0, with the counter back in (0,1] "
             "(so every gap of a constant-F0 stretch is floor/ceil T0 and the mean power is 1); the period glides linearly; period = rate/exp(clamped log-F0); "
             "LCG deviates in [0,1]; unit mean power is a theorem (pulse_train_unit_power: over any n samples at a constant period the energy is n + c0 - cn, within one period of n). The defect found (first gap T0-1 for an integer period) is repaired in /repo (fix: 98d6dc9). The mixing law is a theorem too: the rotating ring buffer "
             "of Excitation::get emits, at each sample, the convolution of the queued contributions (pulse x h plus noise x (delta - h)) — for every buffer length "
             "and history (ringRun_conv, excGet_is_ringStep). Partial only in the whiteness/variance of the one fixed pseudo-random noise sequence, which is a statistic "
             "of a concrete sequence and is decided by running the implementation and the bit-identical model.",
        note="Trusted: Lean kernel; axioms ⊆ {propext, Classical.choice, Quot.sound}; model tied by differential testing (bit-identical); statistics of one fixed "
             "pseudo-random sequence are test-level by nature.",
    ),
    "C06": dict(
        text="Partial. Theorems: the cepstrum <-> MLSA-coefficient maps are mutually inverse for every alpha; with zero coefficients the Pade cascade is the "
             "identity in every state; shifting c0 by delta shifts only b0 and scales the filter input by exp(delta); the cascade is homogeneous in its input, so the "
             "response scales with exp(c0); with frozen coefficients the filter is linear and time-invariant, so its output on any excitation is the convolution "
             "of the excitation with the response to one pulse (response_is_convolution) — which is why measuring one pulse response decides the filter. The transfer function is an identity of the code's arithmetic for every alpha and order: "
             "the filter is two cascaded stages (filter_is_two_stages), each exactly P(F)/P(-F) of its basic filter with P the degree-5 Pade polynomial the code carries "
             "(stage1_is_pade, stage2_is_pade), and b0 + F1 + F2 = sum_m c_m z~^-m, the warped cepstrum polynomial (exponent_is_model_spectrum) — so H = exp(b0) R(F1) R(F2), R = P(w)/P(-w). "
             "What is left to execution is only how well R approximates exp. The analytic clause (0.01 neper against "
             "sum c_m cos(m w~)) is a bound on the Pade(5) error of a concrete rational function and is decided on every run by the DFT of the implementation's "
             "pulse response through the public Vocoder; the Lean vocoder model is bit-identical to the implementation on all executed runs.",
        note="Trusted: Lean kernel; axioms ⊆ {propext, Classical.choice, Quot.sound}; spectral accuracy is test-level (no complex analysis / IEEE semantics in the theorems).",
    ),
    "C13": dict(
        text="Partial. Theorems: repaired lsp2lpc ignores the gain element (the pinned code used it as a frequency: fix 3dba546); gc2gc with equal gamma truncates; "
             "ignorm inverts gnorm; MGLSA is the stage-fold cascade; gamma = -1/stage; lsp2lpc returns exactly the coefficients of (P(z)+Q(z))/2 with P, Q the products of the LSP "
             "quadratic factors times (1 -/+ z^-1) (lsp2lpc_poly, every order, odd and even); well-separated frequencies pass the stability check unchanged; the cascade of stage sections is linear and time-invariant, output = excitation convolved "
             "with the pulse response; for alpha = 0 the formula itself is an identity of the code's arithmetic: the coefficient chain run on every frame "
             "collapses to [K, a_1..a_m] with a the coefficients of (P+Q)/2, and the cascade computes the all-pole difference equation of 1/A(z)^stage "
             "(coefficients_are_gain_and_lpc, cascade_is_all_pole; the powf laws used are hypotheses); for EVERY alpha the cascade is `stage` identical sections, one section inverts "
             "1 + sum_k c_k Phi_k over the warped basis, and for the vocoder's LSP coefficients that is kappa/A(z~) with A = (P+Q)/2 read in the warped delay, the gains multiplying up to K "
             "(filter_is_stage_sections, section_inverts_warped_polynomial, section_is_warped_all_pole, gains_multiply_to_K) — K/A(z~)^stage as an identity of the code's arithmetic. The magnitude formula K/|A|^s (0.001 neper) and decay are decided on every run "
             "by DFT of the implementation's pulse response against A(z) built by polynomial multiplication; model bit-identical to the implementation.",
        note="Trusted: as C06; for alpha != 0 (warped delay line) and for the passage from the difference equation to the magnitude |H(e^jw)| the check is numerical (DFT), not a theorem.",
    ),
    "C14": dict(
        text="Theorems: the post-filter's coefficient law (orders >= 2 times 1+beta, order 1 unchanged, order 0 shifted by half the log energy ratio minus "
             "beta*alpha^2*b2), its no-op cases, and freqt(alpha=0) = id for the repaired input order with the pinned order's reversal as a statement (defect "
             "found by trying to state this lemma; fix 4304ae0). The gain compensation restores the 576-tap impulse-response energy exactly (postfilter_preserves_energy; exp additive and positive, "
             "exp(ln x) = x as hypotheses). The 1 % energy clause concerns the true impulse response of the running filter and is decided "
             "on every run from pulse responses with and without beta, together with the spectral form of the coefficient law.",
        note="Trusted: as C06; the 576-tap energy is preserved by theorem, the true (Pade-approximated, infinite) response's energy is test-level.",
    ),
    "C16": dict(
        text="Theorems: a frame rendered at gain g is the gain-1 frame scaled sample by sample with identical vocoder state, for either filter family; by induction "
             "the whole rendering scales by g, and so does Engine::synthesize of the pipeline model (synthesize_gain, synthesize_volume_db: nothing before the "
             "vocoder reads the volume); get_volume inverts set_volume given ln∘exp = id; dB add; set_volume touches no other setting. Tied to the code at "
             "stage level (both families) and through Engine::synthesize at v dB vs 0 dB (1e-12 relative), with getter read-back. Lifted to the whole library (library_volume_is_gain): for every voice set, weights, history and labels.",
        note="Trusted: Lean kernel; axioms ⊆ {propext, Classical.choice, Quot.sound}; exp/ln laws as hypotheses; f64 rounding of exp(v*DB) test-level.",
    ),
    "C01": dict(
        text="Theorems about the composed pipeline model: returned waveforms have fperiod x F samples with F the sum of the state durations; every label "
             "contributes one duration >= 1 per state on both the speed and the alignment path (so F >= labels x states); MLPG returns one row per frame on "
             "well-formed streams (with a machine-checked counterexample showing the GV switch must cover every state); totality in full generality "
             "(synth_total): for every well-formed engine input, two or three streams, speed or alignment, no panic site is reachable, every state lasts at "
             "least one frame and the waveform has exactly fperiod x F samples (the two-stream case panicked before fix 0c7762d); a vocoder frame is fperiod samples. "
             "Lifted to the whole library (voices_synth_total / bytes_to_waveform_total): with tree selection, voice interpolation, header defaults and any setter history inside the theorem, "
             "every voice set the reader accepted that passes the computable supportedVoice / compatibleVoice checks (run by the driver on the files of every end-to-end case, bundled voice included) synthesizes "
             "any label sequence to exactly frame_period x F samples, F >= labels x states; a machine-checked counterexample shows the checks are needed (window count mismatch, replayed on the code). "
             "The composition is tied to Engine::generator/synthesize by "
             "feeding the dumped Models outputs to the model and comparing durations, all three trajectories (hook) and the waveform on bundled and generated "
             "voices. Partial: the finiteness clause is about IEEE overflow and is decided by execution (implementation and bit-identical model).",
        note="Trusted: Lean kernel; axioms ⊆ {propext, Classical.choice, Quot.sound}; the from-the-bytes theorem is about the Lean reader and selection model, tied to the loader by the e2e / C04 correspondence; finiteness is test-level.",
    ),
    "C11": dict(
        text="Theorems: a frame is voiced iff its state's voicing weight exceeds the stream's threshold; raising the threshold only removes voiced frames; unvoiced "
             "frames carry NODATA in every dimension and NODATA is rendered as period 0 (noise); in the pipeline model stream i reads only msd_threshold[i] and "
             "gv_weight[i]. That the real Engine::generator wires the indices the same way is decided on every run through the hook: bitwise equality of a stream's "
             "trajectory under changes to the other streams' settings, and the voiced set against the dumped voicing weights at two thresholds. Lifted to the whole library (library_threshold_/gv_weight_touches_own_stream_only).",
        note="Trusted: Lean kernel; axioms ⊆ {propext, Classical.choice, Quot.sound}; hook verif_parameters (read-only).",
    ),
    "C12": dict(
        text="Partial. Theorems: GV target = gv_mean x gv_weight with the switch expanded by durations and restricted to voiced frames; no eligible frame gives the "
             "plain ML solution; a stream without GV ignores the weight; conv_gv sets the variance over the eligible frames exactly to the target and keeps their mean and all other "
             "frames; the per-state GV switch Models::gv produces is on exactly for labels matching none of the voice's GV-off patterns, wherever the label stands "
             "(switch_is_outside_gv_off; the check recomputes eligibility from the voice file's patterns and the label text, not from the library's switch). The 20 % and monotonicity clauses are empirical statements about five steps of a "
             "Newton-like iteration and are decided on every run on the implementation (bundled + perturbed voices, >= 100 eligible frames), while the iteration's "
             "Lean model is tied bit-for-bit at stage level. Lifted to the whole library (library_no_gv_ignores_weight, library_gv_switch).",
        note="Trusted: as C11; no convergence analysis of the GV iteration.",
    ),
    "C15": dict(
        text="Theorems: h = 0 is the identity; apply_additional_half_tone maps every state's static mean to clamp(m + h*ln2/12) and changes nothing else; the voicing "
             "mask, the durations and every stream other than log-F0 are independent of h in the pipeline model. Trajectory level (trajectory_shift): adding h to every static mean adds exactly h to every frame "
             "of the maximum-likelihood trajectory when the dynamic windows sum to zero (uniqueness of the normal-equation solution), and the same through the whole GV stage — conv_gv and the five Newton-like steps with "
             "their adaptive step size (trajectory_shift_with_gv: the objective changes by an iterate-independent constant, so the step decisions agree). "
             "Pipeline level (pipeline_transposes_only_f0): for everything Engine::generator hands to the vocoder the durations, spectrum and low-pass "
             "trajectories are unchanged and log-F0 moves by h*ln2/12 on voiced frames. Capstone halftone_moves_the_trajectory: MlpgAdjust::create after apply_additional_half_tone(h) equals create plus h*ln2/12 on every voiced frame "
             "(NODATA and frame count unchanged) while no state mean is clamped. That log-F0 of the real engine moves by exactly h*ln2/12 is additionally decided on every run through the hook (two runs per case, 1e-6), as is the wiring in Engine::generator. Lifted to the whole library (library_half_tone_nothing_else).",
        note="Trusted: as C11; shift-equivariance of MLPG and of the GV iteration proved over an ordered field; the f64 implementation is compared at 1e-6.",
    ),
    "C17": dict(
        text="Theorems over the line-grammar model: splitn yields 1..3 pieces so the expect cannot fire; loading is a total function into ok|error (no panic outcome "
             "exists in the model); blank lines are ignored anywhere; the error cases and their order; strings without time stamps load exactly as parsed labels with "
             "unknown times; durations ignore time stamps unless alignment is on. Tied to src/label.rs by 16 corruption kinds (outcome class vs model, never a panic, "
             "Engine::generator agreeing with Labels::load_from_strings) and by bitwise waveform equality across the four input forms. Lifted to the whole library (library_blank_lines_ignored).",
        note="Trusted: Lean kernel; axioms ⊆ {propext, Classical.choice, Quot.sound}; jlabel and std float parsing are parameters whose verdicts are supplied per case.",
    ),
    "C03": dict(
        text="Partial. Theorems: schedule irrelevance (any interleaving of call-local state machines over one read-only engine value gives each caller the outputs "
             "and final state of running alone); a setter history equals its last call per setting and calls on different settings commute; synthesis in the model is "
             "a function of (condition value, voice-derived inputs, labels) and returns no engine. What a theorem cannot exhibit — real interleavings, data races, a "
             "hidden static — is carried by Rust's type system (Engine: Send+Sync asserted at compile time; source scan for interior mutability recorded) and by running "
             "2..16 threads on one shared engine with staggered starts, comparing every waveform bitwise with the sequential run.",
        note="Trusted: Lean kernel; axioms ⊆ {propext, Classical.choice, Quot.sound}; OS scheduler and allocator are sampled; the model's purity is by construction and tied through C01's correspondence.",
    ),
    "C04": dict(
        text="Theorems: HTS wildcard matching equals the declarative Matches relation; a question holds iff one pattern matches; a single-leaf tree selects its "
             "PDF; on every well-formed tree the loader's index form walked by search_node returns exactly what walking the file's own tree by node id returns "
             "(yes -> second child, no -> first); from_linear's layout; engine defaults equal the header values; every Gaussian selection can return from an accepted file is entry id-1 of the PDF list of the tree whose declared state matches and has the announced layout; accepted forward-referencing trees are total; read-back theorems (pdf_block_read_back etc.): the binary PDF block, window rows, header numbers and ranges written by a writer are returned by the reader exactly, float32 entries bit for bit. The byte-level reader is tied to the loader by "
             "parsing the same files: the driver reads the .htsvoice itself, walks the file's trees with glob on the label text and compares tree index, PDF "
             "index and every float32 entry bit for bit with Model::get_index/get_parameter, plus metadata, options, windows and defaults, on the bundled voice "
             "and on generated voices written by the harness's own .htsvoice writer.",
        note="Trusted: Lean kernel; axioms ⊆ {propext, Classical.choice, Quot.sound}; the Lean reader's grammar is validated by differential parsing, not proved against nom/serde.",
    ),
    "C18": dict(
        text="Theorem parse_no_panic: for every byte sequence the guarded reader model — which mirrors each slice, reference lookup, size product and digit "
             "accumulation of the loader as an explicit site — returns a voice or an error; the same sites are panics in the unguarded (pinned) model, each with a "
             "machine-checked witness. Size bounds (streams_/models_/windows_bounded_by_file): whatever the header claims, an accepted voice has no more streams, questions, trees, tree "
             "rows, PDF words, windows or window coefficients than the file has bytes. accepted_voice_shape: what acceptance guarantees about the parsed voice (stream count, PDF layouts, GV presence, resolved references) — and, by a kernel-evaluated example, what it does not. The defects (F6, F9) were established by the fault enumeration on the real loader and repaired (fix: e8c81ac, cb42dc8). "
             "Partial: that the real binary never hangs or allocates without bound is observed (fault enumeration under address-space and wall-clock limits), and "
             "the tie between reader model and loader is differential (panic class gates; ok/err drift is reported).",
        note="Trusted: Lean kernel; axioms ⊆ {propext, Classical.choice, Quot.sound}; nom/serde internals are outside the model; OS allocator behaviour is observed.",
    ),
}
