#!/usr/bin/env python3
"""Regenerate MANIFEST.json from checklib/props.py (claimed properties) and checklib/manifest_meta.py."""
import json, os, sys
ROOT = os.path.dirname(os.path.dirname(os.path.abspath(__file__)))
sys.path.insert(0, os.path.join(ROOT, "checklib"))
import props, manifest_meta as mm

ALL = ["C%02d" % i for i in range(1, 21)]
checks = []
for pid in ALL:
    if pid not in props.PROPS or pid not in mm.LEVEL:
        continue
    m = mm.LEVEL[pid]
    checks.append(dict(
        property_id=pid,
        quick_cmd=f"./check {pid} --tier quick",
        thorough_cmd=f"./check {pid} --tier thorough",
        evidence_file=f"/verif/evidence/{pid}.json",
        replay_cmd_template=f"./check {pid} --replay {{path}}",
        engine="lean-model+correspondence",
        level_claimed=dict(category="proof", text=m["text"], design_ref=m.get("design_ref", "DESIGN.md §5 " + pid)),
        level_note=m["note"],
        technique=m.get("technique", "Lean 4 theorems over a hand-written model + differential correspondence check against the Rust code"),
    ))
na = [dict(property_id=p, reason=mm.NOT_YET.get(p, "check not built yet in this round; see DESIGN.md §7 build order"))
      for p in ALL if p not in [c["property_id"] for c in checks]]
man = dict(
    version=1,
    setup_cmd="./setup.sh",
    hooks=dict(guard="verif-hooks",
               enable="cargo feature: the harness depends on jbonsai with features=[\"verif-hooks\"] (path dependency on /repo)",
               baseline_off_cmd="cd /repo && cargo test --workspace --no-fail-fast --offline",
               source_commits=mm.HOOK_COMMITS, add_only=True),
    engines=[dict(name="lean-model+correspondence", path="/verif/lean + /verif/harness + /verif/check",
                  serves_properties=[c["property_id"] for c in checks],
                  kind_free_text="Lean 4 model (Jb/Model, import-free, generic scalar) with property theorems (Jb/Props, Mathlib) "
                                 "and a compiled driver jbdrv; Rust harness runs the real code on generated cases; "
                                 "check diffs model vs implementation and evaluates the property oracle on the implementation")],
    checks=checks,
    notes=mm.NOTES,
    not_applicable=na,
)
json.dump(man, open(os.path.join(ROOT, "MANIFEST.json"), "w"), indent=1)
print("claimed:", [c["property_id"] for c in checks])
