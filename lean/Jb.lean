-- Root of the `Jb` library: the executable model and every property module.
import Jb.Model.Scalar
import Jb.Model.Condition
import Jb.Props.C20
import Jb.Model.Duration
import Jb.Model.Speech
import Jb.Model.Weights
import Jb.Props.C02
import Jb.Props.C08
import Jb.Props.C09
import Jb.Model.Mlpg
import Jb.Model.Vocoder
import Jb.Props.C19
import Jb.Props.C10
import Jb.Props.C05
import Jb.Props.C07
