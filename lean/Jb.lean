-- Root of the `Jb` library: the executable model and every property module.
import Jb.Model.Scalar
import Jb.Model.Condition
import Jb.Props.C20
