-- Root of the `Jb` library: the executable model and every property module.
import Jb.Model.Scalar
import Jb.Model.Condition
import Jb.Props.C20
import Jb.Model.Duration
import Jb.Model.Speech
import Jb.Model.Weights
import Jb.Props.C02
