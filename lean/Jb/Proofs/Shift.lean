/-
  C15 at trajectory level: adding a constant `h` to every static mean moves the maximum-likelihood trajectory
  by exactly `h`, provided the dynamic windows' coefficients sum to zero (delta windows do) — because the
  constant sequence `h` is then an exact solution of the shifted normal equations' difference, and the
  solution is unique (positive definiteness).
-/
import Jb.Proofs.MlpgMl

set_option linter.unusedSectionVars false

namespace Jb

variable {K : Type} [Field K] [LinearOrder K] [IsStrictOrderedRing K] [Transc K] [Consts K] [MlpgConsts K]

/-- the observations with `h` added to the static means (first window), everything else unchanged -/
def shiftStatic (obs : List (List (MeanVari K))) (h : K) : List (List (MeanVari K)) :=
  match obs with
  | [] => []
  | o0 :: os => (o0.map fun mv => ⟨mv.mean + h, mv.vari⟩) :: os

/-! ### the first component of `wuwRow` only reads the variances -/

theorem shift_kStep_fst (win : List K) (ob ob' : List (MeanVari K)) (T t : Nat)
    (hv : ∀ i, (ob'.getD i ⟨0, 0⟩).vari = (ob.getD i ⟨0, 0⟩).vari)
    (acc acc' : List K × K) (ha : acc'.1 = acc.1) (k : Nat) :
    (asmKStep win ob' T t acc' k).1 = (asmKStep win ob T t acc k).1 := by
  unfold asmKStep
  rw [hv]
  split_ifs
  · exact ha
  · exact ha
  · exact ha
  · simp only [ha]

theorem shift_kFold_fst (win : List K) (ob ob' : List (MeanVari K)) (T t : Nat)
    (hv : ∀ i, (ob'.getD i ⟨0, 0⟩).vari = (ob.getD i ⟨0, 0⟩).vari) :
    ∀ (ks : List Nat) (acc acc' : List K × K), acc'.1 = acc.1 →
      (ks.foldl (asmKStep win ob' T t) acc').1 = (ks.foldl (asmKStep win ob T t) acc).1 := by
  intro ks
  induction ks with
  | nil => intro acc acc' ha; exact ha
  | cons k rest ih =>
    intro acc acc' ha
    rw [List.foldl_cons, List.foldl_cons]
    exact ih _ _ (shift_kStep_fst win ob ob' T t hv acc acc' ha k)

theorem shift_winStep_fst (win : List K) (ob ob' : List (MeanVari K)) (T t : Nat)
    (hv : ∀ i, (ob'.getD i ⟨0, 0⟩).vari = (ob.getD i ⟨0, 0⟩).vari)
    (acc acc' : List K × K) (ha : acc'.1 = acc.1) :
    (asmWinStep T t acc' (win, ob')).1 = (asmWinStep T t acc (win, ob)).1 := by
  unfold asmWinStep
  exact shift_kFold_fst win ob ob' T t hv _ acc acc' ha

theorem shift_fold_fst (T t : Nat) :
    ∀ (l : List (List K × List (MeanVari K))) (acc acc' : List K × K), acc'.1 = acc.1 →
      (l.foldl (asmWinStep T t) acc').1 = (l.foldl (asmWinStep T t) acc).1 := by
  intro l
  induction l with
  | nil => intro acc acc' ha; exact ha
  | cons wo rest ih =>
    intro acc acc' ha
    obtain ⟨win, ob⟩ := wo
    rw [List.foldl_cons, List.foldl_cons]
    exact ih _ _ (shift_winStep_fst win ob ob T t (fun _ => rfl) acc acc' ha)

/-- if the first observation sequences have the same variances, the band rows agree -/
theorem shift_wuwRow_fst (windows : List (List K)) (o0 o0' : List (MeanVari K)) (os : List (List (MeanVari K)))
    (hv : ∀ i, (o0'.getD i ⟨0, 0⟩).vari = (o0.getD i ⟨0, 0⟩).vari) (T width t : Nat) :
    (wuwRow windows (o0' :: os) T width t).1 = (wuwRow windows (o0 :: os) T width t).1 := by
  rw [asm_wuwRow_def, asm_wuwRow_def]
  cases windows with
  | nil => rfl
  | cons w ws =>
    simp only [List.zip_cons_cons, List.foldl_cons]
    exact shift_fold_fst T t _ _ _ (shift_winStep_fst w o0 o0' T t hv _ _ rfl)

theorem shift_getD_vari (o : List (MeanVari K)) (h : K) (i : Nat) :
    ((o.map fun mv => (⟨mv.mean + h, mv.vari⟩ : MeanVari K)).getD i ⟨0, 0⟩).vari = (o.getD i ⟨0, 0⟩).vari := by
  rcases Nat.lt_or_ge i o.length with hi | hi
  · rw [List.getD_eq_getElem _ _ (by simpa using hi), List.getD_eq_getElem _ _ hi]
    simp
  · rw [List.getD_eq_default _ _ (by simpa using hi), List.getD_eq_default _ _ hi]

theorem shift_getD_mean (o : List (MeanVari K)) (h : K) (i : Nat) (hi : i < o.length) :
    ((o.map fun mv => (⟨mv.mean + h, mv.vari⟩ : MeanVari K)).getD i ⟨0, 0⟩).mean = (o.getD i ⟨0, 0⟩).mean + h := by
  rw [List.getD_eq_getElem _ _ (by simpa using hi), List.getD_eq_getElem _ _ hi]
  simp

/-- the band matrix does not depend on the means -/
theorem calcWuwWum_shift_wuw (windows : List (List K)) (obs : List (List (MeanVari K))) (h : K)
    (m m' : MlpgMatrix K) (hm : calcWuwWum windows obs = some m) (hm' : calcWuwWum windows (shiftStatic obs h) = some m') :
    m'.wuw = m.wuw ∧ m'.width = m.width := by
  cases obs with
  | nil => simp [calcWuwWum] at hm
  | cons o0 os =>
    simp only [shiftStatic, calcWuwWum, Option.some.injEq] at hm hm'
    subst hm
    subst hm'
    refine ⟨?_, rfl⟩
    simp only [List.length_map, List.map_map]
    apply List.map_congr_left
    intro t _
    exact shift_wuwRow_fst windows o0 _ os (shift_getD_vari o0 h) _ _ t

/-! ### uniqueness of the solution of the dense normal equations -/

theorem shift_unique (ws : List (List K)) (o0 : List (MeanVari K)) (os : List (List (MeanVari K))) (T : Nat)
    (hobs : ∀ o ∈ o0 :: os, o.length = T) (hedge : EdgeZero (([1] : List K) :: ws) (o0 :: os) T)
    (hnonneg : ∀ o ∈ o0 :: os, ∀ mv ∈ o, 0 ≤ mv.vari) (hpos : ∀ mv ∈ o0, 0 < mv.vari)
    (c1 c2 : List K) (h1 : c1.length = T) (h2 : c2.length = T)
    (heq : ∀ t, t < T →
      ((Finset.range T).sum fun t' => wpwEntry (([1] : List K) :: ws) (o0 :: os) T t t' * c1.getD t' 0) =
      ((Finset.range T).sum fun t' => wpwEntry (([1] : List K) :: ws) (o0 :: os) T t t' * c2.getD t' 0)) :
    c1 = c2 := by
  have hw := length_le_width (([1] : List K) :: ws)
  have hw1 : 1 ≤ maxWidth (([1] : List K) :: ws) * 2 + 1 := by omega
  generalize maxWidth (([1] : List K) :: ws) * 2 + 1 = W at hw hw1
  have hdlen : ((List.range T).map fun t => c1.getD t 0 - c2.getD t 0).length = T := by simp
  have hd : ∀ t, t < T →
      ((List.range T).map fun t => c1.getD t 0 - c2.getD t 0).getD t 0 = c1.getD t 0 - c2.getD t 0 := by
    intro t ht
    rw [List.getD_eq_getElem _ _ (by rw [hdlen]; exact ht)]
    simp
  have hzero : ∀ t, t < T → ((List.range T).map fun t => c1.getD t 0 - c2.getD t 0).getD t 0 = 0 := by
    by_contra hc
    push Not at hc
    obtain ⟨t, ht, hne⟩ := hc
    have hp := assembled_posdef ws o0 os T W hw hw1 hobs hedge hnonneg hpos _ hdlen ⟨t, ht, hne⟩
    have hq : bandQuad W (assembledRows (([1] : List K) :: ws) (o0 :: os) T W)
        ((List.range T).map fun t => c1.getD t 0 - c2.getD t 0) = 0 := by
      unfold bandQuad
      rw [assembledRows_length]
      apply Finset.sum_eq_zero
      intro u hu
      rw [assembled_mulVec _ _ T W hw hw1 hedge _ u (Finset.mem_range.mp hu)]
      have hs : ((Finset.range T).sum fun t' => wpwEntry (([1] : List K) :: ws) (o0 :: os) T u t' *
          ((List.range T).map fun t => c1.getD t 0 - c2.getD t 0).getD t' 0) = 0 := by
        rw [Finset.sum_congr rfl (fun t' ht' => by rw [hd t' (Finset.mem_range.mp ht'), mul_sub]),
          Finset.sum_sub_distrib, heq u (Finset.mem_range.mp hu), sub_self]
      rw [hs, mul_zero]
    rw [hq] at hp
    exact lt_irrefl _ hp
  apply List.ext_getElem (h1.trans h2.symm)
  intro i hi1 hi2
  have hz := hzero i (h1 ▸ hi1)
  rw [hd i (h1 ▸ hi1), List.getD_eq_getElem _ _ hi1, List.getD_eq_getElem _ _ hi2] at hz
  exact sub_eq_zero.mp hz

/-! ### row sums of `W'PW` -/

theorem shift_list_getD_sum (w : List K) : (Finset.range w.length).sum (fun k => w.getD k 0) = w.sum := by
  rw [← asm_sum_map_range]
  congr 1
  apply List.ext_getElem
  · simp
  · intro i h1 h2
    simp only [List.getElem_map, List.getElem_range]
    exact List.getD_eq_getElem _ _ h2

/-- an observation whose span lies inside `[0, T)` sees all its coefficients -/
theorem shift_winCoef_sum (w : List K) (T s : Nat) (hl : w.length / 2 ≤ s)
    (hr : s + (w.length - 1 - w.length / 2) < T) :
    (Finset.range T).sum (fun t' => winCoef w s t') = w.sum := by
  rw [← shift_list_getD_sum]
  unfold winCoef
  rw [← Finset.sum_filter]
  refine Finset.sum_nbij' (fun t' => t' + w.length / 2 - s) (fun k => k + s - w.length / 2) ?_ ?_ ?_ ?_ ?_
  · intro t' ht'
    simp only [Finset.mem_filter, Finset.mem_range] at ht' ⊢
    omega
  · intro k hk
    simp only [Finset.mem_filter, Finset.mem_range] at hk ⊢
    omega
  · intro t' ht'
    simp only [Finset.mem_filter, Finset.mem_range] at ht'
    omega
  · intro k hk
    simp only [Finset.mem_range] at hk
    omega
  · intro t' _
    rfl

theorem shift_win_rowsum (win : List K) (p : Nat → K) (T t : Nat) :
    ((Finset.range T).sum fun t' => (Finset.range T).sum fun s => p s * winCoef win s t * winCoef win s t') =
      (Finset.range T).sum fun s => p s * winCoef win s t * (Finset.range T).sum fun t' => winCoef win s t' := by
  rw [Finset.sum_comm]
  apply Finset.sum_congr rfl
  intro s _
  rw [Finset.mul_sum]

theorem shift_list_sum_comm {β : Type} (l : List β) (T : Nat) (f : β → Nat → K) :
    ((Finset.range T).sum fun t' => (l.map fun b => f b t').sum) =
      (l.map fun b => (Finset.range T).sum fun t' => f b t').sum := by
  induction l with
  | nil => simp
  | cons b rest ih =>
    simp only [List.map_cons, List.sum_cons]
    rw [Finset.sum_add_distrib, ih]

theorem shift_list_sum_zero (l : List K) (h : ∀ a ∈ l, a = 0) : l.sum = 0 := by
  induction l with
  | nil => simp
  | cons a rest ih =>
    rw [List.sum_cons, h a List.mem_cons_self, ih fun b hb => h b (List.mem_cons_of_mem _ hb), add_zero]

theorem shift_static_pick (T t : Nat) (ht : t < T) (g : Nat → K) :
    ((Finset.range T).sum fun s => g s * winCoef ([1] : List K) s t) = g t := by
  simp only [winCoef_static, mul_ite, mul_one, mul_zero]
  rw [Finset.sum_ite_eq (Finset.range T) t g, if_pos (Finset.mem_range.mpr ht)]

/-- **row sums**: with zero-sum dynamic windows, row `t` of `W'PW` sums to the static precision at `t` -/
theorem shift_wpw_rowsum (ws : List (List K)) (o0 : List (MeanVari K)) (os : List (List (MeanVari K))) (T : Nat)
    (hedge : EdgeZero (([1] : List K) :: ws) (o0 :: os) T) (hsum : ∀ w ∈ ws, w.sum = 0) (t : Nat) (ht : t < T) :
    ((Finset.range T).sum fun t' => wpwEntry (([1] : List K) :: ws) (o0 :: os) T t t') =
      (o0.getD t ⟨0, 0⟩).vari := by
  unfold wpwEntry
  rw [shift_list_sum_comm]
  simp only [List.zip_cons_cons, List.map_cons, List.sum_cons]
  rw [shift_list_sum_zero, add_zero]
  · rw [shift_win_rowsum ([1] : List K) (fun s => (o0.getD s ⟨0, 0⟩).vari) T t]
    have hone : ∀ s ∈ Finset.range T, (o0.getD s ⟨0, 0⟩).vari * winCoef ([1] : List K) s t *
        ((Finset.range T).sum fun t' => winCoef ([1] : List K) s t') =
        (o0.getD s ⟨0, 0⟩).vari * winCoef ([1] : List K) s t := by
      intro s hs
      rw [shift_winCoef_sum ([1] : List K) T s (by simp) (by simpa using Finset.mem_range.mp hs)]
      simp
    rw [Finset.sum_congr rfl hone]
    exact shift_static_pick T t ht (fun s => (o0.getD s ⟨0, 0⟩).vari)
  · intro a ha
    simp only [List.mem_map] at ha
    obtain ⟨wo, hwo, rfl⟩ := ha
    rw [shift_win_rowsum wo.1 (fun s => (wo.2.getD s ⟨0, 0⟩).vari) T t]
    apply Finset.sum_eq_zero
    intro s hs
    rw [Finset.mem_range] at hs
    by_cases hcut : s < wo.1.length / 2 ∨ T ≤ s + (wo.1.length - 1 - wo.1.length / 2)
    · have := hedge wo (by rw [List.zip_cons_cons]; exact List.mem_cons_of_mem _ hwo) s hs hcut
      simp only [this, zero_mul]
    · rw [shift_winCoef_sum wo.1 T s (by omega) (by omega), hsum wo.1 (List.of_mem_zip hwo).1, mul_zero]

/-! ### effect of the shift on the dense system -/

theorem shift_wpwEntry (ws : List (List K)) (o0 : List (MeanVari K)) (os : List (List (MeanVari K))) (h : K)
    (T t t' : Nat) :
    wpwEntry (([1] : List K) :: ws) ((o0.map fun mv => (⟨mv.mean + h, mv.vari⟩ : MeanVari K)) :: os) T t t' =
      wpwEntry (([1] : List K) :: ws) (o0 :: os) T t t' := by
  unfold wpwEntry
  simp only [List.zip_cons_cons, List.map_cons, List.sum_cons]
  congr 1
  apply Finset.sum_congr rfl
  intro s _
  rw [shift_getD_vari]

theorem shift_wpmEntry (ws : List (List K)) (o0 : List (MeanVari K)) (os : List (List (MeanVari K))) (h : K)
    (T t : Nat) (hT : o0.length = T) (ht : t < T) :
    wpmEntry (([1] : List K) :: ws) ((o0.map fun mv => (⟨mv.mean + h, mv.vari⟩ : MeanVari K)) :: os) T t =
      wpmEntry (([1] : List K) :: ws) (o0 :: os) T t + h * (o0.getD t ⟨0, 0⟩).vari := by
  unfold wpmEntry
  simp only [List.zip_cons_cons, List.map_cons, List.sum_cons]
  rw [add_right_comm]
  congr 1
  have hterm : ∀ s ∈ Finset.range T,
      ((o0.map fun mv => (⟨mv.mean + h, mv.vari⟩ : MeanVari K)).getD s ⟨0, 0⟩).vari *
        ((o0.map fun mv => (⟨mv.mean + h, mv.vari⟩ : MeanVari K)).getD s ⟨0, 0⟩).mean * winCoef ([1] : List K) s t =
      (o0.getD s ⟨0, 0⟩).vari * (o0.getD s ⟨0, 0⟩).mean * winCoef ([1] : List K) s t +
        h * (o0.getD s ⟨0, 0⟩).vari * winCoef ([1] : List K) s t := by
    intro s hs
    rw [shift_getD_vari, shift_getD_mean o0 h s (by rw [hT]; exact Finset.mem_range.mp hs)]
    ring
  rw [Finset.sum_congr rfl hterm, Finset.sum_add_distrib]
  congr 1
  exact shift_static_pick T t ht (fun s => h * (o0.getD s ⟨0, 0⟩).vari)

/-- **Shift law for MLPG.** -/
theorem mlpg_shift (windows : List (List K)) (obs : List (List (MeanVari K))) (T : Nat)
    (hstatic : windows.head? = some [1]) (hlen : windows.length = obs.length)
    (hobs : ∀ o ∈ obs, o.length = T) (hedge : EdgeZero windows obs T)
    (hnonneg : ∀ o ∈ obs, ∀ mv ∈ o, 0 ≤ mv.vari) (hpos : ∀ mv ∈ obs.headD [], 0 < mv.vari)
    (hsum : ∀ w ∈ windows.tail, w.sum = 0)
    (h : K) (m m' : MlpgMatrix K)
    (hm : calcWuwWum windows obs = some m) (hm' : calcWuwWum windows (shiftStatic obs h) = some m') :
    m'.solve = m.solve.map (· + h) := by
  cases windows with
  | nil => simp at hstatic
  | cons w0 ws =>
    simp only [List.head?_cons, Option.some.injEq] at hstatic
    subst hstatic
    cases obs with
    | nil => simp at hlen
    | cons o0 os =>
      have hT : o0.length = T := hobs o0 List.mem_cons_self
      simp only [List.headD_cons] at hpos
      simp only [List.tail_cons] at hsum
      simp only [shiftStatic] at hm'
      -- the hypotheses transfer to the shifted observations
      have hlen' : (([1] : List K) :: ws).length =
          ((o0.map fun mv => (⟨mv.mean + h, mv.vari⟩ : MeanVari K)) :: os).length := by
        simpa using hlen
      have hobs' : ∀ o ∈ (o0.map fun mv => (⟨mv.mean + h, mv.vari⟩ : MeanVari K)) :: os, o.length = T := by
        intro o ho
        rcases List.mem_cons.mp ho with rfl | ho
        · rw [List.length_map]; exact hT
        · exact hobs o (List.mem_cons_of_mem _ ho)
      have hedge' : EdgeZero (([1] : List K) :: ws)
          ((o0.map fun mv => (⟨mv.mean + h, mv.vari⟩ : MeanVari K)) :: os) T := by
        intro wo hwo s hs hcut
        rw [List.zip_cons_cons] at hwo
        rcases List.mem_cons.mp hwo with rfl | hwo
        · simp only
          rw [shift_getD_vari]
          exact hedge (([1] : List K), o0) (by rw [List.zip_cons_cons]; exact List.mem_cons_self) s hs hcut
        · exact hedge wo (by rw [List.zip_cons_cons]; exact List.mem_cons_of_mem _ hwo) s hs hcut
      have hnonneg' : ∀ o ∈ (o0.map fun mv => (⟨mv.mean + h, mv.vari⟩ : MeanVari K)) :: os,
          ∀ mv ∈ o, 0 ≤ mv.vari := by
        intro o ho mv hmv
        rcases List.mem_cons.mp ho with rfl | ho
        · simp only [List.mem_map] at hmv
          obtain ⟨mv0, hmv0, rfl⟩ := hmv
          exact hnonneg o0 List.mem_cons_self mv0 hmv0
        · exact hnonneg o (List.mem_cons_of_mem _ ho) mv hmv
      have hpos' : ∀ mv ∈ (((o0.map fun mv => (⟨mv.mean + h, mv.vari⟩ : MeanVari K)) :: os).headD []),
          0 < mv.vari := by
        intro mv hmv
        simp only [List.headD_cons, List.mem_map] at hmv
        obtain ⟨mv0, hmv0, rfl⟩ := hmv
        exact hpos mv0 hmv0
      obtain ⟨hl, hsol⟩ := mlpg_solves_normal_equations (([1] : List K) :: ws) (o0 :: os) T rfl hlen hobs hedge
        hnonneg (by simpa using hpos) m hm
      obtain ⟨hl', hsol'⟩ := mlpg_solves_normal_equations (([1] : List K) :: ws) _ T rfl hlen' hobs' hedge'
        hnonneg' hpos' m' hm'
      apply shift_unique ws o0 os T hobs hedge hnonneg hpos _ _ hl' (by rw [List.length_map]; exact hl)
      intro t ht
      have e1 := hsol' t ht
      simp only [shift_wpwEntry] at e1
      rw [e1, shift_wpmEntry ws o0 os h T t hT ht, ← hsol t ht,
        ← shift_wpw_rowsum ws o0 os T hedge hsum t ht, Finset.mul_sum, ← Finset.sum_add_distrib]
      apply Finset.sum_congr rfl
      intro t' ht'
      rw [Finset.mem_range] at ht'
      rw [List.getD_eq_getElem _ _ (by rw [hl]; exact ht'),
        List.getD_eq_getElem _ _ (by rw [List.length_map, hl]; exact ht'), List.getElem_map]
      ring

end Jb
