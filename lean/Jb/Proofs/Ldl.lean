/-
  The banded LDLᵀ solver of `Jb/Model/Mlpg.lean` (`ldlRows`, `forwardSub`, `backwardSub`) solves the
  symmetric band system it is given, whenever every pivot it divides by is non-zero.
-/
import Jb.Model.Mlpg
import Mathlib.Algebra.Order.Field.Basic
import Mathlib.Algebra.BigOperators.Intervals
import Mathlib.Tactic.Ring
import Mathlib.Tactic.Linarith
import Mathlib.Tactic.FieldSimp

set_option linter.unusedSectionVars false

namespace Jb

variable {K : Type} [Field K] [LinearOrder K] [IsStrictOrderedRing K]

/-- entry `(t, j)` of a banded row store (0 outside) -/
def bandAt (rows : List (List K)) (t j : Nat) : K := (rows.getD t []).getD j 0

/-- `(A c)[t]` for the symmetric band matrix `A[t][t+j] = A[t+j][t] = rows[t][j]`, `0 ≤ j < w`. -/
def bandMulVec (w : Nat) (rows : List (List K)) (c : List K) (t : Nat) : K :=
  (Finset.range w).sum (fun j => if t + j < rows.length then bandAt rows t j * c.getD (t + j) 0 else 0) +
  (Finset.range w).sum (fun j => if 1 ≤ j ∧ j ≤ t then bandAt rows (t - j) j * c.getD (t - j) 0 else 0)

/-- **LDLᵀ solves.** -/
theorem ldl_solves (w : Nat) (hw : 1 ≤ w) (rows : List (List K)) (r : List K)
    (hr : r.length = rows.length) (hrow : ∀ row ∈ rows, row.length = w)
    (hpiv : ∀ t, t < rows.length → bandAt (ldlRows w rows) t 0 ≠ 0) :
    let l := ldlRows w rows
    let c := backwardSub w l (forwardSub w l r)
    c.length = rows.length ∧ ∀ t, t < rows.length → bandMulVec w rows c t = r.getD t 0 := by
  sorry

end Jb
