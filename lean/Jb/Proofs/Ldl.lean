/-
  The banded LDLᵀ solver of `Jb/Model/Mlpg.lean` (`ldlRows`, `forwardSub`, `backwardSub`) solves the
  symmetric band system it is given, whenever every pivot it divides by is non-zero.
-/
import Jb.Model.Mlpg
import Jb.Proofs.LdlAux
import Mathlib.Data.List.GetD
import Mathlib.Algebra.Order.Field.Basic
import Mathlib.Algebra.BigOperators.Intervals
import Mathlib.Tactic.Ring
import Mathlib.Tactic.Linarith
import Mathlib.Tactic.FieldSimp

set_option linter.unusedSectionVars false

namespace Jb

open Finset

variable {K : Type} [Field K] [LinearOrder K] [IsStrictOrderedRing K]

/-- entry `(t, j)` of a banded row store (0 outside) -/
def bandAt (rows : List (List K)) (t j : Nat) : K := (rows.getD t []).getD j 0

/-- `(A c)[t]` for the symmetric band matrix `A[t][t+j] = A[t+j][t] = rows[t][j]`, `0 ≤ j < w`. -/
def bandMulVec (w : Nat) (rows : List (List K)) (c : List K) (t : Nat) : K :=
  (Finset.range w).sum (fun j => if t + j < rows.length then bandAt rows t j * c.getD (t + j) 0 else 0) +
  (Finset.range w).sum (fun j => if 1 ≤ j ∧ j ≤ t then bandAt rows (t - j) j * c.getD (t - j) 0 else 0)

/-! ### unfolding the folds of the model -/

theorem foldl_sub_range (f : ℕ → K) (x : K) (n : ℕ) :
    (List.range n).foldl (fun acc i => acc - f i) x = x - ∑ i ∈ range n, f i := by
  induction n with
  | zero => simp
  | succ n ih =>
    rw [List.range_succ, List.foldl_append, ih, sum_range_succ]
    simp only [List.foldl_cons, List.foldl_nil]
    ring

theorem ldlRow_length (w : ℕ) (hw : 1 ≤ w) (prev : List (List K)) (row : List K) :
    (ldlRow w prev row).length = w := by
  simp only [ldlRow, List.length_cons, List.length_map, List.length_range]
  omega

theorem ldlRow_getD_zero (w : ℕ) (prev : List (List K)) (row : List K) :
    (ldlRow w prev row).getD 0 0 = row.getD 0 0 -
      ∑ i0 ∈ range (min w (prev.length + 1) - 1),
        (prev.getD i0 []).getD (i0 + 1) 0 * (prev.getD i0 []).getD (i0 + 1) 0
          * (prev.getD i0 []).getD 0 0 := by
  simp only [ldlRow, List.getD_cons_zero]
  rw [foldl_sub_range]

theorem ldlRow_getD_succ (w : ℕ) (prev : List (List K)) (row : List K) (j : ℕ) (hj : j + 1 < w) :
    (ldlRow w prev row).getD (j + 1) 0 = (row.getD (j + 1) 0 -
      ∑ i0 ∈ range (min (w - (j + 1)) (prev.length + 1) - 1),
        (prev.getD i0 []).getD (i0 + 1) 0 * (prev.getD i0 []).getD (j + 1 + (i0 + 1)) 0
          * (prev.getD i0 []).getD 0 0) / (ldlRow w prev row).getD 0 0 := by
  have hj' : j < w - 1 := by omega
  simp only [ldlRow, List.getD_cons_zero, List.getD_cons_succ]
  rw [List.getD_eq_getElem?_getD, List.getElem?_map, List.getElem?_range hj']
  simp only [Option.map_some, Option.getD_some]
  rw [foldl_sub_range]

theorem ldlRows_snoc (w : ℕ) (rows : List (List K)) (row : List K) :
    ldlRows w (rows ++ [row]) = ldlRows w rows ++ [ldlRow w (ldlRows w rows).reverse row] := by
  simp [ldlRows, List.foldl_append]

theorem ldlRows_length (w : ℕ) (rows : List (List K)) : (ldlRows w rows).length = rows.length := by
  induction rows using List.reverseRecOn with
  | nil => simp [ldlRows]
  | append_singleton rows row ih => rw [ldlRows_snoc]; simp [ih]

theorem getD_take_reverse {β : Type} (L : List β) (t i0 : ℕ) (ht : t ≤ L.length) (hi : i0 < t) (d : β) :
    (L.take t).reverse.getD i0 d = L.getD (t - 1 - i0) d := by
  grind

theorem ldlRows_getD (w : ℕ) (rows : List (List K)) (t : ℕ) (ht : t < rows.length) :
    (ldlRows w rows).getD t [] =
      ldlRow w ((ldlRows w rows).take t).reverse (rows.getD t []) := by
  induction rows using List.reverseRecOn with
  | nil => simp at ht
  | append_singleton rows row ih =>
    rw [ldlRows_snoc]
    simp only [List.length_append, List.length_singleton] at ht
    rcases Nat.lt_or_ge t rows.length with h | h
    · rw [List.getD_append _ _ _ _ (by rw [ldlRows_length]; exact h),
        List.getD_append _ _ _ _ h, ih h,
        List.take_append_of_le_length (by rw [ldlRows_length]; omega)]
    · have : t = rows.length := by omega
      subst this
      rw [List.getD_append_right _ _ _ _ (by rw [ldlRows_length]),
        List.getD_append_right _ _ _ _ (le_refl _), ldlRows_length]
      simp [ldlRows_length]

theorem bandAt_ldlRows_high (w : ℕ) (hw : 1 ≤ w) (rows : List (List K)) (k j : ℕ) (hj : w ≤ j) :
    bandAt (ldlRows w rows) k j = 0 := by
  unfold bandAt
  rcases Nat.lt_or_ge k rows.length with h | h
  · rw [ldlRows_getD w rows k h]
    exact List.getD_eq_default _ _ (by rw [ldlRow_length w hw]; exact hj)
  · have h0 : (ldlRows w rows).getD k [] = [] :=
      List.getD_eq_default _ _ (by rw [ldlRows_length]; exact h)
    rw [h0]
    simp

theorem bandAt_high (w : ℕ) (rows : List (List K)) (hrow : ∀ row ∈ rows, row.length = w)
    (k j : ℕ) (hj : w ≤ j) : bandAt rows k j = 0 := by
  unfold bandAt
  rcases Nat.lt_or_ge k rows.length with h | h
  · rw [List.getD_eq_getElem _ _ h]
    exact List.getD_eq_default _ _ (by rw [hrow _ (List.getElem_mem h)]; exact hj)
  · rw [List.getD_eq_default _ _ h]
    simp

theorem ldl_prev_length (w : ℕ) (rows : List (List K)) (t : ℕ) (ht : t < rows.length) :
    ((ldlRows w rows).take t).reverse.length = t := by
  rw [List.length_reverse, List.length_take, ldlRows_length]
  omega

/-- pivot recurrence, unbounded form -/
theorem ldl_Rd (w : ℕ) (hw : 1 ≤ w) (rows : List (List K)) (t : ℕ) (ht : t < rows.length) :
    bandAt (ldlRows w rows) t 0 = bandAt rows t 0 -
      ∑ k ∈ range t, bandAt (ldlRows w rows) k (t - k) * bandAt (ldlRows w rows) k (t - k)
        * bandAt (ldlRows w rows) k 0 := by
  have hz : ∀ i, min w (t + 1) - 1 ≤ i → i < t →
      (fun k => bandAt (ldlRows w rows) k (t - k) * bandAt (ldlRows w rows) k (t - k)
        * bandAt (ldlRows w rows) k 0) (t - 1 - i) = 0 := by
    intro i h1 h2
    simp only
    rw [bandAt_ldlRows_high w hw rows _ _ (by omega)]
    ring
  rw [← sum_recent_eq _ (by omega) hz]
  conv_lhs => rw [bandAt, ldlRows_getD w rows t ht, ldlRow_getD_zero, ldl_prev_length w rows t ht]
  congr 1
  apply sum_congr rfl
  intro i0 hi
  simp only [mem_range] at hi
  have hi' : i0 < t := by omega
  have h2 : t - (t - 1 - i0) = i0 + 1 := by omega
  rw [getD_take_reverse _ _ _ (by rw [ldlRows_length]; omega) hi']
  simp only [bandAt, h2]

/-- off-diagonal recurrence, unbounded form -/
theorem ldl_Rl (w : ℕ) (hw : 1 ≤ w) (rows : List (List K)) (hrow : ∀ row ∈ rows, row.length = w)
    (t : ℕ) (ht : t < rows.length) (hd : bandAt (ldlRows w rows) t 0 ≠ 0) (j : ℕ) (hj : 1 ≤ j) :
    bandAt (ldlRows w rows) t j * bandAt (ldlRows w rows) t 0 = bandAt rows t j -
      ∑ k ∈ range t, bandAt (ldlRows w rows) k (t - k) * bandAt (ldlRows w rows) k (t - k + j)
        * bandAt (ldlRows w rows) k 0 := by
  rcases Nat.lt_or_ge j w with hjw | hjw
  · have hz : ∀ i, min (w - j) (t + 1) - 1 ≤ i → i < t →
        (fun k => bandAt (ldlRows w rows) k (t - k) * bandAt (ldlRows w rows) k (t - k + j)
          * bandAt (ldlRows w rows) k 0) (t - 1 - i) = 0 := by
      intro i h1 h2
      simp only
      rw [bandAt_ldlRows_high w hw rows _ (t - (t - 1 - i) + j) (by omega)]
      ring
    rw [← sum_recent_eq _ (by omega) hz]
    obtain ⟨j', rfl⟩ : ∃ j', j = j' + 1 := ⟨j - 1, by omega⟩
    have hL : bandAt (ldlRows w rows) t (j' + 1) =
        (ldlRow w ((ldlRows w rows).take t).reverse (rows.getD t [])).getD (j' + 1) 0 := by
      rw [bandAt, ldlRows_getD w rows t ht]
    have hD : bandAt (ldlRows w rows) t 0 =
        (ldlRow w ((ldlRows w rows).take t).reverse (rows.getD t [])).getD 0 0 := by
      rw [bandAt, ldlRows_getD w rows t ht]
    rw [hD] at hd
    rw [hL, hD, ldlRow_getD_succ w _ _ j' hjw, div_mul_cancel₀ _ hd, ldl_prev_length w rows t ht]
    congr 1
    apply sum_congr rfl
    intro i0 hi
    simp only [mem_range] at hi
    have hi' : i0 < t := by omega
    have h2 : t - (t - 1 - i0) = i0 + 1 := by omega
    have h3 : i0 + 1 + (j' + 1) = j' + 1 + (i0 + 1) := by omega
    rw [getD_take_reverse _ _ _ (by rw [ldlRows_length]; omega) hi']
    simp only [bandAt, h2, h3]
  · rw [bandAt_ldlRows_high w hw rows t j hjw, bandAt_high w rows hrow t j hjw, zero_mul]
    symm
    rw [sub_eq_zero]
    symm
    apply sum_eq_zero
    intro k _
    rw [bandAt_ldlRows_high w hw rows k (t - k + j) (by omega)]
    ring

/-! ### forward substitution -/

/-- the fold step of `forwardSub`, with the inner fold already summed -/
def fwdStep (w : ℕ) (st : List (List K) × List K) (x : List K × K) : List (List K) × List K :=
  (x.1 :: st.1,
    (x.2 - ∑ i0 ∈ range (min w (st.2.length + 1) - 1),
      (st.1.getD i0 []).getD (i0 + 1) 0 * st.2.getD i0 0) :: st.2)

def fwd (w : ℕ) (xs : List (List K × K)) : List (List K) × List K :=
  xs.foldl (fwdStep w) ([], [])

theorem forwardSub_eq (w : ℕ) (lrows : List (List K)) (r : List K) :
    forwardSub w lrows r = (fwd w (lrows.zip r)).2.reverse := by
  simp only [forwardSub, fwd]
  congr 3
  funext st x
  rcases st with ⟨a, b⟩
  simp only [fwdStep]
  rw [foldl_sub_range]

theorem fwd_snoc (w : ℕ) (xs : List (List K × K)) (x : List K × K) :
    fwd w (xs ++ [x]) = fwdStep w (fwd w xs) x := by
  simp [fwd, List.foldl_append]

theorem fwd_fst (w : ℕ) (xs : List (List K × K)) : (fwd w xs).1 = (xs.map Prod.fst).reverse := by
  induction xs using List.reverseRecOn with
  | nil => simp [fwd]
  | append_singleton xs x ih => rw [fwd_snoc]; simp [fwdStep, ih]

theorem fwd_snd_length (w : ℕ) (xs : List (List K × K)) : (fwd w xs).2.length = xs.length := by
  induction xs using List.reverseRecOn with
  | nil => simp [fwd]
  | append_singleton xs x ih => rw [fwd_snoc]; simp [fwdStep, ih]

theorem fwd_spec (w : ℕ) (xs : List (List K × K)) (t : ℕ) (ht : t < xs.length) :
    (fwd w xs).2.reverse.getD t 0 = (xs.getD t ([], 0)).2 -
      ∑ i0 ∈ range (min w (t + 1) - 1),
        ((xs.getD (t - 1 - i0) ([], 0)).1).getD (i0 + 1) 0
          * (fwd w xs).2.reverse.getD (t - 1 - i0) 0 := by
  induction xs using List.reverseRecOn with
  | nil => simp at ht
  | append_singleton xs x ih =>
    simp only [List.length_append, List.length_singleton] at ht
    have hG : (fwd w (xs ++ [x])).2.reverse = (fwd w xs).2.reverse ++
        [x.2 - ∑ i0 ∈ range (min w (xs.length + 1) - 1),
          ((fwd w xs).1.getD i0 []).getD (i0 + 1) 0 * (fwd w xs).2.getD i0 0] := by
      rw [fwd_snoc]
      simp [fwdStep, fwd_snd_length]
    have hlen : (fwd w xs).2.reverse.length = xs.length := by
      rw [List.length_reverse, fwd_snd_length]
    rw [hG]
    rcases Nat.lt_or_ge t xs.length with h | h
    · rw [List.getD_append _ _ _ _ (by rw [hlen]; exact h), List.getD_append _ _ _ _ h, ih h]
      congr 1
      apply sum_congr rfl
      intro i0 _
      rw [List.getD_append (fwd w xs).2.reverse _ _ _ (by rw [hlen]; omega),
        List.getD_append xs _ _ _ (by omega)]
    · have : t = xs.length := by omega
      subst this
      rw [List.getD_append_right _ _ _ _ (by rw [hlen]),
        List.getD_append_right _ _ _ _ (le_refl _), hlen]
      simp only [Nat.sub_self, List.getD_cons_zero]
      congr 1
      apply sum_congr rfl
      intro i0 hi
      simp only [mem_range] at hi
      have hi' : i0 < xs.length := by omega
      rw [List.getD_append (fwd w xs).2.reverse _ _ _ (by rw [hlen]; omega),
        List.getD_append xs _ _ _ (by omega)]
      rw [fwd_fst, List.getD_reverse _ (by rw [List.length_map]; exact hi'), List.length_map]
      rw [List.getD_reverse (l := (fwd w xs).2) _ (by rw [fwd_snd_length]; omega), fwd_snd_length]
      have h5 : xs.length - 1 - (xs.length - 1 - i0) = i0 := by omega
      rw [h5]
      congr 2
      exact List.getD_map xs (([], 0) : List K × K) Prod.fst

/-! ### backward substitution -/

def bwd (w : ℕ) (xs : List (List K × K)) : List K :=
  xs.foldr (fun x acc =>
    (x.2 / x.1.getD 0 0 - ∑ i0 ∈ range (min w (acc.length + 1) - 1),
      x.1.getD (i0 + 1) 0 * acc.getD i0 0) :: acc) []

theorem backwardSub_eq (w : ℕ) (lrows : List (List K)) (g : List K) :
    backwardSub w lrows g = bwd w (lrows.zip g) := by
  unfold backwardSub bwd
  congr 1
  funext x acc
  rw [foldl_sub_range]

theorem bwd_length (w : ℕ) (xs : List (List K × K)) : (bwd w xs).length = xs.length := by
  induction xs with
  | nil => simp [bwd]
  | cons x xs ih => simp only [bwd, List.foldr_cons, List.length_cons] at ih ⊢; rw [ih]

theorem bwd_cons (w : ℕ) (x : List K × K) (xs : List (List K × K)) :
    bwd w (x :: xs) = (x.2 / x.1.getD 0 0 - ∑ i0 ∈ range (min w (xs.length + 1) - 1),
      x.1.getD (i0 + 1) 0 * (bwd w xs).getD i0 0) :: bwd w xs := by
  rw [← bwd_length w xs]
  rfl

theorem bwd_spec (w : ℕ) (xs : List (List K × K)) (t : ℕ) (ht : t < xs.length) :
    (bwd w xs).getD t 0 = (xs.getD t ([], 0)).2 / (xs.getD t ([], 0)).1.getD 0 0 -
      ∑ i0 ∈ range (min w (xs.length - t) - 1),
        (xs.getD t ([], 0)).1.getD (i0 + 1) 0 * (bwd w xs).getD (t + 1 + i0) 0 := by
  induction xs generalizing t with
  | nil => simp at ht
  | cons x xs ih =>
    rw [bwd_cons]
    cases t with
    | zero =>
      simp only [List.getD_cons_zero, List.length_cons, Nat.sub_zero, Nat.zero_add]
      congr 1
      apply sum_congr rfl
      intro i0 _
      rw [Nat.add_comm 1 i0, List.getD_cons_succ]
    | succ t =>
      simp only [List.length_cons, Nat.add_lt_add_iff_right] at ht
      simp only [List.getD_cons_succ, List.length_cons, Nat.add_sub_add_right]
      rw [ih t ht]
      congr 1
      apply sum_congr rfl
      intro i0 _
      have : t + 1 + 1 + i0 = (t + 1 + i0) + 1 := by omega
      rw [this, List.getD_cons_succ]

/-! ### assembling -/

theorem getD_zip {β γ : Type} (as : List β) (bs : List γ) (t : ℕ) (h1 : t < as.length)
    (h2 : t < bs.length) (a : β) (b : γ) :
    (as.zip bs).getD t (a, b) = (as.getD t a, bs.getD t b) := by
  grind

theorem forwardSub_length (w : ℕ) (lrows : List (List K)) (r : List K) :
    (forwardSub w lrows r).length = min lrows.length r.length := by
  rw [forwardSub_eq, List.length_reverse, fwd_snd_length, List.length_zip]

theorem backwardSub_length (w : ℕ) (lrows : List (List K)) (g : List K) :
    (backwardSub w lrows g).length = min lrows.length g.length := by
  rw [backwardSub_eq, bwd_length, List.length_zip]

/-- forward recurrence, unbounded form -/
theorem ldl_Rg (w : ℕ) (hw : 1 ≤ w) (rows : List (List K)) (r : List K)
    (hr : r.length = rows.length) (t : ℕ) (ht : t < rows.length) :
    (forwardSub w (ldlRows w rows) r).getD t 0 = r.getD t 0 -
      ∑ k ∈ range t, bandAt (ldlRows w rows) k (t - k)
        * (forwardSub w (ldlRows w rows) r).getD k 0 := by
  have hz : ∀ i, min w (t + 1) - 1 ≤ i → i < t →
      (fun k => bandAt (ldlRows w rows) k (t - k)
        * (forwardSub w (ldlRows w rows) r).getD k 0) (t - 1 - i) = 0 := by
    intro i h1 h2
    simp only
    rw [bandAt_ldlRows_high w hw rows _ _ (by omega)]
    ring
  rw [← sum_recent_eq _ (by omega) hz]
  have hL := ldlRows_length w rows
  simp only [forwardSub_eq]
  rw [fwd_spec w _ t (by rw [List.length_zip]; omega), getD_zip _ _ _ (by omega) (by omega)]
  congr 1
  apply sum_congr rfl
  intro i0 hi
  simp only [mem_range] at hi
  have h2 : t - (t - 1 - i0) = i0 + 1 := by omega
  rw [getD_zip _ _ _ (by omega) (by omega)]
  simp only [bandAt, h2]

/-- backward recurrence, unbounded form -/
theorem ldl_Rc (w : ℕ) (hw : 1 ≤ w) (rows : List (List K)) (g : List K)
    (hg : g.length = rows.length) (t : ℕ) (ht : t < rows.length)
    (hd : bandAt (ldlRows w rows) t 0 ≠ 0) :
    g.getD t 0 = bandAt (ldlRows w rows) t 0 *
      ((backwardSub w (ldlRows w rows) g).getD t 0 +
        ∑ i ∈ range (rows.length - 1 - t), bandAt (ldlRows w rows) t (i + 1)
          * (backwardSub w (ldlRows w rows) g).getD (t + 1 + i) 0) := by
  have hL := ldlRows_length w rows
  have hz : ∀ j, min w (rows.length - t) - 1 ≤ j → j < rows.length - 1 - t →
      (fun i => bandAt (ldlRows w rows) t (i + 1)
          * (backwardSub w (ldlRows w rows) g).getD (t + 1 + i) 0) j = 0 := by
    intro j h1 h2
    simp only
    rw [bandAt_ldlRows_high w hw rows _ _ (by omega)]
    ring
  rw [← sum_range_extend _ (by omega) hz]
  simp only [backwardSub_eq]
  have hlen : (List.zip (ldlRows w rows) g).length = rows.length := by
    rw [List.length_zip]; omega
  rw [bwd_spec w _ t (by omega), getD_zip _ _ _ (by omega) (by omega), hlen]
  simp only [bandAt] at hd ⊢
  rw [sub_add_cancel, mul_div_cancel₀ _ hd]

theorem bandMulVec_eq (w : ℕ) (hw : 1 ≤ w) (rows : List (List K))
    (hrow : ∀ row ∈ rows, row.length = w) (c : List K) (t : ℕ) (ht : t < rows.length) :
    bandMulVec w rows c t =
      (∑ s ∈ range t, bandAt rows s (t - s) * c.getD s 0) +
        (∑ i ∈ range (rows.length - t), bandAt rows t i * c.getD (t + i) 0) := by
  unfold bandMulVec
  rw [add_comm]
  congr 1
  · -- lower part
    have hz : ∀ i, min (w - 1) t ≤ i → i < t →
        (fun s => bandAt rows s (t - s) * c.getD s 0) (t - 1 - i) = 0 := by
      intro i h1 h2
      simp only
      rw [bandAt_high w rows hrow _ _ (by omega)]
      ring
    rw [← sum_recent_eq (fun s => bandAt rows s (t - s) * c.getD s 0) (Nat.min_le_right _ _) hz]
    have hw' : w = (w - 1) + 1 := by omega
    conv_lhs => rw [hw', sum_range_succ']
    simp only [Nat.le_zero_eq, Nat.one_ne_zero, false_and, if_false, add_zero]
    have hz2 : ∀ i, min (w - 1) t ≤ i → i < w - 1 →
        (fun i => if 1 ≤ i + 1 ∧ i + 1 ≤ t then
          bandAt rows (t - (i + 1)) (i + 1) * c.getD (t - (i + 1)) 0 else 0) i = 0 := by
      intro i h1 h2
      have : ¬ (1 ≤ i + 1 ∧ i + 1 ≤ t) := by omega
      simp only [this, if_false]
    rw [← sum_range_extend (fun i => if 1 ≤ i + 1 ∧ i + 1 ≤ t then
          bandAt rows (t - (i + 1)) (i + 1) * c.getD (t - (i + 1)) 0 else 0) (Nat.min_le_left _ _) hz2]
    apply sum_congr rfl
    intro i hi
    simp only [mem_range] at hi
    have h1 : 1 ≤ i + 1 ∧ i + 1 ≤ t := by omega
    have e1 : t - (i + 1) = t - 1 - i := by omega
    have e2 : t - (t - 1 - i) = i + 1 := by omega
    simp only [h1, and_self, if_true, e1, e2]
  · -- upper part
    have hz : ∀ j, min w (rows.length - t) ≤ j → j < rows.length - t →
        (fun i => bandAt rows t i * c.getD (t + i) 0) j = 0 := by
      intro j h1 h2
      simp only
      rw [bandAt_high w rows hrow _ _ (by omega)]
      ring
    rw [← sum_range_extend (fun i => bandAt rows t i * c.getD (t + i) 0) (Nat.min_le_right _ _) hz]
    have hz2 : ∀ j, min w (rows.length - t) ≤ j → j < w →
        (fun j => if t + j < rows.length then bandAt rows t j * c.getD (t + j) 0 else 0) j = 0 := by
      intro j h1 h2
      have : ¬ (t + j < rows.length) := by omega
      simp only [this, if_false]
    rw [← sum_range_extend
      (fun j => if t + j < rows.length then bandAt rows t j * c.getD (t + j) 0 else 0)
      (Nat.min_le_left _ _) hz2]
    apply sum_congr rfl
    intro j hj
    simp only [mem_range] at hj
    have h1 : t + j < rows.length := by omega
    simp only [h1, if_true]


/-- **LDLᵀ solves.** -/
theorem ldl_solves (w : Nat) (hw : 1 ≤ w) (rows : List (List K)) (r : List K)
    (hr : r.length = rows.length) (hrow : ∀ row ∈ rows, row.length = w)
    (hpiv : ∀ t, t < rows.length → bandAt (ldlRows w rows) t 0 ≠ 0) :
    let l := ldlRows w rows
    let c := backwardSub w l (forwardSub w l r)
    c.length = rows.length ∧ ∀ t, t < rows.length → bandMulVec w rows c t = r.getD t 0 := by
  intro l c
  have hL : l.length = rows.length := ldlRows_length w rows
  have hG : (forwardSub w l r).length = rows.length := by
    rw [forwardSub_length]; omega
  have hC : c.length = rows.length := by
    show (backwardSub w l (forwardSub w l r)).length = rows.length
    rw [backwardSub_length]; omega
  refine ⟨hC, ?_⟩
  intro t ht
  rw [bandMulVec_eq w hw rows hrow c t ht]
  exact band_solve_abstract rows.length (bandAt rows) (bandAt l) (fun t => bandAt l t 0)
    (fun t => (forwardSub w l r).getD t 0) (fun t => r.getD t 0) (fun t => c.getD t 0)
    (fun t ht => ldl_Rd w hw rows t ht)
    (fun t ht j hj => ldl_Rl w hw rows hrow t ht (hpiv t ht) j hj)
    (fun t ht => ldl_Rg w hw rows r hr t ht)
    (fun t ht => ldl_Rc w hw rows (forwardSub w l r) hG t ht (hpiv t ht))
    t ht

end Jb
