/-
  Linearity of the MLSA filter (`Jb/Model/Vocoder.lean`: `fir`, `mlsaDf1`, `mlsaDf2`, `mlsaDf`) in its
  input and state for frozen coefficients: the one-sample map `(state, x) ↦ (y, state')` is linear.
  Consequence: the response to `a·x` from the zero state is `a` times the response to `x` — which,
  with `gain_scales_input` (C06), is the `exp(c₀)` scaling clause.
-/
import Jb.Model.Vocoder
import Jb.Proofs.Cepstrum
import Mathlib.Algebra.Order.Field.Basic
import Mathlib.Tactic.Linarith
import Mathlib.Tactic.Ring

set_option linter.unusedSectionVars false

namespace Jb

variable {K : Type} [Field K] [LinearOrder K] [IsStrictOrderedRing K] [Transc K] [Consts K]

/-- scale a filter state -/
def MlsaSt.smul (a : K) (st : MlsaSt K) : MlsaSt K :=
  { d11 := st.d11.map (a * ·), d12 := st.d12.map (a * ·), d21 := st.d21.map (·.map (a * ·)), d22 := st.d22.map (a * ·) }

theorem getD_map_mul (a : K) (l : List K) (i : Nat) :
    (l.map (a * ·)).getD i 0 = a * l.getD i 0 := by
  simp only [List.getD_eq_getElem?_getD, List.getElem?_map]
  cases l[i]? <;> simp

theorem getD_map_map_mul (a : K) (l : List (List K)) (i : Nat) :
    (l.map (·.map (a * ·))).getD i [] = (l.getD i []).map (a * ·) := by
  simp only [List.getD_eq_getElem?_getD, List.getElem?_map]
  cases l[i]? <;> simp

/-- the warped-delay-line fold commutes with scaling -/
theorem fir_fold_smul (a alpha iaa : K) (l : List K) (acc : List K × K) :
    (l.map (a * ·)).foldl (fun (acc : List K × K) di =>
        (acc.1 ++ [alpha * di + acc.2], iaa * di - alpha * acc.2)) (acc.1.map (a * ·), a * acc.2)
      = (((l.foldl (fun (acc : List K × K) di =>
        (acc.1 ++ [alpha * di + acc.2], iaa * di - alpha * acc.2)) acc).1).map (a * ·),
         a * (l.foldl (fun (acc : List K × K) di =>
        (acc.1 ++ [alpha * di + acc.2], iaa * di - alpha * acc.2)) acc).2) := by
  induction l generalizing acc with
  | nil => rfl
  | cons di l ih =>
    simp only [List.map_cons, List.foldl_cons]
    have := ih (acc.1 ++ [alpha * di + acc.2], iaa * di - alpha * acc.2)
    simp only [List.map_append, List.map_cons, List.map_nil] at this
    rw [← this]
    congr 2
    · congr 2; ring
    · ring

/-- the output dot product commutes with scaling -/
theorem fir_dot_smul (a : K) (l : List (K × K)) (acc : K) :
    (l.map (Prod.map (a * ·) id)).foldl (fun acc (p : K × K) => acc + p.1 * p.2) (a * acc)
      = a * l.foldl (fun acc (p : K × K) => acc + p.1 * p.2) acc := by
  induction l generalizing acc with
  | nil => rfl
  | cons p l ih =>
    simp only [List.map_cons, List.foldl_cons, Prod.map_fst, Prod.map_snd, id]
    rw [← ih]
    congr 1; ring

/-- the delay line is homogeneous -/
theorem fir_smul (a : K) (d : List K) (x alpha : K) (c : List K) :
    fir (d.map (a * ·)) (a * x) alpha c = (a * (fir d x alpha c).1, (fir d x alpha c).2.map (a * ·)) := by
  cases d with
  | nil => simp [fir]
  | cons x0 dt =>
    simp only [List.map_cons, fir]
    have h := fir_fold_smul a alpha (1 - alpha * alpha) (x :: dt) ([], 0)
    simp only [List.map_cons, List.map_nil, mul_zero] at h
    rw [h]
    have h2 : ∀ l : List (K × K),
        (l.map (Prod.map (a * ·) id)).foldl (fun acc (p : K × K) => acc + p.1 * p.2) 0
          = a * l.foldl (fun acc (p : K × K) => acc + p.1 * p.2) 0 := by
      intro l
      have := fir_dot_smul a l 0
      rwa [mul_zero] at this
    simp only [List.zip_map_left, ← List.map_drop, h2]

/-- a fold whose step commutes with a map `S` commutes with `S` -/
theorem foldl_hom {β ι : Type} (S : β → β) (f g : β → ι → β)
    (h : ∀ acc i, f (S acc) i = S (g acc i)) (l : List ι) (acc : β) :
    l.foldl f (S acc) = S (l.foldl g acc) := by
  induction l generalizing acc with
  | nil => rfl
  | cons i l ih => simp only [List.foldl_cons, h, ih]

/-- one iteration of the `df1` loop -/
def df1Step (st : MlsaSt K) (alpha : K) (c : List K) (acc : K × K × List K × List K) (i : Nat) :
    K × K × List K × List K :=
  let aa := 1 - alpha * alpha
  let c1 := c.getD 1 0
  let pp : List K := padeCoef
  let (x, out, d11, d12) := acc
  let n11 := aa * st.d12.getD (i - 1) 0 + alpha * d11.getD i 0
  let n12 := n11 * c1
  let v := n12 * pp.getD i 0
  (if i % 2 = 1 then x + v else x + -v, out + v, d11.set i n11, d12.set i n12)

theorem mlsaDf1_eq (st : MlsaSt K) (x alpha : K) (c : List K) :
    mlsaDf1 st x alpha c =
      (let r := [5, 4, 3, 2, 1].foldl (df1Step st alpha c) (x, 0, st.d11, st.d12)
       (r.1 + r.2.1, { st with d11 := r.2.2.1, d12 := r.2.2.2.set 0 r.1 })) := rfl

/-- one iteration of the `df2` loop -/
def df2Step (st : MlsaSt K) (alpha : K) (c : List K) (acc : K × K × List (List K) × List K) (i : Nat) :
    K × K × List (List K) × List K :=
  let pp : List K := padeCoef
  let (x, out, d21, d22) := acc
  let (y, dn) := fir (d21.getD (i - 1) []) (st.d22.getD (i - 1) 0) alpha c
  let v := y * pp.getD i 0
  (if i % 2 = 1 then x + v else x + -v, out + v, d21.set (i - 1) dn, d22.set i y)

theorem mlsaDf2_eq (st : MlsaSt K) (x alpha : K) (c : List K) :
    mlsaDf2 st x alpha c =
      (let r := [5, 4, 3, 2, 1].foldl (df2Step st alpha c) (x, 0, st.d21, st.d22)
       (r.1 + r.2.1, { st with d21 := r.2.2.1, d22 := r.2.2.2.set 0 r.1 })) := rfl

def sc1 (a : K) (p : K × K × List K × List K) : K × K × List K × List K :=
  (a * p.1, a * p.2.1, p.2.2.1.map (a * ·), p.2.2.2.map (a * ·))

def sc2 (a : K) (p : K × K × List (List K) × List K) : K × K × List (List K) × List K :=
  (a * p.1, a * p.2.1, p.2.2.1.map (·.map (a * ·)), p.2.2.2.map (a * ·))

theorem df1Step_smul (a : K) (st : MlsaSt K) (alpha : K) (c : List K)
    (acc : K × K × List K × List K) (i : Nat) :
    df1Step (MlsaSt.smul a st) alpha c (sc1 a acc) i = sc1 a (df1Step st alpha c acc i) := by
  obtain ⟨x, out, d11, d12⟩ := acc
  simp only [df1Step, sc1, MlsaSt.smul, getD_map_mul, List.map_set]
  split_ifs <;> simp only [Prod.mk.injEq] <;> refine ⟨by ring, by ring, ?_, ?_⟩ <;> congr 1 <;> ring

theorem df2Step_smul (a : K) (st : MlsaSt K) (alpha : K) (c : List K)
    (acc : K × K × List (List K) × List K) (i : Nat) :
    df2Step (MlsaSt.smul a st) alpha c (sc2 a acc) i = sc2 a (df2Step st alpha c acc i) := by
  obtain ⟨x, out, d21, d22⟩ := acc
  simp only [df2Step, sc2, MlsaSt.smul, getD_map_mul, getD_map_map_mul, fir_smul, List.map_set]
  split_ifs <;> simp only [Prod.mk.injEq] <;> refine ⟨by ring, by ring, trivial⟩

theorem mlsaDf1_smul (a : K) (st : MlsaSt K) (x alpha : K) (c : List K) :
    mlsaDf1 (MlsaSt.smul a st) (a * x) alpha c =
      (a * (mlsaDf1 st x alpha c).1, MlsaSt.smul a (mlsaDf1 st x alpha c).2) := by
  have h := foldl_hom (sc1 a) (df1Step (MlsaSt.smul a st) alpha c) (df1Step st alpha c)
    (df1Step_smul a st alpha c) [5, 4, 3, 2, 1] (x, 0, st.d11, st.d12)
  simp only [sc1, mul_zero] at h
  simp only [mlsaDf1_eq]
  simp only [MlsaSt.smul] at h ⊢
  rw [h]
  simp only [List.map_set, mul_add]

theorem mlsaDf2_smul (a : K) (st : MlsaSt K) (x alpha : K) (c : List K) :
    mlsaDf2 (MlsaSt.smul a st) (a * x) alpha c =
      (a * (mlsaDf2 st x alpha c).1, MlsaSt.smul a (mlsaDf2 st x alpha c).2) := by
  have h := foldl_hom (sc2 a) (df2Step (MlsaSt.smul a st) alpha c) (df2Step st alpha c)
    (df2Step_smul a st alpha c) [5, 4, 3, 2, 1] (x, 0, st.d21, st.d22)
  simp only [sc2, mul_zero] at h
  simp only [mlsaDf2_eq]
  simp only [MlsaSt.smul] at h ⊢
  rw [h]
  simp only [List.map_set, mul_add]

/-- homogeneity of one MLSA sample, with no shape hypotheses -/
theorem mlsaDf_smul' (a : K) (st : MlsaSt K) (x alpha : K) (c : List K) :
    mlsaDf (MlsaSt.smul a st) (a * x) alpha c =
      (a * (mlsaDf st x alpha c).1, MlsaSt.smul a (mlsaDf st x alpha c).2) := by
  simp only [mlsaDf, mlsaDf1_smul, mlsaDf2_smul]

/-- **Homogeneity of one MLSA sample.** (State lists of the regular shape: 6 entries each.) -/
theorem mlsaDf_smul (a : K) (st : MlsaSt K) (x alpha : K) (c : List K)
    (h11 : st.d11.length = 6) (h12 : st.d12.length = 6) (h21 : st.d21.length = 6) (h22 : st.d22.length = 6) :
    mlsaDf (MlsaSt.smul a st) (a * x) alpha c =
      (a * (mlsaDf st x alpha c).1, MlsaSt.smul a (mlsaDf st x alpha c).2) := by
  have _ := h11; have _ := h12; have _ := h21; have _ := h22
  exact mlsaDf_smul' a st x alpha c

theorem df1Step_len (st : MlsaSt K) (alpha : K) (c : List K) (acc : K × K × List K × List K) (i : Nat) :
    (df1Step st alpha c acc i).2.2.1.length = acc.2.2.1.length ∧
      (df1Step st alpha c acc i).2.2.2.length = acc.2.2.2.length := by
  obtain ⟨x, out, d11, d12⟩ := acc
  simp only [df1Step, List.length_set, and_self]

theorem df2Step_len (st : MlsaSt K) (alpha : K) (c : List K) (acc : K × K × List (List K) × List K)
    (i : Nat) :
    (df2Step st alpha c acc i).2.2.1.length = acc.2.2.1.length ∧
      (df2Step st alpha c acc i).2.2.2.length = acc.2.2.2.length := by
  obtain ⟨x, out, d21, d22⟩ := acc
  simp only [df2Step, List.length_set, and_self]

theorem foldl_df1Step_len (st : MlsaSt K) (alpha : K) (c : List K) (l : List Nat)
    (acc : K × K × List K × List K) :
    (l.foldl (df1Step st alpha c) acc).2.2.1.length = acc.2.2.1.length ∧
      (l.foldl (df1Step st alpha c) acc).2.2.2.length = acc.2.2.2.length := by
  induction l generalizing acc with
  | nil => exact ⟨rfl, rfl⟩
  | cons i l ih =>
    have h := df1Step_len st alpha c acc i
    have h' := ih (df1Step st alpha c acc i)
    exact ⟨h'.1.trans h.1, h'.2.trans h.2⟩

theorem foldl_df2Step_len (st : MlsaSt K) (alpha : K) (c : List K) (l : List Nat)
    (acc : K × K × List (List K) × List K) :
    (l.foldl (df2Step st alpha c) acc).2.2.1.length = acc.2.2.1.length ∧
      (l.foldl (df2Step st alpha c) acc).2.2.2.length = acc.2.2.2.length := by
  induction l generalizing acc with
  | nil => exact ⟨rfl, rfl⟩
  | cons i l ih =>
    have h := df2Step_len st alpha c acc i
    have h' := ih (df2Step st alpha c acc i)
    exact ⟨h'.1.trans h.1, h'.2.trans h.2⟩

theorem mlsaDf1_shape (st : MlsaSt K) (x alpha : K) (c : List K) :
    (mlsaDf1 st x alpha c).2.d11.length = st.d11.length ∧
      (mlsaDf1 st x alpha c).2.d12.length = st.d12.length ∧
      (mlsaDf1 st x alpha c).2.d21 = st.d21 ∧ (mlsaDf1 st x alpha c).2.d22 = st.d22 := by
  have h := foldl_df1Step_len st alpha c [5, 4, 3, 2, 1] (x, 0, st.d11, st.d12)
  simp only [mlsaDf1_eq, List.length_set]
  exact ⟨h.1, h.2, trivial, trivial⟩

theorem mlsaDf2_shape (st : MlsaSt K) (x alpha : K) (c : List K) :
    (mlsaDf2 st x alpha c).2.d11 = st.d11 ∧ (mlsaDf2 st x alpha c).2.d12 = st.d12 ∧
      (mlsaDf2 st x alpha c).2.d21.length = st.d21.length ∧
      (mlsaDf2 st x alpha c).2.d22.length = st.d22.length := by
  have h := foldl_df2Step_len st alpha c [5, 4, 3, 2, 1] (x, 0, st.d21, st.d22)
  simp only [mlsaDf2_eq, List.length_set]
  exact ⟨trivial, trivial, h.1, h.2⟩

/-- the shape is preserved, so the statement iterates over a whole signal -/
theorem mlsaDf_shape (st : MlsaSt K) (x alpha : K) (c : List K)
    (h11 : st.d11.length = 6) (h12 : st.d12.length = 6) (h21 : st.d21.length = 6) (h22 : st.d22.length = 6) :
    let st' := (mlsaDf st x alpha c).2
    st'.d11.length = 6 ∧ st'.d12.length = 6 ∧ st'.d21.length = 6 ∧ st'.d22.length = 6 := by
  intro st'
  have h1 := mlsaDf1_shape st x alpha c
  have h2 := mlsaDf2_shape (mlsaDf1 st x alpha c).2 (mlsaDf1 st x alpha c).1 alpha c
  have e : st' = (mlsaDf2 (mlsaDf1 st x alpha c).2 (mlsaDf1 st x alpha c).1 alpha c).2 := rfl
  rw [e]
  refine ⟨?_, ?_, ?_, ?_⟩
  · rw [h2.1, h1.1, h11]
  · rw [h2.2.1, h1.2.1, h12]
  · rw [h2.2.2.1, h1.2.2.1, h21]
  · rw [h2.2.2.2, h1.2.2.2, h22]

/-- run the filter over a signal with frozen coefficients -/
def mlsaRun (alpha : K) (c : List K) : MlsaSt K → List K → List K
  | _, [] => []
  | st, x :: xs => let r := mlsaDf st x alpha c; r.1 :: mlsaRun alpha c r.2 xs

theorem MlsaSt.smul_init (a : K) (nmcp : Nat) :
    MlsaSt.smul a (MlsaSt.init nmcp : MlsaSt K) = MlsaSt.init nmcp := by
  simp only [MlsaSt.smul, MlsaSt.init, List.map_replicate, mul_zero]

/-- scaling state and input scales the whole response -/
theorem mlsaRun_smul_gen (a alpha : K) (c : List K) (st : MlsaSt K) (xs : List K) :
    mlsaRun alpha c (MlsaSt.smul a st) (xs.map (a * ·)) = (mlsaRun alpha c st xs).map (a * ·) := by
  induction xs generalizing st with
  | nil => rfl
  | cons x xs ih =>
    simp only [List.map_cons, mlsaRun, mlsaDf_smul', ih]

/-- **Scaling the input scales the response** (zero initial state). -/
theorem mlsaRun_smul (a alpha : K) (c : List K) (nmcp : Nat) (xs : List K) :
    mlsaRun alpha c (MlsaSt.init nmcp) (xs.map (a * ·)) = (mlsaRun alpha c (MlsaSt.init nmcp) xs).map (a * ·) := by
  have h := mlsaRun_smul_gen a alpha c (MlsaSt.init nmcp) xs
  rwa [MlsaSt.smul_init] at h

end Jb
