/-
  C15 through the global-variance stage: the GV iteration commutes with a constant shift of the static means.
  `conv_gv` rescales around the mean of the eligible frames; the Newton-like step uses `A·par − W'Pμ`, which is
  unchanged when `par` and the static means move together (the rows of `A = W'PW` sum to the static precision,
  `Jb/Proofs/Shift.lean`); the GV terms only see `par − mean`. The HMM objective itself changes by a constant
  that does not depend on the iterate, so the step-size adaptation (which compares objectives of successive
  iterations) takes the same decisions.
-/
import Jb.Proofs.Shift
import Jb.Proofs.Engine
import Jb.Proofs.GvShiftAux

set_option linter.unusedSectionVars false

namespace Jb

variable {K : Type} [Field K] [LinearOrder K] [IsStrictOrderedRing K] [FloorRing K]
  [Transc K] [Consts K] [MlpgConsts K]

/-- mean and variance over the eligible frames: the variance ignores a constant shift, the mean moves with it -/
theorem calcGv_shift (par : List K) (sw : List Bool) (gvLen : Nat) (h : K)
    (hlen : sw.length = par.length) (hg : gvLen = (sw.filter id).length) (hpos : 0 < gvLen) :
    calcGv (par.map (· + h)) sw gvLen = ((calcGv par sw gvLen).1 + h, (calcGv par sw gvLen).2) :=
  gvs_calcGv par sw gvLen h hlen hg hpos

/-- `conv_gv` commutes with the shift -/
theorem convGv_shift (par : List K) (sw : List Bool) (gvLen : Nat) (gm h : K)
    (hlen : sw.length = par.length) (hg : gvLen = (sw.filter id).length) (hpos : 0 < gvLen) :
    convGv (par.map (· + h)) sw gvLen gm = (convGv par sw gvLen gm).map (· + h) :=
  gvs_convGv par sw gvLen gm h hlen hg hpos

/-- **The whole `MlpgMatrix::par` (ML solution, then GV) commutes with the shift.** `m`, `m'` are the matrices
    `calc_wuw_and_wum` builds from the observations and from the observations with `h` added to the static means. -/
theorem par_shift (windows : List (List K)) (obs : List (List (MeanVari K))) (T : Nat)
    (hstatic : windows.head? = some [1]) (hlen : windows.length = obs.length)
    (hobs : ∀ o ∈ obs, o.length = T) (hedge : EdgeZero windows obs T)
    (hnonneg : ∀ o ∈ obs, ∀ mv ∈ o, 0 ≤ mv.vari) (hpos : ∀ mv ∈ obs.headD [], 0 < mv.vari)
    (hsum : ∀ w ∈ windows.tail, w.sum = 0)
    (h : K) (m m' : MlpgMatrix K)
    (hm : calcWuwWum windows obs = some m) (hm' : calcWuwWum windows (shiftStatic obs h) = some m')
    (gv : Option (List (MeanVari K) × List Bool)) (vi : Nat) (gw : K) (durs : List Nat) (mask : List Bool)
    (hmask : (mask.filter id).length = T)
    (hsw : ∀ g sw, gv = some (g, sw) → (filterBy (expand sw durs) mask).length = T) :
    m'.par gv vi gw durs mask = (m.par gv vi gw durs mask).map (· + h) := by
  have _ := hmask
  have hsolve := mlpg_shift windows obs T hstatic hlen hobs hedge hnonneg hpos hsum h m m' hm hm'
  cases gv with
  | none => exact hsolve
  | some p =>
    obtain ⟨g, sw⟩ := p
    cases windows with
    | nil => simp at hstatic
    | cons w0 ws =>
      simp only [List.head?_cons, Option.some.injEq] at hstatic
      subst hstatic
      cases obs with
      | nil => simp at hlen
      | cons o0 os =>
        simp only [List.tail_cons] at hsum
        simp only [shiftStatic] at hm'
        have P := gvs_pair_of_calc ws o0 os T hobs hedge hsum h m m' hm hm'
        unfold MlpgMatrix.par
        simp only
        rw [hsolve]
        exact P.parmgen_shift _ _ _ _ (solve_length m T P.h1 P.h3) (hsw g sw rfl)

end Jb
