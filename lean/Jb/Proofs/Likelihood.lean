/-
  A solution of the normal equations maximises the Gaussian log-likelihood (precisions ≥ 0).
-/
import Mathlib.Algebra.Order.Field.Basic
import Mathlib.Algebra.BigOperators.Group.Finset.Basic
import Mathlib.Algebra.Order.BigOperators.Group.Finset
import Mathlib.Algebra.BigOperators.Ring.Finset
import Mathlib.Tactic.Ring
import Mathlib.Tactic.Linarith

set_option linter.unusedSectionVars false

namespace Jb

variable {K : Type} [Field K] [LinearOrder K] [IsStrictOrderedRing K]

/-- One scalar observation: a window row `W_o` over the `n` static parameters, a precision `p_o` and a
    mean `μ_o`. -/
structure Obs (K : Type) (n : Nat) where
  row : Fin n → K
  prec : K
  mean : K

/-- `W_o · c` -/
def Obs.dot {n : Nat} (o : Obs K n) (c : Fin n → K) : K := Finset.univ.sum fun t => o.row t * c t

/-- Gaussian log-likelihood of the static sequence `c` up to the constant: `−½ Σ_o p_o (W_o·c − μ_o)²`. -/
def loglik {n : Nat} (obs : List (Obs K n)) (c : Fin n → K) : K :=
  -(1 / 2) * (obs.map fun o => o.prec * (o.dot c - o.mean) ^ 2).sum

/-- component `t` of the gradient `W'P(Wc − μ)` -/
def normalResidual {n : Nat} (obs : List (Obs K n)) (c : Fin n → K) (t : Fin n) : K :=
  (obs.map fun o => o.prec * o.row t * (o.dot c - o.mean)).sum

theorem Obs.dot_add {n : Nat} (o : Obs K n) (c d : Fin n → K) :
    o.dot (fun t => c t + d t) = o.dot c + o.dot d := by
  unfold Obs.dot
  rw [← Finset.sum_add_distrib]
  exact Finset.sum_congr rfl fun t _ => by ring

/-- Exact second-order expansion of the log-likelihood around `c`. -/
theorem loglik_add {n : Nat} (obs : List (Obs K n)) (c d : Fin n → K) :
    loglik obs (fun t => c t + d t) =
      loglik obs c - (1 / 2) * (obs.map fun o => o.prec * (o.dot d) ^ 2).sum
        - Finset.univ.sum fun t => d t * normalResidual obs c t := by
  induction obs with
  | nil => simp [loglik, normalResidual]
  | cons o obs ih =>
    have h1 : ∀ x : Fin n → K, loglik (o :: obs) x =
        -(1 / 2) * (o.prec * (o.dot x - o.mean) ^ 2) + loglik obs x := by
      intro x; simp only [loglik, List.map_cons, List.sum_cons]; ring
    have h2 : ∀ t, normalResidual (o :: obs) c t =
        o.prec * o.row t * (o.dot c - o.mean) + normalResidual obs c t := by
      intro t; simp only [normalResidual, List.map_cons, List.sum_cons]
    have h3 : (Finset.univ.sum fun t => d t * normalResidual (o :: obs) c t) =
        o.prec * (o.dot c - o.mean) * o.dot d +
          Finset.univ.sum fun t => d t * normalResidual obs c t := by
      have hd : o.dot d = Finset.univ.sum fun t => o.row t * d t := rfl
      rw [hd, Finset.mul_sum, ← Finset.sum_add_distrib]
      exact Finset.sum_congr rfl fun t _ => by rw [h2]; ring
    rw [h1, h1, ih, h3, Obs.dot_add, List.map_cons, List.sum_cons]
    ring

/-- **Normal equations ⇒ maximum.** -/
theorem normal_eq_is_max {n : Nat} (obs : List (Obs K n)) (hp : ∀ o ∈ obs, 0 ≤ o.prec)
    (c : Fin n → K) (hc : ∀ t, normalResidual obs c t = 0) (c' : Fin n → K) :
    loglik obs c' ≤ loglik obs c := by
  have hc' : c' = fun t => c t + (c' t - c t) := by funext t; ring
  rw [hc', loglik_add]
  have hz : (Finset.univ.sum fun t => (c' t - c t) * normalResidual obs c t) = 0 :=
    Finset.sum_eq_zero fun t _ => by rw [hc t, mul_zero]
  have hnn : 0 ≤ (obs.map fun o => o.prec * (o.dot fun t => c' t - c t) ^ 2).sum := by
    apply List.sum_nonneg
    intro x hx
    obtain ⟨o, ho, rfl⟩ := List.mem_map.1 hx
    exact mul_nonneg (hp o ho) (sq_nonneg _)
  rw [hz]
  linarith

end Jb
