/-
  C06, structural half of the spectral clause, second stage: `df2` realises the Padé rational function of its
  basic filter `F₂ = Σ_{k≥2} c_k Φ_k` (`basic2`: the code's own warped FIR `fir`, fed with the delayed signal —
  `df2` reads the OLD `d22[i−1]`, which is the one-sample delay).  The inner signal `u` (what the code stores in
  `d22[0]`) satisfies `P(−F₂) u = x` and the output is `y = P(F₂) u`.
-/
import Jb.Proofs.Signal

set_option linter.unusedSectionVars false

namespace Jb

variable {K : Type} [Field K] [LinearOrder K] [IsStrictOrderedRing K] [Transc K] [Consts K]

/-- the inner signal of `df2`: the value stored in `d22[0]` at each sample -/
def df2Inner (alpha : K) (c : List K) : MlsaSt K → List K → List K
  | _, [] => []
  | st, x :: xs => let r := mlsaDf2 st x alpha c; r.2.d22.getD 0 0 :: df2Inner alpha c r.2 xs

/-! ### helpers -/

/-- the signal stored in `d22[i]` along the run -/
def df2Sig (alpha : K) (c : List K) (i : Nat) : MlsaSt K → List K → List K
  | _, [] => []
  | st, x :: xs => let r := mlsaDf2 st x alpha c; r.2.d22.getD i 0 :: df2Sig alpha c i r.2 xs

theorem df2Sig_zero (alpha : K) (c : List K) (st : MlsaSt K) (xs : List K) :
    df2Sig alpha c 0 st xs = df2Inner alpha c st xs := by
  induction xs generalizing st with
  | nil => rfl
  | cons x xs ih => simp only [df2Sig, df2Inner, ih]

/-- `firRun` on the delayed signal, from delay line `d` and pending input `p` -/
def firDelayFrom (alpha : K) (c : List K) : List K → K → List K → List K
  | _, _, [] => []
  | d, p, u :: us => let r := fir d p alpha c; r.1 :: firDelayFrom alpha c r.2 u us

theorem firRun_delay_gen (alpha : K) (c : List K) (d : List K) (p : K) (us : List K) :
    firRun alpha c d ((p :: us).take us.length) = firDelayFrom alpha c d p us := by
  induction us generalizing d p with
  | nil => rfl
  | cons u us ih =>
    simp only [List.length_cons, List.take_succ_cons, firRun, firDelayFrom, ih]

theorem basic2_eq (alpha : K) (c : List K) (nmcp : Nat) (us : List K) :
    basic2 alpha c nmcp us = firDelayFrom alpha c (List.replicate nmcp 0) 0 us := by
  simp only [basic2, delay1, firRun_delay_gen]

/-- the regular shape of the `df2` part of the state -/
def Sh2 (st : MlsaSt K) : Prop := st.d21.length = 6 ∧ st.d22.length = 6

theorem Sh2.step {st : MlsaSt K} (h : Sh2 st) (x alpha : K) (c : List K) :
    Sh2 (mlsaDf2 st x alpha c).2 := by
  have h2 := mlsaDf2_shape st x alpha c
  exact ⟨h2.2.2.1.trans h.1, h2.2.2.2.trans h.2⟩

theorem Sh2.init (nmcp : Nat) : Sh2 (MlsaSt.init nmcp : MlsaSt K) := by
  simp only [Sh2, MlsaSt.init, List.length_replicate, and_self]

theorem list_len6 {β : Type} (l : List β) (h : l.length = 6) :
    ∃ a0 a1 a2 a3 a4 a5, l = [a0, a1, a2, a3, a4, a5] := by
  match l, h with
  | [a0, a1, a2, a3, a4, a5], _ => exact ⟨a0, a1, a2, a3, a4, a5, rfl⟩

/-- one sample of `df2`, written out -/
theorem mlsaDf2_explicit (d11 d12 : List K) (a0 a1 a2 a3 a4 a5 : List K) (b0 b1 b2 b3 b4 b5 : K)
    (x alpha : K) (c : List K) :
    mlsaDf2 ⟨d11, d12, [a0, a1, a2, a3, a4, a5], [b0, b1, b2, b3, b4, b5]⟩ x alpha c =
      (let f0 := fir a0 b0 alpha c
       let f1 := fir a1 b1 alpha c
       let f2 := fir a2 b2 alpha c
       let f3 := fir a3 b3 alpha c
       let f4 := fir a4 b4 alpha c
       let p : List K := padeCoef
       let x' := x + f4.1 * p.getD 5 0 + -(f3.1 * p.getD 4 0) + f2.1 * p.getD 3 0 + -(f1.1 * p.getD 2 0)
          + f0.1 * p.getD 1 0
       let out := 0 + f4.1 * p.getD 5 0 + f3.1 * p.getD 4 0 + f2.1 * p.getD 3 0 + f1.1 * p.getD 2 0
          + f0.1 * p.getD 1 0
       (x' + out, ⟨d11, d12, [f0.2, f1.2, f2.2, f3.2, f4.2, a5], [x', f0.1, f1.1, f2.1, f3.1, f4.1]⟩)) := by
  rfl

/-- `d22[i+1]` is the FIR of the (old) `d22[i]`; `d21[i]` is its delay line -/
theorem df2_step_fir (st : MlsaSt K) (h : Sh2 st) (x alpha : K) (c : List K) (i : Nat) (hi : i < 5) :
    (mlsaDf2 st x alpha c).2.d22.getD (i + 1) 0 = (fir (st.d21.getD i []) (st.d22.getD i 0) alpha c).1 ∧
    (mlsaDf2 st x alpha c).2.d21.getD i [] = (fir (st.d21.getD i []) (st.d22.getD i 0) alpha c).2 := by
  obtain ⟨d11, d12, d21, d22⟩ := st
  obtain ⟨h1, h2⟩ := h
  obtain ⟨a0, a1, a2, a3, a4, a5, rfl⟩ := list_len6 d21 h1
  obtain ⟨b0, b1, b2, b3, b4, b5, rfl⟩ := list_len6 d22 h2
  rw [mlsaDf2_explicit]
  have : i = 0 ∨ i = 1 ∨ i = 2 ∨ i = 3 ∨ i = 4 := by omega
  rcases this with rfl | rfl | rfl | rfl | rfl <;> exact ⟨rfl, rfl⟩

/-- the Padé identities at one sample -/
theorem df2_step_pade (st : MlsaSt K) (h : Sh2 st) (x alpha : K) (c : List K) :
    (Finset.range 6).sum (fun i => (-1 : K) ^ i * (padeCoef : List K).getD i 0 *
        (mlsaDf2 st x alpha c).2.d22.getD i 0) = x ∧
    (Finset.range 6).sum (fun i => (1 : K) ^ i * (padeCoef : List K).getD i 0 *
        (mlsaDf2 st x alpha c).2.d22.getD i 0) = (mlsaDf2 st x alpha c).1 := by
  obtain ⟨d11, d12, d21, d22⟩ := st
  obtain ⟨h1, h2⟩ := h
  obtain ⟨a0, a1, a2, a3, a4, a5, rfl⟩ := list_len6 d21 h1
  obtain ⟨b0, b1, b2, b3, b4, b5, rfl⟩ := list_len6 d22 h2
  rw [mlsaDf2_explicit]
  have p0 : (padeCoef : List K).getD 0 0 = 1 := rfl
  simp only [Finset.sum_range_succ, Finset.sum_range_zero, List.getD_cons_succ, List.getD_cons_zero, p0]
  constructor <;> ring

/-- each stored signal is the delayed FIR of the previous one -/
theorem df2Sig_succ (alpha : K) (c : List K) (i : Nat) (hi : i < 5) (st : MlsaSt K) (h : Sh2 st)
    (xs : List K) :
    df2Sig alpha c (i + 1) st xs =
      firDelayFrom alpha c (st.d21.getD i []) (st.d22.getD i 0) (df2Sig alpha c i st xs) := by
  induction xs generalizing st with
  | nil => rfl
  | cons x xs ih =>
    have hs := df2_step_fir st h x alpha c i hi
    simp only [df2Sig, firDelayFrom]
    rw [ih _ (h.step x alpha c), hs.1, hs.2]

theorem init_getD (nmcp i : Nat) (hi : i < 5) :
    (MlsaSt.init nmcp : MlsaSt K).d21.getD i [] = List.replicate nmcp 0 ∧
    (MlsaSt.init nmcp : MlsaSt K).d22.getD i 0 = 0 := by
  have : i = 0 ∨ i = 1 ∨ i = 2 ∨ i = 3 ∨ i = 4 := by omega
  rcases this with rfl | rfl | rfl | rfl | rfl <;> exact ⟨rfl, rfl⟩

theorem df2Sig_opPow (alpha : K) (c : List K) (nmcp : Nat) (xs : List K) (i : Nat) (hi : i < 6) :
    opPow (basic2 alpha c nmcp) i (df2Inner alpha c (MlsaSt.init nmcp) xs) =
      df2Sig alpha c i (MlsaSt.init nmcp) xs := by
  induction i with
  | zero => simp only [opPow, df2Sig_zero]
  | succ i ih =>
    have hi' : i < 5 := by omega
    have hg := init_getD (K := K) nmcp i hi'
    rw [opPow, ih (by omega), df2Sig_succ alpha c i hi' _ (Sh2.init nmcp), basic2_eq, hg.1, hg.2]

theorem df2Sig_pade (alpha : K) (c : List K) (st : MlsaSt K) (h : Sh2 st) (xs : List K) (n : Nat)
    (hn : n < xs.length) :
    (Finset.range 6).sum (fun i => (-1 : K) ^ i * (padeCoef : List K).getD i 0 *
        (df2Sig alpha c i st xs).getD n 0) = xs.getD n 0 ∧
    (Finset.range 6).sum (fun i => (1 : K) ^ i * (padeCoef : List K).getD i 0 *
        (df2Sig alpha c i st xs).getD n 0) = (df2Run alpha c st xs).getD n 0 := by
  induction xs generalizing st n with
  | nil => simp at hn
  | cons x xs ih =>
    cases n with
    | zero =>
      simp only [df2Sig, df2Run, List.getD_cons_zero]
      exact df2_step_pade st h x alpha c
    | succ n =>
      simp only [df2Sig, df2Run, List.getD_cons_succ]
      exact ih _ (h.step x alpha c) n (by simpa using hn)

/-! ### main theorems -/

theorem df2Inner_length (alpha : K) (c : List K) (st : MlsaSt K) (xs : List K) :
    (df2Inner alpha c st xs).length = xs.length := by
  induction xs generalizing st with
  | nil => rfl
  | cons x xs ih => simp only [df2Inner, List.length_cons, ih]

/-- **`df2` = `P(F₂)/P(−F₂)`** -/
theorem df2_pade (alpha : K) (c : List K) (nmcp : Nat) (xs : List K) (n : Nat) (hn : n < xs.length) :
    padeApply (-1) (basic2 alpha c nmcp) (df2Inner alpha c (MlsaSt.init nmcp) xs) n = xs.getD n 0 ∧
    padeApply 1 (basic2 alpha c nmcp) (df2Inner alpha c (MlsaSt.init nmcp) xs) n =
      (df2Run alpha c (MlsaSt.init nmcp) xs).getD n 0 := by
  have h := df2Sig_pade alpha c (MlsaSt.init nmcp) (Sh2.init nmcp) xs n hn
  have e : ∀ s : K, padeApply s (basic2 alpha c nmcp) (df2Inner alpha c (MlsaSt.init nmcp) xs) n =
      (Finset.range 6).sum (fun i => s ^ i * (padeCoef : List K).getD i 0 *
        (df2Sig alpha c i (MlsaSt.init nmcp) xs).getD n 0) := by
    intro s
    unfold padeApply
    apply Finset.sum_congr rfl
    intro i hi
    rw [df2Sig_opPow alpha c nmcp xs i (Finset.mem_range.mp hi)]
  rw [e, e]
  exact h


end Jb
