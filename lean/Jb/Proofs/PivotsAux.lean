/-
  Auxiliary, purely algebraic lemmas for `Jb/Proofs/Pivots.lean`, stated over functions `ℕ → K`
  (same conventions as `LdlAux.lean`):
  * the factorisation identity `A = L D Lᵀ` on a leading block, needing the off-diagonal recurrence
    only for the rows strictly before the last one,
  * the quadratic form `xᵀ A x = Σ_k d_k ((Lᵀ x)_k)²`,
  * solvability of a unit upper-triangular system,
  * hence a vector `x` with `x_t = 1`, supported on `≤ t`, and `xᵀ A x = d_t`.
-/
import Jb.Proofs.LdlAux

set_option linter.unusedSectionVars false

namespace Jb

open Finset

variable {K : Type} [Field K]

/-- quadratic form `xᵀ A x` of the symmetric band matrix `A[s][s+i] = A[s+i][s] = a s i` of order `T` -/
def quadF (T : ℕ) (a : ℕ → ℕ → K) (x : ℕ → K) : K :=
  ∑ s ∈ range T, x s *
    ((∑ s' ∈ range s, a s' (s - s') * x s') + ∑ i ∈ range (T - s), a s i * x (s + i))

/-- `A = L D Lᵀ` on the leading `T × T` block; the off-diagonal recurrence is only needed for rows
    `t` with `t + 1 < T`. -/
theorem factor_identity (T : ℕ) (a l : ℕ → ℕ → K) (d : ℕ → K)
    (Rd : ∀ t, t < T → d t = a t 0 - ∑ k ∈ range t, l k (t - k) * l k (t - k) * d k)
    (Rl : ∀ t, t + 1 < T → ∀ j, 1 ≤ j →
      l t j * d t = a t j - ∑ k ∈ range t, l k (t - k) * l k (t - k + j) * d k) :
    ∀ s s', s ≤ s' → s' < T →
      a s (s' - s) = ∑ k ∈ range T, lowerM l s k * lowerM l s' k * d k := by
  intro s s' hss hs'
  have hs : s < T := by omega
  have := sum_lowerM l (fun k => lowerM l s' k * d k) hs
  simp only [← mul_assoc] at this
  rw [this]
  rcases Nat.eq_or_lt_of_le hss with rfl | hlt
  · rw [Nat.sub_self, Rd s hs]
    have : ∑ k ∈ range s, l k (s - k) * lowerM l s k * d k =
        ∑ k ∈ range s, l k (s - k) * l k (s - k) * d k := by
      apply sum_congr rfl
      intro k hk
      simp only [mem_range] at hk
      simp [lowerM, hk]
    rw [this]
    simp [lowerM]
  · have h1 : lowerM l s' s = l s (s' - s) := by simp [lowerM, hlt]
    have : ∑ k ∈ range s, l k (s - k) * lowerM l s' k * d k =
        ∑ k ∈ range s, l k (s - k) * l k (s - k + (s' - s)) * d k := by
      apply sum_congr rfl
      intro k hk
      simp only [mem_range] at hk
      have h2 : k < s' := by omega
      have h3 : s - k + (s' - s) = s' - k := by omega
      simp [lowerM, h2, h3]
    rw [this, h1, Rl s (by omega) (s' - s) (by omega)]
    ring

/-- `xᵀ A x = Σ_k d_k ((Lᵀ x)_k)²` -/
theorem quadF_eq (T : ℕ) (a l : ℕ → ℕ → K) (d x : ℕ → K)
    (Rd : ∀ t, t < T → d t = a t 0 - ∑ k ∈ range t, l k (t - k) * l k (t - k) * d k)
    (Rl : ∀ t, t + 1 < T → ∀ j, 1 ≤ j →
      l t j * d t = a t j - ∑ k ∈ range t, l k (t - k) * l k (t - k + j) * d k) :
    quadF T a x = ∑ k ∈ range T, d k * (∑ s ∈ range T, lowerM l s k * x s) ^ 2 := by
  have HA := factor_identity T a l d Rd Rl
  have Hrow : ∀ t, t < T →
      (∑ s ∈ range t, a s (t - s) * x s) + (∑ i ∈ range (T - t), a t i * x (t + i)) =
        ∑ s ∈ range T, (∑ k ∈ range T, lowerM l t k * lowerM l s k * d k) * x s := by
    intro t ht
    have hT : T = t + (T - t) := by omega
    conv_rhs => rw [hT, sum_range_add]
    congr 1
    · apply sum_congr rfl
      intro s hs
      simp only [mem_range] at hs
      rw [← hT, HA s t (by omega) ht]
      congr 1
      apply sum_congr rfl
      intro k _
      ring
    · apply sum_congr rfl
      intro i hi
      simp only [mem_range] at hi
      rw [← hT, ← HA t (t + i) (by omega) (by omega)]
      have : t + i - t = i := by omega
      rw [this]
  have Hs : ∀ s, s < T →
      x s * ((∑ s' ∈ range s, a s' (s - s') * x s') + ∑ i ∈ range (T - s), a s i * x (s + i)) =
        ∑ k ∈ range T, (x s * lowerM l s k * d k) * (∑ s' ∈ range T, lowerM l s' k * x s') := by
    intro s hs
    rw [Hrow s hs]
    simp only [sum_mul]
    rw [sum_comm, mul_sum]
    apply sum_congr rfl
    intro k _
    rw [mul_sum, mul_sum]
    apply sum_congr rfl
    intro s' _
    ring
  unfold quadF
  rw [sum_congr rfl (fun s hs => Hs s (mem_range.mp hs)), sum_comm]
  apply sum_congr rfl
  intro k _
  rw [← sum_mul, pow_two, ← mul_assoc]
  congr 1
  rw [mul_sum]
  apply sum_congr rfl
  intro s _
  ring

/-- a unit upper-triangular system `Lᵀ x = b` always has a solution -/
theorem unit_tri_solve (l : ℕ → ℕ → K) (n : ℕ) :
    ∀ b : ℕ → K, ∃ x : ℕ → K, ∀ k, k < n → ∑ s ∈ range n, lowerM l s k * x s = b k := by
  induction n with
  | zero =>
    intro b
    exact ⟨fun _ => 0, fun k hk => absurd hk (by omega)⟩
  | succ n ih =>
    intro b
    obtain ⟨x', hx'⟩ := ih (fun k => b k - lowerM l n k * b n)
    refine ⟨Function.update x' n (b n), ?_⟩
    intro k hk
    rw [sum_range_succ, Function.update_self]
    have h1 : ∑ s ∈ range n, lowerM l s k * Function.update x' n (b n) s =
        ∑ s ∈ range n, lowerM l s k * x' s := by
      apply sum_congr rfl
      intro s hs
      simp only [mem_range] at hs
      rw [Function.update_of_ne (by omega)]
    rw [h1]
    rcases Nat.lt_or_ge k n with h | h
    · rw [hx' k h]
      ring
    · have hkn : k = n := by omega
      subst hkn
      have h0 : ∑ s ∈ range k, lowerM l s k * x' s = 0 := by
        apply sum_eq_zero
        intro s hs
        simp only [mem_range] at hs
        have h3 : ¬ k < s := by omega
        have h4 : ¬ k = s := by omega
        simp [lowerM, h3, h4]
      rw [h0]
      simp [lowerM]

/-- the vector that isolates the pivot `d t`: `x_t = 1`, supported on `≤ t`, `xᵀ A x = d_t` -/
theorem exists_pivot_vector (t : ℕ) (a l : ℕ → ℕ → K) (d : ℕ → K)
    (Rd : ∀ s, s < t + 1 → d s = a s 0 - ∑ k ∈ range s, l k (s - k) * l k (s - k) * d k)
    (Rl : ∀ s, s + 1 < t + 1 → ∀ j, 1 ≤ j →
      l s j * d s = a s j - ∑ k ∈ range s, l k (s - k) * l k (s - k + j) * d k) :
    ∃ x : ℕ → K, x t = 1 ∧ (∀ s, t < s → x s = 0) ∧ quadF (t + 1) a x = d t := by
  obtain ⟨x0, hx0⟩ := unit_tri_solve l (t + 1) (fun k => if k = t then 1 else 0)
  have hx : ∀ k, k < t + 1 →
      ∑ s ∈ range (t + 1), lowerM l s k * (fun s => if s < t + 1 then x0 s else 0) s =
        if k = t then 1 else 0 := by
    intro k hk
    rw [← hx0 k hk]
    apply sum_congr rfl
    intro s hs
    simp only [mem_range] at hs
    simp [hs]
  refine ⟨fun s => if s < t + 1 then x0 s else 0, ?_, ?_, ?_⟩
  · have h := hx0 t (by omega)
    rw [sum_range_succ] at h
    have h0 : ∑ s ∈ range t, lowerM l s t * x0 s = 0 := by
      apply sum_eq_zero
      intro s hs
      simp only [mem_range] at hs
      have h3 : ¬ t < s := by omega
      have h4 : ¬ t = s := by omega
      simp [lowerM, h3, h4]
    rw [h0] at h
    simpa [lowerM] using h
  · intro s hs
    have : ¬ s < t + 1 := by omega
    simp [this]
  · rw [quadF_eq (t + 1) a l d _ Rd Rl]
    rw [sum_congr rfl (fun k hk => by rw [hx k (mem_range.mp hk)])]
    rw [sum_range_succ]
    have h0 : ∑ k ∈ range t, d k * (if k = t then (1 : K) else 0) ^ 2 = 0 := by
      apply sum_eq_zero
      intro k hk
      simp only [mem_range] at hk
      have : ¬ k = t := by omega
      simp [this]
    rw [h0]
    simp

/-- a vector supported on the first `T'` indices only sees the leading `T' × T'` block -/
theorem quadF_shrink (T T' : ℕ) (h : T' ≤ T) (a : ℕ → ℕ → K) (x : ℕ → K)
    (hx : ∀ s, T' ≤ s → x s = 0) : quadF T a x = quadF T' a x := by
  unfold quadF
  symm
  rw [← sum_range_extend (fun s => x s *
    ((∑ s' ∈ range s, a s' (s - s') * x s') + ∑ i ∈ range (T - s), a s i * x (s + i))) h]
  · apply sum_congr rfl
    intro s hs
    simp only [mem_range] at hs
    congr 2
    apply sum_range_extend (fun i => a s i * x (s + i)) (by omega)
    intro j h1 h2
    rw [hx (s + j) (by omega)]
    ring
  · intro j h1 _
    rw [hx j h1]
    ring

end Jb
