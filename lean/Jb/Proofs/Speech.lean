/-
  Helper lemmas for C02 about `Jb/Model/Speech.lean`.
-/
import Jb.Model.Speech
import Mathlib.Tactic.Linarith

set_option linter.unusedSectionVars false

namespace Jb
namespace Gen

variable {V F α : Type} [OfNat α 0]

theorem render_append (synth : V → F → V × List α) (v : V) (xs ys : List F) :
    render synth v (xs ++ ys) = render synth v xs ++ render synth (stateAfter synth v xs) ys := by
  induction xs generalizing v with
  | nil => simp [render, stateAfter]
  | cons x xs ih => simp [render, stateAfter, ih]

theorem render_length (synth : V → F → V × List α) (fp : Nat)
    (hs : ∀ v f, (synth v f).2.length = fp) (v : V) (xs : List F) :
    (render synth v xs).length = xs.length * fp := by
  induction xs generalizing v with
  | nil => simp [render]
  | cons x xs ih =>
    simp only [render, List.length_append, List.length_cons, ih, hs, Nat.succ_mul]
    omega

theorem stateAfter_append (synth : V → F → V × List α) (v : V) (xs ys : List F) :
    stateAfter synth v (xs ++ ys) = stateAfter synth (stateAfter synth v xs) ys := by
  induction xs generalizing v with
  | nil => simp [stateAfter]
  | cons x xs ih => simp [stateAfter, ih]

theorem step_exhausted (synth : V → F → V × List α) (g : Gen V F) (buf : List α)
    (h : g.frames.length ≤ g.next) : step synth g buf = .ok (g, 0, buf) := by
  unfold step
  rw [List.getElem?_eq_none h]

/-- A live step: the frame exists and the buffer is long enough. -/
theorem step_live (synth : V → F → V × List α) (g : Gen V F) (buf : List α)
    (h : g.next < g.frames.length) (hb : g.fperiod ≤ buf.length) :
    step synth g buf =
      .ok ({ g with next := g.next + 1, voc := (synth g.voc g.frames[g.next]).1 }, g.fperiod,
           ((synth g.voc g.frames[g.next]).2.take g.fperiod) ++ buf.drop g.fperiod) := by
  unfold step
  rw [List.getElem?_eq_getElem h]
  have : ¬ buf.length < g.fperiod := by omega
  simp [this]

/-- A live step on a too-short buffer panics. -/
theorem step_short (synth : V → F → V × List α) (g : Gen V F) (buf : List α)
    (h : g.next < g.frames.length) (hb : buf.length < g.fperiod) :
    step synth g buf = .panic "speech.rs:buffer shorter than fperiod" := by
  unfold step
  rw [List.getElem?_eq_getElem h]
  simp [hb]

/-- Loop invariant of the repaired `generate_all`. -/
theorem finishLoop_inv (synth : V → F → V × List α) (fp : Nat) (frames : List F)
    (hs : ∀ v f, (synth v f).2.length = fp) (base : Nat) (fuel : Nat) :
    ∀ (g : Gen V F) (written : List α), g.fperiod = fp → g.frames = frames →
      base ≤ g.next → g.next ≤ frames.length → frames.length - g.next + 1 ≤ fuel →
      written.length = (g.next - base) * fp →
      finishLoop synth base fuel g
          (written ++ List.replicate ((frames.length - g.next) * fp) 0) =
        .ok (written ++ render synth g.voc (frames.drop g.next)) := by
  induction fuel with
  | zero => intro g written _ _ _ _ hf _; omega
  | succ fuel ih =>
    intro g written hfp hfr hb hn hf hw
    unfold finishLoop
    simp only [hfp]
    rw [← hw]
    have h1 : ¬ (written ++ List.replicate ((frames.length - g.next) * fp) (0 : α)).length
        < written.length := by simp
    simp only [h1, if_false, List.drop_left, List.take_left]
    rcases Nat.lt_or_ge g.next frames.length with hlt | hge
    · -- live step
      obtain ⟨m, hm⟩ : ∃ m, frames.length - g.next = m + 1 := ⟨frames.length - g.next - 1, by omega⟩
      have hlt' : g.next < g.frames.length := by rw [hfr]; exact hlt
      have hlen : g.fperiod ≤ (List.replicate ((frames.length - g.next) * fp) (0 : α)).length := by
        rw [hfp, hm, List.length_replicate, Nat.succ_mul]; omega
      rw [step_live synth g _ hlt' hlen]
      simp only [hfp]
      have hdrop : frames.drop g.next = g.frames[g.next] :: frames.drop (g.next + 1) := by
        subst hfr; exact List.drop_eq_getElem_cons hlt
      by_cases hz : fp = 0
      · subst hz
        simp only [if_true, Nat.mul_zero, List.replicate_zero]
        have : (render synth g.voc (List.drop g.next frames)).length = 0 := by
          rw [render_length synth 0 hs]; simp
        rw [List.length_eq_zero_iff.mp this]
      · simp only [hz, if_false]
        have htake : List.take fp (synth g.voc g.frames[g.next]).2 = (synth g.voc g.frames[g.next]).2 :=
          List.take_of_length_le (by rw [hs])
        have hrep : List.drop fp (List.replicate ((frames.length - g.next) * fp) (0 : α))
            = List.replicate ((frames.length - (g.next + 1)) * fp) 0 := by
          rw [List.drop_replicate, hm, Nat.succ_mul, Nat.add_sub_cancel]
          congr 2; omega
        rw [htake, hrep, ← List.append_assoc]
        have := ih { g with next := g.next + 1, voc := (synth g.voc g.frames[g.next]).1 }
          (written ++ (synth g.voc g.frames[g.next]).2) hfp hfr (by simp; omega) (by simp; omega)
          (by simp; omega)
          (by
            simp only [List.length_append, hs, hw]
            rw [show g.next + 1 - base = (g.next - base) + 1 by omega, Nat.succ_mul])
        simp only [hfp] at this
        rw [this, hdrop]
        simp [render]
    · -- exhausted
      have hge' : g.frames.length ≤ g.next := by rw [hfr]; exact hge
      rw [step_exhausted synth g _ hge']
      have h0 : frames.length - g.next = 0 := by omega
      simp [h0, List.drop_eq_nil_of_le hge, render]

/-- The repaired `generate_all` returns exactly the not-yet-produced suffix. -/
theorem finish_fixed (synth : V → F → V × List α) (g : Gen V F)
    (hs : ∀ v f, (synth v f).2.length = g.fperiod) (hn : g.next ≤ g.frames.length) :
    finish synth true g = .ok (render synth g.voc (g.frames.drop g.next)) := by
  have := finishLoop_inv synth g.fperiod g.frames hs g.next (g.frames.length - g.next + 1) g []
    rfl rfl (Nat.le_refl _) hn (Nat.le_refl _) (by simp)
  simpa [finish] using this

/-- The one-shot waveform from sample `k * fp` on is the rendering of the frames from `k` on. -/
theorem render_drop (synth : V → F → V × List α) (fp : Nat)
    (hs : ∀ v f, (synth v f).2.length = fp) (v0 : V) (frames : List F) (k : Nat)
    (hk : k ≤ frames.length) :
    (render synth v0 frames).drop (k * fp) =
      render synth (stateAfter synth v0 (frames.take k)) (frames.drop k) := by
  conv => lhs; rw [← List.take_append_drop k frames, render_append]
  apply List.drop_left'
  rw [render_length synth fp hs, List.length_take, Nat.min_eq_left hk]

theorem stateAfter_take_succ (synth : V → F → V × List α) (v0 : V) (frames : List F) (k : Nat)
    (hk : k < frames.length) :
    stateAfter synth v0 (frames.take (k + 1)) =
      (synth (stateAfter synth v0 (frames.take k)) frames[k]).1 := by
  rw [List.take_add_one, stateAfter_append, List.getElem?_eq_getElem hk]
  simp [stateAfter]

/-- The chunk of the one-shot waveform for frame `k` is that frame's samples. -/
theorem render_chunk (synth : V → F → V × List α) (fp : Nat)
    (hs : ∀ v f, (synth v f).2.length = fp) (v0 : V) (frames : List F) (k : Nat)
    (hk : k < frames.length) :
    ((render synth v0 frames).drop (k * fp)).take fp =
      (synth (stateAfter synth v0 (frames.take k)) frames[k]).2 := by
  rw [render_drop synth fp hs v0 frames k (Nat.le_of_lt hk), List.drop_eq_getElem_cons hk]
  simp only [render]
  exact List.take_left' (hs _ _)

theorem runOps_refines_aux (synth : V → F → V × List α) (v0 : V) (fp : Nat) (frames : List F)
    (hs : ∀ v f, (synth v f).2.length = fp) (ops : List (GenOp × List α)) :
    ∀ g : Gen V F, g.fperiod = fp → g.frames = frames → g.next ≤ frames.length →
      g.voc = stateAfter synth v0 (frames.take g.next) →
      runOps synth true g ops =
        specOps (render synth v0 frames) fp frames.length g.next ops := by
  induction ops with
  | nil => intros; simp [runOps, specOps]
  | cons op rest ih =>
    intro g hfp hfr hn hv
    obtain ⟨o, buf⟩ := op
    cases o with
    | step b =>
      simp only [runOps, specOps]
      rcases Nat.lt_or_ge g.next frames.length with hlt | hge
      · have hlt' : g.next < g.frames.length := by rw [hfr]; exact hlt
        simp only [hlt, if_true]
        by_cases hb : buf.length < fp
        · rw [step_short synth g buf hlt' (by rw [hfp]; exact hb)]
          simp [hb]
        · rw [step_live synth g buf hlt' (by rw [hfp]; omega)]
          simp only [hb, if_false]
          have hidx : g.frames[g.next] = frames[g.next] := by subst hfr; rfl
          rw [ih { g with next := g.next + 1, voc := (synth g.voc g.frames[g.next]).1 } hfp hfr
            (by simp only; omega)
            (by
              simp only
              rw [stateAfter_take_succ synth v0 frames g.next hlt, ← hv, hidx])]
          rw [render_chunk synth fp hs v0 frames g.next hlt, ← hv, hfp, hidx,
            List.take_of_length_le (by rw [hs])]
      · have hge' : g.frames.length ≤ g.next := by rw [hfr]; exact hge
        have : ¬ g.next < frames.length := by omega
        rw [step_exhausted synth g buf hge']
        simp only [this, if_false]
        rw [ih g hfp hfr hn hv]
    | query =>
      simp only [runOps, specOps, synthesizedFrames]
      rw [ih g hfp hfr hn hv]
    | finish =>
      simp only [runOps, specOps]
      rw [finish_fixed synth g (by rw [hfp]; exact hs) (by rw [hfr]; exact hn)]
      simp only
      rw [render_drop synth fp hs v0 frames g.next hn, ← hv, hfr]

/-- Any caller history behaves like the cursor machine over the one-shot waveform.
    `g` is any generator state reachable from a fresh one: `g.voc` is the vocoder state after the
    first `g.next` frames. -/
theorem runOps_refines (synth : V → F → V × List α) (v0 : V) (g : Gen V F)
    (hs : ∀ v f, (synth v f).2.length = g.fperiod) (hn : g.next ≤ g.frames.length)
    (hv : g.voc = stateAfter synth v0 (g.frames.take g.next))
    (ops : List (GenOp × List α)) :
    runOps synth true g ops =
      specOps (render synth v0 g.frames) g.fperiod g.frames.length g.next ops :=
  runOps_refines_aux synth v0 g.fperiod g.frames hs ops g rfl rfl hn hv

end Gen
end Jb
