/-
  Helper lemmas for C09: `fillTimes` (Labels::new) and `createWithAlignment`.
-/
import Jb.Proofs.Duration

set_option linter.unusedSectionVars false

namespace Jb

variable {K : Type} [Field K] [LinearOrder K] [IsStrictOrderedRing K] [FloorRing K]

/-- What `Labels::new` must produce for label `i`, stated non-sequentially from the *original* list:
    an unknown (negative) end inherits the next label's original start when that is known;
    an unknown start inherits the previous label's original end when that is known;
    anything still negative is normalised to −1. -/
def fillSpecAt (ts : List (K × K)) (i : Nat) : K × K :=
  let t := ts.getD i (0, 0)
  let s :=
    if t.1 < 0 then
      (if 0 < i ∧ 0 ≤ (ts.getD (i - 1) (0, 0)).2 then (ts.getD (i - 1) (0, 0)).2 else -1)
    else t.1
  let e :=
    if t.2 < 0 then
      (if i + 1 < ts.length ∧ 0 ≤ (ts.getD (i + 1) (0, 0)).1 then (ts.getD (i + 1) (0, 0)).1 else -1)
    else t.2
  (s, e)

theorem fillTimes_length (ts : List (K × K)) : (fillTimes ts).length = ts.length := by
  sorry

theorem fillTimes_spec (ts : List (K × K)) (i : Nat) (hi : i < ts.length) :
    (fillTimes ts).getD i (0, 0) = fillSpecAt ts i := by
  sorry

/-- the frame-count shift: for a natural `c`, rounding `x − c` is rounding `x` minus `c`
    (as long as the result stays at least 1, i.e. above the `max 1` floor). -/
theorem roundMax1_sub_nat (x : K) (c : Nat) (h : 1 ≤ ⌊x + 1 / 2⌋₊ - c) :
    RoundNat.roundMax1 (x - (c : K)) = RoundNat.roundMax1 x - c := by
  sorry

/-- Index (in labels) of the first label of the group closed by label `i`: one past the last label
    before `i` whose end is known. -/
def groupStart (times : List (K × K)) : Nat → Nat
  | 0 => 0
  | i + 1 => if 0 ≤ (times.getD i (0, 0)).2 then i + 1 else groupStart times i

/-- With the repaired tail handling, alignment returns one duration per state for every label,
    each at least one frame (no label vanishes), and never panics on consistent sizes. -/
theorem align_keeps_all (ps : List (MeanVari K)) (nstate : Nat) (times : List (K × K))
    (hn : 0 < nstate) (hlen : ps.length = times.length * nstate) :
    ∃ d, createWithAlignment true ps nstate times = .ok d ∧ d.length = ps.length ∧
      ∀ x ∈ d, 1 ≤ x := by
  sorry

/-- The cumulative law. For a label `i` with known end `e` (in frames): let `g` be the start of its
    group, `c` the frames generated before the group, `m` the number of states in the group.
    If `round(e − c)` exceeds `m`, the frames up to and including label `i` are `c + round(e − c)`;
    otherwise every state of the group lasts exactly one frame. -/
theorem align_cumulative (ps : List (MeanVari K)) (nstate : Nat) (times : List (K × K))
    (hn : 0 < nstate) (hlen : ps.length = times.length * nstate) (d : List Nat)
    (hd : createWithAlignment true ps nstate times = .ok d)
    (i : Nat) (hi : i < times.length) (he : 0 ≤ (times.getD i (0, 0)).2) :
    let e := (times.getD i (0, 0)).2
    let g := groupStart times i
    let c := (d.take (g * nstate)).sum
    let m := (i + 1 - g) * nstate
    (m < RoundNat.roundMax1 (e - (c : K)) →
        (d.take ((i + 1) * nstate)).sum = c + RoundNat.roundMax1 (e - (c : K))) ∧
    (RoundNat.roundMax1 (e - (c : K)) ≤ m →
        ∀ x ∈ (d.drop (g * nstate)).take m, x = 1) := by
  sorry

end Jb
