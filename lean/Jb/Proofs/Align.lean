/-
  Helper lemmas for C09: `fillTimes` (Labels::new) and `createWithAlignment`.
-/
import Jb.Proofs.Duration

set_option linter.unusedSectionVars false

namespace Jb

variable {K : Type} [Field K] [LinearOrder K] [IsStrictOrderedRing K] [FloorRing K]

/-- What `Labels::new` must produce for label `i`, stated non-sequentially from the *original* list:
    an unknown (negative) end inherits the next label's original start when that is known;
    an unknown start inherits the previous label's original end when that is known;
    anything still negative is normalised to −1. -/
def fillSpecAt (ts : List (K × K)) (i : Nat) : K × K :=
  let t := ts.getD i (0, 0)
  let s :=
    if t.1 < 0 then
      (if 0 < i ∧ 0 ≤ (ts.getD (i - 1) (0, 0)).2 then (ts.getD (i - 1) (0, 0)).2 else -1)
    else t.1
  let e :=
    if t.2 < 0 then
      (if i + 1 < ts.length ∧ 0 ≤ (ts.getD (i + 1) (0, 0)).1 then (ts.getD (i + 1) (0, 0)).1 else -1)
    else t.2
  (s, e)

theorem fillTimesAux_nil (cur : K × K) : fillTimesAux cur [] = [normTime cur] := by
  rw [fillTimesAux]

theorem fillTimesAux_cons (cur nxt : K × K) (rest : List (K × K)) :
    fillTimesAux cur (nxt :: rest) =
      normTime (if cur.2 < 0 ∧ 0 ≤ nxt.1 then (cur.1, nxt.1) else cur) ::
        fillTimesAux (if 0 ≤ cur.2 ∧ nxt.1 < 0 then (cur.2, nxt.2) else nxt) rest := by
  rw [fillTimesAux]
  split_ifs with h1 h2 h2
  · exact absurd h1.1 (not_lt.mpr h2.1)
  · rfl
  · rfl
  · rfl

theorem fillTimesAux_length (rest : List (K × K)) : ∀ cur : K × K,
    (fillTimesAux cur rest).length = rest.length + 1 := by
  induction rest with
  | nil => intro cur; rw [fillTimesAux_nil]; rfl
  | cons nxt rest ih => intro cur; rw [fillTimesAux_cons, List.length_cons, ih, List.length_cons]

theorem fillTimes_length (ts : List (K × K)) : (fillTimes ts).length = ts.length := by
  cases ts with
  | nil => rfl
  | cons t rest => rw [fillTimes, fillTimesAux_length, List.length_cons]

theorem fillSpecAt_cons_succ (a : K × K) (l : List (K × K)) (i : Nat) (h : 0 < i ∨ a.2 < 0) :
    fillSpecAt (a :: l) (i + 1) = fillSpecAt l i := by
  cases i with
  | zero =>
    have ha : a.2 < 0 := by simpa using h
    have ha' : ¬ (0 ≤ a.2) := not_le.mpr ha
    simp [fillSpecAt, ha', show (2 < l.length + 1) ↔ (1 < l.length) by omega]
  | succ j =>
    simp [fillSpecAt]

theorem fillTimesAux_spec (rest : List (K × K)) : ∀ (prev cur : K × K) (i : Nat),
    i < rest.length + 1 →
    (fillTimesAux (if 0 ≤ prev.2 ∧ cur.1 < 0 then (prev.2, cur.2) else cur) rest).getD i (0, 0) =
      fillSpecAt (prev :: cur :: rest) (i + 1) := by
  induction rest with
  | nil =>
    intro prev cur i hi
    have : i = 0 := by simpa using hi
    subst this
    rw [fillTimesAux_nil]
    rcases lt_or_ge prev.2 0 with h1 | h1 <;> rcases lt_or_ge cur.1 0 with h2 | h2 <;>
      rcases lt_or_ge cur.2 0 with h3 | h3 <;>
      simp [fillSpecAt, normTime, h1, h2, h3, not_le.mpr, not_lt.mpr]
  | cons nxt rest ih =>
    intro prev cur i hi
    rw [fillTimesAux_cons]
    cases i with
    | zero =>
      rcases lt_or_ge prev.2 0 with h1 | h1 <;> rcases lt_or_ge cur.1 0 with h2 | h2 <;>
        rcases lt_or_ge cur.2 0 with h3 | h3 <;> rcases lt_or_ge nxt.1 0 with h4 | h4 <;>
        simp [fillSpecAt, normTime, h1, h2, h3, h4, not_le.mpr, not_lt.mpr]
    | succ j =>
      rw [List.getD_cons_succ]
      have h2 : (if 0 ≤ prev.2 ∧ cur.1 < 0 then (prev.2, cur.2) else cur).2 = cur.2 := by
        split_ifs <;> rfl
      rw [h2, ih cur nxt j (by simpa using hi)]
      exact (fillSpecAt_cons_succ prev _ (j + 1) (Or.inl (Nat.succ_pos j))).symm

theorem fillTimes_spec (ts : List (K × K)) (i : Nat) (hi : i < ts.length) :
    (fillTimes ts).getD i (0, 0) = fillSpecAt ts i := by
  cases ts with
  | nil => simp at hi
  | cons t rest =>
    have h := fillTimesAux_spec rest ((0 : K), (-1 : K)) t i (by simpa using hi)
    have hneg : ¬ ((0 : K) ≤ -1) := by simp
    simp only [hneg, false_and, if_false] at h
    rw [fillTimes, h]
    exact fillSpecAt_cons_succ _ _ _ (Or.inr (by simp))

/-- the frame-count shift: for a natural `c`, rounding `x − c` is rounding `x` minus `c`
    (as long as the result stays at least 1, i.e. above the `max 1` floor). -/
theorem roundMax1_sub_nat (x : K) (c : Nat) (h : 1 ≤ ⌊x + 1 / 2⌋₊ - c) :
    RoundNat.roundMax1 (x - (c : K)) = RoundNat.roundMax1 x - c := by
  have hfl : ⌊x - (c : K) + 1 / 2⌋₊ = ⌊x + 1 / 2⌋₊ - c := by
    have e : x - (c : K) + 1 / 2 = x + 1 / 2 - (c : K) := by ring
    rw [e, ← Int.floor_toNat, ← Int.floor_toNat, Int.floor_sub_natCast]
    omega
  rw [roundMax1_def, roundMax1_def, hfl]
  omega

/-- Index (in labels) of the first label of the group closed by label `i`: one past the last label
    before `i` whose end is known. -/
def groupStart (times : List (K × K)) : Nat → Nat
  | 0 => 0
  | i + 1 => if 0 ≤ (times.getD i (0, 0)).2 then i + 1 else groupStart times i

/-- `groupStart` relative to a loop state: `g0` is the current group start, `k` labels consumed. -/
def gStart (g0 k : Nat) (times : List (K × K)) : Nat → Nat
  | 0 => g0
  | j + 1 => if 0 ≤ (times.getD j (0, 0)).2 then k + j + 1 else gStart g0 k times j

theorem gStart_cons (g0 k : Nat) (t : K × K) (rest : List (K × K)) : ∀ j,
    gStart g0 k (t :: rest) (j + 1) = gStart (if 0 ≤ t.2 then k + 1 else g0) (k + 1) rest j
  | 0 => by simp [gStart]
  | j + 1 => by
    rw [gStart, gStart_cons g0 k t rest j, List.getD_cons_succ]
    conv_rhs => rw [gStart]
    rw [show k + (j + 1) + 1 = k + 1 + j + 1 by omega]

theorem groupStart_eq (times : List (K × K)) : ∀ i, groupStart times i = gStart 0 0 times i
  | 0 => rfl
  | i + 1 => by rw [groupStart, gStart, groupStart_eq times i, Nat.zero_add]

/-- The cumulative law at one label: `g` group start, `top` = label index + 1. -/
def CumAt (nstate : Nat) (d : List Nat) (e : K) (g top : Nat) : Prop :=
  let c := (d.take (g * nstate)).sum
  let m := (top - g) * nstate
  (m < RoundNat.roundMax1 (e - (c : K)) →
      (d.take (top * nstate)).sum = c + RoundNat.roundMax1 (e - (c : K))) ∧
  (RoundNat.roundMax1 (e - (c : K)) ≤ m → ∀ x ∈ (d.drop (g * nstate)).take m, x = 1)

theorem alignLoop_nil (b : Bool) (ps : List (MeanVari K)) (nstate fc ns st : Nat) (acc : List Nat) :
    alignLoop b ps nstate ([] : List (K × K)) fc ns st acc = .ok acc := by
  rw [alignLoop]

theorem alignLoop_known (b : Bool) (ps : List (MeanVari K)) (nstate fc ns st : Nat) (acc : List Nat)
    (s e : K) (rest : List (K × K)) (he : 0 ≤ e) (h1 : st + nstate ≤ ps.length)
    (h2 : ns ≤ st + nstate) (cur : List Nat)
    (hc : estimateWithFrameLength ((ps.drop ns).take (st + nstate - ns)) (e - (fc : K)) = .ok cur) :
    alignLoop b ps nstate ((s, e) :: rest) fc ns st acc =
      alignLoop b ps nstate rest (fc + cur.sum) (st + nstate) (st + nstate) (acc ++ cur) := by
  rw [alignLoop]
  simp only [he, h1, h2, and_self, if_true, hc]

theorem alignLoop_unknown_mid (b : Bool) (ps : List (MeanVari K)) (nstate fc ns st : Nat)
    (acc : List Nat) (s e : K) (rest : List (K × K)) (he : ¬ 0 ≤ e) (hr : rest ≠ []) :
    alignLoop b ps nstate ((s, e) :: rest) fc ns st acc =
      alignLoop b ps nstate rest fc ns (st + nstate) acc := by
  rw [alignLoop]
  have : rest.isEmpty = false := by cases rest <;> simp_all
  simp only [he, this, if_false, Bool.false_eq_true]

theorem alignLoop_unknown_last (b : Bool) (ps : List (MeanVari K)) (nstate fc ns st : Nat)
    (acc : List Nat) (s e : K) (he : ¬ 0 ≤ e) (h1 : st + nstate ≤ ps.length)
    (h2 : ns ≤ st + nstate) :
    alignLoop b ps nstate [(s, e)] fc ns st acc =
      .ok (if b then acc ++ estimateDuration ((ps.drop ns).take (st + nstate - ns)) (0 : K)
        else acc) := by
  rw [alignLoop]
  simp only [he, h1, h2, if_false, List.isEmpty_nil, if_true, and_self, alignLoop_nil]

theorem alignLoop_spec (ps : List (MeanVari K)) (nstate : Nat) (hn : 0 < nstate) :
    ∀ (times : List (K × K)) (k g0 : Nat) (acc : List Nat),
      g0 ≤ k → acc.length = g0 * nstate → (times = [] → g0 = k) →
      ps.length = (k + times.length) * nstate → (∀ x ∈ acc, 1 ≤ x) →
      ∃ r, alignLoop true ps nstate times acc.sum (g0 * nstate) (k * nstate) acc = .ok (acc ++ r) ∧
        (acc ++ r).length = ps.length ∧ (∀ x ∈ r, 1 ≤ x) ∧
        ∀ j, j < times.length → 0 ≤ (times.getD j (0, 0)).2 →
          CumAt nstate (acc ++ r) (times.getD j (0, 0)).2 (gStart g0 k times j) (k + j + 1) := by
  intro times
  induction times with
  | nil =>
    intro k g0 acc hg hacc hnil hps hpos
    refine ⟨[], by rw [alignLoop_nil, List.append_nil], ?_, by simp, by simp⟩
    rw [List.append_nil, hacc, hps, hnil rfl]; simp
  | cons t rest ih =>
    intro k g0 acc hg hacc hnil hps hpos
    obtain ⟨s, e⟩ := t
    have hgk : g0 * nstate ≤ k * nstate := Nat.mul_le_mul_right _ hg
    have hps' : ps.length = k * nstate + rest.length * nstate + nstate := by
      rw [hps, List.length_cons]; ring
    have hsm : (k + 1) * nstate = k * nstate + nstate := Nat.succ_mul _ _
    have h1 : k * nstate + nstate ≤ ps.length := by omega
    have h2 : g0 * nstate ≤ k * nstate + nstate := by omega
    have hglen : ((ps.drop (g0 * nstate)).take (k * nstate + nstate - g0 * nstate)).length =
        k * nstate + nstate - g0 * nstate := by
      rw [List.length_take, List.length_drop]; omega
    by_cases he : 0 ≤ e
    · -- known end
      obtain ⟨cur, hcur, hlen, hcpos, hle, hgt⟩ := estimateWithFrameLength_spec
        ((ps.drop (g0 * nstate)).take (k * nstate + nstate - g0 * nstate)) (e - (acc.sum : K))
      rw [hglen] at hlen hle hgt
      have hacl : (acc ++ cur).length = (k + 1) * nstate := by
        rw [List.length_append, hacc, hlen]; omega
      obtain ⟨r', hr', hlen', hpos', hcum'⟩ := ih (k + 1) (k + 1) (acc ++ cur) le_rfl hacl
        (fun _ => rfl) (by rw [hps, List.length_cons]; ring)
        (by
          intro x hx
          rcases List.mem_append.mp hx with hx | hx
          · exact hpos x hx
          · exact hcpos x hx)
      rw [List.sum_append, hsm] at hr'
      refine ⟨cur ++ r', ?_, ?_, ?_, ?_⟩
      · rw [alignLoop_known true ps nstate _ _ _ acc s e rest he h1 h2 cur hcur, hr',
          List.append_assoc]
      · rw [← List.append_assoc]; exact hlen'
      · intro x hx
        rcases List.mem_append.mp hx with hx | hx
        · exact hcpos x hx
        · exact hpos' x hx
      · intro j hj hej
        cases j with
        | zero =>
          have hm : (k + 0 + 1 - g0) * nstate = k * nstate + nstate - g0 * nstate := by
            rw [Nat.add_zero, Nat.sub_mul, hsm]
          have hT1 : (acc ++ (cur ++ r')).take (g0 * nstate) = acc := List.take_left' hacc
          have hT2 : (acc ++ (cur ++ r')).take ((k + 0 + 1) * nstate) = acc ++ cur := by
            rw [← List.append_assoc]; exact List.take_left' hacl
          have hT3 : ((acc ++ (cur ++ r')).drop (g0 * nstate)).take
              (k * nstate + nstate - g0 * nstate) = cur := by
            rw [List.drop_left' hacc]; exact List.take_left' hlen
          have hne : (List.take (k * nstate + nstate - g0 * nstate) (List.drop (g0 * nstate) ps)) ≠ [] := by
            intro h; rw [h] at hglen; simp at hglen; omega
          show CumAt nstate (acc ++ (cur ++ r')) e g0 (k + 0 + 1)
          unfold CumAt
          simp only [hT1, hT2, hm, hT3]
          refine ⟨fun hlt => ?_, fun hle' => ?_⟩
          · rw [List.sum_append, hgt hne hlt]
          · rw [hle hle']; intro x hx; exact List.eq_of_mem_replicate hx
        | succ j' =>
          have := hcum' j' (by simpa using hj) (by simpa using hej)
          rw [gStart_cons, if_pos he, List.getD_cons_succ,
            show k + (j' + 1) + 1 = k + 1 + j' + 1 by omega, ← List.append_assoc]
          exact this
    · -- unknown end
      by_cases hr : rest = []
      · subst hr
        refine ⟨estimateDuration ((ps.drop (g0 * nstate)).take
          (k * nstate + nstate - g0 * nstate)) (0 : K), ?_, ?_, ?_, ?_⟩
        · rw [alignLoop_unknown_last true ps nstate _ _ _ acc s e he h1 h2]; simp
        · rw [List.length_append, estimateDuration_length, hglen, hacc, hps']; simp; omega
        · exact estimateDuration_pos _ _
        · intro j hj hej
          have : j = 0 := by simpa using hj
          subst this
          exact absurd hej he
      · obtain ⟨r', hr', hlen', hpos', hcum'⟩ := ih (k + 1) g0 acc (by omega) hacc
          (fun h => absurd h hr) (by rw [hps, List.length_cons]; ring) hpos
        rw [hsm] at hr'
        refine ⟨r', ?_, hlen', hpos', ?_⟩
        · rw [alignLoop_unknown_mid true ps nstate _ _ _ acc s e rest he hr, hr']
        · intro j hj hej
          cases j with
          | zero => exact absurd hej he
          | succ j' =>
            have := hcum' j' (by simpa using hj) (by simpa using hej)
            rw [gStart_cons, if_neg he, List.getD_cons_succ,
              show k + (j' + 1) + 1 = k + 1 + j' + 1 by omega]
            exact this

theorem createWithAlignment_spec (ps : List (MeanVari K)) (nstate : Nat) (times : List (K × K))
    (hn : 0 < nstate) (hlen : ps.length = times.length * nstate) :
    ∃ d, createWithAlignment true ps nstate times = .ok d ∧ d.length = ps.length ∧
      (∀ x ∈ d, 1 ≤ x) ∧
      ∀ j, j < times.length → 0 ≤ (times.getD j (0, 0)).2 →
        CumAt nstate d (times.getD j (0, 0)).2 (groupStart times j) (j + 1) := by
  obtain ⟨r, hr, hl, hpos, hcum⟩ := alignLoop_spec ps nstate hn times 0 0 [] le_rfl (by simp)
    (fun _ => rfl) (by rw [Nat.zero_add, hlen]) (by simp)
  simp only [List.sum_nil, Nat.zero_mul, List.nil_append] at hr hl hcum
  refine ⟨r, hr, hl, hpos, fun j hj hej => ?_⟩
  have := hcum j hj hej
  rw [Nat.zero_add] at this
  rw [groupStart_eq]
  exact this

/-- With the repaired tail handling, alignment returns one duration per state for every label,
    each at least one frame (no label vanishes), and never panics on consistent sizes. -/
theorem align_keeps_all (ps : List (MeanVari K)) (nstate : Nat) (times : List (K × K))
    (hn : 0 < nstate) (hlen : ps.length = times.length * nstate) :
    ∃ d, createWithAlignment true ps nstate times = .ok d ∧ d.length = ps.length ∧
      ∀ x ∈ d, 1 ≤ x := by
  obtain ⟨d, h1, h2, h3, -⟩ := createWithAlignment_spec ps nstate times hn hlen
  exact ⟨d, h1, h2, h3⟩

/-- The cumulative law. For a label `i` with known end `e` (in frames): let `g` be the start of its
    group, `c` the frames generated before the group, `m` the number of states in the group.
    If `round(e − c)` exceeds `m`, the frames up to and including label `i` are `c + round(e − c)`;
    otherwise every state of the group lasts exactly one frame. -/
theorem align_cumulative (ps : List (MeanVari K)) (nstate : Nat) (times : List (K × K))
    (hn : 0 < nstate) (hlen : ps.length = times.length * nstate) (d : List Nat)
    (hd : createWithAlignment true ps nstate times = .ok d)
    (i : Nat) (hi : i < times.length) (he : 0 ≤ (times.getD i (0, 0)).2) :
    let e := (times.getD i (0, 0)).2
    let g := groupStart times i
    let c := (d.take (g * nstate)).sum
    let m := (i + 1 - g) * nstate
    (m < RoundNat.roundMax1 (e - (c : K)) →
        (d.take ((i + 1) * nstate)).sum = c + RoundNat.roundMax1 (e - (c : K))) ∧
    (RoundNat.roundMax1 (e - (c : K)) ≤ m →
        ∀ x ∈ (d.drop (g * nstate)).take m, x = 1) := by
  obtain ⟨d', h1, -, -, hcum⟩ := createWithAlignment_spec ps nstate times hn hlen
  rw [hd, Outcome.ok.injEq] at h1
  subst h1
  exact hcum i hi he

end Jb
