/-
  C15 at the level of the pipeline model: setting the additional half tone to `h` changes nothing but the log-F0
  trajectory — durations, spectrum and low-pass trajectories are the same — and on every voiced frame log-F0 is the
  trajectory without the shift plus `h·ln2/12` (through MLPG and GV), as long as no state mean is clamped.
-/
import Jb.Proofs.HalfTone
import Jb.Proofs.Total

set_option linter.unusedSectionVars false

namespace Jb

variable {K : Type} [Field K] [LinearOrder K] [IsStrictOrderedRing K] [FloorRing K]
  [Transc K] [Consts K] [MlpgConsts K]

/-- **"Additional half tone transposes F0 and nothing else"**, for the parameters `Engine::generator` hands to the
    vocoder. `s1` is the log-F0 stream, `thr` its MSD threshold. -/
theorem engineParams_halfTone (c : Condition K) (h : K) (hh : h ≠ 0) (h0 : c.halfTone = 0) (b : Bool)
    (inp : EngineIn K) (hwf : EngineWF c inp)
    (s1 : StreamIn K) (hs1 : inp.streams[1]? = some s1) (thr : K) (hthr : c.msdThreshold[1]? = some thr)
    (hstatic : s1.windows.head? = some [1]) (hsum : ∀ w ∈ s1.windows.tail, w.sum = 0)
    (hnonneg : ∀ st ∈ s1.stream, ∀ p ∈ st.params, 0 ≤ (withIvar p).vari)
    (hdflt : 0 ≤ (withIvar (⟨0, 0⟩ : MeanVari K)).vari)
    (hpos : ∀ st ∈ s1.stream, 0 < (withIvar (st.params.getD 0 ⟨0, 0⟩)).vari)
    (hu : Unclamped s1.stream h) :
    ∃ p p', engineParams c b inp = .ok p ∧ engineParams { c with halfTone := h } b inp = .ok p' ∧
      p'.durations = p.durations ∧ p'.spectrum = p.spectrum ∧ p'.lpf = p.lpf ∧
      p'.lf0.length = p.lf0.length ∧
      ∀ f, f < p.lf0.length →
        p'.lf0.getD f [] =
          if (maskCreate s1.stream thr p.durations).getD f false then (p.lf0.getD f []).map (· + h * Consts.halfTone)
          else p.lf0.getD f [] := by
  have hD' : engineDurations { c with halfTone := h } b inp = engineDurations c b inp :=
    engineDurations_congr _ c b inp rfl rfl
  obtain ⟨durs, hD, hdl, -⟩ := engineDurations_total c inp hwf b
  have hn2 : 2 ≤ inp.nstream := by rcases hwf.nstream with e | e <;> omega
  obtain ⟨sp, s0, hs0, hS0, -, -⟩ := engineStream_total c inp hwf durs hdl 0 (by omega)
  have hS0' : engineStream { c with halfTone := h } inp durs 0 = .ok sp := by
    rw [← hS0]
    exact engineStream_congr _ c inp durs 0 rfl rfl (fun e => absurd e (by decide))
  -- the log-F0 stream
  have hgw : c.gvWeight[1]? = some (c.gvWeight[1]'(by have := hwf.gvw; omega)) :=
    List.getElem?_eq_getElem _
  generalize c.gvWeight[1]'_ = gw at hgw
  obtain ⟨hwf1, hsl, hgv⟩ := hwf.wf s1 (List.mem_of_getElem? hs1)
  obtain ⟨traj, traj', ht, ht', hlen, hfr⟩ := mlpgCreate_halfTone gw thr s1 durs h hh (hwf.lf0 s1 hs1) hwf1
    hstatic hsum (by omega) (fun g sw e => by rw [hdl]; exact hgv g sw e) hnonneg hdflt hpos hu
  have hS1 : engineStream c inp durs 1 = .ok traj := by
    unfold engineStream
    rw [hs1, hgw, hthr]
    simp only [if_true]
    rw [h0, applyHalfTone_zero]
    exact ht
  have hS1' : engineStream { c with halfTone := h } inp durs 1 = .ok traj' := by
    unfold engineStream
    simp only
    rw [hs1, hgw, hthr]
    simp only [if_true]
    exact ht'
  rcases hwf.nstream with e | e
  · refine ⟨⟨durs, sp, traj, traj.map fun _ => []⟩, ⟨durs, sp, traj', traj'.map fun _ => []⟩, ?_, ?_,
      rfl, rfl, ?_, hlen, hfr⟩
    · unfold engineParams
      rw [hD]
      simp only
      rw [hS0, hS1]
      simp [e]
    · unfold engineParams
      rw [hD', hD]
      simp only
      rw [hS0', hS1']
      simp [e]
    · simp only [List.map_const', hlen]
  · obtain ⟨lpf, s2, hs2, hS2, -, -⟩ := engineStream_total c inp hwf durs hdl 2 (by omega)
    have hS2' : engineStream { c with halfTone := h } inp durs 2 = .ok lpf := by
      rw [← hS2]
      exact engineStream_congr _ c inp durs 2 rfl rfl (fun e => absurd e (by decide))
    refine ⟨⟨durs, sp, traj, lpf⟩, ⟨durs, sp, traj', lpf⟩, ?_, ?_, rfl, rfl, rfl, hlen, hfr⟩
    · unfold engineParams
      rw [hD]
      simp only
      rw [hS0, hS1]
      simp [e, hS2]
    · unfold engineParams
      rw [hD', hD]
      simp only
      rw [hS0', hS1']
      simp [e, hS2']

end Jb
