/-
  C07, "so its mean power is 1": over any `n` consecutive samples of a pulse train with constant period `p ≥ 1`
  (impulses of height `sqrt p`), started from a counter `c₀ ∈ (0, p]`, the energy is EXACTLY `n + c₀ − c_n` where `c_n ∈ (0, p]`
  is the counter afterwards; hence `|energy − n| < p`, and the mean power `energy / n` tends to 1 as `1 ± p/n`.
  (`sqrt p · sqrt p = p` is the one law of `sqrt` used; it is a hypothesis.)
-/
import Jb.Proofs.Excitation

set_option linter.unusedSectionVars false

namespace Jb

variable {K : Type} [Field K] [LinearOrder K] [IsStrictOrderedRing K] [Transc K] [Consts K]

/-- `n` samples of the pulse generator at the current (constant) period; returns the samples and the final state -/
def pulseRun : ExcSt K → Nat → List K × ExcSt K
  | e, 0 => ([], e)
  | e, n + 1 => let r := pulseStep e; let rest := pulseRun r.2 n; (r.1 :: rest.1, rest.2)

theorem pulseStep_spec' (e : ExcSt K) :
    (e.pitchOfCurr < e.pitchCounter + 1 →
      pulseStep e = (Transc.sqrt e.pitchOfCurr, { e with pitchCounter := e.pitchCounter + 1 - e.pitchOfCurr })) ∧
    (¬ e.pitchOfCurr < e.pitchCounter + 1 →
      pulseStep e = (0, { e with pitchCounter := e.pitchCounter + 1 })) := by
  constructor
  · intro h; unfold pulseStep; simp [h]
  · intro h; unfold pulseStep; simp [h]

theorem pulseRun_succ (e : ExcSt K) (n : Nat) :
    pulseRun e (n + 1) = ((pulseStep e).1 :: (pulseRun (pulseStep e).2 n).1, (pulseRun (pulseStep e).2 n).2) := rfl

/-- **energy of `n` samples = `n + c₀ − c_n`, counter stays in `(0, p]`, period unchanged** -/
theorem pulse_energy (e : ExcSt K) (hp : 1 ≤ e.pitchOfCurr) (hc0 : 0 < e.pitchCounter)
    (hc : e.pitchCounter ≤ e.pitchOfCurr)
    (hsqrt : Transc.sqrt e.pitchOfCurr * Transc.sqrt e.pitchOfCurr = e.pitchOfCurr) (n : Nat) :
    ((pulseRun e n).1.map fun x => x * x).sum = (n : K) + e.pitchCounter - (pulseRun e n).2.pitchCounter ∧
    0 < (pulseRun e n).2.pitchCounter ∧ (pulseRun e n).2.pitchCounter ≤ e.pitchOfCurr ∧
    (pulseRun e n).2.pitchOfCurr = e.pitchOfCurr := by
  induction n generalizing e with
  | zero => simp [pulseRun, hc0, hc]
  | succ n ih =>
    rw [pulseRun_succ]
    by_cases h : e.pitchOfCurr < e.pitchCounter + 1
    · rw [(pulseStep_spec' e).1 h]
      have IH := ih { e with pitchCounter := e.pitchCounter + 1 - e.pitchOfCurr } hp
        (by show 0 < e.pitchCounter + 1 - e.pitchOfCurr; linarith)
        (by show e.pitchCounter + 1 - e.pitchOfCurr ≤ e.pitchOfCurr; linarith) hsqrt
      obtain ⟨h1, h2, h3, h4⟩ := IH
      refine ⟨?_, h2, h3, h4⟩
      simp only [List.map_cons, List.sum_cons, h1, hsqrt]
      push_cast
      ring
    · rw [(pulseStep_spec' e).2 h]
      have h' : e.pitchCounter + 1 ≤ e.pitchOfCurr := not_lt.mp h
      have IH := ih { e with pitchCounter := e.pitchCounter + 1 } hp
        (by show 0 < e.pitchCounter + 1; linarith)
        (by show e.pitchCounter + 1 ≤ e.pitchOfCurr; exact h') hsqrt
      obtain ⟨h1, h2, h3, h4⟩ := IH
      refine ⟨?_, h2, h3, h4⟩
      simp only [List.map_cons, List.sum_cons, h1]
      push_cast
      ring

/-- **mean power is 1**: the energy of `n` samples differs from `n` by less than one period -/
theorem pulse_mean_power (e : ExcSt K) (hp : 1 ≤ e.pitchOfCurr) (hc0 : 0 < e.pitchCounter)
    (hc : e.pitchCounter ≤ e.pitchOfCurr)
    (hsqrt : Transc.sqrt e.pitchOfCurr * Transc.sqrt e.pitchOfCurr = e.pitchOfCurr) (n : Nat) :
    |((pulseRun e n).1.map fun x => x * x).sum - (n : K)| < e.pitchOfCurr := by
  obtain ⟨h1, h2, h3, _⟩ := pulse_energy e hp hc0 hc hsqrt n
  rw [h1, abs_lt]
  constructor <;> linarith

/-- every sample is `0` or `sqrt p` -/
theorem pulse_values (e : ExcSt K) (n : Nat) :
    ∀ x ∈ (pulseRun e n).1, x = 0 ∨ x = Transc.sqrt e.pitchOfCurr := by
  induction n generalizing e with
  | zero => intro x hx; simp [pulseRun] at hx
  | succ n ih =>
    rw [pulseRun_succ]
    intro x hx
    rcases List.mem_cons.mp hx with hx | hx
    · by_cases h : e.pitchOfCurr < e.pitchCounter + 1
      · rw [(pulseStep_spec' e).1 h] at hx; exact Or.inr hx
      · rw [(pulseStep_spec' e).2 h] at hx; exact Or.inl hx
    · have := ih _ x hx
      by_cases h : e.pitchOfCurr < e.pitchCounter + 1
      · rw [(pulseStep_spec' e).1 h] at this; exact this
      · rw [(pulseStep_spec' e).2 h] at this; exact this

end Jb
