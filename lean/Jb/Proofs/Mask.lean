/-
  Lemmas about state expansion, the MSD mask, boundary distances and `fill` (`Jb/Model/Mlpg.lean`).
-/
import Jb.Model.Mlpg
import Mathlib.Algebra.Order.Field.Basic
import Mathlib.Tactic.Linarith

set_option linter.unusedSectionVars false

namespace Jb

variable {K : Type} [Field K] [LinearOrder K] [IsStrictOrderedRing K]

/-! ### `expand` -/

theorem expand_nil_right {β : Type} (xs : List β) : expand xs [] = [] := by
  simp [expand]

theorem expand_cons {β : Type} (x : β) (xs : List β) (d : Nat) (ds : List Nat) :
    expand (x :: xs) (d :: ds) = List.replicate d x ++ expand xs ds := by
  simp [expand]

theorem expand_map {β γ : Type} (g : β → γ) (xs : List β) (durs : List Nat) :
    expand (xs.map g) durs = (expand xs durs).map g := by
  induction xs generalizing durs with
  | nil => simp [expand]
  | cons x xs ih =>
    cases durs with
    | nil => simp [expand]
    | cons d ds => simp [expand_cons, ih]

/-- number of frames produced by expansion -/
theorem expand_length {β : Type} (xs : List β) (durs : List Nat) (h : durs.length ≤ xs.length) :
    (expand xs durs).length = durs.sum := by
  induction xs generalizing durs with
  | nil =>
    cases durs with
    | nil => simp [expand]
    | cons d ds => simp at h
  | cons x xs ih =>
    cases durs with
    | nil => simp [expand]
    | cons d ds =>
      simp only [List.length_cons, Nat.add_le_add_iff_right] at h
      simp [expand_cons, ih ds h]

/-- Frame `f` takes the item of state `s` exactly when `Σ_{k<s} d_k ≤ f < Σ_{k≤s} d_k`. -/
theorem expand_spec {β : Type} (xs : List β) (durs : List Nat) (s f : Nat)
    (hs : s < xs.length) (hs' : s < durs.length)
    (hlo : (durs.take s).sum ≤ f) (hhi : f < (durs.take (s + 1)).sum) :
    (expand xs durs)[f]? = xs[s]? := by
  induction xs generalizing durs s f with
  | nil => simp at hs
  | cons x xs ih =>
    cases durs with
    | nil => simp at hs'
    | cons d ds =>
      rw [expand_cons]
      cases s with
      | zero =>
        have hfd : f < d := by simpa using hhi
        rw [List.getElem?_append_left (by simpa using hfd)]
        simp [hfd]
      | succ s =>
        simp only [List.take_succ_cons, List.sum_cons] at hlo hhi
        simp only [List.length_cons, Nat.add_lt_add_iff_right] at hs hs'
        have hdf : d ≤ f := by omega
        rw [List.getElem?_append_right (by simpa using hdf)]
        simp only [List.length_replicate, List.getElem?_cons_succ]
        exact ih ds s (f - d) hs hs' (by omega) (by omega)

/-! ### the MSD mask -/

/-- Voicing: the frame is voiced iff its state's MSD weight exceeds the threshold. -/
theorem mask_spec (stream : List (StateParam K)) (thr : K) (durs : List Nat) (s f : Nat)
    (hs : s < stream.length) (hs' : s < durs.length)
    (hlo : (durs.take s).sum ≤ f) (hhi : f < (durs.take (s + 1)).sum) :
    (maskCreate stream thr durs)[f]? = some (decide (thr < (stream.getD s ⟨[], 0⟩).msd)) := by
  unfold maskCreate
  rw [expand_spec _ _ s f (by simpa using hs) hs' hlo hhi]
  simp [List.getElem?_map, List.getElem?_eq_getElem hs, List.getD_eq_getElem?_getD]

/-- Raising the threshold can only turn voiced frames unvoiced. -/
theorem mask_antitone (stream : List (StateParam K)) (thr thr' : K) (h : thr ≤ thr') (durs : List Nat)
    (f : Nat) (hv : (maskCreate stream thr' durs)[f]? = some true) :
    (maskCreate stream thr durs)[f]? = some true := by
  unfold maskCreate at hv ⊢
  rw [expand_map, List.getElem?_map] at hv ⊢
  cases hx : (expand stream durs)[f]? with
  | none => simp [hx] at hv
  | some a =>
    simp only [hx, Option.map_some, Option.some.injEq, decide_eq_true_eq] at hv ⊢
    exact lt_of_le_of_lt h hv

theorem mask_length_eq (stream : List (StateParam K)) (thr thr' : K) (durs : List Nat) :
    (maskCreate stream thr durs).length = (maskCreate stream thr' durs).length := by
  simp [maskCreate, expand_map]

/-! ### boundary distances -/

theorem leftDists_length (m : List Bool) (f l : Nat) : (leftDists m f l).length = m.length := by
  induction m generalizing f l with
  | nil => simp [leftDists]
  | cons b r ih => cases b <;> simp [leftDists, ih]

theorem takeWhile_id_replicate_true (n : Nat) :
    (List.replicate n true).takeWhile id = List.replicate n true := by
  induction n with
  | zero => simp
  | succ n ih => simp [List.replicate_succ, ih]

theorem takeWhile_id_append_false (A B : List Bool) :
    (A ++ false :: B).takeWhile id = A.takeWhile id := by
  induction A with
  | nil => simp
  | cons a A ih => cases a <;> simp [ih]

/-- General form: `leftDists m f0 l` where the current voiced run started `f0 - l` frames ago. -/
theorem leftDists_getElem? (m : List Bool) (f0 l k : Nat) (hl : l ≤ f0) (hk : k < m.length) :
    (leftDists m f0 l)[k]? = some
      (if m.getD k false then
        (((m.take k).reverse ++ List.replicate (f0 - l) true).takeWhile id).length
       else 0) := by
  induction m generalizing f0 l k with
  | nil => simp at hk
  | cons b r ih =>
    cases k with
    | zero =>
      cases b <;> simp [leftDists]
    | succ k =>
      simp only [List.length_cons, Nat.add_lt_add_iff_right] at hk
      cases b with
      | true =>
        simp only [leftDists, List.getElem?_cons_succ, List.getD_cons_succ, List.take_succ_cons,
          List.reverse_cons, List.append_assoc, List.singleton_append]
        rw [ih (f0 + 1) l k (by omega) hk]
        have : f0 + 1 - l = (f0 - l) + 1 := by omega
        rw [this, List.replicate_succ]
      | false =>
        simp only [leftDists, List.getElem?_cons_succ, List.getD_cons_succ, List.take_succ_cons,
          List.reverse_cons, List.append_assoc, List.singleton_append]
        rw [ih (f0 + 1) (f0 + 1) k (Nat.le_refl _) hk, takeWhile_id_append_false]
        simp

theorem leftDists_zero_getElem? (m : List Bool) (k : Nat) (hk : k < m.length) :
    (leftDists m 0 0)[k]? = some
      (if m.getD k false then ((m.take k).reverse.takeWhile id).length else 0) := by
  simpa using leftDists_getElem? m 0 0 k (Nat.le_refl _) hk

theorem rightDists_getElem? (m : List Bool) (f : Nat) (hf : f < m.length) :
    (leftDists m.reverse 0 0).reverse[f]? = some
      (if m.getD f false then ((m.drop (f + 1)).takeWhile id).length else 0) := by
  have hlen : (leftDists m.reverse 0 0).length = m.length := by
    rw [leftDists_length, List.length_reverse]
  rw [List.getElem?_reverse (by omega), hlen,
    leftDists_zero_getElem? m.reverse (m.length - 1 - f) (by rw [List.length_reverse]; omega)]
  have h1 : m.reverse.getD (m.length - 1 - f) false = m.getD f false := by
    rw [List.getD_eq_getElem?_getD, List.getD_eq_getElem?_getD,
      List.getElem?_reverse (by omega)]
    congr 2
    omega
  have h2 : (m.reverse.take (m.length - 1 - f)).reverse = m.drop (f + 1) := by
    rw [List.take_reverse, List.reverse_reverse]
    congr 1
    omega
  rw [h1, h2]

/-- Boundary distances are the lengths of the voiced runs to the left and to the right. -/
theorem boundary_spec (mask : List Bool) (f : Nat) (hf : f < mask.length) :
    (boundaryDistances mask)[f]? = some
      (if mask.getD f false then
        (((mask.take f).reverse.takeWhile id).length, ((mask.drop (f + 1)).takeWhile id).length)
       else (0, 0)) := by
  unfold boundaryDistances
  rw [List.getElem?_zip_eq_some]
  rw [leftDists_zero_getElem? mask f hf, rightDists_getElem? mask f hf]
  cases mask.getD f false <;> simp

/-! ### window cuts -/

theorem takeWhile_id_length_lt_iff (l : List Bool) (n : Nat) :
    (l.takeWhile id).length < n ↔
      ¬ (n ≤ l.length ∧ ∀ k, k < n → l.getD k false = true) := by
  induction l generalizing n with
  | nil =>
    cases n with
    | zero => simp
    | succ n => simp
  | cons b r ih =>
    cases n with
    | zero => simp
    | succ n =>
      cases b with
      | false =>
        simp only [List.takeWhile_cons, id_eq, Bool.false_eq_true, ↓reduceIte, List.length_nil,
          Nat.zero_lt_succ, true_iff, not_and]
        intro _ h
        simpa using h 0 (Nat.zero_lt_succ _)
      | true =>
        simp only [List.takeWhile_cons, id_eq, ↓reduceIte, List.length_cons,
          Nat.add_lt_add_iff_right, Nat.add_le_add_iff_right]
        rw [ih n]
        apply not_congr
        apply and_congr_right
        intro _
        constructor
        · intro h k hk
          cases k with
          | zero => simp
          | succ k => simpa using h k (by omega)
        · intro h k hk
          simpa using h (k + 1) (by omega)

/-- `left_cut_iff` under the hypothesis `f ≤ mask.length` (the statement without it is false:
    `mask = [true]`, `f = 2`, `lw = 1`). -/
theorem left_cut_iff_partial (mask : List Bool) (f lw : Nat) (hf : f ≤ mask.length) :
    ((mask.take f).reverse.takeWhile id).length < lw ↔
      ¬ (lw ≤ f ∧ ∀ k, k < lw → mask.getD (f - 1 - k) false = true) := by
  rw [takeWhile_id_length_lt_iff]
  have hlen : (mask.take f).reverse.length = f := by
    rw [List.length_reverse, List.length_take]; omega
  rw [hlen]
  apply not_congr
  apply and_congr_right
  intro hlw
  have key : ∀ k, k < lw → (mask.take f).reverse.getD k false = mask.getD (f - 1 - k) false := by
    intro k hk
    rw [List.getD_eq_getElem?_getD, List.getD_eq_getElem?_getD,
      List.getElem?_reverse (by rw [List.length_take]; omega), List.length_take,
      List.getElem?_take_of_lt (by omega)]
    congr 2
    omega
  constructor
  · intro h k hk; rw [← key k hk]; exact h k hk
  · intro h k hk; rw [key k hk]; exact h k hk

/-- The unrestricted `left_cut_iff` fails when `f > mask.length`. -/
theorem left_cut_iff_counterexample :
    ¬ ((([true].take 2).reverse.takeWhile id).length < 1 ↔
      ¬ (1 ≤ 2 ∧ ∀ k, k < 1 → [true].getD (2 - 1 - k) false = true)) := by
  decide

/-- A dynamic window with `lw` taps to the left is cut (precision zeroed) iff one of the `lw` frames
    before `f` is unvoiced or lies before the utterance start. -/
theorem left_cut_iff (mask : List Bool) (f lw : Nat) (hf : f < mask.length) :
    ((mask.take f).reverse.takeWhile id).length < lw ↔
      ¬ (lw ≤ f ∧ ∀ k, k < lw → mask.getD (f - 1 - k) false = true) :=
  left_cut_iff_partial mask f lw (Nat.le_of_lt hf)

/-- `right_cut_iff` under the hypothesis `f < mask.length ∨ 0 < rw` (the statement without it is
    false: `mask = []`, `f = 0`, `rw = 0`). -/
theorem right_cut_iff_partial (mask : List Bool) (f rw : Nat) (hf : f < mask.length ∨ 0 < rw) :
    ((mask.drop (f + 1)).takeWhile id).length < rw ↔
      ¬ (f + rw < mask.length ∧ ∀ k, k < rw → mask.getD (f + 1 + k) false = true) := by
  rw [takeWhile_id_length_lt_iff]
  apply not_congr
  have key : ∀ k, (mask.drop (f + 1)).getD k false = mask.getD (f + 1 + k) false := by
    intro k
    rw [List.getD_eq_getElem?_getD, List.getD_eq_getElem?_getD, List.getElem?_drop]
  simp only [key, List.length_drop]
  apply and_congr_left
  intro _
  omega

/-- The unrestricted `right_cut_iff` fails when `f ≥ mask.length` and `rw = 0`. -/
theorem right_cut_iff_counterexample :
    ¬ (((([] : List Bool).drop (0 + 1)).takeWhile id).length < 0 ↔
      ¬ (0 + 0 < ([] : List Bool).length ∧
        ∀ k, k < 0 → ([] : List Bool).getD (0 + 1 + k) false = true)) := by
  decide

/-- A dynamic window with `rw` taps to the right is cut iff one of the `rw` frames after `f` is
    unvoiced or lies past the utterance end. -/
theorem right_cut_iff (mask : List Bool) (f rw : Nat) (hf : f < mask.length) :
    ((mask.drop (f + 1)).takeWhile id).length < rw ↔
      ¬ (f + rw < mask.length ∧ ∀ k, k < rw → mask.getD (f + 1 + k) false = true) :=
  right_cut_iff_partial mask f rw (Or.inl hf)

/-! ### `fill` / `filter_by` -/

theorem filterBy_cons_true {β : Type} (x : β) (xs : List β) (ms : List Bool) :
    filterBy (x :: xs) (true :: ms) = x :: filterBy xs ms := by
  simp [filterBy]

theorem filterBy_cons_false {β : Type} (x : β) (xs : List β) (ms : List Bool) :
    filterBy (x :: xs) (false :: ms) = filterBy xs ms := by
  simp [filterBy]

/-- `fill`: unvoiced frames carry the default (NODATA), voiced frames the masked values in order. -/
theorem maskFill_spec {β : Type} (mask : List Bool) (xs : List β) (d : β)
    (h : xs.length = (mask.filter id).length) :
    ∃ r, maskFill mask xs d = some r ∧ r.length = mask.length ∧ filterBy r mask = xs ∧
      ∀ f : Nat, mask[f]? = some false → r[f]? = some d := by
  induction mask generalizing xs with
  | nil =>
    have : xs = [] := by simpa using h
    subst this
    exact ⟨[], by simp [maskFill], rfl, by simp [filterBy], by simp⟩
  | cons b ms ih =>
    cases b with
    | true =>
      cases xs with
      | nil => simp at h
      | cons x xs =>
        have h' : xs.length = (ms.filter id).length := by simpa using h
        obtain ⟨r, hr, hlen, hfb, hd⟩ := ih xs h'
        refine ⟨x :: r, by simp [maskFill, hr], by simp [hlen], ?_, ?_⟩
        · rw [filterBy_cons_true, hfb]
        · intro f hf
          cases f with
          | zero => simp at hf
          | succ f => simpa using hd f (by simpa using hf)
    | false =>
      have h' : xs.length = (ms.filter id).length := by simpa using h
      obtain ⟨r, hr, hlen, hfb, hd⟩ := ih xs h'
      refine ⟨d :: r, by simp [maskFill, hr], by simp [hlen], ?_, ?_⟩
      · rw [filterBy_cons_false, hfb]
      · intro f hf
        cases f with
        | zero => simp
        | succ f => simpa using hd f (by simpa using hf)

theorem filterBy_length {β : Type} (xs : List β) (mask : List Bool) (h : xs.length = mask.length) :
    (filterBy xs mask).length = (mask.filter id).length := by
  induction mask generalizing xs with
  | nil => simp [filterBy]
  | cons b ms ih =>
    cases xs with
    | nil => simp at h
    | cons x xs =>
      have h' : xs.length = ms.length := by simpa using h
      cases b with
      | true => rw [filterBy_cons_true]; simp [ih xs h']
      | false => rw [filterBy_cons_false]; simp [ih xs h']

end Jb
