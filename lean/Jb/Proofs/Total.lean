/-
  C01, totality at full generality: for every well-formed engine input — two or three streams, duration by
  speed or by alignment — `Engine::synthesize` returns (no panic site is reached), every state lasts at least
  one frame, and the waveform has exactly `frame_period × F` samples, `F` the sum of the state durations.
  (`engineSynthesize_total_partial` in `Jb/Proofs/Engine.lean` is the two-stream, speed-only special case.)
-/
import Jb.Proofs.Engine
import Jb.Proofs.Align

set_option linter.unusedSectionVars false

namespace Jb

variable {K : Type} [Field K] [LinearOrder K] [IsStrictOrderedRing K] [FloorRing K]
  [Transc K] [Consts K] [MlpgConsts K]

/-- what `Engine::load` + `Models` guarantee about the data handed to `Engine::generator` -/
structure EngineWF (c : Condition K) (inp : EngineIn K) : Prop where
  nstream : inp.nstream = 2 ∨ inp.nstream = 3
  streams : inp.streams.length = inp.nstream
  wf : ∀ s ∈ inp.streams, StreamWF s ∧ s.stream.length = inp.duration.length ∧
        (∀ g sw, s.gv = some (g, sw) → inp.duration.length ≤ sw.length)
  lf0 : ∀ s, inp.streams[1]? = some s → s.vectorLength = 1
  lpf : ∀ s, inp.streams[2]? = some s → s.vectorLength % 2 = 1
  gvw : inp.nstream ≤ c.gvWeight.length
  thr : inp.nstream ≤ c.msdThreshold.length
  align : c.alignment = true → 0 < inp.nstate ∧ inp.duration.length = inp.times.length * inp.nstate

/-- every stream's trajectory exists and has one row per frame -/
theorem engineStream_total (c : Condition K) (inp : EngineIn K) (h : EngineWF c inp) (durs : List Nat)
    (hd : durs.length = inp.duration.length) (i : Nat) (hi : i < inp.nstream) :
    ∃ rows s, inp.streams[i]? = some s ∧ engineStream c inp durs i = .ok rows ∧ rows.length = durs.sum ∧
      ∀ r ∈ rows, r.length = s.vectorLength := by
  have hlen : i < inp.streams.length := by rw [h.streams]; exact hi
  have hs : inp.streams[i]? = some inp.streams[i] := List.getElem?_eq_getElem hlen
  have hmem : inp.streams[i] ∈ inp.streams := List.getElem_mem hlen
  obtain ⟨hwf, hsl, hgv⟩ := h.wf _ hmem
  have hgw : c.gvWeight[i]? = some (c.gvWeight[i]'(by have := h.gvw; omega)) :=
    List.getElem?_eq_getElem _
  have hth : c.msdThreshold[i]? = some (c.msdThreshold[i]'(by have := h.thr; omega)) :=
    List.getElem?_eq_getElem _
  generalize c.gvWeight[i]'_ = gw at hgw
  generalize c.msdThreshold[i]'_ = thr at hth
  generalize inp.streams[i] = s at hs hwf hsl hgv
  by_cases h1 : i = 1
  · have hw' : StreamWF { s with stream := applyHalfTone s.stream c.halfTone } :=
      ⟨hwf.1, fun st hst => by
        obtain ⟨st', hm, e⟩ := applyHalfTone_params _ _ st hst
        rw [e]; exact hwf.2 st' hm⟩
    obtain ⟨rows, hr, hrl, hrr⟩ := mlpgCreate_shape_partial gw thr
      { s with stream := applyHalfTone s.stream c.halfTone } durs hw'
      (by simp only [applyHalfTone_length]; omega) (fun g sw hh => by rw [hd]; exact hgv g sw hh)
    refine ⟨rows, s, hs, ?_, hrl, hrr⟩
    unfold engineStream
    rw [hs, hgw, hth]
    simpa [h1] using hr
  · obtain ⟨rows, hr, hrl, hrr⟩ := mlpgCreate_shape_partial gw thr s durs hwf
      (by omega) (fun g sw hh => by rw [hd]; exact hgv g sw hh)
    refine ⟨rows, s, hs, ?_, hrl, hrr⟩
    unfold engineStream
    rw [hs, hgw, hth]
    simpa [h1] using hr

/-- the durations exist, one per state, each at least one frame -/
theorem engineDurations_total (c : Condition K) (inp : EngineIn K) (h : EngineWF c inp) (b : Bool) :
    ∃ durs, engineDurations c b inp = .ok durs ∧ durs.length = inp.duration.length ∧ ∀ x ∈ durs, 1 ≤ x := by
  unfold engineDurations
  cases ha : c.alignment with
  | true =>
    obtain ⟨hn, hl⟩ := h.align ha
    obtain ⟨d, h1, h2, h3⟩ := align_keeps_all inp.duration inp.nstate inp.times hn hl
    exact ⟨d, by simpa using h1, h2, h3⟩
  | false =>
    obtain ⟨d, hd⟩ := durationCreate_ok inp.duration c.speed b
    obtain ⟨h2, h3⟩ := durationCreate_shape _ _ _ _ hd
    exact ⟨d, by simpa using hd, h2, h3⟩

/-- the three checks of `SpeechGenerator::new` from the shapes of the trajectories -/
theorem speechGeneratorNewOk_of (d : List Nat) (sp lf0 lpf : List (List K)) (n : Nat)
    (h1 : sp.length = lf0.length) (h2 : sp.length = lpf.length) (hl : ∀ r ∈ lf0, r.length = 1)
    (hp : ∀ r ∈ lpf, r.length = n) (hn : n = 0 ∨ n % 2 = 1) :
    speechGeneratorNewOk (⟨d, sp, lf0, lpf⟩ : GenParams K) = true := by
  unfold speechGeneratorNewOk
  simp only [h1, ← h2, beq_self_eq_true, Bool.true_and]
  cases lf0 with
  | nil =>
    cases lpf with
    | nil => rfl
    | cons g r' =>
      have e := hp g (by simp)
      rcases hn with hn | hn
      · have : g = [] := List.length_eq_zero_iff.mp (e.trans hn)
        simp [this]
      · simp [e, hn]
  | cons f r =>
    cases lpf with
    | nil => simp [hl f (by simp)]
    | cons g r' =>
      have e := hp g (by simp)
      rcases hn with hn | hn
      · have : g = [] := List.length_eq_zero_iff.mp (e.trans hn)
        simp [this, hl f (by simp)]
      · simp [e, hn, hl f (by simp)]

/-- **C01: total and frame-exact**, two or three streams, speed or alignment. -/
theorem engineSynthesize_total (fx : Fix) (c : Condition K) (inp : EngineIn K) (h : EngineWF c inp) (b : Bool) :
    ∃ durs w, engineDurations c b inp = .ok durs ∧ durs.length = inp.duration.length ∧ (∀ x ∈ durs, 1 ≤ x) ∧
      engineSynthesize fx c b inp = .ok w ∧ w.length = c.fperiod * durs.sum := by
  obtain ⟨durs, hD, hdl, hdp⟩ := engineDurations_total c inp h b
  have hn2 : 2 ≤ inp.nstream := by rcases h.nstream with e | e <;> omega
  obtain ⟨sp, s0, hs0, hS0, hspl, -⟩ := engineStream_total c inp h durs hdl 0 (by omega)
  obtain ⟨lf0, s1, hs1, hS1, hlfl, hlfr⟩ := engineStream_total c inp h durs hdl 1 (by omega)
  have hv1 := h.lf0 s1 hs1
  obtain ⟨hw0, hl0, -⟩ := h.wf s0 (List.mem_of_getElem? hs0)
  -- the generator parameters and the `SpeechGenerator::new` checks
  have hP : ∃ p, engineParams c b inp = .ok p ∧ speechGeneratorNewOk p = true := by
    rcases h.nstream with e | e
    · refine ⟨⟨durs, sp, lf0, lf0.map fun _ => []⟩, ?_, ?_⟩
      · unfold engineParams
        rw [hD]
        simp only
        rw [hS0, hS1]
        simp [e]
      · exact speechGeneratorNewOk_of _ _ _ _ 0 (by rw [hspl, hlfl]) (by rw [hspl, List.length_map, hlfl])
          (fun r hr => (hlfr r hr).trans hv1) (fun r hr => by
            obtain ⟨_, _, rfl⟩ := List.mem_map.1 hr; rfl) (Or.inl rfl)
    · obtain ⟨lpf, s2, hs2, hS2, hlpl, hlpr⟩ := engineStream_total c inp h durs hdl 2 (by omega)
      have hv2 := h.lpf s2 hs2
      refine ⟨⟨durs, sp, lf0, lpf⟩, ?_, ?_⟩
      · unfold engineParams
        rw [hD]
        simp only
        rw [hS0, hS1]
        simp [e, hS2]
      · exact speechGeneratorNewOk_of _ _ _ _ s2.vectorLength (by rw [hspl, hlfl]) (by rw [hspl, hlpl])
          (fun r hr => (hlfr r hr).trans hv1) hlpr (Or.inr hv2)
  obtain ⟨p, hp, hchk⟩ := hP
  have hW : ∃ w, engineSynthesize fx c b inp = .ok w := by
    unfold engineSynthesize
    rw [hp]
    simp only [hchk, Bool.not_true, Bool.false_eq_true, if_false]
    exact ⟨_, Gen.finish_fixed (vocoderFrame fx c.fperiod) _
      (fun v f => vocoderFrame_length fx c.fperiod v f) (Nat.zero_le _)⟩
  obtain ⟨w, hw⟩ := hW
  obtain ⟨durs', hD', hlen⟩ := engineSynthesize_length fx c b inp w s0 hs0 hw0 hw
  rw [hD, Outcome.ok.injEq] at hD'
  subst hD'
  exact ⟨durs, w, hD, hdl, hdp, hw, hlen (by omega)⟩

end Jb
