/-
  The MLPG main theorem: `calc_wuw_and_wum` followed by `solve` (banded LDLᵀ + substitutions) returns the
  solution of the dense normal equations `W'U⁻¹W c = W'U⁻¹μ`, for every number of frames, every window set
  whose first window is the static window `[1]`, non-negative precisions and positive static precisions —
  with no hypothesis on pivots (they are positive because the assembled matrix is positive definite).
-/
import Jb.Proofs.Assemble
import Jb.Proofs.Pivots
import Jb.Proofs.Ldl
import Mathlib.Algebra.Order.BigOperators.Group.Finset

set_option linter.unusedSectionVars false

namespace Jb

variable {K : Type} [Field K] [LinearOrder K] [IsStrictOrderedRing K] [Transc K] [Consts K] [MlpgConsts K]

/-- the rows `calc_wuw_and_wum` produces -/
def assembledRows (windows : List (List K)) (obs : List (List (MeanVari K))) (T width : Nat) : List (List K) :=
  (List.range T).map fun t => (wuwRow windows obs T width t).1

/-- `(W x)_o` for the observation of window `win` centred at `s` -/
def obsDot (win : List K) (T s : Nat) (x : List K) : K :=
  (Finset.range T).sum fun t => winCoef win s t * x.getD t 0

/-! ### the stored band is the dense matrix `wpwEntry` -/

theorem assembledRows_length (windows : List (List K)) (obs : List (List (MeanVari K))) (T width : Nat) :
    (assembledRows windows obs T width).length = T := by
  simp [assembledRows]

theorem assembledRows_getD (windows : List (List K)) (obs : List (List (MeanVari K))) (T width t : Nat)
    (ht : t < T) :
    (assembledRows windows obs T width).getD t [] = (wuwRow windows obs T width t).1 := by
  unfold assembledRows
  rw [List.getD_eq_getElem _ _ (by simpa using ht)]
  simp

/-- every stored entry (any `j`) is the dense entry `(t, t + j)` -/
theorem assembled_bandAt (windows : List (List K)) (obs : List (List (MeanVari K))) (T width : Nat)
    (hw : ∀ w ∈ windows, w.length ≤ width) (hedge : EdgeZero windows obs T) (t j : Nat) (ht : t < T) :
    bandAt (assembledRows windows obs T width) t j = wpwEntry windows obs T t (t + j) := by
  unfold bandAt
  rw [assembledRows_getD windows obs T width t ht, asm_wuwRow_def]
  obtain ⟨_, _, a3⟩ := asm_fold_spec (K := K) T t (windows.zip obs) (List.replicate width 0, 0)
    (by
      intro wo hwo s hs hT
      exact hedge wo hwo s hs (Or.inr hT))
    (by
      intro wo hwo
      rw [List.length_replicate]
      exact hw wo.1 (List.of_mem_zip hwo).1)
  have hrep : (List.replicate width (0 : K)).getD j 0 = 0 := by
    rw [List.getD_eq_getElem?_getD, List.getElem?_replicate]
    split_ifs <;> rfl
  rw [a3 j]
  show (List.replicate width (0 : K)).getD j 0 + _ = _
  rw [hrep, zero_add]
  rfl

theorem assembled_row_length (windows : List (List K)) (obs : List (List (MeanVari K))) (T width : Nat)
    (hw : ∀ w ∈ windows, w.length ≤ width) (hedge : EdgeZero windows obs T) :
    ∀ row ∈ assembledRows windows obs T width, row.length = width := by
  intro row hrow
  unfold assembledRows at hrow
  simp only [List.mem_map, List.mem_range] at hrow
  obtain ⟨t, _, rfl⟩ := hrow
  rw [asm_wuwRow_def]
  obtain ⟨_, a2, _⟩ := asm_fold_spec (K := K) T t (windows.zip obs) (List.replicate width 0, 0)
    (by
      intro wo hwo s hs hT
      exact hedge wo hwo s hs (Or.inr hT))
    (by
      intro wo hwo
      rw [List.length_replicate]
      exact hw wo.1 (List.of_mem_zip hwo).1)
  rw [a2, List.length_replicate]

theorem wpwEntry_comm (windows : List (List K)) (obs : List (List (MeanVari K))) (T t t' : Nat) :
    wpwEntry windows obs T t t' = wpwEntry windows obs T t' t := by
  unfold wpwEntry
  congr 1
  apply List.map_congr_left
  intro wo _
  apply Finset.sum_congr rfl
  intro s _
  ring

/-- **band = dense**: the banded product is the dense product with `wpwEntry` -/
theorem assembled_mulVec (windows : List (List K)) (obs : List (List (MeanVari K))) (T width : Nat)
    (hw : ∀ w ∈ windows, w.length ≤ width) (hw1 : 1 ≤ width) (hedge : EdgeZero windows obs T)
    (c : List K) (t : Nat) (ht : t < T) :
    bandMulVec width (assembledRows windows obs T width) c t =
      (Finset.range T).sum fun t' => wpwEntry windows obs T t t' * c.getD t' 0 := by
  rw [bandMulVec_eq width hw1 _ (assembled_row_length windows obs T width hw hedge) c t
    (by rw [assembledRows_length]; exact ht), assembledRows_length]
  have hT : t + (T - t) = T := by omega
  have hsplit := Finset.sum_range_add (fun t' => wpwEntry windows obs T t t' * c.getD t' 0) t (T - t)
  rw [hT] at hsplit
  rw [hsplit]
  congr 1
  · apply Finset.sum_congr rfl
    intro s hs
    simp only [Finset.mem_range] at hs
    rw [assembled_bandAt windows obs T width hw hedge s (t - s) (by omega)]
    have : s + (t - s) = t := by omega
    rw [this, wpwEntry_comm]
  · apply Finset.sum_congr rfl
    intro i _
    rw [assembled_bandAt windows obs T width hw hedge t i ht]

/-- a quadratic form whose matrix is a list sum is the list sum of the quadratic forms -/
theorem quad_list_sum {β : Type} (l : List β) (T : Nat) (f : β → Nat → Nat → K) (x : Nat → K) :
    ((Finset.range T).sum fun t => x t * (Finset.range T).sum fun t' => (l.map fun b => f b t t').sum * x t') =
      (l.map fun b => (Finset.range T).sum fun t => x t * (Finset.range T).sum fun t' => f b t t' * x t').sum := by
  induction l with
  | nil => simp
  | cons b rest ih =>
    simp only [List.map_cons, List.sum_cons]
    rw [← ih, ← Finset.sum_add_distrib]
    apply Finset.sum_congr rfl
    intro t _
    rw [← mul_add, ← Finset.sum_add_distrib]
    congr 1
    apply Finset.sum_congr rfl
    intro t' _
    ring

/-- one observation stream: `xᵀ (Σ_s p_s a_s a_sᵀ) x = Σ_s p_s (a_s·x)²` -/
theorem quad_one (T : Nat) (p : Nat → K) (a : Nat → Nat → K) (x : Nat → K) :
    ((Finset.range T).sum fun t => x t * (Finset.range T).sum fun t' =>
        ((Finset.range T).sum fun s => p s * a s t * a s t') * x t') =
      (Finset.range T).sum fun s => p s * ((Finset.range T).sum fun t => a s t * x t) ^ 2 := by
  have h1 : ∀ t, x t * (Finset.range T).sum (fun t' =>
        ((Finset.range T).sum fun s => p s * a s t * a s t') * x t') =
      (Finset.range T).sum fun s => p s * (a s t * x t) * (Finset.range T).sum fun t' => a s t' * x t' := by
    intro t
    simp only [Finset.sum_mul, Finset.mul_sum]
    rw [Finset.sum_comm]
    apply Finset.sum_congr rfl
    intro s _
    apply Finset.sum_congr rfl
    intro t' _
    ring
  simp only [h1]
  rw [Finset.sum_comm]
  apply Finset.sum_congr rfl
  intro s _
  rw [pow_two, ← Finset.sum_mul, ← Finset.mul_sum, mul_assoc]

/-- **The assembled band matrix has the quadratic form `Σ_o p_o (W_o·x)²`.** -/
theorem assembled_quad (windows : List (List K)) (obs : List (List (MeanVari K))) (T width : Nat)
    (hw : ∀ w ∈ windows, w.length ≤ width) (hw1 : 1 ≤ width) (hobs : ∀ o ∈ obs, o.length = T)
    (hedge : EdgeZero windows obs T) (x : List K) (hx : x.length = T) :
    bandQuad width (assembledRows windows obs T width) x =
      ((windows.zip obs).map fun wo =>
        (Finset.range T).sum fun s => (wo.2.getD s ⟨0, 0⟩).vari * (obsDot wo.1 T s x) ^ 2).sum := by
  unfold bandQuad
  rw [assembledRows_length]
  rw [Finset.sum_congr rfl (fun t ht => by
    rw [assembled_mulVec windows obs T width hw hw1 hedge x t (Finset.mem_range.mp ht)])]
  unfold wpwEntry
  rw [quad_list_sum (windows.zip obs) T
    (fun wo t t' => (Finset.range T).sum fun s => (wo.2.getD s ⟨0, 0⟩).vari * winCoef wo.1 s t * winCoef wo.1 s t')
    (fun t => x.getD t 0)]
  congr 1
  apply List.map_congr_left
  intro wo _
  rw [quad_one T (fun s => (wo.2.getD s ⟨0, 0⟩).vari) (fun s t => winCoef wo.1 s t) (fun t => x.getD t 0)]
  rfl

/-! ### positive definiteness and the main theorem -/

theorem foldl_max_length_ge (l : List (List K)) :
    ∀ a : Nat, a ≤ l.foldl (fun m w => max m w.length) a ∧
      ∀ w ∈ l, w.length ≤ l.foldl (fun m w => max m w.length) a := by
  induction l with
  | nil => intro a; simp
  | cons w0 rest ih =>
    intro a
    obtain ⟨h1, h2⟩ := ih (max a w0.length)
    rw [List.foldl_cons]
    refine ⟨le_trans (le_max_left _ _) h1, ?_⟩
    intro w hw
    rcases List.mem_cons.mp hw with rfl | hw
    · exact le_trans (le_max_right _ _) h1
    · exact h2 w hw

theorem length_le_width (windows : List (List K)) :
    ∀ w ∈ windows, w.length ≤ maxWidth windows * 2 + 1 := by
  intro w hw
  have := (foldl_max_length_ge windows 0).2 w hw
  unfold maxWidth
  omega

theorem winCoef_static (s t : Nat) : winCoef ([1] : List K) s t = if t = s then 1 else 0 := by
  unfold winCoef
  simp only [List.length_singleton, Nat.reduceDiv, Nat.add_zero, Nat.lt_one_iff]
  by_cases h : t = s
  · subst h
    simp
  · rw [if_neg h]
    by_cases h2 : s ≤ t ∧ t - s = 0
    · exfalso; omega
    · rw [if_neg h2]

theorem obsDot_static (T s : Nat) (x : List K) (hs : s < T) :
    obsDot ([1] : List K) T s x = x.getD s 0 := by
  unfold obsDot
  simp only [winCoef_static, ite_mul, one_mul, zero_mul]
  rw [Finset.sum_ite_eq' (Finset.range T) s (fun t => x.getD t 0), if_pos (Finset.mem_range.mpr hs)]

theorem list_sum_nonneg' (l : List K) (h : ∀ a ∈ l, 0 ≤ a) : 0 ≤ l.sum := by
  induction l with
  | nil => simp
  | cons a rest ih =>
    rw [List.sum_cons]
    exact add_nonneg (h a List.mem_cons_self) (ih fun b hb => h b (List.mem_cons_of_mem _ hb))

theorem getD_vari_nonneg (o : List (MeanVari K)) (h : ∀ mv ∈ o, 0 ≤ mv.vari) (s : Nat) :
    0 ≤ (o.getD s ⟨0, 0⟩).vari := by
  rcases Nat.lt_or_ge s o.length with hs | hs
  · rw [List.getD_eq_getElem _ _ hs]
    exact h _ (List.getElem_mem hs)
  · rw [List.getD_eq_default _ _ hs]

/-- the assembled matrix is positive definite as soon as the static precisions are positive -/
theorem assembled_posdef (ws : List (List K)) (o0 : List (MeanVari K)) (os : List (List (MeanVari K)))
    (T width : Nat) (hw : ∀ w ∈ ([1] : List K) :: ws, w.length ≤ width) (hw1 : 1 ≤ width)
    (hobs : ∀ o ∈ o0 :: os, o.length = T) (hedge : EdgeZero (([1] : List K) :: ws) (o0 :: os) T)
    (hnonneg : ∀ o ∈ o0 :: os, ∀ mv ∈ o, 0 ≤ mv.vari) (hpos : ∀ mv ∈ o0, 0 < mv.vari)
    (x : List K) (hx : x.length = T) (hne : ∃ t, t < T ∧ x.getD t 0 ≠ 0) :
    0 < bandQuad width (assembledRows (([1] : List K) :: ws) (o0 :: os) T width) x := by
  rw [assembled_quad _ _ T width hw hw1 hobs hedge x hx]
  simp only [List.zip_cons_cons, List.map_cons, List.sum_cons]
  have hT : o0.length = T := hobs o0 List.mem_cons_self
  apply add_pos_of_pos_of_nonneg
  · obtain ⟨t, ht, hxt⟩ := hne
    have hterm : ∀ s ∈ Finset.range T,
        0 ≤ (o0.getD s ⟨0, 0⟩).vari * (obsDot ([1] : List K) T s x) ^ 2 := by
      intro s _
      exact mul_nonneg (getD_vari_nonneg o0 (hnonneg o0 List.mem_cons_self) s) (sq_nonneg _)
    refine lt_of_lt_of_le ?_ (Finset.single_le_sum hterm (Finset.mem_range.mpr ht))
    rw [obsDot_static T t x ht]
    apply mul_pos
    · rw [List.getD_eq_getElem _ _ (by omega)]
      exact hpos _ (List.getElem_mem _)
    · exact lt_of_le_of_ne (sq_nonneg _) (Ne.symm (pow_ne_zero 2 hxt))
  · apply list_sum_nonneg'
    intro a ha
    simp only [List.mem_map] at ha
    obtain ⟨wo, hwo, rfl⟩ := ha
    apply Finset.sum_nonneg
    intro s _
    exact mul_nonneg
      (getD_vari_nonneg wo.2 (hnonneg wo.2 (List.mem_cons_of_mem _ (List.of_mem_zip hwo).2)) s)
      (sq_nonneg _)

/-- the solver on the assembled rows, with explicit width -/
theorem assembled_solve (windows : List (List K)) (obs : List (List (MeanVari K))) (T width : Nat)
    (hw : ∀ w ∈ windows, w.length ≤ width) (hw1 : 1 ≤ width) (hobs : ∀ o ∈ obs, o.length = T)
    (hedge : EdgeZero windows obs T)
    (hpd : ∀ x : List K, x.length = T → (∃ t, t < T ∧ x.getD t 0 ≠ 0) →
      0 < bandQuad width (assembledRows windows obs T width) x)
    (c : List K)
    (hc : c = backwardSub width (ldlRows width (assembledRows windows obs T width))
      (forwardSub width (ldlRows width (assembledRows windows obs T width))
        ((List.range T).map fun t => (wuwRow windows obs T width t).2))) :
    c.length = T ∧
    ∀ t, t < T →
      ((Finset.range T).sum fun t' => wpwEntry windows obs T t t' * c.getD t' 0) = wpmEntry windows obs T t := by
  have hL := assembledRows_length windows obs T width
  have hrow := assembled_row_length windows obs T width hw hedge
  have hpiv : ∀ t, t < (assembledRows windows obs T width).length →
      bandAt (ldlRows width (assembledRows windows obs T width)) t 0 ≠ 0 := by
    intro t ht
    exact ne_of_gt (ldl_pivots_pos width hw1 _ hrow (by rw [hL]; exact hpd) t ht)
  obtain ⟨h1, h2⟩ := ldl_solves width hw1 (assembledRows windows obs T width)
    ((List.range T).map fun t => (wuwRow windows obs T width t).2) (by simp [hL]) hrow hpiv
  rw [← hc, hL] at h1 h2
  refine ⟨h1, fun t ht => ?_⟩
  rw [← assembled_mulVec windows obs T width hw hw1 hedge c t ht, h2 t ht,
    List.getD_eq_getElem _ _ (by simpa using ht)]
  simp only [List.getElem_map, List.getElem_range]
  exact (wuwRow_eq windows obs T width t ht hw hobs hedge).1

/-- **MLPG solves the normal equations** (dense form, from the definition). -/
theorem mlpg_solves_normal_equations (windows : List (List K)) (obs : List (List (MeanVari K))) (T : Nat)
    (hstatic : windows.head? = some [1]) (hlen : windows.length = obs.length)
    (hobs : ∀ o ∈ obs, o.length = T) (hedge : EdgeZero windows obs T)
    (hnonneg : ∀ o ∈ obs, ∀ mv ∈ o, 0 ≤ mv.vari) (hpos : ∀ mv ∈ obs.headD [], 0 < mv.vari)
    (m : MlpgMatrix K) (hm : calcWuwWum windows obs = some m) :
    m.solve.length = T ∧
    ∀ t, t < T →
      ((Finset.range T).sum fun t' => wpwEntry windows obs T t t' * m.solve.getD t' 0) = wpmEntry windows obs T t := by
  cases windows with
  | nil => simp at hstatic
  | cons w0 ws =>
    simp only [List.head?_cons, Option.some.injEq] at hstatic
    subst hstatic
    cases obs with
    | nil => simp at hlen
    | cons o0 os =>
      have hT : o0.length = T := hobs o0 List.mem_cons_self
      simp only [List.headD_cons] at hpos
      simp only [calcWuwWum, Option.some.injEq] at hm
      subst hm
      rw [hT]
      have hw := length_le_width (([1] : List K) :: ws)
      have hw1 : 1 ≤ maxWidth (([1] : List K) :: ws) * 2 + 1 := by omega
      apply assembled_solve (([1] : List K) :: ws) (o0 :: os) T _ hw hw1 hobs hedge
        (fun x hx hne => assembled_posdef ws o0 os T _ hw hw1 hobs hedge hnonneg hpos x hx hne)
      unfold MlpgMatrix.solve
      simp only [List.map_map]
      rfl

end Jb
