/-
  C18, "never … tries to allocate unbounded memory", at the level of the reader model: a voice that loads is no larger than
  the file it was read from.  Every size that drives an allocation in the loader or in `Engine::load` — the number of streams
  (`Condition::load_model` allocates one threshold / GV weight per stream: the pinned commit took `NUM_STREAMS` from the
  header without comparing it with `STREAM_TYPE`, and `NUM_STREAMS:4000000000` made it allocate 32 GB), the number of
  questions, trees, tree rows, PDFs and PDF words, windows and window coefficients — is bounded by the number of bytes
  of the file.
-/
import Jb.Proofs.Hts

set_option linter.unusedSectionVars false

namespace Jb.Hts

/-- number of 32-bit words one PDF holds: means, variances and the optional MSD weight -/
def PdfBits.words (p : PdfBits) : Nat :=
  p.means.length + p.varis.length + (if p.msd.isSome then 1 else 0)

/-- number of 32-bit words held by the PDFs of a model -/
def FileModel.words (m : FileModel) : Nat :=
  (m.pdfs.map fun ps => (ps.map PdfBits.words).sum).sum

/-- number of tree rows of a model -/
def FileModel.rowCount (m : FileModel) : Nat := (m.trees.map fun t => t.rows.length).sum

/-! ### outcomes -/

theorem bindR_ok {α β : Type} {x : Res α} {f : α → Res β} {b : β} (h : bindR x f = .ok b) :
    ∃ a, x = .ok a ∧ f a = .ok b := by
  cases x with
  | ok a => exact ⟨a, rfl, h⟩
  | err e => cases h
  | panic s => cases h

theorem sequenceR_map_ok {α β : Type} (f : β → Res α) (l : List β) (out : List α)
    (h : sequenceR (l.map f) = .ok out) :
    out.length = l.length ∧ ∀ s ∈ out, ∃ a ∈ l, f a = .ok s := by
  induction l generalizing out with
  | nil =>
    simp only [List.map_nil, sequenceR] at h
    cases h
    simp
  | cons a l ih =>
    rw [List.map_cons, sequenceR] at h
    obtain ⟨x, hx, h⟩ := bindR_ok h
    obtain ⟨xs, hxs, h⟩ := bindR_ok h
    cases h
    obtain ⟨h1, h2⟩ := ih xs hxs
    refine ⟨by simp [h1], ?_⟩
    intro s hs
    rcases List.mem_cons.1 hs with rfl | hs
    · exact ⟨a, by simp, hx⟩
    · obtain ⟨a', ha', hf⟩ := h2 s hs
      exact ⟨a', by simp [ha'], hf⟩

/-! ### `splitOn`, `tokens` -/

def splitAcc (sep : Nat) (b : List Nat) : List Nat × List (List Nat) :=
  b.foldr (fun c (acc : List Nat × List (List Nat)) =>
    if c = sep then ([], acc.1 :: acc.2) else (c :: acc.1, acc.2)) ([], [])

theorem splitOn_eq (sep : Nat) (b : List Nat) : splitOn sep b = (splitAcc sep b).1 :: (splitAcc sep b).2 := rfl

theorem splitAcc_inv (sep : Nat) (b : List Nat) :
    (splitAcc sep b).2.length ≤ b.length ∧ (splitAcc sep b).1.length ≤ b.length ∧
      ∀ x ∈ (splitAcc sep b).2, x.length ≤ b.length := by
  induction b with
  | nil => simp [splitAcc]
  | cons c b ih =>
    obtain ⟨h1, h2, h3⟩ := ih
    have hs : splitAcc sep (c :: b) =
        if c = sep then ([], (splitAcc sep b).1 :: (splitAcc sep b).2)
        else (c :: (splitAcc sep b).1, (splitAcc sep b).2) := rfl
    rw [hs]
    split
    · refine ⟨by simp; omega, by simp, ?_⟩
      intro x hx
      rcases List.mem_cons.1 hx with rfl | hx
      · simp; omega
      · have := h3 x hx; simp; omega
    · refine ⟨by simp; omega, by simp; omega, ?_⟩
      intro x hx
      have := h3 x hx; simp; omega

theorem splitOn_length (sep : Nat) (b : List Nat) : (splitOn sep b).length ≤ b.length + 1 := by
  rw [splitOn_eq]; have := (splitAcc_inv sep b).1; simp; omega

theorem splitOn_mem (sep : Nat) (b : List Nat) (x : List Nat) (hx : x ∈ splitOn sep b) : x.length ≤ b.length := by
  rw [splitOn_eq] at hx
  rcases List.mem_cons.1 hx with rfl | hx
  · exact (splitAcc_inv sep b).2.1
  · exact (splitAcc_inv sep b).2.2 x hx

def tokAcc (b : List Nat) : List Nat × List (List Nat) :=
  b.foldr (fun c (acc : List Nat × List (List Nat)) =>
    if isSpace c then (if acc.1.isEmpty then acc else ([], acc.1 :: acc.2)) else (c :: acc.1, acc.2)) ([], [])

theorem tokens_eq (b : List Nat) :
    tokens b = if (tokAcc b).1.isEmpty then (tokAcc b).2 else (tokAcc b).1 :: (tokAcc b).2 := rfl

theorem tokAcc_inv (b : List Nat) : (tokAcc b).1.length + (tokAcc b).2.length ≤ b.length := by
  induction b with
  | nil => simp [tokAcc]
  | cons c b ih =>
    have hs : tokAcc (c :: b) =
        if isSpace c then (if (tokAcc b).1.isEmpty then tokAcc b else ([], (tokAcc b).1 :: (tokAcc b).2))
        else (c :: (tokAcc b).1, (tokAcc b).2) := rfl
    rw [hs]
    split
    · split
      · simp; omega
      · simp; omega
    · simp; omega

theorem tokens_length (b : List Nat) : (tokens b).length ≤ b.length := by
  rw [tokens_eq]
  have := tokAcc_inv b
  split
  · omega
  · next h =>
    have : (tokAcc b).1.length ≠ 0 := by
      intro h0; exact h (by simpa using List.length_eq_zero_iff.1 h0)
    simp; omega

/-! ### header sections -/

theorem headerLines_fold (N : Nat) (lines : List (List Nat)) (hl : ∀ l ∈ lines, l.length ≤ N)
    (kvs : List (List Nat × List Nat))
    (h : lines.foldr (fun l (acc : Res (List (List Nat × List Nat))) =>
      match acc with
      | .ok kvs =>
        let k := l.takeWhile (· ≠ 58)
        if k.length = l.length then .err "ExpectedMapColon" else .ok ((k, l.drop (k.length + 1)) :: kvs)
      | e => e) (.ok []) = .ok kvs) :
    ∀ kv ∈ kvs, kv.2.length + 1 ≤ N := by
  induction lines generalizing kvs with
  | nil => simp at h; subst h; simp
  | cons l ls ih =>
    rw [List.foldr_cons] at h
    split at h
    · next kvs' hk =>
      dsimp only at h
      split at h
      · cases h
      · next hne =>
        cases h
        intro kv hkv
        rcases List.mem_cons.1 hkv with rfl | hkv
        · have h1 := hl l (by simp)
          have h2 : (l.takeWhile (· ≠ 58)).length ≤ l.length := (List.takeWhile_sublist _).length_le
          simp only [List.length_drop]
          omega
        · exact ih (fun l' hl' => hl l' (by simp [hl'])) kvs' hk kv hkv
    · next hno =>
      exact absurd h (by intro h'; exact hno _ h')

theorem headerLines_ok (b : List Nat) (kvs : List (List Nat × List Nat)) (h : headerLines b = .ok kvs) :
    ∀ kv ∈ kvs, kv.2.length + 1 ≤ b.length := by
  unfold headerLines at h
  dsimp only at h
  refine headerLines_fold b.length _ ?_ kvs h
  intro l hl
  exact splitOn_mem 10 b l (List.mem_filter.1 hl).1

theorem lookup1_ok (kvs : List (List Nat × List Nat)) (key : String) (v : List Nat) (h : lookup1 kvs key = .ok v) :
    ∃ kv ∈ kvs, kv.2 = v := by
  unfold lookup1 at h
  split at h
  · next kv hf =>
    cases h
    have : kv ∈ kvs.filter (fun kv => strOf kv.1 == key) := by rw [hf]; simp
    exact ⟨kv, (List.mem_filter.1 this).1, rfl⟩
  · cases h
  · cases h

theorem lookupOpt_ok (kvs : List (List Nat × List Nat)) (key : String) (v : List Nat)
    (h : lookupOpt kvs key = .ok (some v)) : ∃ kv ∈ kvs, kv.2 = v := by
  unfold lookupOpt at h
  split at h
  · next kv hf =>
    have : kv ∈ kvs.filter (fun kv => strOf kv.1 == key) := by rw [hf]; simp
    refine ⟨kv, (List.mem_filter.1 this).1, ?_⟩
    simp only [Outcome.ok.injEq] at h
    split at h
    · cases h
    · cases h; rfl
  · cases h
  · cases h

theorem groupIndexed_mem (kvs : List (List Nat × List Nat)) (sub : String) (kv : List Nat × List Nat)
    (h : kv ∈ groupIndexed kvs sub) : ∃ kv' ∈ kvs, kv'.2 = kv.2 := by
  unfold groupIndexed at h
  obtain ⟨⟨k, v⟩, hmem, hf⟩ := List.mem_filterMap.1 h
  refine ⟨(k, v), hmem, ?_⟩
  dsimp only at hf
  split at hf
  · split at hf
    · cases hf
    · split at hf
      · cases hf; rfl
      · cases hf
  · cases hf

theorem headerStrList_length (b : List Nat) : (headerStrList b).length ≤ b.length + 1 := by
  unfold headerStrList
  split
  · simp
  · rw [List.length_map]; exact splitOn_length 44 b

/-! ### sections and slices -/

def sectF (tag : String) (needNl : Bool) (b : List Nat) : Res (List Nat × List Nat) :=
  let b' := b.dropWhile (· = 10)
  if needNl && b'.length = b.length then .err "nom: expected newline before section"
  else
    let t := bytesOf tag
    if !(t.isPrefixOf b') then .err ("nom: expected " ++ tag)
    else
      let body := b'.drop t.length
      match findSub [10, 91] body with
      | none => .err "nom: take_until"
      | some i => .ok (body.take i, body.drop i)

theorem splitSections_eq (b : List Nat) : splitSections b =
    bindR (sectF "[GLOBAL]\n" false b) fun (g, r1) =>
    bindR (sectF "[STREAM]\n" true r1) fun (s, r2) =>
    bindR (sectF "[POSITION]\n" true r2) fun (p, r3) =>
      let r3' := r3.dropWhile (· = 10)
      if r3'.length = r3.length then .err "nom: expected newline before [DATA]"
      else
        let t := bytesOf "[DATA]\n"
        if t.isPrefixOf r3' then .ok (g, s, p, r3'.drop t.length) else .err "nom: expected [DATA]" := rfl

theorem sectF_ok (tag : String) (needNl : Bool) (b x r : List Nat) (h : sectF tag needNl b = .ok (x, r)) :
    x.length ≤ b.length ∧ r.length ≤ b.length := by
  unfold sectF at h
  dsimp only at h
  have hd : (b.dropWhile (· = 10)).length ≤ b.length := (List.dropWhile_sublist _).length_le
  split at h
  · cases h
  · split at h
    · cases h
    · split at h
      · cases h
      · cases h
        simp only [List.length_take, List.length_drop]
        omega

theorem splitSections_ok (b g s p d : List Nat) (h : splitSections b = .ok (g, s, p, d)) :
    g.length ≤ b.length ∧ s.length ≤ b.length ∧ p.length ≤ b.length ∧ d.length ≤ b.length := by
  rw [splitSections_eq] at h
  obtain ⟨⟨g', r1⟩, h1, h⟩ := bindR_ok h
  obtain ⟨⟨s', r2⟩, h2, h⟩ := bindR_ok h
  obtain ⟨⟨p', r3⟩, h3, h⟩ := bindR_ok h
  dsimp only at h
  have a1 := sectF_ok _ _ _ _ _ h1
  have a2 := sectF_ok _ _ _ _ _ h2
  have a3 := sectF_ok _ _ _ _ _ h3
  have hd : (r3.dropWhile (· = 10)).length ≤ r3.length := (List.dropWhile_sublist _).length_le
  split at h
  · cases h
  · split at h
    · cases h
      simp only [List.length_drop]
      omega
    · cases h

theorem sliceIncl_ok (site : String) (d : List Nat) (r : Nat × Nat) (x : List Nat)
    (h : sliceIncl true site d r = .ok x) : x.length ≤ d.length := by
  unfold sliceIncl at h
  split at h
  · cases h
    simp only [List.length_take, List.length_drop]
    omega
  · cases h

/-! ### PDF blocks -/

theorem words_length (b : List Nat) (ws : List UInt32) (h : words b = some ws) : 4 * ws.length = b.length := by
  fun_induction words b generalizing ws with
  | case1 => cases h; rfl
  | case2 a b c d rest ih =>
    obtain ⟨ws', hw, rfl⟩ := Option.map_eq_some_iff.1 h
    have := ih ws' hw
    simp only [List.length_cons]
    omega
  | case3 => cases h

theorem fromLinear_words (lin : List UInt32) : (fromLinear lin).words ≤ lin.length := by
  unfold fromLinear PdfBits.words
  dsimp only
  have : (lin[lin.length / 2 * 2]?).isSome = true ↔ lin.length / 2 * 2 < lin.length := by
    simp
  split
  · next hs =>
    have := this.1 hs
    simp only [List.length_take, List.length_drop]
    omega
  · simp only [List.length_take, List.length_drop]
    omega

theorem sum_le_of_forall_le (l : List Nat) (c : Nat) (h : ∀ x ∈ l, x ≤ c) : l.sum ≤ l.length * c := by
  induction l with
  | nil => simp
  | cons a l ih =>
    have h1 := h a (by simp)
    have h2 := ih fun x hx => h x (by simp [hx])
    simp only [List.sum_cons, List.length_cons, Nat.add_mul, Nat.one_mul]
    omega

def pdfWords (pdfs : List (List PdfBits)) : Nat := (pdfs.map fun ps => (ps.map PdfBits.words).sum).sum

theorem pdfGo_words (pdfLen : Nat) (counts : List Nat) (body : List UInt32) (out : List (List PdfBits))
    (h : parsePdfBlock.go pdfLen counts body = some out) : pdfWords out ≤ body.length := by
  induction counts generalizing body out with
  | nil =>
    rw [parsePdfBlock.go] at h
    split at h
    · cases h; simp [pdfWords]
    · cases h
  | cons n rest ih =>
    rw [parsePdfBlock.go] at h
    split at h
    · cases h
    · next hlen =>
      obtain ⟨out', ho, rfl⟩ := Option.map_eq_some_iff.1 h
      have h1 := ih _ _ ho
      have h2 : (((List.range n).map fun i =>
          fromLinear (((body.take (n * pdfLen)).drop (i * pdfLen)).take pdfLen)).map PdfBits.words).sum ≤ n * pdfLen := by
        have := sum_le_of_forall_le (((List.range n).map fun i =>
          fromLinear (((body.take (n * pdfLen)).drop (i * pdfLen)).take pdfLen)).map PdfBits.words) pdfLen ?_
        · simpa using this
        · intro x hx
          obtain ⟨p, hp, rfl⟩ := List.mem_map.1 hx
          obtain ⟨i, _, rfl⟩ := List.mem_map.1 hp
          refine le_trans (fromLinear_words _) ?_
          simp only [List.length_take]
          omega
      simp only [pdfWords, List.map_cons, List.sum_cons] at h1 ⊢
      simp only [List.length_drop] at h1
      omega

theorem parsePdfBlock_ok (pb : List Nat) (ntree pdfLen : Nat) (pdfs : List (List PdfBits))
    (h : parsePdfBlock pb ntree pdfLen = some pdfs) : 4 * pdfWords pdfs ≤ pb.length := by
  unfold parsePdfBlock at h
  split at h
  · cases h
  · next ws hw =>
    have := words_length _ _ hw
    split at h
    · cases h
    · dsimp only at h
      have := pdfGo_words _ _ _ _ h
      simp only [List.length_drop] at this
      omega

/-! ### tree text -/

def tsize (qs : Questions) (trees : List FileTree) : Nat :=
  qs.length + trees.length + (trees.map fun t => t.rows.length).sum

theorem tsize_reverse (qs : Questions) (trees : List FileTree) : tsize qs.reverse trees.reverse = tsize qs trees := by
  simp [tsize, List.sum_reverse]

theorem tsize_cons_le (qs : Questions) (trees : List FileTree) (st n : Nat) (f : Nat → Option Row) :
    tsize qs ({ state := st, rows := ((List.range n).map f).filterMap id } :: trees) ≤ tsize qs trees + 1 + n := by
  have : (((List.range n).map f).filterMap id).length ≤ ((List.range n).map f).length := List.length_filterMap_le _ _
  simp only [List.length_map, List.length_range] at this
  simp only [tsize, List.length_cons, List.map_cons, List.sum_cons]
  omega

theorem treeGo_size (fuel : Nat) (ts : List (List Nat)) (qs : Questions) (trees : List FileTree)
    (Q : Questions) (T : List FileTree) (h : parseTreeText.go fuel ts qs trees = some (Q, T)) :
    tsize Q T ≤ ts.length + tsize qs trees := by
  induction fuel generalizing ts qs trees with
  | zero => rw [parseTreeText.go] at h; cases h
  | succ fuel ih =>
    rw [parseTreeText.go.eq_def] at h
    dsimp only at h
    split at h
    · cases h; rw [tsize_reverse]; omega
    · next t rest =>
      split at h
      · -- QS
        split at h
        · next name open_ rest2 =>
          split at h
          · cases h
          · split at h
            · cases h
            · split at h
              · cases h
              · have := ih _ _ _ h
                simp only [tsize, List.length_cons, List.length_drop] at this ⊢
                omega
        · cases h
      · split at h
        · split at h
          · cases h
          · next st _ =>
            split at h
            · cases h
            · next nxt rest2 =>
              split at h
              · split at h
                · cases h
                · split at h
                  · cases h
                  · split at h
                    · cases h
                    · refine le_trans (ih _ _ _ h)
                        (le_trans (Nat.add_le_add_left (tsize_cons_le _ _ _ _ _) _) ?_)
                      have := (List.takeWhile_sublist (fun x => strOf x != "}") (l := rest2)).length_le
                      simp only [List.length_cons, List.length_drop]
                      omega
              · split at h
                · cases h
                · have := ih _ _ _ h
                  simp only [tsize, List.length_cons, List.map_cons, List.sum_cons, List.length_nil] at *
                  omega
        · cases h

theorem parseTreeText_ok (b : List Nat) (qs : Questions) (trees : List FileTree)
    (h : parseTreeText b = some (qs, trees)) : tsize qs trees ≤ b.length := by
  unfold parseTreeText at h
  dsimp only at h
  split at h
  · cases h
  · have := treeGo_size _ _ _ _ _ _ h
    have := tokens_length b
    simp only [tsize, List.length_nil, List.map_nil, List.sum_nil] at *
    omega

/-! ### models, windows, header groups -/

theorem parseModel_ok (d : List Nat) (treeR pdfR : Nat × Nat) (pdfLen : Nat) (m : FileModel)
    (h : parseModel true d treeR pdfR pdfLen = .ok m) :
    tsize m.questions m.trees ≤ d.length ∧ 4 * m.words ≤ d.length := by
  unfold parseModel at h
  obtain ⟨tb, htb, h⟩ := bindR_ok h
  split at h
  · cases h
  · next qs trees htt =>
    obtain ⟨pb, hpb, h⟩ := bindR_ok h
    split at h
    · cases h
    · next pdfs hpdf =>
      obtain ⟨_, _, h⟩ := bindR_ok h
      cases h
      have h1 := parseTreeText_ok _ _ _ htt
      have h2 := parsePdfBlock_ok _ _ _ _ hpdf
      have h3 := sliceIncl_ok _ _ _ _ htb
      have h4 := sliceIncl_ok _ _ _ _ hpb
      refine ⟨by dsimp only; omega, ?_⟩
      show 4 * pdfWords pdfs ≤ d.length
      omega

theorem parseWindow_ok (b : List Nat) (w : List String) (h : parseWindow b = some w) : w.length ≤ b.length := by
  unfold parseWindow at h
  have ht := tokens_length b
  split at h
  · cases h
  · split at h
    · next n cs htok =>
      rw [htok] at ht
      split at h
      · split at h
        · cases h
          simp only [List.length_map, List.length_cons] at *
          omega
        · cases h
      · cases h
    · cases h

theorem parseGlobal_ok (b : List Nat) (g : HGlobal) (h : parseGlobal true b = .ok g) :
    g.streamType.length ≤ b.length := by
  unfold parseGlobal at h
  obtain ⟨kvs, hkvs, h⟩ := bindR_ok h
  obtain ⟨ver, _, h⟩ := bindR_ok h
  obtain ⟨sr, _, h⟩ := bindR_ok h
  obtain ⟨fp, _, h⟩ := bindR_ok h
  obtain ⟨nst, _, h⟩ := bindR_ok h
  obtain ⟨nsm, _, h⟩ := bindR_ok h
  obtain ⟨st, hst, h⟩ := bindR_ok h
  obtain ⟨fmt, _, h⟩ := bindR_ok h
  obtain ⟨fver, _, h⟩ := bindR_ok h
  obtain ⟨gvo, _, h⟩ := bindR_ok h
  obtain ⟨_, _, h⟩ := bindR_ok h
  cases h
  obtain ⟨kv, hkv, rfl⟩ := lookup1_ok _ _ _ hst
  have h1 := headerLines_ok _ _ hkvs kv hkv
  have h2 := headerStrList_length kv.2
  simp only [List.length_map]
  omega

theorem parsePosGroup_ok (N : Nat) (g : List (List Nat × List Nat)) (hg : ∀ kv ∈ g, kv.2.length + 1 ≤ N)
    (pos : HPos) (h : parsePosGroup true g = .ok pos) : pos.win.length ≤ N := by
  unfold parsePosGroup at h
  obtain ⟨w, hw, h⟩ := bindR_ok h
  obtain ⟨win, hwin, h⟩ := bindR_ok h
  obtain ⟨pdf, _, h⟩ := bindR_ok h
  obtain ⟨tree, _, h⟩ := bindR_ok h
  obtain ⟨gp, _, h⟩ := bindR_ok h
  obtain ⟨gt, _, h⟩ := bindR_ok h
  cases h
  obtain ⟨kv, hkv, rfl⟩ := lookup1_ok _ _ _ hw
  have h1 := hg kv hkv
  have h2 := (sequenceR_map_ok _ _ _ hwin).1
  dsimp only
  rw [h2]
  split
  · simp
  · have := splitOn_length 44 kv.2
    omega

/-! ### `parseVoice` taken apart -/

def ModelFrom (d : List Nat) (m : FileModel) : Prop :=
  ∃ tr pr len, parseModel true d tr pr len = .ok m

def StreamFrom (d : List Nat) (pkv : List (List Nat × List Nat)) (s : ParsedStream) : Prop :=
  ∃ name pos, parsePosGroup true (groupIndexed pkv name) = .ok pos ∧ ModelFrom d s.model ∧
    (∀ m, s.gv = some m → ModelFrom d m) ∧ s.windows.length = pos.win.length ∧
    ∀ w ∈ s.windows, ∃ wb : List Nat, wb.length ≤ d.length ∧ parseWindow wb = some w

theorem parseVoice_ok_inv (bytes : List Nat) (v : ParsedVoice) (h : parseVoice true bytes = .ok v) :
    ∃ gb sb pb d pkv, splitSections bytes = .ok (gb, sb, pb, d) ∧ parseGlobal true gb = .ok v.global ∧
      headerLines pb = .ok pkv ∧ v.global.nstreams = v.global.streamType.length ∧
      v.streams.length = v.global.streamType.length ∧ ModelFrom d v.duration ∧
      ∀ s ∈ v.streams, StreamFrom d pkv s := by
  unfold parseVoice at h
  obtain ⟨⟨gb, sb, pb, d⟩, hsplit, h⟩ := bindR_ok h
  dsimp only at h
  split at h
  · cases h
  obtain ⟨g, hg, h⟩ := bindR_ok h
  obtain ⟨skv, hskv, h⟩ := bindR_ok h
  obtain ⟨pkv, hpkv, h⟩ := bindR_ok h
  obtain ⟨dpdf, _, h⟩ := bindR_ok h
  obtain ⟨dtree, _, h⟩ := bindR_ok h
  obtain ⟨durLen, _, h⟩ := bindR_ok h
  obtain ⟨dur, hdur, h⟩ := bindR_ok h
  split at h
  · cases h
  split at h
  · rw [if_pos rfl] at h; cases h
  next hns =>
  obtain ⟨streams, hstreams, h⟩ := bindR_ok h
  cases h
  obtain ⟨hlen, hmem⟩ := sequenceR_map_ok _ _ _ hstreams
  refine ⟨gb, sb, pb, d, pkv, hsplit, hg, hpkv, by simpa using hns, hlen, ⟨_, _, _, hdur⟩, ?_⟩
  intro s hs
  obtain ⟨name, _, hf⟩ := hmem s hs
  split at hf
  · cases hf
  split at hf
  · cases hf
  obtain ⟨pos, hpos, hf⟩ := bindR_ok hf
  obtain ⟨sm, _, hf⟩ := bindR_ok hf
  obtain ⟨vw, _, hf⟩ := bindR_ok hf
  obtain ⟨vw2, _, hf⟩ := bindR_ok hf
  obtain ⟨model, hmodel, hf⟩ := bindR_ok hf
  obtain ⟨gv, hgv, hf⟩ := bindR_ok hf
  obtain ⟨wins, hwins, hf⟩ := bindR_ok hf
  cases hf
  obtain ⟨hwlen, hwmem⟩ := sequenceR_map_ok _ _ _ hwins
  refine ⟨name, pos, hpos, ⟨_, _, _, hmodel⟩, ?_, hwlen, ?_⟩
  · intro m hm
    dsimp only at hm
    subst hm
    split at hgv
    · split at hgv
      · obtain ⟨gl, _, hgv⟩ := bindR_ok hgv
        obtain ⟨m', hm', hgv⟩ := bindR_ok hgv
        cases hgv
        exact ⟨_, _, _, hm'⟩
      · cases hgv
    · cases hgv
  · intro w hw
    obtain ⟨r, _, hr⟩ := hwmem w hw
    obtain ⟨wb, hwb, hr⟩ := bindR_ok hr
    refine ⟨wb, sliceIncl_ok _ _ _ _ hwb, ?_⟩
    split at hr
    · next w' hw' => cases hr; exact hw'
    · cases hr

theorem modelFrom_le (d : List Nat) (m : FileModel) (h : ModelFrom d m) :
    m.questions.length ≤ d.length ∧ m.trees.length ≤ d.length ∧ m.rowCount ≤ d.length ∧ 4 * m.words ≤ d.length := by
  obtain ⟨tr, pr, len, h⟩ := h
  obtain ⟨h1, h2⟩ := parseModel_ok _ _ _ _ _ h
  simp only [tsize] at h1
  simp only [FileModel.rowCount]
  refine ⟨?_, ?_, ?_, h2⟩ <;> omega

/-- **the number of streams is bounded by the file size** (this is the bound the pinned commit lacked) -/
theorem nstreams_le_size (bytes : List Nat) (v : ParsedVoice) (h : parseVoice true bytes = .ok v) :
    v.global.nstreams = v.streams.length ∧ v.streams.length ≤ bytes.length := by
  obtain ⟨gb, sb, pb, d, pkv, hsplit, hg, _, hns, hlen, _, _⟩ := parseVoice_ok_inv bytes v h
  have h1 := parseGlobal_ok _ _ hg
  have h2 := (splitSections_ok _ _ _ _ _ hsplit).1
  exact ⟨by omega, by omega⟩

/-- **every model of a loaded voice is no larger than the file**: questions, trees, rows, PDF words -/
theorem model_le_size (bytes : List Nat) (v : ParsedVoice) (h : parseVoice true bytes = .ok v)
    (m : FileModel) (hm : m = v.duration ∨ (∃ s ∈ v.streams, m = s.model ∨ s.gv = some m)) :
    m.questions.length ≤ bytes.length ∧ m.trees.length ≤ bytes.length ∧ m.rowCount ≤ bytes.length ∧
    4 * m.words ≤ bytes.length := by
  obtain ⟨gb, sb, pb, d, pkv, hsplit, _, _, _, _, hdur, hstreams⟩ := parseVoice_ok_inv bytes v h
  have hd := (splitSections_ok _ _ _ _ _ hsplit).2.2.2
  have hmf : ModelFrom d m := by
    rcases hm with rfl | ⟨s, hs, hm⟩
    · exact hdur
    · obtain ⟨_, _, _, hmod, hgv, _⟩ := hstreams s hs
      rcases hm with rfl | hm
      · exact hmod
      · exact hgv m hm
  obtain ⟨h1, h2, h3, h4⟩ := modelFrom_le d m hmf
  exact ⟨by omega, by omega, by omega, by omega⟩

/-- **windows**: number of windows of a stream and the coefficients of each -/
theorem windows_le_size (bytes : List Nat) (v : ParsedVoice) (h : parseVoice true bytes = .ok v)
    (s : ParsedStream) (hs : s ∈ v.streams) :
    s.windows.length ≤ bytes.length ∧ ∀ w ∈ s.windows, w.length ≤ bytes.length := by
  obtain ⟨gb, sb, pb, d, pkv, hsplit, _, hpkv, _, _, _, hstreams⟩ := parseVoice_ok_inv bytes v h
  obtain ⟨_, _, hp, hd⟩ := splitSections_ok _ _ _ _ _ hsplit
  obtain ⟨name, pos, hpos, _, _, hwlen, hwmem⟩ := hstreams s hs
  have hwin := parsePosGroup_ok pb.length _ (fun kv hkv => by
    obtain ⟨kv', hkv', he⟩ := groupIndexed_mem _ _ _ hkv
    rw [← he]; exact headerLines_ok _ _ hpkv kv' hkv') pos hpos
  refine ⟨by omega, ?_⟩
  intro w hw
  obtain ⟨wb, hwb, hpw⟩ := hwmem w hw
  have := parseWindow_ok _ _ hpw
  omega

end Jb.Hts
