/-
  The engine-level ("pipeline-level") property theorems, lifted to the whole library `Synth.synthesize`:
  from "for every stage input `inp : EngineIn K`" to "for every voice set, interpolation weights, setter history
  and label text". `Synth.engineIn` does not depend on the condition, so two syntheses that differ only in the
  setter history share the same stage inputs; well-formedness of those inputs (`EngineWF`) comes from
  `VoicesWF voices iw` through `engineIn_total`.

    0. `synthesize_eq_engine` (+ `.panic` / `.err` propagation, `synthesize_nil`)
    1. `condOf_append`, `condOf_snoc`, `condOf_snoc_{vol,ht,speed,msd,gv}`
    2. C16  `synthesize_volume` (every voice set, every outcome), `synthesize_volume_samples` (`VoicesWF`)
    4. C08  `frames1`, `synthesize_speed_one`, `synthesize_speed`
       `Synth.params` / `Synth.durations` / `Synth.stream`; `engineParams_total`, `engineParams_compare`,
       `engineIn_fields` (stream `i` of the stage inputs is `modelStream … i`), `modelStream_windows`
    3. C15  `durations_halfTone`, `stream_halfTone` (every voice set), `params_halfTone_frame`, `params_halfTone_shift`
    5. C11  `StreamSame`, `stream_congr`, `durations_congr`, `stream_{msd,gv}_other`, `durations_{msd,gv}`,
            `params_congr`, `params_{msd,gv}_other`
    6. C02  `engineGenerator`, `Synth.generator`, `synthesize_eq_generator`, `generator_history_refines`,
            `generator_total`

  The speed test. `Synth.synthesize` takes the comparison `speed == 1.0` as a parameter `f : Condition K → Bool`
  (so that the model needs no `DecidableEq` on the scalars), and `f` may a priori read any setting. Every lifted
  statement that compares two histories needs `f` to answer the same on the two conditions; `SpeedOnly f` ("`f` reads
  the speed setting only") gives that. This hypothesis is about the model's parameter, not about the voices, and it
  cannot be dropped: `Cex.volume_needs_speedOnly` (a speed test that reads the volume makes `set_volume` change the
  number of samples).
-/
import Jb.Proofs.SynthTotal
import Jb.Proofs.EngineVolume
import Jb.Proofs.EngineHalfTone
import Jb.Proofs.Duration
import Jb.Proofs.Speech
import Jb.Props.C08
import Jb.Props.C02

set_option linter.unusedSectionVars false
set_option linter.unusedVariables false

namespace Jb
namespace Synth
open Hts

variable {K : Type} [Field K] [LinearOrder K] [IsStrictOrderedRing K] [FloorRing K]
  [Transc K] [Consts K] [MlpgConsts K] [FromFile K]

/-! ### 0. `synthesize` is `engineSynthesize` on the stage inputs -/

theorem synthesize_eq_engine (fx : Fix) (big : K) (v0 : ParsedVoice) (vs : List ParsedVoice) (iw : IW K)
    (ops : List (CondOp K)) (f : Condition K → Bool) (labels : List (List Char)) (times : List (K × K))
    (inp : EngineIn K) (hin : engineIn big (v0 :: vs) iw labels times = .ok inp) :
    synthesize fx big (v0 :: vs) iw ops f labels times =
      engineSynthesize fx (condOf v0 ops) (f (condOf v0 ops)) inp := by
  rw [synthesize_cons, hin]; rfl

theorem synthesize_panic_of_engineIn (fx : Fix) (big : K) (v0 : ParsedVoice) (vs : List ParsedVoice) (iw : IW K)
    (ops : List (CondOp K)) (f : Condition K → Bool) (labels : List (List Char)) (times : List (K × K))
    (s : String) (hin : engineIn big (v0 :: vs) iw labels times = .panic s) :
    synthesize fx big (v0 :: vs) iw ops f labels times = .panic s := by
  rw [synthesize_cons, hin]; rfl

theorem synthesize_err_of_engineIn (fx : Fix) (big : K) (v0 : ParsedVoice) (vs : List ParsedVoice) (iw : IW K)
    (ops : List (CondOp K)) (f : Condition K → Bool) (labels : List (List Char)) (times : List (K × K))
    (e : Unit) (hin : engineIn big (v0 :: vs) iw labels times = .err e) :
    synthesize fx big (v0 :: vs) iw ops f labels times = .err e := by
  rw [synthesize_cons, hin]; rfl

theorem synthesize_nil (fx : Fix) (big : K) (iw : IW K)
    (ops : List (CondOp K)) (f : Condition K → Bool) (labels : List (List Char)) (times : List (K × K)) :
    synthesize fx big [] iw ops f labels times = .panic "voice_set.rs:first" := rfl

/-! ### 1. the last setter of a history -/

theorem applyHistory_append (c : Condition K) (ops ops' : List (CondOp K)) :
    applyHistory c (ops ++ ops') = applyHistory (applyHistory c ops) ops' := by
  unfold applyHistory; rw [List.foldl_append]

theorem condOf_append (v0 : ParsedVoice) (ops ops' : List (CondOp K)) :
    condOf (K := K) v0 (ops ++ ops') = applyHistory (condOf v0 ops) ops' := by
  unfold condOf; rw [applyHistory_append]

theorem condOf_snoc (v0 : ParsedVoice) (ops : List (CondOp K)) (op : CondOp K) :
    condOf (K := K) v0 (ops ++ [op]) =
      (match CondOp.apply (condOf v0 ops) op with | .ok c' => c' | _ => condOf v0 ops) := by
  rw [condOf_append]; rfl

theorem condOf_snoc_vol (v0 : ParsedVoice) (ops : List (CondOp K)) (v : K) :
    condOf (K := K) v0 (ops ++ [.vol v]) = (condOf v0 ops).setVolume v := by
  rw [condOf_snoc]; rfl

theorem condOf_snoc_ht (v0 : ParsedVoice) (ops : List (CondOp K)) (h : K) :
    condOf (K := K) v0 (ops ++ [.ht h]) = (condOf v0 ops).setHalfTone h := by
  rw [condOf_snoc]; rfl

theorem condOf_snoc_speed (v0 : ParsedVoice) (ops : List (CondOp K)) (s : K) :
    condOf (K := K) v0 (ops ++ [.speed s]) = (condOf v0 ops).setSpeed s := by
  rw [condOf_snoc]; rfl

theorem condOf_snoc_msd (v0 : ParsedVoice) (ops : List (CondOp K)) (i : Nat) (x : K) :
    condOf (K := K) v0 (ops ++ [.msd i x]) =
      if i < v0.global.nstreams then
        { condOf v0 ops with msdThreshold := (condOf v0 ops).msdThreshold.set i (clampS x 0 1) }
      else condOf v0 ops := by
  rw [condOf_snoc]
  simp only [CondOp.apply, Condition.setMsdThreshold, (condOf_lengths (K := K) v0 ops).1]
  split_ifs <;> rfl

theorem condOf_snoc_gv (v0 : ParsedVoice) (ops : List (CondOp K)) (i : Nat) (x : K) :
    condOf (K := K) v0 (ops ++ [.gv i x]) =
      if i < v0.global.nstreams then
        { condOf v0 ops with gvWeight := (condOf v0 ops).gvWeight.set i (maxS x 0) }
      else condOf v0 ops := by
  rw [condOf_snoc]
  simp only [CondOp.apply, Condition.setGvWeight, (condOf_lengths (K := K) v0 ops).2]
  split_ifs <;> rfl

/-! ### 2. C16 lifted: volume is a pure gain of `synthesize`

  The speed test `f` is a parameter of the model (`speedIsOne : Condition → Bool`, the comparison `speed == 1.0`);
  the only thing the lifted statements need from it is that it gives the same answer on the two conditions
  compared. `SpeedOnly f` — "`f` reads the speed setting only" — gives that for every pair below. -/

/-- the speed test reads nothing but the speed setting -/
def SpeedOnly (f : Condition K → Bool) : Prop := ∀ c c' : Condition K, c.speed = c'.speed → f c = f c'

theorem synthesize_volume_raw (hexp0 : Transc.exp (0 : K) = 1) (fx : Fix) (big : K) (voices : List ParsedVoice)
    (iw : IW K) (ops : List (CondOp K)) (f : Condition K → Bool) (labels : List (List Char)) (times : List (K × K))
    (v : K)
    (hf : ∀ v0, voices.head? = some v0 → f (condOf v0 (ops ++ [.vol v])) = f (condOf v0 (ops ++ [.vol 0]))) :
    synthesize fx big voices iw (ops ++ [.vol v]) f labels times =
      (synthesize fx big voices iw (ops ++ [.vol 0]) f labels times).map
        fun w => w.map (· * Transc.exp (v * Consts.db)) := by
  cases voices with
  | nil => rfl
  | cons v0 vs =>
    rw [synthesize_cons, synthesize_cons, hf v0 rfl]
    cases hin : engineIn big (v0 :: vs) iw labels times with
    | err e => rfl
    | panic s => rfl
    | ok inp =>
      simp only [Outcome.bind]
      rw [condOf_snoc_vol, condOf_snoc_vol]
      exact engineSynthesize_setVolume hexp0 fx (condOf v0 ops) v _ inp

/-- **C16 for the whole library.** For every voice set, weights, setter history, label text and time stamps —
    well-formed or not, whatever the outcome — synthesis after `set_volume(v)` is synthesis after `set_volume(0)`
    with every sample multiplied by `exp(v·ln10/20)`: same outcome class (same error / panic site), same length. -/
theorem synthesize_volume (hexp0 : Transc.exp (0 : K) = 1) (fx : Fix) (big : K) (voices : List ParsedVoice)
    (iw : IW K) (ops : List (CondOp K)) (f : Condition K → Bool) (hf : SpeedOnly f)
    (labels : List (List Char)) (times : List (K × K)) (v : K) :
    synthesize fx big voices iw (ops ++ [.vol v]) f labels times =
      (synthesize fx big voices iw (ops ++ [.vol 0]) f labels times).map
        fun w => w.map (· * Transc.exp (v * Consts.db)) :=
  synthesize_volume_raw hexp0 fx big voices iw ops f labels times v (fun v0 _ => hf _ _ (by
    rw [condOf_snoc_vol, condOf_snoc_vol]; rfl))

/-- … on a well-formed voice set both renderings exist, have the same number of samples, and sample `n` of the one
    is `exp(v·ln10/20)` times sample `n` of the other -/
theorem synthesize_volume_samples (hexp0 : Transc.exp (0 : K) = 1) (fx : Fix) (big : K) (voices : List ParsedVoice)
    (iw : IW K) (h : VoicesWF voices iw) (v0 : ParsedVoice) (hv0 : voices.head? = some v0)
    (ops : List (CondOp K)) (f : Condition K → Bool) (hf : SpeedOnly f)
    (labels : List (List Char)) (times : List (K × K))
    (halign : (condOf (K := K) v0 ops).alignment = true → times.length = labels.length) (v : K) :
    ∃ w0 w, synthesize fx big voices iw (ops ++ [.vol 0]) f labels times = .ok w0 ∧
      synthesize fx big voices iw (ops ++ [.vol v]) f labels times = .ok w ∧
      w.length = w0.length ∧ ∀ n (hn : n < w0.length), w[n]? = some (w0[n] * Transc.exp (v * Consts.db)) := by
  obtain ⟨_, w0, h0, -⟩ := synthesize_total fx big voices iw h v0 hv0 (ops ++ [.vol 0]) f labels times (by
    rw [condOf_snoc_vol]; exact halign)
  refine ⟨w0, w0.map (· * Transc.exp (v * Consts.db)), h0, ?_, by simp, fun n hn => by simp [hn]⟩
  rw [synthesize_volume hexp0 fx big voices iw ops f hf labels times v, h0]; rfl

/-! ### 4. C08 lifted: the speaking rate scales the utterance -/

/-- the duration Gaussians among the stage inputs are `Models::duration` -/
theorem engineIn_duration (big : K) (voices : List ParsedVoice) (iw : IW K) (labels : List (List Char))
    (times : List (K × K)) (inp : EngineIn K) (hin : engineIn big voices iw labels times = .ok inp) :
    modelsDuration voices iw labels = .ok inp.duration := by
  cases voices with
  | nil => simp [engineIn] at hin
  | cons v0 vs =>
    unfold engineIn at hin
    simp only at hin
    cases hd : modelsDuration (v0 :: vs) iw labels with
    | err e => simp [hd, Outcome.bind] at hin
    | panic s => simp [hd, Outcome.bind] at hin
    | ok dur =>
      rw [hd] at hin
      simp only [Outcome.bind] at hin
      split at hin
      · simp only [Outcome.ok.injEq] at hin
        subst hin; rfl
      · simp at hin
      · simp at hin

/-- **the speed-1 frame count of a label text**, from the voices: `Σ_states max(1, round(mean))` over the
    interpolated duration Gaussians (`0` if `Models::duration` does not return) -/
def frames1 (voices : List ParsedVoice) (iw : IW K) (labels : List (List Char)) : Nat :=
  match modelsDuration voices iw labels with
  | .ok dur => (estimateDuration dur 0).sum
  | _ => 0

theorem frames1_eq (big : K) (voices : List ParsedVoice) (iw : IW K) (labels : List (List Char))
    (times : List (K × K)) (inp : EngineIn K) (hin : engineIn big voices iw labels times = .ok inp) :
    frames1 voices iw labels = C08.F1 inp.duration := by
  unfold frames1
  rw [engineIn_duration big voices iw labels times inp hin]
  rfl

/-- at speed 1 (the speed test answers "is one"; no alignment) the utterance has `frames1` frames -/
theorem synthesize_speed_one (fx : Fix) (big : K) (voices : List ParsedVoice) (iw : IW K) (h : VoicesWF voices iw)
    (v0 : ParsedVoice) (hv0 : voices.head? = some v0) (ops : List (CondOp K)) (f : Condition K → Bool)
    (labels : List (List Char)) (times : List (K × K))
    (halign : (condOf (K := K) v0 ops).alignment = false) (hf : f (condOf v0 ops) = true) :
    ∃ (durs : List Nat) (w : List K), synthesize fx big voices iw ops f labels times = .ok w ∧
      w.length = (condOf (K := K) v0 ops).fperiod * durs.sum ∧
      durs.length = labels.length * v0.global.nstates ∧ (∀ d ∈ durs, 1 ≤ d) ∧
      durs.sum = frames1 voices iw labels := by
  obtain ⟨inp, durs, w, hin, hD, hW, hwl, hdl, hdp⟩ :=
    synthesize_total' fx big voices iw h v0 hv0 ops f labels times (by rw [halign]; intro hc; cases hc)
  refine ⟨durs, w, hW, hwl, hdl, hdp, ?_⟩
  rw [frames1_eq big voices iw labels times inp hin]
  unfold engineDurations at hD
  rw [halign, hf] at hD
  simp only [Bool.false_eq_true, if_false, durationCreate, if_true, Outcome.ok.injEq] at hD
  rw [← hD]; rfl

/-- **C08 for the whole library.** After any setter history that leaves alignment off and ends in `set_speed(s)`,
    with the speed test answering "not one", synthesis of a non-empty label text on a well-formed voice set returns
    `frame_period × F` samples, `F = max(round(F₁ / max(s, 1e-6)), labels × states)`, `F₁ = frames1` the speed-1 frame
    count; one duration per state, each at least one frame. -/
theorem synthesize_speed (fx : Fix) (big : K) (voices : List ParsedVoice) (iw : IW K) (h : VoicesWF voices iw)
    (v0 : ParsedVoice) (hv0 : voices.head? = some v0) (ops : List (CondOp K)) (f : Condition K → Bool)
    (labels : List (List Char)) (times : List (K × K)) (s : K)
    (halign : (condOf (K := K) v0 ops).alignment = false) (hne : labels ≠ [])
    (hf : f (condOf v0 (ops ++ [.speed s])) = false) :
    ∃ (durs : List Nat) (w : List K), synthesize fx big voices iw (ops ++ [.speed s]) f labels times = .ok w ∧
      w.length = (condOf (K := K) v0 ops).fperiod * durs.sum ∧
      durs.length = labels.length * v0.global.nstates ∧ (∀ d ∈ durs, 1 ≤ d) ∧
      durs.sum = max (RoundNat.roundMax1 ((frames1 voices iw labels : K) / maxS s speedMin))
        (labels.length * v0.global.nstates) := by
  have hal : (condOf (K := K) v0 (ops ++ [.speed s])).alignment = false := by
    rw [condOf_snoc_speed]; exact halign
  obtain ⟨inp, durs, w, hin, hD, hW, hwl, hdl, hdp⟩ :=
    synthesize_total' fx big voices iw h v0 hv0 (ops ++ [.speed s]) f labels times
      (by rw [hal]; intro hc; cases hc)
  have hidl : inp.duration.length = labels.length * v0.global.nstates := by
    obtain ⟨inp', hin', -, hl⟩ := engineIn_total big voices iw h v0 hv0 (ops ++ [.speed s]) labels times
      (by rw [hal]; intro hc; cases hc)
    rw [hin, Outcome.ok.injEq] at hin'
    subst hin'; exact hl
  have hnst : 0 < v0.global.nstates := (h.head v0 hv0).nstates_pos
  have hlab : 0 < labels.length := List.length_pos_of_ne_nil hne
  have hdne : inp.duration ≠ [] := by
    intro he
    have h0 : inp.duration.length = 0 := by rw [he]; rfl
    have : 0 < labels.length * v0.global.nstates := Nat.mul_pos hlab hnst
    omega
  refine ⟨durs, w, hW, ?_, hdl, hdp, ?_⟩
  · rw [hwl, condOf_snoc_speed]; rfl
  · unfold engineDurations at hD
    rw [hal, hf] at hD
    simp only [Bool.false_eq_true, if_false] at hD
    rw [durationCreate_sum inp.duration _ durs hdne hD, hidl,
      frames1_eq big voices iw labels times inp hin, condOf_snoc_speed]
    rfl

/-! ### the generator parameters (`Engine::generator` up to the `SpeechGenerator`), from the voices -/

/-- `Engine::load` + setter history + `Engine::generator` up to the construction of the `SpeechGenerator` -/
def params (big : K) (voices : List ParsedVoice) (iw : IW K) (ops : List (CondOp K)) (f : Condition K → Bool)
    (labels : List (List Char)) (times : List (K × K)) : Outcome Unit (GenParams K) :=
  match voices with
  | [] => .panic "voice_set.rs:first"
  | v0 :: _ => (engineIn big voices iw labels times).bind fun inp =>
      engineParams (condOf v0 ops) (f (condOf v0 ops)) inp

/-- the state durations `Engine::generator` chooses -/
def durations (big : K) (voices : List ParsedVoice) (iw : IW K) (ops : List (CondOp K)) (f : Condition K → Bool)
    (labels : List (List Char)) (times : List (K × K)) : Outcome Unit (List Nat) :=
  match voices with
  | [] => .panic "voice_set.rs:first"
  | v0 :: _ => (engineIn big voices iw labels times).bind fun inp =>
      engineDurations (condOf v0 ops) (f (condOf v0 ops)) inp

/-- the trajectory of stream `j` for given state durations -/
def stream (big : K) (voices : List ParsedVoice) (iw : IW K) (ops : List (CondOp K))
    (labels : List (List Char)) (times : List (K × K)) (durs : List Nat) (j : Nat) : Outcome Unit (List (List K)) :=
  match voices with
  | [] => .panic "voice_set.rs:first"
  | v0 :: _ => (engineIn big voices iw labels times).bind fun inp => engineStream (condOf v0 ops) inp durs j

theorem params_eq_engine (big : K) (v0 : ParsedVoice) (vs : List ParsedVoice) (iw : IW K)
    (ops : List (CondOp K)) (f : Condition K → Bool) (labels : List (List Char)) (times : List (K × K))
    (inp : EngineIn K) (hin : engineIn big (v0 :: vs) iw labels times = .ok inp) :
    params big (v0 :: vs) iw ops f labels times = engineParams (condOf v0 ops) (f (condOf v0 ops)) inp := by
  unfold params; simp only; rw [hin]; rfl

theorem durations_eq_engine (big : K) (v0 : ParsedVoice) (vs : List ParsedVoice) (iw : IW K)
    (ops : List (CondOp K)) (f : Condition K → Bool) (labels : List (List Char)) (times : List (K × K))
    (inp : EngineIn K) (hin : engineIn big (v0 :: vs) iw labels times = .ok inp) :
    durations big (v0 :: vs) iw ops f labels times = engineDurations (condOf v0 ops) (f (condOf v0 ops)) inp := by
  unfold durations; simp only; rw [hin]; rfl

theorem stream_eq_engine (big : K) (v0 : ParsedVoice) (vs : List ParsedVoice) (iw : IW K)
    (ops : List (CondOp K)) (labels : List (List Char)) (times : List (K × K)) (durs : List Nat) (j : Nat)
    (inp : EngineIn K) (hin : engineIn big (v0 :: vs) iw labels times = .ok inp) :
    stream big (v0 :: vs) iw ops labels times durs j = engineStream (condOf v0 ops) inp durs j := by
  unfold stream; simp only; rw [hin]; rfl

/-- what `engineParams` returns on well-formed stage inputs, field by field -/
theorem engineParams_total (c : Condition K) (b : Bool) (inp : EngineIn K) (h : EngineWF c inp) :
    ∃ p, engineParams c b inp = .ok p ∧ engineDurations c b inp = .ok p.durations ∧
      p.durations.length = inp.duration.length ∧ (∀ d ∈ p.durations, 1 ≤ d) ∧
      engineStream c inp p.durations 0 = .ok p.spectrum ∧ engineStream c inp p.durations 1 = .ok p.lf0 ∧
      (inp.nstream = 3 → engineStream c inp p.durations 2 = .ok p.lpf) ∧
      (inp.nstream = 2 → p.lpf = p.lf0.map fun _ => []) ∧
      p.spectrum.length = p.durations.sum ∧ p.lf0.length = p.durations.sum ∧ p.lpf.length = p.durations.sum := by
  obtain ⟨durs, hD, hdl, hdp⟩ := engineDurations_total c inp h b
  have hn2 : 2 ≤ inp.nstream := by rcases h.nstream with e | e <;> omega
  obtain ⟨sp, s0, hs0, hS0, hspl, -⟩ := engineStream_total c inp h durs hdl 0 (by omega)
  obtain ⟨lf0, s1, hs1, hS1, hlfl, hlfr⟩ := engineStream_total c inp h durs hdl 1 (by omega)
  rcases h.nstream with e | e
  · refine ⟨⟨durs, sp, lf0, lf0.map fun _ => []⟩, ?_, hD, hdl, hdp, hS0, hS1, fun e3 => by omega, fun _ => rfl,
      hspl, hlfl, by simp [hlfl]⟩
    unfold engineParams
    rw [hD]
    simp only
    rw [hS0, hS1]
    simp [e]
  · obtain ⟨lpf, s2, hs2, hS2, hlpl, -⟩ := engineStream_total c inp h durs hdl 2 (by omega)
    refine ⟨⟨durs, sp, lf0, lpf⟩, ?_, hD, hdl, hdp, hS0, hS1, fun _ => hS2, fun e2 => by omega, hspl, hlfl, hlpl⟩
    unfold engineParams
    rw [hD]
    simp only
    rw [hS0, hS1]
    simp [e, hS2]

/-- two conditions that choose the same durations, on the same well-formed stage inputs: the generator parameters
    exist for both, with the same durations and frame count; a trajectory is the same as soon as `engineStream`
    is for that stream -/
theorem engineParams_compare (c c' : Condition K) (b b' : Bool) (inp : EngineIn K)
    (h : EngineWF c inp) (h' : EngineWF c' inp) (hD : engineDurations c' b' inp = engineDurations c b inp) :
    ∃ p p', engineParams c b inp = .ok p ∧ engineParams c' b' inp = .ok p' ∧
      p'.durations = p.durations ∧
      p'.spectrum.length = p.spectrum.length ∧ p'.lf0.length = p.lf0.length ∧ p'.lpf.length = p.lpf.length ∧
      ((∀ durs, engineStream c' inp durs 0 = engineStream c inp durs 0) → p'.spectrum = p.spectrum) ∧
      ((∀ durs, engineStream c' inp durs 1 = engineStream c inp durs 1) → p'.lf0 = p.lf0) ∧
      ((∀ durs, engineStream c' inp durs 2 = engineStream c inp durs 2) → p'.lpf = p.lpf) := by
  obtain ⟨p, hp, hd, -, -, h0, h1, h2, h2n, l0, l1, l2⟩ := engineParams_total c b inp h
  obtain ⟨p', hp', hd', -, -, h0', h1', h2', h2n', l0', l1', l2'⟩ := engineParams_total c' b' inp h'
  have hdd : p'.durations = p.durations := by
    rw [hD, hd, Outcome.ok.injEq] at hd'; exact hd'.symm
  refine ⟨p, p', hp, hp', hdd, by rw [l0, l0', hdd], by rw [l1, l1', hdd], by rw [l2, l2', hdd], ?_, ?_, ?_⟩
  · intro e
    rw [e, hdd, h0, Outcome.ok.injEq] at h0'; exact h0'.symm
  · intro e
    rw [e, hdd, h1, Outcome.ok.injEq] at h1'; exact h1'.symm
  · intro e
    rcases h.nstream with e2 | e3
    · rw [h2n e2, h2n' e2, List.map_const', List.map_const', l1, l1', hdd]
    · have a := h2 e3
      have a' := h2' e3
      rw [e, hdd, a, Outcome.ok.injEq] at a'; exact a'.symm

/-- the stage inputs are well-formed for *two* histories at once (they do not depend on the history) -/
theorem engineIn_total₂ (big : K) (voices : List ParsedVoice) (iw : IW K) (h : VoicesWF voices iw)
    (v0 : ParsedVoice) (hv0 : voices.head? = some v0) (ops ops' : List (CondOp K))
    (labels : List (List Char)) (times : List (K × K))
    (halign : (condOf (K := K) v0 ops).alignment = true → times.length = labels.length)
    (halign' : (condOf (K := K) v0 ops').alignment = true → times.length = labels.length) :
    ∃ inp, engineIn big voices iw labels times = .ok inp ∧ EngineWF (condOf v0 ops) inp ∧
      EngineWF (condOf v0 ops') inp ∧ inp.duration.length = labels.length * v0.global.nstates := by
  obtain ⟨inp, hin, hwf, hl⟩ := engineIn_total big voices iw h v0 hv0 ops labels times halign
  obtain ⟨inp', hin', hwf', -⟩ := engineIn_total big voices iw h v0 hv0 ops' labels times halign'
  rw [hin, Outcome.ok.injEq] at hin'
  subst hin'
  exact ⟨inp, hin, hwf, hwf', hl⟩

/-! ### what the stage inputs are, in terms of `Models::model_stream` -/

theorem sequenceOut_inv {β : Type} (l : List (Outcome Unit β)) (as : List β) (h : sequenceOut l = .ok as) :
    as.length = l.length ∧ ∀ (i : Nat) (a : β), as[i]? = some a → l[i]? = some (.ok a) := by
  induction l generalizing as with
  | nil =>
    simp only [sequenceOut, Outcome.ok.injEq] at h
    subst h
    exact ⟨rfl, by simp⟩
  | cons x xs ih =>
    cases x with
    | err e => simp [sequenceOut, Outcome.bind] at h
    | panic s => simp [sequenceOut, Outcome.bind] at h
    | ok a0 =>
      cases hxs : sequenceOut xs with
      | err e => simp [sequenceOut, Outcome.bind, hxs] at h
      | panic s => simp [sequenceOut, Outcome.bind, hxs] at h
      | ok as' =>
        simp only [sequenceOut, Outcome.bind, hxs, Outcome.ok.injEq] at h
        subst h
        obtain ⟨i1, i2⟩ := ih as' hxs
        refine ⟨by simp [i1], ?_⟩
        intro i a ha
        cases i with
        | zero =>
          simp only [List.getElem?_cons_zero, Option.some.injEq] at ha
          subst ha; rfl
        | succ i =>
          simp only [List.getElem?_cons_succ] at ha ⊢
          exact i2 i a ha

/-- the stage inputs, field by field: state and stream counts of the first voice, the time stamps as given, and stream
    `i` is `Models::model_stream(i)` -/
theorem engineIn_fields (big : K) (v0 : ParsedVoice) (vs : List ParsedVoice) (iw : IW K) (labels : List (List Char))
    (times : List (K × K)) (inp : EngineIn K) (hin : engineIn big (v0 :: vs) iw labels times = .ok inp) :
    inp.nstate = v0.global.nstates ∧ inp.nstream = v0.global.nstreams ∧ inp.times = times ∧
      inp.streams.length = v0.global.nstreams ∧
      ∀ i s, inp.streams[i]? = some s ↔
        (i < v0.global.nstreams ∧ modelStream big (v0 :: vs) iw labels v0.global.nstates i = .ok s) := by
  unfold engineIn at hin
  simp only at hin
  cases hd : modelsDuration (v0 :: vs) iw labels with
  | err e => simp [hd, Outcome.bind] at hin
  | panic s => simp [hd, Outcome.bind] at hin
  | ok dur =>
    rw [hd] at hin
    simp only [Outcome.bind] at hin
    split at hin
    · rename_i streams hstr
      simp only [Outcome.ok.injEq] at hin
      subst hin
      obtain ⟨hl, hi⟩ := sequenceOut_inv _ _ hstr
      simp only [List.length_map, List.length_range] at hl
      refine ⟨rfl, rfl, rfl, hl, ?_⟩
      intro i s
      constructor
      · intro hs
        have hlt : i < v0.global.nstreams := by
          rw [← hl]; exact (List.getElem?_eq_some_iff.1 hs).1
        have := hi i s hs
        rw [List.getElem?_map, List.getElem?_range hlt] at this
        simp only [Option.map_some, Option.some.injEq] at this
        exact ⟨hlt, this⟩
      · rintro ⟨hlt, hm⟩
        have hlt' : i < streams.length := by rw [hl]; exact hlt
        have hs : streams[i]? = some streams[i] := List.getElem?_eq_getElem hlt'
        have := hi i _ hs
        rw [List.getElem?_map, List.getElem?_range hlt] at this
        simp only [Option.map_some, Option.some.injEq] at this
        rw [hm, Outcome.ok.injEq] at this
        simp only
        rw [hs, this]
    · simp at hin
    · simp at hin

/-- the delta windows of a stream of the stage inputs are the first voice's `STREAM_WIN` coefficients -/
theorem modelStream_windows (big : K) (v0 : ParsedVoice) (vs : List ParsedVoice) (iw : IW K)
    (labels : List (List Char)) (n i : Nat) (s : StreamIn K)
    (h : modelStream big (v0 :: vs) iw labels n i = .ok s) :
    ∃ s0, v0.streams[i]? = some s0 ∧ s.vectorLength = s0.info.veclen ∧
      s.windows = s0.windows.map fun w => w.map FromFile.ofDecimal := by
  unfold modelStream at h
  simp only [streamOf] at h
  cases hs0 : v0.streams[i]? with
  | none => simp [hs0] at h
  | some s0 =>
    simp only [hs0] at h
    cases h1 : modelsStream big (v0 :: vs) iw labels n i with
    | err e => simp [h1, Outcome.bind] at h
    | panic e => simp [h1, Outcome.bind] at h
    | ok st =>
      cases h2 : modelsGv (v0 :: vs) iw labels n i with
      | err e => simp [h1, h2, Outcome.bind] at h
      | panic e => simp [h1, h2, Outcome.bind] at h
      | ok gv =>
        simp only [h1, h2, Outcome.bind, Outcome.ok.injEq] at h
        subst h
        exact ⟨s0, rfl, rfl, rfl⟩

/-! ### 3. C15 lifted: the additional half tone transposes F0 and nothing else -/

/-- durations do not see the half tone — any voice set, any outcome -/
theorem durations_halfTone (big : K) (voices : List ParsedVoice) (iw : IW K) (ops : List (CondOp K))
    (f : Condition K → Bool) (hf : SpeedOnly f) (labels : List (List Char)) (times : List (K × K)) (ht : K) :
    durations big voices iw (ops ++ [.ht ht]) f labels times = durations big voices iw ops f labels times := by
  cases voices with
  | nil => rfl
  | cons v0 vs =>
    unfold durations
    simp only
    rw [condOf_snoc_ht, hf ((condOf v0 ops).setHalfTone ht) (condOf v0 ops) rfl]
    rfl

/-- the spectrum and low-pass trajectories (every stream but log-F0) do not see the half tone — any voice set, any
    durations, any outcome -/
theorem stream_halfTone (big : K) (voices : List ParsedVoice) (iw : IW K) (ops : List (CondOp K))
    (labels : List (List Char)) (times : List (K × K)) (durs : List Nat) (j : Nat) (hj : j ≠ 1) (ht : K) :
    stream big voices iw (ops ++ [.ht ht]) labels times durs j = stream big voices iw ops labels times durs j := by
  cases voices with
  | nil => rfl
  | cons v0 vs =>
    unfold stream
    simp only
    rw [condOf_snoc_ht]
    congr 1
    funext inp
    exact engineStream_congr _ _ inp durs j rfl rfl (fun e => absurd e hj)

/-- **C15 for the whole library, the "nothing else" half** (no assumption on windows, variances or clamping; `h = 0`
    allowed): on a well-formed voice set the generator parameters after `set_additional_half_tone(h)` and after
    `set_additional_half_tone(0)` both exist and have the same durations, the same spectrum and low-pass
    trajectories, and the same number of log-F0 frames. -/
theorem params_halfTone_frame (big : K) (voices : List ParsedVoice) (iw : IW K) (h : VoicesWF voices iw)
    (v0 : ParsedVoice) (hv0 : voices.head? = some v0) (ops : List (CondOp K)) (f : Condition K → Bool)
    (hf : SpeedOnly f) (labels : List (List Char)) (times : List (K × K))
    (halign : (condOf (K := K) v0 ops).alignment = true → times.length = labels.length) (ht : K) :
    ∃ p p', params big voices iw (ops ++ [.ht 0]) f labels times = .ok p ∧
      params big voices iw (ops ++ [.ht ht]) f labels times = .ok p' ∧
      p'.durations = p.durations ∧ p'.spectrum = p.spectrum ∧ p'.lpf = p.lpf ∧ p'.lf0.length = p.lf0.length := by
  obtain ⟨inp, hin, hwf, hwf', -⟩ := engineIn_total₂ big voices iw h v0 hv0 (ops ++ [.ht 0]) (ops ++ [.ht ht])
    labels times (by rw [condOf_snoc_ht]; exact halign) (by rw [condOf_snoc_ht]; exact halign)
  cases voices with
  | nil => simp at hv0
  | cons v0' vs =>
    simp only [List.head?_cons, Option.some.injEq] at hv0
    subst hv0
    have hb : f (condOf v0' (ops ++ [.ht ht])) = f (condOf v0' (ops ++ [.ht 0])) :=
      hf _ _ (by rw [condOf_snoc_ht, condOf_snoc_ht]; rfl)
    obtain ⟨p, p', hp, hp', e1, -, e3, -, e5, -, e7⟩ := engineParams_compare (condOf v0' (ops ++ [.ht 0]))
      (condOf v0' (ops ++ [.ht ht])) (f (condOf v0' (ops ++ [.ht 0]))) (f (condOf v0' (ops ++ [.ht ht]))) inp hwf hwf'
      (by rw [hb, condOf_snoc_ht, condOf_snoc_ht]; exact engineDurations_congr _ _ _ inp rfl rfl)
    refine ⟨p, p', ?_, ?_, e1, e5 ?_, e7 ?_, e3⟩
    · rw [params_eq_engine big v0' vs iw _ f labels times inp hin]; exact hp
    · rw [params_eq_engine big v0' vs iw _ f labels times inp hin]; exact hp'
    · intro durs
      rw [condOf_snoc_ht, condOf_snoc_ht]
      exact engineStream_congr _ _ inp durs 0 rfl rfl (fun e => absurd e (by decide))
    · intro durs
      rw [condOf_snoc_ht, condOf_snoc_ht]
      exact engineStream_congr _ _ inp durs 2 rfl rfl (fun e => absurd e (by decide))

/-- **C15 for the whole library, with the shift.** `s1` is `Models::model_stream(1)` (log-F0) for these voices, weights
    and labels; `thr` the log-F0 MSD threshold the history leaves. If the log-F0 windows are a static window `[1]`
    followed by windows whose coefficients sum to zero, the (inverted) variances are non-negative and the static ones
    positive, and no state mean reaches the 20 Hz..20 kHz clamp, then after `set_additional_half_tone(h)`, `h ≠ 0`:
    same durations, same spectrum and low-pass trajectories, same number of log-F0 frames, and log-F0 is the
    `set_additional_half_tone(0)` trajectory plus `h·ln2/12` on every voiced frame (no-data marker kept elsewhere). -/
theorem params_halfTone_shift (big : K) (voices : List ParsedVoice) (iw : IW K) (h : VoicesWF voices iw)
    (v0 : ParsedVoice) (hv0 : voices.head? = some v0) (ops : List (CondOp K)) (f : Condition K → Bool)
    (hf : SpeedOnly f) (labels : List (List Char)) (times : List (K × K))
    (halign : (condOf (K := K) v0 ops).alignment = true → times.length = labels.length)
    (ht : K) (hh : ht ≠ 0)
    (s1 : StreamIn K) (hs1 : modelStream big voices iw labels v0.global.nstates 1 = .ok s1)
    (thr : K) (hthr : (condOf (K := K) v0 ops).msdThreshold[1]? = some thr)
    (hstatic : s1.windows.head? = some [1]) (hsum : ∀ w ∈ s1.windows.tail, w.sum = 0)
    (hnonneg : ∀ st ∈ s1.stream, ∀ p ∈ st.params, 0 ≤ (withIvar p).vari)
    (hdflt : 0 ≤ (withIvar (⟨0, 0⟩ : MeanVari K)).vari)
    (hpos : ∀ st ∈ s1.stream, 0 < (withIvar (st.params.getD 0 ⟨0, 0⟩)).vari)
    (hu : Unclamped s1.stream ht) :
    ∃ p p', params big voices iw (ops ++ [.ht 0]) f labels times = .ok p ∧
      params big voices iw (ops ++ [.ht ht]) f labels times = .ok p' ∧
      p'.durations = p.durations ∧ p'.spectrum = p.spectrum ∧ p'.lpf = p.lpf ∧ p'.lf0.length = p.lf0.length ∧
      ∀ n, n < p.lf0.length →
        p'.lf0.getD n [] =
          if (maskCreate s1.stream thr p.durations).getD n false then (p.lf0.getD n []).map (· + ht * Consts.halfTone)
          else p.lf0.getD n [] := by
  obtain ⟨inp, hin, hwf, -⟩ := engineIn_total big voices iw h v0 hv0 (ops ++ [.ht 0])
    labels times (by rw [condOf_snoc_ht]; exact halign)
  have hns := (h.head v0 hv0).nstreams
  cases voices with
  | nil => simp at hv0
  | cons v0' vs =>
    simp only [List.head?_cons, Option.some.injEq] at hv0
    subst hv0
    obtain ⟨-, -, -, -, hstr⟩ := engineIn_fields big v0' vs iw labels times inp hin
    have hs1' : inp.streams[1]? = some s1 := (hstr 1 s1).2 ⟨by omega, hs1⟩
    have hb : f (condOf v0' (ops ++ [.ht ht])) = f (condOf v0' (ops ++ [.ht 0])) :=
      hf _ _ (by rw [condOf_snoc_ht, condOf_snoc_ht]; rfl)
    have hc : condOf (K := K) v0' (ops ++ [.ht ht]) = { condOf (K := K) v0' (ops ++ [.ht 0]) with halfTone := ht } := by
      rw [condOf_snoc_ht, condOf_snoc_ht]; rfl
    obtain ⟨p, p', hp, hp', rest⟩ := engineParams_halfTone (condOf v0' (ops ++ [.ht 0])) ht hh
      (by rw [condOf_snoc_ht]; rfl) (f (condOf v0' (ops ++ [.ht 0]))) inp hwf s1 hs1' thr
      (by rw [condOf_snoc_ht]; exact hthr) hstatic hsum hnonneg hdflt hpos hu
    refine ⟨p, p', ?_, ?_, rest⟩
    · rw [params_eq_engine big v0' vs iw _ f labels times inp hin]; exact hp
    · rw [params_eq_engine big v0' vs iw _ f labels times inp hin, hb, hc]; exact hp'

/-! ### 5. C11 lifted: per-stream independence -/

/-- stream `j` reads the same settings under `c'` as under `c`: its own GV weight, its own MSD threshold, and — for
    log-F0 only — the additional half tone -/
def StreamSame (c c' : Condition K) (j : Nat) : Prop :=
  c'.gvWeight[j]? = c.gvWeight[j]? ∧ c'.msdThreshold[j]? = c.msdThreshold[j]? ∧ (j = 1 → c'.halfTone = c.halfTone)

/-- the trajectory of stream `j` is the same after two histories that leave stream `j`'s settings the same — any
    voice set, any durations, any outcome -/
theorem stream_congr (big : K) (voices : List ParsedVoice) (iw : IW K) (ops ops' : List (CondOp K))
    (labels : List (List Char)) (times : List (K × K)) (durs : List Nat) (j : Nat)
    (hs : ∀ v0, voices.head? = some v0 → StreamSame (condOf (K := K) v0 ops) (condOf v0 ops') j) :
    stream big voices iw ops' labels times durs j = stream big voices iw ops labels times durs j := by
  cases voices with
  | nil => rfl
  | cons v0 vs =>
    obtain ⟨h1, h2, h3⟩ := hs v0 rfl
    unfold stream
    simp only
    congr 1
    funext inp
    exact engineStream_congr _ _ inp durs j h1 h2 h3

/-- the durations are the same after two histories that leave alignment and speed the same -/
theorem durations_congr (big : K) (voices : List ParsedVoice) (iw : IW K) (ops ops' : List (CondOp K))
    (f : Condition K → Bool) (hf : SpeedOnly f) (labels : List (List Char)) (times : List (K × K))
    (hs : ∀ v0, voices.head? = some v0 → (condOf (K := K) v0 ops').alignment = (condOf (K := K) v0 ops).alignment ∧
      (condOf (K := K) v0 ops').speed = (condOf (K := K) v0 ops).speed) :
    durations big voices iw ops' f labels times = durations big voices iw ops f labels times := by
  cases voices with
  | nil => rfl
  | cons v0 vs =>
    obtain ⟨h1, h2⟩ := hs v0 rfl
    unfold durations
    simp only
    rw [hf _ _ h2]
    congr 1
    funext inp
    exact engineDurations_congr _ _ _ inp h1 h2

theorem streamSame_snoc_msd (v0 : ParsedVoice) (ops : List (CondOp K)) (i j : Nat) (hij : j ≠ i) (x : K) :
    StreamSame (condOf (K := K) v0 ops) (condOf v0 (ops ++ [.msd i x])) j := by
  rw [condOf_snoc_msd]
  split_ifs
  · exact ⟨rfl, by simp [hij.symm], fun _ => rfl⟩
  · exact ⟨rfl, rfl, fun _ => rfl⟩

theorem streamSame_snoc_gv (v0 : ParsedVoice) (ops : List (CondOp K)) (i j : Nat) (hij : j ≠ i) (x : K) :
    StreamSame (condOf (K := K) v0 ops) (condOf v0 (ops ++ [.gv i x])) j := by
  rw [condOf_snoc_gv]
  split_ifs
  · exact ⟨by simp [hij.symm], rfl, fun _ => rfl⟩
  · exact ⟨rfl, rfl, fun _ => rfl⟩

theorem condOf_snoc_msd_frame (v0 : ParsedVoice) (ops : List (CondOp K)) (i : Nat) (x : K) :
    (condOf (K := K) v0 (ops ++ [.msd i x])).alignment = (condOf (K := K) v0 ops).alignment ∧
      (condOf (K := K) v0 (ops ++ [.msd i x])).speed = (condOf (K := K) v0 ops).speed := by
  rw [condOf_snoc_msd]; split_ifs <;> exact ⟨rfl, rfl⟩

theorem condOf_snoc_gv_frame (v0 : ParsedVoice) (ops : List (CondOp K)) (i : Nat) (x : K) :
    (condOf (K := K) v0 (ops ++ [.gv i x])).alignment = (condOf (K := K) v0 ops).alignment ∧
      (condOf (K := K) v0 (ops ++ [.gv i x])).speed = (condOf (K := K) v0 ops).speed := by
  rw [condOf_snoc_gv]; split_ifs <;> exact ⟨rfl, rfl⟩

/-- **C11 at stream level, for the whole library**: `set_msd_threshold(i, x)` leaves the trajectory of every other
    stream unchanged (any voice set, any durations, any outcome; an out-of-range `i` changes nothing at all) -/
theorem stream_msd_other (big : K) (voices : List ParsedVoice) (iw : IW K) (ops : List (CondOp K))
    (labels : List (List Char)) (times : List (K × K)) (durs : List Nat) (i j : Nat) (hij : j ≠ i) (x : K) :
    stream big voices iw (ops ++ [.msd i x]) labels times durs j = stream big voices iw ops labels times durs j :=
  stream_congr big voices iw ops _ labels times durs j (fun v0 _ => streamSame_snoc_msd v0 ops i j hij x)

/-- … and so does `set_gv_weight(i, x)` -/
theorem stream_gv_other (big : K) (voices : List ParsedVoice) (iw : IW K) (ops : List (CondOp K))
    (labels : List (List Char)) (times : List (K × K)) (durs : List Nat) (i j : Nat) (hij : j ≠ i) (x : K) :
    stream big voices iw (ops ++ [.gv i x]) labels times durs j = stream big voices iw ops labels times durs j :=
  stream_congr big voices iw ops _ labels times durs j (fun v0 _ => streamSame_snoc_gv v0 ops i j hij x)

/-- neither setter changes the durations -/
theorem durations_msd (big : K) (voices : List ParsedVoice) (iw : IW K) (ops : List (CondOp K))
    (f : Condition K → Bool) (hf : SpeedOnly f) (labels : List (List Char)) (times : List (K × K)) (i : Nat) (x : K) :
    durations big voices iw (ops ++ [.msd i x]) f labels times = durations big voices iw ops f labels times :=
  durations_congr big voices iw ops _ f hf labels times (fun v0 _ => condOf_snoc_msd_frame v0 ops i x)

theorem durations_gv (big : K) (voices : List ParsedVoice) (iw : IW K) (ops : List (CondOp K))
    (f : Condition K → Bool) (hf : SpeedOnly f) (labels : List (List Char)) (times : List (K × K)) (i : Nat) (x : K) :
    durations big voices iw (ops ++ [.gv i x]) f labels times = durations big voices iw ops f labels times :=
  durations_congr big voices iw ops _ f hf labels times (fun v0 _ => condOf_snoc_gv_frame v0 ops i x)

/-- **two histories on the same well-formed voices**: if they leave alignment and speed the same, the generator
    parameters exist for both with the same durations and the same number of frames in every trajectory, and each
    trajectory whose stream settings (`StreamSame`) agree is the same -/
theorem params_congr (big : K) (voices : List ParsedVoice) (iw : IW K) (h : VoicesWF voices iw)
    (v0 : ParsedVoice) (hv0 : voices.head? = some v0) (ops ops' : List (CondOp K)) (f : Condition K → Bool)
    (hf : SpeedOnly f) (labels : List (List Char)) (times : List (K × K))
    (halign : (condOf (K := K) v0 ops).alignment = true → times.length = labels.length)
    (ha : (condOf (K := K) v0 ops').alignment = (condOf (K := K) v0 ops).alignment)
    (hs : (condOf (K := K) v0 ops').speed = (condOf (K := K) v0 ops).speed) :
    ∃ p p', params big voices iw ops f labels times = .ok p ∧ params big voices iw ops' f labels times = .ok p' ∧
      p'.durations = p.durations ∧
      p'.spectrum.length = p.spectrum.length ∧ p'.lf0.length = p.lf0.length ∧ p'.lpf.length = p.lpf.length ∧
      (StreamSame (condOf (K := K) v0 ops) (condOf v0 ops') 0 → p'.spectrum = p.spectrum) ∧
      (StreamSame (condOf (K := K) v0 ops) (condOf v0 ops') 1 → p'.lf0 = p.lf0) ∧
      (StreamSame (condOf (K := K) v0 ops) (condOf v0 ops') 2 → p'.lpf = p.lpf) := by
  obtain ⟨inp, hin, hwf, hwf', -⟩ := engineIn_total₂ big voices iw h v0 hv0 ops ops'
    labels times halign (by rw [ha]; exact halign)
  cases voices with
  | nil => simp at hv0
  | cons v0' vs =>
    simp only [List.head?_cons, Option.some.injEq] at hv0
    subst hv0
    obtain ⟨p, p', hp, hp', e1, e2, e3, e4, e5, e6, e7⟩ := engineParams_compare (condOf v0' ops)
      (condOf v0' ops') (f (condOf v0' ops)) (f (condOf v0' ops')) inp hwf hwf'
      (by rw [hf _ _ hs]; exact engineDurations_congr _ _ _ inp ha hs)
    refine ⟨p, p', ?_, ?_, e1, e2, e3, e4, fun hj => e5 fun durs => ?_, fun hj => e6 fun durs => ?_,
      fun hj => e7 fun durs => ?_⟩
    · rw [params_eq_engine big v0' vs iw _ f labels times inp hin]; exact hp
    · rw [params_eq_engine big v0' vs iw _ f labels times inp hin]; exact hp'
    all_goals exact engineStream_congr _ _ inp durs _ hj.1 hj.2.1 hj.2.2

/-- **C11 for the whole library (threshold).** On a well-formed voice set, `set_msd_threshold(i, x)` changes at most
    the trajectory of stream `i`: durations and frame counts are the same, and the spectrum (`i ≠ 0`), log-F0
    (`i ≠ 1`) and low-pass (`i ≠ 2`) trajectories are the same. -/
theorem params_msd_other (big : K) (voices : List ParsedVoice) (iw : IW K) (h : VoicesWF voices iw)
    (v0 : ParsedVoice) (hv0 : voices.head? = some v0) (ops : List (CondOp K)) (f : Condition K → Bool)
    (hf : SpeedOnly f) (labels : List (List Char)) (times : List (K × K))
    (halign : (condOf (K := K) v0 ops).alignment = true → times.length = labels.length) (i : Nat) (x : K) :
    ∃ p p', params big voices iw ops f labels times = .ok p ∧
      params big voices iw (ops ++ [.msd i x]) f labels times = .ok p' ∧
      p'.durations = p.durations ∧
      p'.spectrum.length = p.spectrum.length ∧ p'.lf0.length = p.lf0.length ∧ p'.lpf.length = p.lpf.length ∧
      (i ≠ 0 → p'.spectrum = p.spectrum) ∧ (i ≠ 1 → p'.lf0 = p.lf0) ∧ (i ≠ 2 → p'.lpf = p.lpf) := by
  obtain ⟨a1, a2⟩ := condOf_snoc_msd_frame (K := K) v0 ops i x
  obtain ⟨p, p', hp, hp', e1, e2, e3, e4, e5, e6, e7⟩ :=
    params_congr big voices iw h v0 hv0 ops (ops ++ [.msd i x]) f hf labels times halign a1 a2
  exact ⟨p, p', hp, hp', e1, e2, e3, e4,
    fun hi => e5 (streamSame_snoc_msd v0 ops i 0 (Ne.symm hi) x),
    fun hi => e6 (streamSame_snoc_msd v0 ops i 1 (Ne.symm hi) x),
    fun hi => e7 (streamSame_snoc_msd v0 ops i 2 (Ne.symm hi) x)⟩

/-- **C11 for the whole library (GV weight).** Likewise for `set_gv_weight(i, x)`. -/
theorem params_gv_other (big : K) (voices : List ParsedVoice) (iw : IW K) (h : VoicesWF voices iw)
    (v0 : ParsedVoice) (hv0 : voices.head? = some v0) (ops : List (CondOp K)) (f : Condition K → Bool)
    (hf : SpeedOnly f) (labels : List (List Char)) (times : List (K × K))
    (halign : (condOf (K := K) v0 ops).alignment = true → times.length = labels.length) (i : Nat) (x : K) :
    ∃ p p', params big voices iw ops f labels times = .ok p ∧
      params big voices iw (ops ++ [.gv i x]) f labels times = .ok p' ∧
      p'.durations = p.durations ∧
      p'.spectrum.length = p.spectrum.length ∧ p'.lf0.length = p.lf0.length ∧ p'.lpf.length = p.lpf.length ∧
      (i ≠ 0 → p'.spectrum = p.spectrum) ∧ (i ≠ 1 → p'.lf0 = p.lf0) ∧ (i ≠ 2 → p'.lpf = p.lpf) := by
  obtain ⟨a1, a2⟩ := condOf_snoc_gv_frame (K := K) v0 ops i x
  obtain ⟨p, p', hp, hp', e1, e2, e3, e4, e5, e6, e7⟩ :=
    params_congr big voices iw h v0 hv0 ops (ops ++ [.gv i x]) f hf labels times halign a1 a2
  exact ⟨p, p', hp, hp', e1, e2, e3, e4,
    fun hi => e5 (streamSame_snoc_gv v0 ops i 0 (Ne.symm hi) x),
    fun hi => e6 (streamSame_snoc_gv v0 ops i 1 (Ne.symm hi) x),
    fun hi => e7 (streamSame_snoc_gv v0 ops i 2 (Ne.symm hi) x)⟩

/-! ### 6. C02 lifted: any history of step / query / finish on the generator `Engine::generator` builds -/

/-- `Engine::generator`: the `SpeechGenerator` over the vocoder, from the stage inputs -/
def engineGenerator (c : Condition K) (b : Bool) (inp : EngineIn K) :
    Outcome Unit (Gen (VocoderSt K) (List K × List K × List K)) :=
  match engineParams c b inp with
  | .ok p =>
    if !speechGeneratorNewOk p then .panic "speech.rs:SpeechGenerator::new"
    else
      let nmcp := (inp.streams[0]?.map (·.vectorLength)).getD 0
      let nlpf := if inp.nstream > 2 then (inp.streams[2]?.map (·.vectorLength)).getD 0 else 0
      .ok { fperiod := c.fperiod, frames := p.spectrum.zip (p.lf0.zip p.lpf), next := 0,
            voc := VocoderSt.new nmcp nlpf c.stage c.useLogGain c.samplingFrequency c.alpha c.beta c.volume c.fperiod }
  | .err e => .err e
  | .panic s => .panic s

/-- `Engine::synthesize` is `Engine::generator` followed by `generate_all` -/
theorem engineSynthesize_eq_generator (fx : Fix) (c : Condition K) (b : Bool) (inp : EngineIn K) :
    engineSynthesize fx c b inp =
      (engineGenerator c b inp).bind (Gen.finish (vocoderFrame fx c.fperiod) true) := by
  unfold engineSynthesize engineGenerator
  cases engineParams c b inp with
  | err e => rfl
  | panic s => rfl
  | ok p =>
    simp only
    cases speechGeneratorNewOk p <;> rfl

theorem engineGenerator_ok (c : Condition K) (b : Bool) (inp : EngineIn K)
    (g : Gen (VocoderSt K) (List K × List K × List K)) (h : engineGenerator c b inp = .ok g) :
    g.fperiod = c.fperiod ∧ g.next = 0 ∧
      ∃ p, engineParams c b inp = .ok p ∧ g.frames = p.spectrum.zip (p.lf0.zip p.lpf) := by
  unfold engineGenerator at h
  cases hp : engineParams c b inp with
  | err e => simp [hp] at h
  | panic s => simp [hp] at h
  | ok p =>
    simp only [hp] at h
    cases hchk : speechGeneratorNewOk p with
    | false => simp [hchk] at h
    | true =>
      simp only [hchk, Bool.not_true, Bool.false_eq_true, if_false, Outcome.ok.injEq] at h
      subst h
      exact ⟨rfl, rfl, p, rfl, rfl⟩

/-- the generator the library builds for (voices, weights, history, labels) -/
def generator (big : K) (voices : List ParsedVoice) (iw : IW K) (ops : List (CondOp K)) (f : Condition K → Bool)
    (labels : List (List Char)) (times : List (K × K)) :
    Outcome Unit (Gen (VocoderSt K) (List K × List K × List K)) :=
  match voices with
  | [] => .panic "voice_set.rs:first"
  | v0 :: _ => (engineIn big voices iw labels times).bind fun inp =>
      engineGenerator (condOf v0 ops) (f (condOf v0 ops)) inp

/-- `synthesize` is `generator` followed by `generate_all` (every voice set, every outcome) -/
theorem synthesize_eq_generator (fx : Fix) (big : K) (voices : List ParsedVoice) (iw : IW K) (ops : List (CondOp K))
    (f : Condition K → Bool) (labels : List (List Char)) (times : List (K × K)) :
    synthesize fx big voices iw ops f labels times =
      (generator big voices iw ops f labels times).bind fun g => Gen.finish (vocoderFrame fx g.fperiod) true g := by
  cases voices with
  | nil => rfl
  | cons v0 vs =>
    rw [synthesize_cons]
    unfold generator
    simp only
    cases hin : engineIn big (v0 :: vs) iw labels times with
    | err e => rfl
    | panic s => rfl
    | ok inp =>
      simp only [Outcome.bind]
      rw [engineSynthesize_eq_generator]
      cases hg : engineGenerator (condOf v0 ops) (f (condOf v0 ops)) inp with
      | err e => rfl
      | panic s => rfl
      | ok g =>
        simp only [Outcome.bind]
        rw [(engineGenerator_ok _ _ _ g hg).1]

/-- **C02 for the whole library.** Whenever the library builds a generator `g` (any voice set, weights, history,
    labels), `synthesize` returns a waveform `w` of `fperiod × #frames` samples, and every caller history of
    `generate_step` (any buffer) / `synthesized_frames` / `generate_all` on `g` yields exactly the observations of the
    cursor specification over `w`. -/
theorem generator_history_refines (fx : Fix) (big : K) (voices : List ParsedVoice) (iw : IW K)
    (ops : List (CondOp K)) (f : Condition K → Bool) (labels : List (List Char)) (times : List (K × K))
    (g : Gen (VocoderSt K) (List K × List K × List K)) (hg : generator big voices iw ops f labels times = .ok g) :
    ∃ w, synthesize fx big voices iw ops f labels times = .ok w ∧ w.length = g.fperiod * g.frames.length ∧
      ∀ hist : List (GenOp × List K),
        runOps (vocoderFrame fx g.fperiod) true g hist = specOps w g.fperiod g.frames.length 0 hist := by
  have hlen : ∀ (v : VocoderSt K) (fr : List K × List K × List K),
      (vocoderFrame fx g.fperiod v fr).2.length = g.fperiod :=
    fun v fr => vocoderFrame_length fx g.fperiod v fr
  have hnext : g.next = 0 := by
    cases voices with
    | nil => simp [generator] at hg
    | cons v0 vs =>
      unfold generator at hg
      simp only at hg
      cases hin : engineIn big (v0 :: vs) iw labels times with
      | err e => simp [hin, Outcome.bind] at hg
      | panic s => simp [hin, Outcome.bind] at hg
      | ok inp =>
        simp only [hin, Outcome.bind] at hg
        exact (engineGenerator_ok _ _ _ g hg).2.1
  have hfresh : g = C02.fresh g.fperiod g.frames g.voc := by
    cases g
    simp only at hnext
    subst hnext
    rfl
  refine ⟨Gen.render (vocoderFrame fx g.fperiod) g.voc g.frames, ?_, ?_, fun hist => ?_⟩
  · rw [synthesize_eq_generator, hg]
    simp only [Outcome.bind]
    conv => lhs; rw [hfresh]
    exact C02.oneshot_is_render (vocoderFrame fx g.fperiod) g.fperiod g.frames g.voc hlen
  · rw [Gen.render_length _ g.fperiod hlen, Nat.mul_comm]
  · conv => lhs; rw [hfresh]
    exact C02.history_refines (vocoderFrame fx g.fperiod) g.fperiod g.frames g.voc hlen hist

/-- on a well-formed voice set the generator exists; it has the history's frame period, starts at frame 0 and holds
    one frame per duration unit -/
theorem generator_total (big : K) (voices : List ParsedVoice) (iw : IW K) (h : VoicesWF voices iw)
    (v0 : ParsedVoice) (hv0 : voices.head? = some v0) (ops : List (CondOp K)) (f : Condition K → Bool)
    (labels : List (List Char)) (times : List (K × K))
    (halign : (condOf (K := K) v0 ops).alignment = true → times.length = labels.length) :
    ∃ g p, generator big voices iw ops f labels times = .ok g ∧ params big voices iw ops f labels times = .ok p ∧
      g.fperiod = (condOf (K := K) v0 ops).fperiod ∧ g.next = 0 ∧ g.frames = p.spectrum.zip (p.lf0.zip p.lpf) ∧
      g.frames.length = p.durations.sum ∧ p.durations.length = labels.length * v0.global.nstates ∧
      ∀ d ∈ p.durations, 1 ≤ d := by
  obtain ⟨inp, hin, hwf, hdl⟩ := engineIn_total big voices iw h v0 hv0 ops labels times halign
  obtain ⟨durs, w, -, -, -, hW, -⟩ := engineSynthesize_total Fix.repaired (condOf v0 ops) inp hwf (f (condOf v0 ops))
  obtain ⟨p, hp, -, hpl, hpp, -, -, -, -, l0, l1, l2⟩ := engineParams_total (condOf v0 ops) (f (condOf v0 ops)) inp hwf
  cases voices with
  | nil => simp at hv0
  | cons v0' vs =>
    simp only [List.head?_cons, Option.some.injEq] at hv0
    subst hv0
    rw [engineSynthesize_eq_generator] at hW
    cases hg : engineGenerator (condOf v0' ops) (f (condOf v0' ops)) inp with
    | err e => simp [hg, Outcome.bind] at hW
    | panic s => simp [hg, Outcome.bind] at hW
    | ok g =>
      obtain ⟨g1, g2, p', hp', g3⟩ := engineGenerator_ok _ _ _ g hg
      rw [hp, Outcome.ok.injEq] at hp'
      subst hp'
      refine ⟨g, p, ?_, ?_, g1, g2, g3, ?_, by rw [hpl, hdl], hpp⟩
      · unfold generator; simp only; rw [hin]; exact hg
      · rw [params_eq_engine big v0' vs iw _ f labels times inp hin]; exact hp
      · rw [g3]; simp [l0, l1, l2]

/-! ### the hypothesis on the speed test is needed -/

namespace Cex

theorem tiny_duration (big : K) (l : List Char) :
    modelsDuration [Tiny.voice] (Tiny.weights (K := K)) [l] = .ok [⟨FromFile.ofF32 0, FromFile.ofF32 0⟩] := by
  simp [modelsDuration, blend, select, Tiny.leafModel_get,
    sequenceOut, sequenceO, weighted, Tiny.voice, Tiny.weights, Outcome.bind, Outcome.map,
    toModelParameter, ModelParameter.mul]

theorem floor_a : ⌊(4 : ℚ) + 2⁻¹⌋₊ = 4 := by
  rw [Nat.floor_eq_iff (by norm_num)]; norm_num

theorem floor_b : ⌊(4 : ℚ) / 2 + 2⁻¹⌋₊ = 2 := by
  rw [Nat.floor_eq_iff (by norm_num)]; norm_num

theorem floor_c : ⌊(2 : ℚ) + 2⁻¹⌋₊ = 2 := by
  rw [Nat.floor_eq_iff (by norm_num)]; norm_num

theorem durs_one (c : Condition ℚ) (inp : EngineIn ℚ) (ha : c.alignment = false)
    (hd : inp.duration = [⟨4, 4⟩]) : engineDurations c true inp = .ok [4] := by
  simp [engineDurations, ha, hd, durationCreate, estimateDuration, roundMax1_def, floor_a]

theorem durs_two (c : Condition ℚ) (inp : EngineIn ℚ) (ha : c.alignment = false) (hs : c.speed = 2)
    (hd : inp.duration = [⟨4, 4⟩]) : engineDurations c false inp = .ok [2] := by
  simp [engineDurations, ha, hs, hd, durationCreate, estimateDuration, roundMax1_def, floor_a,
    estimateWithFrameLength, sumMeanVari, floor_b, floor_c, greedyLoop]

section
local instance cexTransc : Transc ℚ := ⟨fun x => x + 1, id, id, id, fun x _ => x⟩
local instance cexConsts : Consts ℚ := ⟨10, 3, 1 / 17, 1 / 9, -10000000000, 3, 1 / 10 ^ 100⟩
local instance cexMlpgConsts : MlpgConsts ℚ := ⟨10 ^ 19, 1 / 10 ^ 19, 10 ^ 38⟩
local instance cexFromFile : FromFile ℚ := ⟨fun _ => 4, fun _ => 1⟩

/-- a speed test that (wrongly) looks at the volume -/
def volTest : Condition ℚ → Bool := fun c => decide (c.volume = 1)

theorem volTest_not_speedOnly : ¬ SpeedOnly volTest := by
  intro h
  have := h { Condition.default with volume := 1 } { Condition.default with volume := 2 } rfl
  simp [volTest] at this

theorem cond_facts (v : ℚ) :
    (condOf (K := ℚ) Tiny.voice ([.speed 2] ++ [.vol v])).alignment = false ∧
    (condOf (K := ℚ) Tiny.voice ([.speed 2] ++ [.vol v])).speed = 2 ∧
    (condOf (K := ℚ) Tiny.voice ([.speed 2] ++ [.vol v])).fperiod = 240 ∧
    (condOf (K := ℚ) Tiny.voice ([.speed 2] ++ [.vol v])).volume = v * (1 / 9) + 1 := by
  rw [condOf_snoc_vol]
  refine ⟨rfl, ?_, rfl, ?_⟩
  · show maxS (2 : ℚ) speedMin = 2
    unfold maxS speedMin
    norm_num
  · rfl

theorem length_at (fx : Fix) (big : ℚ) (l : List Char) (v : ℚ) (n : Nat)
    (hn : ∀ inp : EngineIn ℚ, inp.duration = [⟨4, 4⟩] →
      engineDurations (condOf (K := ℚ) Tiny.voice ([.speed 2] ++ [.vol v]))
        (volTest (condOf (K := ℚ) Tiny.voice ([.speed 2] ++ [.vol v]))) inp = .ok [n]) :
    ∃ w, synthesize fx big [Tiny.voice] (Tiny.weights (K := ℚ)) ([.speed 2] ++ [.vol v]) volTest [l] [] = .ok w ∧
      w.length = 240 * n := by
  obtain ⟨a1, a2, a3, a4⟩ := cond_facts v
  obtain ⟨inp, durs, w, hin, hD, hW, hwl, -, -⟩ := synthesize_total' fx big [Tiny.voice] (Tiny.weights (K := ℚ))
    Tiny.voicesWF Tiny.voice rfl ([.speed 2] ++ [.vol v]) volTest [l] [] (by rw [a1]; intro hc; cases hc)
  have hdur := engineIn_duration big _ _ _ _ inp hin
  rw [tiny_duration big l, Outcome.ok.injEq] at hdur
  rw [hn inp hdur.symm, Outcome.ok.injEq] at hD
  subst hD
  exact ⟨w, hW, by rw [hwl, a3]; simp⟩

/-- **the hypothesis on the speed test cannot be dropped from `synthesize_volume`**: with a speed test that reads the
    volume (`volTest`; not `SpeedOnly`), `exp 0 = 1`, the voice set `[Tiny.voice]` (which is `VoicesWF`), one label and
    the history `set_speed(2)`, the rendering after `set_volume(1)` has 480 samples and the one after `set_volume(0)`
    has 960 — the former is not a sample-wise multiple of the latter. -/
theorem volume_needs_speedOnly (fx : Fix) (big : ℚ) (l : List Char) :
    Transc.exp (0 : ℚ) = 1 ∧
    synthesize fx big [Tiny.voice] (Tiny.weights (K := ℚ)) ([.speed 2] ++ [.vol 1]) volTest [l] [] ≠
      (synthesize fx big [Tiny.voice] (Tiny.weights (K := ℚ)) ([.speed 2] ++ [.vol 0]) volTest [l] []).map
        fun w => w.map (· * Transc.exp ((1 : ℚ) * Consts.db)) := by
  refine ⟨by show (0 : ℚ) + 1 = 1; norm_num, ?_⟩
  obtain ⟨w1, h1, l1⟩ := length_at fx big l 1 2 (fun inp hd => by
    obtain ⟨a1, a2, a3, a4⟩ := cond_facts 1
    have : volTest (condOf (K := ℚ) Tiny.voice ([.speed 2] ++ [.vol 1])) = false := by
      unfold volTest; rw [a4]; norm_num
    rw [this]; exact durs_two _ inp a1 a2 hd)
  obtain ⟨w0, h0, l0⟩ := length_at fx big l 0 4 (fun inp hd => by
    obtain ⟨a1, a2, a3, a4⟩ := cond_facts 0
    have : volTest (condOf (K := ℚ) Tiny.voice ([.speed 2] ++ [.vol 0])) = true := by
      unfold volTest; rw [a4]; norm_num
    rw [this]; exact durs_one _ inp a1 hd)
  rw [h1, h0]
  intro he
  simp only [Outcome.map, Outcome.ok.injEq] at he
  have := congrArg List.length he
  rw [List.length_map, l1, l0] at this
  omega

end

end Cex

end Synth
end Jb
