import Jb.Proofs.SynthTotal
import Jb.Proofs.EngineVolume
import Jb.Proofs.EngineHalfTone
import Jb.Proofs.Duration
import Jb.Proofs.Speech
import Jb.Props.C08

set_option linter.unusedSectionVars false
set_option linter.unusedVariables false

namespace Jb
namespace Synth
open Hts

variable {K : Type} [Field K] [LinearOrder K] [IsStrictOrderedRing K] [FloorRing K]
  [Transc K] [Consts K] [MlpgConsts K] [FromFile K]

/-! ### 0. `synthesize` is `engineSynthesize` on the stage inputs -/

theorem synthesize_eq_engine (fx : Fix) (big : K) (v0 : ParsedVoice) (vs : List ParsedVoice) (iw : IW K)
    (ops : List (CondOp K)) (f : Condition K → Bool) (labels : List (List Char)) (times : List (K × K))
    (inp : EngineIn K) (hin : engineIn big (v0 :: vs) iw labels times = .ok inp) :
    synthesize fx big (v0 :: vs) iw ops f labels times =
      engineSynthesize fx (condOf v0 ops) (f (condOf v0 ops)) inp := by
  rw [synthesize_cons, hin]; rfl

theorem synthesize_panic_of_engineIn (fx : Fix) (big : K) (v0 : ParsedVoice) (vs : List ParsedVoice) (iw : IW K)
    (ops : List (CondOp K)) (f : Condition K → Bool) (labels : List (List Char)) (times : List (K × K))
    (s : String) (hin : engineIn big (v0 :: vs) iw labels times = .panic s) :
    synthesize fx big (v0 :: vs) iw ops f labels times = .panic s := by
  rw [synthesize_cons, hin]; rfl

theorem synthesize_err_of_engineIn (fx : Fix) (big : K) (v0 : ParsedVoice) (vs : List ParsedVoice) (iw : IW K)
    (ops : List (CondOp K)) (f : Condition K → Bool) (labels : List (List Char)) (times : List (K × K))
    (e : Unit) (hin : engineIn big (v0 :: vs) iw labels times = .err e) :
    synthesize fx big (v0 :: vs) iw ops f labels times = .err e := by
  rw [synthesize_cons, hin]; rfl

theorem synthesize_nil (fx : Fix) (big : K) (iw : IW K)
    (ops : List (CondOp K)) (f : Condition K → Bool) (labels : List (List Char)) (times : List (K × K)) :
    synthesize fx big [] iw ops f labels times = .panic "voice_set.rs:first" := rfl

/-! ### 1. the last setter of a history -/

theorem applyHistory_append (c : Condition K) (ops ops' : List (CondOp K)) :
    applyHistory c (ops ++ ops') = applyHistory (applyHistory c ops) ops' := by
  unfold applyHistory; rw [List.foldl_append]

theorem condOf_append (v0 : ParsedVoice) (ops ops' : List (CondOp K)) :
    condOf (K := K) v0 (ops ++ ops') = applyHistory (condOf v0 ops) ops' := by
  unfold condOf; rw [applyHistory_append]

theorem condOf_snoc (v0 : ParsedVoice) (ops : List (CondOp K)) (op : CondOp K) :
    condOf (K := K) v0 (ops ++ [op]) =
      (match CondOp.apply (condOf v0 ops) op with | .ok c' => c' | _ => condOf v0 ops) := by
  rw [condOf_append]; rfl

theorem condOf_snoc_vol (v0 : ParsedVoice) (ops : List (CondOp K)) (v : K) :
    condOf (K := K) v0 (ops ++ [.vol v]) = (condOf v0 ops).setVolume v := by
  rw [condOf_snoc]; rfl

theorem condOf_snoc_ht (v0 : ParsedVoice) (ops : List (CondOp K)) (h : K) :
    condOf (K := K) v0 (ops ++ [.ht h]) = (condOf v0 ops).setHalfTone h := by
  rw [condOf_snoc]; rfl

theorem condOf_snoc_speed (v0 : ParsedVoice) (ops : List (CondOp K)) (s : K) :
    condOf (K := K) v0 (ops ++ [.speed s]) = (condOf v0 ops).setSpeed s := by
  rw [condOf_snoc]; rfl

theorem condOf_snoc_msd (v0 : ParsedVoice) (ops : List (CondOp K)) (i : Nat) (x : K) :
    condOf (K := K) v0 (ops ++ [.msd i x]) =
      if i < v0.global.nstreams then
        { condOf v0 ops with msdThreshold := (condOf v0 ops).msdThreshold.set i (clampS x 0 1) }
      else condOf v0 ops := by
  rw [condOf_snoc]
  simp only [CondOp.apply, Condition.setMsdThreshold, (condOf_lengths (K := K) v0 ops).1]
  split_ifs <;> rfl

theorem condOf_snoc_gv (v0 : ParsedVoice) (ops : List (CondOp K)) (i : Nat) (x : K) :
    condOf (K := K) v0 (ops ++ [.gv i x]) =
      if i < v0.global.nstreams then
        { condOf v0 ops with gvWeight := (condOf v0 ops).gvWeight.set i (maxS x 0) }
      else condOf v0 ops := by
  rw [condOf_snoc]
  simp only [CondOp.apply, Condition.setGvWeight, (condOf_lengths (K := K) v0 ops).2]
  split_ifs <;> rfl

end Synth
end Jb
