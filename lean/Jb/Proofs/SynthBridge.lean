import Jb.Proofs.SynthTotal
import Jb.Proofs.EngineVolume
import Jb.Proofs.EngineHalfTone
import Jb.Proofs.Duration
import Jb.Proofs.Speech
import Jb.Props.C08

set_option linter.unusedSectionVars false
set_option linter.unusedVariables false

namespace Jb
namespace Synth
open Hts

variable {K : Type} [Field K] [LinearOrder K] [IsStrictOrderedRing K] [FloorRing K]
  [Transc K] [Consts K] [MlpgConsts K] [FromFile K]

/-! ### 0. `synthesize` is `engineSynthesize` on the stage inputs -/

theorem synthesize_eq_engine (fx : Fix) (big : K) (v0 : ParsedVoice) (vs : List ParsedVoice) (iw : IW K)
    (ops : List (CondOp K)) (f : Condition K → Bool) (labels : List (List Char)) (times : List (K × K))
    (inp : EngineIn K) (hin : engineIn big (v0 :: vs) iw labels times = .ok inp) :
    synthesize fx big (v0 :: vs) iw ops f labels times =
      engineSynthesize fx (condOf v0 ops) (f (condOf v0 ops)) inp := by
  rw [synthesize_cons, hin]; rfl

theorem synthesize_panic_of_engineIn (fx : Fix) (big : K) (v0 : ParsedVoice) (vs : List ParsedVoice) (iw : IW K)
    (ops : List (CondOp K)) (f : Condition K → Bool) (labels : List (List Char)) (times : List (K × K))
    (s : String) (hin : engineIn big (v0 :: vs) iw labels times = .panic s) :
    synthesize fx big (v0 :: vs) iw ops f labels times = .panic s := by
  rw [synthesize_cons, hin]; rfl

theorem synthesize_err_of_engineIn (fx : Fix) (big : K) (v0 : ParsedVoice) (vs : List ParsedVoice) (iw : IW K)
    (ops : List (CondOp K)) (f : Condition K → Bool) (labels : List (List Char)) (times : List (K × K))
    (e : Unit) (hin : engineIn big (v0 :: vs) iw labels times = .err e) :
    synthesize fx big (v0 :: vs) iw ops f labels times = .err e := by
  rw [synthesize_cons, hin]; rfl

theorem synthesize_nil (fx : Fix) (big : K) (iw : IW K)
    (ops : List (CondOp K)) (f : Condition K → Bool) (labels : List (List Char)) (times : List (K × K)) :
    synthesize fx big [] iw ops f labels times = .panic "voice_set.rs:first" := rfl

/-! ### 1. the last setter of a history -/

theorem applyHistory_append (c : Condition K) (ops ops' : List (CondOp K)) :
    applyHistory c (ops ++ ops') = applyHistory (applyHistory c ops) ops' := by
  unfold applyHistory; rw [List.foldl_append]

theorem condOf_append (v0 : ParsedVoice) (ops ops' : List (CondOp K)) :
    condOf (K := K) v0 (ops ++ ops') = applyHistory (condOf v0 ops) ops' := by
  unfold condOf; rw [applyHistory_append]

theorem condOf_snoc (v0 : ParsedVoice) (ops : List (CondOp K)) (op : CondOp K) :
    condOf (K := K) v0 (ops ++ [op]) =
      (match CondOp.apply (condOf v0 ops) op with | .ok c' => c' | _ => condOf v0 ops) := by
  rw [condOf_append]; rfl

theorem condOf_snoc_vol (v0 : ParsedVoice) (ops : List (CondOp K)) (v : K) :
    condOf (K := K) v0 (ops ++ [.vol v]) = (condOf v0 ops).setVolume v := by
  rw [condOf_snoc]; rfl

theorem condOf_snoc_ht (v0 : ParsedVoice) (ops : List (CondOp K)) (h : K) :
    condOf (K := K) v0 (ops ++ [.ht h]) = (condOf v0 ops).setHalfTone h := by
  rw [condOf_snoc]; rfl

theorem condOf_snoc_speed (v0 : ParsedVoice) (ops : List (CondOp K)) (s : K) :
    condOf (K := K) v0 (ops ++ [.speed s]) = (condOf v0 ops).setSpeed s := by
  rw [condOf_snoc]; rfl

theorem condOf_snoc_msd (v0 : ParsedVoice) (ops : List (CondOp K)) (i : Nat) (x : K) :
    condOf (K := K) v0 (ops ++ [.msd i x]) =
      if i < v0.global.nstreams then
        { condOf v0 ops with msdThreshold := (condOf v0 ops).msdThreshold.set i (clampS x 0 1) }
      else condOf v0 ops := by
  rw [condOf_snoc]
  simp only [CondOp.apply, Condition.setMsdThreshold, (condOf_lengths (K := K) v0 ops).1]
  split_ifs <;> rfl

theorem condOf_snoc_gv (v0 : ParsedVoice) (ops : List (CondOp K)) (i : Nat) (x : K) :
    condOf (K := K) v0 (ops ++ [.gv i x]) =
      if i < v0.global.nstreams then
        { condOf v0 ops with gvWeight := (condOf v0 ops).gvWeight.set i (maxS x 0) }
      else condOf v0 ops := by
  rw [condOf_snoc]
  simp only [CondOp.apply, Condition.setGvWeight, (condOf_lengths (K := K) v0 ops).2]
  split_ifs <;> rfl

/-! ### 2. C16 lifted: volume is a pure gain of `synthesize`

  The speed test `f` is a parameter of the model (`speedIsOne : Condition → Bool`, the comparison `speed == 1.0`);
  the only thing the lifted statements need from it is that it gives the same answer on the two conditions
  compared. `SpeedOnly f` — "`f` reads the speed setting only" — gives that for every pair below. -/

/-- the speed test reads nothing but the speed setting -/
def SpeedOnly (f : Condition K → Bool) : Prop := ∀ c c' : Condition K, c.speed = c'.speed → f c = f c'

theorem synthesize_volume_raw (hexp0 : Transc.exp (0 : K) = 1) (fx : Fix) (big : K) (voices : List ParsedVoice)
    (iw : IW K) (ops : List (CondOp K)) (f : Condition K → Bool) (labels : List (List Char)) (times : List (K × K))
    (v : K)
    (hf : ∀ v0, voices.head? = some v0 → f (condOf v0 (ops ++ [.vol v])) = f (condOf v0 (ops ++ [.vol 0]))) :
    synthesize fx big voices iw (ops ++ [.vol v]) f labels times =
      (synthesize fx big voices iw (ops ++ [.vol 0]) f labels times).map
        fun w => w.map (· * Transc.exp (v * Consts.db)) := by
  cases voices with
  | nil => rfl
  | cons v0 vs =>
    rw [synthesize_cons, synthesize_cons, hf v0 rfl]
    cases hin : engineIn big (v0 :: vs) iw labels times with
    | err e => rfl
    | panic s => rfl
    | ok inp =>
      simp only [Outcome.bind]
      rw [condOf_snoc_vol, condOf_snoc_vol]
      exact engineSynthesize_setVolume hexp0 fx (condOf v0 ops) v _ inp

/-- **C16 for the whole library.** For every voice set, weights, setter history, label text and time stamps —
    well-formed or not, whatever the outcome — synthesis after `set_volume(v)` is synthesis after `set_volume(0)`
    with every sample multiplied by `exp(v·ln10/20)`: same outcome class (same error / panic site), same length. -/
theorem synthesize_volume (hexp0 : Transc.exp (0 : K) = 1) (fx : Fix) (big : K) (voices : List ParsedVoice)
    (iw : IW K) (ops : List (CondOp K)) (f : Condition K → Bool) (hf : SpeedOnly f)
    (labels : List (List Char)) (times : List (K × K)) (v : K) :
    synthesize fx big voices iw (ops ++ [.vol v]) f labels times =
      (synthesize fx big voices iw (ops ++ [.vol 0]) f labels times).map
        fun w => w.map (· * Transc.exp (v * Consts.db)) :=
  synthesize_volume_raw hexp0 fx big voices iw ops f labels times v (fun v0 _ => hf _ _ (by
    rw [condOf_snoc_vol, condOf_snoc_vol]; rfl))

/-- … on a well-formed voice set both renderings exist, have the same number of samples, and sample `n` of the one
    is `exp(v·ln10/20)` times sample `n` of the other -/
theorem synthesize_volume_samples (hexp0 : Transc.exp (0 : K) = 1) (fx : Fix) (big : K) (voices : List ParsedVoice)
    (iw : IW K) (h : VoicesWF voices iw) (v0 : ParsedVoice) (hv0 : voices.head? = some v0)
    (ops : List (CondOp K)) (f : Condition K → Bool) (hf : SpeedOnly f)
    (labels : List (List Char)) (times : List (K × K))
    (halign : (condOf (K := K) v0 ops).alignment = true → times.length = labels.length) (v : K) :
    ∃ w0 w, synthesize fx big voices iw (ops ++ [.vol 0]) f labels times = .ok w0 ∧
      synthesize fx big voices iw (ops ++ [.vol v]) f labels times = .ok w ∧
      w.length = w0.length ∧ ∀ n (hn : n < w0.length), w[n]? = some (w0[n] * Transc.exp (v * Consts.db)) := by
  obtain ⟨_, w0, h0, -⟩ := synthesize_total fx big voices iw h v0 hv0 (ops ++ [.vol 0]) f labels times (by
    rw [condOf_snoc_vol]; exact halign)
  refine ⟨w0, w0.map (· * Transc.exp (v * Consts.db)), h0, ?_, by simp, fun n hn => by simp [hn]⟩
  rw [synthesize_volume hexp0 fx big voices iw ops f hf labels times v, h0]; rfl

/-! ### 4. C08 lifted: the speaking rate scales the utterance -/

/-- the duration Gaussians among the stage inputs are `Models::duration` -/
theorem engineIn_duration (big : K) (voices : List ParsedVoice) (iw : IW K) (labels : List (List Char))
    (times : List (K × K)) (inp : EngineIn K) (hin : engineIn big voices iw labels times = .ok inp) :
    modelsDuration voices iw labels = .ok inp.duration := by
  cases voices with
  | nil => simp [engineIn] at hin
  | cons v0 vs =>
    unfold engineIn at hin
    simp only at hin
    cases hd : modelsDuration (v0 :: vs) iw labels with
    | err e => simp [hd, Outcome.bind] at hin
    | panic s => simp [hd, Outcome.bind] at hin
    | ok dur =>
      rw [hd] at hin
      simp only [Outcome.bind] at hin
      split at hin
      · simp only [Outcome.ok.injEq] at hin
        subst hin; rfl
      · simp at hin
      · simp at hin

/-- **the speed-1 frame count of a label text**, from the voices: `Σ_states max(1, round(mean))` over the
    interpolated duration Gaussians (`0` if `Models::duration` does not return) -/
def frames1 (voices : List ParsedVoice) (iw : IW K) (labels : List (List Char)) : Nat :=
  match modelsDuration voices iw labels with
  | .ok dur => (estimateDuration dur 0).sum
  | _ => 0

theorem frames1_eq (big : K) (voices : List ParsedVoice) (iw : IW K) (labels : List (List Char))
    (times : List (K × K)) (inp : EngineIn K) (hin : engineIn big voices iw labels times = .ok inp) :
    frames1 voices iw labels = C08.F1 inp.duration := by
  unfold frames1
  rw [engineIn_duration big voices iw labels times inp hin]
  rfl

/-- at speed 1 (the speed test answers "is one"; no alignment) the utterance has `frames1` frames -/
theorem synthesize_speed_one (fx : Fix) (big : K) (voices : List ParsedVoice) (iw : IW K) (h : VoicesWF voices iw)
    (v0 : ParsedVoice) (hv0 : voices.head? = some v0) (ops : List (CondOp K)) (f : Condition K → Bool)
    (labels : List (List Char)) (times : List (K × K))
    (halign : (condOf (K := K) v0 ops).alignment = false) (hf : f (condOf v0 ops) = true) :
    ∃ (durs : List Nat) (w : List K), synthesize fx big voices iw ops f labels times = .ok w ∧
      w.length = (condOf (K := K) v0 ops).fperiod * durs.sum ∧
      durs.length = labels.length * v0.global.nstates ∧ (∀ d ∈ durs, 1 ≤ d) ∧
      durs.sum = frames1 voices iw labels := by
  obtain ⟨inp, durs, w, hin, hD, hW, hwl, hdl, hdp⟩ :=
    synthesize_total' fx big voices iw h v0 hv0 ops f labels times (by rw [halign]; intro hc; cases hc)
  refine ⟨durs, w, hW, hwl, hdl, hdp, ?_⟩
  rw [frames1_eq big voices iw labels times inp hin]
  unfold engineDurations at hD
  rw [halign, hf] at hD
  simp only [Bool.false_eq_true, if_false, durationCreate, if_true, Outcome.ok.injEq] at hD
  rw [← hD]; rfl

/-- **C08 for the whole library.** After any setter history that leaves alignment off and ends in `set_speed(s)`,
    with the speed test answering "not one", synthesis of a non-empty label text on a well-formed voice set returns
    `frame_period × F` samples, `F = max(round(F₁ / max(s, 1e-6)), labels × states)`, `F₁ = frames1` the speed-1 frame
    count; one duration per state, each at least one frame. -/
theorem synthesize_speed (fx : Fix) (big : K) (voices : List ParsedVoice) (iw : IW K) (h : VoicesWF voices iw)
    (v0 : ParsedVoice) (hv0 : voices.head? = some v0) (ops : List (CondOp K)) (f : Condition K → Bool)
    (labels : List (List Char)) (times : List (K × K)) (s : K)
    (halign : (condOf (K := K) v0 ops).alignment = false) (hne : labels ≠ [])
    (hf : f (condOf v0 (ops ++ [.speed s])) = false) :
    ∃ (durs : List Nat) (w : List K), synthesize fx big voices iw (ops ++ [.speed s]) f labels times = .ok w ∧
      w.length = (condOf (K := K) v0 ops).fperiod * durs.sum ∧
      durs.length = labels.length * v0.global.nstates ∧ (∀ d ∈ durs, 1 ≤ d) ∧
      durs.sum = max (RoundNat.roundMax1 ((frames1 voices iw labels : K) / maxS s speedMin))
        (labels.length * v0.global.nstates) := by
  have hal : (condOf (K := K) v0 (ops ++ [.speed s])).alignment = false := by
    rw [condOf_snoc_speed]; exact halign
  obtain ⟨inp, durs, w, hin, hD, hW, hwl, hdl, hdp⟩ :=
    synthesize_total' fx big voices iw h v0 hv0 (ops ++ [.speed s]) f labels times
      (by rw [hal]; intro hc; cases hc)
  obtain ⟨-, -, hidl⟩ := engineIn_total big voices iw h v0 hv0 (ops ++ [.speed s]) labels times
      (by rw [hal]; intro hc; cases hc) |>.choose_spec
  have hinp : (engineIn_total big voices iw h v0 hv0 (ops ++ [.speed s]) labels times
      (by rw [hal]; intro hc; cases hc)).choose = inp := by
    have := (engineIn_total big voices iw h v0 hv0 (ops ++ [.speed s]) labels times
      (by rw [hal]; intro hc; cases hc)).choose_spec.1
    rw [hin, Outcome.ok.injEq] at this
    exact this.symm
  rw [hinp] at hidl
  have hnst : 0 < v0.global.nstates := (h.head v0 hv0).nstates_pos
  have hlab : 0 < labels.length := List.length_pos_of_ne_nil hne
  have hdne : inp.duration ≠ [] := by
    intro he
    rw [he] at hidl
    have : 0 < labels.length * v0.global.nstates := Nat.mul_pos hlab hnst
    simp at hidl
    omega
  refine ⟨durs, w, hW, ?_, hdl, hdp, ?_⟩
  · rw [hwl, condOf_snoc_speed]; rfl
  · unfold engineDurations at hD
    rw [hal, hf] at hD
    simp only [Bool.false_eq_true, if_false] at hD
    rw [durationCreate_sum inp.duration _ durs hdne hD, hidl,
      frames1_eq big voices iw labels times inp hin, condOf_snoc_speed]
    rfl

end Synth
end Jb
