/-
  The mel-cepstral post-filter, volume gain and LSP stability check of `Jb/Model/Vocoder.lean`.
-/
import Jb.Proofs.Cepstrum

set_option linter.unusedSectionVars false

namespace Jb

variable {K : Type} [Field K] [LinearOrder K] [IsStrictOrderedRing K] [Transc K] [Consts K]

/-- `β ≤ 0` or at most two coefficients: the post-filter changes nothing. -/
theorem postfilterMcp_noop (fx : Fix) (alpha beta : K) (c : List K) (h : ¬ 0 < beta ∨ c.length ≤ 2) :
    postfilterMcp fx alpha beta c = c := by
  sorry

/-- For `β > 0` and more than two coefficients: orders ≥ 2 are multiplied by `1+β`, order 1 is unchanged,
    order 0 is shifted by `½ ln(e₁/e₂) − β α² b₂` where `e₁, e₂` are the impulse-response energies
    (`b2en`) before and after the scaling and `b = mc2b α c`. -/
theorem postfilterMcp_coeffs (fx : Fix) (alpha beta : K) (c : List K) (hb : 0 < beta) (hl : 2 < c.length) :
    let c' := postfilterMcp fx alpha beta c
    let b := mc2b alpha c
    let b' := (List.range b.length).zip b |>.map fun (k, x) =>
      if k = 1 then b.getD 1 0 - beta * alpha * b.getD 2 0 else if k ≥ 2 then x * (1 + beta) else x
    c'.length = c.length ∧
    (∀ k, 2 ≤ k → k < c.length → c'.getD k 0 = (1 + beta) * c.getD k 0) ∧
    c'.getD 1 0 = c.getD 1 0 ∧
    c'.getD 0 0 = c.getD 0 0 + Transc.ln (b2en fx alpha b / b2en fx alpha b') / ((2 : Nat) : K)
                  - beta * alpha * alpha * b.getD 2 0 := by
  sorry

/-- The pinned commit's `freqt` (input fed in ascending order) reverses the cepstrum at `α = 0`. -/
theorem freqt_pinned_reverses : freqt false ([1, 2, 3] : List ℚ) 2 0 = [3, 2, 1] := by
  sorry

theorem freqt_fixed_identity : freqt true ([1, 2, 3] : List ℚ) 2 0 = [1, 2, 3] := by
  sorry

/-- **Volume is a pure gain.** One frame with volume `g` is the frame at volume 1 scaled sample by
    sample, and the vocoder state evolves identically (only the stored volume differs). -/
theorem vocoderSynth_volume (fx : Fix) (v : VocoderSt K) (g : K) (lf0 : K) (sp lpf : List K) :
    vocoderSynth fx { v with volume := g } lf0 sp lpf =
      (((vocoderSynth fx { v with volume := 1 } lf0 sp lpf).1.map fun y => y * g),
       { (vocoderSynth fx { v with volume := 1 } lf0 sp lpf).2 with volume := g }) := by
  sorry

/-- dB are additive: `setVolume (a+b)` multiplies the gains (so +6.02 dB doubles). -/
theorem volume_db_additive (hexp : ∀ a b : K, Transc.exp (a + b) = Transc.exp a * Transc.exp b)
    (a b : K) : Transc.exp ((a + b) * Consts.db) = Transc.exp (a * Consts.db) * Transc.exp (b * Consts.db) := by
  sorry

end Jb
