/-
  The mel-cepstral post-filter, volume gain and LSP stability check of `Jb/Model/Vocoder.lean`.
-/
import Jb.Proofs.Cepstrum

set_option linter.unusedSectionVars false

namespace Jb

variable {K : Type} [Field K] [LinearOrder K] [IsStrictOrderedRing K] [Transc K] [Consts K]

/-- `β ≤ 0` or at most two coefficients: the post-filter changes nothing. -/
theorem postfilterMcp_noop (fx : Fix) (alpha beta : K) (c : List K) (h : ¬ 0 < beta ∨ c.length ≤ 2) :
    postfilterMcp fx alpha beta c = c := by
  unfold postfilterMcp
  rw [if_neg]
  rintro ⟨h1, h2⟩
  rcases h with h | h
  · exact h h1
  · omega

/-! ### the post-filter, entry by entry -/

private theorem getD_map_range_zip {β : Type} (l : List K) (f : Nat × K → β) (k : Nat)
    (hk : k < l.length) (d : β) (d' : K) :
    (((List.range l.length).zip l).map f).getD k d = f (k, l.getD k d') := by
  simp [List.getD_eq_getElem?_getD, hk]

private theorem getD_of_length_le (l : List K) (k : Nat) (hk : l.length ≤ k) : l.getD k 0 = 0 := by
  simp [List.getD_eq_getElem?_getD, hk]

private theorem getD_set_ne (l : List K) (a : K) (k : Nat) (hk : k ≠ 0) :
    (l.set 0 a).getD k 0 = l.getD k 0 := by
  simp [List.getD_eq_getElem?_getD, Ne.symm hk]

private theorem getD_set_zero (l : List K) (a : K) (hl : 0 < l.length) :
    (l.set 0 a).getD 0 0 = a := by
  simp [List.getD_eq_getElem?_getD, hl]

/-- For `β > 0` and more than two coefficients: orders ≥ 2 are multiplied by `1+β`, order 1 is unchanged,
    order 0 is shifted by `½ ln(e₁/e₂) − β α² b₂` where `e₁, e₂` are the impulse-response energies
    (`b2en`) before and after the scaling and `b = mc2b α c`. -/
theorem postfilterMcp_coeffs (fx : Fix) (alpha beta : K) (c : List K) (hb : 0 < beta) (hl : 2 < c.length) :
    let c' := postfilterMcp fx alpha beta c
    let b := mc2b alpha c
    let b' := (List.range b.length).zip b |>.map fun (k, x) =>
      if k = 1 then b.getD 1 0 - beta * alpha * b.getD 2 0 else if k ≥ 2 then x * (1 + beta) else x
    c'.length = c.length ∧
    (∀ k, 2 ≤ k → k < c.length → c'.getD k 0 = (1 + beta) * c.getD k 0) ∧
    c'.getD 1 0 = c.getD 1 0 ∧
    c'.getD 0 0 = c.getD 0 0 + Transc.ln (b2en fx alpha b / b2en fx alpha b') / ((2 : Nat) : K)
                  - beta * alpha * alpha * b.getD 2 0 := by
  intro c' b b'
  have hblen : b.length = c.length := mc2b_length alpha c
  have hb'len : b'.length = c.length := by simp [b', hblen]
  have hc' : c' = b2mc alpha (b'.set 0 (b'.getD 0 0 +
      Transc.ln (b2en fx alpha b / b2en fx alpha b') / ((2 : Nat) : K))) := by
    show postfilterMcp fx alpha beta c = _
    unfold postfilterMcp
    rw [if_pos ⟨hb, hl⟩]
  generalize Transc.ln (b2en fx alpha b / b2en fx alpha b') / ((2 : Nat) : K) = Δ at hc' ⊢
  have hb'get : ∀ k, b'.getD k 0 = if k = 1 then b.getD 1 0 - beta * alpha * b.getD 2 0
      else if k ≥ 2 then b.getD k 0 * (1 + beta) else b.getD k 0 := by
    intro k
    by_cases hk : k < b.length
    · exact getD_map_range_zip b _ k hk 0 0
    · have h1 : b'.getD k 0 = 0 := getD_of_length_le _ _ (by omega)
      have h2 : b.getD k 0 = 0 := getD_of_length_le _ _ (by omega)
      rw [h1, h2, if_neg (by omega), if_pos (by omega), zero_mul]
  have hc : ∀ k, k < c.length → c.getD k 0 = b.getD k 0 + alpha * b.getD (k + 1) 0 := by
    intro k hk
    have := b2mc_getD alpha b k (by omega)
    rwa [b2mc_mc2b] at this
  have hget : ∀ k, k < c.length → c'.getD k 0 =
      (b'.set 0 (b'.getD 0 0 + Δ)).getD k 0 + alpha * b'.getD (k + 1) 0 := by
    intro k hk
    rw [hc', b2mc_getD alpha _ k (by rw [List.length_set]; omega), getD_set_ne _ _ (k + 1) (by omega)]
  refine ⟨?_, ?_, ?_, ?_⟩
  · rw [hc', b2mc_length, List.length_set, hb'len]
  · intro k hk2 hk
    rw [hget k hk, getD_set_ne _ _ k (by omega), hb'get, hb'get, hc k hk,
      if_neg (by omega), if_pos hk2, if_neg (by omega), if_pos (by omega)]
    ring
  · rw [hget 1 (by omega), getD_set_ne _ _ 1 (by omega), hb'get, hb'get, hc 1 (by omega)]
    simp only [if_true]
    norm_num
    ring
  · rw [hget 0 (by omega), getD_set_zero _ _ (by omega), hb'get, hb'get, hc 0 (by omega)]
    norm_num
    ring

/-- The pinned commit's `freqt` (input fed in ascending order) reverses the cepstrum at `α = 0`. -/
theorem freqt_pinned_reverses : freqt false ([1, 2, 3] : List ℚ) 2 0 = [3, 2, 1] := by
  norm_num [freqt, freqtStep, freqtStep.go, List.replicate]

theorem freqt_fixed_identity : freqt true ([1, 2, 3] : List ℚ) 2 0 = [1, 2, 3] := by
  norm_num [freqt, freqtStep, freqtStep.go, List.replicate]

/-! ### volume -/

/-- the per-sample step of `vocoderSynth`'s fold, with the volume a separate argument -/
private def synthStep (lpf cinc : List K) (alpha vol : K)
    (acc : List K × List K × FilterSt K × ExcSt K) (_ : Nat) : List K × List K × FilterSt K × ExcSt K :=
  let (outRev, coef, filt, exc) := acc
  let (x, exc) := excGet exc lpf
  let (y, filt) := match filt with
    | .mlsa st =>
      let x := if !(isZeroS x) then x * Transc.exp (coef.getD 0 0) else x
      let (y, st) := mlsaDf st x alpha coef
      (y, FilterSt.mlsa st)
    | .mglsa ds =>
      let x := x * coef.getD 0 0
      let (y, ds) := mglsaDf ds x alpha coef
      (y, FilterSt.mglsa ds)
  let coef' := if cinc.length = coef.length then (coef.zip cinc).map fun (c, d) => c + d else coef
  ((y * vol) :: outRev, coef', filt, exc)

private theorem vocoderSynth_eq (fx : Fix) (v : VocoderSt K) (lf0 : K) (spectrum lpf : List K) :
    vocoderSynth fx v lf0 spectrum lpf =
      (let p := periodOfLf0 v.rate lf0
       let v := if v.isFirst then
           { v with isFirst := false,
                    coefficients := if v.stage = 0 then mc2b v.alpha spectrum
                                    else lspCoefficients fx v.useLogGain v.stage v.gamma v.alpha spectrum }
         else v
       let cc : List K :=
         if v.stage = 0 then mc2b v.alpha (postfilterMcp fx v.alpha v.beta spectrum)
         else
           let l := postfilterLsp fx v.useLogGain v.stage v.gamma v.beta spectrum
           let l := checkLspStability l
           lspCoefficients fx v.useLogGain v.stage v.gamma v.alpha l
       let cinc := (cc.zip v.coefficients).map fun (a, b) => (a - b) / (v.fperiod : K)
       let exc := excStart v.exc p v.fperiod
       let r := (List.range v.fperiod).foldl (synthStep lpf cinc v.alpha v.volume)
         ([], v.coefficients, v.filter, exc)
       (r.1.reverse, { v with coefficients := cc, filter := r.2.2.1, exc := excEnd r.2.2.2 p })) := rfl

private theorem synthStep_vol (lpf cinc : List K) (alpha g : K) (o coef : List K) (filt : FilterSt K)
    (exc : ExcSt K) (i : Nat) :
    synthStep lpf cinc alpha g (o.map (· * g), coef, filt, exc) i =
      (((synthStep lpf cinc alpha 1 (o, coef, filt, exc) i).1.map (· * g)),
        (synthStep lpf cinc alpha 1 (o, coef, filt, exc) i).2) := by
  unfold synthStep
  cases filt <;> simp

private theorem synthStep_fold (lpf cinc : List K) (alpha g : K) (l : List Nat) :
    ∀ (o coef : List K) (filt : FilterSt K) (exc : ExcSt K),
    l.foldl (synthStep lpf cinc alpha g) (o.map (· * g), coef, filt, exc) =
      (((l.foldl (synthStep lpf cinc alpha 1) (o, coef, filt, exc)).1.map (· * g)),
        (l.foldl (synthStep lpf cinc alpha 1) (o, coef, filt, exc)).2) := by
  induction l with
  | nil => intros; rfl
  | cons i l ih =>
    intro o coef filt exc
    rw [List.foldl_cons, List.foldl_cons, synthStep_vol]
    obtain ⟨o', coef', filt', exc'⟩ := synthStep lpf cinc alpha 1 (o, coef, filt, exc) i
    exact ih o' coef' filt' exc'

/-- **Volume is a pure gain.** One frame with volume `g` is the frame at volume 1 scaled sample by
    sample, and the vocoder state evolves identically (only the stored volume differs). -/
theorem vocoderSynth_volume (fx : Fix) (v : VocoderSt K) (g : K) (lf0 : K) (sp lpf : List K) :
    vocoderSynth fx { v with volume := g } lf0 sp lpf =
      (((vocoderSynth fx { v with volume := 1 } lf0 sp lpf).1.map fun y => y * g),
       { (vocoderSynth fx { v with volume := 1 } lf0 sp lpf).2 with volume := g }) := by
  obtain ⟨stage, gamma, useLogGain, fperiod, rate, alpha, beta, volume, coefficients, filter, exc, isFirst⟩ := v
  rw [vocoderSynth_eq, vocoderSynth_eq]
  cases isFirst
  · simp only [Bool.false_eq_true, if_false]
    have h := fun cinc l coef filt exc => synthStep_fold lpf cinc alpha g l [] coef filt exc
    simp only [List.map_nil] at h
    rw [h]
    simp only [List.map_reverse]
  · simp only [if_true]
    have h := fun cinc l coef filt exc => synthStep_fold lpf cinc alpha g l [] coef filt exc
    simp only [List.map_nil] at h
    rw [h]
    simp only [List.map_reverse]

/-- dB are additive: `setVolume (a+b)` multiplies the gains (so +6.02 dB doubles). -/
theorem volume_db_additive (hexp : ∀ a b : K, Transc.exp (a + b) = Transc.exp a * Transc.exp b)
    (a b : K) : Transc.exp ((a + b) * Consts.db) = Transc.exp (a * Consts.db) * Transc.exp (b * Consts.db) := by
  rw [add_mul, hexp]

end Jb
