/-
  C04, read-back.  "For every label and state the Gaussian parameters handed to synthesis are bit-equal to the float32
  entries of the PDF the file's tree selects" and "loading yields the window coefficients written in the file".

  `ParseShape` says what an accepted file guarantees (inversion).  This file is the other direction: a *writer* for the
  binary PDF block, for window rows and for the decimal numbers of the header, and the theorems that the reader model
  returns exactly what was written — for every content, no size bound other than the ones the format itself has (a
  count is a `u32`, a header number is a `usize`).

    1. `u32le_u32bytes`                 four little-endian bytes are read back as the word
    2. `words_wordsBytes`               a word list is read back from its bytes
    3. `fromLinear_linearOf`            means | variances | optional voicing weight are read back bit for bit
    4. `parsePdfBlock_pdfBlockBytes`    a whole PDF block (counts, then the PDFs of every tree) is read back
    5. `parseWindow_windowRowBytes`     a window row (count, then the coefficient texts) is read back, as `String`s
       (`parseWindow_windowRowOfBytes`: the same on byte lists)
    6. `leadingNat_natBytes`, `headerNat_natBytes`, `headerPair_natBytes`   decimal numbers and `a-b` ranges

  Side results used on the way: `isDoubleText_bytes` (the text of a double is non-empty ASCII without separators),
  `strOf_bytesOf` / `bytesOf_strOf` (ASCII text ↔ bytes), `ascii_of_bytesOf`.
-/
import Jb.Proofs.ParseShape

set_option linter.unusedSectionVars false

namespace Jb.Hts

/-! ### 1. one word -/

/-- the four little-endian bytes of a word -/
def u32bytes (w : UInt32) : List Nat :=
  [w.toNat % 256, w.toNat / 256 % 256, w.toNat / 65536 % 256, w.toNat / 16777216]

theorem u32_recompose (x : Nat) (hx : x < 2 ^ 32) :
    (x % 256 ||| (x / 256 % 256) <<< 8 % 2 ^ 32 ||| (x / 65536 % 256) <<< 16 % 2 ^ 32 |||
      (x / 16777216) <<< 24 % 2 ^ 32) = x := by
  apply Nat.eq_of_testBit_eq
  intro i
  have e1 : (256 : Nat) = 2 ^ 8 := rfl
  have e2 : (65536 : Nat) = 2 ^ 16 := rfl
  have e3 : (16777216 : Nat) = 2 ^ 24 := rfl
  rw [e1, e2, e3]
  simp only [Nat.testBit_or, Nat.testBit_mod_two_pow, Nat.testBit_shiftLeft, Nat.testBit_div_two_pow]
  by_cases h32 : i < 32
  · by_cases h8 : i < 8
    · simp [h8, h32, show ¬ 8 ≤ i by omega, show ¬ 16 ≤ i by omega, show ¬ 24 ≤ i by omega]
    · by_cases h16 : i < 16
      · simp [h8, h32, show 8 ≤ i by omega, show ¬ 16 ≤ i by omega, show ¬ 24 ≤ i by omega,
          show i - 8 < 8 by omega]
      · by_cases h24 : i < 24
        · simp [h8, h32, show 8 ≤ i by omega, show 16 ≤ i by omega, show ¬ 24 ≤ i by omega,
            show ¬ i - 8 < 8 by omega, show i - 16 < 8 by omega]
        · simp [h8, h32, show 8 ≤ i by omega, show 16 ≤ i by omega, show 24 ≤ i by omega,
            show ¬ i - 8 < 8 by omega, show ¬ i - 16 < 8 by omega]
  · have : x.testBit i = false := Nat.testBit_lt_two_pow (lt_of_lt_of_le hx (Nat.pow_le_pow_right (by omega) (by omega)))
    simp [h32, this, show ¬ i < 8 by omega]

theorem u32le_u32bytes (w : UInt32) : u32le (u32bytes w) = w := by
  apply UInt32.toNat_inj.1
  have hw := w.toNat_lt
  have h0 : w.toNat % 256 % 2 ^ 32 = w.toNat % 256 := Nat.mod_eq_of_lt (by omega)
  have h1 : w.toNat / 256 % 256 % 2 ^ 32 = w.toNat / 256 % 256 := Nat.mod_eq_of_lt (by omega)
  have h2 : w.toNat / 65536 % 256 % 2 ^ 32 = w.toNat / 65536 % 256 := Nat.mod_eq_of_lt (by omega)
  have h3 : w.toNat / 16777216 % 2 ^ 32 = w.toNat / 16777216 := Nat.mod_eq_of_lt (by omega)
  simp only [u32le, u32bytes, List.getD_cons_zero, List.getD_cons_succ, UInt32.toNat_or, UInt32.toNat_shiftLeft,
    Nat.toUInt32, UInt32.toNat_ofNat', h0, h1, h2, h3]
  exact u32_recompose w.toNat hw

theorem u32bytes_lt (w : UInt32) : ∀ b ∈ u32bytes w, b < 256 := by
  have hw := w.toNat_lt
  intro b hb
  simp only [u32bytes, List.mem_cons, List.not_mem_nil, or_false] at hb
  rcases hb with rfl | rfl | rfl | rfl <;> omega

theorem u32bytes_length (w : UInt32) : (u32bytes w).length = 4 := rfl

/-! ### 2. word lists -/

/-- the bytes of a word list -/
def wordsBytes (ws : List UInt32) : List Nat := ws.flatMap u32bytes

theorem words_wordsBytes (ws : List UInt32) : words (wordsBytes ws) = some ws := by
  induction ws with
  | nil => rfl
  | cons w ws ih =>
    have h : wordsBytes (w :: ws) =
        w.toNat % 256 :: (w.toNat / 256 % 256) :: (w.toNat / 65536 % 256) :: (w.toNat / 16777216) :: wordsBytes ws := rfl
    rw [h, words, ih]
    have := u32le_u32bytes w
    unfold u32bytes at this
    rw [Option.map_some, this]

/-! ### 3. one PDF -/

/-- the words of a PDF in file order: means, variances, then the voicing weight if there is one -/
def linearOf (p : PdfBits) : List UInt32 := p.means ++ p.varis ++ p.msd.toList

theorem linearOf_length (p : PdfBits) :
    (linearOf p).length = p.means.length + p.varis.length + (if p.msd.isSome then 1 else 0) := by
  cases p with | mk m v o => cases o <;> simp [linearOf]; omega

theorem fromLinear_linearOf (p : PdfBits) (h : p.means.length = p.varis.length) :
    fromLinear (linearOf p) = p := by
  cases p with
  | mk m v o =>
    simp only at h
    have hlen : (linearOf ⟨m, v, o⟩).length / 2 = m.length := by
      rw [linearOf_length]; dsimp only; split <;> omega
    unfold fromLinear
    simp only [hlen]
    simp only [linearOf, List.append_assoc]
    congr 1
    · exact List.take_left' rfl
    · rw [List.drop_left' rfl, List.take_left' h.symm]
    · rw [← List.append_assoc, List.getElem?_append_right (by simp; omega)]
      have e : m.length * 2 - (m ++ v).length = 0 := by simp; omega
      rw [e]; cases o <;> rfl


/-! ### 4. the PDF block -/

/-- equal-length chunks of a concatenation -/
private theorem flatMap_chunk {α β : Type} (f : α → List β) (L : Nat) (ps : List α)
    (h : ∀ p ∈ ps, (f p).length = L) (i : Nat) (hi : i < ps.length) :
    ((ps.flatMap f).drop (i * L)).take L = f ps[i] := by
  induction ps generalizing i with
  | nil => simp at hi
  | cons p ps ih =>
    have hp := h p (by simp)
    rw [List.flatMap_cons]
    cases i with
    | zero => simp only [Nat.zero_mul, List.drop_zero, List.getElem_cons_zero]; exact List.take_left' hp
    | succ i =>
      have e : (i + 1) * L = (f p).length + i * L := by rw [hp, Nat.add_mul, Nat.one_mul, Nat.add_comm]
      rw [e, ← List.drop_drop, List.drop_left' rfl, List.getElem_cons_succ]
      exact ih (fun q hq => h q (by simp [hq])) i (by simpa using hi)

private theorem flatMap_length_const {α β : Type} (f : α → List β) (L : Nat) (ps : List α)
    (h : ∀ p ∈ ps, (f p).length = L) : (ps.flatMap f).length = ps.length * L := by
  induction ps with
  | nil => simp
  | cons p ps ih =>
    rw [List.flatMap_cons, List.length_append, h p (by simp), ih fun q hq => h q (by simp [hq]),
      List.length_cons, Nat.add_mul, Nat.one_mul, Nat.add_comm]

def pdfBodyWords (pdfs : List (List PdfBits)) : List UInt32 := pdfs.flatMap fun ps => ps.flatMap linearOf

def pdfBlockWords (pdfs : List (List PdfBits)) : List UInt32 :=
  pdfs.map (fun ps => UInt32.ofNat ps.length) ++ pdfBodyWords pdfs

def pdfBlockBytes (pdfs : List (List PdfBits)) : List Nat := wordsBytes (pdfBlockWords pdfs)

theorem pdfGo_pdfBodyWords (pdfs : List (List PdfBits)) (pdfLen : Nat)
    (hlen : ∀ ps ∈ pdfs, ∀ p ∈ ps, (linearOf p).length = pdfLen ∧ p.means.length = p.varis.length) :
    parsePdfBlock.go pdfLen (pdfs.map List.length) (pdfBodyWords pdfs) = some pdfs := by
  induction pdfs with
  | nil => rfl
  | cons ps pdfs ih =>
    have hps := hlen ps (by simp)
    have hL : (ps.flatMap linearOf).length = ps.length * pdfLen :=
      flatMap_length_const linearOf pdfLen ps fun p hp => (hps p hp).1
    have hb : pdfBodyWords (ps :: pdfs) = ps.flatMap linearOf ++ pdfBodyWords pdfs := rfl
    rw [List.map_cons, hb, parsePdfBlock.go]
    rw [if_neg (by rw [List.length_append, hL]; omega)]
    dsimp only
    rw [List.take_left' hL, List.drop_left' hL, ih fun qs hq => hlen qs (by simp [hq])]
    rw [Option.map_some]
    congr 2
    apply List.ext_getElem
    · simp
    · intro i h1 h2
      rw [List.getElem_map, List.getElem_range,
        flatMap_chunk linearOf pdfLen ps (fun p hp => (hps p hp).1) i h2]
      exact fromLinear_linearOf _ (hps _ (List.getElem_mem h2)).2

theorem parsePdfBlock_pdfBlockBytes (pdfs : List (List PdfBits)) (n : Nat) (msd : Bool)
    (hshape : ∀ ps ∈ pdfs, ∀ p ∈ ps, p.means.length = n ∧ p.varis.length = n ∧ p.msd.isSome = msd)
    (hcount : ∀ ps ∈ pdfs, ps.length < 2 ^ 32) :
    parsePdfBlock (pdfBlockBytes pdfs) pdfs.length (2 * n + (if msd then 1 else 0)) = some pdfs := by
  unfold parsePdfBlock
  rw [pdfBlockBytes, words_wordsBytes]
  dsimp only
  have hl : (pdfs.map fun ps => UInt32.ofNat ps.length).length = pdfs.length := by simp
  rw [if_neg (by rw [pdfBlockWords, List.length_append, hl]; omega)]
  rw [pdfBlockWords, List.take_left' hl, List.drop_left' hl, List.map_map]
  have hc : (pdfs.map ((fun x : UInt32 => x.toNat) ∘ fun ps => UInt32.ofNat ps.length)) = pdfs.map List.length := by
    apply List.map_congr_left
    intro ps hps
    have := hcount ps hps
    simp only [Function.comp, UInt32.toNat_ofNat']
    exact Nat.mod_eq_of_lt this
  rw [hc]
  apply pdfGo_pdfBodyWords
  intro ps hps p hp
  obtain ⟨h1, h2, h3⟩ := hshape ps hps p hp
  refine ⟨?_, by omega⟩
  rw [linearOf_length, h1, h2, h3]
  omega


/-- Non-vacuity: a block of two trees — two MSD PDFs of two means / two variances, then one. -/
def roundTripPdfs : List (List PdfBits) :=
  [[⟨[0x3F800000, 0xBF000000], [0x3DCCCCCD, 0x3E4CCCCD], some 0x3F666666⟩,
    ⟨[0x40490FDB, 0x00000001], [0x7F7FFFFF, 0x3F800000], some 0x00000000⟩],
   [⟨[0xC2C80000, 0x80000000], [0x3F000000, 0x3F000001], some 0x3F800000⟩]]

example : parsePdfBlock (pdfBlockBytes roundTripPdfs) 2 5 = some roundTripPdfs :=
  parsePdfBlock_pdfBlockBytes roundTripPdfs 2 true (by decide) (by decide)

/-- the first bytes of that block: the counts 2 and 1, then 1.0f32 = `00 00 80 3F` -/
example : (pdfBlockBytes roundTripPdfs).take 12 = [2, 0, 0, 0, 1, 0, 0, 0, 0, 0, 128, 63] := by decide +kernel
example : (pdfBlockBytes roundTripPdfs).length = 4 * (2 + 3 * 5) := by decide +kernel

/-- The degenerate PDF length 0 (`n = 0`, no voicing weight) is *not* an exception: every PDF is then the empty one, and
    the block is just the counts. -/
example : parsePdfBlock (pdfBlockBytes [[⟨[], [], none⟩, ⟨[], [], none⟩], []]) 2 0 =
    some [[⟨[], [], none⟩, ⟨[], [], none⟩], []] :=
  parsePdfBlock_pdfBlockBytes _ 0 false (by decide) (by decide)

/-- `fromLinear_linearOf` needs as many variances as means: the reader splits at half the length. -/
example : (fromLinear (linearOf ⟨[1], [], none⟩)).means = [] := by decide

/-! ### 6. decimal numbers -/

/-- decimal digits of `n`, most significant first, as ASCII bytes -/
def natBytes (n : Nat) : List Nat :=
  if n < 10 then [48 + n] else natBytes (n / 10) ++ [48 + n % 10]
termination_by n
decreasing_by omega

theorem natBytes_digits (n : Nat) : ∀ c ∈ natBytes n, isDigit c = true := by
  induction n using Nat.strongRecOn with
  | _ n ih =>
    rw [natBytes]
    split
    · intro c hc
      simp only [List.mem_singleton] at hc
      subst hc
      simp [isDigit]; omega
    · next h =>
      intro c hc
      rcases List.mem_append.1 hc with hc | hc
      · exact ih (n / 10) (by omega) c hc
      · simp only [List.mem_singleton] at hc
        subst hc
        simp [isDigit]; omega

theorem natBytes_ne_nil (n : Nat) : natBytes n ≠ [] := by
  rw [natBytes]; split <;> simp

theorem natBytes_value (n : Nat) : (natBytes n).foldl (fun a d => a * 10 + (d - 48)) 0 = n := by
  induction n using Nat.strongRecOn with
  | _ n ih =>
    rw [natBytes]
    split
    · simp
    · next h =>
      rw [List.foldl_append, ih (n / 10) (by omega)]
      simp only [List.foldl_cons, List.foldl_nil]
      omega

private theorem takeWhile_all {α : Type} (p : α → Bool) (l : List α) (h : ∀ x ∈ l, p x = true) : l.takeWhile p = l := by
  induction l with
  | nil => rfl
  | cons a l ih => rw [List.takeWhile_cons, h a (by simp), if_pos rfl, ih fun x hx => h x (by simp [hx])]

private theorem dropWhile_all {α : Type} (p : α → Bool) (l : List α) (h : ∀ x ∈ l, p x = true) : l.dropWhile p = [] := by
  induction l with
  | nil => rfl
  | cons a l ih => rw [List.dropWhile_cons, h a (by simp), if_pos rfl, ih fun x hx => h x (by simp [hx])]

/-- the reader on a written number, whatever its size -/
theorem leadingNat_natBytes_gen (n : Nat) :
    leadingNat (natBytes n) = some (if n < 2 ^ 64 then some n else none, []) := by
  have hd := natBytes_digits n
  have hne := natBytes_ne_nil n
  have hv := natBytes_value n
  generalize natBytes n = b at *
  cases b with
  | nil => exact absurd rfl hne
  | cons c t =>
    unfold leadingNat
    simp only [hd c (by simp), if_true]
    rw [takeWhile_all _ _ hd, dropWhile_all _ _ hd, hv]

theorem leadingNat_natBytes (n : Nat) (h : n < 2 ^ 64) : leadingNat (natBytes n) = some (some n, []) := by
  rw [leadingNat_natBytes_gen, if_pos h]

theorem leadingNat_natBytes_overflow (n : Nat) (h : 2 ^ 64 ≤ n) : leadingNat (natBytes n) = some (none, []) := by
  rw [leadingNat_natBytes_gen, if_neg (by omega)]

theorem headerNat_natBytes (guarded strict : Bool) (n : Nat) (h : n < 2 ^ 64) :
    headerNat guarded strict (natBytes n) = .ok n := by
  unfold headerNat
  rw [leadingNat_natBytes n h]
  simp


example : natBytes 0 = bytesOf "0" ∧ natBytes 1234567 = bytesOf "1234567" ∧
    natBytes 18446744073709551616 = bytesOf "18446744073709551616" := by decide +kernel

theorem splitAcc_cons (sep c : Nat) (b : List Nat) : splitAcc sep (c :: b) =
    if c = sep then ([], (splitAcc sep b).1 :: (splitAcc sep b).2)
    else (c :: (splitAcc sep b).1, (splitAcc sep b).2) := rfl

theorem splitAcc_word (sep : Nat) (w rest : List Nat) (hw : ∀ x ∈ w, x ≠ sep) :
    splitAcc sep (w ++ rest) = (w ++ (splitAcc sep rest).1, (splitAcc sep rest).2) := by
  induction w with
  | nil => rfl
  | cons c w ih =>
    rw [List.cons_append, splitAcc_cons, if_neg (hw c (by simp)), ih fun x hx => hw x (by simp [hx])]
    rfl

theorem natBytes_ne_dash (n : Nat) : ∀ x ∈ natBytes n, x ≠ 45 := by
  intro x hx
  have := natBytes_digits n x hx
  simp only [isDigit, Bool.and_eq_true, decide_eq_true_eq] at this
  omega

/-- a byte range `a-b` of the `[POSITION]` section is read back -/
theorem headerPair_natBytes (guarded : Bool) (a b : Nat) (ha : a < 2 ^ 64) (hb : b < 2 ^ 64) :
    headerPair guarded (natBytes a ++ 45 :: natBytes b) = .ok (a, b) := by
  have hs : splitOn 45 (natBytes a ++ 45 :: natBytes b) = [natBytes a, natBytes b] := by
    rw [splitOn_eq, splitAcc_word 45 _ _ (natBytes_ne_dash a), splitAcc_cons, if_pos rfl]
    have := splitAcc_word 45 (natBytes b) [] (natBytes_ne_dash b)
    rw [List.append_nil] at this
    rw [this]
    simp [splitAcc]
  unfold headerPair
  rw [hs]
  simp only [headerNat_natBytes _ _ _ ha, headerNat_natBytes _ _ _ hb]

/-! ### 5. window rows -/

/-- a token: non-empty, no separator byte (space or newline) -/
def IsTok (c : List Nat) : Prop := c ≠ [] ∧ ∀ x ∈ c, isSpace x = false

theorem tokAcc_cons (c : Nat) (b : List Nat) : tokAcc (c :: b) =
    if isSpace c then (if (tokAcc b).1.isEmpty then tokAcc b else ([], (tokAcc b).1 :: (tokAcc b).2))
    else (c :: (tokAcc b).1, (tokAcc b).2) := rfl

theorem tokAcc_word (w rest : List Nat) (hw : ∀ x ∈ w, isSpace x = false) :
    tokAcc (w ++ rest) = (w ++ (tokAcc rest).1, (tokAcc rest).2) := by
  induction w with
  | nil => rfl
  | cons c w ih =>
    rw [List.cons_append, tokAcc_cons, hw c (by simp), ih fun x hx => hw x (by simp [hx])]
    simp

/-- space-prefixed tokens are read back one by one -/
theorem tokAcc_spaced (cs : List (List Nat)) (h : ∀ c ∈ cs, IsTok c) :
    tokAcc (cs.flatMap fun c => 32 :: c) = ([], cs) := by
  induction cs with
  | nil => rfl
  | cons c cs ih =>
    obtain ⟨hne, hsp⟩ := h c (by simp)
    rw [List.flatMap_cons, List.cons_append, tokAcc_cons, tokAcc_word c _ hsp, ih fun x hx => h x (by simp [hx])]
    have : (c ++ ([] : List Nat)).isEmpty = false := by
      cases c with
      | nil => exact absurd rfl hne
      | cons => rfl
    simp only [this]
    simp [isSpace]

theorem tokens_spaced (w : List Nat) (cs : List (List Nat)) (hw : IsTok w) (h : ∀ c ∈ cs, IsTok c) :
    tokens (w ++ cs.flatMap fun c => 32 :: c) = w :: cs := by
  rw [tokens_eq, tokAcc_word w _ hw.2, tokAcc_spaced cs h]
  simp [hw.1]

theorem natBytes_isTok (n : Nat) : IsTok (natBytes n) := by
  refine ⟨natBytes_ne_nil n, fun x hx => ?_⟩
  have := natBytes_digits n x hx
  simp only [isDigit, Bool.and_eq_true, decide_eq_true_eq] at this
  simp [isSpace]; omega


/-! #### what the text of a double can contain -/

def lowerByte (c : Nat) : Nat := if 65 ≤ c && c ≤ 90 then c + 32 else c
def stripSign (l : List Nat) : List Nat := match l with | 43 :: r => r | 45 :: r => r | r => r
def fracSplit (intPart r1 : List Nat) : Bool × List Nat :=
  match r1 with
  | 46 :: r =>
    let f := r.takeWhile isDigit
    (!intPart.isEmpty || !f.isEmpty, r.drop f.length)
  | r => (!intPart.isEmpty, r)
def expOk (r2 : List Nat) : Bool :=
  match r2 with
  | [] => true
  | e :: r =>
    if e = 101 then
      let r' := stripSign r
      !r'.isEmpty && r'.all isDigit
    else false

theorem isDoubleText_eq (t : List Nat) : isDoubleText t =
    (let u := stripSign (t.map lowerByte)
     if u == bytesOf "inf" || u == bytesOf "infinity" || u == bytesOf "nan" then true
     else
       (fracSplit (u.takeWhile isDigit) (u.drop (u.takeWhile isDigit).length)).1 &&
         expOk (fracSplit (u.takeWhile isDigit) (u.drop (u.takeWhile isDigit).length)).2) := by
  rfl

/-- a byte that can stand inside a token of an ASCII text: below 128 and not a separator -/
def TokByte (y : Nat) : Prop := y < 128 ∧ isSpace y = false

instance (y : Nat) : Decidable (TokByte y) := by unfold TokByte; infer_instance

theorem tokByte_of_digit {y : Nat} (h : isDigit y = true) : TokByte y := by
  simp only [isDigit, Bool.and_eq_true, decide_eq_true_eq] at h
  refine ⟨by omega, ?_⟩
  simp [isSpace]; omega

theorem tokByte_of_lc {y : Nat} (h : TokByte (lowerByte y)) : TokByte y := by
  unfold lowerByte at h
  split at h
  · next hc =>
    simp only [Bool.and_eq_true, decide_eq_true_eq] at hc
    refine ⟨by omega, ?_⟩
    simp [isSpace]; omega
  · exact h

theorem tokByte_of_stripSign {l : List Nat} (h : ∀ y ∈ stripSign l, TokByte y) : ∀ y ∈ l, TokByte y := by
  unfold stripSign at h
  split at h
  · intro y hy
    rcases List.mem_cons.1 hy with rfl | hy
    · decide
    · exact h y hy
  · intro y hy
    rcases List.mem_cons.1 hy with rfl | hy
    · decide
    · exact h y hy
  · exact h

private theorem mem_takeWhile_or_drop {α : Type} (p : α → Bool) (l : List α) (y : α) (hy : y ∈ l) :
    p y = true ∨ y ∈ l.drop (l.takeWhile p).length := by
  induction l with
  | nil => simp at hy
  | cons a l ih =>
    rw [List.takeWhile_cons]
    split
    · next ha =>
      rcases List.mem_cons.1 hy with rfl | hy
      · left; exact ha
      · rcases ih hy with h | h
        · left; exact h
        · right; simpa using h
    · right; simpa using hy

theorem tokByte_of_digits_or_rest {l : List Nat} (h : ∀ y ∈ l.drop (l.takeWhile isDigit).length, TokByte y) :
    ∀ y ∈ l, TokByte y := by
  intro y hy
  rcases mem_takeWhile_or_drop isDigit l y hy with h1 | h1
  · exact tokByte_of_digit h1
  · exact h y h1

theorem tokByte_of_expOk {r2 : List Nat} (h : expOk r2 = true) : ∀ y ∈ r2, TokByte y := by
  unfold expOk at h
  split at h
  · simp
  · next e r =>
    split at h
    · next he =>
      subst he
      simp only [Bool.and_eq_true, List.all_eq_true] at h
      intro y hy
      rcases List.mem_cons.1 hy with rfl | hy
      · decide
      · exact tokByte_of_stripSign (fun z hz => tokByte_of_digit (h.2 z hz)) y hy
    · cases h

theorem tokByte_of_fracSplit {ip r1 : List Nat} (h : ∀ y ∈ (fracSplit ip r1).2, TokByte y) :
    ∀ y ∈ r1, TokByte y := by
  unfold fracSplit at h
  split at h
  · next r =>
    intro y hy
    rcases List.mem_cons.1 hy with rfl | hy
    · decide
    · exact tokByte_of_digits_or_rest h y hy
  · exact h

theorem bytesOf_inf : bytesOf "inf" = [105, 110, 102] := by decide +kernel
theorem bytesOf_infinity : bytesOf "infinity" = [105, 110, 102, 105, 110, 105, 116, 121] := by decide +kernel
theorem bytesOf_nan : bytesOf "nan" = [110, 97, 110] := by decide +kernel

/-- what the text of a double can contain: it is not empty, and every byte is ASCII and not a separator -/
theorem isDoubleText_bytes (t : List Nat) (h : isDoubleText t = true) : t ≠ [] ∧ ∀ y ∈ t, TokByte y := by
  refine ⟨?_, ?_⟩
  · rintro rfl
    revert h
    decide +kernel
  · rw [isDoubleText_eq] at h
    dsimp only at h
    have key : ∀ y ∈ stripSign (t.map lowerByte), TokByte y := by
      split at h
      · next hl =>
        simp only [Bool.or_eq_true, beq_iff_eq, bytesOf_inf, bytesOf_infinity, bytesOf_nan] at hl
        rcases hl with (hl | hl) | hl <;> rw [hl] <;> decide
      · simp only [Bool.and_eq_true] at h
        exact tokByte_of_digits_or_rest (tokByte_of_fracSplit (tokByte_of_expOk h.2))
    intro y hy
    exact tokByte_of_lc (tokByte_of_stripSign key (lowerByte y) (List.mem_map_of_mem hy))

/-! #### ASCII text and its bytes -/

theorem bytesOf_ofList (l : List Char) :
    bytesOf (String.ofList l) = (l.flatMap String.utf8EncodeChar).map (·.toNat) := by
  rw [bytesOf, String.toUTF8, String.toByteArray_ofList, byteArray_toList, List.utf8Encode,
    List.toList_data_toByteArray]

theorem bytesOf_ofList_ascii (l : List Char) (h : ∀ c ∈ l, c.toNat < 128) :
    bytesOf (String.ofList l) = l.map Char.toNat := by
  rw [bytesOf_ofList]
  induction l with
  | nil => rfl
  | cons c l ih =>
    have hc := h c (by simp)
    have h1 : c.utf8Size = 1 := Char.utf8Size_eq_one_iff.2 (by
      rw [UInt32.le_iff_toNat_le]; have : c.val.toNat = c.toNat := rfl
      rw [this]; simp; omega)
    rw [List.flatMap_cons, String.utf8EncodeChar_eq_singleton h1, List.map_append, ih fun x hx => h x (by simp [hx])]
    simp only [List.map_cons, List.map_nil, List.singleton_append, List.cons.injEq, and_true]
    have : c.val.toNat = c.toNat := rfl
    rw [UInt32.toNat_toUInt8, this]
    omega

/-- an ASCII string is the text of its bytes -/
theorem strOf_bytesOf (s : String) (h : ∀ c ∈ s.toList, c.toNat < 128) : strOf (bytesOf s) = s := by
  conv_lhs => rw [← String.ofList_toList (s := s)]
  rw [bytesOf_ofList_ascii _ h, strOf, toChars, List.map_map]
  have : s.toList.map (Char.ofNat ∘ Char.toNat) = s.toList := by
    conv_rhs => rw [← List.map_id s.toList]
    apply List.map_congr_left
    intro c _
    simp
  rw [this, String.ofList_toList]

/-- ASCII bytes are the bytes of their text -/
theorem bytesOf_strOf (b : List Nat) (h : ∀ x ∈ b, x < 128) : bytesOf (strOf b) = b := by
  have hval : ∀ x ∈ b, (Char.ofNat x).toNat = x := by
    intro x hx
    have := h x hx
    have hv : x.isValidChar := Or.inl (by omega)
    unfold Char.ofNat
    rw [dif_pos hv]
    rfl
  rw [strOf, toChars, bytesOf_ofList_ascii]
  · rw [List.map_map]
    conv_rhs => rw [← List.map_id b]
    exact List.map_congr_left fun x hx => hval x hx
  · intro c hc
    obtain ⟨x, hx, rfl⟩ := List.mem_map.1 hc
    rw [hval x hx]; exact h x hx

theorem ascii_of_utf8EncodeChar (c : Char) (h : ∀ y ∈ String.utf8EncodeChar c, y.toNat < 128) : c.toNat < 128 := by
  have hv : c.val.toNat = c.toNat := rfl
  by_contra hc
  have hlast : UInt8.ofNat (c.val.toNat % 64 + 128) ∈ String.utf8EncodeChar c := by
    unfold String.utf8EncodeChar
    dsimp only
    rw [if_neg (by omega)]
    split
    · simp
    · split <;> simp
  have := h _ hlast
  rw [UInt8.toNat_ofNat'] at this
  omega

/-- a string whose bytes are all below 128 has only ASCII characters -/
theorem ascii_of_bytesOf (s : String) (h : ∀ y ∈ bytesOf s, y < 128) : ∀ c ∈ s.toList, c.toNat < 128 := by
  intro c hc
  apply ascii_of_utf8EncodeChar
  intro y hy
  apply h
  rw [← String.ofList_toList (s := s), bytesOf_ofList]
  exact List.mem_map.2 ⟨y, List.mem_flatMap.2 ⟨c, hc, hy⟩, rfl⟩

theorem strOf_bytesOf_of_bytes (s : String) (h : ∀ y ∈ bytesOf s, y < 128) : strOf (bytesOf s) = s :=
  strOf_bytesOf s (ascii_of_bytesOf s h)

/-! #### the row -/

/-- a window row on byte lists: the decimal count, then a space and the text of each coefficient -/
def windowRowOfBytes (cs : List (List Nat)) : List Nat := natBytes cs.length ++ cs.flatMap fun c => 32 :: c

/-- a window row: the decimal count, then a space and the text of each coefficient -/
def windowRowBytes (cs : List String) : List Nat := windowRowOfBytes (cs.map bytesOf)

theorem windowRowOfBytes_head (cs : List (List Nat)) :
    ((windowRowOfBytes cs).head?.map isDigit).getD false = true := by
  have hd := natBytes_digits cs.length
  have hne := natBytes_ne_nil cs.length
  unfold windowRowOfBytes
  generalize natBytes cs.length = b at *
  cases b with
  | nil => exact absurd rfl hne
  | cons c t => simp [hd c (by simp)]

theorem isTok_of_isDoubleText {c : List Nat} (h : isDoubleText c = true) : IsTok c :=
  ⟨(isDoubleText_bytes c h).1, fun x hx => ((isDoubleText_bytes c h).2 x hx).2⟩

/-- **Window read-back on bytes.** Whatever texts of doubles are written in a row — any number of them below `2^64`,
    the empty row included — the reader returns exactly these texts. -/
theorem parseWindow_windowRowOfBytes (cs : List (List Nat)) (h : ∀ c ∈ cs, isDoubleText c = true)
    (hn : cs.length < 2 ^ 64) : parseWindow (windowRowOfBytes cs) = some (cs.map strOf) := by
  unfold parseWindow
  rw [windowRowOfBytes_head]
  simp only [Bool.not_true, Bool.false_eq_true, if_false]
  rw [windowRowOfBytes, tokens_spaced _ cs (natBytes_isTok _) fun c hc => isTok_of_isDoubleText (h c hc)]
  simp only [leadingNat_natBytes _ hn]
  have hall : cs.all isDoubleText = true := List.all_eq_true.2 h
  simp [hall]

/-- the count is a `usize`: a row of `2^64` coefficients or more is refused (it cannot be written in a real file) -/
theorem parseWindow_windowRowOfBytes_overflow (cs : List (List Nat)) (h : ∀ c ∈ cs, isDoubleText c = true)
    (hn : 2 ^ 64 ≤ cs.length) : parseWindow (windowRowOfBytes cs) = none := by
  unfold parseWindow
  rw [windowRowOfBytes_head]
  simp only [Bool.not_true, Bool.false_eq_true, if_false]
  rw [windowRowOfBytes, tokens_spaced _ cs (natBytes_isTok _) fun c hc => isTok_of_isDoubleText (h c hc)]
  simp only [leadingNat_natBytes_overflow _ hn]

/-- **Window read-back.** "Loading yields the window coefficients written in the file": the coefficient strings of a
    row are returned as written.  The only condition on a coefficient is the one the reader itself imposes (it is the
    text of a double); that it is ASCII, non-empty and free of separators follows (`isDoubleText_bytes`). -/
theorem parseWindow_windowRowBytes (cs : List String) (h : ∀ c ∈ cs, isDoubleText (bytesOf c) = true)
    (hn : cs.length < 2 ^ 64) : parseWindow (windowRowBytes cs) = some cs := by
  rw [windowRowBytes, parseWindow_windowRowOfBytes]
  · rw [List.map_map]
    congr 1
    conv_rhs => rw [← List.map_id cs]
    apply List.map_congr_left
    intro c hc
    exact strOf_bytesOf_of_bytes c fun y hy => ((isDoubleText_bytes _ (h c hc)).2 y hy).1
  · intro b hb
    obtain ⟨c, hc, rfl⟩ := List.mem_map.1 hb
    exact h c hc
  · simpa using hn

/-- Non-vacuity: the delta window of the shipped voices, and the static one. -/
example : windowRowBytes ["-0.5", "0.0", "0.5"] = bytesOf "3 -0.5 0.0 0.5" := by decide +kernel
example : parseWindow (bytesOf "3 -0.5 0.0 0.5") = some ["-0.5", "0.0", "0.5"] := by decide +kernel
example : parseWindow (windowRowBytes ["1.0"]) = some ["1.0"] :=
  parseWindow_windowRowBytes _ (by decide +kernel) (by decide)
example : parseWindow (windowRowBytes []) = some [] := parseWindow_windowRowBytes _ (by simp) (by decide)

/-- The hypothesis is the reader's own check: a coefficient that is not the text of a double is refused. -/
example : parseWindow (windowRowBytes ["1.0", "x"]) = none := by decide +kernel

end Jb.Hts
