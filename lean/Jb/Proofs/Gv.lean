/-
  `conv_gv` restores exactly the target variance on the eligible frames and keeps their mean
  (`Jb/Model/Mlpg.lean`: `calcGv`, `convGv`).
-/
import Jb.Model.Mlpg
import Jb.Proofs.Weights
import Jb.Proofs.Mask
import Mathlib.Algebra.Order.Field.Basic
import Mathlib.Tactic.Linarith
import Mathlib.Tactic.Ring
import Mathlib.Tactic.FieldSimp

set_option linter.unusedSectionVars false

namespace Jb

variable {K : Type} [Field K] [LinearOrder K] [IsStrictOrderedRing K] [Transc K] [Consts K] [MlpgConsts K]

/-! ### helpers -/

/-- the per-frame map of `conv_gv` with the ratio and mean made explicit -/
def gvF (r m : K) (x : K × Bool) : K := if x.2 then r * (x.1 - m) + m else x.1

/-- `conv_gv` as an explicit case split on the sign of the current variance -/
theorem convGv_def (par : List K) (sw : List Bool) (gvLen : Nat) (gm : K) :
    convGv par sw gvLen gm =
      if ¬ (0 < (calcGv par sw gvLen).2) then par
      else (par.zip sw).map
        (gvF (Transc.sqrt (gm / (calcGv par sw gvLen).2)) (calcGv par sw gvLen).1) := by
  unfold convGv
  split
  next mean vari heq =>
    rw [heq]
    simp only
    split
    · rfl
    · apply List.map_congr_left
      rintro ⟨p, s⟩ _
      rfl

/-- a trajectory whose eligible frames have no (positive) variance is left alone -/
theorem convGv_of_not_pos (par : List K) (sw : List Bool) (gvLen : Nat) (gm : K)
    (h : ¬ (0 < (calcGv par sw gvLen).2)) : convGv par sw gvLen gm = par := by
  rw [convGv_def, if_pos h]

theorem convGv_eq (par : List K) (sw : List Bool) (gvLen : Nat) (gm : K)
    (h : 0 < (calcGv par sw gvLen).2) :
    convGv par sw gvLen gm =
      (par.zip sw).map (gvF (Transc.sqrt (gm / (calcGv par sw gvLen).2)) (calcGv par sw gvLen).1) := by
  rw [convGv_def, if_neg (not_not.mpr h)]

theorem calcGv_fst (par : List K) (sw : List Bool) (n : Nat) :
    (calcGv par sw n).1 = (filterBy par sw).sum / (n : K) := by
  simp only [calcGv, sumS_eq_sum]

theorem calcGv_snd (par : List K) (sw : List Bool) (n : Nat) :
    (calcGv par sw n).2 =
      ((filterBy par sw).map fun p =>
        (p - (calcGv par sw n).1) * (p - (calcGv par sw n).1)).sum / (n : K) := by
  simp only [calcGv, sumS_eq_sum]

/-- filtering the output of `conv_gv` by the switch gives the affine image of the eligible frames -/
theorem filterBy_map_gvF (r m : K) (par : List K) (sw : List Bool) :
    filterBy ((par.zip sw).map (gvF r m)) sw = (filterBy par sw).map fun p => r * (p - m) + m := by
  induction par generalizing sw with
  | nil => simp [filterBy]
  | cons p ps ih =>
    cases sw with
    | nil => simp [filterBy]
    | cons b bs =>
      cases b with
      | true =>
        simp only [List.zip_cons_cons, List.map_cons, filterBy_cons_true, ih bs]
        simp [gvF]
      | false =>
        simp only [List.zip_cons_cons, List.map_cons, filterBy_cons_false, ih bs]

theorem sum_map_affine (r m : K) (l : List K) :
    (l.map fun p => r * (p - m) + m).sum = r * (l.sum - (l.length : K) * m) + (l.length : K) * m := by
  induction l with
  | nil => simp
  | cons a l ih =>
    simp only [List.map_cons, List.sum_cons, List.length_cons, ih]
    push_cast
    ring

theorem sum_map_sq_affine (r m : K) (l : List K) :
    ((l.map fun p => r * (p - m) + m).map fun q => (q - m) * (q - m)).sum =
      r * r * (l.map fun p => (p - m) * (p - m)).sum := by
  induction l with
  | nil => simp
  | cons a l ih =>
    simp only [List.map_cons, List.sum_cons, ih]
    ring

/-! ### the claimed statements -/

/-- ineligible frames are untouched by `conv_gv` -/
theorem convGv_ineligible (par : List K) (sw : List Bool) (gvLen : Nat) (gm : K) (i : Nat)
    (hlen : par.length = sw.length) (hi : sw[i]? = some false) :
    (convGv par sw gvLen gm)[i]? = par[i]? := by
  by_cases hpos : 0 < (calcGv par sw gvLen).2
  swap
  · rw [convGv_of_not_pos _ _ _ _ hpos]
  rw [convGv_eq _ _ _ _ hpos, List.getElem?_map]
  have hisw : i < sw.length := by
    rcases Nat.lt_or_ge i sw.length with h | h
    · exact h
    · rw [List.getElem?_eq_none h] at hi; cases hi
  have hip : i < par.length := by omega
  have hz : (par.zip sw)[i]? = some (par[i], false) := by
    rw [List.getElem?_zip_eq_some]
    exact ⟨List.getElem?_eq_getElem hip, hi⟩
  rw [hz, List.getElem?_eq_getElem hip]
  simp [gvF]

theorem convGv_length' (par : List K) (sw : List Bool) (gvLen : Nat) (gm : K) (hlen : par.length = sw.length) :
    (convGv par sw gvLen gm).length = par.length := by
  by_cases hpos : 0 < (calcGv par sw gvLen).2
  · rw [convGv_eq _ _ _ _ hpos, List.length_map, List.length_zip, ← hlen, Nat.min_self]
  · rw [convGv_of_not_pos _ _ _ _ hpos]

/-- **`conv_gv` hits the target.** With at least one eligible frame, a positive current variance `v`,
    `0 ≤ target / v`, and a square root that squares back on non-negatives, after `conv_gv` the mean
    over the eligible frames is unchanged and their variance is exactly the target. -/
theorem convGv_variance (par : List K) (sw : List Bool) (gm : K)
    (hlen : par.length = sw.length) (hpos : 0 < (sw.filter id).length)
    (hsqrt : ∀ x : K, 0 ≤ x → Transc.sqrt x * Transc.sqrt x = x)
    (hv : 0 < (calcGv par sw (sw.filter id).length).2)
    (hr : 0 ≤ gm / (calcGv par sw (sw.filter id).length).2) :
    calcGv (convGv par sw (sw.filter id).length gm) sw (sw.filter id).length =
      ((calcGv par sw (sw.filter id).length).1, gm) := by
  have hel : (filterBy par sw).length = (sw.filter id).length := filterBy_length par sw hlen
  generalize (sw.filter id).length = N at *
  have hNK : (N : K) ≠ 0 := by
    have : (0 : K) < (N : K) := Nat.cast_pos.mpr hpos
    exact ne_of_gt this
  have hrr := hsqrt _ hr
  have hvr := calcGv_snd par sw N
  have hm := calcGv_fst par sw N
  have hfb := filterBy_map_gvF (Transc.sqrt (gm / (calcGv par sw N).2)) (calcGv par sw N).1 par sw
  rw [← convGv_eq _ _ _ _ hv] at hfb
  replace hv := ne_of_gt hv
  generalize Transc.sqrt (gm / (calcGv par sw N).2) = r at *
  generalize (calcGv par sw N).2 = vr at *
  generalize (calcGv par sw N).1 = m at *
  have hmsum : (filterBy par sw).sum = (N : K) * m := by
    rw [hm]; field_simp
  have hmean : (calcGv (convGv par sw N gm) sw N).1 = m := by
    rw [calcGv_fst, hfb, sum_map_affine, hel, hmsum]
    field_simp
    ring
  apply Prod.ext
  · exact hmean
  · show (calcGv (convGv par sw N gm) sw N).2 = gm
    rw [calcGv_snd, hmean, hfb, sum_map_sq_affine, mul_div_assoc, ← hvr, hrr]
    field_simp

end Jb
