/-
  Signals and the warped basis, shared by the transfer-function theorems of C06 / C13
  (`Jb/Proofs/PadeDf1.lean`, `PadeDf2.lean`, `WarpFir.lean`, `WarpBasis.lean`, `MglsaWarp.lean`).

  A signal is a finite `List K` (sample 0 first); every operator below starts from rest (all delays zero),
  is causal and keeps the length.  In z-transform terms, with `α = alpha`:

      delay1      z⁻¹
      onePoleRun  (1 − α²) / (1 − α z⁻¹)
      allpassRun  (z⁻¹ − α) / (1 − α z⁻¹)                      =: z̃⁻¹  (the first-order all-pass of the warping)
      warpChain k (1 − α²)/(1 − α z⁻¹) · z̃^{-(k−1)}             (k ≥ 1; the k-th cell of the delay line of `fir`)
      warpBasis k (1 − α²) z⁻¹/(1 − α z⁻¹) · z̃^{-(k−1)}  = Φ_k(z) (k ≥ 1; the basis of the MLSA/MGLSA filters)

  The run-forms of the filter stages (`df1Run`, `df2Run`, `firRun`, `dffRun`) iterate the model's own one-sample
  functions (`mlsaDf1`, `mlsaDf2`, `fir`, `mglsaDff` of `Jb/Model/Vocoder.lean`) over a signal.
-/
import Jb.Proofs.Lti

set_option linter.unusedSectionVars false

namespace Jb

variable {K : Type} [Field K] [LinearOrder K] [IsStrictOrderedRing K] [Transc K] [Consts K]

/-- one-sample delay from rest: `[0, u₀, …, u_{n−2}]` -/
def delay1 (us : List K) : List K := (0 :: us).take us.length

/-- `w[n] = (1 − α²)·u[n] + α·w[n−1]`, started with `w[−1] = w` -/
def onePoleFrom (alpha : K) : K → List K → List K
  | _, [] => []
  | w, u :: us =>
    let w' := (1 - alpha * alpha) * u + alpha * w
    w' :: onePoleFrom alpha w' us

def onePoleRun (alpha : K) (us : List K) : List K := onePoleFrom alpha 0 us

/-- `y[n] = u[n−1] − α·u[n] + α·y[n−1]`, started with `u[−1] = up`, `y[−1] = yp` -/
def allpassFrom (alpha : K) : K → K → List K → List K
  | _, _, [] => []
  | up, yp, u :: us =>
    let y := up - alpha * u + alpha * yp
    y :: allpassFrom alpha u y us

def allpassRun (alpha : K) (us : List K) : List K := allpassFrom alpha 0 0 us

/-- cell `k ≥ 1` of the warped delay line fed with `us` (cell 0 is the input itself) -/
def warpChain (alpha : K) (us : List K) : Nat → List K
  | 0 => us
  | 1 => onePoleRun alpha us
  | k + 2 => allpassRun alpha (warpChain alpha us (k + 1))

/-- `Φ_k` applied to `us` (`k ≥ 1`): the delay line fed with the delayed signal -/
def warpBasis (alpha : K) (us : List K) (k : Nat) : List K := warpChain alpha (delay1 us) k

/-- `F^i` -/
def opPow (F : List K → List K) : Nat → List K → List K
  | 0, u => u
  | i + 1, u => F (opPow F i u)

/-- iterate the all-pass: `z̃^{-m}` -/
def allpassPow (alpha : K) (m : Nat) (us : List K) : List K := opPow (allpassRun alpha) m us

/-! ### run-forms of the model's one-sample functions -/

def df1Run (alpha : K) (c : List K) : MlsaSt K → List K → List K
  | _, [] => []
  | st, x :: xs => let r := mlsaDf1 st x alpha c; r.1 :: df1Run alpha c r.2 xs

def df2Run (alpha : K) (c : List K) : MlsaSt K → List K → List K
  | _, [] => []
  | st, x :: xs => let r := mlsaDf2 st x alpha c; r.1 :: df2Run alpha c r.2 xs

/-- the warped FIR `Df2::fir` over a signal, delay line `d` -/
def firRun (alpha : K) (c : List K) : List K → List K → List K
  | _, [] => []
  | d, x :: xs => let r := fir d x alpha c; r.1 :: firRun alpha c r.2 xs

/-- one MGLSA section over a signal, delay line `d` -/
def dffRun (alpha : K) (c : List K) : List K → List K → List K
  | _, [] => []
  | d, x :: xs => let r := mglsaDff d x alpha c; r.1 :: dffRun alpha c r.2 xs

/-- the basic filter of `df1`: `F₁(z) = c₁ · Φ₁(z)` -/
def basic1 (alpha : K) (c : List K) (us : List K) : List K :=
  (warpBasis alpha us 1).map (c.getD 1 0 * ·)

/-- the basic filter of `df2`: `F₂(z) = Σ_{k≥2} c_k Φ_k(z)`, realised by the code's own `fir` on the delayed signal -/
def basic2 (alpha : K) (c : List K) (nmcp : Nat) (us : List K) : List K :=
  firRun alpha c (List.replicate nmcp 0) (delay1 us)

/-- `Σ_{i ≤ 5} s^i · p_i · (F^i u)[n]` with `p` the Padé coefficients of the code (`s = 1`: numerator `P(F)`,
    `s = −1`: denominator `P(−F)`) -/
def padeApply (s : K) (F : List K → List K) (us : List K) (n : Nat) : K :=
  (Finset.range 6).sum fun i => s ^ i * (padeCoef : List K).getD i 0 * (opPow F i us).getD n 0

end Jb
