/-
  Frame / non-interference lemmas for `Jb/Model/Sys.lean` and setter histories.
-/
import Jb.Model.Sys
import Mathlib.Algebra.Order.Field.Basic
import Mathlib.Tactic.Linarith

set_option linter.unusedSectionVars false

namespace Jb

/-- **Schedule irrelevance.** Whatever the interleaving, caller `i` produces exactly the outputs it
    produces running alone for as many steps as it was scheduled, and ends in the same local state. -/
theorem interleave_proj {E S O : Type} (step : E → S → S × O) (env : E) (sts : List S) (sched : List Nat)
    (i : Nat) (s : S) (hs : sts[i]? = some s) :
    ((interleave step env sts sched).2.filter (fun p => p.1 == i)).map (·.2) =
      (runAlone step env s (sched.count i)).2 ∧
    (interleave step env sts sched).1[i]? = some (runAlone step env s (sched.count i)).1 := by
  induction sched generalizing sts s with
  | nil => simp [interleave, runAlone, hs]
  | cons j rest ih =>
    by_cases hji : j = i
    · subst hji
      have hlt : j < sts.length := (List.getElem?_eq_some_iff.mp hs).1
      have h := ih (sts.set j (step env s).1) (step env s).1 (by simp [hlt])
      simp only [interleave, hs, List.count_cons_self, runAlone, List.filter_cons, beq_self_eq_true,
        if_true, List.map_cons]
      exact ⟨by rw [h.1], h.2⟩
    · have hcnt : (j :: rest).count i = rest.count i := List.count_cons_of_ne hji
      have hbeq : (j == i) = false := by simpa using hji
      cases hj : sts[j]? with
      | none =>
        simp only [interleave, hj, hcnt]
        exact ih sts s hs
      | some sj =>
        have h := ih (sts.set j (step env sj).1) s (by rw [List.getElem?_set_ne hji]; exact hs)
        simp only [interleave, hj, hcnt, List.filter_cons, hbeq]
        exact h

/-- the number of local states never changes -/
theorem interleave_length {E S O : Type} (step : E → S → S × O) (env : E) (sts : List S) (sched : List Nat) :
    (interleave step env sts sched).1.length = sts.length := by
  induction sched generalizing sts with
  | nil => simp [interleave]
  | cons j rest ih =>
    cases hj : sts[j]? with
    | none => simp only [interleave, hj]; exact ih sts
    | some sj =>
      simp only [interleave, hj]
      rw [ih, List.length_set]

variable {K : Type} [Field K] [LinearOrder K] [IsStrictOrderedRing K] [Transc K] [Consts K]

/-- one step of `applyHistory` -/
def stepC (c : Condition K) (op : CondOp K) : Condition K :=
  match CondOp.apply c op with | .ok c' => c' | _ => c

theorem applyHistory_eq_foldl (c : Condition K) (ops : List (CondOp K)) :
    applyHistory c ops = ops.foldl stepC c := rfl

theorem stepC_msd (c : Condition K) (i : Nat) (f : K) :
    stepC c (.msd i f) =
      if i < c.msdThreshold.length then
        { c with msdThreshold := c.msdThreshold.set i (clampS f 0 1) } else c := by
  by_cases h : i < c.msdThreshold.length <;>
    simp [stepC, CondOp.apply, Condition.setMsdThreshold, h]

theorem stepC_gv (c : Condition K) (i : Nat) (f : K) :
    stepC c (.gv i f) =
      if i < c.gvWeight.length then
        { c with gvWeight := c.gvWeight.set i (maxS f 0) } else c := by
  by_cases h : i < c.gvWeight.length <;>
    simp [stepC, CondOp.apply, Condition.setGvWeight, h]

theorem stepC_sf (c : Condition K) (i : Nat) :
    stepC c (.sf i) = { c with samplingFrequency := max i 1 } := rfl
theorem stepC_fp (c : Condition K) (i : Nat) :
    stepC c (.fp i) = { c with fperiod := max i 1 } := rfl
theorem stepC_vol (c : Condition K) (f : K) :
    stepC c (.vol f) = { c with volume := Transc.exp (f * Consts.db) } := rfl
theorem stepC_speed (c : Condition K) (f : K) :
    stepC c (.speed f) = { c with speed := maxS f speedMin } := rfl
theorem stepC_align (c : Condition K) (b : Bool) :
    stepC c (.align b) = { c with alignment := b } := rfl
theorem stepC_alpha (c : Condition K) (f : K) :
    stepC c (.alpha f) = { c with alpha := clampS f 0 1 } := rfl
theorem stepC_beta (c : Condition K) (f : K) :
    stepC c (.beta f) = { c with beta := clampS f 0 1 } := rfl
theorem stepC_ht (c : Condition K) (f : K) :
    stepC c (.ht f) = { c with halfTone := f } := rfl

theorem stepC_overwrite (c : Condition K) (a b : CondOp K) (h : a.key = b.key) :
    stepC (stepC c a) b = stepC c b := by
  cases a <;> cases b <;> simp only [CondOp.key, Prod.mk.injEq] at h <;>
    first
    | (exfalso; omega)
    | rfl
    | skip
  · obtain ⟨-, rfl⟩ := h
    simp only [stepC_msd]
    split_ifs <;> simp_all [List.length_set]
  · obtain ⟨-, rfl⟩ := h
    simp only [stepC_gv]
    split_ifs <;> simp_all [List.length_set]

theorem stepC_comm (c : Condition K) (a b : CondOp K) (h : a.key ≠ b.key) :
    stepC (stepC c a) b = stepC (stepC c b) a := by
  cases a <;> cases b <;> simp only [CondOp.key, ne_eq, Prod.mk.injEq, not_true_eq_false] at h <;>
    first
    | rfl
    | (simp only [stepC_msd, stepC_gv, stepC_sf, stepC_fp, stepC_vol, stepC_speed, stepC_align,
        stepC_alpha, stepC_beta, stepC_ht]; split_ifs <;> rfl)
    | skip
  · rename_i i x j y
    have hne : i ≠ j := fun e => h ⟨trivial, e⟩
    by_cases h1 : i < c.msdThreshold.length <;> by_cases h2 : j < c.msdThreshold.length <;>
      simp [stepC_msd, h1, h2, List.length_set]
    exact List.set_comm _ _ hne
  · rename_i i x j y
    have hne : i ≠ j := fun e => h ⟨trivial, e⟩
    by_cases h1 : i < c.gvWeight.length <;> by_cases h2 : j < c.gvWeight.length <;>
      simp [stepC_gv, h1, h2, List.length_set]
    exact List.set_comm _ _ hne

theorem stepC_absorb (a : CondOp K) (rest : List (CondOp K)) (c : Condition K)
    (h : rest.any (fun o => o.key == a.key) = true) :
    rest.foldl stepC (stepC c a) = rest.foldl stepC c := by
  induction rest generalizing c with
  | nil => simp at h
  | cons b rest ih =>
    simp only [List.foldl_cons]
    by_cases hk : b.key = a.key
    · rw [stepC_overwrite c a b hk.symm]
    · have h' : rest.any (fun o => o.key == a.key) = true := by
        simpa [hk] using h
      rw [stepC_comm c a b (fun e => hk e.symm)]
      exact ih _ h'

/-- **Only the last call on each setting matters.** A setter history has the same effect as the
    history consisting of just the last call on every setting. -/
theorem applyHistory_lastCalls (c : Condition K) (ops : List (CondOp K)) :
    applyHistory c ops = applyHistory c (lastCalls ops) := by
  simp only [applyHistory_eq_foldl]
  induction ops generalizing c with
  | nil => rfl
  | cons op rest ih =>
    unfold lastCalls
    split_ifs with h
    · rw [List.foldl_cons, stepC_absorb op rest c h]
      exact ih c
    · rw [List.foldl_cons, List.foldl_cons]
      exact ih _

/-- calls on different settings commute -/
theorem applyHistory_swap (c : Condition K) (a b : CondOp K) (h : a.key ≠ b.key) :
    applyHistory c [a, b] = applyHistory c [b, a] := by
  simp only [applyHistory_eq_foldl, List.foldl_cons, List.foldl_nil]
  exact stepC_comm c a b h

end Jb
