/-
  C13, the magnitude formula `K / A(z̃)^stage` as an identity of the code's arithmetic for EVERY `alpha`
  (the case `alpha = 0` is `Jb/Proofs/AllPole.lean`).  With `mgc = lsp2mgc v` (which does not depend on `alpha`),
  `b = mc2b alpha mgc` and `c = lspCoefficients … alpha v = [ (1+γ b₀)^{1/γ}, γ b₁/(1+γ b₀), …, γ b_M/(1+γ b₀) ]`:

    * `section_mgc`:  one section run with `c` satisfies   (1 + γ b₀)·x = y + γ · Σ_{m=0}^{M} mgc_m · z̃^{-m} y,
      i.e. its transfer function is `(1 + γ b₀) / (1 + γ·MGC(z̃))`   (`dffRun_warp` + `warp_basis_identity_mc2b`);
    * `section_lpc`:  with the `alpha = 0` collapse (`γ·mgc_m/(1+γ·mgc₀) = a_m`, `a = lspRefPoly lsp = ½(P+Q)`):
      (1 + γ b₀)·x = (1 + γ mgc₀) · Σ_{m=0}^{M} a_m · z̃^{-m} y,   i.e. the section is `κ / A(z̃)`, `κ = (1+γ b₀)/(1+γ mgc₀)`;
    * `gain_relation`: the gain coefficient `c[0] = (1+γ b₀)^{1/γ}` and `K = (1+γ mgc₀)^{1/γ}` satisfy, when `x^{1/γ}·x^stage = 1`
      (which is `γ = −1/stage` for a real power function), `c[0]·κ^stage = K`: the cascade of `stage` sections, fed with
      the excitation times `c[0]`, is `K / A(z̃)^stage`.
-/
import Jb.Proofs.Signal
import Jb.Proofs.AllPole
import Jb.Proofs.MglsaWarp
import Jb.Proofs.WarpBasis
import Mathlib.Tactic.LinearCombination

set_option linter.unusedSectionVars false

namespace Jb

variable {K : Type} [Field K] [LinearOrder K] [IsStrictOrderedRing K] [Transc K] [Consts K]

/-- `Σ_{m < n} a_m · (z̃^{-m} y)[t]` -/
def warpPoly (alpha : K) (a : List K) (ys : List K) (t : Nat) : K :=
  (Finset.range a.length).sum fun m => a.getD m 0 * (allpassPow alpha m ys).getD t 0

/-! ### lengths along the coefficient chain -/

theorem foldl_length_succ {β : Type} (step : List K → β → List K)
    (h : ∀ c i, (step c i).length = c.length + 1) (l : List β) (init : List K) :
    (l.foldl step init).length = init.length + l.length := by
  induction l generalizing init with
  | nil => simp
  | cons i l ih =>
    rw [List.foldl_cons, ih, h, List.length_cons]
    omega

theorem gc2gc_length (c1 : List K) (g1 : K) (m2 : Nat) (g2 : K) : (gc2gc c1 g1 m2 g2).length = m2 + 1 := by
  unfold gc2gc
  rw [foldl_length_succ]
  · simp [Nat.add_comm]
  · intro c i
    simp

theorem ignorm_length (gamma : K) (c : List K) : (ignorm gamma c).length = c.length := by
  cases c with
  | nil => rfl
  | cons c0 rest =>
    simp only [ignorm]
    split <;> simp

theorem lsp2mgc_length (fx : Fix) (useLogGain : Bool) (stage : Nat) (gamma : K) (v : List K) :
    (lsp2mgc fx useLogGain stage gamma v).length = v.length - 1 + 1 := by
  unfold lsp2mgc mgc2mgcSameAlpha
  simp only [ignorm_length, gc2gc_length]

theorem getD_map_zero (f : K → K) (hf : f 0 = 0) (l : List K) (i : Nat) :
    (l.map f).getD i 0 = f (l.getD i 0) := by
  induction l generalizing i with
  | nil => simp [hf]
  | cons a l ih =>
    cases i with
    | zero => simp
    | succ i => simpa using ih i

theorem getD_succ_tail (l : List K) (j : Nat) : l.getD (j + 1) 0 = l.tail.getD j 0 := by
  cases l with
  | nil => simp
  | cons a l => simp

/-- the coefficient list in terms of `b = mc2b alpha mgc = b0 :: rest` -/
theorem lspCoefficients_of_cons (fx : Fix) (useLogGain : Bool) (stage : Nat) (gamma alpha : K) (hg : gamma ≠ 0)
    (v : List K) (b0 : K) (rest : List K)
    (hb : mc2b alpha (lsp2mgc fx useLogGain stage gamma v) = b0 :: rest) :
    lspCoefficients fx useLogGain stage gamma alpha v =
      Transc.pow (1 + gamma * b0) (1 / gamma) :: rest.map fun x => x / (1 + gamma * b0) * gamma := by
  have hz : isZeroS gamma = false := by
    rw [Bool.eq_false_iff]; intro h; exact hg ((isZeroS_iff gamma).1 h)
  unfold lspCoefficients
  rw [hb]
  simp only [gnorm, hz, Bool.not_false, if_true, List.map_map]
  rfl

theorem mc2b_exists_cons (alpha : K) (mgc : List K) (h : 1 ≤ mgc.length) :
    ∃ b0 rest, mc2b alpha mgc = b0 :: rest := by
  have hl := mc2b_length alpha mgc
  cases hb : mc2b alpha mgc with
  | nil => rw [hb] at hl; simp at hl; omega
  | cons a l => exact ⟨a, l, rfl⟩

/-- the section identity for an abstract generalized cepstrum `mgc` -/
theorem section_mgc_aux (gamma alpha : K) (mgc : List K) (hm : 2 ≤ mgc.length) (b0 : K) (rest : List K)
    (hb : mc2b alpha mgc = b0 :: rest) (hb0 : 1 + gamma * b0 ≠ 0) (P : K) (c : List K)
    (hc : c = P :: rest.map fun x => x / (1 + gamma * b0) * gamma)
    (xs : List K) (t : Nat) (ht : t < xs.length) :
    (1 + gamma * b0) * xs.getD t 0 =
      (dffRun alpha c (List.replicate c.length 0) xs).getD t 0 +
        gamma * warpPoly alpha mgc (dffRun alpha c (List.replicate c.length 0) xs) t := by
  have hbl := mc2b_length alpha mgc
  rw [hb, List.length_cons] at hbl
  have hclen : c.length = mgc.length := by rw [hc]; simp; omega
  have h1 := dffRun_warp alpha c (by omega) xs t ht
  have h2 := warp_basis_identity_mc2b alpha mgc (dffRun alpha c (List.replicate c.length 0) xs) t
    (by rw [dffRun_length]; exact ht)
  rw [hb, List.getD_cons_zero] at h2
  generalize dffRun alpha c (List.replicate c.length 0) xs = ys at h1 h2 ⊢
  have hS : (1 + gamma * b0) * ((Finset.Ico 1 c.length).sum fun k => c.getD k 0 * (warpBasis alpha ys k).getD t 0) =
      gamma * (Finset.Ico 1 mgc.length).sum fun m => (b0 :: rest).getD m 0 * (warpBasis alpha ys m).getD t 0 := by
    rw [hclen, Finset.mul_sum, Finset.mul_sum]
    apply Finset.sum_congr rfl
    intro k hk
    have hk1 : 1 ≤ k := (Finset.mem_Ico.1 hk).1
    obtain ⟨j, rfl⟩ : ∃ j, k = j + 1 := ⟨k - 1, by omega⟩
    rw [hc, List.getD_cons_succ, List.getD_cons_succ,
      getD_map_zero (fun x => x / (1 + gamma * b0) * gamma) (by simp)]
    field_simp
  unfold warpPoly
  linear_combination (1 + gamma * b0) * h1 + hS + gamma * h2

/-- **one section, in terms of the generalized cepstrum** (any `gamma ≠ 0`, any `alpha`; `v` has at least the gain and
    one frequency) -/
theorem section_mgc (fx : Fix) (useLogGain : Bool) (stage : Nat) (gamma alpha : K) (hg : gamma ≠ 0) (v : List K)
    (hv : 2 ≤ v.length)
    (hb0 : 1 + gamma * (mc2b alpha (lsp2mgc fx useLogGain stage gamma v)).getD 0 0 ≠ 0)
    (xs : List K) (t : Nat) (ht : t < xs.length) :
    let c := lspCoefficients fx useLogGain stage gamma alpha v
    let ys := dffRun alpha c (List.replicate c.length 0) xs
    (1 + gamma * (mc2b alpha (lsp2mgc fx useLogGain stage gamma v)).getD 0 0) * xs.getD t 0 =
      ys.getD t 0 + gamma * warpPoly alpha (lsp2mgc fx useLogGain stage gamma v) ys t := by
  intro c ys
  have hlen : (lsp2mgc fx useLogGain stage gamma v).length = v.length := by rw [lsp2mgc_length]; omega
  obtain ⟨b0, rest, hb⟩ := mc2b_exists_cons alpha (lsp2mgc fx useLogGain stage gamma v) (by omega)
  have hc : c = _ := lspCoefficients_of_cons fx useLogGain stage gamma alpha hg v b0 rest hb
  rw [hb, List.getD_cons_zero] at hb0 ⊢
  exact section_mgc_aux gamma alpha _ (by omega) b0 rest hb hb0 _ c hc xs t ht

/-! ### the `alpha = 0` collapse, read on `mgc` -/

theorem lsp2lpc_getD_zero (fx : Fix) (v : List K) : (lsp2lpc fx v).getD 0 0 = 1 := by
  unfold lsp2lpc
  simp only [List.getD_cons_zero]

theorem lspRefPoly_length (lsp : List K) : (lspRefPoly lsp).length = lsp.length + 1 := by
  simp [lspRefPoly]

/-- the head of the chain after `lsp2lpc`, for an abstract gain `G` -/
theorem lsp_chain_head (γ s G : K) (hγ : γ ≠ 0) (a : List K)
    (hpow : Transc.pow (Transc.pow G γ) (1 / γ) = G) :
    ∃ T, mgc2mgcSameAlpha
        (match ignorm γ (G :: a) with
          | [] => []
          | h :: t => h :: t.map fun x => x * -s) γ a.length γ = (Transc.pow G γ - 1) / γ :: T := by
  have hz : isZeroS γ = false := by
    rw [Bool.eq_false_iff]; intro h; exact hγ ((isZeroS_iff γ).1 h)
  have e1 : ∀ (G' : K) (l : List K), ignorm γ (G' :: l) =
      (Transc.pow G' γ - 1) / γ :: l.map fun x => x * Transc.pow G' γ := by
    intro G' l; simp [ignorm, hz]
  have hk : 1 + γ * ((Transc.pow G γ - 1) / γ) = Transc.pow G γ := by
    field_simp; ring
  have e2 : ∀ l : List K, gnorm γ ((Transc.pow G γ - 1) / γ :: l) =
      G :: l.map fun x => x / Transc.pow G γ := by
    intro l
    simp only [gnorm, hz, Bool.not_false, if_true]
    rw [hk, hpow]
  rw [e1]
  simp only
  unfold mgc2mgcSameAlpha
  rw [e2, gc2gc_same_gamma _ _ _ (by simp), List.take_of_length_le (by simp), e1]
  exact ⟨_, rfl⟩

theorem lsp2mgc_head (b useLogGain : Bool) (stage : Nat) (hs : stage ≠ 0) (g : K) (lsp : List K)
    (hpow : Transc.pow (Transc.pow (lspGain useLogGain g) (-1 / (stage : K))) (1 / (-1 / (stage : K))) = lspGain useLogGain g)
    :
    ∃ T, lsp2mgc ⟨b, true⟩ useLogGain stage (-1 / (stage : K)) (g :: lsp) =
      (Transc.pow (lspGain useLogGain g) (-1 / (stage : K)) - 1) / (-1 / (stage : K)) :: T := by
  obtain ⟨h, a, hha, hlen⟩ := lsp2lpc_shape b g lsp
  have hs' : (stage : K) ≠ 0 := Nat.cast_ne_zero.2 hs
  have hγ : (-1 / (stage : K)) ≠ 0 := div_ne_zero (by simp) hs'
  obtain ⟨T, key⟩ := lsp_chain_head (-1 / (stage : K)) (stage : K) (lspGain useLogGain g) hγ a hpow
  refine ⟨T, ?_⟩
  rw [← key]
  simp only [lsp2mgc, hha, List.set_cons_zero, List.getD_cons_zero, List.length_cons,
    Nat.add_sub_cancel, hlen, lspGain]
  rfl

/-- the algebra of the collapse: `w₀ + γ Σ mgc_m w_m = (1 + γ mgc₀) Σ a_m w_m` -/
theorem lpc_sum_aux (γ : K) (mgc a : List K) (w : Nat → K) (hlen : a.length = mgc.length) (hpos : 1 ≤ mgc.length)
    (ha0 : a.getD 0 0 = 1)
    (hrel : ∀ m, 1 ≤ m → m < mgc.length → γ * mgc.getD m 0 = (1 + γ * mgc.getD 0 0) * a.getD m 0) :
    w 0 + γ * (Finset.range mgc.length).sum (fun m => mgc.getD m 0 * w m) =
      (1 + γ * mgc.getD 0 0) * (Finset.range a.length).sum (fun m => a.getD m 0 * w m) := by
  rw [hlen]
  obtain ⟨n, hn⟩ : ∃ n, mgc.length = n + 1 := ⟨mgc.length - 1, by omega⟩
  rw [hn, Finset.sum_range_succ', Finset.sum_range_succ', ha0, mul_add, mul_add, Finset.mul_sum, Finset.mul_sum]
  have hterm : ∀ i ∈ Finset.range n, γ * (mgc.getD (i + 1) 0 * w (i + 1)) =
      (1 + γ * mgc.getD 0 0) * (a.getD (i + 1) 0 * w (i + 1)) := by
    intro i hi
    have hi' : i < n := Finset.mem_range.1 hi
    rw [← mul_assoc, hrel (i + 1) (by omega) (by omega)]
    ring
  rw [Finset.sum_congr rfl hterm]
  ring

/-- **one section, in terms of the LPC polynomial `A = ½(P+Q)`** (`gamma = −1/stage`; the `pow` laws are those of
    `lspCoefficients_alpha0_poly`) -/
theorem section_lpc (b useLogGain : Bool) (stage : Nat) (hs : stage ≠ 0) (alpha g : K) (lsp : List K) (hl : 1 ≤ lsp.length)
    (hmin : 0 < (Consts.minGain : K))
    (hpow : Transc.pow (Transc.pow (lspGain useLogGain g) (-1 / (stage : K))) (1 / (-1 / (stage : K))) = lspGain useLogGain g)
    (hne : Transc.pow (lspGain useLogGain g) (-1 / (stage : K)) ≠ 0)
    (hb0 : 1 + (-1 / (stage : K)) *
        (mc2b alpha (lsp2mgc ⟨b, true⟩ useLogGain stage (-1 / (stage : K)) (g :: lsp))).getD 0 0 ≠ 0)
    (xs : List K) (t : Nat) (ht : t < xs.length) :
    let gamma : K := -1 / (stage : K)
    let mgc := lsp2mgc ⟨b, true⟩ useLogGain stage gamma (g :: lsp)
    let c := lspCoefficients ⟨b, true⟩ useLogGain stage gamma alpha (g :: lsp)
    let ys := dffRun alpha c (List.replicate c.length 0) xs
    (1 + gamma * (mc2b alpha mgc).getD 0 0) * xs.getD t 0 =
      (1 + gamma * mgc.getD 0 0) * warpPoly alpha (lspRefPoly lsp) ys t := by
  intro gamma mgc c ys
  have hs' : (stage : K) ≠ 0 := Nat.cast_ne_zero.2 hs
  have hγ : gamma ≠ 0 := div_ne_zero (by simp) hs'
  have hsec := section_mgc ⟨b, true⟩ useLogGain stage gamma alpha hγ (g :: lsp) (by simp; omega) hb0 xs t ht
  simp only at hsec
  rw [hsec]
  have hmlen : mgc.length = lsp.length + 1 := by
    show (lsp2mgc _ _ _ _ (g :: lsp)).length = _
    rw [lsp2mgc_length]; simp
  obtain ⟨T, hT⟩ := lsp2mgc_head b useLogGain stage hs g lsp hpow
  have hT' : mgc = (Transc.pow (lspGain useLogGain g) gamma - 1) / gamma :: T := hT
  have hk : 1 + gamma * mgc.getD 0 0 = Transc.pow (lspGain useLogGain g) gamma := by
    rw [hT', List.getD_cons_zero]; field_simp; ring
  have hk0 : 1 + gamma * mgc.getD 0 0 ≠ 0 := by rw [hk]; exact hne
  -- the `alpha = 0` coefficients, read two ways
  have hA := lspCoefficients_alpha0_poly b useLogGain stage hs g lsp hmin hpow hne
  have hB := lspCoefficients_of_cons ⟨b, true⟩ useLogGain stage gamma 0 hγ (g :: lsp) _ T
    (by rw [mc2b_zero]; exact hT)
  have htail : (lspRefPoly lsp).tail =
      T.map fun x => x / (1 + gamma * ((Transc.pow (lspGain useLogGain g) gamma - 1) / gamma)) * gamma := by
    have := hA.symm.trans hB
    exact (List.cons.inj this).2
  have hm0 : mgc.getD 0 0 = (Transc.pow (lspGain useLogGain g) gamma - 1) / gamma := by
    rw [hT', List.getD_cons_zero]
  rw [← hm0] at htail
  have ha0 : (lspRefPoly lsp).getD 0 0 = 1 := by
    rw [← lsp2lpc_poly b g lsp]; exact lsp2lpc_getD_zero _ _
  unfold warpPoly
  refine lpc_sum_aux gamma mgc (lspRefPoly lsp) (fun m => (allpassPow alpha m ys).getD t 0)
    (by rw [lspRefPoly_length, hmlen]) (by omega) ha0 ?_
  intro m hm1 hm
  obtain ⟨j, rfl⟩ : ∃ j, m = j + 1 := ⟨m - 1, by omega⟩
  rw [getD_succ_tail (lspRefPoly lsp), htail,
    getD_map_zero (fun x => x / (1 + gamma * mgc.getD 0 0) * gamma) (by simp)]
  have e : mgc.getD (j + 1) 0 = T.getD j 0 := by rw [hT', List.getD_cons_succ]
  rw [e]
  field_simp

-- `hb0` is not needed by the proof (`x / 0 = 0` conventions are never hit: only `hm0` is used); kept as stated
set_option linter.unusedVariables false in
/-- **the gains**: `c[0] = (1+γ b₀)^{1/γ}`, and under the power law `x^{1/γ}·x^stage = 1` at the two arguments used,
    `c[0] · ((1+γ b₀)/(1+γ mgc₀))^stage = (1+γ mgc₀)^{1/γ}` (which is `K` by the `alpha = 0` collapse). -/
theorem gain_relation (fx : Fix) (useLogGain : Bool) (stage : Nat) (gamma alpha : K) (hg : gamma ≠ 0) (v : List K)
    (hv : 1 ≤ v.length)
    (hb0 : 1 + gamma * (mc2b alpha (lsp2mgc fx useLogGain stage gamma v)).getD 0 0 ≠ 0)
    (hm0 : 1 + gamma * (lsp2mgc fx useLogGain stage gamma v).getD 0 0 ≠ 0)
    (hp1 : Transc.pow (1 + gamma * (mc2b alpha (lsp2mgc fx useLogGain stage gamma v)).getD 0 0) (1 / gamma) *
        (1 + gamma * (mc2b alpha (lsp2mgc fx useLogGain stage gamma v)).getD 0 0) ^ stage = 1)
    (hp2 : Transc.pow (1 + gamma * (lsp2mgc fx useLogGain stage gamma v).getD 0 0) (1 / gamma) *
        (1 + gamma * (lsp2mgc fx useLogGain stage gamma v).getD 0 0) ^ stage = 1) :
    (lspCoefficients fx useLogGain stage gamma alpha v).getD 0 0 =
        Transc.pow (1 + gamma * (mc2b alpha (lsp2mgc fx useLogGain stage gamma v)).getD 0 0) (1 / gamma) ∧
    (lspCoefficients fx useLogGain stage gamma alpha v).getD 0 0 *
        ((1 + gamma * (mc2b alpha (lsp2mgc fx useLogGain stage gamma v)).getD 0 0) /
          (1 + gamma * (lsp2mgc fx useLogGain stage gamma v).getD 0 0)) ^ stage =
      Transc.pow (1 + gamma * (lsp2mgc fx useLogGain stage gamma v).getD 0 0) (1 / gamma) := by
  have hlen : (lsp2mgc fx useLogGain stage gamma v).length = v.length := by rw [lsp2mgc_length]; omega
  obtain ⟨b0, rest, hb⟩ := mc2b_exists_cons alpha (lsp2mgc fx useLogGain stage gamma v) (by omega)
  have hc := lspCoefficients_of_cons fx useLogGain stage gamma alpha hg v b0 rest hb
  have h1 : (lspCoefficients fx useLogGain stage gamma alpha v).getD 0 0 =
      Transc.pow (1 + gamma * (mc2b alpha (lsp2mgc fx useLogGain stage gamma v)).getD 0 0) (1 / gamma) := by
    rw [hc, hb, List.getD_cons_zero, List.getD_cons_zero]
  refine ⟨h1, ?_⟩
  rw [h1]
  have hMs : (1 + gamma * (lsp2mgc fx useLogGain stage gamma v).getD 0 0) ^ stage ≠ 0 := pow_ne_zero _ hm0
  rw [div_pow, ← mul_div_assoc, hp1]
  exact (eq_div_of_mul_eq hMs hp2).symm

end Jb
