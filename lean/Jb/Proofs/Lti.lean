/-
  C06 / C13, structural half: with frozen coefficients the synthesis filters are linear and time-invariant, so
  the response to ONE pulse — which is what the checks measure on the implementation — determines the response
  to every excitation: the output is the convolution of the input with the pulse response.

    * MLSA (`mlsaDf`, Padé cascade, state `MlsaSt`): additivity (`mlsaDf_add`), zero stays zero, convolution;
    * MGLSA (`mglsaDf`, `stage` sections, state `List (List K)`): the same three statements.
  Homogeneity is in `Jb/Proofs/MlsaLinear.lean`.
-/
import Jb.Proofs.MlsaLinear
import Mathlib.Algebra.BigOperators.Intervals

set_option linter.unusedSectionVars false

namespace Jb

variable {K : Type} [Field K] [LinearOrder K] [IsStrictOrderedRing K] [Transc K] [Consts K]

/-! ### list helpers -/

theorem getD_zipWith_gen {α : Type} (f : α → α → α) (z : α) (hz : f z z = z) (a b : List α)
    (h : a.length = b.length) (i : Nat) :
    (List.zipWith f a b).getD i z = f (a.getD i z) (b.getD i z) := by
  induction a generalizing b i with
  | nil => cases b with
    | nil => simp [hz]
    | cons y b => simp at h
  | cons x a ih => cases b with
    | nil => simp at h
    | cons y b =>
      cases i with
      | zero => simp
      | succ i =>
        simp only [List.length_cons, Nat.add_right_cancel_iff] at h
        simpa using ih b h i

theorem getD_zipWith_add (a b : List K) (h : a.length = b.length) (i : Nat) :
    (List.zipWith (· + ·) a b).getD i 0 = a.getD i 0 + b.getD i 0 :=
  getD_zipWith_gen (· + ·) 0 (by simp) a b h i

theorem getD_zipWith_zipWith_add (a b : List (List K)) (h : a.length = b.length) (i : Nat) :
    (List.zipWith (List.zipWith (· + ·)) a b).getD i [] =
      List.zipWith (· + ·) (a.getD i []) (b.getD i []) :=
  getD_zipWith_gen (List.zipWith (· + ·)) [] (by simp) a b h i

theorem zipWith_set_gen {α : Type} (f : α → α → α) (a b : List α) (i : Nat) (x y : α) :
    List.zipWith f (a.set i x) (b.set i y) = (List.zipWith f a b).set i (f x y) := by
  induction a generalizing b i with
  | nil => simp
  | cons u a ih => cases b with
    | nil => simp
    | cons v b =>
      cases i with
      | zero => simp
      | succ i => simp [ih]

/-- same outer length, same inner lengths -/
abbrev SameSh (a b : List (List K)) : Prop := List.Forall₂ (fun r r' => r.length = r'.length) a b

theorem SameSh.getD {a b : List (List K)} (h : SameSh a b) (i : Nat) :
    (a.getD i []).length = (b.getD i []).length := by
  induction h generalizing i with
  | nil => simp
  | cons hr _ ih => cases i with
    | zero => simpa using hr
    | succ i => simpa using ih i

theorem SameSh.set {a b : List (List K)} (h : SameSh a b) (i : Nat) (x y : List K)
    (hxy : x.length = y.length) : SameSh (a.set i x) (b.set i y) := by
  induction h generalizing i with
  | nil => simp
  | cons hr hrest ih => cases i with
    | zero => simpa using ⟨hxy, hrest⟩
    | succ i => simpa using ⟨hr, ih i⟩

theorem SameSh.of_len {n : Nat} {a b : List (List K)} (h : a.length = b.length)
    (ha : ∀ r ∈ a, r.length = n) (hb : ∀ r ∈ b, r.length = n) : SameSh a b := by
  induction a generalizing b with
  | nil => cases b with
    | nil => exact List.Forall₂.nil
    | cons y b => simp at h
  | cons x a ih => cases b with
    | nil => simp at h
    | cons y b =>
      simp only [List.length_cons, Nat.add_right_cancel_iff] at h
      refine List.Forall₂.cons ?_ (ih h (fun r hr => ha r (List.mem_cons_of_mem _ hr))
        (fun r hr => hb r (List.mem_cons_of_mem _ hr)))
      rw [ha x (List.mem_cons_self), hb y (List.mem_cons_self)]

/-! ### `fir` -/

theorem fir_fold_len (alpha iaa : K) (l : List K) (acc : List K × K) :
    ((l.foldl (fun (acc : List K × K) di =>
        (acc.1 ++ [alpha * di + acc.2], iaa * di - alpha * acc.2)) acc).1).length
      = acc.1.length + l.length := by
  induction l generalizing acc with
  | nil => simp
  | cons di l ih => simp only [List.foldl_cons, ih, List.length_append, List.length_cons,
      List.length_nil]; omega

theorem fir_len (d : List K) (x alpha : K) (c : List K) : (fir d x alpha c).2.length = d.length := by
  cases d with
  | nil => simp [fir]
  | cons x0 dt =>
    simp only [fir]
    rw [fir_fold_len]
    simp

theorem fir_fold_add (alpha iaa : K) (l m : List K) (hlm : l.length = m.length) (p q : List K × K)
    (hpq : p.1.length = q.1.length) :
    (List.zipWith (· + ·) l m).foldl (fun (acc : List K × K) di =>
        (acc.1 ++ [alpha * di + acc.2], iaa * di - alpha * acc.2))
        (List.zipWith (· + ·) p.1 q.1, p.2 + q.2)
      = (List.zipWith (· + ·) ((l.foldl (fun (acc : List K × K) di =>
            (acc.1 ++ [alpha * di + acc.2], iaa * di - alpha * acc.2)) p).1)
            ((m.foldl (fun (acc : List K × K) di =>
            (acc.1 ++ [alpha * di + acc.2], iaa * di - alpha * acc.2)) q).1),
         (l.foldl (fun (acc : List K × K) di =>
            (acc.1 ++ [alpha * di + acc.2], iaa * di - alpha * acc.2)) p).2 +
         (m.foldl (fun (acc : List K × K) di =>
            (acc.1 ++ [alpha * di + acc.2], iaa * di - alpha * acc.2)) q).2) := by
  induction l generalizing m p q with
  | nil => cases m with
    | nil => rfl
    | cons y m => simp at hlm
  | cons di l ih => cases m with
    | nil => simp at hlm
    | cons ei m =>
      simp only [List.length_cons, Nat.add_right_cancel_iff] at hlm
      simp only [List.zipWith_cons_cons, List.foldl_cons]
      have := ih m hlm (p.1 ++ [alpha * di + p.2], iaa * di - alpha * p.2)
        (q.1 ++ [alpha * ei + q.2], iaa * ei - alpha * q.2) (by simp [hpq])
      simp only [List.zipWith_append hpq, List.zipWith_cons_cons, List.zipWith_nil_left] at this
      rw [← this]
      congr 2
      · congr 2; ring
      · ring

theorem fir_dot_add (d e c : List K) (hde : d.length = e.length) (k : Nat) (u v : K) :
    (((List.zipWith (· + ·) d e).zip c).drop k).foldl (fun acc (p : K × K) => acc + p.1 * p.2) (u + v)
      = ((d.zip c).drop k).foldl (fun acc (p : K × K) => acc + p.1 * p.2) u +
        ((e.zip c).drop k).foldl (fun acc (p : K × K) => acc + p.1 * p.2) v := by
  induction d generalizing e c k u v with
  | nil => cases e with
    | nil => simp
    | cons y e => simp at hde
  | cons x d ih => cases e with
    | nil => simp at hde
    | cons y e =>
      simp only [List.length_cons, Nat.add_right_cancel_iff] at hde
      cases c with
      | nil => simp
      | cons c0 c =>
        cases k with
        | zero =>
          simp only [List.zipWith_cons_cons, List.zip_cons_cons, List.drop_zero, List.foldl_cons]
          have := ih e c hde 0 (u + x * c0) (v + y * c0)
          simp only [List.drop_zero] at this
          rw [← this]
          congr 1; ring
        | succ k =>
          simp only [List.zipWith_cons_cons, List.zip_cons_cons, List.drop_succ_cons]
          exact ih e c hde k u v

/-- the delay line is additive (equal lengths) -/
theorem fir_add (d e : List K) (hde : d.length = e.length) (x y alpha : K) (c : List K) :
    fir (List.zipWith (· + ·) d e) (x + y) alpha c =
      ((fir d x alpha c).1 + (fir e y alpha c).1,
        List.zipWith (· + ·) (fir d x alpha c).2 (fir e y alpha c).2) := by
  cases d with
  | nil => cases e with
    | nil => simp [fir]
    | cons y e => simp at hde
  | cons x0 dt => cases e with
    | nil => simp at hde
    | cons y0 et =>
      simp only [List.length_cons, Nat.add_right_cancel_iff] at hde
      simp only [List.zipWith_cons_cons, fir]
      have h := fir_fold_add alpha (1 - alpha * alpha) (x :: dt) (y :: et) (by simp [hde])
        ([], 0) ([], 0) rfl
      simp only [List.zipWith_cons_cons, List.zipWith_nil_left, add_zero] at h
      rw [h]
      have hl : ((x :: dt).foldl (fun (acc : List K × K) di =>
            (acc.1 ++ [alpha * di + acc.2], (1 - alpha * alpha) * di - alpha * acc.2)) ([], 0)).1.length
          = ((y :: et).foldl (fun (acc : List K × K) di =>
            (acc.1 ++ [alpha * di + acc.2], (1 - alpha * alpha) * di - alpha * acc.2)) ([], 0)).1.length := by
        rw [fir_fold_len, fir_fold_len]; simp [hde]
      have h2 := fir_dot_add _ _ c hl 2 0 0
      rw [add_zero] at h2
      exact Prod.ext h2 rfl

/-! ### MLSA -/

/-- pointwise sum of two filter states -/
def MlsaSt.add (s t : MlsaSt K) : MlsaSt K :=
  { d11 := List.zipWith (· + ·) s.d11 t.d11, d12 := List.zipWith (· + ·) s.d12 t.d12,
    d21 := List.zipWith (List.zipWith (· + ·)) s.d21 t.d21, d22 := List.zipWith (· + ·) s.d22 t.d22 }

/-- the shape `MelLogSpectrumApproximation::new(nmcp)` creates and `df` preserves -/
def MlsaSt.Shape (nmcp : Nat) (s : MlsaSt K) : Prop :=
  s.d11.length = 6 ∧ s.d12.length = 6 ∧ s.d21.length = 6 ∧ (∀ r ∈ s.d21, r.length = nmcp) ∧ s.d22.length = 6

theorem MlsaSt.init_shape (nmcp : Nat) : (MlsaSt.init nmcp : MlsaSt K).Shape nmcp := by
  refine ⟨by simp [MlsaSt.init], by simp [MlsaSt.init], by simp [MlsaSt.init], ?_, by simp [MlsaSt.init]⟩
  intro r hr
  simp only [MlsaSt.init] at hr
  rw [List.eq_of_mem_replicate hr]
  simp

/-- invariant of the `df2` loop: every inner delay line keeps its length -/
theorem df2Step_inner (nmcp : Nat) (st : MlsaSt K) (alpha : K) (c : List K)
    (acc : K × K × List (List K) × List K) (i : Nat) (h : ∀ r ∈ acc.2.2.1, r.length = nmcp) :
    ∀ r ∈ (df2Step st alpha c acc i).2.2.1, r.length = nmcp := by
  obtain ⟨x, out, d21, d22⟩ := acc
  simp only [df2Step]
  intro r hr
  by_cases hi : i - 1 < d21.length
  · rcases List.mem_or_eq_of_mem_set hr with h1 | h1
    · exact h r h1
    · rw [h1, fir_len]
      apply h
      rw [List.getD_eq_getElem?_getD, List.getElem?_eq_getElem hi]
      exact List.getElem_mem hi
  · rw [List.set_eq_of_length_le (by omega)] at hr
    exact h r hr

theorem foldl_df2Step_inner (nmcp : Nat) (st : MlsaSt K) (alpha : K) (c : List K) (l : List Nat)
    (acc : K × K × List (List K) × List K) (h : ∀ r ∈ acc.2.2.1, r.length = nmcp) :
    ∀ r ∈ (l.foldl (df2Step st alpha c) acc).2.2.1, r.length = nmcp := by
  induction l generalizing acc with
  | nil => exact h
  | cons i l ih => exact ih _ (df2Step_inner nmcp st alpha c acc i h)

theorem mlsaDf2_inner (nmcp : Nat) (st : MlsaSt K) (x alpha : K) (c : List K)
    (h : ∀ r ∈ st.d21, r.length = nmcp) : ∀ r ∈ (mlsaDf2 st x alpha c).2.d21, r.length = nmcp := by
  simp only [mlsaDf2_eq]
  exact foldl_df2Step_inner nmcp st alpha c [5, 4, 3, 2, 1] (x, 0, st.d21, st.d22) h

theorem mlsaDf1_keeps_shape (nmcp : Nat) (s : MlsaSt K) (hs : s.Shape nmcp) (x alpha : K) (c : List K) :
    ((mlsaDf1 s x alpha c).2).Shape nmcp := by
  obtain ⟨h11, h12, h21, hin, h22⟩ := hs
  have h1 := mlsaDf1_shape s x alpha c
  refine ⟨by rw [h1.1, h11], by rw [h1.2.1, h12], by rw [h1.2.2.1, h21], ?_, by rw [h1.2.2.2, h22]⟩
  rw [h1.2.2.1]; exact hin

theorem mlsaDf2_keeps_shape (nmcp : Nat) (s : MlsaSt K) (hs : s.Shape nmcp) (x alpha : K) (c : List K) :
    ((mlsaDf2 s x alpha c).2).Shape nmcp := by
  obtain ⟨h11, h12, h21, hin, h22⟩ := hs
  have h2 := mlsaDf2_shape s x alpha c
  exact ⟨by rw [h2.1, h11], by rw [h2.2.1, h12], by rw [h2.2.2.1, h21],
    mlsaDf2_inner nmcp s x alpha c hin, by rw [h2.2.2.2, h22]⟩

theorem mlsaDf_keeps_shape (nmcp : Nat) (s : MlsaSt K) (hs : s.Shape nmcp) (x alpha : K) (c : List K) :
    ((mlsaDf s x alpha c).2).Shape nmcp := by
  have e : (mlsaDf s x alpha c).2 = (mlsaDf2 (mlsaDf1 s x alpha c).2 (mlsaDf1 s x alpha c).1 alpha c).2 := rfl
  rw [e]
  exact mlsaDf2_keeps_shape nmcp _ (mlsaDf1_keeps_shape nmcp s hs x alpha c) _ alpha c

def ad1 (p q : K × K × List K × List K) : K × K × List K × List K :=
  (p.1 + q.1, p.2.1 + q.2.1, List.zipWith (· + ·) p.2.2.1 q.2.2.1, List.zipWith (· + ·) p.2.2.2 q.2.2.2)

def ad2 (p q : K × K × List (List K) × List K) : K × K × List (List K) × List K :=
  (p.1 + q.1, p.2.1 + q.2.1, List.zipWith (List.zipWith (· + ·)) p.2.2.1 q.2.2.1,
    List.zipWith (· + ·) p.2.2.2 q.2.2.2)

theorem df1Step_add (s t : MlsaSt K) (h12 : s.d12.length = t.d12.length) (alpha : K) (c : List K)
    (p q : K × K × List K × List K) (hp : p.2.2.1.length = q.2.2.1.length) (i : Nat) :
    df1Step (s.add t) alpha c (ad1 p q) i = ad1 (df1Step s alpha c p i) (df1Step t alpha c q i) := by
  obtain ⟨x, out, d11, d12⟩ := p
  obtain ⟨x', out', d11', d12'⟩ := q
  simp only at hp
  simp only [df1Step, ad1, MlsaSt.add, getD_zipWith_add _ _ h12, getD_zipWith_add _ _ hp,
    zipWith_set_gen]
  split_ifs <;> simp only [Prod.mk.injEq] <;> refine ⟨by ring, by ring, ?_, ?_⟩ <;> congr 1 <;> ring

theorem foldl_df1Step_add (s t : MlsaSt K) (h12 : s.d12.length = t.d12.length) (alpha : K) (c : List K)
    (l : List Nat) (p q : K × K × List K × List K) (hp : p.2.2.1.length = q.2.2.1.length) :
    l.foldl (df1Step (s.add t) alpha c) (ad1 p q) =
      ad1 (l.foldl (df1Step s alpha c) p) (l.foldl (df1Step t alpha c) q) := by
  induction l generalizing p q with
  | nil => rfl
  | cons i l ih =>
    simp only [List.foldl_cons]
    rw [df1Step_add s t h12 alpha c p q hp i]
    apply ih
    rw [(df1Step_len s alpha c p i).1, (df1Step_len t alpha c q i).1, hp]

theorem mlsaDf1_add (s t : MlsaSt K) (h11 : s.d11.length = t.d11.length)
    (h12 : s.d12.length = t.d12.length) (x y alpha : K) (c : List K) :
    mlsaDf1 (s.add t) (x + y) alpha c =
      ((mlsaDf1 s x alpha c).1 + (mlsaDf1 t y alpha c).1,
        ((mlsaDf1 s x alpha c).2).add ((mlsaDf1 t y alpha c).2)) := by
  have h := foldl_df1Step_add s t h12 alpha c [5, 4, 3, 2, 1] (x, 0, s.d11, s.d12) (y, 0, t.d11, t.d12) h11
  simp only [ad1, add_zero] at h
  simp only [mlsaDf1_eq]
  simp only [MlsaSt.add] at h ⊢
  rw [h]
  simp only [zipWith_set_gen, Prod.mk.injEq, and_true]
  ring

theorem df2Step_add (s t : MlsaSt K) (h22 : s.d22.length = t.d22.length) (alpha : K) (c : List K)
    (p q : K × K × List (List K) × List K) (hp : SameSh p.2.2.1 q.2.2.1) (i : Nat) :
    df2Step (s.add t) alpha c (ad2 p q) i = ad2 (df2Step s alpha c p i) (df2Step t alpha c q i) := by
  obtain ⟨x, out, d21, d22⟩ := p
  obtain ⟨x', out', d21', d22'⟩ := q
  simp only at hp
  simp only [df2Step, ad2, MlsaSt.add, getD_zipWith_add _ _ h22,
    getD_zipWith_zipWith_add _ _ hp.length_eq, fir_add _ _ (hp.getD _), zipWith_set_gen]
  split_ifs <;> simp only [Prod.mk.injEq] <;> refine ⟨by ring, by ring, trivial⟩

theorem df2Step_sameSh (s t : MlsaSt K) (alpha : K) (c : List K)
    (p q : K × K × List (List K) × List K) (hp : SameSh p.2.2.1 q.2.2.1) (i : Nat) :
    SameSh (df2Step s alpha c p i).2.2.1 (df2Step t alpha c q i).2.2.1 := by
  obtain ⟨x, out, d21, d22⟩ := p
  obtain ⟨x', out', d21', d22'⟩ := q
  simp only at hp
  simp only [df2Step]
  apply hp.set
  rw [fir_len, fir_len]
  exact hp.getD _

theorem foldl_df2Step_add (s t : MlsaSt K) (h22 : s.d22.length = t.d22.length) (alpha : K) (c : List K)
    (l : List Nat) (p q : K × K × List (List K) × List K) (hp : SameSh p.2.2.1 q.2.2.1) :
    l.foldl (df2Step (s.add t) alpha c) (ad2 p q) =
      ad2 (l.foldl (df2Step s alpha c) p) (l.foldl (df2Step t alpha c) q) := by
  induction l generalizing p q with
  | nil => rfl
  | cons i l ih =>
    simp only [List.foldl_cons]
    rw [df2Step_add s t h22 alpha c p q hp i]
    exact ih _ _ (df2Step_sameSh s t alpha c p q hp i)

theorem mlsaDf2_add (s t : MlsaSt K) (h21 : SameSh s.d21 t.d21)
    (h22 : s.d22.length = t.d22.length) (x y alpha : K) (c : List K) :
    mlsaDf2 (s.add t) (x + y) alpha c =
      ((mlsaDf2 s x alpha c).1 + (mlsaDf2 t y alpha c).1,
        ((mlsaDf2 s x alpha c).2).add ((mlsaDf2 t y alpha c).2)) := by
  have h := foldl_df2Step_add s t h22 alpha c [5, 4, 3, 2, 1] (x, 0, s.d21, s.d22) (y, 0, t.d21, t.d22) h21
  simp only [ad2, add_zero] at h
  simp only [mlsaDf2_eq]
  simp only [MlsaSt.add] at h ⊢
  rw [h]
  simp only [zipWith_set_gen, Prod.mk.injEq, and_true]
  ring

theorem MlsaSt.Shape.sameSh {nmcp : Nat} {s t : MlsaSt K} (hs : s.Shape nmcp) (ht : t.Shape nmcp) :
    SameSh s.d21 t.d21 :=
  SameSh.of_len (hs.2.2.1.trans ht.2.2.1.symm) hs.2.2.2.1 ht.2.2.2.1

/-- **Additivity** of one filter step in (state, input). -/
theorem mlsaDf_add (nmcp : Nat) (s t : MlsaSt K) (hs : s.Shape nmcp) (ht : t.Shape nmcp) (x y alpha : K) (c : List K) :
    mlsaDf (s.add t) (x + y) alpha c =
      ((mlsaDf s x alpha c).1 + (mlsaDf t y alpha c).1, ((mlsaDf s x alpha c).2).add ((mlsaDf t y alpha c).2)) := by
  have hs1 := mlsaDf1_keeps_shape nmcp s hs x alpha c
  have ht1 := mlsaDf1_keeps_shape nmcp t ht y alpha c
  have e : ∀ (u : MlsaSt K) (z : K), mlsaDf u z alpha c =
      mlsaDf2 (mlsaDf1 u z alpha c).2 (mlsaDf1 u z alpha c).1 alpha c := fun _ _ => rfl
  rw [e, e, e, mlsaDf1_add s t (hs.1.trans ht.1.symm) (hs.2.1.trans ht.2.1.symm)]
  exact mlsaDf2_add _ _ (hs1.sameSh ht1) (hs1.2.2.2.2.trans ht1.2.2.2.2.symm) _ _ alpha c

theorem mlsaRun_add_gen (alpha : K) (c : List K) (nmcp : Nat) (s t : MlsaSt K) (hs : s.Shape nmcp)
    (ht : t.Shape nmcp) (xs ys : List K) (h : xs.length = ys.length) :
    mlsaRun alpha c (s.add t) (List.zipWith (· + ·) xs ys) =
      List.zipWith (· + ·) (mlsaRun alpha c s xs) (mlsaRun alpha c t ys) := by
  induction xs generalizing ys s t with
  | nil => cases ys with
    | nil => rfl
    | cons y ys => simp at h
  | cons x xs ih => cases ys with
    | nil => simp at h
    | cons y ys =>
      simp only [List.length_cons, Nat.add_right_cancel_iff] at h
      simp only [List.zipWith_cons_cons, mlsaRun, mlsaDf_add nmcp s t hs ht]
      rw [ih _ _ (mlsaDf_keeps_shape nmcp s hs x alpha c) (mlsaDf_keeps_shape nmcp t ht y alpha c) ys h]

theorem MlsaSt.add_init (nmcp : Nat) :
    (MlsaSt.init nmcp : MlsaSt K).add (MlsaSt.init nmcp) = MlsaSt.init nmcp := by
  simp [MlsaSt.add, MlsaSt.init]

/-- superposition over whole signals (zero initial state) -/
theorem mlsaRun_add (alpha : K) (c : List K) (nmcp : Nat) (xs ys : List K) (h : xs.length = ys.length) :
    mlsaRun alpha c (MlsaSt.init nmcp) (List.zipWith (· + ·) xs ys) =
      List.zipWith (· + ·) (mlsaRun alpha c (MlsaSt.init nmcp) xs) (mlsaRun alpha c (MlsaSt.init nmcp) ys) := by
  have := mlsaRun_add_gen alpha c nmcp _ _ (MlsaSt.init_shape nmcp) (MlsaSt.init_shape nmcp) xs ys h
  rwa [MlsaSt.add_init] at this

theorem map_zero_mul (l : List K) : l.map (0 * ·) = List.replicate l.length 0 := by
  induction l with
  | nil => rfl
  | cons x l ih => simp [List.replicate_succ]

theorem MlsaSt.smul_zero_of_shape {nmcp : Nat} {s : MlsaSt K} (hs : s.Shape nmcp) :
    MlsaSt.smul 0 s = MlsaSt.init nmcp := by
  obtain ⟨h11, h12, h21, hin, h22⟩ := hs
  simp only [MlsaSt.smul, MlsaSt.init, map_zero_mul, h11, h12, h22, MlsaSt.mk.injEq, true_and, and_true]
  rw [← h21]
  clear h21
  generalize s.d21 = l at hin
  induction l with
  | nil => rfl
  | cons r l ih =>
    simp only [List.map_cons, List.length_cons, List.replicate_succ]
    rw [ih (fun r hr => hin r (List.mem_cons_of_mem _ hr)), hin r List.mem_cons_self]

theorem mlsaDf_init_zero (alpha : K) (c : List K) (nmcp : Nat) :
    mlsaDf (MlsaSt.init nmcp) 0 alpha c = (0, MlsaSt.init nmcp) := by
  have h := mlsaDf_smul' 0 (MlsaSt.init nmcp) 0 alpha c
  rw [MlsaSt.smul_init, mul_zero, zero_mul,
    MlsaSt.smul_zero_of_shape (mlsaDf_keeps_shape nmcp _ (MlsaSt.init_shape nmcp) 0 alpha c)] at h
  exact h

/-- time invariance: a leading zero sample delays the response by one sample -/
theorem mlsaRun_delay (alpha : K) (c : List K) (nmcp : Nat) (xs : List K) :
    mlsaRun alpha c (MlsaSt.init nmcp) (0 :: xs) = 0 :: mlsaRun alpha c (MlsaSt.init nmcp) xs := by
  simp only [mlsaRun, mlsaDf_init_zero]

/-! ### an LTI map on finite signals is the convolution with its pulse response -/

/-- the unit pulse, `len` samples -/
def delta (len : Nat) : List K := (List.range len).map fun i => if i = 0 then 1 else 0

theorem delta_succ (len : Nat) : (delta (len + 1) : List K) = 1 :: List.replicate len 0 := by
  simp only [delta, List.range_succ_eq_map, List.map_cons, List.map_map, if_true]
  congr 1
  rw [List.eq_replicate_iff]
  simp

theorem delta_take (len : Nat) : (delta len : List K) = (delta (len + 1)).take len := by
  cases len with
  | zero => simp [delta]
  | succ m =>
    rw [delta_succ, delta_succ, List.take_succ_cons, List.take_replicate]
    simp

theorem lti_convolution (run : List K → List K)
    (h_take : ∀ xs m, run (xs.take m) = (run xs).take m)
    (h_len : ∀ xs, (run xs).length = xs.length)
    (h_add : ∀ xs ys : List K, xs.length = ys.length →
      run (List.zipWith (· + ·) xs ys) = List.zipWith (· + ·) (run xs) (run ys))
    (h_smul : ∀ (a : K) xs, run (xs.map (a * ·)) = (run xs).map (a * ·))
    (h_delay : ∀ xs, run (0 :: xs) = 0 :: run xs)
    (xs : List K) (n : Nat) (hn : n < xs.length) :
    (run xs).getD n 0 =
      (Finset.range (n + 1)).sum fun k => (run (delta xs.length)).getD k 0 * xs.getD (n - k) 0 := by
  induction xs generalizing n with
  | nil => simp at hn
  | cons x xs ih =>
    have hdec : x :: xs = List.zipWith (· + ·) ((delta (xs.length + 1)).map (x * ·)) (0 :: xs) := by
      rw [delta_succ]
      simp only [List.map_cons, List.zipWith_cons_cons, mul_one, add_zero, List.map_replicate, mul_zero]
      congr 1
      clear ih hn
      induction xs with
      | nil => rfl
      | cons y ys ihy => simp [List.replicate_succ, ← ihy]
    have hrun : run (x :: xs) =
        List.zipWith (· + ·) ((run (delta (xs.length + 1))).map (x * ·)) (0 :: run xs) := by
      conv_lhs => rw [hdec]
      rw [h_add _ _ (by simp [delta]), h_smul, h_delay]
    have hpre : ∀ k, k < xs.length →
        (run (delta xs.length)).getD k 0 = (run (delta (xs.length + 1))).getD k 0 := by
      intro k hk
      rw [delta_take xs.length, h_take]
      simp only [List.getD_eq_getElem?_getD, List.getElem?_take_of_lt hk]
    rw [hrun, getD_zipWith_add _ _ (by simp [h_len, delta]), getD_map_mul, List.length_cons]
    cases n with
    | zero => simp; ring
    | succ m =>
      have hm : m < xs.length := by simpa using hn
      rw [List.getD_cons_succ, ih m hm, Finset.sum_range_succ _ (m + 1)]
      have e1 : m + 1 - (m + 1) = 0 := by omega
      rw [e1, List.getD_cons_zero, add_comm, mul_comm]
      congr 1
      apply Finset.sum_congr rfl
      intro k hk
      have hk' : k ≤ m := by simpa [Nat.lt_succ_iff] using hk
      have e2 : m + 1 - k = (m - k) + 1 := by omega
      rw [e2, List.getD_cons_succ, hpre k (by omega)]

theorem mlsaRun_take (alpha : K) (c : List K) (st : MlsaSt K) (xs : List K) (m : Nat) :
    mlsaRun alpha c st (xs.take m) = (mlsaRun alpha c st xs).take m := by
  induction xs generalizing st m with
  | nil => simp [mlsaRun]
  | cons x xs ih => cases m with
    | zero => simp [mlsaRun]
    | succ m => simp only [List.take_succ_cons, mlsaRun, ih]

theorem mlsaRun_length (alpha : K) (c : List K) (st : MlsaSt K) (xs : List K) :
    (mlsaRun alpha c st xs).length = xs.length := by
  induction xs generalizing st with
  | nil => rfl
  | cons x xs ih => simp only [mlsaRun, List.length_cons, ih]

/-- the response to a unit pulse, `len` samples -/
def mlsaPulse (alpha : K) (c : List K) (nmcp len : Nat) : List K :=
  mlsaRun alpha c (MlsaSt.init nmcp) ((List.range len).map fun i => if i = 0 then 1 else 0)

/-- **The MLSA filter is the convolution with its pulse response.** -/
theorem mlsaRun_convolution (alpha : K) (c : List K) (nmcp : Nat) (xs : List K) (n : Nat) (hn : n < xs.length) :
    (mlsaRun alpha c (MlsaSt.init nmcp) xs).getD n 0 =
      (Finset.range (n + 1)).sum fun k => (mlsaPulse alpha c nmcp xs.length).getD k 0 * xs.getD (n - k) 0 :=
  lti_convolution (mlsaRun alpha c (MlsaSt.init nmcp))
    (mlsaRun_take alpha c _) (mlsaRun_length alpha c _)
    (mlsaRun_add alpha c nmcp) (fun a xs => mlsaRun_smul a alpha c nmcp xs)
    (mlsaRun_delay alpha c nmcp) xs n hn

/-! ### MGLSA -/

/-- run the `stage`-section MGLSA filter over a signal with frozen coefficients -/
def mglsaRun (alpha : K) (c : List K) : List (List K) → List K → List K
  | _, [] => []
  | ds, x :: xs => let r := mglsaDf ds x alpha c; r.1 :: mglsaRun alpha c r.2 xs

/-- the zero state of `MelGeneralizedLogSpectrumApproximation::new(stage, c_len)` -/
def mglsaInit (stage clen : Nat) : List (List K) := List.replicate stage (List.replicate clen 0)

/-- one iteration of the `dff` loop -/
def dffStep (d : List K) (alpha : K) (c : List K) (acc : K × List K × K) (i0 : Nat) : K × List K × K :=
  let i := i0 + 1
  let (y, rev, prevNew) := acc
  let di := d.getD i 0 + alpha * (d.getD (i + 1) 0 - prevNew)
  (y + di * c.getD (i + 1) 0, di :: rev, di)

/-- the shift after the `dff` loop -/
def dffOut (d0 : K) (d : List K) (alpha : K) (n : Nat) (x' : K) (rev : List K) : List K :=
  let dmid := d0 :: rev.reverse ++ d.drop (n - 1)
  (alpha * d0 + (1 - alpha * alpha) * x') :: (dmid.take (n - 1)) ++ dmid.drop n

theorem mglsaDff_nil (x alpha : K) (c : List K) : mglsaDff ([] : List K) x alpha c = (x, []) := rfl

theorem mglsaDff_cons (d0 : K) (dt : List K) (x alpha : K) (c : List K) :
    mglsaDff (d0 :: dt) x alpha c =
      (x - ((List.range (c.length - 2)).foldl (dffStep (d0 :: dt) alpha c) (d0 * c.getD 1 0, [], d0)).1,
        if c.length = 0 then d0 :: dt else
          dffOut d0 (d0 :: dt) alpha c.length
            (x - ((List.range (c.length - 2)).foldl (dffStep (d0 :: dt) alpha c) (d0 * c.getD 1 0, [], d0)).1)
            ((List.range (c.length - 2)).foldl (dffStep (d0 :: dt) alpha c) (d0 * c.getD 1 0, [], d0)).2.1) := rfl

theorem foldl_dffStep_len (d : List K) (alpha : K) (c : List K) (l : List Nat) (acc : K × List K × K) :
    (l.foldl (dffStep d alpha c) acc).2.1.length = acc.2.1.length + l.length := by
  induction l generalizing acc with
  | nil => simp
  | cons i l ih =>
    simp only [List.foldl_cons, ih, List.length_cons]
    obtain ⟨y, rev, pn⟩ := acc
    simp only [dffStep, List.length_cons]
    omega

def ad3 (p q : K × List K × K) : K × List K × K :=
  (p.1 + q.1, List.zipWith (· + ·) p.2.1 q.2.1, p.2.2 + q.2.2)

def sc3 (a : K) (p : K × List K × K) : K × List K × K :=
  (a * p.1, p.2.1.map (a * ·), a * p.2.2)

theorem dffStep_add (d e : List K) (h : d.length = e.length) (alpha : K) (c : List K)
    (p q : K × List K × K) (i : Nat) :
    dffStep (List.zipWith (· + ·) d e) alpha c (ad3 p q) i =
      ad3 (dffStep d alpha c p i) (dffStep e alpha c q i) := by
  obtain ⟨y, rev, pn⟩ := p
  obtain ⟨y', rev', pn'⟩ := q
  simp only [dffStep, ad3, getD_zipWith_add _ _ h, List.zipWith_cons_cons, Prod.mk.injEq]
  refine ⟨by ring, ?_, by ring⟩
  congr 1; ring

theorem dffStep_smul (a : K) (d : List K) (alpha : K) (c : List K) (p : K × List K × K) (i : Nat) :
    dffStep (d.map (a * ·)) alpha c (sc3 a p) i = sc3 a (dffStep d alpha c p i) := by
  obtain ⟨y, rev, pn⟩ := p
  simp only [dffStep, sc3, getD_map_mul, List.map_cons, Prod.mk.injEq]
  refine ⟨by ring, ?_, by ring⟩
  congr 1; ring

theorem foldl_hom2 {β ι : Type} (S : β → β → β) (f g1 g2 : β → ι → β)
    (h : ∀ p q i, f (S p q) i = S (g1 p i) (g2 q i)) (l : List ι) (p q : β) :
    l.foldl f (S p q) = S (l.foldl g1 p) (l.foldl g2 q) := by
  induction l generalizing p q with
  | nil => rfl
  | cons i l ih => simp only [List.foldl_cons, h, ih]

theorem dffOut_len (d0 : K) (d : List K) (alpha : K) (n : Nat) (x' : K) (rev : List K) :
    (dffOut d0 d alpha n x' rev).length =
      1 + min (n - 1) (1 + rev.length + (d.length - (n - 1))) + (1 + rev.length + (d.length - (n - 1)) - n) := by
  simp only [dffOut, List.length_append, List.length_cons, List.length_take, List.length_drop,
    List.length_reverse]
  omega

theorem dffOut_add (d0 e0 : K) (d e : List K) (hde : d.length = e.length) (alpha : K) (n : Nat) (u v : K)
    (rev rev' : List K) (hr : rev.length = rev'.length) :
    dffOut (d0 + e0) (List.zipWith (· + ·) d e) alpha n (u + v) (List.zipWith (· + ·) rev rev') =
      List.zipWith (· + ·) (dffOut d0 d alpha n u rev) (dffOut e0 e alpha n v rev') := by
  have hM : List.zipWith (· + ·) (d0 :: rev.reverse ++ d.drop (n - 1)) (e0 :: rev'.reverse ++ e.drop (n - 1))
      = (d0 + e0) :: (List.zipWith (· + ·) rev rev').reverse ++ (List.zipWith (· + ·) d e).drop (n - 1) := by
    rw [List.zipWith_append (by simp [hr]), List.zipWith_cons_cons, ← List.reverse_zipWith hr,
      ← List.drop_zipWith]
  simp only [dffOut]
  rw [List.zipWith_append (by simp [hr, hde]), List.zipWith_cons_cons, ← List.take_zipWith,
    ← List.drop_zipWith, hM]
  congr 2
  ring

theorem dffOut_smul (a d0 : K) (d : List K) (alpha : K) (n : Nat) (u : K) (rev : List K) :
    dffOut (a * d0) (d.map (a * ·)) alpha n (a * u) (rev.map (a * ·)) =
      (dffOut d0 d alpha n u rev).map (a * ·) := by
  simp only [dffOut, List.map_append, List.map_cons, List.map_take, List.map_drop, List.map_reverse]
  congr 2
  ring

/-- one MGLSA section is additive in (state, input) for states of equal length -/
theorem mglsaDff_add (d e : List K) (hde : d.length = e.length) (x y alpha : K) (c : List K) :
    mglsaDff (List.zipWith (· + ·) d e) (x + y) alpha c =
      ((mglsaDff d x alpha c).1 + (mglsaDff e y alpha c).1,
        List.zipWith (· + ·) (mglsaDff d x alpha c).2 (mglsaDff e y alpha c).2) := by
  cases d with
  | nil => cases e with
    | nil => simp [mglsaDff_nil]
    | cons e0 et => simp at hde
  | cons d0 dt => cases e with
    | nil => simp at hde
    | cons e0 et =>
      have h := foldl_hom2 ad3 _ _ _ (dffStep_add (d0 :: dt) (e0 :: et) hde alpha c)
        (List.range (c.length - 2)) (d0 * c.getD 1 0, [], d0) (e0 * c.getD 1 0, [], e0)
      simp only [ad3, List.zipWith_cons_cons, List.zipWith_nil_left, ← add_mul] at h
      have hr : ((List.range (c.length - 2)).foldl (dffStep (d0 :: dt) alpha c) (d0 * c.getD 1 0, [], d0)).2.1.length
          = ((List.range (c.length - 2)).foldl (dffStep (e0 :: et) alpha c) (e0 * c.getD 1 0, [], e0)).2.1.length := by
        rw [foldl_dffStep_len, foldl_dffStep_len]
      simp only [List.zipWith_cons_cons, mglsaDff_cons]
      rw [h]
      simp only
      have e1 : ∀ p q : K, x + y - (p + q) = (x - p) + (y - q) := fun p q => by ring
      rw [e1]
      refine Prod.ext rfl ?_
      simp only
      by_cases hc : c.length = 0
      · simp only [if_pos hc, List.zipWith_cons_cons]
      · simp only [if_neg hc]
        rw [← dffOut_add d0 e0 _ _ hde alpha c.length _ _ _ _ hr, List.zipWith_cons_cons]

theorem mglsaDff_smul (a : K) (d : List K) (x alpha : K) (c : List K) :
    mglsaDff (d.map (a * ·)) (a * x) alpha c =
      (a * (mglsaDff d x alpha c).1, (mglsaDff d x alpha c).2.map (a * ·)) := by
  cases d with
  | nil => simp [mglsaDff_nil]
  | cons d0 dt =>
    have h := foldl_hom (sc3 a) _ _ (dffStep_smul a (d0 :: dt) alpha c)
      (List.range (c.length - 2)) (d0 * c.getD 1 0, [], d0)
    simp only [sc3, List.map_cons, List.map_nil, ← mul_assoc] at h
    simp only [List.map_cons, mglsaDff_cons]
    rw [h]
    simp only
    rw [← mul_sub]
    refine Prod.ext rfl ?_
    simp only
    by_cases hc : c.length = 0
    · simp only [if_pos hc, List.map_cons]
    · simp only [if_neg hc]
      rw [← dffOut_smul, List.map_cons]

theorem mglsaDff_len_eq (d e : List K) (hde : d.length = e.length) (x y alpha : K) (c : List K) :
    (mglsaDff d x alpha c).2.length = (mglsaDff e y alpha c).2.length := by
  cases d with
  | nil => cases e with
    | nil => rfl
    | cons e0 et => simp at hde
  | cons d0 dt => cases e with
    | nil => simp at hde
    | cons e0 et =>
      simp only [mglsaDff_cons]
      by_cases hc : c.length = 0
      · simp only [if_pos hc]; exact hde
      · simp only [if_neg hc, dffOut_len, foldl_dffStep_len, hde]

theorem mglsaDff_len_keep (d : List K) (x alpha : K) (c : List K) (hd : d.length = c.length)
    (hc1 : c.length ≠ 1) : (mglsaDff d x alpha c).2.length = c.length := by
  cases d with
  | nil => simpa [mglsaDff_nil] using hd
  | cons d0 dt =>
      simp only [mglsaDff_cons]
      by_cases hc : c.length = 0
      · simp only [if_pos hc]; exact hd
      · simp only [if_neg hc, dffOut_len, foldl_dffStep_len, hd, List.length_range, List.length_nil]
        omega

theorem mglsaDff_one (d : List K) (x alpha : K) (c : List K) (hc : c.length = 1) :
    (mglsaDff d x alpha c).1 = x := by
  cases d with
  | nil => rfl
  | cons d0 dt =>
    match c, hc with
    | [c0], _ => simp [mglsaDff_cons]

/-- one step of the fold over the sections -/
def dfStep (alpha : K) (c : List K) (acc : K × List (List K)) (d : List K) : K × List (List K) :=
  ((mglsaDff d acc.1 alpha c).1, acc.2 ++ [(mglsaDff d acc.1 alpha c).2])

theorem mglsaDf_eq (ds : List (List K)) (x alpha : K) (c : List K) :
    mglsaDf ds x alpha c = ds.foldl (dfStep alpha c) (x, []) := rfl

theorem foldl_dfStep_acc (alpha : K) (c : List K) (ds : List (List K)) (x : K) (out : List (List K)) :
    ds.foldl (dfStep alpha c) (x, out) =
      ((ds.foldl (dfStep alpha c) (x, [])).1, out ++ (ds.foldl (dfStep alpha c) (x, [])).2) := by
  induction ds generalizing x out with
  | nil => simp
  | cons d ds ih =>
    simp only [List.foldl_cons, dfStep]
    rw [ih _ (out ++ _), ih _ ([] ++ _)]
    simp

theorem mglsaDf_nil (x alpha : K) (c : List K) : mglsaDf ([] : List (List K)) x alpha c = (x, []) := rfl

theorem mglsaDf_cons (d : List K) (ds : List (List K)) (x alpha : K) (c : List K) :
    mglsaDf (d :: ds) x alpha c =
      ((mglsaDf ds (mglsaDff d x alpha c).1 alpha c).1,
        (mglsaDff d x alpha c).2 :: (mglsaDf ds (mglsaDff d x alpha c).1 alpha c).2) := by
  simp only [mglsaDf_eq, List.foldl_cons]
  rw [foldl_dfStep_acc]
  simp [dfStep]

theorem mglsaDf_add (ds es : List (List K)) (h : SameSh ds es) (x y alpha : K) (c : List K) :
    mglsaDf (List.zipWith (List.zipWith (· + ·)) ds es) (x + y) alpha c =
      ((mglsaDf ds x alpha c).1 + (mglsaDf es y alpha c).1,
        List.zipWith (List.zipWith (· + ·)) (mglsaDf ds x alpha c).2 (mglsaDf es y alpha c).2) := by
  induction h generalizing x y with
  | nil => simp [mglsaDf_nil]
  | cons hr _ ih =>
    simp only [List.zipWith_cons_cons, mglsaDf_cons, mglsaDff_add _ _ hr, ih]

theorem mglsaDf_sameSh (ds es : List (List K)) (h : SameSh ds es) (x y alpha : K) (c : List K) :
    SameSh (mglsaDf ds x alpha c).2 (mglsaDf es y alpha c).2 := by
  induction h generalizing x y with
  | nil => exact List.Forall₂.nil
  | cons hr _ ih =>
    simp only [mglsaDf_cons]
    exact List.Forall₂.cons (mglsaDff_len_eq _ _ hr _ _ alpha c) (ih _ _)

theorem mglsaDf_smul (a : K) (ds : List (List K)) (x alpha : K) (c : List K) :
    mglsaDf (ds.map (·.map (a * ·))) (a * x) alpha c =
      (a * (mglsaDf ds x alpha c).1, (mglsaDf ds x alpha c).2.map (·.map (a * ·))) := by
  induction ds generalizing x with
  | nil => simp [mglsaDf_nil]
  | cons d ds ih => simp only [List.map_cons, mglsaDf_cons, mglsaDff_smul, ih]

theorem mglsaDf_length (ds : List (List K)) (x alpha : K) (c : List K) :
    (mglsaDf ds x alpha c).2.length = ds.length := by
  induction ds generalizing x with
  | nil => rfl
  | cons d ds ih => simp only [mglsaDf_cons, List.length_cons, ih]

theorem mglsaDf_keep (ds : List (List K)) (x alpha : K) (c : List K) (hc1 : c.length ≠ 1)
    (h : ∀ d ∈ ds, d.length = c.length) : ∀ d ∈ (mglsaDf ds x alpha c).2, d.length = c.length := by
  induction ds generalizing x with
  | nil => simp [mglsaDf_nil]
  | cons d ds ih =>
    simp only [mglsaDf_cons, List.mem_cons]
    rintro r (rfl | hr)
    · exact mglsaDff_len_keep d x alpha c (h d List.mem_cons_self) hc1
    · exact ih _ (fun d hd => h d (List.mem_cons_of_mem _ hd)) r hr

theorem mglsaDf_one (ds : List (List K)) (x alpha : K) (c : List K) (hc : c.length = 1) :
    (mglsaDf ds x alpha c).1 = x := by
  induction ds generalizing x with
  | nil => rfl
  | cons d ds ih => simp only [mglsaDf_cons, ih, mglsaDff_one _ _ _ _ hc]

theorem mglsaRun_one (alpha : K) (c : List K) (hc : c.length = 1) (ds : List (List K)) (xs : List K) :
    mglsaRun alpha c ds xs = xs := by
  induction xs generalizing ds with
  | nil => rfl
  | cons x xs ih => simp only [mglsaRun, ih, mglsaDf_one _ _ _ _ hc]

theorem mglsaRun_add_gen (alpha : K) (c : List K) (ds es : List (List K)) (h : SameSh ds es)
    (xs ys : List K) (hl : xs.length = ys.length) :
    mglsaRun alpha c (List.zipWith (List.zipWith (· + ·)) ds es) (List.zipWith (· + ·) xs ys) =
      List.zipWith (· + ·) (mglsaRun alpha c ds xs) (mglsaRun alpha c es ys) := by
  induction xs generalizing ys ds es with
  | nil => cases ys with
    | nil => rfl
    | cons y ys => simp at hl
  | cons x xs ih => cases ys with
    | nil => simp at hl
    | cons y ys =>
      simp only [List.length_cons, Nat.add_right_cancel_iff] at hl
      simp only [List.zipWith_cons_cons, mglsaRun, mglsaDf_add ds es h]
      rw [ih _ _ (mglsaDf_sameSh ds es h x y alpha c) ys hl]

theorem mglsaRun_smul_gen (a alpha : K) (c : List K) (ds : List (List K)) (xs : List K) :
    mglsaRun alpha c (ds.map (·.map (a * ·))) (xs.map (a * ·)) = (mglsaRun alpha c ds xs).map (a * ·) := by
  induction xs generalizing ds with
  | nil => rfl
  | cons x xs ih => simp only [List.map_cons, mglsaRun, mglsaDf_smul, ih]

theorem mglsaInit_sameSh (stage clen : Nat) :
    SameSh (mglsaInit stage clen : List (List K)) (mglsaInit stage clen) := by
  induction stage with
  | zero => exact List.Forall₂.nil
  | succ n ih => exact List.Forall₂.cons rfl ih

theorem mglsaInit_add (stage clen : Nat) :
    List.zipWith (List.zipWith (· + ·)) (mglsaInit stage clen : List (List K)) (mglsaInit stage clen) =
      mglsaInit stage clen := by
  simp [mglsaInit]

theorem mglsaInit_smul (a : K) (stage clen : Nat) :
    (mglsaInit stage clen : List (List K)).map (·.map (a * ·)) = mglsaInit stage clen := by
  simp [mglsaInit]

theorem mglsaRun_add (alpha : K) (c : List K) (stage : Nat) (xs ys : List K) (h : xs.length = ys.length) :
    mglsaRun alpha c (mglsaInit stage c.length) (List.zipWith (· + ·) xs ys) =
      List.zipWith (· + ·) (mglsaRun alpha c (mglsaInit stage c.length) xs) (mglsaRun alpha c (mglsaInit stage c.length) ys) := by
  have := mglsaRun_add_gen alpha c _ _ (mglsaInit_sameSh stage c.length) xs ys h
  rwa [mglsaInit_add] at this

theorem mglsaRun_smul (a alpha : K) (c : List K) (stage : Nat) (xs : List K) :
    mglsaRun alpha c (mglsaInit stage c.length) (xs.map (a * ·)) = (mglsaRun alpha c (mglsaInit stage c.length) xs).map (a * ·) := by
  have := mglsaRun_smul_gen a alpha c (mglsaInit stage c.length) xs
  rwa [mglsaInit_smul] at this

theorem map_map_zero_mul (n : Nat) (l : List (List K)) (h : ∀ r ∈ l, r.length = n) :
    l.map (·.map (0 * ·)) = List.replicate l.length (List.replicate n 0) := by
  induction l with
  | nil => rfl
  | cons r l ih =>
    simp only [List.map_cons, List.length_cons, List.replicate_succ]
    rw [ih (fun r hr => h r (List.mem_cons_of_mem _ hr)), map_zero_mul, h r List.mem_cons_self]

theorem mglsaDf_init_zero (alpha : K) (c : List K) (stage : Nat) (hc1 : c.length ≠ 1) :
    mglsaDf (mglsaInit stage c.length) 0 alpha c = (0, mglsaInit stage c.length) := by
  have h := mglsaDf_smul 0 (mglsaInit stage c.length) 0 alpha c
  have hk := mglsaDf_keep (mglsaInit stage c.length) 0 alpha c hc1 (by
    intro d hd
    simp only [mglsaInit] at hd
    rw [List.eq_of_mem_replicate hd]; simp)
  rw [mglsaInit_smul, mul_zero, zero_mul, map_map_zero_mul _ _ hk, mglsaDf_length] at h
  rw [h]
  simp [mglsaInit]

theorem mglsaRun_delay (alpha : K) (c : List K) (stage : Nat) (xs : List K) :
    mglsaRun alpha c (mglsaInit stage c.length) (0 :: xs) = 0 :: mglsaRun alpha c (mglsaInit stage c.length) xs := by
  by_cases hc : c.length = 1
  · rw [mglsaRun_one alpha c hc, mglsaRun_one alpha c hc]
  · simp only [mglsaRun, mglsaDf_init_zero alpha c stage hc]

theorem mglsaRun_take (alpha : K) (c : List K) (ds : List (List K)) (xs : List K) (m : Nat) :
    mglsaRun alpha c ds (xs.take m) = (mglsaRun alpha c ds xs).take m := by
  induction xs generalizing ds m with
  | nil => simp [mglsaRun]
  | cons x xs ih => cases m with
    | zero => simp [mglsaRun]
    | succ m => simp only [List.take_succ_cons, mglsaRun, ih]

theorem mglsaRun_length (alpha : K) (c : List K) (ds : List (List K)) (xs : List K) :
    (mglsaRun alpha c ds xs).length = xs.length := by
  induction xs generalizing ds with
  | nil => rfl
  | cons x xs ih => simp only [mglsaRun, List.length_cons, ih]

def mglsaPulse (alpha : K) (c : List K) (stage len : Nat) : List K :=
  mglsaRun alpha c (mglsaInit stage c.length) ((List.range len).map fun i => if i = 0 then 1 else 0)

/-- **The MGLSA filter is the convolution with its pulse response.** -/
theorem mglsaRun_convolution (alpha : K) (c : List K) (stage : Nat) (xs : List K) (n : Nat) (hn : n < xs.length) :
    (mglsaRun alpha c (mglsaInit stage c.length) xs).getD n 0 =
      (Finset.range (n + 1)).sum fun k => (mglsaPulse alpha c stage xs.length).getD k 0 * xs.getD (n - k) 0 :=
  lti_convolution (mglsaRun alpha c (mglsaInit stage c.length))
    (mglsaRun_take alpha c _) (mglsaRun_length alpha c _)
    (mglsaRun_add alpha c stage) (fun a xs => mglsaRun_smul a alpha c stage xs)
    (mglsaRun_delay alpha c stage) xs n hn

end Jb
