/-
  More property theorems lifted from stage / engine level to the whole library (`Synth.synthesize`,
  `Synth.params`, `Synth.durations`, `Synth.stream`): continuation of `Jb/Proofs/SynthBridge.lean`.
  Only `Proofs/` and `Model/` files are imported (no `Props/` file), so every `Props/Cxx.lean` that does not sit below
  `SynthBridge` (C09, C05, C19, C10, C12, C17) may import this file.

    1. C09  `durations_alignment` (alignment on: the library's durations are `createWithAlignment true` on
            `Models::duration` and the caller's time list; no label vanishes; the cumulative law),
            `durations_alignment_round_end` (frames through an aligned label = rounded end time),
            `condOf_snoc_align`, `groupStart_le`, `cumulative_round_end`
    2. C19 / C10  `engineIn_congr_iw`, `synthesize_congr_iw`, `params_congr_iw` (which weights are read),
            `synthesize_rejected_update`, `synthesize_after_rejected`, `synthesize_bad_sum_update`,
            `synthesize_same_weights`, `modelStream_accepted_other`, `modelsDuration_accepted_other`
    3. C05  `engineStream_ml` (engine level), `params_maximum_likelihood` (whole library), `mlpgStates`,
            `GenParams.traj`
    4. C12  `modelStream_gv`, `modelsGv_spec`, `engineIn_gv_switch`, `engineIn_gv_switch_eq` (the switch),
            `stream_gv_self_no_gv`, `stream_gv_no_gv`, `synthesize_gv_no_gv` (no GV: the GV weight is not read)
    5. C17  `synthesizeLines`, `synthesizeLines_blank`, `synthesizeLines_filter_blank`
-/
import Jb.Proofs.SynthBridge
import Jb.Proofs.Align
import Jb.Proofs.MlpgMl
import Jb.Model.Label

set_option linter.unusedSectionVars false
set_option linter.unusedVariables false

namespace Jb
namespace Synth
open Hts

variable {K : Type} [Field K] [LinearOrder K] [IsStrictOrderedRing K] [FloorRing K]
  [Transc K] [Consts K] [MlpgConsts K] [FromFile K]

/-! ### 1. C09 lifted: phoneme alignment is honoured by `synthesize` -/

/-- **C09 for the whole library.** After any setter history that leaves alignment on, for a well-formed voice set and
    one time pair per label: `Models::duration` returns `dur` (one Gaussian per state of every label), the durations
    `Engine::generator` chooses are `create_with_alignment(times)` on `dur` — whatever the speed setting and the speed
    test —, there is one duration per state of every label and each is at least one frame (no label vanishes), the
    waveform has `frame_period × Σ durations` samples, and for every label `i` with a known (non-negative) end `e`
    the cumulative law of `C09.aligned_cumulative` holds with the caller's `times`: with `g` the start of the group
    closed by label `i`, `c` the frames before the group and `m` the number of states in the group, if
    `round(e − c) > m` the frames up to and including label `i` are `c + round(e − c)`, otherwise every state of the
    group lasts exactly one frame. -/
theorem durations_alignment (fx : Fix) (big : K) (voices : List ParsedVoice) (iw : IW K) (h : VoicesWF voices iw)
    (v0 : ParsedVoice) (hv0 : voices.head? = some v0) (ops : List (CondOp K)) (f : Condition K → Bool)
    (labels : List (List Char)) (times : List (K × K))
    (hal : (condOf (K := K) v0 ops).alignment = true) (hlen : times.length = labels.length) :
    ∃ (dur : List (MeanVari K)) (durs : List Nat) (w : List K),
      modelsDuration voices iw labels = .ok dur ∧ dur.length = labels.length * v0.global.nstates ∧
      durations big voices iw ops f labels times = .ok durs ∧
      createWithAlignment true dur v0.global.nstates times = .ok durs ∧
      durs.length = labels.length * v0.global.nstates ∧ (∀ d ∈ durs, 1 ≤ d) ∧
      synthesize fx big voices iw ops f labels times = .ok w ∧
      w.length = (condOf (K := K) v0 ops).fperiod * durs.sum ∧
      ∀ i, i < times.length → 0 ≤ (times.getD i (0, 0)).2 →
        let e := (times.getD i (0, 0)).2
        let g := groupStart times i
        let c := (durs.take (g * v0.global.nstates)).sum
        let m := (i + 1 - g) * v0.global.nstates
        (m < RoundNat.roundMax1 (e - (c : K)) →
            (durs.take ((i + 1) * v0.global.nstates)).sum = c + RoundNat.roundMax1 (e - (c : K))) ∧
        (RoundNat.roundMax1 (e - (c : K)) ≤ m →
            ∀ x ∈ (durs.drop (g * v0.global.nstates)).take m, x = 1) := by
  obtain ⟨inp, durs, w, hin, hD, hW, hwl, hdl, hdp⟩ :=
    synthesize_total' fx big voices iw h v0 hv0 ops f labels times (fun _ => hlen)
  obtain ⟨inp', hin', -, hidl⟩ := engineIn_total big voices iw h v0 hv0 ops labels times (fun _ => hlen)
  rw [hin, Outcome.ok.injEq] at hin'
  subst hin'
  have hnst : 0 < v0.global.nstates := (h.head v0 hv0).nstates_pos
  have hdur := engineIn_duration big voices iw labels times inp hin
  cases voices with
  | nil => simp at hv0
  | cons v0' vs =>
    simp only [List.head?_cons, Option.some.injEq] at hv0
    subst hv0
    obtain ⟨hns, -, htimes, -, -⟩ := engineIn_fields big v0' vs iw labels times inp hin
    have hC : createWithAlignment true inp.duration v0'.global.nstates times = .ok durs := by
      unfold engineDurations at hD
      rw [hal] at hD
      simp only [if_true] at hD
      rw [hns, htimes] at hD
      exact hD
    refine ⟨inp.duration, durs, w, hdur, hidl, ?_, hC, hdl, hdp, hW, hwl, ?_⟩
    · rw [durations_eq_engine big v0' vs iw ops f labels times inp hin]; exact hD
    · intro i hi he
      exact align_cumulative inp.duration v0'.global.nstates times hnst (by rw [hidl, hlen]) durs hC i hi he

theorem condOf_snoc_align (v0 : ParsedVoice) (ops : List (CondOp K)) (b : Bool) :
    condOf (K := K) v0 (ops ++ [.align b]) = (condOf v0 ops).setAlignment b := by
  rw [condOf_snoc]; rfl

/-- non-vacuity: the one-voice set `Tiny.voice` is well-formed and `set_alignment(true)` turns alignment on, so every
    hypothesis of `durations_alignment` is met for one label with the time pair `(0, 5)` -/
example (fx : Fix) (big : K) (f : Condition K → Bool) (l : List Char) :
    ∃ durs w, durations big [Tiny.voice] (Tiny.weights (K := K)) ([] ++ [.align true]) f [l] [(0, 5)] = .ok durs ∧
      synthesize fx big [Tiny.voice] (Tiny.weights (K := K)) ([] ++ [.align true]) f [l] [(0, 5)] = .ok w ∧
      (∀ d ∈ durs, 1 ≤ d) := by
  obtain ⟨dur, durs, w, -, -, h1, -, -, h2, h3, -, -⟩ := durations_alignment fx big [Tiny.voice]
    (Tiny.weights (K := K)) Tiny.voicesWF Tiny.voice rfl ([] ++ [.align true]) f [l] [(0, 5)]
    (by rw [condOf_snoc_align]; rfl) rfl
  exact ⟨durs, w, h1, h3, h2⟩

theorem groupStart_le (times : List (K × K)) : ∀ i, groupStart times i ≤ i
  | 0 => le_rfl
  | i + 1 => by
    rw [groupStart]
    split_ifs
    · exact le_rfl
    · exact Nat.le_succ_of_le (groupStart_le times i)

/-- when the rounded remaining time exceeds the number of states of the group, `c + round(e − c)` is `round(e)` -/
theorem cumulative_round_end (e : K) (c m : Nat) (hm : 1 ≤ m) (h : m < RoundNat.roundMax1 (e - (c : K))) :
    c + RoundNat.roundMax1 (e - (c : K)) = ⌊e + 1 / 2⌋₊ := by
  have hfl : ⌊e - (c : K) + 1 / 2⌋₊ = ⌊e + 1 / 2⌋₊ - c := by
    have e' : e - (c : K) + 1 / 2 = e + 1 / 2 - (c : K) := by ring
    rw [e', ← Int.floor_toNat, ← Int.floor_toNat, Int.floor_sub_natCast]
    omega
  rw [roundMax1_def, hfl] at h ⊢
  omega

/-- **… and the frames through an aligned label are its rounded end time.** Same setting; `durs` the durations the
    library chooses. For a label `i` with known end `e` whose group (the labels since the last known end) has fewer
    states than the rounded remaining time `round(e − c)`, the number of frames up to and including label `i` is
    exactly `round(e) = ⌊e + ½⌋`. -/
theorem durations_alignment_round_end (big : K) (voices : List ParsedVoice) (iw : IW K) (h : VoicesWF voices iw)
    (v0 : ParsedVoice) (hv0 : voices.head? = some v0) (ops : List (CondOp K)) (f : Condition K → Bool)
    (labels : List (List Char)) (times : List (K × K))
    (hal : (condOf (K := K) v0 ops).alignment = true) (hlen : times.length = labels.length)
    (durs : List Nat) (hd : durations big voices iw ops f labels times = .ok durs)
    (i : Nat) (hi : i < times.length) (he : 0 ≤ (times.getD i (0, 0)).2) :
    let e := (times.getD i (0, 0)).2
    let g := groupStart times i
    let c := (durs.take (g * v0.global.nstates)).sum
    (i + 1 - g) * v0.global.nstates < RoundNat.roundMax1 (e - (c : K)) →
      (durs.take ((i + 1) * v0.global.nstates)).sum = ⌊e + 1 / 2⌋₊ := by
  obtain ⟨dur, durs', w, -, -, hd', -, -, -, -, -, hcum⟩ :=
    durations_alignment Fix.repaired big voices iw h v0 hv0 ops f labels times hal hlen
  rw [hd, Outcome.ok.injEq] at hd'
  subst hd'
  intro e g c hlt
  have hnst : 0 < v0.global.nstates := (h.head v0 hv0).nstates_pos
  have hg : g ≤ i := groupStart_le times i
  have hm : 1 ≤ (i + 1 - g) * v0.global.nstates := Nat.mul_pos (by omega) hnst
  rw [(hcum i hi he).1 hlt]
  exact cumulative_round_end e c _ hm hlt

/-! ### 2. C19 / C10 lifted: the interpolation weights `synthesize` reads; a rejected update changes nothing -/

/-- the weight vectors stream `i` reads: `parameter[i]` and `gv[i]` -/
def StreamWeightsSame (iw iw' : IW K) (i : Nat) : Prop :=
  iw.parameter.getD i [] = iw'.parameter.getD i [] ∧ iw.gv.getD i [] = iw'.gv.getD i []

/-- `Models::model_stream(i)` reads `parameter[i]` and `gv[i]` only -/
theorem modelStream_congr_iw (big : K) (voices : List ParsedVoice) (iw iw' : IW K) (labels : List (List Char))
    (n i : Nat) (h : StreamWeightsSame iw iw' i) :
    modelStream big voices iw labels n i = modelStream big voices iw' labels n i := by
  unfold modelStream
  rw [stream_reads_its_parameter_weights big voices iw iw' labels n i h.1,
    gv_reads_its_gv_weights voices iw iw' labels n i h.2]

/-- the stage inputs read the duration weights and, for each stream of the first voice, `parameter[i]` and `gv[i]` —
    nothing else of the interpolation weights (not `nvoices`, not the vectors of streams that do not exist) -/
theorem engineIn_congr_iw (big : K) (voices : List ParsedVoice) (iw iw' : IW K) (labels : List (List Char))
    (times : List (K × K)) (hd : iw.duration = iw'.duration)
    (hs : ∀ v0, voices.head? = some v0 → ∀ i < v0.global.nstreams, StreamWeightsSame iw iw' i) :
    engineIn big voices iw labels times = engineIn big voices iw' labels times := by
  cases voices with
  | nil => rfl
  | cons v0 vs =>
    unfold engineIn
    simp only
    rw [duration_reads_duration_weights (v0 :: vs) iw iw' labels hd]
    have hmap : ((List.range v0.global.nstreams).map fun i => modelStream big (v0 :: vs) iw labels v0.global.nstates i) =
        ((List.range v0.global.nstreams).map fun i => modelStream big (v0 :: vs) iw' labels v0.global.nstates i) := by
      apply List.map_congr_left
      intro i hi
      exact modelStream_congr_iw big (v0 :: vs) iw iw' labels _ i (hs v0 rfl i (List.mem_range.1 hi))
    rw [hmap]

/-- **which weights, for the whole library**: two interpolation-weight states with the same duration weights and the
    same `parameter[i]`, `gv[i]` for every stream give the same outcome of `synthesize` — any voice set, history,
    labels, any outcome -/
theorem synthesize_congr_iw (fx : Fix) (big : K) (voices : List ParsedVoice) (iw iw' : IW K) (ops : List (CondOp K))
    (f : Condition K → Bool) (labels : List (List Char)) (times : List (K × K)) (hd : iw.duration = iw'.duration)
    (hs : ∀ v0, voices.head? = some v0 → ∀ i < v0.global.nstreams, StreamWeightsSame iw iw' i) :
    synthesize fx big voices iw ops f labels times = synthesize fx big voices iw' ops f labels times := by
  cases voices with
  | nil => rfl
  | cons v0 vs =>
    rw [synthesize_cons, synthesize_cons, engineIn_congr_iw big (v0 :: vs) iw iw' labels times hd hs]

/-- … and so for the generator parameters -/
theorem params_congr_iw (big : K) (voices : List ParsedVoice) (iw iw' : IW K) (ops : List (CondOp K))
    (f : Condition K → Bool) (labels : List (List Char)) (times : List (K × K)) (hd : iw.duration = iw'.duration)
    (hs : ∀ v0, voices.head? = some v0 → ∀ i < v0.global.nstreams, StreamWeightsSame iw iw' i) :
    params big voices iw ops f labels times = params big voices iw' ops f labels times := by
  cases voices with
  | nil => rfl
  | cons v0 vs =>
    unfold params
    simp only
    rw [engineIn_congr_iw big (v0 :: vs) iw iw' labels times hd hs]

/-- a rejected weight update leaves the interpolation-weight state as it was -/
theorem applyIWHistory_snoc_rejected (eps : K) (iw : IW K) (wops : List (IWOp K)) (op : IWOp K)
    (h : ∀ s, IWOp.apply eps (applyIWHistory eps iw wops) op ≠ .ok s) :
    applyIWHistory eps iw (wops ++ [op]) = applyIWHistory eps iw wops := by
  rw [applyIWHistory_append, applyIWHistory_cons]
  cases hr : IWOp.apply eps (applyIWHistory eps iw wops) op with
  | ok s' => exact absurd hr (h s')
  | err e => rfl
  | panic m => rfl

theorem applyIWHistory_drop_rejected (eps : K) (iw : IW K) (wops₁ wops₂ : List (IWOp K)) (op : IWOp K)
    (h : ∀ s, IWOp.apply eps (applyIWHistory eps iw wops₁) op ≠ .ok s) :
    applyIWHistory eps iw (wops₁ ++ op :: wops₂) = applyIWHistory eps iw (wops₁ ++ wops₂) := by
  rw [applyIWHistory_append, applyIWHistory_append, applyIWHistory_cons]
  cases hr : IWOp.apply eps (applyIWHistory eps iw wops₁) op with
  | ok s' => exact absurd hr (h s')
  | err e => rfl
  | panic m => rfl

/-- **C19 for the whole library.** In any history of weight updates (`set_duration_interpolation_weight`,
    `set_parameter_interpolation_weight`, `set_gv_interpolation_weight`) starting from any weight state `iw₀`, an update
    that is not accepted — wrong sum (`Err`), wrong count (`Err`) or a stream index out of range (panic caught by the
    caller) — can be dropped from the history without changing the outcome of `synthesize`: for every voice set,
    setter history, label text and time stamps, whatever the outcome. -/
theorem synthesize_rejected_update (fx : Fix) (big : K) (voices : List ParsedVoice) (eps : K) (iw₀ : IW K)
    (wops₁ wops₂ : List (IWOp K)) (op : IWOp K) (ops : List (CondOp K)) (f : Condition K → Bool)
    (labels : List (List Char)) (times : List (K × K))
    (h : ∀ s, IWOp.apply eps (applyIWHistory eps iw₀ wops₁) op ≠ .ok s) :
    synthesize fx big voices (applyIWHistory eps iw₀ (wops₁ ++ op :: wops₂)) ops f labels times =
      synthesize fx big voices (applyIWHistory eps iw₀ (wops₁ ++ wops₂)) ops f labels times := by
  rw [applyIWHistory_drop_rejected eps iw₀ wops₁ wops₂ op h]

/-- … in particular synthesis right after a rejected update is synthesis with the weights in force before it -/
theorem synthesize_after_rejected (fx : Fix) (big : K) (voices : List ParsedVoice) (eps : K) (iw₀ : IW K)
    (wops : List (IWOp K)) (op : IWOp K) (ops : List (CondOp K)) (f : Condition K → Bool)
    (labels : List (List Char)) (times : List (K × K))
    (h : ∀ s, IWOp.apply eps (applyIWHistory eps iw₀ wops) op ≠ .ok s) :
    synthesize fx big voices (applyIWHistory eps iw₀ (wops ++ [op])) ops f labels times =
      synthesize fx big voices (applyIWHistory eps iw₀ wops) ops f labels times := by
  rw [applyIWHistory_snoc_rejected eps iw₀ wops op h]

/-- an update whose weights do not sum to 1 (within `eps`) is such an update, whatever its length and index -/
theorem synthesize_bad_sum_update (fx : Fix) (big : K) (voices : List ParsedVoice) (eps : K) (iw₀ : IW K)
    (wops₁ wops₂ : List (IWOp K)) (op : IWOp K) (ops : List (CondOp K)) (f : Condition K → Bool)
    (labels : List (List Char)) (times : List (K × K))
    (hs : ¬ |(match op with | .dur w => w | .par _ w => w | .gv _ w => w).sum - 1| ≤ eps) :
    synthesize fx big voices (applyIWHistory eps iw₀ (wops₁ ++ op :: wops₂)) ops f labels times =
      synthesize fx big voices (applyIWHistory eps iw₀ (wops₁ ++ wops₂)) ops f labels times := by
  apply synthesize_rejected_update
  intro s hok
  have : IWOp.apply eps (applyIWHistory eps iw₀ wops₁) op = .err .invalidSum := by
    cases op with
    | dur w0 => simp only [IWOp.apply, IW.setDuration, validate_bad_sum eps _ _ hs]
    | par i w0 => simp only [IWOp.apply, IW.setParameter, validate_bad_sum eps _ _ hs]
    | gv i w0 => simp only [IWOp.apply, IW.setGv, validate_bad_sum eps _ _ hs]
  rw [this] at hok
  cases hok

/-- two weight histories (from any two starting states) that end in the same weight vectors give the same waveform -/
theorem synthesize_same_weights (fx : Fix) (big : K) (voices : List ParsedVoice) (eps eps' : K) (iw₀ iw₀' : IW K)
    (wops wops' : List (IWOp K)) (ops : List (CondOp K)) (f : Condition K → Bool)
    (labels : List (List Char)) (times : List (K × K))
    (h : ∀ q, (applyIWHistory eps iw₀ wops).select q = (applyIWHistory eps' iw₀' wops').select q) :
    synthesize fx big voices (applyIWHistory eps iw₀ wops) ops f labels times =
      synthesize fx big voices (applyIWHistory eps' iw₀' wops') ops f labels times :=
  synthesize_congr_iw fx big voices _ _ ops f labels times (h .dur) (fun _ _ i _ => ⟨h (.par i), h (.gv i)⟩)

/-- **an accepted update changes only the quantity it addresses** (C10 "which weights", whole library): the stage
    inputs' stream `j` after an accepted update `op` is the stream before it unless `op` addresses `parameter[j]` or
    `gv[j]` -/
theorem modelStream_accepted_other (big : K) (voices : List ParsedVoice) (eps : K) (iw s : IW K) (op : IWOp K)
    (hok : IWOp.apply eps iw op = .ok s) (labels : List (List Char)) (n j : Nat)
    (hj : op.target ≠ .par j ∧ op.target ≠ .gv j) :
    modelStream big voices s labels n j = modelStream big voices iw labels n j := by
  obtain ⟨-, hsel⟩ := apply_ok_select eps iw s op hok
  exact modelStream_congr_iw big voices s iw labels n j
    ⟨hsel (.par j) (Ne.symm hj.1), hsel (.gv j) (Ne.symm hj.2)⟩

/-- … and `Models::duration` is unchanged unless `op` addresses the duration weights -/
theorem modelsDuration_accepted_other (voices : List ParsedVoice) (eps : K) (iw s : IW K) (op : IWOp K)
    (hok : IWOp.apply eps iw op = .ok s) (labels : List (List Char)) (hj : op.target ≠ .dur) :
    modelsDuration voices s labels = modelsDuration voices iw labels := by
  obtain ⟨-, hsel⟩ := apply_ok_select eps iw s op hok
  exact duration_reads_duration_weights voices s iw labels (hsel .dur (Ne.symm hj))

/-! ### 3. C05 lifted: without GV, the trajectories `synthesize` feeds the vocoder are the maximum-likelihood ones -/

theorem withIvar_vari_congr (p q : MeanVari K) (h : p.vari = q.vari) : (withIvar p).vari = (withIvar q).vari := by
  unfold withIvar; simp only [h]

/-- `apply_additional_half_tone` leaves every variance where it was -/
theorem applyHalfTone_varis (stream : List (StateParam K)) (h : K) (st : StateParam K)
    (hst : st ∈ applyHalfTone stream h) :
    ∃ st' ∈ stream, st.params.map (·.vari) = st'.params.map (·.vari) := by
  unfold applyHalfTone at hst
  split at hst
  · exact ⟨st, hst, rfl⟩
  · simp only [List.mem_map] at hst
    obtain ⟨st', hm, rfl⟩ := hst
    refine ⟨st', hm, ?_⟩
    rcases st' with ⟨_ | ⟨p, rest⟩, msd⟩ <;> rfl

/-- the state Gaussians stream `j` hands to MLPG: log-F0 (`j = 1`) after `apply_additional_half_tone` -/
def mlpgStates (c : Condition K) (s : StreamIn K) (j : Nat) : List (StateParam K) :=
  if j = 1 then applyHalfTone s.stream c.halfTone else s.stream

theorem mlpgStates_of_zero (c : Condition K) (s : StreamIn K) (j : Nat) (h : j = 1 → c.halfTone = 0) :
    mlpgStates c s j = s.stream := by
  unfold mlpgStates
  split_ifs with h1
  · rw [h h1, applyHalfTone_zero]
  · rfl

/-- **engine level.** On well-formed stage inputs, for a stream `s` without GV, first window the static window `[1]`,
    non-negative precisions and positive static precisions: `engineStream` returns a trajectory with one row per frame
    whose column `m`, restricted to the voiced frames, maximises the Gaussian log-likelihood of the observations built
    from the state Gaussians handed to MLPG (`mlpgStates`), the durations and the windows. -/
theorem engineStream_ml (c : Condition K) (inp : EngineIn K) (hwf : EngineWF c inp) (durs : List Nat)
    (hdl : durs.length = inp.duration.length) (j : Nat) (hj : j < inp.nstream)
    (s : StreamIn K) (hs : inp.streams[j]? = some s) (thr : K) (hthr : c.msdThreshold[j]? = some thr)
    (hgv : s.gv = none) (hstatic : s.windows.head? = some [1])
    (hnonneg : ∀ st ∈ s.stream, ∀ p ∈ st.params, 0 ≤ (withIvar p).vari)
    (hdflt : 0 ≤ (withIvar (⟨0, 0⟩ : MeanVari K)).vari)
    (hpos : ∀ st ∈ s.stream, ∀ m, m < s.vectorLength → 0 < (withIvar (st.params.getD m ⟨0, 0⟩)).vari) :
    ∃ traj, engineStream c inp durs j = .ok traj ∧ traj.length = durs.sum ∧
      ∀ m, m < s.vectorLength →
        let mask := maskCreate s.stream thr durs
        let T := (mask.filter id).length
        let obs := createObs s.vectorLength (mlpgStates c s j) durs mask s.windows m
        let col := filterBy (traj.map fun r => r.getD m 0) mask
        col.length = T ∧
        ∀ c' : Fin T → K, loglik (obsOf s.windows obs T) c' ≤ loglik (obsOf s.windows obs T) (fun t => col.getD t.val 0) := by
  have hmem : s ∈ inp.streams := List.mem_of_getElem? hs
  obtain ⟨hswf, hsl, -⟩ := hwf.wf s hmem
  have hgw : c.gvWeight[j]? = some (c.gvWeight[j]'(by have := hwf.gvw; omega)) := List.getElem?_eq_getElem _
  generalize c.gvWeight[j]'_ = gw at hgw
  have hd : durs.length ≤ s.stream.length := by omega
  by_cases h1 : j = 1
  · have hw' : StreamWF { s with stream := applyHalfTone s.stream c.halfTone } :=
      ⟨hswf.1, fun st hst => by
        obtain ⟨st', hm, e⟩ := applyHalfTone_params _ _ st hst
        rw [e]; exact hswf.2 st' hm⟩
    have hd' : durs.length ≤ (applyHalfTone s.stream c.halfTone).length := by rw [applyHalfTone_length]; exact hd
    obtain ⟨traj, hr, hrl, -⟩ := mlpgCreate_shape_partial gw thr
      { s with stream := applyHalfTone s.stream c.halfTone } durs hw' hd' (by simp [hgv])
    refine ⟨traj, ?_, hrl, ?_⟩
    · unfold engineStream
      rw [hs, hgw, hthr]
      simpa [h1] using hr
    · intro m hm
      have hml := mlpgCreate_is_ml gw thr { s with stream := applyHalfTone s.stream c.halfTone } durs hgv hstatic hd'
        (by
          intro st hst p hp
          obtain ⟨st', hm', e⟩ := applyHalfTone_varis _ _ st hst
          have : p.vari ∈ st'.params.map (·.vari) := by rw [← e]; exact List.mem_map_of_mem hp
          obtain ⟨q, hq, hqv⟩ := List.mem_map.1 this
          rw [withIvar_vari_congr p q hqv.symm]
          exact hnonneg st' hm' q hq)
        hdflt
        (by
          intro st hst m' hm'
          obtain ⟨st', hmem', e⟩ := applyHalfTone_varis _ _ st hst
          have hv : (st.params.getD m' ⟨0, 0⟩).vari = (st'.params.getD m' ⟨0, 0⟩).vari := by
            have e1 := List.getD_map (f := fun p : MeanVari K => p.vari) (l := st.params) (d := ⟨0, 0⟩) (n := m')
            have e2 := List.getD_map (f := fun p : MeanVari K => p.vari) (l := st'.params) (d := ⟨0, 0⟩) (n := m')
            rw [← e1, ← e2, e]
          rw [withIvar_vari_congr _ _ hv]
          exact hpos st' hmem' m' hm')
        traj hr m hm
      dsimp only at hml
      generalize hmk : maskCreate (applyHalfTone s.stream c.halfTone) thr durs = mk at hml
      rw [applyHalfTone_mask] at hmk
      subst hmk
      have he : mlpgStates c s j = applyHalfTone s.stream c.halfTone := by unfold mlpgStates; rw [if_pos h1]
      simp only [he]
      exact hml
  · obtain ⟨traj, hr, hrl, -⟩ := mlpgCreate_shape_partial gw thr s durs hswf hd (by simp [hgv])
    refine ⟨traj, ?_, hrl, ?_⟩
    · unfold engineStream
      rw [hs, hgw, hthr]
      simpa [h1] using hr
    · intro m hm
      have he : mlpgStates c s j = s.stream := by unfold mlpgStates; rw [if_neg h1]
      simp only [he]
      exact mlpgCreate_is_ml gw thr s durs hgv hstatic hd hnonneg hdflt hpos traj hr m hm

/-- the trajectory of stream `j` among the generator parameters -/
def _root_.Jb.GenParams.traj (p : GenParams K) : Nat → List (List K)
  | 0 => p.spectrum
  | 1 => p.lf0
  | _ => p.lpf

/-- **C05 for the whole library.** Well-formed voice set, any setter history, any labels (one time pair per label if
    alignment is on). Let `s` be `Models::model_stream(j)` for these voices, weights and labels, and `thr` the MSD
    threshold the history leaves for stream `j`. If `s` has no GV, its first window is the static window `[1]`, the
    (inverted) variances are non-negative and the static ones positive — these four are hypotheses on `s`; that `s`
    is well-shaped (`StreamWF`) and has one state per duration follows from `VoicesWF` — then the generator parameters
    exist, trajectory `j` has one row per frame, and its column `m` restricted to the voiced frames maximises the
    Gaussian log-likelihood (the conclusion of `C05.create_total_and_ml`) for the library's own durations and the state
    Gaussians handed to MLPG: `s.stream` itself for spectrum and low-pass, and for log-F0 `s.stream` after
    `apply_additional_half_tone` (`mlpgStates`; equal to `s.stream` when the half tone is 0: `mlpgStates_of_zero`). -/
theorem params_maximum_likelihood (big : K) (voices : List ParsedVoice) (iw : IW K) (h : VoicesWF voices iw)
    (v0 : ParsedVoice) (hv0 : voices.head? = some v0) (ops : List (CondOp K)) (f : Condition K → Bool)
    (labels : List (List Char)) (times : List (K × K))
    (halign : (condOf (K := K) v0 ops).alignment = true → times.length = labels.length)
    (j : Nat) (hj : j < v0.global.nstreams)
    (s : StreamIn K) (hs : modelStream big voices iw labels v0.global.nstates j = .ok s)
    (hgv : s.gv = none) (hstatic : s.windows.head? = some [1])
    (hnonneg : ∀ st ∈ s.stream, ∀ p ∈ st.params, 0 ≤ (withIvar p).vari)
    (hdflt : 0 ≤ (withIvar (⟨0, 0⟩ : MeanVari K)).vari)
    (hpos : ∀ st ∈ s.stream, ∀ m, m < s.vectorLength → 0 < (withIvar (st.params.getD m ⟨0, 0⟩)).vari) :
    ∃ p thr, params big voices iw ops f labels times = .ok p ∧
      durations big voices iw ops f labels times = .ok p.durations ∧
      stream big voices iw ops labels times p.durations j = .ok (p.traj j) ∧
      (condOf (K := K) v0 ops).msdThreshold[j]? = some thr ∧
      (p.traj j).length = p.durations.sum ∧
      ∀ m, m < s.vectorLength →
        let mask := maskCreate s.stream thr p.durations
        let T := (mask.filter id).length
        let obs := createObs s.vectorLength (mlpgStates (condOf v0 ops) s j) p.durations mask s.windows m
        let col := filterBy ((p.traj j).map fun r => r.getD m 0) mask
        col.length = T ∧
        ∀ c' : Fin T → K, loglik (obsOf s.windows obs T) c' ≤ loglik (obsOf s.windows obs T) (fun t => col.getD t.val 0) := by
  obtain ⟨inp, hin, hwf, -⟩ := engineIn_total big voices iw h v0 hv0 ops labels times halign
  obtain ⟨p, hp, hd, hpl, -, h0, h1, h2, -, -, -, -⟩ :=
    engineParams_total (condOf v0 ops) (f (condOf v0 ops)) inp hwf
  have hns := (h.head v0 hv0).nstreams
  cases voices with
  | nil => simp at hv0
  | cons v0' vs =>
    simp only [List.head?_cons, Option.some.injEq] at hv0
    subst hv0
    obtain ⟨-, hnstream, -, -, hstr⟩ := engineIn_fields big v0' vs iw labels times inp hin
    have hs' : inp.streams[j]? = some s := (hstr j s).2 ⟨hj, hs⟩
    have hthr : (condOf (K := K) v0' ops).msdThreshold[j]? =
        some ((condOf (K := K) v0' ops).msdThreshold[j]'(by rw [(condOf_lengths (K := K) v0' ops).1]; exact hj)) :=
      List.getElem?_eq_getElem _
    generalize (condOf (K := K) v0' ops).msdThreshold[j]'_ = thr at hthr
    obtain ⟨traj, ht, htl, hml⟩ := engineStream_ml (condOf v0' ops) inp hwf p.durations hpl j
      (by rw [hnstream]; exact hj) s hs' thr hthr hgv hstatic hnonneg hdflt hpos
    have hpj : engineStream (condOf v0' ops) inp p.durations j = .ok (p.traj j) := by
      have hj3 : j = 0 ∨ j = 1 ∨ j = 2 := by omega
      rcases hj3 with rfl | rfl | rfl
      · exact h0
      · exact h1
      · exact h2 (by omega)
    rw [hpj, Outcome.ok.injEq] at ht
    subst ht
    refine ⟨p, thr, ?_, ?_, ?_, hthr, htl, hml⟩
    · rw [params_eq_engine big v0' vs iw ops f labels times inp hin]; exact hp
    · rw [durations_eq_engine big v0' vs iw ops f labels times inp hin]; exact hd
    · rw [stream_eq_engine big v0' vs iw ops labels times p.durations j inp hin]; exact hpj

/-! ### 4. C12 lifted: the GV switch of the stage inputs; a stream without GV ignores its GV weight -/

/-- the GV part of `Models::model_stream(i)` is `Models::gv(i)` -/
theorem modelStream_gv (big : K) (voices : List ParsedVoice) (iw : IW K) (labels : List (List Char)) (n i : Nat)
    (s : StreamIn K) (h : modelStream big voices iw labels n i = .ok s) :
    modelsGv voices iw labels n i = .ok s.gv := by
  cases voices with
  | nil => simp [modelStream] at h
  | cons v0 vs =>
    unfold modelStream at h
    simp only at h
    cases hs0 : streamOf v0 i with
    | none => simp [hs0] at h
    | some s0 =>
      simp only [hs0] at h
      cases h1 : modelsStream big (v0 :: vs) iw labels n i with
      | err e => simp [h1, Outcome.bind] at h
      | panic e => simp [h1, Outcome.bind] at h
      | ok st =>
        cases h2 : modelsGv (v0 :: vs) iw labels n i with
        | err e => simp [h1, h2, Outcome.bind] at h
        | panic e => simp [h1, h2, Outcome.bind] at h
        | ok gv =>
          simp only [h1, h2, Outcome.bind, Outcome.ok.injEq] at h
          subst h
          rfl

/-- what `Models::gv(i)` returns when it returns: nothing if the first voice's stream `i` has `USE_GV = 0` or there is
    no label; otherwise a switch that is "label is not a GV-off context", once per state of every label -/
theorem modelsGv_spec (v0 : ParsedVoice) (vs : List ParsedVoice) (iw : IW K) (labels : List (List Char)) (n i : Nat)
    (gv : Option (List (MeanVari K) × List Bool)) (h : modelsGv (v0 :: vs) iw labels n i = .ok gv) :
    ∃ s0, v0.streams[i]? = some s0 ∧
      (s0.info.useGv = false ∨ labels = [] → gv = none) ∧
      (s0.info.useGv = true → labels ≠ [] → ∃ g, gv = some (g,
        (labels.map fun l => List.replicate n (!(questionTest v0.global.gvOff l))).flatten)) := by
  unfold modelsGv at h
  simp only [streamOf] at h
  cases hs0 : v0.streams[i]? with
  | none => simp [hs0] at h
  | some s0 =>
    simp only [hs0] at h
    refine ⟨s0, rfl, ?_, ?_⟩
    · intro hc
      rcases hc with hc | hc
      · simp only [hc, Bool.not_false, if_true, Outcome.ok.injEq] at h
        exact h.symm
      · subst hc
        split_ifs at h <;> simp only [Outcome.ok.injEq] at h <;> exact h.symm
    · intro hu hne
      simp only [hu, Bool.not_true, Bool.false_eq_true, if_false] at h
      cases labels with
      | nil => exact absurd rfl hne
      | cons l0 ls =>
        simp only at h
        cases hb : blend (iw.gv.getD i []) ((v0 :: vs).map fun v =>
            (v.streams[i]?).bind fun s => s.gv.bind fun g => select (α := K) g 2 l0) with
        | ok mp =>
          rw [hb] at h
          simp only [Outcome.map, Outcome.ok.injEq] at h
          exact ⟨mp.parameters, h.symm⟩
        | err e => rw [hb] at h; simp [Outcome.map] at h
        | panic s => rw [hb] at h; simp [Outcome.map] at h

/-- **C12 (switch) for the whole library.** Stream `j` of the stage inputs `Engine::generator` reads (any voice set for
    which they exist): it is a stream of the first voice; it has no GV if that stream has `USE_GV = 0` or the label
    text is empty; otherwise its per-state GV switch is `!(label matches a GV-off pattern of the first voice)`,
    repeated `NUM_STATES` times for every label — wherever in the utterance the label stands, whatever the weights. -/
theorem engineIn_gv_switch (big : K) (v0 : ParsedVoice) (vs : List ParsedVoice) (iw : IW K) (labels : List (List Char))
    (times : List (K × K)) (inp : EngineIn K) (hin : engineIn big (v0 :: vs) iw labels times = .ok inp)
    (j : Nat) (s : StreamIn K) (hs : inp.streams[j]? = some s) :
    ∃ s0, v0.streams[j]? = some s0 ∧
      (s0.info.useGv = false ∨ labels = [] → s.gv = none) ∧
      (s0.info.useGv = true → labels ≠ [] → ∃ g, s.gv = some (g,
        (labels.map fun l => List.replicate v0.global.nstates (!(questionTest v0.global.gvOff l))).flatten)) := by
  obtain ⟨-, -, -, -, hstr⟩ := engineIn_fields big v0 vs iw labels times inp hin
  obtain ⟨-, hm⟩ := (hstr j s).1 hs
  exact modelsGv_spec v0 vs iw labels v0.global.nstates j s.gv (modelStream_gv big (v0 :: vs) iw labels _ j s hm)

/-- … in particular whenever stream `j` of the stage inputs carries a switch `sw`, state `k` of label `l` is GV-eligible
    iff label `l` matches none of the GV-off patterns -/
theorem engineIn_gv_switch_eq (big : K) (v0 : ParsedVoice) (vs : List ParsedVoice) (iw : IW K)
    (labels : List (List Char)) (times : List (K × K)) (inp : EngineIn K)
    (hin : engineIn big (v0 :: vs) iw labels times = .ok inp)
    (j : Nat) (s : StreamIn K) (hs : inp.streams[j]? = some s) (g : List (MeanVari K)) (sw : List Bool)
    (hg : s.gv = some (g, sw)) :
    sw = (labels.map fun l => List.replicate v0.global.nstates (!(questionTest v0.global.gvOff l))).flatten := by
  obtain ⟨s0, -, hnone, hsome⟩ := engineIn_gv_switch big v0 vs iw labels times inp hin j s hs
  cases hu : s0.info.useGv with
  | false => rw [hnone (Or.inl hu)] at hg; cases hg
  | true =>
    by_cases hl : labels = []
    · rw [hnone (Or.inr hl)] at hg; cases hg
    · obtain ⟨g', hg'⟩ := hsome hu hl
      rw [hg, Option.some.injEq, Prod.mk.injEq] at hg'
      exact hg'.2

theorem outcome_bind_congr {ε β γ : Type} (x : Outcome ε β) (f g : β → Outcome ε γ)
    (h : ∀ a, x = .ok a → f a = g a) : x.bind f = x.bind g := by
  cases x with
  | err e => rfl
  | panic s => rfl
  | ok a => exact h a rfl

/-- on stage inputs whose stream `j` has no GV (or does not exist), `engineStream … j` does not read `gvWeight[j]` -/
theorem engineStream_set_gv_no_gv (c : Condition K) (inp : EngineIn K) (durs : List Nat) (j : Nat) (x : K)
    (hgv : ∀ s, inp.streams[j]? = some s → s.gv = none) :
    engineStream { c with gvWeight := c.gvWeight.set j x } inp durs j = engineStream c inp durs j := by
  unfold engineStream
  cases hs : inp.streams[j]? with
  | none => rfl
  | some s =>
    simp only
    by_cases hj : j < c.gvWeight.length
    · have e1 : (c.gvWeight.set j x)[j]? = some x := by simp [hj]
      have e2 : c.gvWeight[j]? = some c.gvWeight[j] := List.getElem?_eq_getElem hj
      rw [e1, e2]
      cases c.msdThreshold[j]? with
      | none => rfl
      | some thr =>
        simp only
        by_cases h1 : j = 1
        · simp only [h1, if_true]
          exact mlpgCreate_no_gv _ _ thr _ durs (hgv s hs)
        · simp only [h1, if_false]
          exact mlpgCreate_no_gv _ _ thr _ durs (hgv s hs)
    · have e : c.gvWeight.set j x = c.gvWeight := List.set_eq_of_length_le (by omega)
      rw [e]

/-- **C12 (no GV) for the whole library, stream level.** If stream `j` of the first voice has `USE_GV = 0` (or the label
    text is empty), `set_gv_weight(j, x)` does not change the trajectory of stream `j` — hence, with
    `stream_gv_other`, of no stream at all: any voice set, any durations, any outcome. -/
theorem stream_gv_self_no_gv (big : K) (voices : List ParsedVoice) (iw : IW K) (ops : List (CondOp K))
    (labels : List (List Char)) (times : List (K × K)) (durs : List Nat) (j : Nat) (x : K)
    (hno : labels = [] ∨ ∀ v0 s0, voices.head? = some v0 → v0.streams[j]? = some s0 → s0.info.useGv = false) :
    stream big voices iw (ops ++ [.gv j x]) labels times durs j = stream big voices iw ops labels times durs j := by
  cases voices with
  | nil => rfl
  | cons v0 vs =>
    unfold stream
    simp only
    apply outcome_bind_congr
    intro inp hin
    rw [condOf_snoc_gv]
    split_ifs with hj
    · apply engineStream_set_gv_no_gv
      intro s hs
      obtain ⟨s0, hs0, hnone, -⟩ := engineIn_gv_switch big v0 vs iw labels times inp hin j s hs
      rcases hno with hl | hu
      · exact hnone (Or.inr hl)
      · exact hnone (Or.inl (hu v0 s0 rfl hs0))
    · rfl

/-- … and of any stream `i` -/
theorem stream_gv_no_gv (big : K) (voices : List ParsedVoice) (iw : IW K) (ops : List (CondOp K))
    (labels : List (List Char)) (times : List (K × K)) (durs : List Nat) (i j : Nat) (x : K)
    (hno : labels = [] ∨ ∀ v0 s0, voices.head? = some v0 → v0.streams[j]? = some s0 → s0.info.useGv = false) :
    stream big voices iw (ops ++ [.gv j x]) labels times durs i = stream big voices iw ops labels times durs i := by
  by_cases hij : i = j
  · subst hij; exact stream_gv_self_no_gv big voices iw ops labels times durs i x hno
  · exact stream_gv_other big voices iw ops labels times durs j i hij x

theorem engineSynthesize_set_gv_no_gv (fx : Fix) (c : Condition K) (b : Bool) (inp : EngineIn K) (j : Nat) (x : K)
    (hgv : ∀ s, inp.streams[j]? = some s → s.gv = none) :
    engineParams { c with gvWeight := c.gvWeight.set j x } b inp = engineParams c b inp ∧
    engineSynthesize fx { c with gvWeight := c.gvWeight.set j x } b inp = engineSynthesize fx c b inp := by
  have hS : ∀ durs i, engineStream { c with gvWeight := c.gvWeight.set j x } inp durs i = engineStream c inp durs i := by
    intro durs i
    by_cases hij : i = j
    · subst hij; exact engineStream_set_gv_no_gv c inp durs i x hgv
    · exact engineStream_congr _ _ inp durs i (by simp [List.getElem?_set_ne (Ne.symm hij)]) rfl (fun _ => rfl)
  have hD : engineDurations { c with gvWeight := c.gvWeight.set j x } b inp = engineDurations c b inp :=
    engineDurations_congr _ _ _ inp rfl rfl
  have hP : engineParams { c with gvWeight := c.gvWeight.set j x } b inp = engineParams c b inp := by
    unfold engineParams
    rw [hD]
    simp only [hS]
  refine ⟨hP, ?_⟩
  unfold engineSynthesize
  rw [hP]

/-- **C12 (no GV) for the whole library.** If stream `j` of the first voice has `USE_GV = 0` (or the label text is
    empty), `set_gv_weight(j, x)` changes neither the generator parameters nor the waveform — any voice set, weights,
    history, labels, any outcome. -/
theorem synthesize_gv_no_gv (fx : Fix) (big : K) (voices : List ParsedVoice) (iw : IW K) (ops : List (CondOp K))
    (f : Condition K → Bool) (hf : SpeedOnly f) (labels : List (List Char)) (times : List (K × K)) (j : Nat) (x : K)
    (hno : labels = [] ∨ ∀ v0 s0, voices.head? = some v0 → v0.streams[j]? = some s0 → s0.info.useGv = false) :
    params big voices iw (ops ++ [.gv j x]) f labels times = params big voices iw ops f labels times ∧
    synthesize fx big voices iw (ops ++ [.gv j x]) f labels times = synthesize fx big voices iw ops f labels times := by
  cases voices with
  | nil => exact ⟨rfl, rfl⟩
  | cons v0 vs =>
    have key : ∀ inp, engineIn big (v0 :: vs) iw labels times = .ok inp →
        engineParams (condOf v0 (ops ++ [.gv j x])) (f (condOf v0 (ops ++ [.gv j x]))) inp =
          engineParams (condOf v0 ops) (f (condOf v0 ops)) inp ∧
        engineSynthesize fx (condOf v0 (ops ++ [.gv j x])) (f (condOf v0 (ops ++ [.gv j x]))) inp =
          engineSynthesize fx (condOf v0 ops) (f (condOf v0 ops)) inp := by
      intro inp hin
      have hb : f (condOf v0 (ops ++ [.gv j x])) = f (condOf v0 ops) :=
        hf _ _ (condOf_snoc_gv_frame v0 ops j x).2
      rw [hb, condOf_snoc_gv]
      split_ifs with hj
      · apply engineSynthesize_set_gv_no_gv
        intro s hs
        obtain ⟨s0, hs0, hnone, -⟩ := engineIn_gv_switch big v0 vs iw labels times inp hin j s hs
        rcases hno with hl | hu
        · exact hnone (Or.inr hl)
        · exact hnone (Or.inl (hu v0 s0 rfl hs0))
      · exact ⟨rfl, rfl⟩
    refine ⟨?_, ?_⟩
    · unfold params
      simp only
      exact outcome_bind_congr _ _ _ (fun inp hin => (key inp hin).1)
    · rw [synthesize_cons, synthesize_cons]
      exact outcome_bind_congr _ _ _ (fun inp hin => (key inp hin).2)

/-! ### 5. C17 lifted: blank lines in the label text do not change the waveform -/

/-- `Engine::synthesize(lines)`: `Labels::load_from_strings` (line grammar, external parsers `parseF` / `parseL`, times
    scaled by `rate` = `sampling_frequency / (fperiod · 1e7)` of the condition — any `rate` here), `Labels::new` (gap
    filling), then synthesis. A load error is returned before anything is synthesised. -/
def synthesizeLines (fx : Fix) (big : K) (voices : List ParsedVoice) (iw : IW K) (ops : List (CondOp K))
    (f : Condition K → Bool) (parseF : List Nat → Option K) (parseL : List Nat → Option (List Char)) (rate : K)
    (lines : List (List Nat)) : Except LabelError (Outcome Unit (List K)) :=
  match loadLines parseF parseL rate lines with
  | .error e => .error e
  | .ok xs => .ok (synthesize fx big voices iw ops f (xs.map (·.1)) (fillTimes (xs.map (·.2))))

theorem loadLines_blank (parseF : List Nat → Option K) (parseL : List Nat → Option (List Char)) (rate : K)
    (pre post : List (List Nat)) :
    loadLines parseF parseL rate (pre ++ [] :: post) = loadLines parseF parseL rate (pre ++ post) := by
  induction pre with
  | nil => simp [loadLines, loadLine, splitn3, splitFirst]
  | cons l ls ih => simp only [List.cons_append, loadLines, ih]

/-- **C17 (blank lines) for the whole library**: a blank line anywhere in the label text changes nothing — same load
    error, or same outcome of `synthesize` (same waveform) — for every voice set, weights, history and parsers -/
theorem synthesizeLines_blank (fx : Fix) (big : K) (voices : List ParsedVoice) (iw : IW K) (ops : List (CondOp K))
    (f : Condition K → Bool) (parseF : List Nat → Option K) (parseL : List Nat → Option (List Char)) (rate : K)
    (pre post : List (List Nat)) :
    synthesizeLines fx big voices iw ops f parseF parseL rate (pre ++ [] :: post) =
      synthesizeLines fx big voices iw ops f parseF parseL rate (pre ++ post) := by
  unfold synthesizeLines
  rw [loadLines_blank]

/-- … and so does any number of blank lines: the text with all blank lines removed synthesises the same -/
theorem synthesizeLines_filter_blank (fx : Fix) (big : K) (voices : List ParsedVoice) (iw : IW K)
    (ops : List (CondOp K)) (f : Condition K → Bool) (parseF : List Nat → Option K)
    (parseL : List Nat → Option (List Char)) (rate : K) (lines : List (List Nat)) :
    synthesizeLines fx big voices iw ops f parseF parseL rate (lines.filter (· ≠ [])) =
      synthesizeLines fx big voices iw ops f parseF parseL rate lines := by
  have key : loadLines parseF parseL rate (lines.filter (· ≠ [])) = loadLines parseF parseL rate lines := by
    induction lines with
    | nil => rfl
    | cons l ls ih =>
      by_cases hl : l = []
      · subst hl
        have := loadLines_blank parseF parseL rate [] ls
        simp only [List.nil_append] at this
        rw [this]
        simpa using ih
      · rw [List.filter_cons_of_pos (by simpa using hl)]
        simp only [loadLines, ih]
  unfold synthesizeLines
  rw [key]

end Synth
end Jb
