/-
  Composition-level facts about `Jb/Model/Synth.lean` (`Models::{duration, stream, gv}` as functions of the
  parsed voices, the interpolation weights and the label text).
-/
import Jb.Model.Synth
import Jb.Proofs.Weights
import Jb.Proofs.Field

set_option linter.unusedSectionVars false

namespace Jb
namespace Synth
open Hts

variable {K : Type} [Field K] [LinearOrder K] [IsStrictOrderedRing K] [FloorRing K]
  [Transc K] [Consts K] [MlpgConsts K] [FromFile K]

/-- `Models::duration` reads the duration weights only -/
theorem duration_reads_duration_weights (voices : List ParsedVoice) (iw iw' : IW K) (labels : List (List Char))
    (h : iw.duration = iw'.duration) : modelsDuration voices iw labels = modelsDuration voices iw' labels := by
  unfold modelsDuration; rw [h]

/-- `Models::stream(i)` reads `parameter[i]` only -/
theorem stream_reads_its_parameter_weights (big : K) (voices : List ParsedVoice) (iw iw' : IW K)
    (labels : List (List Char)) (nstate i : Nat) (h : iw.parameter.getD i [] = iw'.parameter.getD i []) :
    modelsStream big voices iw labels nstate i = modelsStream big voices iw' labels nstate i := by
  unfold modelsStream; rw [h]

/-- `Models::gv(i)` reads `gv[i]` only -/
theorem gv_reads_its_gv_weights (voices : List ParsedVoice) (iw iw' : IW K)
    (labels : List (List Char)) (nstate i : Nat) (h : iw.gv.getD i [] = iw'.gv.getD i []) :
    modelsGv voices iw labels nstate i = modelsGv voices iw' labels nstate i := by
  unfold modelsGv; rw [h]

/-- the GV switch of a label is "not a GV-off context", repeated for each of its states -/
theorem gv_switch_spec (v0 : ParsedVoice) (labels : List (List Char)) (nstate : Nat) :
    (labels.map fun l => List.replicate nstate (!(questionTest v0.global.gvOff l))).flatten.length
      = labels.length * nstate := by
  induction labels with
  | nil => simp
  | cons l ls ih => simp [List.length_flatten, Nat.succ_mul, Nat.add_comm] at *; omega

/-- the durations the pipeline uses do not depend on the time stamps unless alignment is on, and the
    waveform is a function of (voices, weights, setter history, labels, times) -/
theorem synthesize_congr (fx : Fix) (big : K) (voices : List ParsedVoice) (iw : IW K) (ops ops' : List (CondOp K))
    (f : Condition K → Bool) (labels : List (List Char)) (times : List (K × K))
    (h : applyHistory (Condition.default.loadModel (voices.head?.map (·.global.sr) |>.getD 0)
          (voices.head?.map (·.global.fp) |>.getD 0) (voices.head?.map (·.global.nstreams) |>.getD 0)
          (voices.head?.map (fun v => (headerOptions (α := K) v).1) |>.getD none)
          (voices.head?.map (fun v => (headerOptions (α := K) v).2.1) |>.getD none)
          (voices.head?.map (fun v => (headerOptions (α := K) v).2.2) |>.getD none)) ops =
        applyHistory (Condition.default.loadModel (voices.head?.map (·.global.sr) |>.getD 0)
          (voices.head?.map (·.global.fp) |>.getD 0) (voices.head?.map (·.global.nstreams) |>.getD 0)
          (voices.head?.map (fun v => (headerOptions (α := K) v).1) |>.getD none)
          (voices.head?.map (fun v => (headerOptions (α := K) v).2.1) |>.getD none)
          (voices.head?.map (fun v => (headerOptions (α := K) v).2.2) |>.getD none)) ops') :
    synthesize fx big voices iw ops f labels times = synthesize fx big voices iw ops' f labels times := by
  unfold synthesize
  cases voices with
  | nil => rfl
  | cons v0 vs =>
    simp only [List.head?_cons, Option.map_some, Option.getD_some] at h
    simp only [h]

end Synth
end Jb
