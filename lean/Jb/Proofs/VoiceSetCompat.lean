/-
  The `compatibleVoice` hypothesis of the from-the-bytes theorem is what the library's own `VoiceSet::new` establishes:
  if the model of `VoiceSet::new` (`voiceSetNew`, C19) accepts the voices' metadata, every voice is compatible with the first.
-/
import Jb.Model.Supported
import Jb.Model.Weights
import Jb.Proofs.Supported

set_option linter.unusedSectionVars false

namespace Jb.Hts

/-- the global metadata `VoiceSet::new` compares -/
structure GMeta where
  version : String
  sr : Nat
  fp : Nat
  nstates : Nat
  nstreams : Nat
  streamType : List String
  fmt : String
  fver : String
  gvOff : List (List Char)
  deriving DecidableEq

/-- the per-stream metadata `VoiceSet::new` compares -/
structure SMeta where
  veclen : Nat
  nwin : Nat
  isMsd : Bool
  useGv : Bool
  option : List String
  deriving DecidableEq

def gmetaOf (v : ParsedVoice) : GMeta :=
  ⟨v.global.version, v.global.sr, v.global.fp, v.global.nstates, v.global.nstreams, v.global.streamType,
   v.global.fmt, v.global.fver, v.global.gvOff⟩
def smetaOf (s : ParsedStream) : SMeta := ⟨s.info.veclen, s.info.nwin, s.info.isMsd, s.info.useGv, s.info.option⟩
def metaOf (v : ParsedVoice) : GMeta × List SMeta := (gmetaOf v, v.streams.map smetaOf)

theorem streamCompatible_of_smeta (a b : ParsedStream) (h : smetaOf a = smetaOf b) : streamCompatible a b = true := by
  unfold smetaOf at h
  simp only [SMeta.mk.injEq] at h
  obtain ⟨h1, h2, h3, h4, -⟩ := h
  simp [streamCompatible, h1, h2, h3, h4]

theorem zip_all_of_map_eq (l₁ l₂ : List ParsedStream) (h : l₁.map smetaOf = l₂.map smetaOf) :
    (l₁.zip l₂).all (fun p => streamCompatible p.1 p.2) = true := by
  induction l₁ generalizing l₂ with
  | nil => simp
  | cons a l₁ ih =>
    cases l₂ with
    | nil => simp
    | cons b l₂ =>
      simp only [List.map_cons, List.cons.injEq] at h
      simp only [List.zip_cons_cons, List.all_cons, Bool.and_eq_true]
      exact ⟨streamCompatible_of_smeta a b h.1, ih l₂ h.2⟩

theorem compatible_of_meta_eq (v0 v : ParsedVoice) (h : metaOf v0 = metaOf v) : compatibleVoice v0 v = true := by
  unfold metaOf at h
  simp only [Prod.mk.injEq] at h
  obtain ⟨hg, hs⟩ := h
  unfold gmetaOf at hg
  simp only [GMeta.mk.injEq] at hg
  obtain ⟨-, -, -, h4, h5, -⟩ := hg
  have hl : v0.streams.length = v.streams.length := by simpa using congrArg List.length hs
  simp [compatibleVoice, h4, h5, hl, zip_all_of_map_eq _ _ hs]

/-- two equally long lists that agree position by position are equal -/
theorem eq_of_zip_all {β : Type} [DecidableEq β] (l₁ l₂ : List β) (hl : l₁.length = l₂.length)
    (h : (l₁.zip l₂).all (fun (a, b) => decide (a = b)) = true) : l₁ = l₂ := by
  induction l₁ generalizing l₂ with
  | nil => cases l₂ with | nil => rfl | cons _ _ => simp at hl
  | cons a l₁ ih =>
    cases l₂ with
    | nil => simp at hl
    | cons b l₂ =>
      simp only [List.zip_cons_cons, List.all_cons, Bool.and_eq_true, decide_eq_true_eq] at h
      simp only [List.length_cons, Nat.add_right_cancel_iff] at hl
      rw [h.1, ih l₂ hl h.2]

/-- **`VoiceSet::new` establishes compatibility.** If the model of `VoiceSet::new` accepts the metadata of the voices, every
    voice of the list is `compatibleVoice` with the first. -/
theorem voiceSetNew_compatible (voices : List ParsedVoice) (v0 : ParsedVoice) (hv0 : voices.head? = some v0)
    (h : voiceSetNew (voices.map metaOf) = Except.ok ()) : ∀ v ∈ voices, compatibleVoice v0 v = true := by
  cases voices with
  | nil => simp at hv0
  | cons first rest =>
    simp only [List.head?_cons, Option.some.injEq] at hv0
    subst hv0
    intro v hv
    rcases List.mem_cons.1 hv with rfl | hv
    · exact compatible_of_meta_eq _ _ rfl
    · unfold voiceSetNew at h
      simp only [List.map_cons] at h
      split at h
      · rename_i hall
        have hv' : metaOf v ∈ rest.map metaOf := List.mem_map.2 ⟨v, hv, rfl⟩
        have := List.all_eq_true.1 hall (metaOf v) hv'
        simp only [Bool.and_eq_true, decide_eq_true_eq] at this
        obtain ⟨⟨hg, hlen⟩, hzip⟩ := this
        have hs : (metaOf v).2 = (metaOf first).2 := eq_of_zip_all _ _ hlen hzip
        exact compatible_of_meta_eq _ _ (Prod.ext hg.symm hs.symm)
      · cases h

end Jb.Hts
