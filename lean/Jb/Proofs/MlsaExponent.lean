/-
  The exponent of the MLSA filter: the two basic filters of the Padé stages and the gain term add up to the
  warped mel-cepstrum polynomial,   b₀ + F₁(z) + F₂(z) = Σ_m c_m z̃^{-m}   with `b = mc2b α c`.
  Together with `df1_pade`, `df2_pade`, `mlsaRun_factor` this is the algebraic content of
  "H(z) = exp Σ c_m z̃^{-m} up to the Padé approximation of exp":
      H = exp(b₀) · R(F₁) · R(F₂),   R(w) = P(w)/P(−w) ≈ exp(w).
-/
import Jb.Proofs.PadeDf1
import Jb.Proofs.PadeDf2
import Jb.Proofs.WarpBasis
import Jb.Proofs.WarpFir
import Jb.Proofs.MglsaWarp

set_option linter.unusedSectionVars false
namespace Jb
variable {K : Type} [Field K] [LinearOrder K] [IsStrictOrderedRing K] [Transc K] [Consts K]

theorem basic1_getD (alpha : K) (b us : List K) (n : Nat) :
    (basic1 alpha b us).getD n 0 = b.getD 1 0 * (warpBasis alpha us 1).getD n 0 := by
  unfold basic1
  exact lsmul_getD (b.getD 1 0) (warpBasis alpha us 1) n

theorem basic2_getD (alpha : K) (b us : List K) (n : Nat) (hn : n < us.length) :
    (basic2 alpha b b.length us).getD n 0 =
      (Finset.Ico 2 b.length).sum fun i => b.getD i 0 * (warpBasis alpha us i).getD n 0 := by
  unfold basic2
  rw [firRun_warp alpha b b.length (delay1 us) n (by rw [delay1_length]; exact hn), Nat.min_self]
  rfl

/-- **`b₀·u + F₁u + F₂u = Σ_m c_m z̃^{-m} u`** (`b = mc2b α c`, at least two coefficients) -/
theorem mlsa_exponent (alpha : K) (c us : List K) (hc : 2 ≤ c.length) (n : Nat) (hn : n < us.length) :
    (mc2b alpha c).getD 0 0 * us.getD n 0 + (basic1 alpha (mc2b alpha c) us).getD n 0 +
        (basic2 alpha (mc2b alpha c) c.length us).getD n 0 =
      (Finset.range c.length).sum fun m => c.getD m 0 * (allpassPow alpha m us).getD n 0 := by
  rw [← warp_basis_identity_mc2b alpha c us n hn, basic1_getD]
  have hl : (mc2b alpha c).length = c.length := mc2b_length alpha c
  have h2 := basic2_getD alpha (mc2b alpha c) us n hn
  rw [hl] at h2
  rw [h2, add_assoc]
  congr 1
  rw [Finset.sum_eq_sum_Ico_succ_bot (by omega : 1 < c.length)]

end Jb
