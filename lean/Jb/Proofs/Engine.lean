/-
  Shape, totality and non-interference lemmas for the composed pipeline model (`Jb/Model/Engine.lean`).
-/
import Jb.Model.Engine
import Jb.Proofs.Mask
import Jb.Proofs.Ldl
import Jb.Proofs.Speech
import Jb.Proofs.Align

set_option linter.unusedSectionVars false

namespace Jb

variable {K : Type} [Field K] [LinearOrder K] [IsStrictOrderedRing K] [FloorRing K]
  [Transc K] [Consts K] [MlpgConsts K]

/-- well-formed stream: at least one window, every state has its `nwin · veclen` Gaussians -/
def StreamWF (s : StreamIn K) : Prop :=
  1 ≤ s.windows.length ∧ ∀ st ∈ s.stream, s.vectorLength * s.windows.length ≤ st.params.length

/-- a left fold whose step conses exactly one element onto the first component -/
theorem foldl_fst_length {A σ β : Type} (step : List A × σ → β → List A × σ)
    (hstep : ∀ acc b, (step acc b).1.length = acc.1.length + 1) (l : List β) (init : List A × σ) :
    (l.foldl step init).1.length = init.1.length + l.length := by
  induction l generalizing init with
  | nil => simp
  | cons b l ih => rw [List.foldl_cons, ih, hstep]; simp; omega

/-- one vocoder frame always yields exactly `fperiod` samples -/
theorem vocoderSynth_length (fx : Fix) (v : VocoderSt K) (lf0 : K) (sp lpf : List K) :
    (vocoderSynth fx v lf0 sp lpf).1.length = v.fperiod := by
  unfold vocoderSynth
  simp only [List.length_reverse]
  split <;>
  · rw [foldl_fst_length _ (fun acc b => by simp)]
    simp

theorem vocoderFrame_length (fx : Fix) (fp : Nat) (v : VocoderSt K) (f : List K × List K × List K) :
    (vocoderFrame fx fp v f).2.length = fp := by
  unfold vocoderFrame
  simp only
  rw [vocoderSynth_length]

theorem isZero_iff (x : K) : isZero x = true ↔ x = 0 := by
  unfold isZero
  simp only [Bool.and_eq_true, Bool.not_eq_true', decide_eq_false_iff_not, not_lt, decide_eq_true_eq]
  constructor
  · rintro ⟨⟨h1, h2⟩, _⟩; exact le_antisymm h2 h1
  · rintro rfl; exact ⟨⟨le_refl _, le_refl _⟩, le_refl _⟩

/-! ### length bookkeeping for MLPG -/

theorem maskCreate_length (stream : List (StateParam K)) (thr : K) (durs : List Nat)
    (hd : durs.length ≤ stream.length) : (maskCreate stream thr durs).length = durs.sum := by
  unfold maskCreate
  rw [expand_length _ _ (by simpa using hd)]

theorem boundaryDistances_length (mask : List Bool) : (boundaryDistances mask).length = mask.length := by
  simp [boundaryDistances, leftDists_length]

theorem windowParams_length (vl : Nat) (stream : List (StateParam K)) (durs : List Nat) (mask : List Bool)
    (bd : List (Nat × Nat)) (wi : Nat) (win : List K) (m : Nat) (hd : durs.length ≤ stream.length)
    (hm : mask.length = durs.sum) (hb : bd.length = durs.sum) :
    (windowParams vl stream durs mask bd wi win m).length = (mask.filter id).length := by
  unfold windowParams
  simp only
  apply filterBy_length
  rw [List.length_map, List.length_zip, expand_length _ _ (by simpa using hd), hb, hm]
  simp

theorem calcWuwWum_cons (windows : List (List K)) (o0 : List (MeanVari K)) (obs : List (List (MeanVari K))) :
    ∃ mtx, calcWuwWum windows (o0 :: obs) = some mtx ∧ mtx.length = o0.length ∧
      mtx.wuw.length = o0.length ∧ mtx.wum.length = o0.length := by
  refine ⟨_, rfl, ?_, ?_, ?_⟩ <;> simp

theorem solve_length (m : MlpgMatrix K) (n : Nat) (h1 : m.wuw.length = n) (h2 : m.wum.length = n) :
    m.solve.length = n := by
  unfold MlpgMatrix.solve
  simp only [backwardSub_length, forwardSub_length, ldlRows_length, h1, h2]
  simp

theorem foldl_length_inv {β γ : Type} (step : List γ → β → List γ) (n : Nat)
    (h : ∀ g b, g.length = n → (step g b).length = n) (l : List β) (g0 : List γ) (h0 : g0.length = n) :
    (l.foldl step g0).length = n := by
  induction l generalizing g0 with
  | nil => simpa using h0
  | cons b l ih => rw [List.foldl_cons]; exact ih _ (h _ _ h0)

theorem hmmobjDerivative_length (m : MlpgMatrix K) (par : List K) (n : Nat) (h1 : m.wuw.length = n)
    (h2 : m.length = n) (hp : par.length = n) : (hmmobjDerivative m par).2.length = n := by
  unfold hmmobjDerivative
  simp only
  apply foldl_length_inv
  · intro g b hg
    simp only [List.length_map, List.length_zip, List.length_append, List.length_take, List.length_replicate,
      shiftLeft, shiftRight, List.length_drop, hg, h1, h2, hp]
    omega
  · simp [h1, hp]

theorem gvNextStep_length (m : MlpgMatrix K) (par : List K) (sw : List Bool) (g : List K)
    (step mean vari gm gv : K) (n : Nat) (h1 : m.wuw.length = n) (h2 : m.wum.length = n)
    (hp : par.length = n) (hs : sw.length = n) (hg : g.length = n) :
    (gvNextStep m par sw g step mean vari gm gv).length = n := by
  unfold gvNextStep
  simp [h1, h2, hp, hs, hg]

/-- `conv_gv` either leaves `par` alone (no positive variance) or zips it with the switch -/
theorem convGv_length (par : List K) (sw : List Bool) (gvLen : Nat) (gm : K) :
    min par.length sw.length ≤ (convGv par sw gvLen gm).length ∧
      (convGv par sw gvLen gm).length ≤ par.length := by
  unfold convGv
  simp only
  split
  · simp
  · simp

theorem gvLoop_length (m : MlpgMatrix K) (sw : List Bool) (gm gv : K) (gvLen : Nat) (half sd si : K)
    (n : Nat) (h1 : m.wuw.length = n) (h2 : m.wum.length = n) (h3 : m.length = n) (hs : sw.length = n)
    (fuel : Nat) : ∀ (i : Nat) (par : List K) (step prev : K), par.length = n →
      (gvParmgen.loop m sw gm gv gvLen half sd si i fuel par step prev).length = n := by
  induction fuel with
  | zero => intro i par step prev hp; simpa [gvParmgen.loop] using hp
  | succ fuel ih =>
    intro i par step prev hp
    rw [gvParmgen.loop]
    simp only
    apply ih
    exact gvNextStep_length _ _ _ _ _ _ _ _ _ n h1 h2 hp hs (hmmobjDerivative_length m par n h1 h3 hp)

theorem gvParmgen_length (m : MlpgMatrix K) (par : List K) (sw : List Bool) (gm gv : K)
    (n : Nat) (h1 : m.wuw.length = n) (h2 : m.wum.length = n) (h3 : m.length = n) (hp : par.length = n)
    (hs : sw.length = n) : (gvParmgen m par sw gm gv).length = n := by
  unfold gvParmgen
  simp only
  split
  · exact hp
  · apply gvLoop_length m sw _ _ _ _ _ _ n h1 h2 h3 hs
    have := convGv_length par sw (sw.filter id).length gm
    rw [hp, hs] at this
    omega


theorem par_length (mtx : MlpgMatrix K) (gv : Option (List (MeanVari K) × List Bool)) (m : Nat) (gw : K)
    (durs : List Nat) (mask : List Bool) (n : Nat) (h1 : mtx.wuw.length = n) (h2 : mtx.wum.length = n)
    (h3 : mtx.length = n)
    (hsw : ∀ g sw, gv = some (g, sw) → (filterBy (expand sw durs) mask).length = n) :
    (mtx.par gv m gw durs mask).length = n := by
  unfold MlpgMatrix.par
  cases gv with
  | none => exact solve_length mtx n h1 h2
  | some p =>
    obtain ⟨g, sw⟩ := p
    simp only
    exact gvParmgen_length _ _ _ _ _ n h1 h2 h3 (solve_length mtx n h1 h2) (hsw g sw rfl)

/-- one column (vector index `m`) of `mlpgCreate` -/
def mlpgCol (gw thr : K) (s : StreamIn K) (durs : List Nat) (m : Nat) : Option (List K) :=
  let mask := maskCreate s.stream thr durs
  let bd := boundaryDistances mask
  let obs := (List.range s.windows.length).zip s.windows |>.map fun (wi, win) =>
    windowParams s.vectorLength s.stream durs mask bd wi win m
  match calcWuwWum s.windows obs with
  | none => none
  | some mtx => maskFill mask (mtx.par s.gv m gw durs mask) Consts.nodata

theorem mlpgCreate_eq (gw thr : K) (s : StreamIn K) (durs : List Nat) :
    mlpgCreate gw thr s durs =
      if s.vectorLength > 0 ∧ s.windows.length > 0 ∧ ((s.stream.zip durs).map (·.1)).any
          (fun st => decide (st.params.length < s.vectorLength * s.windows.length)) then
        .panic "mlpg_adjust/mod.rs:curr_stream[m]"
      else if s.vectorLength > 0 ∧ s.windows.length = 0 then .panic "mlpg.rs:parameters[0]"
      else if ((List.range s.vectorLength).map (mlpgCol gw thr s durs)).any Option.isNone then
        .panic "mask.rs:fill expect"
      else .ok ((List.range (maskCreate s.stream thr durs).length).map fun t =>
        (((List.range s.vectorLength).map (mlpgCol gw thr s durs)).map fun c => c.getD []).map
          fun c => c.getD t 0) := rfl

theorem mlpgCol_some (gw thr : K) (s : StreamIn K) (durs : List Nat) (m : Nat) (hw : 1 ≤ s.windows.length)
    (hd : durs.length ≤ s.stream.length)
    (hgv : ∀ g sw, s.gv = some (g, sw) → durs.length ≤ sw.length) :
    ∃ r, mlpgCol gw thr s durs m = some r ∧ r.length = (maskCreate s.stream thr durs).length := by
  unfold mlpgCol
  simp only
  have hml := maskCreate_length s.stream thr durs hd
  generalize maskCreate s.stream thr durs = mask at *
  generalize hobs : List.map _ ((List.range s.windows.length).zip s.windows) = obs
  have hall : ∀ o ∈ obs, o.length = (mask.filter id).length := by
    rw [← hobs]; intro o ho
    simp only [List.mem_map] at ho
    obtain ⟨⟨wi, win⟩, _, rfl⟩ := ho
    exact windowParams_length _ _ _ _ _ _ _ _ hd hml (by rw [boundaryDistances_length, hml])
  have hne : obs.length = s.windows.length := by rw [← hobs]; simp
  cases obs with
  | nil => simp at hne; omega
  | cons o0 rest =>
    obtain ⟨mtx, hm, h3, h1, h2⟩ := calcWuwWum_cons s.windows o0 rest
    rw [hm]
    simp only
    have ho := hall o0 (by simp)
    have hpar : (mtx.par s.gv m gw durs mask).length = (mask.filter id).length := by
      apply par_length _ _ _ _ _ _ _ (h1.trans ho) (h2.trans ho) (h3.trans ho)
      intro g sw hg
      apply filterBy_length
      rw [expand_length _ _ (hgv g sw hg), hml]
    obtain ⟨r, hr, hlen, -⟩ := maskFill_spec mask _ Consts.nodata hpar
    exact ⟨r, hr, hlen⟩

theorem maskFill_nodata {β : Type} (mask : List Bool) (xs : List β) (d : β) (r : List β)
    (h : maskFill mask xs d = some r) (f : Nat) (hf : mask[f]? = some false) : r[f]? = some d := by
  induction mask generalizing xs r f with
  | nil => simp at hf
  | cons b ms ih =>
    cases b with
    | true =>
      cases xs with
      | nil => simp [maskFill] at h
      | cons x xs =>
        simp only [maskFill, Option.map_eq_some_iff] at h
        obtain ⟨r', hr', rfl⟩ := h
        cases f with
        | zero => simp at hf
        | succ f => simpa using ih xs r' hr' f (by simpa using hf)
    | false =>
      simp only [maskFill, Option.map_eq_some_iff] at h
      obtain ⟨r', hr', rfl⟩ := h
      cases f with
      | zero => simp
      | succ f => simpa using ih xs r' hr' f (by simpa using hf)

theorem mlpgCol_nodata (gw thr : K) (s : StreamIn K) (durs : List Nat) (m : Nat) (r : List K)
    (h : mlpgCol gw thr s durs m = some r) (f : Nat)
    (hf : (maskCreate s.stream thr durs)[f]? = some false) : r[f]? = some Consts.nodata := by
  unfold mlpgCol at h
  simp only at h
  split at h
  · simp at h
  · exact maskFill_nodata _ _ _ _ h f hf


theorem mlpgCreate_shape_partial (gw thr : K) (s : StreamIn K) (durs : List Nat) (hwf : StreamWF s)
    (hd : durs.length ≤ s.stream.length)
    (hgv : ∀ g sw, s.gv = some (g, sw) → durs.length ≤ sw.length) :
    ∃ rows, mlpgCreate gw thr s durs = .ok rows ∧ rows.length = durs.sum ∧
      ∀ r ∈ rows, r.length = s.vectorLength := by
  obtain ⟨hw, hst⟩ := hwf
  rw [mlpgCreate_eq]
  have g1 : ¬ (s.vectorLength > 0 ∧ s.windows.length > 0 ∧ ((s.stream.zip durs).map (·.1)).any
      (fun st => decide (st.params.length < s.vectorLength * s.windows.length)) = true) := by
    rintro ⟨_, _, h⟩
    simp only [List.any_eq_true, List.mem_map, decide_eq_true_eq] at h
    obtain ⟨st, ⟨⟨a, b⟩, hab, rfl⟩, hlt⟩ := h
    have := hst a (List.of_mem_zip hab).1
    simp only at hlt
    omega
  have g2 : ¬ (s.vectorLength > 0 ∧ s.windows.length = 0) := by omega
  have g3 : ((List.range s.vectorLength).map (mlpgCol gw thr s durs)).any Option.isNone = false := by
    rw [List.any_eq_false]
    intro c hc
    simp only [List.mem_map] at hc
    obtain ⟨m, _, rfl⟩ := hc
    obtain ⟨r, hr, _⟩ := mlpgCol_some gw thr s durs m hw hd hgv
    simp [hr]
  rw [if_neg g1, if_neg g2, g3]
  simp only [Bool.false_eq_true, if_false]
  refine ⟨_, rfl, ?_, ?_⟩
  · simp [maskCreate_length _ _ _ hd]
  · intro r hr
    simp only [List.mem_map] at hr
    obtain ⟨t, _, rfl⟩ := hr
    simp

/-- what an `.ok` result of `mlpgCreate` looks like -/
theorem mlpgCreate_ok (gw thr : K) (s : StreamIn K) (durs : List Nat) (rows : List (List K))
    (h : mlpgCreate gw thr s durs = .ok rows) :
    ((List.range s.vectorLength).map (mlpgCol gw thr s durs)).any Option.isNone = false ∧
    rows = (List.range (maskCreate s.stream thr durs).length).map fun t =>
        (((List.range s.vectorLength).map (mlpgCol gw thr s durs)).map fun c => c.getD []).map
          fun c => c.getD t 0 := by
  rw [mlpgCreate_eq] at h
  split_ifs at h with h1 h2 h3
  simp only [Outcome.ok.injEq] at h
  exact ⟨by simpa using h3, h.symm⟩

theorem mlpgCreate_ok_length (gw thr : K) (s : StreamIn K) (durs : List Nat) (rows : List (List K))
    (h : mlpgCreate gw thr s durs = .ok rows) :
    rows.length = (maskCreate s.stream thr durs).length ∧ ∀ r ∈ rows, r.length = s.vectorLength := by
  obtain ⟨-, rfl⟩ := mlpgCreate_ok gw thr s durs rows h
  refine ⟨by simp, ?_⟩
  intro r hr
  simp only [List.mem_map] at hr
  obtain ⟨t, _, rfl⟩ := hr
  simp

/-! ### `mlpgCreate_shape` is false for a malformed GV switch list -/

theorem gvNextStep_length_le (m : MlpgMatrix K) (par : List K) (sw : List Bool) (g : List K)
    (step mean vari gm gv : K) : (gvNextStep m par sw g step mean vari gm gv).length ≤ sw.length := by
  unfold gvNextStep
  simp only [List.length_map, List.length_zip]
  omega

theorem gvLoop_length_le (m : MlpgMatrix K) (sw : List Bool) (gm gv : K) (gvLen : Nat) (half sd si : K)
    (fuel : Nat) : ∀ (i : Nat) (par : List K) (step prev : K), par.length ≤ sw.length →
      (gvParmgen.loop m sw gm gv gvLen half sd si i fuel par step prev).length ≤ sw.length := by
  induction fuel with
  | zero => intro i par step prev hp; simpa [gvParmgen.loop] using hp
  | succ fuel ih =>
    intro i par step prev hp
    rw [gvParmgen.loop]
    simp only
    apply ih
    exact gvNextStep_length_le _ _ _ _ _ _ _ _ _

/-- after at least one step the length is bounded by the switch, whatever the start -/
theorem gvLoop_length_le_succ (m : MlpgMatrix K) (sw : List Bool) (gm gv : K) (gvLen : Nat) (half sd si : K)
    (fuel : Nat) (i : Nat) (par : List K) (step prev : K) :
    (gvParmgen.loop m sw gm gv gvLen half sd si i (fuel + 1) par step prev).length ≤ sw.length := by
  rw [gvParmgen.loop]
  simp only
  apply gvLoop_length_le
  exact gvNextStep_length_le _ _ _ _ _ _ _ _ _

theorem gvParmgen_length_le (m : MlpgMatrix K) (par : List K) (sw : List Bool) (gm gv : K)
    (h : (sw.filter id).length ≠ 0) : (gvParmgen m par sw gm gv).length ≤ sw.length := by
  unfold gvParmgen
  simp only [h, if_false]
  exact gvLoop_length_le_succ m sw _ _ _ _ _ _ 4 1 _ _ _

theorem maskFill_short {β : Type} (xs : List β) (d : β) (h : xs.length ≤ 1) :
    maskFill [true, true] xs d = none := by
  match xs, h with
  | [], _ => rfl
  | [x], _ => rfl
  | _ :: _ :: _, h => simp at h

/-- a well-formed two-state stream whose GV switch list (one entry) is shorter than its state list -/
def cexStream : StreamIn K :=
  ⟨1, [⟨[⟨0, 1⟩], 1⟩, ⟨[⟨0, 1⟩], 1⟩], some ([⟨0, 1⟩], [true]), [[1]]⟩

theorem cexStream_wf : StreamWF (cexStream : StreamIn K) := by
  refine ⟨by simp [cexStream], ?_⟩
  intro st hst
  simp only [cexStream, List.mem_cons, List.not_mem_nil, or_false, or_self] at hst
  subst hst
  simp [cexStream]

theorem cexStream_not_ok (gw : K) (rows : List (List K)) :
    mlpgCreate gw 0 (cexStream : StreamIn K) [1, 1] ≠ .ok rows := by
  intro h
  have hnone := (mlpgCreate_ok _ _ _ _ _ h).1
  rw [List.any_eq_false] at hnone
  have h0 := hnone (mlpgCol gw 0 cexStream [1, 1] 0) (List.mem_map.2 ⟨0, by simp [cexStream], rfl⟩)
  apply h0
  have hmask : maskCreate (cexStream : StreamIn K).stream 0 [1, 1] = [true, true] := by
    simp [cexStream, maskCreate, expand]
  unfold mlpgCol
  simp only [hmask]
  split
  · rfl
  · rename_i mtx _
    rw [maskFill_short]
    · rfl
    · unfold MlpgMatrix.par
      simp only [cexStream]
      have hsw : filterBy (expand [true] [1, 1]) [true, true] = [true] := by decide
      rw [hsw]
      exact gvParmgen_length_le _ _ _ _ _ (by decide)

/-- `mlpgCreate_shape` is false as stated: a GV switch list shorter than the duration list makes the
    GV stage truncate the trajectory (`zip`), and `Mask::fill` then runs out of values. -/
theorem mlpgCreate_shape_counterexample :
    ∃ (s : StreamIn K) (durs : List Nat), StreamWF s ∧ durs.length ≤ s.stream.length ∧
      ∀ gw rows, mlpgCreate gw 0 s durs ≠ .ok rows :=
  ⟨cexStream, [1, 1], cexStream_wf, by simp [cexStream], cexStream_not_ok⟩

/-- unvoiced frames carry the no-data marker in every dimension -/
theorem mlpgCreate_nodata (gw thr : K) (s : StreamIn K) (durs : List Nat) (rows : List (List K))
    (h : mlpgCreate gw thr s durs = .ok rows) (f : Nat)
    (hm : (maskCreate s.stream thr durs)[f]? = some false) :
    rows[f]? = some (List.replicate s.vectorLength Consts.nodata) := by
  obtain ⟨hsome, rfl⟩ := mlpgCreate_ok gw thr s durs rows h
  have hf : f < (maskCreate s.stream thr durs).length := by
    by_contra hc
    rw [List.getElem?_eq_none (by omega)] at hm
    simp at hm
  rw [List.getElem?_map, List.getElem?_range hf]
  simp only [Option.map_some, Option.some.injEq, List.map_map]
  rw [← List.length_range (n := s.vectorLength), ← List.map_const', List.length_range]
  apply List.map_congr_left
  intro m hmem
  simp only [Function.comp]
  rw [List.any_eq_false] at hsome
  have := hsome (mlpgCol gw thr s durs m) (List.mem_map.2 ⟨m, hmem, rfl⟩)
  cases hc : mlpgCol gw thr s durs m with
  | none => simp [hc] at this
  | some r =>
    have hr := mlpgCol_nodata gw thr s durs m r hc f hm
    simp [List.getD_eq_getElem?_getD, hr]

/-- a stream without GV ignores the GV weight -/
theorem mlpgCreate_no_gv (gw gw' thr : K) (s : StreamIn K) (durs : List Nat) (h : s.gv = none) :
    mlpgCreate gw thr s durs = mlpgCreate gw' thr s durs := by
  simp only [mlpgCreate, MlpgMatrix.par, h]

/-- no eligible frame: the GV stage returns the plain ML solution -/
theorem gvParmgen_no_eligible (m : MlpgMatrix K) (par : List K) (sw : List Bool) (gm gv : K)
    (h : (sw.filter id).length = 0) : gvParmgen m par sw gm gv = par := by
  unfold gvParmgen
  simp [h]

/-! ### non-interference in `Engine::generator` -/

/-- the trajectory of stream `i` reads only its own GV weight and threshold (and the half tone iff `i = 1`) -/
theorem engineStream_congr (c c' : Condition K) (inp : EngineIn K) (durs : List Nat) (i : Nat)
    (hg : c.gvWeight[i]? = c'.gvWeight[i]?) (ht : c.msdThreshold[i]? = c'.msdThreshold[i]?)
    (hh : i = 1 → c.halfTone = c'.halfTone) :
    engineStream c inp durs i = engineStream c' inp durs i := by
  unfold engineStream
  rw [hg, ht]
  by_cases hi : i = 1
  · rw [hh hi]
  · simp only [hi, if_false]

/-- durations depend on the speed / alignment flag only -/
theorem engineDurations_congr (c c' : Condition K) (b : Bool) (inp : EngineIn K)
    (ha : c.alignment = c'.alignment) (hs : c.speed = c'.speed) :
    engineDurations c b inp = engineDurations c' b inp := by
  unfold engineDurations
  rw [ha, hs]

/-- `apply_additional_half_tone`: the static mean of every state becomes `clamp(m + h·HALF_TONE)`;
    variances, dynamic means and MSD weights are untouched; `h = 0` is the identity. -/
theorem applyHalfTone_zero (stream : List (StateParam K)) : applyHalfTone stream 0 = stream := by
  unfold applyHalfTone
  rw [if_pos ((isZero_iff (0 : K)).2 rfl)]

theorem applyHalfTone_spec (stream : List (StateParam K)) (h : K) (hh : h ≠ 0) :
    applyHalfTone stream h = stream.map fun s =>
      match s.params with
      | [] => s
      | p :: rest => { s with params := ⟨clampS (p.mean + h * Consts.halfTone) Consts.minLf0 Consts.maxLf0, p.vari⟩ :: rest } := by
  unfold applyHalfTone
  rw [if_neg (fun h0 => hh ((isZero_iff h).1 h0))]
  rfl

/-- the voiced/unvoiced pattern does not depend on the half tone -/
theorem applyHalfTone_mask (stream : List (StateParam K)) (h thr : K) (durs : List Nat) :
    maskCreate (applyHalfTone stream h) thr durs = maskCreate stream thr durs := by
  unfold applyHalfTone
  split
  · rfl
  · unfold maskCreate
    rw [List.map_map]
    congr 1
    apply List.map_congr_left
    intro s _
    rcases s with ⟨_ | ⟨p, rest⟩, msd⟩ <;> rfl

/-! ### the whole pipeline -/

theorem engineParams_ok (c : Condition K) (b : Bool) (inp : EngineIn K) (p : GenParams K)
    (h : engineParams c b inp = .ok p) :
    engineDurations c b inp = .ok p.durations ∧ engineStream c inp p.durations 0 = .ok p.spectrum ∧
      engineStream c inp p.durations 1 = .ok p.lf0 := by
  unfold engineParams at h
  split at h
  · rename_i durs hd
    split at h
    · rename_i sp lf0 h0 h1
      split_ifs at h
      · split at h <;> simp at h
        subst h
        exact ⟨hd, h0, h1⟩
      · simp at h
        subst h
        exact ⟨hd, h0, h1⟩
    all_goals simp at h
  · simp at h
  · simp at h

theorem engineStream_zero_ok (c : Condition K) (inp : EngineIn K) (durs : List Nat) (sp : List (List K))
    (s0 : StreamIn K) (hs0 : inp.streams[0]? = some s0) (h : engineStream c inp durs 0 = .ok sp) :
    ∃ gw thr, c.gvWeight[0]? = some gw ∧ c.msdThreshold[0]? = some thr ∧
      mlpgCreate gw thr s0 durs = .ok sp := by
  unfold engineStream at h
  split at h
  · rename_i s gw thr hs hg ht
    rw [hs0] at hs
    cases hs
    exact ⟨gw, thr, hg, ht, by simpa using h⟩
  · simp at h

/-- **Frame-exact length.** If synthesis returns, it returns `fperiod × F` samples, `F` the sum of the
    state durations (spectrum stream well-formed). -/
theorem engineSynthesize_length (fx : Fix) (c : Condition K) (b : Bool) (inp : EngineIn K) (w : List K)
    (s0 : StreamIn K) (hs0 : inp.streams[0]? = some s0) (hwf : StreamWF s0)
    (h : engineSynthesize fx c b inp = .ok w) :
    ∃ durs, engineDurations c b inp = .ok durs ∧ (durs.length ≤ s0.stream.length → w.length = c.fperiod * durs.sum) := by
  have _ := hwf
  unfold engineSynthesize at h
  split at h
  · rename_i p hp
    obtain ⟨hd, h0, -⟩ := engineParams_ok c b inp p hp
    refine ⟨p.durations, hd, fun hlen => ?_⟩
    cases hchk : speechGeneratorNewOk p with
    | false => simp [hchk] at h
    | true =>
      simp only [hchk, Bool.not_true, Bool.false_eq_true, if_false] at h
      rw [Gen.finish_fixed (vocoderFrame fx c.fperiod) _ (fun v f => vocoderFrame_length fx c.fperiod v f)
        (Nat.zero_le _)] at h
      simp only [Outcome.ok.injEq, List.drop_zero] at h
      subst h
      rw [Gen.render_length _ c.fperiod (fun v f => vocoderFrame_length fx c.fperiod v f)]
      obtain ⟨gw, thr, -, -, hm⟩ := engineStream_zero_ok c inp p.durations p.spectrum s0 hs0 h0
      have hl := (mlpgCreate_ok_length gw thr s0 p.durations p.spectrum hm).1
      rw [maskCreate_length _ _ _ hlen] at hl
      simp only [speechGeneratorNewOk, Bool.and_eq_true, beq_iff_eq] at hchk
      obtain ⟨⟨⟨e1, e2⟩, -⟩, -⟩ := hchk
      simp only [List.length_zip, ← e1, ← e2, Nat.min_self, hl]
      exact Nat.mul_comm _ _
  · simp at h
  · simp at h

theorem applyHalfTone_length (stream : List (StateParam K)) (h : K) :
    (applyHalfTone stream h).length = stream.length := by
  unfold applyHalfTone
  split <;> simp

theorem applyHalfTone_params (stream : List (StateParam K)) (h : K) (st : StateParam K)
    (hst : st ∈ applyHalfTone stream h) : ∃ st' ∈ stream, st.params.length = st'.params.length := by
  unfold applyHalfTone at hst
  split at hst
  · exact ⟨st, hst, rfl⟩
  · simp only [List.mem_map] at hst
    obtain ⟨st', hm, rfl⟩ := hst
    refine ⟨st', hm, ?_⟩
    rcases st' with ⟨_ | ⟨p, rest⟩, msd⟩ <;> rfl

/-- **Totality**, with the GV switch lists of both streams covering every state. -/
theorem engineSynthesize_total_partial (fx : Fix) (c : Condition K) (inp : EngineIn K)
    (s0 s1 : StreamIn K) (hs0 : inp.streams[0]? = some s0) (hs1 : inp.streams[1]? = some s1)
    (hw0 : StreamWF s0) (hw1 : StreamWF s1) (hv1 : s1.vectorLength = 1)
    (hl0 : s0.stream.length = inp.duration.length) (hl1 : s1.stream.length = inp.duration.length)
    (hgw : 2 ≤ c.gvWeight.length) (hth : 2 ≤ c.msdThreshold.length) (h2 : inp.nstream = 2)
    (halign : c.alignment = false)
    (hg0 : ∀ g sw, s0.gv = some (g, sw) → inp.duration.length ≤ sw.length)
    (hg1 : ∀ g sw, s1.gv = some (g, sw) → inp.duration.length ≤ sw.length) (b : Bool) :
    ∃ w, engineSynthesize fx c b inp = .ok w := by
  obtain ⟨durs, hdur⟩ := durationCreate_ok inp.duration c.speed b
  have hdl := (durationCreate_shape _ _ _ _ hdur).1
  have hD : engineDurations c b inp = .ok durs := by
    unfold engineDurations
    simp [halign, hdur]
  have hgw0 : c.gvWeight[0]? = some c.gvWeight[0] := List.getElem?_eq_getElem (by omega)
  have hgw1 : c.gvWeight[1]? = some c.gvWeight[1] := List.getElem?_eq_getElem (by omega)
  have hth0 : c.msdThreshold[0]? = some c.msdThreshold[0] := List.getElem?_eq_getElem (by omega)
  have hth1 : c.msdThreshold[1]? = some c.msdThreshold[1] := List.getElem?_eq_getElem (by omega)
  obtain ⟨sp, hsp, hspl, -⟩ := mlpgCreate_shape_partial c.gvWeight[0] c.msdThreshold[0] s0 durs hw0
    (by omega) (fun g sw h => by rw [hdl]; exact hg0 g sw h)
  have hS0 : engineStream c inp durs 0 = .ok sp := by
    unfold engineStream
    rw [hs0, hgw0, hth0]
    simpa using hsp
  have hw1' : StreamWF { s1 with stream := applyHalfTone s1.stream c.halfTone } :=
    ⟨hw1.1, fun st hst => by
      obtain ⟨st', hm, e⟩ := applyHalfTone_params _ _ st hst
      rw [e]; exact hw1.2 st' hm⟩
  obtain ⟨lf0, hlf, hlfl, hlfr⟩ := mlpgCreate_shape_partial c.gvWeight[1] c.msdThreshold[1]
    { s1 with stream := applyHalfTone s1.stream c.halfTone } durs hw1'
    (by simp only [applyHalfTone_length]; omega) (fun g sw h => by rw [hdl]; exact hg1 g sw h)
  have hS1 : engineStream c inp durs 1 = .ok lf0 := by
    unfold engineStream
    rw [hs1, hgw1, hth1]
    simpa using hlf
  have hP : engineParams c b inp = .ok ⟨durs, sp, lf0, lf0.map fun _ => []⟩ := by
    unfold engineParams
    rw [hD]
    simp only
    rw [hS0, hS1]
    simp [h2]
  have hchk : speechGeneratorNewOk (⟨durs, sp, lf0, lf0.map fun _ => []⟩ : GenParams K) = true := by
    unfold speechGeneratorNewOk
    simp only [hspl, hlfl, List.length_map, beq_self_eq_true, Bool.true_and]
    cases lf0 with
    | nil => simp
    | cons f r =>
      have := hlfr f (by simp)
      simp only at this
      simp [this, hv1]
  unfold engineSynthesize
  rw [hP]
  simp only [hchk, Bool.not_true, Bool.false_eq_true, if_false]
  exact ⟨_, Gen.finish_fixed (vocoderFrame fx c.fperiod) _
    (fun v f => vocoderFrame_length fx c.fperiod v f) (Nat.zero_le _)⟩

theorem engineSynthesize_total_counterexample (fx : Fix) :
    ∃ (c : Condition K) (inp : EngineIn K) (s0 s1 : StreamIn K),
      inp.streams[0]? = some s0 ∧ inp.streams[1]? = some s1 ∧ StreamWF s0 ∧ StreamWF s1 ∧
      s1.vectorLength = 1 ∧ s0.stream.length = inp.duration.length ∧
      s1.stream.length = inp.duration.length ∧ 2 ≤ c.gvWeight.length ∧ 2 ≤ c.msdThreshold.length ∧
      inp.nstream = 2 ∧ c.alignment = false ∧ ∀ w, engineSynthesize fx c true inp ≠ .ok w := by
  refine ⟨{ Condition.default with msdThreshold := [0, 0], gvWeight := [1, 1] },
    ⟨1, 2, [⟨0, 0⟩, ⟨0, 0⟩], [cexStream, cexStream], []⟩, cexStream, cexStream, rfl, rfl,
    cexStream_wf, cexStream_wf, rfl, rfl, rfl, by simp, by simp, rfl, rfl, ?_⟩
  intro w h
  unfold engineSynthesize at h
  split at h
  · rename_i p hp
    obtain ⟨hd, h0, -⟩ := engineParams_ok _ _ _ p hp
    have hdur : p.durations = [1, 1] := by
      have hfl : ⌊(2⁻¹ : K)⌋₊ = 0 := Nat.floor_eq_zero.2 (by norm_num)
      simp [engineDurations, Condition.default, durationCreate, estimateDuration, roundMax1_def, hfl] at hd
      exact hd.symm
    obtain ⟨gw, thr, -, ht, hm⟩ := engineStream_zero_ok _ _ _ _ cexStream rfl h0
    simp only [List.getElem?_cons_zero, Option.some.injEq] at ht
    subst ht
    rw [hdur] at hm
    exact cexStream_not_ok _ _ hm
  · simp at h
  · simp at h

end Jb
