/-
  Shape, totality and non-interference lemmas for the composed pipeline model (`Jb/Model/Engine.lean`).
-/
import Jb.Model.Engine
import Jb.Proofs.Mask
import Jb.Proofs.Ldl
import Jb.Proofs.Speech
import Jb.Proofs.Align

set_option linter.unusedSectionVars false

namespace Jb

variable {K : Type} [Field K] [LinearOrder K] [IsStrictOrderedRing K] [FloorRing K]
  [Transc K] [Consts K] [MlpgConsts K]

/-- well-formed stream: at least one window, every state has its `nwin · veclen` Gaussians -/
def StreamWF (s : StreamIn K) : Prop :=
  1 ≤ s.windows.length ∧ ∀ st ∈ s.stream, s.vectorLength * s.windows.length ≤ st.params.length

/-- a left fold whose step conses exactly one element onto the first component -/
theorem foldl_fst_length {A σ β : Type} (step : List A × σ → β → List A × σ)
    (hstep : ∀ acc b, (step acc b).1.length = acc.1.length + 1) (l : List β) (init : List A × σ) :
    (l.foldl step init).1.length = init.1.length + l.length := by
  induction l generalizing init with
  | nil => simp
  | cons b l ih => rw [List.foldl_cons, ih, hstep]; simp; omega

/-- one vocoder frame always yields exactly `fperiod` samples -/
theorem vocoderSynth_length (fx : Fix) (v : VocoderSt K) (lf0 : K) (sp lpf : List K) :
    (vocoderSynth fx v lf0 sp lpf).1.length = v.fperiod := by
  unfold vocoderSynth
  simp only [List.length_reverse]
  split <;>
  · rw [foldl_fst_length _ (fun acc b => by simp)]
    simp

theorem vocoderFrame_length (fx : Fix) (fp : Nat) (v : VocoderSt K) (f : List K × List K × List K) :
    (vocoderFrame fx fp v f).2.length = fp := by
  unfold vocoderFrame
  simp only
  rw [vocoderSynth_length]

theorem isZero_iff (x : K) : isZero x = true ↔ x = 0 := by
  unfold isZero
  simp only [Bool.and_eq_true, Bool.not_eq_true', decide_eq_false_iff_not, not_lt, decide_eq_true_eq]
  constructor
  · rintro ⟨⟨h1, h2⟩, _⟩; exact le_antisymm h2 h1
  · rintro rfl; exact ⟨⟨le_refl _, le_refl _⟩, le_refl _⟩

/-! ### length bookkeeping for MLPG -/

theorem maskCreate_length (stream : List (StateParam K)) (thr : K) (durs : List Nat)
    (hd : durs.length ≤ stream.length) : (maskCreate stream thr durs).length = durs.sum := by
  unfold maskCreate
  rw [expand_length _ _ (by simpa using hd)]

theorem boundaryDistances_length (mask : List Bool) : (boundaryDistances mask).length = mask.length := by
  simp [boundaryDistances, leftDists_length]

theorem windowParams_length (vl : Nat) (stream : List (StateParam K)) (durs : List Nat) (mask : List Bool)
    (bd : List (Nat × Nat)) (wi : Nat) (win : List K) (m : Nat) (hd : durs.length ≤ stream.length)
    (hm : mask.length = durs.sum) (hb : bd.length = durs.sum) :
    (windowParams vl stream durs mask bd wi win m).length = (mask.filter id).length := by
  unfold windowParams
  simp only
  apply filterBy_length
  rw [List.length_map, List.length_zip, expand_length _ _ (by simpa using hd), hb, hm]
  simp

theorem calcWuwWum_cons (windows : List (List K)) (o0 : List (MeanVari K)) (obs : List (List (MeanVari K))) :
    ∃ mtx, calcWuwWum windows (o0 :: obs) = some mtx ∧ mtx.length = o0.length ∧
      mtx.wuw.length = o0.length ∧ mtx.wum.length = o0.length := by
  refine ⟨_, rfl, ?_, ?_, ?_⟩ <;> simp

theorem solve_length (m : MlpgMatrix K) (n : Nat) (h1 : m.wuw.length = n) (h2 : m.wum.length = n) :
    m.solve.length = n := by
  unfold MlpgMatrix.solve
  simp only [backwardSub_length, forwardSub_length, ldlRows_length, h1, h2]
  simp

theorem foldl_length_inv {β γ : Type} (step : List γ → β → List γ) (n : Nat)
    (h : ∀ g b, g.length = n → (step g b).length = n) (l : List β) (g0 : List γ) (h0 : g0.length = n) :
    (l.foldl step g0).length = n := by
  induction l generalizing g0 with
  | nil => simpa using h0
  | cons b l ih => rw [List.foldl_cons]; exact ih _ (h _ _ h0)

theorem hmmobjDerivative_length (m : MlpgMatrix K) (par : List K) (n : Nat) (h1 : m.wuw.length = n)
    (h2 : m.length = n) (hp : par.length = n) : (hmmobjDerivative m par).2.length = n := by
  unfold hmmobjDerivative
  simp only
  apply foldl_length_inv
  · intro g b hg
    simp only [List.length_map, List.length_zip, List.length_append, List.length_take, List.length_replicate,
      shiftLeft, shiftRight, List.length_drop, hg, h1, h2, hp]
    omega
  · simp [h1, hp]

theorem gvNextStep_length (m : MlpgMatrix K) (par : List K) (sw : List Bool) (g : List K)
    (step mean vari gm gv : K) (n : Nat) (h1 : m.wuw.length = n) (h2 : m.wum.length = n)
    (hp : par.length = n) (hs : sw.length = n) (hg : g.length = n) :
    (gvNextStep m par sw g step mean vari gm gv).length = n := by
  unfold gvNextStep
  simp [h1, h2, hp, hs, hg]

theorem convGv_length (par : List K) (sw : List Bool) (gvLen : Nat) (gm : K) :
    (convGv par sw gvLen gm).length = min par.length sw.length := by
  unfold convGv
  simp

theorem gvLoop_length (m : MlpgMatrix K) (sw : List Bool) (gm gv : K) (gvLen : Nat) (half sd si : K)
    (n : Nat) (h1 : m.wuw.length = n) (h2 : m.wum.length = n) (h3 : m.length = n) (hs : sw.length = n)
    (fuel : Nat) : ∀ (i : Nat) (par : List K) (step prev : K), par.length = n →
      (gvParmgen.loop m sw gm gv gvLen half sd si i fuel par step prev).length = n := by
  induction fuel with
  | zero => intro i par step prev hp; simpa [gvParmgen.loop] using hp
  | succ fuel ih =>
    intro i par step prev hp
    rw [gvParmgen.loop]
    simp only
    apply ih
    exact gvNextStep_length _ _ _ _ _ _ _ _ _ n h1 h2 hp hs (hmmobjDerivative_length m par n h1 h3 hp)

theorem gvParmgen_length (m : MlpgMatrix K) (par : List K) (sw : List Bool) (gm gv : K)
    (n : Nat) (h1 : m.wuw.length = n) (h2 : m.wum.length = n) (h3 : m.length = n) (hp : par.length = n)
    (hs : sw.length = n) : (gvParmgen m par sw gm gv).length = n := by
  unfold gvParmgen
  simp only
  split
  · exact hp
  · apply gvLoop_length m sw _ _ _ _ _ _ n h1 h2 h3 hs
    rw [convGv_length, hp, hs]; simp


theorem par_length (mtx : MlpgMatrix K) (gv : Option (List (MeanVari K) × List Bool)) (m : Nat) (gw : K)
    (durs : List Nat) (mask : List Bool) (n : Nat) (h1 : mtx.wuw.length = n) (h2 : mtx.wum.length = n)
    (h3 : mtx.length = n)
    (hsw : ∀ g sw, gv = some (g, sw) → (filterBy (expand sw durs) mask).length = n) :
    (mtx.par gv m gw durs mask).length = n := by
  unfold MlpgMatrix.par
  cases gv with
  | none => exact solve_length mtx n h1 h2
  | some p =>
    obtain ⟨g, sw⟩ := p
    simp only
    exact gvParmgen_length _ _ _ _ _ n h1 h2 h3 (solve_length mtx n h1 h2) (hsw g sw rfl)

/-- one column (vector index `m`) of `mlpgCreate` -/
def mlpgCol (gw thr : K) (s : StreamIn K) (durs : List Nat) (m : Nat) : Option (List K) :=
  let mask := maskCreate s.stream thr durs
  let bd := boundaryDistances mask
  let obs := (List.range s.windows.length).zip s.windows |>.map fun (wi, win) =>
    windowParams s.vectorLength s.stream durs mask bd wi win m
  match calcWuwWum s.windows obs with
  | none => none
  | some mtx => maskFill mask (mtx.par s.gv m gw durs mask) Consts.nodata

theorem mlpgCreate_eq (gw thr : K) (s : StreamIn K) (durs : List Nat) :
    mlpgCreate gw thr s durs =
      if s.vectorLength > 0 ∧ s.windows.length > 0 ∧ ((s.stream.zip durs).map (·.1)).any
          (fun st => decide (st.params.length < s.vectorLength * s.windows.length)) then
        .panic "mlpg_adjust/mod.rs:curr_stream[m]"
      else if s.vectorLength > 0 ∧ s.windows.length = 0 then .panic "mlpg.rs:parameters[0]"
      else if ((List.range s.vectorLength).map (mlpgCol gw thr s durs)).any Option.isNone then
        .panic "mask.rs:fill expect"
      else .ok ((List.range (maskCreate s.stream thr durs).length).map fun t =>
        (((List.range s.vectorLength).map (mlpgCol gw thr s durs)).map fun c => c.getD []).map
          fun c => c.getD t 0) := rfl

theorem mlpgCol_some (gw thr : K) (s : StreamIn K) (durs : List Nat) (m : Nat) (hw : 1 ≤ s.windows.length)
    (hd : durs.length ≤ s.stream.length)
    (hgv : ∀ g sw, s.gv = some (g, sw) → durs.length ≤ sw.length) :
    ∃ r, mlpgCol gw thr s durs m = some r ∧ r.length = (maskCreate s.stream thr durs).length := by
  unfold mlpgCol
  simp only
  have hml := maskCreate_length s.stream thr durs hd
  generalize maskCreate s.stream thr durs = mask at *
  generalize hobs : List.map _ ((List.range s.windows.length).zip s.windows) = obs
  have hall : ∀ o ∈ obs, o.length = (mask.filter id).length := by
    rw [← hobs]; intro o ho
    simp only [List.mem_map] at ho
    obtain ⟨⟨wi, win⟩, _, rfl⟩ := ho
    exact windowParams_length _ _ _ _ _ _ _ _ hd hml (by rw [boundaryDistances_length, hml])
  have hne : obs.length = s.windows.length := by rw [← hobs]; simp
  cases obs with
  | nil => simp at hne; omega
  | cons o0 rest =>
    obtain ⟨mtx, hm, h3, h1, h2⟩ := calcWuwWum_cons s.windows o0 rest
    rw [hm]
    simp only
    have ho := hall o0 (by simp)
    have hpar : (mtx.par s.gv m gw durs mask).length = (mask.filter id).length := by
      apply par_length _ _ _ _ _ _ _ (h1.trans ho) (h2.trans ho) (h3.trans ho)
      intro g sw hg
      apply filterBy_length
      rw [expand_length _ _ (hgv g sw hg), hml]
    obtain ⟨r, hr, hlen, -⟩ := maskFill_spec mask _ Consts.nodata hpar
    exact ⟨r, hr, hlen⟩

theorem maskFill_nodata {β : Type} (mask : List Bool) (xs : List β) (d : β) (r : List β)
    (h : maskFill mask xs d = some r) (f : Nat) (hf : mask[f]? = some false) : r[f]? = some d := by
  induction mask generalizing xs r f with
  | nil => simp at hf
  | cons b ms ih =>
    cases b with
    | true =>
      cases xs with
      | nil => simp [maskFill] at h
      | cons x xs =>
        simp only [maskFill, Option.map_eq_some_iff] at h
        obtain ⟨r', hr', rfl⟩ := h
        cases f with
        | zero => simp at hf
        | succ f => simpa using ih xs r' hr' f (by simpa using hf)
    | false =>
      simp only [maskFill, Option.map_eq_some_iff] at h
      obtain ⟨r', hr', rfl⟩ := h
      cases f with
      | zero => simp
      | succ f => simpa using ih xs r' hr' f (by simpa using hf)

theorem mlpgCol_nodata (gw thr : K) (s : StreamIn K) (durs : List Nat) (m : Nat) (r : List K)
    (h : mlpgCol gw thr s durs m = some r) (f : Nat)
    (hf : (maskCreate s.stream thr durs)[f]? = some false) : r[f]? = some Consts.nodata := by
  unfold mlpgCol at h
  simp only at h
  split at h
  · simp at h
  · exact maskFill_nodata _ _ _ _ h f hf


theorem mlpgCreate_shape_partial (gw thr : K) (s : StreamIn K) (durs : List Nat) (hwf : StreamWF s)
    (hd : durs.length ≤ s.stream.length)
    (hgv : ∀ g sw, s.gv = some (g, sw) → durs.length ≤ sw.length) :
    ∃ rows, mlpgCreate gw thr s durs = .ok rows ∧ rows.length = durs.sum ∧
      ∀ r ∈ rows, r.length = s.vectorLength := by
  obtain ⟨hw, hst⟩ := hwf
  rw [mlpgCreate_eq]
  have g1 : ¬ (s.vectorLength > 0 ∧ s.windows.length > 0 ∧ ((s.stream.zip durs).map (·.1)).any
      (fun st => decide (st.params.length < s.vectorLength * s.windows.length)) = true) := by
    rintro ⟨_, _, h⟩
    simp only [List.any_eq_true, List.mem_map, decide_eq_true_eq] at h
    obtain ⟨st, ⟨⟨a, b⟩, hab, rfl⟩, hlt⟩ := h
    have := hst a (List.of_mem_zip hab).1
    simp only at hlt
    omega
  have g2 : ¬ (s.vectorLength > 0 ∧ s.windows.length = 0) := by omega
  have g3 : ((List.range s.vectorLength).map (mlpgCol gw thr s durs)).any Option.isNone = false := by
    rw [List.any_eq_false]
    intro c hc
    simp only [List.mem_map] at hc
    obtain ⟨m, _, rfl⟩ := hc
    obtain ⟨r, hr, _⟩ := mlpgCol_some gw thr s durs m hw hd hgv
    simp [hr]
  rw [if_neg g1, if_neg g2, g3]
  simp only [Bool.false_eq_true, if_false]
  refine ⟨_, rfl, ?_, ?_⟩
  · simp [maskCreate_length _ _ _ hd]
  · intro r hr
    simp only [List.mem_map] at hr
    obtain ⟨t, _, rfl⟩ := hr
    simp

/-- what an `.ok` result of `mlpgCreate` looks like -/
theorem mlpgCreate_ok (gw thr : K) (s : StreamIn K) (durs : List Nat) (rows : List (List K))
    (h : mlpgCreate gw thr s durs = .ok rows) :
    ((List.range s.vectorLength).map (mlpgCol gw thr s durs)).any Option.isNone = false ∧
    rows = (List.range (maskCreate s.stream thr durs).length).map fun t =>
        (((List.range s.vectorLength).map (mlpgCol gw thr s durs)).map fun c => c.getD []).map
          fun c => c.getD t 0 := by
  rw [mlpgCreate_eq] at h
  split_ifs at h with h1 h2 h3
  simp only [Outcome.ok.injEq] at h
  exact ⟨by simpa using h3, h.symm⟩

theorem mlpgCreate_ok_length (gw thr : K) (s : StreamIn K) (durs : List Nat) (rows : List (List K))
    (h : mlpgCreate gw thr s durs = .ok rows) :
    rows.length = (maskCreate s.stream thr durs).length ∧ ∀ r ∈ rows, r.length = s.vectorLength := by
  obtain ⟨-, rfl⟩ := mlpgCreate_ok gw thr s durs rows h
  refine ⟨by simp, ?_⟩
  intro r hr
  simp only [List.mem_map] at hr
  obtain ⟨t, _, rfl⟩ := hr
  simp

/-- MLPG never panics on a well-formed stream and returns one row of `vector_length` values per frame. -/
theorem mlpgCreate_shape (gw thr : K) (s : StreamIn K) (durs : List Nat) (hwf : StreamWF s)
    (hd : durs.length ≤ s.stream.length) :
    ∃ rows, mlpgCreate gw thr s durs = .ok rows ∧ rows.length = durs.sum ∧
      ∀ r ∈ rows, r.length = s.vectorLength := by
  sorry

/-- unvoiced frames carry the no-data marker in every dimension -/
theorem mlpgCreate_nodata (gw thr : K) (s : StreamIn K) (durs : List Nat) (rows : List (List K))
    (h : mlpgCreate gw thr s durs = .ok rows) (f : Nat)
    (hm : (maskCreate s.stream thr durs)[f]? = some false) :
    rows[f]? = some (List.replicate s.vectorLength Consts.nodata) := by
  obtain ⟨hsome, rfl⟩ := mlpgCreate_ok gw thr s durs rows h
  have hf : f < (maskCreate s.stream thr durs).length := by
    by_contra hc
    rw [List.getElem?_eq_none (by omega)] at hm
    simp at hm
  rw [List.getElem?_map, List.getElem?_range hf]
  simp only [Option.map_some, Option.some.injEq, List.map_map]
  rw [← List.length_range (n := s.vectorLength), ← List.map_const', List.length_range]
  apply List.map_congr_left
  intro m hmem
  simp only [Function.comp]
  rw [List.any_eq_false] at hsome
  have := hsome (mlpgCol gw thr s durs m) (List.mem_map.2 ⟨m, hmem, rfl⟩)
  cases hc : mlpgCol gw thr s durs m with
  | none => simp [hc] at this
  | some r =>
    have hr := mlpgCol_nodata gw thr s durs m r hc f hm
    simp [List.getD_eq_getElem?_getD, hr]

/-- a stream without GV ignores the GV weight -/
theorem mlpgCreate_no_gv (gw gw' thr : K) (s : StreamIn K) (durs : List Nat) (h : s.gv = none) :
    mlpgCreate gw thr s durs = mlpgCreate gw' thr s durs := by
  simp only [mlpgCreate, MlpgMatrix.par, h]

/-- no eligible frame: the GV stage returns the plain ML solution -/
theorem gvParmgen_no_eligible (m : MlpgMatrix K) (par : List K) (sw : List Bool) (gm gv : K)
    (h : (sw.filter id).length = 0) : gvParmgen m par sw gm gv = par := by
  unfold gvParmgen
  simp [h]

/-! ### non-interference in `Engine::generator` -/

/-- the trajectory of stream `i` reads only its own GV weight and threshold (and the half tone iff `i = 1`) -/
theorem engineStream_congr (c c' : Condition K) (inp : EngineIn K) (durs : List Nat) (i : Nat)
    (hg : c.gvWeight[i]? = c'.gvWeight[i]?) (ht : c.msdThreshold[i]? = c'.msdThreshold[i]?)
    (hh : i = 1 → c.halfTone = c'.halfTone) :
    engineStream c inp durs i = engineStream c' inp durs i := by
  unfold engineStream
  rw [hg, ht]
  by_cases hi : i = 1
  · rw [hh hi]
  · simp only [hi, if_false]

/-- durations depend on the speed / alignment flag only -/
theorem engineDurations_congr (c c' : Condition K) (b : Bool) (inp : EngineIn K)
    (ha : c.alignment = c'.alignment) (hs : c.speed = c'.speed) :
    engineDurations c b inp = engineDurations c' b inp := by
  unfold engineDurations
  rw [ha, hs]

/-- `apply_additional_half_tone`: the static mean of every state becomes `clamp(m + h·HALF_TONE)`;
    variances, dynamic means and MSD weights are untouched; `h = 0` is the identity. -/
theorem applyHalfTone_zero (stream : List (StateParam K)) : applyHalfTone stream 0 = stream := by
  unfold applyHalfTone
  rw [if_pos ((isZero_iff (0 : K)).2 rfl)]

theorem applyHalfTone_spec (stream : List (StateParam K)) (h : K) (hh : h ≠ 0) :
    applyHalfTone stream h = stream.map fun s =>
      match s.params with
      | [] => s
      | p :: rest => { s with params := ⟨clampS (p.mean + h * Consts.halfTone) Consts.minLf0 Consts.maxLf0, p.vari⟩ :: rest } := by
  unfold applyHalfTone
  rw [if_neg (fun h0 => hh ((isZero_iff h).1 h0))]
  rfl

/-- the voiced/unvoiced pattern does not depend on the half tone -/
theorem applyHalfTone_mask (stream : List (StateParam K)) (h thr : K) (durs : List Nat) :
    maskCreate (applyHalfTone stream h) thr durs = maskCreate stream thr durs := by
  unfold applyHalfTone
  split
  · rfl
  · unfold maskCreate
    rw [List.map_map]
    congr 1
    apply List.map_congr_left
    intro s _
    rcases s with ⟨_ | ⟨p, rest⟩, msd⟩ <;> rfl

/-! ### the whole pipeline -/

/-- **Frame-exact length.** If synthesis returns, it returns `fperiod × F` samples, `F` the sum of the
    state durations (spectrum stream well-formed). -/
theorem engineSynthesize_length (fx : Fix) (c : Condition K) (b : Bool) (inp : EngineIn K) (w : List K)
    (s0 : StreamIn K) (hs0 : inp.streams[0]? = some s0) (hwf : StreamWF s0)
    (h : engineSynthesize fx c b inp = .ok w) :
    ∃ durs, engineDurations c b inp = .ok durs ∧ (durs.length ≤ s0.stream.length → w.length = c.fperiod * durs.sum) := by
  sorry

/-- **Totality.** With the duration model consistent with the label count, every stream well-formed,
    log-F0 vector length 1 and an odd (or absent) low-pass order, synthesis returns a waveform. -/
theorem engineSynthesize_total (fx : Fix) (c : Condition K) (inp : EngineIn K)
    (s0 s1 : StreamIn K) (hs0 : inp.streams[0]? = some s0) (hs1 : inp.streams[1]? = some s1)
    (hw0 : StreamWF s0) (hw1 : StreamWF s1) (hv1 : s1.vectorLength = 1)
    (hl0 : s0.stream.length = inp.duration.length) (hl1 : s1.stream.length = inp.duration.length)
    (hgw : 2 ≤ c.gvWeight.length) (hth : 2 ≤ c.msdThreshold.length) (h2 : inp.nstream = 2)
    (halign : c.alignment = false) (b : Bool) :
    ∃ w, engineSynthesize fx c b inp = .ok w := by
  sorry

end Jb
