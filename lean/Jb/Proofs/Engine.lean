/-
  Shape, totality and non-interference lemmas for the composed pipeline model (`Jb/Model/Engine.lean`).
-/
import Jb.Model.Engine
import Jb.Proofs.Mask
import Jb.Proofs.Ldl
import Jb.Proofs.Speech
import Jb.Proofs.Align

set_option linter.unusedSectionVars false

namespace Jb

variable {K : Type} [Field K] [LinearOrder K] [IsStrictOrderedRing K] [FloorRing K]
  [Transc K] [Consts K] [MlpgConsts K]

/-- well-formed stream: at least one window, every state has its `nwin · veclen` Gaussians -/
def StreamWF (s : StreamIn K) : Prop :=
  1 ≤ s.windows.length ∧ ∀ st ∈ s.stream, s.vectorLength * s.windows.length ≤ st.params.length

/-- one vocoder frame always yields exactly `fperiod` samples -/
theorem vocoderSynth_length (fx : Fix) (v : VocoderSt K) (lf0 : K) (sp lpf : List K) :
    (vocoderSynth fx v lf0 sp lpf).1.length = v.fperiod := by
  sorry

theorem vocoderFrame_length (fx : Fix) (fp : Nat) (v : VocoderSt K) (f : List K × List K × List K) :
    (vocoderFrame fx fp v f).2.length = fp := by
  sorry

/-- MLPG never panics on a well-formed stream and returns one row of `vector_length` values per frame. -/
theorem mlpgCreate_shape (gw thr : K) (s : StreamIn K) (durs : List Nat) (hwf : StreamWF s)
    (hd : durs.length ≤ s.stream.length) :
    ∃ rows, mlpgCreate gw thr s durs = .ok rows ∧ rows.length = durs.sum ∧
      ∀ r ∈ rows, r.length = s.vectorLength := by
  sorry

/-- unvoiced frames carry the no-data marker in every dimension -/
theorem mlpgCreate_nodata (gw thr : K) (s : StreamIn K) (durs : List Nat) (rows : List (List K))
    (h : mlpgCreate gw thr s durs = .ok rows) (f : Nat)
    (hm : (maskCreate s.stream thr durs)[f]? = some false) :
    rows[f]? = some (List.replicate s.vectorLength Consts.nodata) := by
  sorry

/-- a stream without GV ignores the GV weight -/
theorem mlpgCreate_no_gv (gw gw' thr : K) (s : StreamIn K) (durs : List Nat) (h : s.gv = none) :
    mlpgCreate gw thr s durs = mlpgCreate gw' thr s durs := by
  sorry

/-- no eligible frame: the GV stage returns the plain ML solution -/
theorem gvParmgen_no_eligible (m : MlpgMatrix K) (par : List K) (sw : List Bool) (gm gv : K)
    (h : (sw.filter id).length = 0) : gvParmgen m par sw gm gv = par := by
  sorry

/-! ### non-interference in `Engine::generator` -/

/-- the trajectory of stream `i` reads only its own GV weight and threshold (and the half tone iff `i = 1`) -/
theorem engineStream_congr (c c' : Condition K) (inp : EngineIn K) (durs : List Nat) (i : Nat)
    (hg : c.gvWeight[i]? = c'.gvWeight[i]?) (ht : c.msdThreshold[i]? = c'.msdThreshold[i]?)
    (hh : i = 1 → c.halfTone = c'.halfTone) :
    engineStream c inp durs i = engineStream c' inp durs i := by
  sorry

/-- durations depend on the speed / alignment flag only -/
theorem engineDurations_congr (c c' : Condition K) (b : Bool) (inp : EngineIn K)
    (ha : c.alignment = c'.alignment) (hs : c.speed = c'.speed) :
    engineDurations c b inp = engineDurations c' b inp := by
  sorry

/-- `apply_additional_half_tone`: the static mean of every state becomes `clamp(m + h·HALF_TONE)`;
    variances, dynamic means and MSD weights are untouched; `h = 0` is the identity. -/
theorem applyHalfTone_zero (stream : List (StateParam K)) : applyHalfTone stream 0 = stream := by
  sorry

theorem applyHalfTone_spec (stream : List (StateParam K)) (h : K) (hh : h ≠ 0) :
    applyHalfTone stream h = stream.map fun s =>
      match s.params with
      | [] => s
      | p :: rest => { s with params := ⟨clampS (p.mean + h * Consts.halfTone) Consts.minLf0 Consts.maxLf0, p.vari⟩ :: rest } := by
  sorry

/-- the voiced/unvoiced pattern does not depend on the half tone -/
theorem applyHalfTone_mask (stream : List (StateParam K)) (h thr : K) (durs : List Nat) :
    maskCreate (applyHalfTone stream h) thr durs = maskCreate stream thr durs := by
  sorry

/-! ### the whole pipeline -/

/-- **Frame-exact length.** If synthesis returns, it returns `fperiod × F` samples, `F` the sum of the
    state durations (spectrum stream well-formed). -/
theorem engineSynthesize_length (fx : Fix) (c : Condition K) (b : Bool) (inp : EngineIn K) (w : List K)
    (s0 : StreamIn K) (hs0 : inp.streams[0]? = some s0) (hwf : StreamWF s0)
    (h : engineSynthesize fx c b inp = .ok w) :
    ∃ durs, engineDurations c b inp = .ok durs ∧ (durs.length ≤ s0.stream.length → w.length = c.fperiod * durs.sum) := by
  sorry

/-- **Totality.** With the duration model consistent with the label count, every stream well-formed,
    log-F0 vector length 1 and an odd (or absent) low-pass order, synthesis returns a waveform. -/
theorem engineSynthesize_total (fx : Fix) (c : Condition K) (inp : EngineIn K)
    (s0 s1 : StreamIn K) (hs0 : inp.streams[0]? = some s0) (hs1 : inp.streams[1]? = some s1)
    (hw0 : StreamWF s0) (hw1 : StreamWF s1) (hv1 : s1.vectorLength = 1)
    (hl0 : s0.stream.length = inp.duration.length) (hl1 : s1.stream.length = inp.duration.length)
    (hgw : 2 ≤ c.gvWeight.length) (hth : 2 ≤ c.msdThreshold.length) (h2 : inp.nstream = 2)
    (halign : c.alignment = false) (b : Bool) :
    ∃ w, engineSynthesize fx c b inp = .ok w := by
  sorry

end Jb
