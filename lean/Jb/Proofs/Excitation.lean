/-
  Pulse-train arithmetic of the excitation model over a linearly ordered floor field.
-/
import Jb.Proofs.Cepstrum
import Mathlib.Algebra.Order.Field.Basic
import Mathlib.Algebra.Order.Floor.Semiring
import Mathlib.Algebra.Order.Floor.Ring
import Mathlib.Tactic.Linarith
import Mathlib.Tactic.Ring
import Mathlib.Tactic.NormNum
import Mathlib.Tactic.FieldSimp

set_option linter.unusedSectionVars false

namespace Jb

variable {K : Type} [Field K] [LinearOrder K] [IsStrictOrderedRing K] [FloorRing K] [Transc K] [Consts K]

/-- the pulse counter after `j` samples without a pulse, from counter `c` -/
def counterAfter (c : K) (j : Nat) : K := c + (j : K)

theorem isZeroS_zero : isZeroS (0 : K) = true := (isZeroS_iff 0).mpr rfl

theorem isZeroS_eq_false {x : K} (h : x ≠ 0) : isZeroS x = false := by
  cases hb : isZeroS x with
  | false => rfl
  | true => exact absurd ((isZeroS_iff x).mp hb) h

/-- `pulseStep` fires exactly when the incremented counter exceeds the period; a firing step leaves
    `counter + 1 − period`, a silent step `counter + 1`; nothing else of the state changes. -/
theorem pulseStep_spec (e : ExcSt K) :
    (e.pitchOfCurr < e.pitchCounter + 1 →
      pulseStep e = (Transc.sqrt e.pitchOfCurr, { e with pitchCounter := e.pitchCounter + 1 - e.pitchOfCurr })) ∧
    (¬ e.pitchOfCurr < e.pitchCounter + 1 →
      pulseStep e = (0, { e with pitchCounter := e.pitchCounter + 1 })) := by
  constructor
  · intro h; unfold pulseStep; simp [h]
  · intro h; unfold pulseStep; simp [h]

/-- **Pulse gap.** With a constant period `p ≥ 1` and the counter in `(0, 1]` (where every pulse and
    every start leaves it), the next pulse comes after exactly `j = ⌊p − c⌋₊ + 1` samples: the first
    `j − 1` incremented counters do not exceed `p`, the `j`-th does; `j` is `⌊p⌋₊` or `⌊p⌋₊ + 1`
    (= `⌈p⌉₊` when `p` is not an integer, and `j = p` exactly when it is); and the counter left
    behind is again in `(0, 1]`. -/
theorem pulse_gap (p c : K) (hp : 1 ≤ p) (hc0 : 0 < c) (hc1 : c ≤ 1) :
    let j := ⌊p - c⌋₊ + 1
    (∀ i, i < j → i ≥ 1 → ¬ p < c + (i : K)) ∧ p < c + (j : K) ∧
    (j = ⌊p⌋₊ ∨ j = ⌊p⌋₊ + 1) ∧ ((p = (⌊p⌋₊ : K)) → j = ⌊p⌋₊) ∧
    0 < c + (j : K) - p ∧ c + (j : K) - p ≤ 1 := by
  have hx : 0 ≤ p - c := by linarith
  have hfl : ((⌊p - c⌋₊ : Nat) : K) ≤ p - c := Nat.floor_le hx
  have hlt : p - c < ((⌊p - c⌋₊ : Nat) : K) + 1 := Nat.lt_floor_add_one (p - c)
  have hmono : ⌊p - c⌋₊ ≤ ⌊p⌋₊ := Nat.floor_mono (by linarith)
  have hlow : ⌊p⌋₊ - 1 ≤ ⌊p - c⌋₊ := by
    rw [← Nat.floor_sub_one]
    exact Nat.floor_mono (by linarith)
  have h1 : 1 ≤ ⌊p⌋₊ := Nat.le_floor (by simpa using hp)
  intro j
  have hj : (j : K) = ((⌊p - c⌋₊ : Nat) : K) + 1 := by simp [j]
  refine ⟨?_, ?_, ?_, ?_, ?_, ?_⟩
  · intro i hi _ hcon
    have hi' : i ≤ ⌊p - c⌋₊ := Nat.lt_succ_iff.mp hi
    have : (i : K) ≤ ((⌊p - c⌋₊ : Nat) : K) := Nat.cast_le.mpr hi'
    linarith
  · rw [hj]; linarith
  · show ⌊p - c⌋₊ + 1 = ⌊p⌋₊ ∨ ⌊p - c⌋₊ + 1 = ⌊p⌋₊ + 1
    omega
  · intro hpn
    have : ⌊p - c⌋₊ < ⌊p⌋₊ := (Nat.floor_lt hx).mpr (by rw [← hpn]; linarith)
    show ⌊p - c⌋₊ + 1 = ⌊p⌋₊
    omega
  · rw [hj]; linarith
  · rw [hj]; linarith

/-- after `excStart` from silence (or at the very beginning) the first sample fires and leaves
    counter `1`, which is in `(0, 1]` -/
theorem start_fires (e : ExcSt K) (p : K) (hp : 1 ≤ p) (hsil : e.pitchOfCurr = 0) (fp : Nat) :
    let e' := excStart e p fp
    e'.pitchOfCurr = p ∧ e'.pitchCounter = p ∧ e'.pitchInc = 0 ∧
    pulseStep e' = (Transc.sqrt p, { e' with pitchCounter := 1 }) := by
  intro e'
  have _ := hp
  have he : e' = { e with pitchInc := 0, pitchOfCurr := p, pitchCounter := p } := by
    show excStart e p fp = _
    unfold excStart
    rw [hsil, isZeroS_zero]
    rfl
  have hlt : p < p + 1 := by linarith
  refine ⟨by rw [he], by rw [he], by rw [he], ?_⟩
  rw [he]
  unfold pulseStep
  simp [hlt]

/-- The pinned commit's test (`>=`) made the first gap `T0 − 1` for an integer period:
    the counter left by the first pulse is `1`, and with `p = 3` the next pulse fires after 2 samples. -/
theorem first_gap_integer_pinned : let p : ℚ := 3; let c : ℚ := 1
    (¬ p ≤ c + 1) ∧ p ≤ c + 2 := by
  norm_num

/-- With the repaired test the same situation gives a gap of exactly 3. -/
theorem first_gap_integer_fixed : let p : ℚ := 3; let c : ℚ := 1
    (¬ p < c + 1) ∧ (¬ p < c + 2) ∧ p < c + 3 := by
  norm_num

/-- Linear glide: with both periods non-zero, `excStart` sets the per-sample increment to
    `(p_new − p_old)/fperiod`, so after `fperiod` samples the period has moved by exactly the difference. -/
theorem glide_linear (e : ExcSt K) (p : K) (fp : Nat) (hfp : 0 < fp)
    (h0 : e.pitchOfCurr ≠ 0) (hp : p ≠ 0) :
    (excStart e p fp).pitchInc = (p - e.pitchOfCurr) / (fp : K) ∧
    (excStart e p fp).pitchOfCurr = e.pitchOfCurr ∧
    e.pitchOfCurr + (fp : K) * (excStart e p fp).pitchInc = p := by
  have hfpK : (fp : K) ≠ 0 := Nat.cast_ne_zero.mpr (Nat.pos_iff_ne_zero.mp hfp)
  have he : excStart e p fp = { e with pitchInc := (p - e.pitchOfCurr) / (fp : K) } := by
    unfold excStart
    rw [isZeroS_eq_false h0, isZeroS_eq_false hp]
    rfl
  rw [he]
  refine ⟨rfl, rfl, ?_⟩
  show e.pitchOfCurr + (fp : K) * ((p - e.pitchOfCurr) / (fp : K)) = p
  field_simp
  ring

/-- the LCG output lies in `[0, 1]` -/
theorem rnd_range (st : RandomSt K) : 0 ≤ (rnd st).1 ∧ (rnd st).1 ≤ 1 := by
  have hr : ∀ n : UInt64, ((n / 65536) % 32768).toNat ≤ 32767 := by
    intro n
    rw [UInt64.toNat_mod]
    have : (32768 : UInt64).toNat = 32768 := by decide
    rw [this]
    have := Nat.mod_lt (n / 65536).toNat (show 0 < 32768 by decide)
    omega
  have hv : (rnd st).1 = ((((st.next * 1103515245 + 12345) / 65536) % 32768).toNat : K)
      / ((32767 : Nat) : K) := rfl
  rw [hv]
  have hpos : (0 : K) < ((32767 : Nat) : K) := Nat.cast_pos.mpr (by decide)
  have hle : ((((st.next * 1103515245 + 12345) / 65536) % 32768).toNat : K) ≤ ((32767 : Nat) : K) :=
    Nat.cast_le.mpr (hr _)
  exact ⟨div_nonneg (Nat.cast_nonneg _) hpos.le, (div_le_one hpos).mpr hle⟩

/-- pitch period from log-F0: `NODATA ↦ 0` (unvoiced), otherwise `rate / exp(clamp lf0)` -/
theorem period_nodata (rate : Nat) : periodOfLf0 rate (Consts.nodata : K) = 0 := by
  unfold periodOfLf0
  rw [sub_self, isZeroS_zero]
  rfl

theorem period_voiced (rate : Nat) (lf0 : K) (h : lf0 ≠ Consts.nodata) :
    periodOfLf0 rate lf0 = (rate : K) / Transc.exp (clampS lf0 Consts.minLf0 Consts.maxLf0) := by
  unfold periodOfLf0
  rw [isZeroS_eq_false (sub_ne_zero.mpr h)]
  rfl

end Jb
