/-
  `lsp2lpc` (`Jb/Model/Vocoder.lean`) returns the coefficients of `A(z) = ½ (P(z) + Q(z))`, where `P` and
  `Q` are the products of the second-order sections `1 − 2cos(w) z⁻¹ + z⁻²` over the odd- and
  even-numbered line spectral frequencies, times `(1 + z⁻¹)`, `(1 − z⁻¹)` (even order) or `1`, `(1 − z⁻²)`
  (odd order).
-/
import Jb.Model.Vocoder
import Jb.Proofs.Cepstrum
import Mathlib.Algebra.Order.Field.Basic
import Mathlib.Algebra.BigOperators.Intervals
import Mathlib.Tactic.Linarith
import Mathlib.Tactic.Ring
import Mathlib.RingTheory.PowerSeries.Basic
import Mathlib.Data.List.GetD

set_option linter.unusedSectionVars false

namespace Jb

variable {K : Type} [Field K] [LinearOrder K] [IsStrictOrderedRing K] [Transc K] [Consts K]

/-- coefficient `k` of the product of two polynomials given as coefficient lists (in `z⁻¹`) -/
def polyMulCoef (a b : List K) (k : Nat) : K :=
  (Finset.range (k + 1)).sum fun i => a.getD i 0 * b.getD (k - i) 0

def polyMul (a b : List K) : List K :=
  if a.isEmpty || b.isEmpty then [] else (List.range (a.length + b.length - 1)).map (polyMulCoef a b)

/-- `Π (1 + p z⁻¹ + z⁻²)` over a list of middle coefficients -/
def sectionsPoly : List K → List K
  | [] => [1]
  | p :: ps => polyMul [1, p, 1] (sectionsPoly ps)

/-- the reference polynomial `½(P + Q)` for line spectral frequencies `lsp` -/
def lspRefPoly (lsp : List K) : List K :=
  let m := lsp.length
  let two : K := ((2 : Nat) : K)
  let evens := ((List.range m).zip lsp).filter (fun x => x.1 % 2 = 0) |>.map (·.2)
  let odds := ((List.range m).zip lsp).filter (fun x => x.1 % 2 = 1) |>.map (·.2)
  let pp := sectionsPoly (evens.map fun x => -two * Transc.cos x)
  let qq := sectionsPoly (odds.map fun x => -two * Transc.cos x)
  let (pfac, qfac) : List K × List K := if m % 2 = 1 then ([1], [1, 0, -1]) else ([1, 1], [1, -1])
  let P := polyMul pfac pp
  let Q := polyMul qfac qq
  (List.range (m + 1)).map fun k => (1 / two) * (P.getD k 0 + Q.getD k 0)

open PowerSeries in
/-- a coefficient list as a power series in `z⁻¹` -/
noncomputable def toPS (a : List K) : PowerSeries K := PowerSeries.mk fun i => a.getD i 0

theorem coeff_toPS (a : List K) (k : Nat) : PowerSeries.coeff k (toPS a) = a.getD k 0 := by
  simp [toPS]

theorem polyMulCoef_eq_zero (a b : List K) (k : Nat) (h : a.length + b.length - 1 ≤ k) :
    polyMulCoef a b k = 0 := by
  unfold polyMulCoef
  apply Finset.sum_eq_zero
  intro i hi
  rw [Finset.mem_range] at hi
  by_cases hia : i < a.length
  · have : b.length ≤ k - i := by omega
    rw [List.getD_eq_default _ _ this, mul_zero]
  · rw [List.getD_eq_default _ _ (by omega), zero_mul]

theorem toPS_polyMul (a b : List K) : toPS (polyMul a b) = toPS a * toPS b := by
  ext k
  rw [PowerSeries.coeff_mul, coeff_toPS,
    Finset.Nat.sum_antidiagonal_eq_sum_range_succ (fun i j => PowerSeries.coeff i (toPS a) * PowerSeries.coeff j (toPS b))]
  simp only [coeff_toPS]
  change _ = polyMulCoef a b k
  unfold polyMul
  split
  · rename_i h
    simp only [Bool.or_eq_true, List.isEmpty_iff] at h
    rcases h with h | h <;> subst h <;> simp [polyMulCoef]
  · by_cases hk : k < a.length + b.length - 1
    · simp [List.getD_eq_getElem?_getD, hk]
    · rw [polyMulCoef_eq_zero _ _ _ (by omega), List.getD_eq_default]
      simp; omega

open PowerSeries

/-- the second-order section `1 + p z⁻¹ + z⁻²` as a power series -/
noncomputable def secFac (p : K) : K⟦X⟧ := 1 + C p * X + X * X

noncomputable def secPS : List K → K⟦X⟧
  | [] => 1
  | p :: ps => secFac p * secPS ps

theorem toPS_sec (p : K) : toPS [1, p, 1] = secFac p := by
  ext n
  rw [coeff_toPS]
  unfold secFac
  rcases n with _ | _ | _ | n <;> simp [coeff_X, coeff_one]

theorem toPS_one : toPS ([1] : List K) = 1 := by
  ext n
  rw [coeff_toPS]
  rcases n with _ | n <;> simp [coeff_one]

theorem toPS_sectionsPoly (ps : List K) : toPS (sectionsPoly ps) = secPS ps := by
  induction ps with
  | nil => simp [sectionsPoly, secPS, toPS_one]
  | cons p ps ih => simp [sectionsPoly, secPS, toPS_polyMul, toPS_sec, ih]

theorem coeff_zero_secPS (ps : List K) : coeff 0 (secPS ps) = 1 := by
  induction ps with
  | nil => simp [secPS]
  | cons p ps ih =>
    simp only [coeff_zero_eq_constantCoeff_apply] at ih ⊢
    simp [secPS, secFac, ih]

/-- memory of the sections of a cascade driven by `f`, before time `n` -/
noncomputable def stateAt : List K → K⟦X⟧ → Nat → List (K × K)
  | [], _, _ => []
  | p :: ps, f, n => (coeff n (X * f), coeff n (X * (X * f))) :: stateAt ps (secFac p * f) n

theorem stateAt_zero (ps : List K) (f : K⟦X⟧) :
    stateAt ps f 0 = List.replicate ps.length (0, 0) := by
  induction ps generalizing f with
  | nil => rfl
  | cons p ps ih => simp [stateAt, ih, List.replicate_succ]

theorem lspCascade_aux (ps : List K) (f : K⟦X⟧) (n : Nat) (pre : List (K × K)) :
    (ps.zip (stateAt ps f n)).foldl (fun (acc : K × List (K × K)) (p, (a1, a2)) =>
      (acc.1 + p * a1 + a2, acc.2 ++ [(acc.1, a1)])) (coeff n f, pre)
    = (coeff n (secPS ps * f), pre ++ stateAt ps f (n + 1)) := by
  induction ps generalizing f pre with
  | nil => simp [stateAt, secPS]
  | cons p ps ih =>
    simp only [stateAt, List.zip_cons_cons, List.foldl_cons]
    have h1 : coeff n f + p * coeff n (X * f) + coeff n (X * (X * f)) = coeff n (secFac p * f) := by
      have : secFac p * f = f + C p * (X * f) + X * (X * f) := by unfold secFac; ring
      rw [this]; simp
    rw [h1, ih]
    simp [secPS, coeff_succ_X_mul, mul_assoc, mul_comm (secPS ps)]

theorem lspCascade_run (ps : List K) (f : K⟦X⟧) (n : Nat) :
    lspCascade (coeff n f) ps (stateAt ps f n) = (coeff n (secPS ps * f), stateAt ps f (n + 1)) := by
  have := lspCascade_aux ps f n []
  simpa [lspCascade] using this


/-- one time step of the loop of `lsp2lpc` -/
def lspStep (odd : Prop) [Decidable odd] (half : K) (p q : List K)
    (acc : List K × List (K × K) × List (K × K) × K × K) (k : Nat) :
    List K × List (K × K) × List (K × K) × K × K :=
  let (outs, sa, sb, xf, xff) := acc
  let xx : K := if k = 0 then 1 else 0
  let (a00, b00, xf', xff') :=
    if odd then (xx, xx - xff, xx, xf) else (xx + xf, xx - xf, xx, xff)
  let (ao, sa') := lspCascade a00 p sa
  let (bo, sb') := lspCascade b00 q sb
  let outs' := if k > 0 then outs ++ [-half * (ao + bo)] else outs
  (outs', sa', sb', xf', xff')

/-- the recorded outputs after `n` time steps -/
def outsN (g : Nat → K) (n : Nat) : List K := (List.range (n - 1)).map fun j => g (j + 1)

theorem outsN_succ (g : Nat → K) (n : Nat) :
    (if n > 0 then outsN g n ++ [g n] else outsN g n) = outsN g (n + 1) := by
  rcases n with _ | n
  · simp [outsN]
  · simp [outsN, List.range_succ]

theorem lspStep_odd (odd : Prop) [Decidable odd] (h : odd) (half : K) (p q : List K) (outs : List K)
    (n : Nat) :
    lspStep odd half p q (outs, stateAt p (toPS [1]) n, stateAt q (toPS [1, 0, -1]) n,
        (if n = 1 then 1 else 0), (if n = 2 then 1 else 0)) n
      = ((if n > 0 then outs ++ [-half * (coeff n (secPS p * toPS [1])
              + coeff n (secPS q * toPS [1, 0, -1]))] else outs),
          stateAt p (toPS [1]) (n + 1), stateAt q (toPS [1, 0, -1]) (n + 1),
          (if n + 1 = 1 then 1 else 0), (if n + 1 = 2 then 1 else 0)) := by
  have ha : (if n = 0 then (1 : K) else 0) = coeff n (toPS [1]) := by
    rw [coeff_toPS]; rcases n with _ | n <;> simp
  have hb : (if n = 0 then (1 : K) else 0) - (if n = 2 then 1 else 0)
      = coeff n (toPS [1, 0, -1]) := by
    rw [coeff_toPS]; rcases n with _ | _ | _ | n <;> simp
  unfold lspStep
  simp only [h, if_true]
  rw [hb]
  conv_lhs => rw [ha]
  rw [lspCascade_run, lspCascade_run, ← ha]
  simp

theorem lspStep_even (odd : Prop) [Decidable odd] (h : ¬ odd) (half : K) (p q : List K)
    (outs : List K) (n : Nat) :
    lspStep odd half p q (outs, stateAt p (toPS [1, 1]) n, stateAt q (toPS [1, -1]) n,
        (if n = 1 then 1 else 0), 0) n
      = ((if n > 0 then outs ++ [-half * (coeff n (secPS p * toPS [1, 1])
              + coeff n (secPS q * toPS [1, -1]))] else outs),
          stateAt p (toPS [1, 1]) (n + 1), stateAt q (toPS [1, -1]) (n + 1),
          (if n + 1 = 1 then 1 else 0), 0) := by
  have ha : (if n = 0 then (1 : K) else 0) + (if n = 1 then 1 else 0)
      = coeff n (toPS [1, 1]) := by
    rw [coeff_toPS]; rcases n with _ | _ | n <;> simp
  have hb : (if n = 0 then (1 : K) else 0) - (if n = 1 then 1 else 0)
      = coeff n (toPS [1, -1]) := by
    rw [coeff_toPS]; rcases n with _ | _ | n <;> simp
  unfold lspStep
  simp only [h, if_false]
  rw [ha, hb, lspCascade_run, lspCascade_run]
  simp


theorem fold_odd (odd : Prop) [Decidable odd] (h : odd) (half : K) (p q : List K) (n : Nat) :
    (List.range n).foldl (lspStep odd half p q)
        ([], List.replicate p.length (0, 0), List.replicate q.length (0, 0), 0, 0)
      = (outsN (fun k => -half * (coeff k (secPS p * toPS [1])
            + coeff k (secPS q * toPS [1, 0, -1]))) n,
          stateAt p (toPS [1]) n, stateAt q (toPS [1, 0, -1]) n,
          (if n = 1 then 1 else 0), (if n = 2 then 1 else 0)) := by
  induction n with
  | zero => simp [outsN, stateAt_zero]
  | succ n ih =>
    rw [List.range_succ, List.foldl_append, ih, List.foldl_cons, List.foldl_nil, lspStep_odd _ h,
      outsN_succ (fun k => -half * (coeff k (secPS p * toPS [1])
            + coeff k (secPS q * toPS [1, 0, -1])))]

theorem fold_even (odd : Prop) [Decidable odd] (h : ¬ odd) (half : K) (p q : List K) (n : Nat) :
    (List.range n).foldl (lspStep odd half p q)
        ([], List.replicate p.length (0, 0), List.replicate q.length (0, 0), 0, 0)
      = (outsN (fun k => -half * (coeff k (secPS p * toPS [1, 1])
            + coeff k (secPS q * toPS [1, -1]))) n,
          stateAt p (toPS [1, 1]) n, stateAt q (toPS [1, -1]) n,
          (if n = 1 then 1 else 0), 0) := by
  induction n with
  | zero => simp [outsN, stateAt_zero]
  | succ n ih =>
    rw [List.range_succ, List.foldl_append, ih, List.foldl_cons, List.foldl_nil, lspStep_even _ h,
      outsN_succ (fun k => -half * (coeff k (secPS p * toPS [1, 1])
            + coeff k (secPS q * toPS [1, -1])))]

theorem length_parity_filter (l : List K) :
    (((List.range l.length).zip l).filter (fun x => decide (x.1 % 2 = 0))).length
        = (l.length + 1) / 2 ∧
    (((List.range l.length).zip l).filter (fun x => decide (x.1 % 2 = 1))).length
        = l.length / 2 := by
  induction l using List.reverseRecOn with
  | nil => simp
  | append_singleton l a ih =>
    rw [List.length_append, List.length_singleton, List.range_succ,
      List.zip_append (by simp), List.filter_append, List.filter_append, List.length_append,
      List.length_append, ih.1, ih.2]
    rcases Nat.mod_two_eq_zero_or_one l.length with h | h <;> simp [h] <;> omega

theorem getD_polyMul_sections (fac ps : List K) (k : Nat) :
    (polyMul fac (sectionsPoly ps)).getD k 0 = coeff k (secPS ps * toPS fac) := by
  rw [← coeff_toPS, toPS_polyMul, toPS_sectionsPoly, mul_comm]

theorem coeff_zero_secPS_mul (ps fac : List K) :
    coeff 0 (secPS ps * toPS fac) = fac.getD 0 0 := by
  have := coeff_zero_secPS ps
  rw [coeff_zero_eq_constantCoeff_apply] at this ⊢
  rw [map_mul, this, one_mul, ← coeff_zero_eq_constantCoeff_apply, coeff_toPS]


/-- **`lsp2lpc` = ½(P + Q).** (Repaired code: the frequencies are the elements after the gain.) -/
theorem lsp2lpc_poly (b : Bool) (g : K) (lsp : List K) :
    lsp2lpc ⟨b, true⟩ (g :: lsp) = lspRefPoly lsp := by
  have hlen := length_parity_filter lsp
  have h2 : ((2 : Nat) : K) ≠ 0 := by
    rw [Nat.cast_ofNat]; exact two_ne_zero
  have h1 : lsp2lpc ⟨b, true⟩ (g :: lsp) = 1 :: List.map (fun x => -x)
      (List.foldl (lspStep (lsp.length % 2 = 1) (1 / ((2 : Nat) : K))
        ((((List.range lsp.length).zip lsp).filter (fun x => decide (x.1 % 2 = 0))
          |>.map (·.2)).map fun x => -((2 : Nat) : K) * Transc.cos x)
        ((((List.range lsp.length).zip lsp).filter (fun x => decide (x.1 % 2 = 1))
          |>.map (·.2)).map fun x => -((2 : Nat) : K) * Transc.cos x))
        ([], List.replicate (if lsp.length % 2 = 1 then (lsp.length + 1) / 2 else lsp.length / 2) (0, 0),
          List.replicate (if lsp.length % 2 = 1 then (lsp.length - 1) / 2 else lsp.length / 2) (0, 0), 0, 0)
        (List.range (lsp.length + 1))).1 := rfl
  rw [h1]
  unfold lspRefPoly
  simp only [getD_polyMul_sections]
  by_cases hodd : lsp.length % 2 = 1
  · have e1 : (if lsp.length % 2 = 1 then (lsp.length + 1) / 2 else lsp.length / 2)
        = ((((List.range lsp.length).zip lsp).filter (fun x => decide (x.1 % 2 = 0))
          |>.map (·.2)).map fun x => -((2 : Nat) : K) * Transc.cos x).length := by
      simp [hodd, hlen.1]
    have e2 : (if lsp.length % 2 = 1 then (lsp.length - 1) / 2 else lsp.length / 2)
        = ((((List.range lsp.length).zip lsp).filter (fun x => decide (x.1 % 2 = 1))
          |>.map (·.2)).map fun x => -((2 : Nat) : K) * Transc.cos x).length := by
      simp [hodd, hlen.2]; omega
    rw [e1, e2, fold_odd _ hodd]
    simp only [hodd, if_true, outsN, Nat.add_sub_cancel, List.map_map]
    rw [List.range_succ_eq_map, List.map_cons, List.map_map]
    congr 1
    · rw [coeff_zero_secPS_mul, coeff_zero_secPS_mul]
      simp; field_simp; norm_num
    · apply List.map_congr_left
      intro j _
      simp only [Function.comp]
      ring
  · have e1 : (if lsp.length % 2 = 1 then (lsp.length + 1) / 2 else lsp.length / 2)
        = ((((List.range lsp.length).zip lsp).filter (fun x => decide (x.1 % 2 = 0))
          |>.map (·.2)).map fun x => -((2 : Nat) : K) * Transc.cos x).length := by
      simp [hodd, hlen.1]; omega
    have e2 : (if lsp.length % 2 = 1 then (lsp.length - 1) / 2 else lsp.length / 2)
        = ((((List.range lsp.length).zip lsp).filter (fun x => decide (x.1 % 2 = 1))
          |>.map (·.2)).map fun x => -((2 : Nat) : K) * Transc.cos x).length := by
      simp [hodd, hlen.2]
    rw [e1, e2, fold_even _ hodd]
    simp only [hodd, if_false, outsN, Nat.add_sub_cancel, List.map_map]
    rw [List.range_succ_eq_map, List.map_cons, List.map_map]
    congr 1
    · rw [coeff_zero_secPS_mul, coeff_zero_secPS_mul]
      simp; field_simp; norm_num
    · apply List.map_congr_left
      intro j _
      simp only [Function.comp]
      ring

end Jb
