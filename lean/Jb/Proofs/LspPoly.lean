/-
  `lsp2lpc` (`Jb/Model/Vocoder.lean`) returns the coefficients of `A(z) = ½ (P(z) + Q(z))`, where `P` and
  `Q` are the products of the second-order sections `1 − 2cos(w) z⁻¹ + z⁻²` over the odd- and
  even-numbered line spectral frequencies, times `(1 + z⁻¹)`, `(1 − z⁻¹)` (even order) or `1`, `(1 − z⁻²)`
  (odd order).
-/
import Jb.Model.Vocoder
import Jb.Proofs.Cepstrum
import Mathlib.Algebra.Order.Field.Basic
import Mathlib.Algebra.BigOperators.Intervals
import Mathlib.Tactic.Linarith
import Mathlib.Tactic.Ring

set_option linter.unusedSectionVars false

namespace Jb

variable {K : Type} [Field K] [LinearOrder K] [IsStrictOrderedRing K] [Transc K] [Consts K]

/-- coefficient `k` of the product of two polynomials given as coefficient lists (in `z⁻¹`) -/
def polyMulCoef (a b : List K) (k : Nat) : K :=
  (Finset.range (k + 1)).sum fun i => a.getD i 0 * b.getD (k - i) 0

def polyMul (a b : List K) : List K :=
  if a.isEmpty || b.isEmpty then [] else (List.range (a.length + b.length - 1)).map (polyMulCoef a b)

/-- `Π (1 + p z⁻¹ + z⁻²)` over a list of middle coefficients -/
def sectionsPoly : List K → List K
  | [] => [1]
  | p :: ps => polyMul [1, p, 1] (sectionsPoly ps)

/-- the reference polynomial `½(P + Q)` for line spectral frequencies `lsp` -/
def lspRefPoly (lsp : List K) : List K :=
  let m := lsp.length
  let two : K := ((2 : Nat) : K)
  let evens := ((List.range m).zip lsp).filter (fun x => x.1 % 2 = 0) |>.map (·.2)
  let odds := ((List.range m).zip lsp).filter (fun x => x.1 % 2 = 1) |>.map (·.2)
  let pp := sectionsPoly (evens.map fun x => -two * Transc.cos x)
  let qq := sectionsPoly (odds.map fun x => -two * Transc.cos x)
  let (pfac, qfac) : List K × List K := if m % 2 = 1 then ([1], [1, 0, -1]) else ([1, 1], [1, -1])
  let P := polyMul pfac pp
  let Q := polyMul qfac qq
  (List.range (m + 1)).map fun k => (1 / two) * (P.getD k 0 + Q.getD k 0)

/-- **`lsp2lpc` = ½(P + Q).** (Repaired code: the frequencies are the elements after the gain.) -/
theorem lsp2lpc_poly (b : Bool) (g : K) (lsp : List K) :
    lsp2lpc ⟨b, true⟩ (g :: lsp) = lspRefPoly lsp := by
  sorry

end Jb
