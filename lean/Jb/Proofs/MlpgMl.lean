/-
  C05 capstone, second half: the trajectory `MlpgAdjust::create` returns (no GV) is the maximum-likelihood
  static sequence for the Gaussians and windows it was given.

    * `obsOf`: the scalar observations of the MLPG problem written from the definition — one per window and
      frame, with the window row `winCoef`, the precision and the mean;
    * `normalResidual_obsOf`: the gradient of the log-likelihood is `W'PW c − W'Pμ` with the dense entries
      `wpwEntry` / `wpmEntry` of `Jb/Proofs/Assemble.lean`;
    * `mlpg_maximises_likelihood`: the solver's output maximises the log-likelihood over ALL sequences;
    * `windowParams_edgeZero`: the observation sequences `windowParams` builds satisfy the `EdgeZero`
      hypothesis of the assembly theorem (precisions whose window span leaves the voiced frames are zero);
    * `mlpgCreate_is_ml`: the model of `MlpgAdjust::create` end to end.
-/
import Jb.Proofs.MlpgMain
import Jb.Proofs.Likelihood
import Jb.Proofs.Mask

set_option linter.unusedSectionVars false

namespace Jb

variable {K : Type} [Field K] [LinearOrder K] [IsStrictOrderedRing K] [Transc K] [Consts K] [MlpgConsts K]

/-- the scalar observations of the MLPG problem: one per (window, frame `s`) -/
def obsOf (windows : List (List K)) (obs : List (List (MeanVari K))) (T : Nat) : List (Obs K T) :=
  (windows.zip obs).flatMap fun wo => (List.range T).map fun s =>
    ({ row := fun t => winCoef wo.1 s t.val, prec := (wo.2.getD s ⟨0, 0⟩).vari, mean := (wo.2.getD s ⟨0, 0⟩).mean } : Obs K T)

/-! ### helper lemmas for `normalResidual_obsOf` -/

theorem ml_dot_eq (T : Nat) (a : Nat → K) (c : Fin T → K) :
    (Finset.univ.sum fun t : Fin T => a t.val * c t) =
      (Finset.range T).sum fun t' => a t' * (if h : t' < T then c ⟨t', h⟩ else 0) := by
  rw [Finset.sum_fin_eq_sum_range]
  apply Finset.sum_congr rfl
  intro t' ht'
  rw [Finset.mem_range] at ht'
  rw [dif_pos ht', dif_pos ht']

theorem ml_one (T : Nat) (p μ : Nat → K) (a : Nat → Nat → K) (x : Nat → K) (t : Nat) :
    ((Finset.range T).sum fun s => p s * a s t * (((Finset.range T).sum fun t' => a s t' * x t') - μ s)) =
    ((Finset.range T).sum fun t' => ((Finset.range T).sum fun s => p s * a s t * a s t') * x t')
      - (Finset.range T).sum fun s => p s * μ s * a s t := by
  have h1 : ∀ s, p s * a s t * (((Finset.range T).sum fun t' => a s t' * x t') - μ s) =
      ((Finset.range T).sum fun t' => p s * a s t * a s t' * x t') - p s * μ s * a s t := by
    intro s
    rw [mul_sub, Finset.mul_sum]
    congr 1
    · apply Finset.sum_congr rfl
      intro t' _
      ring
    · ring
  simp only [h1]
  rw [Finset.sum_sub_distrib, Finset.sum_comm]
  congr 1
  apply Finset.sum_congr rfl
  intro t' _
  rw [Finset.sum_mul]

/-- the observations of one window -/
def obsOfOne (T : Nat) (wo : List K × List (MeanVari K)) : List (Obs K T) :=
  (List.range T).map fun s =>
    ({ row := fun t => winCoef wo.1 s t.val, prec := (wo.2.getD s ⟨0, 0⟩).vari, mean := (wo.2.getD s ⟨0, 0⟩).mean } : Obs K T)

theorem normalResidual_append {n : Nat} (l1 l2 : List (Obs K n)) (c : Fin n → K) (t : Fin n) :
    normalResidual (l1 ++ l2) c t = normalResidual l1 c t + normalResidual l2 c t := by
  simp only [normalResidual, List.map_append, List.sum_append]

theorem normalResidual_obsOfOne (T : Nat) (wo : List K × List (MeanVari K)) (c : Fin T → K) (t : Fin T) :
    normalResidual (obsOfOne T wo) c t =
      ((Finset.range T).sum fun t' =>
        ((Finset.range T).sum fun s => (wo.2.getD s ⟨0, 0⟩).vari * winCoef wo.1 s t.val * winCoef wo.1 s t') *
          (if h : t' < T then c ⟨t', h⟩ else 0))
      - (Finset.range T).sum fun s => (wo.2.getD s ⟨0, 0⟩).vari * (wo.2.getD s ⟨0, 0⟩).mean * winCoef wo.1 s t.val := by
  unfold normalResidual obsOfOne
  rw [List.map_map, asm_sum_map_range]
  simp only [Function.comp_def, Obs.dot]
  have hd : ∀ s : Nat, (Finset.univ.sum fun t' : Fin T => winCoef wo.1 s t'.val * c t') =
      (Finset.range T).sum fun t' => winCoef wo.1 s t' * (if h : t' < T then c ⟨t', h⟩ else 0) :=
    fun s => ml_dot_eq T (fun t' => winCoef wo.1 s t') c
  simp only [hd]
  exact ml_one T (fun s => (wo.2.getD s ⟨0, 0⟩).vari) (fun s => (wo.2.getD s ⟨0, 0⟩).mean)
    (fun s t' => winCoef wo.1 s t') (fun t' => if h : t' < T then c ⟨t', h⟩ else 0) t.val

theorem normalResidual_flatMap (l : List (List K × List (MeanVari K))) (T : Nat) (c : Fin T → K) (t : Fin T) :
    normalResidual (l.flatMap (obsOfOne T)) c t =
      ((Finset.range T).sum fun t' =>
        (l.map fun wo => (Finset.range T).sum fun s =>
          (wo.2.getD s ⟨0, 0⟩).vari * winCoef wo.1 s t.val * winCoef wo.1 s t').sum *
          (if h : t' < T then c ⟨t', h⟩ else 0))
      - (l.map fun wo => (Finset.range T).sum fun s =>
          (wo.2.getD s ⟨0, 0⟩).vari * (wo.2.getD s ⟨0, 0⟩).mean * winCoef wo.1 s t.val).sum := by
  induction l with
  | nil => simp [normalResidual]
  | cons wo rest ih =>
    rw [List.flatMap_cons, normalResidual_append, ih, normalResidual_obsOfOne]
    simp only [List.map_cons, List.sum_cons, add_mul, Finset.sum_add_distrib]
    ring

/-- the gradient is `W'PW c − W'Pμ` -/
theorem normalResidual_obsOf (windows : List (List K)) (obs : List (List (MeanVari K))) (T : Nat)
    (c : Fin T → K) (t : Fin T) :
    normalResidual (obsOf windows obs T) c t =
      ((Finset.range T).sum fun t' => wpwEntry windows obs T t.val t' * (if h : t' < T then c ⟨t', h⟩ else 0))
        - wpmEntry windows obs T t.val := by
  exact normalResidual_flatMap (windows.zip obs) T c t

/-- **The MLPG solution is the maximum-likelihood sequence** — over every other sequence `c'`. -/
theorem mlpg_maximises_likelihood (windows : List (List K)) (obs : List (List (MeanVari K))) (T : Nat)
    (hstatic : windows.head? = some [1]) (hlen : windows.length = obs.length)
    (hobs : ∀ o ∈ obs, o.length = T) (hedge : EdgeZero windows obs T)
    (hnonneg : ∀ o ∈ obs, ∀ mv ∈ o, 0 ≤ mv.vari) (hpos : ∀ mv ∈ obs.headD [], 0 < mv.vari)
    (m : MlpgMatrix K) (hm : calcWuwWum windows obs = some m) (c' : Fin T → K) :
    loglik (obsOf windows obs T) c' ≤ loglik (obsOf windows obs T) (fun t => m.solve.getD t.val 0) := by
  obtain ⟨-, hsol⟩ := mlpg_solves_normal_equations windows obs T hstatic hlen hobs hedge hnonneg hpos m hm
  apply normal_eq_is_max
  · intro o ho
    unfold obsOf at ho
    simp only [List.mem_flatMap, List.mem_map, List.mem_range] at ho
    obtain ⟨wo, hwo, s, _, rfl⟩ := ho
    exact getD_vari_nonneg wo.2 (hnonneg wo.2 (List.of_mem_zip hwo).2) s
  · intro t
    rw [normalResidual_obsOf, ← hsol t.val t.isLt, sub_eq_zero]
    apply Finset.sum_congr rfl
    intro t' ht'
    rw [Finset.mem_range] at ht'
    rw [dif_pos ht']

/-- `with_ivar` of a positive variance inside the representable range is a positive precision -/
theorem withIvar_pos (p : MeanVari K) (h0 : 0 < (MlpgConsts.ivarMax : K)) (hv : 0 < p.vari)
    (hhi : p.vari ≤ MlpgConsts.ivarHi) : 0 < (withIvar p).vari := by
  have habs : absS p.vari = p.vari := by
    unfold absS
    rw [if_neg (not_lt.mpr (le_of_lt hv))]
  unfold withIvar
  simp only [habs]
  rw [if_neg (not_lt.mpr hhi)]
  split_ifs
  · exact h0
  · exact one_div_pos.mpr hv

/-! ### bookkeeping for `windowParams` -/

theorem ml_maskCreate_length (stream : List (StateParam K)) (thr : K) (durs : List Nat)
    (hd : durs.length ≤ stream.length) : (maskCreate stream thr durs).length = durs.sum := by
  unfold maskCreate
  rw [expand_length _ _ (by simpa using hd)]

theorem ml_boundaryDistances_length (mask : List Bool) : (boundaryDistances mask).length = mask.length := by
  simp [boundaryDistances, leftDists_length]

/-- the per-frame (unfiltered) observation list of `windowParams` -/
def wpAdj (veclen : Nat) (stream : List (StateParam K)) (durs : List Nat) (bd : List (Nat × Nat)) (wi : Nat)
    (win : List K) (m : Nat) : List (MeanVari K) :=
  ((expand (stream.map fun s => withIvar (s.params.getD (veclen * wi + m) ⟨0, 0⟩)) durs).zip bd).map
    fun (mv, (l, r)) =>
      if (l < win.length / 2 ∨ r < win.length - win.length / 2 - 1) ∧ wi ≠ 0 then (⟨mv.mean, 0⟩ : MeanVari K) else mv

theorem windowParams_eq (veclen : Nat) (stream : List (StateParam K)) (durs : List Nat) (mask : List Bool)
    (bd : List (Nat × Nat)) (wi : Nat) (win : List K) (m : Nat) :
    windowParams veclen stream durs mask bd wi win m = filterBy (wpAdj veclen stream durs bd wi win m) mask := rfl

theorem wpAdj_length (veclen : Nat) (stream : List (StateParam K)) (durs : List Nat) (bd : List (Nat × Nat))
    (wi : Nat) (win : List K) (m : Nat) (hd : durs.length ≤ stream.length) (hb : bd.length = durs.sum) :
    (wpAdj veclen stream durs bd wi win m).length = durs.sum := by
  unfold wpAdj
  rw [List.length_map, List.length_zip, expand_length _ _ (by simpa using hd), hb]
  simp

theorem ml_windowParams_length (vl : Nat) (stream : List (StateParam K)) (durs : List Nat) (mask : List Bool)
    (bd : List (Nat × Nat)) (wi : Nat) (win : List K) (m : Nat) (hd : durs.length ≤ stream.length)
    (hm : mask.length = durs.sum) (hb : bd.length = durs.sum) :
    (windowParams vl stream durs mask bd wi win m).length = (mask.filter id).length := by
  rw [windowParams_eq]
  apply filterBy_length
  rw [wpAdj_length _ _ _ _ _ _ _ hd hb, hm]

theorem mem_expand {β : Type} (xs : List β) (durs : List Nat) (x : β) (h : x ∈ expand xs durs) : x ∈ xs := by
  unfold expand at h
  simp only [List.mem_flatMap, List.mem_replicate] at h
  obtain ⟨⟨a, d⟩, hz, _, rfl⟩ := h
  exact (List.of_mem_zip hz).1

theorem mem_filterBy {β : Type} (xs : List β) (mask : List Bool) (x : β) (h : x ∈ filterBy xs mask) : x ∈ xs := by
  unfold filterBy at h
  simp only [List.mem_map, List.mem_filter] at h
  obtain ⟨⟨a, b⟩, ⟨hz, _⟩, rfl⟩ := h
  exact (List.of_mem_zip hz).1

/-- every entry of `windowParams` is the `with_ivar` Gaussian of some state, possibly with its precision
    zeroed (dynamic windows only) -/
theorem mem_windowParams (vl : Nat) (stream : List (StateParam K)) (durs : List Nat) (mask : List Bool)
    (bd : List (Nat × Nat)) (wi : Nat) (win : List K) (m : Nat) (mv : MeanVari K)
    (h : mv ∈ windowParams vl stream durs mask bd wi win m) :
    ∃ st ∈ stream, mv.vari = (withIvar (st.params.getD (vl * wi + m) ⟨0, 0⟩)).vari ∨ (mv.vari = 0 ∧ wi ≠ 0) := by
  rw [windowParams_eq] at h
  have h2 := mem_filterBy _ _ _ h
  unfold wpAdj at h2
  simp only [List.mem_map] at h2
  obtain ⟨⟨p, l, r⟩, hz, rfl⟩ := h2
  have hp := mem_expand _ _ _ (List.of_mem_zip hz).1
  simp only [List.mem_map] at hp
  obtain ⟨st, hst, rfl⟩ := hp
  refine ⟨st, hst, ?_⟩
  simp only
  split_ifs with hc
  · exact Or.inr ⟨rfl, hc.2⟩
  · exact Or.inl rfl

/-- the observation sequences of `MlpgAdjust::create` for vector index `m` -/
def createObs (veclen : Nat) (stream : List (StateParam K)) (durs : List Nat) (mask : List Bool)
    (windows : List (List K)) (m : Nat) : List (List (MeanVari K)) :=
  ((List.range windows.length).zip windows).map fun (wi, win) =>
    windowParams veclen stream durs mask (boundaryDistances mask) wi win m

theorem createObs_len (veclen : Nat) (stream : List (StateParam K)) (durs : List Nat) (mask : List Bool)
    (windows : List (List K)) (m : Nat) : (createObs veclen stream durs mask windows m).length = windows.length := by
  simp [createObs]

theorem mem_createObs (veclen : Nat) (stream : List (StateParam K)) (durs : List Nat) (mask : List Bool)
    (windows : List (List K)) (m : Nat) (o : List (MeanVari K)) (h : o ∈ createObs veclen stream durs mask windows m) :
    ∃ wi win, o = windowParams veclen stream durs mask (boundaryDistances mask) wi win m := by
  unfold createObs at h
  simp only [List.mem_map] at h
  obtain ⟨⟨wi, win⟩, _, rfl⟩ := h
  exact ⟨wi, win, rfl⟩

theorem mem_zip_createObs (veclen : Nat) (stream : List (StateParam K)) (durs : List Nat) (mask : List Bool)
    (windows : List (List K)) (m : Nat) (wo : List K × List (MeanVari K))
    (h : wo ∈ windows.zip (createObs veclen stream durs mask windows m)) :
    ∃ i, i < windows.length ∧ windows[i]? = some wo.1 ∧
      wo.2 = windowParams veclen stream durs mask (boundaryDistances mask) i wo.1 m := by
  obtain ⟨i, hi⟩ := List.mem_iff_getElem?.1 h
  rw [List.getElem?_zip_eq_some] at hi
  obtain ⟨h1, h2⟩ := hi
  have hlt : i < windows.length := by
    by_contra hc
    rw [List.getElem?_eq_none (by omega)] at h1
    simp at h1
  unfold createObs at h2
  rw [List.getElem?_map] at h2
  have hz : ((List.range windows.length).zip windows)[i]? = some (i, wo.1) := by
    rw [List.getElem?_zip_eq_some]
    exact ⟨by simp [hlt], h1⟩
  rw [hz] at h2
  simp only [Option.map_some, Option.some.injEq] at h2
  exact ⟨i, hlt, h1, h2.symm⟩

/-- every observation sequence has one entry per voiced frame -/
theorem createObs_length (veclen : Nat) (stream : List (StateParam K)) (thr : K) (durs : List Nat)
    (windows : List (List K)) (m : Nat) (hd : durs.length ≤ stream.length) :
    ∀ o ∈ createObs veclen stream durs (maskCreate stream thr durs) windows m,
      o.length = ((maskCreate stream thr durs).filter id).length := by
  intro o ho
  obtain ⟨wi, win, rfl⟩ := mem_createObs _ _ _ _ _ _ _ ho
  have hml := ml_maskCreate_length stream thr durs hd
  exact ml_windowParams_length _ _ _ _ _ _ _ _ hd hml (by rw [ml_boundaryDistances_length, hml])

/-! ### voiced-frame coordinates -/

/-- the `s`-th voiced frame: its frame index `f`, with `s` voiced frames before it and `T − s − 1` after -/
theorem filterBy_getElem? {β : Type} (xs : List β) (mask : List Bool) (h : xs.length = mask.length) (s : Nat)
    (hs : s < (mask.filter id).length) :
    ∃ f, f < mask.length ∧ mask[f]? = some true ∧ ((mask.take f).filter id).length = s ∧
      ((mask.drop (f + 1)).filter id).length + s + 1 = (mask.filter id).length ∧
      (filterBy xs mask)[s]? = xs[f]? := by
  induction mask generalizing xs s with
  | nil => simp at hs
  | cons b ms ih =>
    cases xs with
    | nil => simp at h
    | cons x xs =>
      have h' : xs.length = ms.length := by simpa using h
      cases b with
      | true =>
        rw [filterBy_cons_true]
        cases s with
        | zero => exact ⟨0, by simp, by simp, by simp, by simp, by simp⟩
        | succ s =>
          have hs' : s < (ms.filter id).length := by simpa using hs
          obtain ⟨f, h1, h2, h3, h4, h5⟩ := ih xs h' s hs'
          refine ⟨f + 1, by simpa using h1, by simpa using h2, by simpa using h3, ?_, by simpa using h5⟩
          simp only [List.drop_succ_cons, List.filter_cons_of_pos, id_eq, List.length_cons]
          omega
      | false =>
        rw [filterBy_cons_false]
        have hs' : s < (ms.filter id).length := by simpa using hs
        obtain ⟨f, h1, h2, h3, h4, h5⟩ := ih xs h' s hs'
        refine ⟨f + 1, by simpa using h1, by simpa using h2, by simpa using h3, ?_, by simpa using h5⟩
        simpa using h4

theorem takeWhile_id_length_le_filter (l : List Bool) : (l.takeWhile id).length ≤ (l.filter id).length := by
  induction l with
  | nil => simp
  | cons b r ih => cases b <;> simp [ih]

/-- a dynamic window whose span would leave the voiced frames (in voiced-frame coordinates) was zeroed -/
theorem windowParams_zero (veclen : Nat) (stream : List (StateParam K)) (durs : List Nat) (mask : List Bool)
    (wi : Nat) (win : List K) (m : Nat) (hd : durs.length ≤ stream.length) (hmask : mask.length = durs.sum)
    (hwi : wi ≠ 0) (s : Nat) (hs : s < (mask.filter id).length)
    (hcut : s < win.length / 2 ∨ (mask.filter id).length ≤ s + (win.length - 1 - win.length / 2)) :
    ((windowParams veclen stream durs mask (boundaryDistances mask) wi win m).getD s ⟨0, 0⟩).vari = 0 := by
  have hbd : (boundaryDistances mask).length = durs.sum := by rw [ml_boundaryDistances_length, hmask]
  have hadj := wpAdj_length veclen stream durs (boundaryDistances mask) wi win m hd hbd
  obtain ⟨f, hf, hmf, hleft, hright, hget⟩ :=
    filterBy_getElem? (wpAdj veclen stream durs (boundaryDistances mask) wi win m) mask (by rw [hadj, hmask]) s hs
  rw [windowParams_eq, List.getD_eq_getElem?_getD, hget]
  have hb := boundary_spec mask f hf
  have hmf' : mask.getD f false = true := by rw [List.getD_eq_getElem?_getD, hmf]; rfl
  rw [hmf'] at hb
  simp only [if_true] at hb
  have hpl : f < (expand (stream.map fun st => withIvar (st.params.getD (veclen * wi + m) ⟨0, 0⟩)) durs).length := by
    rw [expand_length _ _ (by simpa using hd), ← hmask]; exact hf
  have hl : ((mask.take f).reverse.takeWhile id).length ≤ s := by
    have := takeWhile_id_length_le_filter (mask.take f).reverse
    rw [List.filter_reverse, List.length_reverse, hleft] at this
    exact this
  have hr := takeWhile_id_length_le_filter (mask.drop (f + 1))
  unfold wpAdj
  have hz : ((expand (stream.map fun st => withIvar (st.params.getD (veclen * wi + m) ⟨0, 0⟩)) durs).zip
      (boundaryDistances mask))[f]? =
      some ((expand (stream.map fun st => withIvar (st.params.getD (veclen * wi + m) ⟨0, 0⟩)) durs)[f],
        (((mask.take f).reverse.takeWhile id).length, ((mask.drop (f + 1)).takeWhile id).length)) :=
    List.getElem?_zip_eq_some.2 ⟨List.getElem?_eq_getElem hpl, hb⟩
  rw [List.getElem?_map, hz]
  simp only [Option.map_some, Option.getD_some]
  rw [if_pos ⟨by omega, hwi⟩]

/-- **Edge precisions are zero**: what `windowParams` arranges is exactly the hypothesis of the assembly
    theorem, in voiced-frame coordinates. -/
theorem windowParams_edgeZero (veclen : Nat) (stream : List (StateParam K)) (thr : K) (durs : List Nat)
    (windows : List (List K)) (m : Nat) (hstatic : windows.head? = some [1]) (hd : durs.length ≤ stream.length) :
    EdgeZero windows (createObs veclen stream durs (maskCreate stream thr durs) windows m)
      ((maskCreate stream thr durs).filter id).length := by
  intro wo hwo s hs hcut
  obtain ⟨i, _, hwi, hw2⟩ := mem_zip_createObs _ _ _ _ _ _ _ hwo
  by_cases hi : i = 0
  · subst hi
    rw [← List.head?_eq_getElem?, hstatic] at hwi
    simp only [Option.some.injEq] at hwi
    rw [← hwi] at hcut
    simp at hcut
    omega
  · rw [hw2]
    exact windowParams_zero veclen stream durs _ i wo.1 m hd (ml_maskCreate_length stream thr durs hd) hi s hs hcut

/-! ### unfolding `mlpgCreate` -/

/-- one column (vector index `m`) of `mlpgCreate`, in terms of `createObs` -/
def mlCol (gw thr : K) (s : StreamIn K) (durs : List Nat) (m : Nat) : Option (List K) :=
  match calcWuwWum s.windows
      (createObs s.vectorLength s.stream durs (maskCreate s.stream thr durs) s.windows m) with
  | none => none
  | some mtx => maskFill (maskCreate s.stream thr durs)
      (mtx.par s.gv m gw durs (maskCreate s.stream thr durs)) Consts.nodata

theorem ml_mlpgCreate_eq (gw thr : K) (s : StreamIn K) (durs : List Nat) :
    mlpgCreate gw thr s durs =
      if s.vectorLength > 0 ∧ s.windows.length > 0 ∧ ((s.stream.zip durs).map (·.1)).any
          (fun st => decide (st.params.length < s.vectorLength * s.windows.length)) then
        .panic "mlpg_adjust/mod.rs:curr_stream[m]"
      else if s.vectorLength > 0 ∧ s.windows.length = 0 then .panic "mlpg.rs:parameters[0]"
      else if ((List.range s.vectorLength).map (mlCol gw thr s durs)).any Option.isNone then
        .panic "mask.rs:fill expect"
      else .ok ((List.range (maskCreate s.stream thr durs).length).map fun t =>
        (((List.range s.vectorLength).map (mlCol gw thr s durs)).map fun c => c.getD []).map
          fun c => c.getD t 0) := rfl

/-- what an `.ok` result of `mlpgCreate` looks like -/
theorem ml_mlpgCreate_ok (gw thr : K) (s : StreamIn K) (durs : List Nat) (rows : List (List K))
    (h : mlpgCreate gw thr s durs = .ok rows) :
    rows = (List.range (maskCreate s.stream thr durs).length).map fun t =>
        (((List.range s.vectorLength).map (mlCol gw thr s durs)).map fun c => c.getD []).map
          fun c => c.getD t 0 := by
  rw [ml_mlpgCreate_eq] at h
  split_ifs at h with h1 h2 h3
  simp only [Outcome.ok.injEq] at h
  exact h.symm

/-- column `m` of the frame-major transpose -/
theorem ml_transpose_col (cols : List (List K)) (n m : Nat) (hm : m < cols.length)
    (hn : (cols.getD m []).length = n) :
    ((List.range n).map fun t => cols.map fun c => c.getD t 0).map (fun r => r.getD m 0) = cols.getD m [] := by
  have e : cols.getD m [] = cols[m] := List.getD_eq_getElem _ _ hm
  rw [e] at hn ⊢
  apply List.ext_getElem
  · simp [hn]
  · intro i h1 h2
    simp only [List.getElem_map, List.getElem_range]
    rw [List.getD_eq_getElem _ _ (by simpa using hm), List.getElem_map, List.getD_eq_getElem _ _ h2]

theorem createObs_headD (vl : Nat) (stream : List (StateParam K)) (durs : List Nat) (mask : List Bool)
    (windows : List (List K)) (m : Nat) (hstatic : windows.head? = some [1]) :
    (createObs vl stream durs mask windows m).headD [] =
      windowParams vl stream durs mask (boundaryDistances mask) 0 [1] m := by
  cases windows with
  | nil => simp at hstatic
  | cons w ws =>
    simp only [List.head?_cons, Option.some.injEq] at hstatic
    subst hstatic
    simp [createObs, List.range_succ_eq_map]

/-- the capstone with the `let`s expanded -/
theorem mlpgCreate_is_ml_aux (gvWeight thr : K) (s : StreamIn K) (durs : List Nat)
    (hgv : s.gv = none) (hstatic : s.windows.head? = some [1]) (hd : durs.length ≤ s.stream.length)
    (hnonneg : ∀ st ∈ s.stream, ∀ p ∈ st.params, 0 ≤ (withIvar p).vari)
    (hdflt : 0 ≤ (withIvar (⟨0, 0⟩ : MeanVari K)).vari)
    (hpos : ∀ st ∈ s.stream, ∀ m, m < s.vectorLength → 0 < (withIvar (st.params.getD m ⟨0, 0⟩)).vari)
    (traj : List (List K)) (h : mlpgCreate gvWeight thr s durs = .ok traj) (m : Nat) (hm : m < s.vectorLength) :
    (filterBy (traj.map fun r => r.getD m 0) (maskCreate s.stream thr durs)).length =
        ((maskCreate s.stream thr durs).filter id).length ∧
    ∀ c' : Fin ((maskCreate s.stream thr durs).filter id).length → K,
      loglik (obsOf s.windows (createObs s.vectorLength s.stream durs (maskCreate s.stream thr durs) s.windows m)
          ((maskCreate s.stream thr durs).filter id).length) c' ≤
        loglik (obsOf s.windows (createObs s.vectorLength s.stream durs (maskCreate s.stream thr durs) s.windows m)
          ((maskCreate s.stream thr durs).filter id).length)
          (fun t => (filterBy (traj.map fun r => r.getD m 0) (maskCreate s.stream thr durs)).getD t.val 0) := by
  have htraj := ml_mlpgCreate_ok gvWeight thr s durs traj h
  have hlen := createObs_len s.vectorLength s.stream durs (maskCreate s.stream thr durs) s.windows m
  have hobsT := createObs_length s.vectorLength s.stream thr durs s.windows m hd
  have hedge := windowParams_edgeZero s.vectorLength s.stream thr durs s.windows m hstatic hd
  have hhead := createObs_headD s.vectorLength s.stream durs (maskCreate s.stream thr durs) s.windows m hstatic
  have hwv : ∀ st ∈ s.stream, ∀ idx, 0 ≤ (withIvar (st.params.getD idx ⟨0, 0⟩)).vari := by
    intro st hst idx
    rcases Nat.lt_or_ge idx st.params.length with hi | hi
    · rw [List.getD_eq_getElem _ _ hi]
      exact hnonneg st hst _ (List.getElem_mem hi)
    · rw [List.getD_eq_default _ _ hi]
      exact hdflt
  have hnn : ∀ o ∈ createObs s.vectorLength s.stream durs (maskCreate s.stream thr durs) s.windows m,
      ∀ mv ∈ o, 0 ≤ mv.vari := by
    intro o ho mv hmv
    obtain ⟨wi, win, rfl⟩ := mem_createObs _ _ _ _ _ _ _ ho
    obtain ⟨st, hst, hv | ⟨hv, _⟩⟩ := mem_windowParams _ _ _ _ _ _ _ _ _ hmv
    · rw [hv]; exact hwv st hst _
    · rw [hv]
  have hps : ∀ mv ∈ (createObs s.vectorLength s.stream durs (maskCreate s.stream thr durs) s.windows m).headD [],
      0 < mv.vari := by
    intro mv hmv
    rw [hhead] at hmv
    obtain ⟨st, hst, hv | ⟨_, h0⟩⟩ := mem_windowParams _ _ _ _ _ _ _ _ _ hmv
    · rw [hv, Nat.mul_zero, Nat.zero_add]
      exact hpos st hst m hm
    · exact absurd rfl h0
  have hwne : s.windows ≠ [] := by
    intro h0
    rw [h0] at hstatic
    simp at hstatic
  obtain ⟨mtx, hmtx⟩ : ∃ mtx, calcWuwWum s.windows
      (createObs s.vectorLength s.stream durs (maskCreate s.stream thr durs) s.windows m) = some mtx := by
    generalize createObs s.vectorLength s.stream durs (maskCreate s.stream thr durs) s.windows m = obs at hlen
    cases obs with
    | nil =>
      exfalso
      apply hwne
      exact List.length_eq_zero_iff.1 (by simpa using hlen.symm)
    | cons o0 rest => exact ⟨_, rfl⟩
  obtain ⟨hsolT, -⟩ := mlpg_solves_normal_equations s.windows _ _ hstatic hlen.symm hobsT hedge hnn hps mtx hmtx
  have hml := fun c' => mlpg_maximises_likelihood s.windows _ _ hstatic hlen.symm hobsT hedge hnn hps mtx hmtx c'
  obtain ⟨r, hr, hrlen, hfb, -⟩ := maskFill_spec (maskCreate s.stream thr durs) mtx.solve Consts.nodata hsolT
  have hcol : mlCol gvWeight thr s durs m = some r := by
    unfold mlCol
    rw [hmtx]
    simp only [hgv]
    exact hr
  have hcolumn : (traj.map fun r => r.getD m 0) = r := by
    rw [htraj]
    have hcl : m < (((List.range s.vectorLength).map (mlCol gvWeight thr s durs)).map fun c => c.getD []).length := by
      simpa using hm
    have hget : (((List.range s.vectorLength).map (mlCol gvWeight thr s durs)).map fun c => c.getD []).getD m [] = r := by
      rw [List.getD_eq_getElem _ _ hcl]
      simp only [List.getElem_map, List.getElem_range, hcol, Option.getD_some]
    rw [ml_transpose_col _ _ m hcl (by rw [hget, hrlen]), hget]
  rw [hcolumn, hfb]
  exact ⟨hsolT, hml⟩

/-- **`MlpgAdjust::create` returns the maximum-likelihood trajectory** (stream without GV): column `m`
    restricted to the voiced frames maximises the log-likelihood of the observations built from the state
    Gaussians, the durations and the windows — over every other sequence. -/
theorem mlpgCreate_is_ml (gvWeight thr : K) (s : StreamIn K) (durs : List Nat)
    (hgv : s.gv = none) (hstatic : s.windows.head? = some [1]) (hd : durs.length ≤ s.stream.length)
    (hnonneg : ∀ st ∈ s.stream, ∀ p ∈ st.params, 0 ≤ (withIvar p).vari)
    (hdflt : 0 ≤ (withIvar (⟨0, 0⟩ : MeanVari K)).vari)
    (hpos : ∀ st ∈ s.stream, ∀ m, m < s.vectorLength → 0 < (withIvar (st.params.getD m ⟨0, 0⟩)).vari)
    (traj : List (List K)) (h : mlpgCreate gvWeight thr s durs = .ok traj) (m : Nat) (hm : m < s.vectorLength) :
    let mask := maskCreate s.stream thr durs
    let T := (mask.filter id).length
    let obs := createObs s.vectorLength s.stream durs mask s.windows m
    let col := filterBy (traj.map fun r => r.getD m 0) mask
    col.length = T ∧
    ∀ c' : Fin T → K, loglik (obsOf s.windows obs T) c' ≤ loglik (obsOf s.windows obs T) (fun t => col.getD t.val 0) :=
  mlpgCreate_is_ml_aux gvWeight thr s durs hgv hstatic hd hnonneg hdflt hpos traj h m hm

end Jb
