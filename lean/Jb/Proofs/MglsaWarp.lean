/-
  C13, structural half of the magnitude clause for EVERY `alpha` (the case `alpha = 0` is `Jb/Proofs/AllPole.lean`):
  one MGLSA section with coefficients `c` computes  `y = x − Σ_{k≥1} c_k Φ_k(y)`,  i.e. its transfer function is
  `1 / (1 + Σ_{k≥1} c_k Φ_k(z))` with `Φ_k` the warped basis — and the filter is the `stage`-fold iteration of the section.
  (State reading: after the shift, `d[0] = Φ₁(y)`, `d[k]` = the value cell `k` had one sample ago; inside the loop
  `d'[i] = d[i] + α·(d[i+1] − d'[i−1])` is the all-pass recursion `e_{k+1}[n] = e_k[n−1] − α·e_k[n] + α·e_{k+1}[n−1]`.)
-/
import Jb.Proofs.Signal
import Jb.Proofs.AllPole

set_option linter.unusedSectionVars false

namespace Jb

variable {K : Type} [Field K] [LinearOrder K] [IsStrictOrderedRing K] [Transc K] [Consts K]

/-! ### pointwise recurrences of the signal operators -/

/-- previous sample (zero before the start) -/
def pg (l : List K) : Nat → K
  | 0 => 0
  | t + 1 => l.getD t 0

theorem delay1_length (us : List K) : (delay1 us).length = us.length := by
  simp [delay1]

theorem delay1_getD (us : List K) (t : Nat) (ht : t < us.length) : (delay1 us).getD t 0 = pg us t := by
  unfold delay1
  rw [List.getD_eq_getElem?_getD, List.getElem?_take_of_lt ht]
  cases t with
  | zero => rfl
  | succ t => simp [pg, List.getD_eq_getElem?_getD]

theorem onePoleFrom_length (alpha w : K) (us : List K) : (onePoleFrom alpha w us).length = us.length := by
  induction us generalizing w with
  | nil => rfl
  | cons u us ih => simp [onePoleFrom, ih]

theorem allpassFrom_length' (alpha up yp : K) (us : List K) :
    (allpassFrom alpha up yp us).length = us.length := by
  induction us generalizing up yp with
  | nil => rfl
  | cons u us ih => simp [allpassFrom, ih]

theorem onePoleRun_length (alpha : K) (us : List K) : (onePoleRun alpha us).length = us.length :=
  onePoleFrom_length alpha 0 us

theorem allpassRun_length' (alpha : K) (us : List K) : (allpassRun alpha us).length = us.length :=
  allpassFrom_length' alpha 0 0 us

theorem onePoleFrom_getD (alpha w : K) (us : List K) (t : Nat) (ht : t < us.length) :
    (onePoleFrom alpha w us).getD t 0 =
      (1 - alpha * alpha) * us.getD t 0 +
        alpha * (match t with | 0 => w | t + 1 => (onePoleFrom alpha w us).getD t 0) := by
  induction us generalizing w t with
  | nil => simp at ht
  | cons u us ih =>
    cases t with
    | zero => simp [onePoleFrom]
    | succ t =>
      simp only [List.length_cons, Nat.add_lt_add_iff_right] at ht
      simp only [onePoleFrom, List.getD_cons_succ]
      rw [ih _ t ht]
      cases t with
      | zero => simp
      | succ t => simp

theorem onePoleRun_getD (alpha : K) (us : List K) (t : Nat) (ht : t < us.length) :
    (onePoleRun alpha us).getD t 0 = (1 - alpha * alpha) * us.getD t 0 + alpha * pg (onePoleRun alpha us) t := by
  unfold onePoleRun
  rw [onePoleFrom_getD alpha 0 us t ht]
  cases t with
  | zero => rfl
  | succ t => rfl

theorem allpassFrom_getD (alpha up yp : K) (us : List K) (t : Nat) (ht : t < us.length) :
    (allpassFrom alpha up yp us).getD t 0 =
      (match t with | 0 => up | t + 1 => us.getD t 0) - alpha * us.getD t 0 +
        alpha * (match t with | 0 => yp | t + 1 => (allpassFrom alpha up yp us).getD t 0) := by
  induction us generalizing up yp t with
  | nil => simp at ht
  | cons u us ih =>
    cases t with
    | zero => simp [allpassFrom]
    | succ t =>
      simp only [List.length_cons, Nat.add_lt_add_iff_right] at ht
      simp only [allpassFrom, List.getD_cons_succ]
      rw [ih _ _ t ht]
      cases t with
      | zero => simp
      | succ t => simp

theorem allpassRun_getD (alpha : K) (us : List K) (t : Nat) (ht : t < us.length) :
    (allpassRun alpha us).getD t 0 = pg us t - alpha * us.getD t 0 + alpha * pg (allpassRun alpha us) t := by
  unfold allpassRun
  rw [allpassFrom_getD alpha 0 0 us t ht]
  cases t with
  | zero => rfl
  | succ t => rfl

theorem warpChain_length (alpha : K) (us : List K) (k : Nat) : (warpChain alpha us k).length = us.length := by
  induction k using Nat.strongRecOn with
  | _ k ih =>
    match k with
    | 0 => rfl
    | 1 => exact onePoleRun_length alpha us
    | k + 2 =>
      show (allpassRun alpha (warpChain alpha us (k + 1))).length = us.length
      rw [allpassRun_length', ih (k + 1) (by omega)]

theorem warpBasis_length (alpha : K) (us : List K) (k : Nat) : (warpBasis alpha us k).length = us.length := by
  unfold warpBasis
  rw [warpChain_length, delay1_length]

theorem warpBasis_one_getD (alpha : K) (us : List K) (t : Nat) (ht : t < us.length) :
    (warpBasis alpha us 1).getD t 0 = (1 - alpha * alpha) * pg us t + alpha * pg (warpBasis alpha us 1) t := by
  show (onePoleRun alpha (delay1 us)).getD t 0 = _
  rw [onePoleRun_getD alpha _ t (by rw [delay1_length]; exact ht), delay1_getD us t ht]
  rfl

theorem warpBasis_succ_getD' (alpha : K) (us : List K) (k t : Nat) (ht : t < us.length) :
    (warpBasis alpha us (k + 2)).getD t 0 =
      pg (warpBasis alpha us (k + 1)) t - alpha * (warpBasis alpha us (k + 1)).getD t 0 +
        alpha * pg (warpBasis alpha us (k + 2)) t := by
  show (allpassRun alpha (warpBasis alpha us (k + 1))).getD t 0 = _
  rw [allpassRun_getD alpha _ t (by rw [warpBasis_length]; exact ht)]
  rfl

/-! ### one step of the section in closed form -/

/-- the values `d'[i]` computed by the in-place loop of `dff` (`d'[0] = d[0]`) -/
def dffG (d : List K) (alpha : K) : Nat → K
  | 0 => d.getD 0 0
  | i + 1 => d.getD (i + 1) 0 + alpha * (d.getD (i + 2) 0 - dffG d alpha i)

theorem foldl_dffStep_G (d : List K) (alpha : K) (c : List K) (m : Nat) :
    (List.range m).foldl (dffStep d alpha c) (d.getD 0 0 * c.getD 1 0, [], d.getD 0 0) =
      ((Finset.range (m + 1)).sum fun i => dffG d alpha i * c.getD (i + 1) 0,
        ((List.range m).map fun i => dffG d alpha (i + 1)).reverse, dffG d alpha m) := by
  induction m with
  | zero => simp [dffG]
  | succ m ih =>
    rw [List.range_succ, List.foldl_append, ih]
    simp only [List.foldl_cons, List.foldl_nil, dffStep, List.map_append, List.map_cons, List.map_nil,
      List.reverse_append, List.reverse_cons, List.reverse_nil, List.nil_append, List.singleton_append]
    rw [Finset.sum_range_succ _ (m + 1)]
    rfl

theorem mglsaDff_step (d : List K) (x alpha : K) (c : List K) (hd : d.length = c.length) (hc : 2 ≤ c.length) :
    mglsaDff d x alpha c =
      (x - (Finset.range (c.length - 1)).sum fun i => dffG d alpha i * c.getD (i + 1) 0,
        (alpha * d.getD 0 0 + (1 - alpha * alpha) *
            (x - (Finset.range (c.length - 1)).sum fun i => dffG d alpha i * c.getD (i + 1) 0)) ::
          (List.range (c.length - 1)).map (dffG d alpha)) := by
  cases d with
  | nil => simp at hd; omega
  | cons d0 dt =>
    have hdt : dt.length = c.length - 1 := by simp at hd; omega
    have h := foldl_dffStep_G (d0 :: dt) alpha c (c.length - 2)
    simp only [List.getD_cons_zero] at h
    have e1 : c.length - 2 + 1 = c.length - 1 := by omega
    rw [mglsaDff_cons, h, e1]
    refine Prod.ext rfl ?_
    have hc0 : c.length ≠ 0 := by omega
    simp only [if_neg hc0, dffOut, List.reverse_reverse, List.getD_cons_zero]
    have hlen : (d0 :: (List.map (fun i => dffG (d0 :: dt) alpha (i + 1)) (List.range (c.length - 2)) ++
        List.drop (c.length - 1) (d0 :: dt))).length = c.length := by
      simp [hdt]; omega
    have hG : (List.range (c.length - 1)).map (dffG (d0 :: dt) alpha) =
        d0 :: (List.range (c.length - 2)).map (fun i => dffG (d0 :: dt) alpha (i + 1)) := by
      rw [← e1, List.range_succ_eq_map, List.map_cons, List.map_map]
      rfl
    rw [hG]
    have hmid : d0 :: List.map (fun i => dffG (d0 :: dt) alpha (i + 1)) (List.range (c.length - 2)) ++
        List.drop (c.length - 1) (d0 :: dt) =
        d0 :: (List.map (fun i => dffG (d0 :: dt) alpha (i + 1)) (List.range (c.length - 2)) ++
        List.drop (c.length - 1) (d0 :: dt)) := rfl
    rw [hmid, List.drop_of_length_le (le_of_eq hlen), List.append_nil]
    congr 1
    have e2 : c.length - 1 = (c.length - 2) + 1 := by omega
    rw [e2, List.take_succ_cons, List.take_left' (by simp)]

/-! ### the run of one section: states and outputs -/

/-- the state of the section before sample `t` -/
def dffSt (alpha : K) (c d xs : List K) : Nat → List K
  | 0 => d
  | t + 1 => (mglsaDff (dffSt alpha c d xs t) (xs.getD t 0) alpha c).2

theorem dffSt_cons (alpha : K) (c d : List K) (x : K) (xs : List K) (t : Nat) :
    dffSt alpha c d (x :: xs) (t + 1) = dffSt alpha c (mglsaDff d x alpha c).2 xs t := by
  induction t with
  | zero => rfl
  | succ t ih =>
    show (mglsaDff (dffSt alpha c d (x :: xs) (t + 1)) ((x :: xs).getD (t + 1) 0) alpha c).2 = _
    rw [ih, List.getD_cons_succ]
    rfl

theorem dffRun_getD (alpha : K) (c d xs : List K) (t : Nat) (ht : t < xs.length) :
    (dffRun alpha c d xs).getD t 0 = (mglsaDff (dffSt alpha c d xs t) (xs.getD t 0) alpha c).1 := by
  induction xs generalizing d t with
  | nil => simp at ht
  | cons x xs ih =>
    cases t with
    | zero => rfl
    | succ t =>
      simp only [List.length_cons, Nat.add_lt_add_iff_right] at ht
      rw [dffSt_cons, List.getD_cons_succ, ← ih _ t ht]
      rfl

theorem dffRun_length (alpha : K) (c d xs : List K) : (dffRun alpha c d xs).length = xs.length := by
  induction xs generalizing d with
  | nil => rfl
  | cons x xs ih => simp [dffRun, ih]

/-- the state reading: `d[0] = Φ₁(y)[t]`, `d[k] = Φ_k(y)[t−1]` for `1 ≤ k < n` -/
def WarpInv (alpha : K) (c ys d : List K) (t : Nat) : Prop :=
  d.length = c.length ∧ d.getD 0 0 = (warpBasis alpha ys 1).getD t 0 ∧
    ∀ k, 1 ≤ k → k < c.length → d.getD k 0 = pg (warpBasis alpha ys k) t

/-- under the state reading the loop values are the warped basis at the current sample -/
theorem dffG_warp (alpha : K) (c ys d : List K) (t : Nat) (ht : t < ys.length) (h : WarpInv alpha c ys d t)
    (i : Nat) (hi : i + 1 < c.length) : dffG d alpha i = (warpBasis alpha ys (i + 1)).getD t 0 := by
  obtain ⟨_, h0, hk⟩ := h
  induction i with
  | zero => exact h0
  | succ i ih =>
    rw [warpBasis_succ_getD' alpha ys i t ht, ← ih (by omega), ← hk (i + 1) (by omega) (by omega),
      ← hk (i + 2) (by omega) hi]
    simp only [dffG]
    ring

theorem getD_map_range (f : Nat → K) (m k : Nat) (hk : k < m) : ((List.range m).map f).getD k 0 = f k := by
  simp [List.getD_eq_getElem?_getD, hk]

theorem warpInv_all (alpha : K) (c : List K) (hc : 2 ≤ c.length) (xs : List K) (t : Nat) (ht : t < xs.length) :
    WarpInv alpha c (dffRun alpha c (List.replicate c.length 0) xs)
      (dffSt alpha c (List.replicate c.length 0) xs t) t := by
  have hlen := dffRun_length alpha c (List.replicate c.length 0) xs
  induction t with
  | zero =>
    refine ⟨by simp [dffSt], ?_, ?_⟩
    · rw [warpBasis_one_getD _ _ _ (by rw [hlen]; exact ht)]
      simp [dffSt, pg, List.getD_eq_getElem?_getD]
    · intro k _ hk
      simp [dffSt, pg, List.getD_eq_getElem?_getD, hk]
  | succ t ih =>
    have ht' : t < xs.length := by omega
    have hI := ih ht'
    have hy := dffRun_getD alpha c (List.replicate c.length 0) xs t ht'
    have hstep := mglsaDff_step (dffSt alpha c (List.replicate c.length 0) xs t) (xs.getD t 0) alpha c hI.1 hc
    rw [hstep] at hy
    show WarpInv alpha c _ (mglsaDff (dffSt alpha c (List.replicate c.length 0) xs t) (xs.getD t 0) alpha c).2 (t + 1)
    rw [hstep]
    simp only at hy ⊢
    rw [← hy]
    refine ⟨by simp; omega, ?_, ?_⟩
    · rw [List.getD_cons_zero, warpBasis_one_getD _ _ _ (by rw [hlen]; exact ht), hI.2.1]
      simp only [pg]
      ring
    · intro k hk1 hk
      obtain ⟨k, rfl⟩ : ∃ j, k = j + 1 := ⟨k - 1, by omega⟩
      rw [List.getD_cons_succ, getD_map_range _ _ _ (by omega),
        dffG_warp alpha c _ _ t (by rw [hlen]; exact ht') hI k hk]
      rfl

theorem mglsaRun_single (alpha : K) (c d xs : List K) : mglsaRun alpha c [d] xs = dffRun alpha c d xs := by
  induction xs generalizing d with
  | nil => rfl
  | cons x xs ih =>
    simp only [mglsaRun, dffRun, mglsaDf_single, ih]

/-- **one section: `x = y + Σ_{k=1}^{m} c_k Φ_k(y)`** -/
theorem dffRun_warp (alpha : K) (c : List K) (hc : 2 ≤ c.length) (xs : List K) (n : Nat) (hn : n < xs.length) :
    xs.getD n 0 = (dffRun alpha c (List.replicate c.length 0) xs).getD n 0 +
      (Finset.Ico 1 c.length).sum fun k =>
        c.getD k 0 * (warpBasis alpha (dffRun alpha c (List.replicate c.length 0) xs) k).getD n 0 := by
  have hI := warpInv_all alpha c hc xs n hn
  have hy := dffRun_getD alpha c (List.replicate c.length 0) xs n hn
  rw [mglsaDff_step _ _ alpha c hI.1 hc] at hy
  simp only at hy
  have hlen := dffRun_length alpha c (List.replicate c.length 0) xs
  rw [hy, Finset.sum_Ico_eq_sum_range]
  have hsum : ((Finset.range (c.length - 1)).sum fun i =>
        dffG (dffSt alpha c (List.replicate c.length 0) xs n) alpha i * c.getD (i + 1) 0) =
      (Finset.range (c.length - 1)).sum fun i => c.getD (1 + i) 0 *
        (warpBasis alpha (dffRun alpha c (List.replicate c.length 0) xs) (1 + i)).getD n 0 := by
    apply Finset.sum_congr rfl
    intro i hi
    have hi' : i < c.length - 1 := Finset.mem_range.1 hi
    rw [dffG_warp alpha c _ _ n (by rw [hlen]; exact hn) hI i (by omega), Nat.add_comm 1 i]
    ring
  rw [hsum]
  ring

/-- the filter is the `stage`-fold iteration of one section -/
theorem mglsaRun_sections (alpha : K) (c : List K) (stage : Nat) (xs : List K) :
    mglsaRun alpha c (mglsaInit stage c.length) xs = (dffRun alpha c (List.replicate c.length 0))^[stage] xs := by
  induction stage generalizing xs with
  | zero => exact mglsaRun_nil alpha c xs
  | succ n ih =>
    have e : (mglsaInit (n + 1) c.length : List (List K)) =
        List.replicate c.length 0 :: mglsaInit n c.length := by
      simp [mglsaInit, List.replicate_succ]
    rw [e, mglsaRun_cons, mglsaRun_single, ih, Function.iterate_succ_apply]

end Jb
