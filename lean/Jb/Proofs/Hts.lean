/-
  Lemmas about the voice-file model (`Jb/Model/Htsvoice.lean`, `Jb/Model/HtsParse.lean`).
-/
import Jb.Model.HtsParse
import Mathlib.Tactic.Linarith

set_option linter.unusedSectionVars false

namespace Jb.Hts

/-- **Wildcard matching is what it says.** -/
theorem glob_correct (p s : List Char) : glob p s = true ↔ Matches p s := by
  sorry

theorem questionTest_iff (pats : List (List Char)) (label : List Char) :
    questionTest pats label = true ↔ ∃ p ∈ pats, Matches p label := by
  sorry

/-- A single-leaf tree selects its PDF for every label. -/
theorem single_leaf (qs : Questions) (st : Nat) (id : Int) (q : String) (k : Nat) (label : List Char) :
    evalTree qs ⟨st, [⟨id, q, .pdf k, .pdf k⟩]⟩ label = some k := by
  sorry

/-- `from_linear`: mean `i` is entry `i`, variance `i` is entry `i + len`, the voicing weight (if any)
    is entry `2·len`. -/
theorem fromLinear_layout (lin : List UInt32) (i : Nat) (hi : i < lin.length / 2) :
    (fromLinear lin).means[i]? = lin[i]? ∧ (fromLinear lin).varis[i]? = lin[i + lin.length / 2]? ∧
    (fromLinear lin).msd = lin[lin.length / 2 * 2]? ∧
    (fromLinear lin).means.length = lin.length / 2 ∧ (fromLinear lin).varis.length = lin.length / 2 := by
  sorry

/-- well-formed file tree: at least two rows or a genuine question row, distinct row ids, and every
    node reference points to a *later* row (as in every HTS file; makes the walk terminate) -/
def TreeWF (t : FileTree) : Prop :=
  (t.rows.map (fun (x : Row) => x.id)).Nodup ∧
  ∀ (i : Nat) (r : Row), t.rows[i]? = some r →
    (∀ id, r.yes = .node id → ∃ j : Nat, i < j ∧ (t.rows[j]?).map (fun (x : Row) => x.id) = some id) ∧
    (∀ id, r.no = .node id → ∃ j : Nat, i < j ∧ (t.rows[j]?).map (fun (x : Row) => x.id) = some id)

/-- **The index form refines the file's tree.** If `convert_tree` succeeds on a well-formed tree that
    is not in the single-leaf form, walking the node table from index 0 returns exactly what walking the
    file's own tree by node id returns — the question test, "yes" to the second child and "no" to the
    first, included — and `rows.length + 1` steps of fuel suffice on both sides. -/
theorem search_refines_eval (qs : Questions) (t : FileTree) (st : Nat) (nodes : List TNode)
    (hwf : TreeWF t) (hne : t.rows ≠ [])
    (hnot : ¬ (t.rows.length = 1 ∧ ∃ r, t.rows = [r] ∧ r.yes = r.no))
    (hc : convertTree true qs t = .ok (st, nodes)) (label : List Char) :
    searchNode nodes label (t.rows.length + 2) 0 = evalTree qs t label ∧
    ∃ k, evalTree qs t label = some k := by
  sorry

/-! ### C18: the repaired loader has no panic outcome -/

theorem siteFail_guarded {α : Type} (site what : String) : (siteFail true site what : Res α) = .err what := rfl

/-- **No panic.** For every byte sequence the guarded reader returns a voice or an error. -/
theorem parseVoice_no_panic (bytes : List Nat) : ∀ s, parseVoice true bytes ≠ .panic s := by
  sorry

/-- the pinned commit's sites, as statements about the unguarded model -/
theorem pinned_slice_panics : ∃ s, sliceIncl false "parser/mod.rs" [1, 2, 3] (5, 2) = .panic s := by
  sorry
theorem pinned_truncated_panics : ∃ s, sliceIncl false "parser/mod.rs" [1, 2, 3] (1, 7) = .panic s := by
  sorry
theorem pinned_overflow_panics :
    ∃ s, headerNat false true (bytesOf "99999999999999999999999999") = .panic s := by
  sorry
theorem pinned_unknown_question_panics :
    ∃ s, convertTree false [] ⟨2, [⟨0, "Q", .pdf 1, .pdf 2⟩]⟩ = .panic s := by
  sorry
theorem pinned_lone_node_child_panics :
    ∃ s, convertTree false [] ⟨2, [⟨0, "", .node (-3), .node (-3)⟩]⟩ = .panic s := by
  sorry
theorem guarded_same_inputs_are_errors :
    (∃ e, sliceIncl true "parser/mod.rs" [1, 2, 3] (5, 2) = .err e) ∧
    (∃ e, headerNat true true (bytesOf "99999999999999999999999999") = .err e) ∧
    (∃ e, convertTree true [] ⟨2, [⟨0, "Q", .pdf 1, .pdf 2⟩]⟩ = .err e) := by
  sorry

end Jb.Hts
