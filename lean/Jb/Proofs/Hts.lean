/-
  Lemmas about the voice-file model (`Jb/Model/Htsvoice.lean`, `Jb/Model/HtsParse.lean`).
-/
import Jb.Model.HtsParse
import Mathlib.Tactic.Linarith

set_option linter.unusedSectionVars false

namespace Jb.Hts

/-- **Wildcard matching is what it says.** -/
theorem glob_sound (p s : List Char) : glob p s = true → Matches p s := by
  fun_induction glob p s with
  | case1 => intro _; exact .nil
  | case2 => intro h; simp at h
  | case3 p ih => intro h; exact .star_skip (ih h)
  | case4 p c s ih1 ih2 =>
    intro h
    rw [Bool.or_eq_true] at h
    rcases h with h | h
    · exact .star_skip (ih1 h)
    · exact .star_eat (ih2 h)
  | case5 => intro h; simp at h
  | case6 p c s ih => intro h; exact .any1 (ih h)
  | case7 => intro h; simp at h
  | case8 a p c s h1 h2 ih =>
    intro h
    rw [Bool.and_eq_true, beq_iff_eq] at h
    obtain ⟨rfl, h⟩ := h
    exact .lit (by rintro rfl; exact h1 rfl) (by rintro rfl; exact h2 rfl) (ih h)

theorem glob_complete (p s : List Char) (h : Matches p s) : glob p s = true := by
  induction h with
  | nil => rw [glob]
  | @star_skip p s _ ih =>
    cases s with
    | nil => rw [glob]; exact ih
    | cons c s => rw [glob, ih]; rfl
  | @star_eat p c s _ ih => rw [glob, ih, Bool.or_true]
  | @any1 p c s _ ih => rw [glob]; exact ih
  | @lit a p s h1 h2 _ ih =>
    rw [glob.eq_8 _ _ _ _ h1 h2]
    simp [ih]

theorem glob_correct (p s : List Char) : glob p s = true ↔ Matches p s :=
  ⟨glob_sound p s, glob_complete p s⟩

theorem questionTest_iff (pats : List (List Char)) (label : List Char) :
    questionTest pats label = true ↔ ∃ p ∈ pats, Matches p label := by
  simp [questionTest, List.any_eq_true, glob_correct]

theorem child_beq_iff (a b : Child) : (a == b) = true ↔ a = b := by
  cases a <;> cases b <;> simp [BEq.beq, instBEqChild.beq]

/-- A single-leaf tree selects its PDF for every label. -/
theorem single_leaf (qs : Questions) (st : Nat) (id : Int) (q : String) (k : Nat) (label : List Char) :
    evalTree qs ⟨st, [⟨id, q, .pdf k, .pdf k⟩]⟩ label = some k := by
  simp [evalTree, child_beq_iff]

/-- `from_linear`: mean `i` is entry `i`, variance `i` is entry `i + len`, the voicing weight (if any)
    is entry `2·len`. -/
theorem fromLinear_layout (lin : List UInt32) (i : Nat) (hi : i < lin.length / 2) :
    (fromLinear lin).means[i]? = lin[i]? ∧ (fromLinear lin).varis[i]? = lin[i + lin.length / 2]? ∧
    (fromLinear lin).msd = lin[lin.length / 2 * 2]? ∧
    (fromLinear lin).means.length = lin.length / 2 ∧ (fromLinear lin).varis.length = lin.length / 2 := by
  unfold fromLinear
  refine ⟨?_, ?_, rfl, ?_, ?_⟩ <;> dsimp only
  · rw [List.getElem?_take, if_pos hi]
  · rw [List.getElem?_take, if_pos hi, List.getElem?_drop, Nat.add_comm]
  · rw [List.length_take]; omega
  · rw [List.length_take, List.length_drop]; omega

/-- well-formed file tree: at least two rows or a genuine question row, distinct row ids, and every
    node reference points to a *later* row (as in every HTS file; makes the walk terminate) -/
def TreeWF (t : FileTree) : Prop :=
  (t.rows.map (fun (x : Row) => x.id)).Nodup ∧
  ∀ (i : Nat) (r : Row), t.rows[i]? = some r →
    (∀ id, r.yes = .node id → ∃ j : Nat, i < j ∧ (t.rows[j]?).map (fun (x : Row) => x.id) = some id) ∧
    (∀ id, r.no = .node id → ∃ j : Nat, i < j ∧ (t.rows[j]?).map (fun (x : Row) => x.id) = some id)

/-! #### `convert_tree` unfolded: the pieces of `convertTree.convertRows` by name -/

def pdfIds (rows : List Row) : List Nat :=
  sortNat (rows.foldl (fun acc r =>
      let acc := match r.yes with | .pdf k => acc ++ [k] | _ => acc
      match r.no with | .pdf k => acc ++ [k] | _ => acc) [])

def resolveC (rows : List Row) (c : Child) : Option Nat :=
  match c with
  | .node id => ((rows.map (·.id)).zip (List.range rows.length)).find? (·.1 == id) |>.map (·.2)
  | .pdf k => (indexOf? (pdfIds rows) k).map (· + rows.length)

def stepC (qs : Questions) (fail : String → Outcome String (Nat × List TNode)) (rows : List Row)
    (acc : Outcome String (List TNode)) (r : Row) : Outcome String (List TNode) :=
  match acc with
  | .ok nodes =>
    match resolveC rows r.yes, resolveC rows r.no, lookupQ qs r.qname with
    | some y, some nn, some pats => .ok (nodes ++ [.node pats y nn])
    | none, _, _ => (fail "unknown node reference").map (fun _ => [])
    | _, none, _ => (fail "unknown node reference").map (fun _ => [])
    | _, _, none => (fail "unknown question").map (fun _ => [])
  | e => e

theorem convertRows_eq (qs : Questions) (fail : String → Outcome String (Nat × List TNode)) (t : FileTree) :
    convertTree.convertRows qs fail t =
      match t.rows.foldl (stepC qs fail t.rows) (.ok []) with
      | .ok nodes => .ok (t.state, nodes ++ (pdfIds t.rows).map .leaf)
      | .err e => .err e
      | .panic s => .panic s := rfl

/-- the table entry of a row (meaningful when all three lookups succeed) -/
def rowNodeD (qs : Questions) (rows : List Row) (r : Row) : TNode :=
  .node ((lookupQ qs r.qname).getD []) ((resolveC rows r.yes).getD 0) ((resolveC rows r.no).getD 0)

theorem foldl_stepC_notok (qs : Questions) (fail : String → Outcome String (Nat × List TNode)) (rows : List Row)
    (e : Outcome String (List TNode)) (he : ∀ a, e ≠ .ok a) (l : List Row) :
    l.foldl (stepC qs fail rows) e = e := by
  induction l with
  | nil => rfl
  | cons r l ih =>
    rw [List.foldl_cons]
    have : stepC qs fail rows e r = e := by
      cases e with
      | ok a => exact absurd rfl (he a)
      | err _ => rfl
      | panic _ => rfl
    rw [this, ih]

theorem map_notok {α β : Type} (f : α → β) (x : Outcome String α) (hx : ∀ a, x ≠ .ok a) :
    ∀ b, Outcome.map f x ≠ .ok b := by
  cases x with
  | ok a => exact absurd rfl (hx a)
  | err _ => intro b h; cases h
  | panic _ => intro b h; cases h

theorem foldl_stepC_ok (qs : Questions) (fail : String → Outcome String (Nat × List TNode)) (rows : List Row)
    (hfail : ∀ w a, fail w ≠ .ok a) (l : List Row) (acc res : List TNode)
    (h : l.foldl (stepC qs fail rows) (.ok acc) = .ok res) :
    (∀ r ∈ l, ∃ y nn pats, resolveC rows r.yes = some y ∧ resolveC rows r.no = some nn ∧
      lookupQ qs r.qname = some pats) ∧ res = acc ++ l.map (rowNodeD qs rows) := by
  induction l generalizing acc with
  | nil => simp at h; simp [h]
  | cons r l ih =>
    rw [List.foldl_cons] at h
    have hbad : ∀ e : Outcome String (List TNode), (∀ a, e ≠ .ok a) → stepC qs fail rows (.ok acc) r = e → False := by
      intro e he hs
      rw [hs, foldl_stepC_notok _ _ _ _ he] at h
      exact he _ h
    rcases h1 : resolveC rows r.yes with _ | y
    · exact (hbad _ (map_notok _ _ (hfail _)) (by simp only [stepC, h1]; rfl)).elim
    rcases h2 : resolveC rows r.no with _ | nn
    · exact (hbad _ (map_notok _ _ (hfail _)) (by simp only [stepC, h1, h2]; rfl)).elim
    rcases h3 : lookupQ qs r.qname with _ | pats
    · exact (hbad _ (map_notok _ _ (hfail _)) (by simp only [stepC, h1, h2, h3]; rfl)).elim
    have hs : stepC qs fail rows (.ok acc) r = .ok (acc ++ [.node pats y nn]) := by
      simp only [stepC, h1, h2, h3]
    rw [hs] at h
    obtain ⟨ha, hb⟩ := ih _ h
    refine ⟨?_, ?_⟩
    · intro r' hr'
      rcases List.mem_cons.1 hr' with rfl | hr'
      · exact ⟨y, nn, pats, h1, h2, h3⟩
      · exact ha r' hr'
    · rw [hb]; simp [rowNodeD, h1, h2, h3]


theorem find_zip_range' (rows : List Row) (id : Int) (s y : Nat)
    (h : (((rows.map (·.id)).zip (List.range' s rows.length)).find? (·.1 == id)).map (·.2) = some y) :
    s ≤ y ∧ ∃ r, rows[y - s]? = some r ∧ r.id = id ∧ findRow rows id = some r := by
  induction rows generalizing s with
  | nil => simp at h
  | cons r rows ih =>
    simp only [List.map_cons, List.length_cons, List.range'_succ, List.zip_cons_cons, List.find?_cons] at h
    by_cases hr : r.id = id
    · simp only [hr, beq_self_eq_true, Option.map_some, Option.some.injEq] at h
      subst h
      exact ⟨le_refl _, r, by simp, hr, by simp [findRow, hr]⟩
    · have hb : (r.id == id) = false := by simpa using hr
      simp only [hb] at h
      obtain ⟨hle, r', h1, h2, h3⟩ := ih (s + 1) h
      refine ⟨by omega, r', ?_, h2, ?_⟩
      · have : y - s = (y - (s + 1)) + 1 := by omega
        rw [this, List.getElem?_cons_succ]; exact h1
      · simpa [findRow, hb] using h3

theorem resolveC_node (rows : List Row) (id : Int) (y : Nat) (h : resolveC rows (.node id) = some y) :
    ∃ r, rows[y]? = some r ∧ r.id = id ∧ findRow rows id = some r := by
  simp only [resolveC, List.range_eq_range'] at h
  simpa using (find_zip_range' rows id 0 y h).2

theorem indexOf_go_spec (x : Nat) (l : List Nat) (i m : Nat) (h : indexOf?.go x i l = some m) :
    i ≤ m ∧ l[m - i]? = some x := by
  induction l generalizing i with
  | nil => simp [indexOf?.go] at h
  | cons y ys ih =>
    simp only [indexOf?.go] at h
    by_cases hy : y = x
    · simp only [hy, beq_self_eq_true, if_true, Option.some.injEq] at h
      subst h; simp [hy]
    · have hb : (y == x) = false := by simpa using hy
      simp only [hb] at h
      obtain ⟨hle, h1⟩ := ih (i + 1) h
      refine ⟨by omega, ?_⟩
      have : m - i = (m - (i + 1)) + 1 := by omega
      rw [this, List.getElem?_cons_succ]; exact h1

theorem resolveC_pdf (rows : List Row) (k y : Nat) (h : resolveC rows (.pdf k) = some y) :
    ∃ j, y = rows.length + j ∧ (pdfIds rows)[j]? = some k := by
  simp only [resolveC, indexOf?, Option.map_eq_some_iff] at h
  obtain ⟨j, hj, rfl⟩ := h
  exact ⟨j, by omega, by simpa using (indexOf_go_spec k _ 0 j hj).2⟩


/-- the table `convert_tree` builds from rows that all resolve -/
def tableOf (qs : Questions) (rows : List Row) : List TNode :=
  rows.map (rowNodeD qs rows) ++ (pdfIds rows).map TNode.leaf

theorem tableOf_row (qs : Questions) (rows : List Row) (y : Nat) (r : Row) (h : rows[y]? = some r) :
    (tableOf qs rows)[y]? = some (rowNodeD qs rows r) := by
  have hy : y < rows.length := (List.getElem?_eq_some_iff.1 h).1
  rw [tableOf, List.getElem?_append_left (by simpa using hy), List.getElem?_map, h]; rfl

theorem tableOf_leaf (qs : Questions) (rows : List Row) (j k : Nat) (h : (pdfIds rows)[j]? = some k) :
    (tableOf qs rows)[rows.length + j]? = some (.leaf k) := by
  rw [tableOf, List.getElem?_append_right (by simp)]; simp [h]

theorem resolve_later (t : FileTree) (hwf : TreeWF t) (i : Nat) (r : Row) (hr : t.rows[i]? = some r)
    (c : Child) (hc : c = r.yes ∨ c = r.no) (y : Nat) (hy : resolveC t.rows c = some y) : i < y := by
  have hi : i < t.rows.length := (List.getElem?_eq_some_iff.1 hr).1
  cases c with
  | pdf k => obtain ⟨j, rfl, _⟩ := resolveC_pdf _ _ _ hy; omega
  | node id =>
    obtain ⟨r', hr', hid, _⟩ := resolveC_node _ _ _ hy
    obtain ⟨h1, h2⟩ := hwf.2 i r hr
    have hj : ∃ j, i < j ∧ (t.rows[j]?).map (fun (x : Row) => x.id) = some id := by
      rcases hc with hc | hc
      · exact h1 id hc.symm
      · exact h2 id hc.symm
    obtain ⟨j, hij, hj⟩ := hj
    have hy' : y < (t.rows.map (fun (x : Row) => x.id)).length := by
      simpa using (List.getElem?_eq_some_iff.1 hr').1
    have heq : (t.rows.map (fun (x : Row) => x.id))[y]? = (t.rows.map (fun (x : Row) => x.id))[j]? := by
      rw [List.getElem?_map, List.getElem?_map, hj, hr']; simp [hid]
    have := (List.getElem?_inj hy' hwf.1).1 heq
    omega

theorem evalChild_pdf (qs : Questions) (rows : List Row) (label : List Char) (m k : Nat) :
    evalChild qs rows label m (.pdf k) = some k := by
  cases m <;> rfl

theorem sim (qs : Questions) (t : FileTree) (hwf : TreeWF t) (label : List Char)
    (hall : ∀ r ∈ t.rows, ∃ y nn pats, resolveC t.rows r.yes = some y ∧ resolveC t.rows r.no = some nn ∧
      lookupQ qs r.qname = some pats) :
    ∀ (m : Nat) (c : Child) (y : Nat), resolveC t.rows c = some y → t.rows.length - y ≤ m →
      ∃ k, searchNode (tableOf qs t.rows) label (m + 1) y = some k ∧
        evalChild qs t.rows label m c = some k := by
  have hpdf : ∀ (m k y : Nat), resolveC t.rows (.pdf k) = some y →
      ∃ k', searchNode (tableOf qs t.rows) label (m + 1) y = some k' ∧
        evalChild qs t.rows label m (.pdf k) = some k' := by
    intro m k y hy
    obtain ⟨j, rfl, hj⟩ := resolveC_pdf _ _ _ hy
    exact ⟨k, by rw [searchNode, tableOf_leaf qs _ _ _ hj], evalChild_pdf _ _ _ _ _⟩
  intro m
  induction m with
  | zero =>
    intro c y hy hm
    cases c with
    | pdf k => exact hpdf 0 k y hy
    | node id =>
      obtain ⟨r, hr, _, _⟩ := resolveC_node _ _ _ hy
      have := (List.getElem?_eq_some_iff.1 hr).1
      omega
  | succ m ih =>
    intro c y hy hm
    cases c with
    | pdf k => exact hpdf _ k y hy
    | node id =>
      obtain ⟨r, hr, hid, hfind⟩ := resolveC_node _ _ _ hy
      obtain ⟨yy, nn, pats, h1, h2, h3⟩ := hall r (List.mem_of_getElem? hr)
      have hlt := (List.getElem?_eq_some_iff.1 hr).1
      rw [searchNode, tableOf_row qs _ _ _ hr]
      simp only [rowNodeD, h1, h2, h3, Option.getD_some]
      rw [evalChild]
      simp only [hfind, h3]
      by_cases hq : questionTest pats label = true
      · simp only [hq, if_true]
        have := resolve_later t hwf y r hr r.yes (Or.inl rfl) yy h1
        exact ih r.yes yy h1 (by omega)
      · simp only [hq]
        have := resolve_later t hwf y r hr r.no (Or.inr rfl) nn h2
        exact ih r.no nn h2 (by omega)


/-- **The index form refines the file's tree.** If `convert_tree` succeeds on a well-formed tree that
    is not in the single-leaf form, walking the node table from index 0 returns exactly what walking the
    file's own tree by node id returns — the question test, "yes" to the second child and "no" to the
    first, included — and `rows.length + 1` steps of fuel suffice on both sides. -/
theorem search_refines_eval (qs : Questions) (t : FileTree) (st : Nat) (nodes : List TNode)
    (hwf : TreeWF t) (hne : t.rows ≠ [])
    (hnot : ¬ (t.rows.length = 1 ∧ ∃ r, t.rows = [r] ∧ r.yes = r.no))
    (hc : convertTree true qs t = .ok (st, nodes)) (label : List Char) :
    searchNode nodes label (t.rows.length + 2) 0 = evalTree qs t label ∧
    ∃ k, evalTree qs t label = some k := by
  obtain ⟨st0, rows⟩ := t
  cases rows with
  | nil => exact absurd rfl hne
  | cons r0 rest =>
  have hns : ¬ (rest = [] ∧ r0.yes = r0.no) := by
    rintro ⟨rfl, h⟩; exact hnot ⟨rfl, r0, rfl, h⟩
  let fail : String → Outcome String (Nat × List TNode) := fun what =>
    if true = true then .err what else .panic ("parser/model/mod.rs:" ++ what)
  have hfail : ∀ w a, fail w ≠ .ok a := by intro w a h; simp [fail] at h
  have hct : convertTree true qs ⟨st0, r0 :: rest⟩ = convertTree.convertRows qs fail ⟨st0, r0 :: rest⟩ := by
    unfold convertTree
    dsimp only
    cases rest with
    | nil =>
      have : ¬ ((r0.yes == r0.no) = true) := by
        rw [child_beq_iff]; exact fun h => hns ⟨rfl, h⟩
      simp only [this]; rfl
    | cons r1 rest => rfl
  rw [hct, convertRows_eq] at hc
  dsimp only at hc
  -- the fold succeeded
  rcases hf : (r0 :: rest).foldl (stepC qs fail (r0 :: rest)) (.ok []) with ns | e | s
  · rw [hf] at hc
    simp only [Outcome.ok.injEq, Prod.mk.injEq] at hc
    obtain ⟨hall, hns'⟩ := foldl_stepC_ok qs fail _ hfail _ _ _ hf
    have hnodes : nodes = tableOf qs (r0 :: rest) := by
      rw [← hc.2, hns']; simp [tableOf]
    have hroot : resolveC (r0 :: rest) (.node r0.id) = some 0 := by
      simp [resolveC, List.range_succ_eq_map]
    obtain ⟨k, hk1, hk2⟩ := sim qs ⟨st0, r0 :: rest⟩ hwf label hall (rest.length + 1 + 1) (.node r0.id) 0 hroot
      (by simp)
    have hev : evalTree qs ⟨st0, r0 :: rest⟩ label = some k := by
      rw [← hk2]
      unfold evalTree
      dsimp only
      have : ((r0 :: rest).length == 1 && r0.yes == r0.no) = false := by
        rw [Bool.and_eq_false_iff]
        by_cases hr : rest = []
        · right
          rw [← Bool.not_eq_true, child_beq_iff]
          exact fun h => hns ⟨hr, h⟩
        · left
          cases rest with
          | nil => exact absurd rfl hr
          | cons _ _ => simp
      rw [this]; rfl
    refine ⟨?_, k, hev⟩
    rw [hev, hnodes, ← hk1]; rfl
  · rw [hf] at hc; cases hc
  · rw [hf] at hc; cases hc

/-! ### C18: the repaired loader has no panic outcome -/

theorem siteFail_guarded {α : Type} (site what : String) : (siteFail true site what : Res α) = .err what := rfl

/-- the outcome is a value or an error -/
def NoPanic {α : Type} (x : Res α) : Prop := ∀ s, x ≠ .panic s

theorem noPanic_ok {α : Type} (a : α) : NoPanic (.ok a : Res α) := fun _ h => by cases h
theorem noPanic_err {α : Type} (e : String) : NoPanic (.err e : Res α) := fun _ h => by cases h
theorem noPanic_siteFail {α : Type} (site what : String) : NoPanic (siteFail true site what : Res α) :=
  noPanic_err _
theorem noPanic_bind {α β : Type} {x : Res α} {f : α → Res β} (hx : NoPanic x) (hf : ∀ a, NoPanic (f a)) :
    NoPanic (bindR x f) := by
  cases x with
  | ok a => exact hf a
  | err e => exact noPanic_err e
  | panic s => exact absurd rfl (hx s)
theorem noPanic_sequenceR {α : Type} (l : List (Res α)) (h : ∀ x ∈ l, NoPanic x) : NoPanic (sequenceR l) := by
  induction l with
  | nil => exact noPanic_ok _
  | cons x xs ih =>
    rw [sequenceR]
    exact noPanic_bind (h x (by simp)) fun a =>
      noPanic_bind (ih fun y hy => h y (by simp [hy])) fun _ => noPanic_ok _
theorem noPanic_sequenceR_map {α β : Type} (l : List β) (f : β → Res α) (h : ∀ b, NoPanic (f b)) :
    NoPanic (sequenceR (l.map f)) :=
  noPanic_sequenceR _ fun x hx => by
    obtain ⟨b, _, rfl⟩ := List.mem_map.1 hx
    exact h b

/-- closes goals of the form `NoPanic (if … / match … ⇒ .ok … / .err … / siteFail true …)` -/
macro "no_panic_leaf" : tactic =>
  `(tactic| (repeat' split) <;> first | exact noPanic_ok _ | exact noPanic_err _ | exact noPanic_siteFail _ _)

theorem noPanic_headerNat (strict : Bool) (b : List Nat) : NoPanic (headerNat true strict b) := by
  unfold headerNat; no_panic_leaf

theorem noPanic_headerBool (b : List Nat) : NoPanic (headerBool b) := by
  unfold headerBool; no_panic_leaf

theorem noPanic_headerPair (b : List Nat) : NoPanic (headerPair true b) := by
  unfold headerPair
  split
  · next x y _ =>
    have hx := noPanic_headerNat false x
    have hy := noPanic_headerNat false y
    split
    · exact noPanic_ok _
    · next s h => exact absurd h (hx s)
    · next s h _ => exact absurd h (hy s)
    · exact noPanic_err _
    · exact noPanic_err _
  · exact noPanic_err _

theorem noPanic_optPair (o : Option (List Nat)) : NoPanic (optPair true o) := by
  unfold optPair
  split
  · exact noPanic_ok _
  · exact noPanic_bind (noPanic_headerPair _) fun _ => noPanic_ok _

theorem noPanic_sliceIncl (site : String) (d : List Nat) (r : Nat × Nat) : NoPanic (sliceIncl true site d r) := by
  unfold sliceIncl; no_panic_leaf

theorem noPanic_checkedMul (a b : Nat) : NoPanic (checkedMul true a b) := by
  unfold checkedMul; no_panic_leaf

theorem noPanic_headerLines (b : List Nat) : NoPanic (headerLines b) := by
  unfold headerLines
  dsimp only
  generalize List.filter _ _ = lines
  induction lines with
  | nil => exact noPanic_ok _
  | cons l ls ih =>
    rw [List.foldr_cons]
    split
    · no_panic_leaf
    · exact ih

theorem noPanic_lookup1 (kvs : List (List Nat × List Nat)) (key : String) : NoPanic (lookup1 kvs key) := by
  unfold lookup1; no_panic_leaf

theorem noPanic_lookupOpt (kvs : List (List Nat × List Nat)) (key : String) : NoPanic (lookupOpt kvs key) := by
  unfold lookupOpt; no_panic_leaf


/-- chains of `bindR` whose heads are known no-panic components -/
macro "no_panic_chain" : tactic =>
  `(tactic| repeat' first
    | exact noPanic_ok _ | exact noPanic_err _ | exact noPanic_siteFail _ _
    | exact noPanic_headerNat _ _ | exact noPanic_headerBool _ | exact noPanic_headerPair _
    | exact noPanic_optPair _ | exact noPanic_sliceIncl _ _ _ | exact noPanic_checkedMul _ _
    | exact noPanic_headerLines _ | exact noPanic_lookup1 _ _ | exact noPanic_lookupOpt _ _
    | apply noPanic_sequenceR_map
    | (refine noPanic_bind ?_ ?_)
    | intro _)

theorem noPanic_parseGlobal (b : List Nat) : NoPanic (parseGlobal true b) := by
  unfold parseGlobal; no_panic_chain

theorem noPanic_parseStreamGroup (g : List (List Nat × List Nat)) : NoPanic (parseStreamGroup true g) := by
  unfold parseStreamGroup; no_panic_chain

theorem noPanic_parsePosGroup (g : List (List Nat × List Nat)) : NoPanic (parsePosGroup true g) := by
  unfold parsePosGroup; no_panic_chain

theorem noPanic_splitSections (b : List Nat) : NoPanic (splitSections b) := by
  unfold splitSections
  dsimp only
  refine noPanic_bind (by no_panic_leaf) fun ⟨g, r1⟩ => ?_
  refine noPanic_bind (by no_panic_leaf) fun ⟨s, r2⟩ => ?_
  refine noPanic_bind (by no_panic_leaf) fun ⟨p, r3⟩ => ?_
  no_panic_leaf


theorem noPanic_map {α β : Type} {x : Res α} (f : α → β) (hx : NoPanic x) : NoPanic (Outcome.map f x : Res β) := by
  cases x with
  | ok a => exact noPanic_ok _
  | err e => exact noPanic_err e
  | panic s => exact absurd rfl (hx s)

theorem noPanic_foldl {α β : Type} (step : Res α → β → Res α)
    (hstep : ∀ acc b, NoPanic acc → NoPanic (step acc b)) (l : List β) (acc : Res α) (h : NoPanic acc) :
    NoPanic (l.foldl step acc) := by
  induction l generalizing acc with
  | nil => exact h
  | cons b l ih => exact ih _ (hstep acc b h)

theorem noPanic_convertRows (qs : Questions) (fail : String → Outcome String (Nat × List TNode))
    (hfail : ∀ w, NoPanic (fail w)) (t : FileTree) : NoPanic (convertTree.convertRows qs fail t) := by
  unfold convertTree.convertRows
  dsimp only
  split
  · exact noPanic_ok _
  · exact noPanic_err _
  · next s h =>
    exfalso
    revert h
    apply noPanic_foldl _ _ _ _ (noPanic_ok _)
    intro acc r hacc
    split
    · split
      · exact noPanic_ok _
      · exact noPanic_map _ (hfail _)
      · exact noPanic_map _ (hfail _)
      · exact noPanic_map _ (hfail _)
    · exact hacc

theorem noPanic_convertTree (qs : Questions) (t : FileTree) : NoPanic (convertTree true qs t) := by
  unfold convertTree
  have hfail : ∀ w : String, NoPanic (if true = true then Outcome.err w
      else Outcome.panic ("parser/model/mod.rs:" ++ w) : Outcome String (Nat × List TNode)) :=
    fun w => noPanic_err w
  dsimp only
  split
  · split
    · split
      · exact noPanic_ok _
      · exact hfail _
    · exact noPanic_convertRows _ _ hfail _
  · exact noPanic_convertRows _ _ hfail _

theorem noPanic_parseModel (d : List Nat) (treeR pdfR : Nat × Nat) (pdfLen : Nat) :
    NoPanic (parseModel true d treeR pdfR pdfLen) := by
  unfold parseModel
  refine noPanic_bind (noPanic_sliceIncl _ _ _) fun tb => ?_
  split
  · exact noPanic_err _
  · refine noPanic_bind (noPanic_sliceIncl _ _ _) fun pb => ?_
    split
    · exact noPanic_err _
    · exact noPanic_bind (noPanic_sequenceR_map _ _ fun t => noPanic_convertTree _ _) fun _ => noPanic_ok _


/-- **No panic.** For every byte sequence the guarded reader returns a voice or an error. -/
theorem parseVoice_no_panic (bytes : List Nat) : ∀ s, parseVoice true bytes ≠ .panic s := by
  show NoPanic (parseVoice true bytes)
  unfold parseVoice
  refine noPanic_bind (noPanic_splitSections _) fun ⟨gb, sb, pb, d⟩ => ?_
  dsimp only
  split
  · exact noPanic_err _
  refine noPanic_bind (noPanic_parseGlobal _) fun g => ?_
  refine noPanic_bind (noPanic_headerLines _) fun skv => ?_
  refine noPanic_bind (noPanic_headerLines _) fun pkv => ?_
  refine noPanic_bind (by no_panic_chain) fun dpdf => ?_
  refine noPanic_bind (by no_panic_chain) fun dtree => ?_
  refine noPanic_bind (noPanic_checkedMul _ _) fun durLen => ?_
  refine noPanic_bind (noPanic_parseModel _ _ _ _) fun dur => ?_
  split
  · exact noPanic_siteFail _ _
  split
  · rw [if_pos rfl]; exact noPanic_err _
  refine noPanic_bind (noPanic_sequenceR_map _ _ fun name => ?_) fun _ => noPanic_ok _
  try dsimp only
  split
  · exact noPanic_err _
  split
  · exact noPanic_err _
  refine noPanic_bind (noPanic_parsePosGroup _) fun pos => ?_
  refine noPanic_bind (noPanic_parseStreamGroup _) fun sm => ?_
  refine noPanic_bind (noPanic_checkedMul _ _) fun vw => ?_
  refine noPanic_bind (noPanic_checkedMul _ _) fun vw2 => ?_
  refine noPanic_bind (noPanic_parseModel _ _ _ _) fun model => ?_
  refine noPanic_bind ?_ fun gv => ?_
  · split
    · split
      · refine noPanic_bind (noPanic_checkedMul _ _) fun gl => ?_
        exact noPanic_bind (noPanic_parseModel _ _ _ _) fun m => noPanic_ok _
      · exact noPanic_err _
    · exact noPanic_ok _
  refine noPanic_bind (noPanic_sequenceR_map _ _ fun r => ?_) fun _ => noPanic_ok _
  refine noPanic_bind (noPanic_sliceIncl _ _ _) fun wb => ?_
  split
  · exact noPanic_ok _
  · exact noPanic_err _

/-- `ByteArray.toList` is the underlying list (the library defines it by a counting loop) -/
theorem byteArray_toList_loop (bs : ByteArray) (i : Nat) (r : List UInt8) :
    ByteArray.toList.loop bs i r = r.reverse ++ bs.data.toList.drop i := by
  fun_induction ByteArray.toList.loop bs i r with
  | case1 i r h ih =>
    rw [ih]
    obtain ⟨⟨l⟩⟩ := bs
    simp only [ByteArray.size, Array.size] at h
    simp only [ByteArray.get!]
    rw [List.drop_eq_getElem_cons h]
    have : (⟨l⟩ : Array UInt8)[i]! = l[i] := by
      rw [getElem!_pos (⟨l⟩ : Array UInt8) i (by simpa using h)]; rfl
    rw [this]; simp
  | case2 i r h =>
    obtain ⟨⟨l⟩⟩ := bs
    simp only [ByteArray.size, Array.size] at h
    simp [List.drop_eq_nil_of_le (Nat.le_of_not_gt h)]

theorem byteArray_toList (bs : ByteArray) : bs.toList = bs.data.toList := by
  simp [ByteArray.toList, byteArray_toList_loop]

theorem bytesOf_nines : bytesOf "99999999999999999999999999" = List.replicate 26 57 := by
  have h : "99999999999999999999999999" = String.ofList (List.replicate 26 '9') := by decide
  rw [bytesOf, String.toUTF8, h, String.toByteArray_ofList, byteArray_toList, List.utf8Encode,
    List.toList_data_toByteArray]
  decide

/-- the pinned commit's sites, as statements about the unguarded model -/
theorem pinned_slice_panics : ∃ s, sliceIncl false "parser/mod.rs" [1, 2, 3] (5, 2) = .panic s :=
  ⟨_, rfl⟩
theorem pinned_truncated_panics : ∃ s, sliceIncl false "parser/mod.rs" [1, 2, 3] (1, 7) = .panic s :=
  ⟨_, rfl⟩
theorem pinned_overflow_panics :
    ∃ s, headerNat false true (bytesOf "99999999999999999999999999") = .panic s := by
  rw [bytesOf_nines]; exact ⟨_, rfl⟩
theorem pinned_unknown_question_panics :
    ∃ s, convertTree false [] ⟨2, [⟨0, "Q", .pdf 1, .pdf 2⟩]⟩ = .panic s :=
  ⟨_, rfl⟩
theorem pinned_lone_node_child_panics :
    ∃ s, convertTree false [] ⟨2, [⟨0, "", .node (-3), .node (-3)⟩]⟩ = .panic s :=
  ⟨_, rfl⟩
theorem guarded_same_inputs_are_errors :
    (∃ e, sliceIncl true "parser/mod.rs" [1, 2, 3] (5, 2) = .err e) ∧
    (∃ e, headerNat true true (bytesOf "99999999999999999999999999") = .err e) ∧
    (∃ e, convertTree true [] ⟨2, [⟨0, "Q", .pdf 1, .pdf 2⟩]⟩ = .err e) := by
  rw [bytesOf_nines]; exact ⟨⟨_, rfl⟩, ⟨_, rfl⟩, ⟨_, rfl⟩⟩

end Jb.Hts
