/-
  `calc_wuw_and_wum` assembles W'U⁻¹W (banded) and W'U⁻¹μ for the window matrix W
  (`Jb/Model/Mlpg.lean`: `wuwRow`, `calcWuwWum`), provided every observation whose window span leaves
  the frame range has zero precision — which `windowParams` guarantees for dynamic windows (F8 in
  DESIGN.md: the code `break`s instead of `continue`-ing at the right edge).
-/
import Jb.Model.Mlpg
import Mathlib.Algebra.Order.Field.Basic
import Mathlib.Algebra.BigOperators.Intervals
import Mathlib.Tactic.Linarith
import Mathlib.Tactic.Ring

set_option linter.unusedSectionVars false

namespace Jb

variable {K : Type} [Field K] [LinearOrder K] [IsStrictOrderedRing K] [Transc K] [Consts K] [MlpgConsts K]

/-- coefficient with which the observation of window `win` centred at frame `s` weighs frame `t`:
    `win[k]` with `k = t − s + half` when that index exists, else 0 -/
def winCoef (win : List K) (s t : Nat) : K :=
  if s ≤ t + win.length / 2 ∧ t + win.length / 2 - s < win.length then win.getD (t + win.length / 2 - s) 0 else 0

/-- `(W' P W)[t][t']` and `(W' P μ)[t]` from the definition: sums over windows `i` and observation frames `s` -/
def wpwEntry (windows : List (List K)) (obs : List (List (MeanVari K))) (T t t' : Nat) : K :=
  ((windows.zip obs).map fun wo =>
    (Finset.range T).sum fun s => (wo.2.getD s ⟨0, 0⟩).vari * winCoef wo.1 s t * winCoef wo.1 s t').sum

def wpmEntry (windows : List (List K)) (obs : List (List (MeanVari K))) (T t : Nat) : K :=
  ((windows.zip obs).map fun wo =>
    (Finset.range T).sum fun s => (wo.2.getD s ⟨0, 0⟩).vari * (wo.2.getD s ⟨0, 0⟩).mean * winCoef wo.1 s t).sum

/-- observations whose span `[s − half, s + (w − 1 − half)]` leaves `[0, T)` carry zero precision -/
def EdgeZero (windows : List (List K)) (obs : List (List (MeanVari K))) (T : Nat) : Prop :=
  ∀ wo ∈ windows.zip obs, ∀ s, s < T →
    (s < wo.1.length / 2 ∨ T ≤ s + (wo.1.length - 1 - wo.1.length / 2)) → (wo.2.getD s ⟨0, 0⟩).vari = 0

/-! ### helper lemmas -/

theorem asm_isZero_iff (x : K) : isZero x = true ↔ x = 0 := by
  unfold isZero
  simp only [Bool.and_eq_true, Bool.not_eq_true', decide_eq_false_iff_not, not_lt, decide_eq_true_eq]
  constructor
  · rintro ⟨⟨h1, h2⟩, _⟩; exact le_antisymm h2 h1
  · rintro rfl; exact ⟨⟨le_refl _, le_refl _⟩, le_refl _⟩

theorem asm_sum_map_range (f : Nat → K) (n : Nat) :
    ((List.range n).map f).sum = (Finset.range n).sum f := by
  induction n with
  | zero => simp
  | succ n ih =>
    rw [List.range_succ, List.map_append, List.sum_append, ih, Finset.sum_range_succ]
    simp

theorem asm_sum_map_range_reverse (f : Nat → K) (n : Nat) :
    ((List.range n).reverse.map f).sum = (Finset.range n).sum f := by
  rw [List.map_reverse, List.sum_reverse, asm_sum_map_range]

/-- the inner loop (`k2 = w-1 … k`) adds `wu · win[k2]` at `j = k2 − k`; the `break` is invisible as
    long as it can only fire when `wu = 0` -/
theorem asm_inner_spec (win : List K) (T t k : Nat) (wu : K) :
    ∀ (k2s : List Nat) (row : List K),
      (∀ k2 ∈ k2s, T ≤ t + (k2 - k) → wu = 0) →
      (∀ k2 ∈ k2s, k2 - k < row.length) →
      (wuwRow.inner T t win k wu k2s row).length = row.length ∧
      ∀ j, (wuwRow.inner T t win k wu k2s row).getD j 0 =
        row.getD j 0 + (k2s.map fun k2 => if k2 - k = j then wu * win.getD k2 0 else 0).sum := by
  intro k2s
  induction k2s with
  | nil =>
    intro row _ _
    simp [wuwRow.inner]
  | cons k2 rest ih =>
    intro row hbr hlen
    have hbr' : ∀ k2 ∈ rest, T ≤ t + (k2 - k) → wu = 0 := fun x hx => hbr x (List.mem_cons_of_mem _ hx)
    have hlen' : ∀ k2 ∈ rest, k2 - k < row.length := fun x hx => hlen x (List.mem_cons_of_mem _ hx)
    rw [wuwRow.inner]
    by_cases hz : isZero (win.getD k2 0) = true
    · have h0 : win.getD k2 0 = 0 := (asm_isZero_iff _).1 hz
      simp only [hz, if_true]
      obtain ⟨h1, h2⟩ := ih row hbr' hlen'
      refine ⟨h1, fun j => ?_⟩
      rw [h2 j, List.map_cons, List.sum_cons, h0]
      simp
    · have hz' : isZero (win.getD k2 0) = false := by simpa using hz
      simp only [hz', Bool.false_eq_true, if_false]
      by_cases hT : T ≤ t + (k2 - k)
      · have hwu : wu = 0 := hbr k2 (List.mem_cons_self) hT
        simp only [hT, if_true]
        refine ⟨trivial, fun j => ?_⟩
        subst hwu
        simp
      · simp only [hT, if_false]
        have hj : k2 - k < row.length := hlen k2 (List.mem_cons_self)
        obtain ⟨h1, h2⟩ := ih (row.set (k2 - k) (row.getD (k2 - k) 0 + wu * win.getD k2 0)) hbr'
          (by simpa using hlen')
        refine ⟨by rw [h1, List.length_set], fun j => ?_⟩
        rw [h2 j, List.map_cons, List.sum_cons]
        by_cases hjj : k2 - k = j
        · subst hjj
          simp only [if_true]
          rw [List.getD_eq_getElem?_getD, List.getElem?_set_self hj]
          simp only [Option.getD_some]
          ring
        · simp only [hjj, if_false]
          rw [List.getD_eq_getElem?_getD, List.getElem?_set_ne hjj, ← List.getD_eq_getElem?_getD]
          ring

/-- the inner loop over its actual index list `k2 = w-1 … k` -/
theorem asm_inner_range (win : List K) (T t k : Nat) (wu : K) (row : List K)
    (hbr : ∀ k2, k ≤ k2 → k2 < win.length → T ≤ t + (k2 - k) → wu = 0)
    (hlen : win.length ≤ row.length) :
    (wuwRow.inner T t win k wu ((List.range (win.length - k)).reverse.map (· + k)) row).length = row.length ∧
    ∀ j, (wuwRow.inner T t win k wu ((List.range (win.length - k)).reverse.map (· + k)) row).getD j 0 =
      row.getD j 0 + wu * win.getD (j + k) 0 := by
  obtain ⟨h1, h2⟩ := asm_inner_spec win T t k wu ((List.range (win.length - k)).reverse.map (· + k)) row
    (by
      intro k2 hk2
      simp only [List.mem_map, List.mem_reverse, List.mem_range] at hk2
      obtain ⟨i, hi, rfl⟩ := hk2
      exact hbr (i + k) (by omega) (by omega))
    (by
      intro k2 hk2
      simp only [List.mem_map, List.mem_reverse, List.mem_range] at hk2
      obtain ⟨i, hi, rfl⟩ := hk2
      omega)
  refine ⟨h1, fun j => ?_⟩
  rw [h2 j, List.map_map, asm_sum_map_range_reverse]
  congr 1
  simp only [Function.comp_def, Nat.add_sub_cancel]
  rw [Finset.sum_ite_eq' (Finset.range (win.length - k)) j (fun i => wu * win.getD (i + k) 0)]
  by_cases hj : j ∈ Finset.range (win.length - k)
  · rw [if_pos hj]
  · rw [if_neg hj]
    rw [Finset.mem_range] at hj
    rw [List.getD_eq_getElem?_getD, List.getElem?_eq_none (by omega)]
    simp

/-- body of the `k` loop of `wuwRow` -/
def asmKStep (win : List K) (ob : List (MeanVari K)) (T t : Nat) (acc : List K × K) (k : Nat) : List K × K :=
  if isZero (win.getD k 0) then acc
  else if t + win.length / 2 < k then acc
  else if T ≤ t + win.length / 2 - k then acc
  else
    (wuwRow.inner T t win k (win.getD k 0 * (ob.getD (t + win.length / 2 - k) ⟨0, 0⟩).vari)
        ((List.range (win.length - k)).reverse.map (· + k)) acc.1,
      acc.2 + win.getD k 0 * (ob.getD (t + win.length / 2 - k) ⟨0, 0⟩).vari *
        (ob.getD (t + win.length / 2 - k) ⟨0, 0⟩).mean)

def asmWinStep (T t : Nat) (acc : List K × K) (wo : List K × List (MeanVari K)) : List K × K :=
  (List.range wo.1.length).reverse.foldl (asmKStep wo.1 wo.2 T t) acc

theorem asm_wuwRow_def (windows : List (List K)) (obs : List (List (MeanVari K))) (T width t : Nat) :
    wuwRow windows obs T width t = (windows.zip obs).foldl (asmWinStep T t) (List.replicate width 0, 0) := rfl

/-- weight of tap `k` in row `t`: `win[k] · p[t + half − k]` when that frame exists, else 0 -/
def asmCoef (win : List K) (ob : List (MeanVari K)) (T t k : Nat) : K :=
  if k ≤ t + win.length / 2 ∧ t + win.length / 2 - k < T then
    win.getD k 0 * (ob.getD (t + win.length / 2 - k) ⟨0, 0⟩).vari else 0

/-- per-window edge hypothesis (right edge only is needed) -/
def AsmEdge (win : List K) (ob : List (MeanVari K)) (T : Nat) : Prop :=
  ∀ s, s < T → T ≤ s + (win.length - 1 - win.length / 2) → (ob.getD s ⟨0, 0⟩).vari = 0

theorem asm_kStep_spec (win : List K) (ob : List (MeanVari K)) (T t : Nat) (hE : AsmEdge win ob T)
    (acc : List K × K) (k : Nat) (hk : k < win.length) (hlen : win.length ≤ acc.1.length) :
    (asmKStep win ob T t acc k).2 =
      acc.2 + asmCoef win ob T t k * (ob.getD (t + win.length / 2 - k) ⟨0, 0⟩).mean ∧
    (asmKStep win ob T t acc k).1.length = acc.1.length ∧
    ∀ j, (asmKStep win ob T t acc k).1.getD j 0 =
      acc.1.getD j 0 + asmCoef win ob T t k * win.getD (j + k) 0 := by
  unfold asmKStep asmCoef
  by_cases hz : isZero (win.getD k 0) = true
  · have h0 : win.getD k 0 = 0 := (asm_isZero_iff _).1 hz
    rw [if_pos hz, h0]
    simp
  rw [if_neg hz]
  by_cases h1 : t + win.length / 2 < k
  · rw [if_pos h1, if_neg (by omega)]
    simp
  rw [if_neg h1]
  by_cases h2 : T ≤ t + win.length / 2 - k
  · rw [if_pos h2, if_neg (by omega)]
    simp
  rw [if_neg h2, if_pos (by omega)]
  obtain ⟨i1, i2⟩ := asm_inner_range win T t k
    (win.getD k 0 * (ob.getD (t + win.length / 2 - k) ⟨0, 0⟩).vari) acc.1
    (by
      intro k2 hk2 hk2w hT
      rw [hE (t + win.length / 2 - k) (by omega) (by omega), mul_zero])
    hlen
  exact ⟨rfl, i1, i2⟩

theorem asm_kFold_spec (win : List K) (ob : List (MeanVari K)) (T t : Nat) (hE : AsmEdge win ob T) :
    ∀ (ks : List Nat) (acc : List K × K), (∀ k ∈ ks, k < win.length) → win.length ≤ acc.1.length →
    (ks.foldl (asmKStep win ob T t) acc).2 =
      acc.2 + (ks.map fun k => asmCoef win ob T t k * (ob.getD (t + win.length / 2 - k) ⟨0, 0⟩).mean).sum ∧
    (ks.foldl (asmKStep win ob T t) acc).1.length = acc.1.length ∧
    ∀ j, (ks.foldl (asmKStep win ob T t) acc).1.getD j 0 =
      acc.1.getD j 0 + (ks.map fun k => asmCoef win ob T t k * win.getD (j + k) 0).sum := by
  intro ks
  induction ks with
  | nil => intro acc _ _; simp
  | cons k rest ih =>
    intro acc hks hlen
    obtain ⟨a1, a2, a3⟩ := asm_kStep_spec win ob T t hE acc k (hks k List.mem_cons_self) hlen
    obtain ⟨b1, b2, b3⟩ := ih (asmKStep win ob T t acc k)
      (fun x hx => hks x (List.mem_cons_of_mem _ hx)) (by rw [a2]; exact hlen)
    rw [List.foldl_cons]
    refine ⟨?_, by rw [b2, a2], fun j => ?_⟩
    · rw [b1, a1, List.map_cons, List.sum_cons, add_assoc]
    · rw [b3 j, a3 j, List.map_cons, List.sum_cons, add_assoc]

/-- re-indexing taps `k` by observation frames `s = t + half − k` -/
theorem asm_reindex (win : List K) (ob : List (MeanVari K)) (T t : Nat) (g : Nat → K) :
    (Finset.range win.length).sum (fun k => asmCoef win ob T t k * g (t + win.length / 2 - k)) =
    (Finset.range T).sum (fun s => (ob.getD s ⟨0, 0⟩).vari * winCoef win s t * g s) := by
  have hL : ∀ k, asmCoef win ob T t k * g (t + win.length / 2 - k) =
      if k ≤ t + win.length / 2 ∧ t + win.length / 2 - k < T then
        win.getD k 0 * (ob.getD (t + win.length / 2 - k) ⟨0, 0⟩).vari * g (t + win.length / 2 - k) else 0 := by
    intro k
    unfold asmCoef
    split_ifs <;> simp
  have hR : ∀ s, (ob.getD s ⟨0, 0⟩).vari * winCoef win s t * g s =
      if s ≤ t + win.length / 2 ∧ t + win.length / 2 - s < win.length then
        win.getD (t + win.length / 2 - s) 0 * (ob.getD s ⟨0, 0⟩).vari * g s else 0 := by
    intro s
    unfold winCoef
    split_ifs
    · ring
    · simp
  simp only [hL, hR]
  rw [← Finset.sum_filter, ← Finset.sum_filter]
  refine Finset.sum_nbij' (fun k => t + win.length / 2 - k) (fun s => t + win.length / 2 - s) ?_ ?_ ?_ ?_ ?_
  · intro k hk
    simp only [Finset.mem_filter, Finset.mem_range] at hk ⊢
    omega
  · intro s hs
    simp only [Finset.mem_filter, Finset.mem_range] at hs ⊢
    omega
  · intro k hk
    simp only [Finset.mem_filter, Finset.mem_range] at hk
    omega
  · intro s hs
    simp only [Finset.mem_filter, Finset.mem_range] at hs
    omega
  · intro k hk
    simp only [Finset.mem_filter, Finset.mem_range] at hk
    have : t + win.length / 2 - (t + win.length / 2 - k) = k := by omega
    rw [this]

theorem asm_winCoef_shift (win : List K) (t j k : Nat) (hk : k ≤ t + win.length / 2) :
    winCoef win (t + win.length / 2 - k) (t + j) = win.getD (j + k) 0 := by
  unfold winCoef
  have e : t + j + win.length / 2 - (t + win.length / 2 - k) = j + k := by omega
  rw [e]
  by_cases h : j + k < win.length
  · rw [if_pos ⟨by omega, h⟩]
  · rw [if_neg (by omega), List.getD_eq_getElem?_getD, List.getElem?_eq_none (by omega)]
    rfl

theorem asm_winStep_spec (win : List K) (ob : List (MeanVari K)) (T t : Nat) (hE : AsmEdge win ob T)
    (acc : List K × K) (hlen : win.length ≤ acc.1.length) :
    (asmWinStep T t acc (win, ob)).2 = acc.2 +
      (Finset.range T).sum (fun s => (ob.getD s ⟨0, 0⟩).vari * (ob.getD s ⟨0, 0⟩).mean * winCoef win s t) ∧
    (asmWinStep T t acc (win, ob)).1.length = acc.1.length ∧
    ∀ j, (asmWinStep T t acc (win, ob)).1.getD j 0 = acc.1.getD j 0 +
      (Finset.range T).sum (fun s => (ob.getD s ⟨0, 0⟩).vari * winCoef win s t * winCoef win s (t + j)) := by
  unfold asmWinStep
  obtain ⟨a1, a2, a3⟩ := asm_kFold_spec win ob T t hE (List.range win.length).reverse acc
    (by intro k hk; simpa using hk) hlen
  refine ⟨?_, a2, fun j => ?_⟩
  · rw [a1, asm_sum_map_range_reverse,
      asm_reindex win ob T t (fun s => (ob.getD s ⟨0, 0⟩).mean)]
    congr 1
    apply Finset.sum_congr rfl
    intro s _
    ring
  · rw [a3 j, asm_sum_map_range_reverse, ← asm_reindex win ob T t (fun s => winCoef win s (t + j))]
    congr 1
    apply Finset.sum_congr rfl
    intro k _
    unfold asmCoef
    by_cases h : k ≤ t + win.length / 2 ∧ t + win.length / 2 - k < T
    · rw [if_pos h, asm_winCoef_shift win t j k h.1]
    · rw [if_neg h, zero_mul, zero_mul]

theorem asm_fold_spec (T t : Nat) :
    ∀ (l : List (List K × List (MeanVari K))) (acc : List K × K),
    (∀ wo ∈ l, AsmEdge wo.1 wo.2 T) → (∀ wo ∈ l, wo.1.length ≤ acc.1.length) →
    (l.foldl (asmWinStep T t) acc).2 = acc.2 + (l.map fun wo =>
      (Finset.range T).sum fun s => (wo.2.getD s ⟨0, 0⟩).vari * (wo.2.getD s ⟨0, 0⟩).mean * winCoef wo.1 s t).sum ∧
    (l.foldl (asmWinStep T t) acc).1.length = acc.1.length ∧
    ∀ j, (l.foldl (asmWinStep T t) acc).1.getD j 0 = acc.1.getD j 0 + (l.map fun wo =>
      (Finset.range T).sum fun s => (wo.2.getD s ⟨0, 0⟩).vari * winCoef wo.1 s t * winCoef wo.1 s (t + j)).sum := by
  intro l
  induction l with
  | nil => intro acc _ _; simp
  | cons wo rest ih =>
    intro acc hE hlen
    obtain ⟨win, ob⟩ := wo
    obtain ⟨a1, a2, a3⟩ := asm_winStep_spec win ob T t (hE (win, ob) List.mem_cons_self) acc
      (hlen (win, ob) List.mem_cons_self)
    obtain ⟨b1, b2, b3⟩ := ih (asmWinStep T t acc (win, ob))
      (fun x hx => hE x (List.mem_cons_of_mem _ hx))
      (fun x hx => by rw [a2]; exact hlen x (List.mem_cons_of_mem _ hx))
    rw [List.foldl_cons]
    refine ⟨?_, by rw [b2, a2], fun j => ?_⟩
    · rw [b1, a1, List.map_cons, List.sum_cons, add_assoc]
    · rw [b3 j, a3 j, List.map_cons, List.sum_cons, add_assoc]

/-- **Band assembly.** Row `t` of `calc_wuw_and_wum` holds `(W'PW)[t][t+j]` for `0 ≤ j < width` (with
    `t + j < T`) and `(W'Pμ)[t]`. `width` is any bound ≥ every window's length. (The proof uses only the
    right-edge half of `EdgeZero` and neither `ht` nor `hobs`; they are kept as in the stated property.) -/
theorem wuwRow_eq (windows : List (List K)) (obs : List (List (MeanVari K))) (T width t : Nat)
    (ht : t < T) (hw : ∀ w ∈ windows, w.length ≤ width) (hobs : ∀ o ∈ obs, o.length = T)
    (hedge : EdgeZero windows obs T) :
    (wuwRow windows obs T width t).2 = wpmEntry windows obs T t ∧
    (wuwRow windows obs T width t).1.length = width ∧
    ∀ j, j < width → t + j < T → (wuwRow windows obs T width t).1.getD j 0 = wpwEntry windows obs T t (t + j) := by
  rw [asm_wuwRow_def]
  obtain ⟨a1, a2, a3⟩ := asm_fold_spec (K := K) T t (windows.zip obs) (List.replicate width 0, 0)
    (by
      intro wo hwo s hs hT
      exact hedge wo hwo s hs (Or.inr hT))
    (by
      intro wo hwo
      rw [List.length_replicate]
      exact hw wo.1 (List.of_mem_zip hwo).1)
  refine ⟨?_, ?_, fun j _ _ => ?_⟩
  · rw [a1, zero_add]; rfl
  · rw [a2, List.length_replicate]
  · have hrep : (List.replicate width (0 : K)).getD j 0 = 0 := by
      rw [List.getD_eq_getElem?_getD, List.getElem?_replicate]
      split_ifs; rfl
    rw [a3 j]
    show (List.replicate width (0 : K)).getD j 0 + _ = _
    rw [hrep, zero_add]
    rfl

end Jb
