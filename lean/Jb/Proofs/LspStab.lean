/-
  `check_lsp_stability` (`Jb/Model/Vocoder.lean`: `checkLspStability`): a vector that already satisfies
  the spacing and margin conditions is left unchanged, and whenever the loop stops because a pass found
  nothing, the result satisfies them.
-/
import Jb.Model.Vocoder
import Jb.Proofs.Cepstrum
import Mathlib.Algebra.Order.Field.Basic
import Mathlib.Tactic.Linarith

set_option linter.unusedSectionVars false

namespace Jb

variable {K : Type} [Field K] [LinearOrder K] [IsStrictOrderedRing K] [Transc K] [Consts K]

/-- minimum spacing `π / (4·len)` -/
def lspMin (n : Nat) : K := (1 / ((4 : Nat) : K)) * Consts.pi / (n : K)

/-- the condition the stability check enforces on `v = [gain, w₁ … w_m]` -/
def LspStable (v : List K) : Prop :=
  let n := v.length
  (∀ j, 1 ≤ j → j + 1 < n → ¬ (v.getD (j + 1) 0 - v.getD j 0 < lspMin n)) ∧
  (1 < n → ¬ (v.getD 1 0 < lspMin n)) ∧
  ¬ ((Consts.pi : K) - lspMin n < v.getD (n - 1) 0)

/-! ### helpers -/

/-- a left fold whose every step fixes the state `s` returns `s` -/
theorem foldl_fixed {σ β : Type} (step : σ → β → σ) (s : σ) (l : List β)
    (h : ∀ b ∈ l, step s b = s) : l.foldl step s = s := by
  induction l with
  | nil => rfl
  | cons b l ih =>
    rw [List.foldl_cons, h b (by simp)]
    exact ih (fun b' hb' => h b' (List.mem_cons_of_mem _ hb'))

/-- the outer loop stops immediately when the first pass changes nothing -/
theorem checkLspStability_go_fixed {β : Type} (pass : List β → List β × Bool) (v : List β)
    (h : pass v = (v, false)) (fuel : Nat) : checkLspStability.go pass fuel v = v := by
  cases fuel with
  | zero => rfl
  | succ fuel =>
    unfold checkLspStability.go
    simp only [h]
    rfl

/-- A vector that is already well separated is returned unchanged. -/
theorem checkLspStability_id (v : List K) (h : LspStable v) : checkLspStability v = v := by
  obtain ⟨h1, h2, h3⟩ := h
  unfold checkLspStability
  simp only []
  split
  · rfl
  · rename_i hn
    apply checkLspStability_go_fixed
    rw [foldl_fixed]
    · have c2 : ¬ (v.getD 1 0 < lspMin v.length ∧ 1 < v.length) := fun hc => h2 hc.2 hc.1
      unfold lspMin at c2 h3
      simp only [if_neg c2, if_neg h3]
    · intro j0 hj0
      rw [List.mem_range] at hj0
      have := h1 (j0 + 1) (by omega) (by omega)
      unfold lspMin at this
      simp only [if_neg this]

end Jb
