/-
  Helper lemmas for C10 / C19 about `Jb/Model/Weights.lean` over a linearly ordered field.
-/
import Jb.Model.Weights
import Mathlib.Algebra.Order.Field.Basic
import Mathlib.Tactic.Linarith
import Mathlib.Tactic.Ring
import Mathlib.Tactic.FieldSimp

set_option linter.unusedSectionVars false

namespace Jb

variable {K : Type} [Field K] [LinearOrder K] [IsStrictOrderedRing K]

/-! ### sums -/

theorem foldl_add_eq (a : K) (l : List K) : l.foldl (· + ·) a = a + l.sum := by
  induction l generalizing a with
  | nil => simp
  | cons x xs ih => simp only [List.foldl_cons, List.sum_cons, ih]; ring

/-- `sumS` (left fold from 0) is the list sum. -/
theorem sumS_eq_sum (l : List K) : sumS l = l.sum := by
  unfold sumS
  rw [foldl_add_eq]
  simp

theorem absDiffEq_iff (a b eps : K) : absDiffEq a b eps = true ↔ |a - b| ≤ eps := by
  unfold absDiffEq
  rw [decide_eq_true_iff]
  split
  · rename_i h
    rw [abs_of_pos (by linarith)]
  · rename_i h
    rw [abs_sub_comm, abs_of_nonneg (by linarith)]

theorem sum_replicate_eq (n : Nat) (a : K) : (List.replicate n a).sum = (n : K) * a := by
  induction n with
  | zero => simp
  | succ n ih => rw [List.replicate_succ, List.sum_cons, ih]; push_cast; ring

/-! ### validation -/

theorem weightsNew_ok_iff (eps : K) (w w' : List K) :
    weightsNew eps w = .ok w' ↔ w' = w ∧ |w.sum - 1| ≤ eps := by
  unfold weightsNew
  by_cases h : absDiffEq (sumS w) 1 eps = true
  · have h' := h
    rw [absDiffEq_iff, sumS_eq_sum] at h'
    rw [if_pos h]
    constructor
    · intro e; cases e; exact ⟨rfl, h'⟩
    · rintro ⟨rfl, _⟩; rfl
  · have h' := h
    rw [absDiffEq_iff, sumS_eq_sum] at h'
    rw [if_neg h]
    constructor
    · intro e; cases e
    · rintro ⟨_, h2⟩; exact absurd h2 h'

theorem weightsNew_bad_sum (eps : K) (w : List K) (h : ¬ |w.sum - 1| ≤ eps) :
    weightsNew eps w = .error .invalidSum := by
  unfold weightsNew
  rw [if_neg]
  rw [absDiffEq_iff, sumS_eq_sum]
  exact h

theorem validate_ok_iff (eps : K) (iw : IW K) (w w' : List K) :
    IW.validate eps iw w = .ok w' ↔ w' = w ∧ |w.sum - 1| ≤ eps ∧ w.length = iw.nvoices := by
  unfold IW.validate
  by_cases hs : |w.sum - 1| ≤ eps
  · have h1 : weightsNew eps w = .ok w := (weightsNew_ok_iff eps w w).mpr ⟨rfl, hs⟩
    rw [h1]
    simp only [checkLength]
    by_cases hl : w.length = iw.nvoices
    · simp only [hl, ne_eq, not_true_eq_false, if_false]
      constructor
      · intro e; cases e; exact ⟨rfl, hs, trivial⟩
      · rintro ⟨rfl, _, _⟩; rfl
    · simp only [ne_eq, hl, not_false_eq_true, if_true]
      constructor
      · intro e; cases e
      · rintro ⟨_, _, h3⟩; exact h3.elim
  · rw [weightsNew_bad_sum eps w hs]
    constructor
    · intro e; cases e
    · rintro ⟨_, h2, _⟩; exact absurd h2 hs

theorem validate_bad_sum (eps : K) (iw : IW K) (w : List K) (h : ¬ |w.sum - 1| ≤ eps) :
    IW.validate eps iw w = .error .invalidSum := by
  unfold IW.validate
  rw [weightsNew_bad_sum eps w h]

/-- `validate` either fails or returns its argument unchanged -/
theorem validate_cases (eps : K) (iw : IW K) (w : List K) :
    (∃ e, IW.validate eps iw w = .error e ∧ ¬ (|w.sum - 1| ≤ eps ∧ w.length = iw.nvoices)) ∨
    (IW.validate eps iw w = .ok w ∧ |w.sum - 1| ≤ eps ∧ w.length = iw.nvoices) := by
  cases h : IW.validate eps iw w with
  | error e =>
    left
    refine ⟨e, rfl, ?_⟩
    intro hc
    have := (validate_ok_iff eps iw w w).mpr ⟨rfl, hc.1, hc.2⟩
    rw [h] at this
    cases this
  | ok w' =>
    right
    obtain ⟨rfl, h2, h3⟩ := (validate_ok_iff eps iw w w').mp h
    exact ⟨rfl, h2, h3⟩

theorem setDuration_ok_iff' (eps : K) (iw s : IW K) (w : List K) :
    iw.setDuration eps w = .ok s ↔
      s = { iw with duration := w } ∧ |w.sum - 1| ≤ eps ∧ w.length = iw.nvoices := by
  unfold IW.setDuration
  rcases validate_cases eps iw w with ⟨e, he, hn⟩ | ⟨hv, h2, h3⟩
  · rw [he]
    constructor
    · intro x; cases x
    · rintro ⟨_, h2, h3⟩; exact absurd ⟨h2, h3⟩ hn
  · rw [hv]
    constructor
    · intro x; cases x; exact ⟨rfl, h2, h3⟩
    · rintro ⟨rfl, _, _⟩; rfl

theorem setParameter_ok_iff' (eps : K) (iw s : IW K) (i : Nat) (w : List K) :
    iw.setParameter eps i w = .ok s ↔
      s = { iw with parameter := iw.parameter.set i w } ∧ i < iw.parameter.length ∧
        |w.sum - 1| ≤ eps ∧ w.length = iw.nvoices := by
  unfold IW.setParameter
  rcases validate_cases eps iw w with ⟨e, he, hn⟩ | ⟨hv, h2, h3⟩
  · rw [he]
    constructor
    · intro x; cases x
    · rintro ⟨_, _, h2, h3⟩; exact absurd ⟨h2, h3⟩ hn
  · rw [hv]
    by_cases hi : i < iw.parameter.length
    · simp only [hi, if_true]
      constructor
      · intro x; cases x; exact ⟨rfl, trivial, h2, h3⟩
      · rintro ⟨rfl, _, _⟩; rfl
    · simp only [hi, if_false]
      constructor
      · intro x; cases x
      · rintro ⟨_, h, _⟩; exact h.elim

theorem setGv_ok_iff' (eps : K) (iw s : IW K) (i : Nat) (w : List K) :
    iw.setGv eps i w = .ok s ↔
      s = { iw with gv := iw.gv.set i w } ∧ i < iw.gv.length ∧
        |w.sum - 1| ≤ eps ∧ w.length = iw.nvoices := by
  unfold IW.setGv
  rcases validate_cases eps iw w with ⟨e, he, hn⟩ | ⟨hv, h2, h3⟩
  · rw [he]
    constructor
    · intro x; cases x
    · rintro ⟨_, _, h2, h3⟩; exact absurd ⟨h2, h3⟩ hn
  · rw [hv]
    by_cases hi : i < iw.gv.length
    · simp only [hi, if_true]
      constructor
      · intro x; cases x; exact ⟨rfl, trivial, h2, h3⟩
      · rintro ⟨rfl, _, _⟩; rfl
    · simp only [hi, if_false]
      constructor
      · intro x; cases x
      · rintro ⟨_, h, _⟩; exact h.elim

/-! ### selection after `List.set` -/

theorem getD_set_self {β : Type} (l : List β) (i : Nat) (x d : β) (hi : i < l.length) :
    (l.set i x).getD i d = x := by
  rw [List.getD_eq_getElem?_getD, List.getElem?_set_self hi]
  rfl

theorem getD_set_ne {β : Type} (l : List β) (i j : Nat) (x d : β) (hij : i ≠ j) :
    (l.set i x).getD j d = l.getD j d := by
  rw [List.getD_eq_getElem?_getD, List.getD_eq_getElem?_getD, List.getElem?_set_ne hij]

/-- frame property of one accepted update -/
theorem apply_ok_select (eps : K) (iw s : IW K) (op : IWOp K) (h : IWOp.apply eps iw op = .ok s) :
    s.select op.target = (match op with | .dur w => w | .par _ w => w | .gv _ w => w) ∧
    ∀ q, q ≠ op.target → s.select q = iw.select q := by
  cases op with
  | dur w =>
    obtain ⟨rfl, _, _⟩ := (setDuration_ok_iff' eps iw s w).mp h
    refine ⟨rfl, ?_⟩
    intro q hq
    cases q with
    | dur => exact absurd rfl hq
    | par j => rfl
    | gv j => rfl
  | par i w =>
    obtain ⟨rfl, hi, _, _⟩ := (setParameter_ok_iff' eps iw s i w).mp h
    refine ⟨getD_set_self _ _ _ _ hi, ?_⟩
    intro q hq
    cases q with
    | dur => rfl
    | par j =>
      have hij : i ≠ j := fun e => hq (by rw [e]; rfl)
      exact getD_set_ne _ _ _ _ _ hij
    | gv j => rfl
  | gv i w =>
    obtain ⟨rfl, hi, _, _⟩ := (setGv_ok_iff' eps iw s i w).mp h
    refine ⟨getD_set_self _ _ _ _ hi, ?_⟩
    intro q hq
    cases q with
    | dur => rfl
    | par j => rfl
    | gv j =>
      have hij : i ≠ j := fun e => hq (by rw [e]; rfl)
      exact getD_set_ne _ _ _ _ _ hij

/-! ### well-formedness -/

theorem apply_ok_wf (eps : K) (iw s : IW K) (op : IWOp K) (ns : Nat) (hwf : iw.WF ns)
    (h : IWOp.apply eps iw op = .ok s) : s.WF ns := by
  obtain ⟨h1, h2, h3, h4, h5⟩ := hwf
  cases op with
  | dur w =>
    obtain ⟨rfl, _, hl⟩ := (setDuration_ok_iff' eps iw s w).mp h
    exact ⟨hl, h2, h3, h4, h5⟩
  | par i w =>
    obtain ⟨rfl, hi, _, hl⟩ := (setParameter_ok_iff' eps iw s i w).mp h
    refine ⟨h1, by simpa using h2, h3, ?_, h5⟩
    intro l hl'
    rcases List.mem_or_eq_of_mem_set hl' with hm | rfl
    · exact h4 l hm
    · exact hl
  | gv i w =>
    obtain ⟨rfl, hi, _, hl⟩ := (setGv_ok_iff' eps iw s i w).mp h
    refine ⟨h1, h2, by simpa using h3, h4, ?_⟩
    intro l hl'
    rcases List.mem_or_eq_of_mem_set hl' with hm | rfl
    · exact h5 l hm
    · exact hl

theorem applyIWHistory_nil (eps : K) (iw : IW K) : applyIWHistory eps iw [] = iw := rfl

theorem applyIWHistory_cons (eps : K) (iw : IW K) (op : IWOp K) (ops : List (IWOp K)) :
    applyIWHistory eps iw (op :: ops) =
      applyIWHistory eps (match IWOp.apply eps iw op with | .ok s' => s' | _ => iw) ops := rfl

theorem applyIWHistory_append (eps : K) (iw : IW K) (ops₁ ops₂ : List (IWOp K)) :
    applyIWHistory eps iw (ops₁ ++ ops₂) = applyIWHistory eps (applyIWHistory eps iw ops₁) ops₂ := by
  unfold applyIWHistory
  rw [List.foldl_append]

/-! ### voiceSetNew -/

theorem zip_all_eq {S : Type} [DecidableEq S] (f : S × S → Bool)
    (hf : ∀ a b, f (a, b) = decide (a = b)) :
    ∀ (l1 l2 : List S), l1.length = l2.length → ((l1.zip l2).all f = true ↔ l1 = l2)
  | [], [], _ => by simp
  | [], _ :: _, h => by simp at h
  | _ :: _, [], h => by simp at h
  | a :: l1, b :: l2, h => by
    have ih := zip_all_eq f hf l1 l2 (by simpa using h)
    simp [List.zip_cons_cons, List.all_cons, hf, ih]

theorem voiceSetNew_cond_iff {G S : Type} [DecidableEq G] [DecidableEq S]
    (first : G × List S) (rest : List (G × List S)) :
    rest.all (fun v => decide (v.1 = first.1) && decide (v.2.length = first.2.length) &&
        (v.2.zip first.2).all (fun (a, b) => decide (a = b))) = true ↔ ∀ v ∈ rest, v = first := by
  rw [List.all_eq_true]
  constructor
  · intro h v hv
    have := h v hv
    simp only [Bool.and_eq_true, decide_eq_true_eq] at this
    obtain ⟨⟨h1, h2⟩, h3⟩ := this
    exact Prod.ext h1 ((zip_all_eq _ (fun _ _ => rfl) _ _ h2).mp h3)
  · intro h v hv
    rw [h v hv]
    simp only [decide_true, Bool.true_and]
    exact (zip_all_eq _ (fun _ _ => rfl) _ _ rfl).mpr rfl

theorem voiceSetNew_cons {G S : Type} [DecidableEq G] [DecidableEq S]
    (first : G × List S) (rest : List (G × List S)) :
    voiceSetNew (first :: rest) =
      if rest.all (fun v => decide (v.1 = first.1) && decide (v.2.length = first.2.length) &&
        (v.2.zip first.2).all (fun (a, b) => decide (a = b))) = true
      then .ok () else .error .metadataError := rfl

theorem voiceSetNew_cons_ok_iff {G S : Type} [DecidableEq G] [DecidableEq S]
    (first : G × List S) (rest : List (G × List S)) :
    voiceSetNew (first :: rest) = .ok () ↔ ∀ v ∈ rest, v = first := by
  rw [voiceSetNew_cons, ← voiceSetNew_cond_iff]
  split
  · rename_i h; exact ⟨fun _ => h, fun _ => rfl⟩
  · rename_i h; exact ⟨fun e => (by cases e), fun h' => absurd h' h⟩

theorem voiceSetNew_cons_bad {G S : Type} [DecidableEq G] [DecidableEq S]
    (first : G × List S) (rest : List (G × List S)) (h : ¬ ∀ v ∈ rest, v = first) :
    voiceSetNew (first :: rest) = .error .metadataError := by
  rw [voiceSetNew_cons, if_neg]
  rw [voiceSetNew_cond_iff]
  exact h

/-! ### weighted average -/

namespace ModelParameter

theorem zipAdd_length (as bs : List (MeanVari K)) (w : K) :
    (zipAdd as w bs).length = as.length := by
  induction as generalizing bs with
  | nil => cases bs <;> rfl
  | cons a as ih =>
    cases bs with
    | nil => rfl
    | cons b bs => simp [zipAdd, ih]

theorem zipAdd_getD (as bs : List (MeanVari K)) (w : K) (h : as.length = bs.length) (j : Nat) :
    ((zipAdd as w bs).getD j ⟨0, 0⟩).mean =
        (as.getD j ⟨0, 0⟩).mean + w * (bs.getD j ⟨0, 0⟩).mean ∧
    ((zipAdd as w bs).getD j ⟨0, 0⟩).vari =
        (as.getD j ⟨0, 0⟩).vari + w * (bs.getD j ⟨0, 0⟩).vari := by
  induction as generalizing bs j with
  | nil =>
    cases bs with
    | nil => simp [zipAdd]
    | cons b bs => simp at h
  | cons a as ih =>
    cases bs with
    | nil => simp at h
    | cons b bs =>
      cases j with
      | zero => simp [zipAdd]
      | succ j =>
        have := ih bs (by simpa using h) j
        simpa [zipAdd] using this

theorem zipAdd_zero (as bs : List (MeanVari K)) : zipAdd as 0 bs = as := by
  induction as generalizing bs with
  | nil => cases bs <;> rfl
  | cons a as ih =>
    cases bs with
    | nil => rfl
    | cons b bs => simp [zipAdd, ih]

theorem mulAddAssign_zero (acc q : ModelParameter K) : acc.mulAddAssign 0 q = acc := by
  obtain ⟨ap, am⟩ := acc
  obtain ⟨qp, qm⟩ := q
  unfold mulAddAssign
  simp only [zipAdd_zero]
  cases am <;> cases qm <;> simp

theorem mul_one (p : ModelParameter K) : p.mul 1 = p := by
  obtain ⟨pp, pm⟩ := p
  unfold mul
  have h1 : (pp.map fun mv => (⟨mv.mean * 1, mv.vari * 1⟩ : MeanVari K)) = pp := by
    induction pp with
    | nil => rfl
    | cons a as ih => simp
  have h2 : (pm.map fun m => 1 * m) = pm := by cases pm <;> simp
  simp only [h1, h2]

theorem zipAdd_mul (qs : List (MeanVari K)) (c w : K) :
    zipAdd (qs.map fun mv => (⟨mv.mean * c, mv.vari * c⟩ : MeanVari K)) w qs =
      qs.map fun mv => (⟨mv.mean * (c + w), mv.vari * (c + w)⟩ : MeanVari K) := by
  induction qs with
  | nil => rfl
  | cons a as ih =>
    simp only [List.map_cons, zipAdd, ih]
    congr 2 <;> ring

theorem mul_mulAddAssign (q : ModelParameter K) (c w : K) :
    (q.mul c).mulAddAssign w q = q.mul (c + w) := by
  obtain ⟨qp, qm⟩ := q
  unfold mulAddAssign mul
  simp only [zipAdd_mul]
  cases qm with
  | none => rfl
  | some m =>
    simp only [Option.map_some]
    congr 2
    ring

theorem mul_length (p : ModelParameter K) (w : K) :
    (p.mul w).parameters.length = p.parameters.length := by
  simp [mul]

theorem mul_getD (p : ModelParameter K) (w : K) (j : Nat) :
    (((p.mul w).parameters.getD j ⟨0, 0⟩).mean = w * (p.parameters.getD j ⟨0, 0⟩).mean) ∧
    (((p.mul w).parameters.getD j ⟨0, 0⟩).vari = w * (p.parameters.getD j ⟨0, 0⟩).vari) := by
  simp only [mul, List.getD_eq_getElem?_getD, List.getElem?_map]
  cases p.parameters[j]? with
  | none => simp
  | some a => simp [mul_comm]

end ModelParameter

open ModelParameter in
/-- the fold of `weighted`, Gaussian part -/
theorem fold_parameters (f : ModelParameter K → ModelParameter K × K → ModelParameter K)
    (hf : ∀ acc q wq, f acc (q, wq) = acc.mulAddAssign wq q) (n : Nat)
    (prest : List (ModelParameter K)) (wrest : List K) (acc : ModelParameter K)
    (hacc : acc.parameters.length = n) (hu : ∀ p ∈ prest, p.parameters.length = n) :
    ((prest.zip wrest).foldl f acc).parameters.length = n ∧
    ∀ j,
      ((((prest.zip wrest).foldl f acc).parameters.getD j ⟨0, 0⟩).mean =
        (acc.parameters.getD j ⟨0, 0⟩).mean +
          ((wrest.zip prest).map fun x => x.1 * (x.2.parameters.getD j ⟨0, 0⟩).mean).sum) ∧
      ((((prest.zip wrest).foldl f acc).parameters.getD j ⟨0, 0⟩).vari =
        (acc.parameters.getD j ⟨0, 0⟩).vari +
          ((wrest.zip prest).map fun x => x.1 * (x.2.parameters.getD j ⟨0, 0⟩).vari).sum) := by
  induction prest generalizing wrest acc with
  | nil => simp [hacc]
  | cons p prest ih =>
    cases wrest with
    | nil => simp [hacc]
    | cons w wrest =>
      have hp : p.parameters.length = n := hu p (by simp)
      have hacc' : (acc.mulAddAssign w p).parameters.length = n := by
        simp [mulAddAssign, zipAdd_length, hacc]
      obtain ⟨ih1, ih2⟩ := ih wrest (acc.mulAddAssign w p) hacc'
        (fun p' hp' => hu p' (List.mem_cons_of_mem _ hp'))
      simp only [List.zip_cons_cons, List.foldl_cons, hf]
      refine ⟨ih1, ?_⟩
      intro j
      obtain ⟨e1, e2⟩ := ih2 j
      obtain ⟨z1, z2⟩ := zipAdd_getD acc.parameters p.parameters w (by rw [hacc, hp]) j
      rw [e1, e2]
      simp only [mulAddAssign, List.map_cons, List.sum_cons, z1, z2]
      constructor <;> ring

open ModelParameter in
/-- the fold of `weighted`, voicing-weight part -/
theorem fold_msd (f : ModelParameter K → ModelParameter K × K → ModelParameter K)
    (hf : ∀ acc q wq, f acc (q, wq) = acc.mulAddAssign wq q)
    (prest : List (ModelParameter K)) (wrest mrest : List K) (acc : ModelParameter K) (a : K)
    (hacc : acc.msd = some a) (hm : prest.map (·.msd) = mrest.map some) :
    ((prest.zip wrest).foldl f acc).msd =
      some (a + ((wrest.zip mrest).map fun x => x.1 * x.2).sum) := by
  induction prest generalizing wrest mrest acc a with
  | nil =>
    cases mrest with
    | nil => simp [hacc]
    | cons m mrest => simp at hm
  | cons p prest ih =>
    cases mrest with
    | nil => simp at hm
    | cons m mrest =>
      simp only [List.map_cons, List.cons.injEq] at hm
      obtain ⟨hm1, hm2⟩ := hm
      cases wrest with
      | nil => simp [hacc]
      | cons w wrest =>
        have hacc' : (acc.mulAddAssign w p).msd = some (a + w * m) := by
          simp [mulAddAssign, hacc, hm1]
        simp only [List.zip_cons_cons, List.foldl_cons, hf, List.map_cons, List.sum_cons]
        rw [ih wrest mrest _ _ hacc' hm2]
        congr 1
        ring

open ModelParameter in
theorem fold_zero (f : ModelParameter K → ModelParameter K × K → ModelParameter K)
    (hf : ∀ acc q wq, f acc (q, wq) = acc.mulAddAssign wq q)
    (ps : List (ModelParameter K)) (acc : ModelParameter K) :
    ((ps.zip (List.replicate ps.length (0 : K))).foldl f acc) = acc := by
  induction ps with
  | nil => rfl
  | cons p ps ih =>
    simp only [List.length_cons, List.replicate_succ, List.zip_cons_cons, List.foldl_cons, hf,
      mulAddAssign_zero]
    exact ih

open ModelParameter in
theorem fold_identical (f : ModelParameter K → ModelParameter K × K → ModelParameter K)
    (hf : ∀ acc q wq, f acc (q, wq) = acc.mulAddAssign wq q)
    (q : ModelParameter K) (wrest : List K) (c : K) :
    (((List.replicate wrest.length q).zip wrest).foldl f (q.mul c)) = q.mul (c + wrest.sum) := by
  induction wrest generalizing c with
  | nil => simp
  | cons w wrest ih =>
    simp only [List.length_cons, List.replicate_succ, List.zip_cons_cons, List.foldl_cons, hf,
      mul_mulAddAssign, List.sum_cons]
    rw [ih, add_assoc]

end Jb
