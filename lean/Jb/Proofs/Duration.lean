/-
  Helper lemmas about `Jb/Model/Duration.lean` over a linearly ordered floor field.
-/
import Jb.Model.Duration
import Jb.Proofs.Field
import Mathlib.Tactic.Linarith
import Mathlib.Tactic.Ring

set_option linter.unusedSectionVars false

namespace Jb

section Generic
variable {α : Type} [LT α] [DecidableLT α]

theorem argminFirst_go_nil_left (i : Nat) (oks : List Bool) (best : Option (Nat × α)) :
    argminFirst.go i ([] : List α) oks best = best := by
  unfold argminFirst.go; rfl

theorem argminFirst_go_nil_right (i : Nat) (cs : List α) (best : Option (Nat × α)) :
    argminFirst.go i cs [] best = best := by
  unfold argminFirst.go; cases cs <;> rfl

theorem argminFirst_go_cons (i : Nat) (c : α) (cs : List α) (o : Bool) (oks : List Bool)
    (best : Option (Nat × α)) :
    argminFirst.go i (c :: cs) (o :: oks) best =
      argminFirst.go (i + 1) cs oks
        (if o then
          match best with
          | none => some (i, c)
          | some (_, bc) => if c < bc then some (i, c) else best
        else best) := by
  conv_lhs => unfold argminFirst.go
  rfl


theorem argminFirst_go_isSome_of_best (cs : List α) :
    ∀ (oks : List Bool) (i : Nat) (best : Option (Nat × α)),
      best.isSome → (argminFirst.go i cs oks best).isSome := by
  induction cs with
  | nil => intro oks i best h; rwa [argminFirst_go_nil_left]
  | cons c cs ih =>
    intro oks i best h
    cases oks with
    | nil => rwa [argminFirst_go_nil_right]
    | cons o oks =>
      rw [argminFirst_go_cons]
      apply ih
      obtain ⟨⟨bi, bc⟩, rfl⟩ := Option.isSome_iff_exists.mp h
      cases o
      · simp
      · simp only [if_true]
        split_ifs <;> simp

theorem argminFirst_go_isSome_of_mem (cs : List α) :
    ∀ (oks : List Bool) (i : Nat) (best : Option (Nat × α)),
      cs.length = oks.length → true ∈ oks → (argminFirst.go i cs oks best).isSome := by
  induction cs with
  | nil =>
    intro oks i best hl hm
    cases oks with
    | nil => simp at hm
    | cons o oks => simp at hl
  | cons c cs ih =>
    intro oks i best hl hm
    cases oks with
    | nil => simp at hm
    | cons o oks =>
      rw [argminFirst_go_cons]
      cases o with
      | true =>
        apply argminFirst_go_isSome_of_best
        simp only [if_true]
        cases best with
        | none => simp
        | some b => obtain ⟨bi, bc⟩ := b; simp only; split_ifs <;> simp
      | false =>
        simp only [Bool.false_eq_true, if_false]
        apply ih
        · simpa using hl
        · simpa using hm

theorem argminFirst_go_index (cs : List α) :
    ∀ (oks : List Bool) (i : Nat) (best : Option (Nat × α)) (r : Nat × α),
      argminFirst.go i cs oks best = some r →
        best = some r ∨ ∃ j, j < cs.length ∧ oks[j]? = some true ∧ r.1 = i + j := by
  induction cs with
  | nil => intro oks i best r h; rw [argminFirst_go_nil_left] at h; exact Or.inl h
  | cons c cs ih =>
    intro oks i best r h
    cases oks with
    | nil => rw [argminFirst_go_nil_right] at h; exact Or.inl h
    | cons o oks =>
      rw [argminFirst_go_cons] at h
      rcases ih _ _ _ _ h with h' | ⟨j, hj, hoj, hr⟩
      · cases o with
        | false => exact Or.inl (by simpa using h')
        | true =>
          simp only [if_true] at h'
          have h0 : ∃ j, j < (c :: cs).length ∧ (true :: oks)[j]? = some true ∧ (i, c).1 = i + j :=
            ⟨0, by simp, by simp, by simp⟩
          cases best with
          | none =>
            simp only [Option.some.injEq] at h'
            subst h'; exact Or.inr h0
          | some b =>
            obtain ⟨bi, bc⟩ := b
            simp only at h'
            split_ifs at h' with hc
            · simp only [Option.some.injEq] at h'
              subst h'; exact Or.inr h0
            · exact Or.inl h'
      · refine Or.inr ⟨j + 1, by simpa using hj, by simpa using hoj, by omega⟩

theorem argminFirst_some (costs : List α) (ok : List Bool) (i : Nat)
    (h : argminFirst costs ok = some i) : i < costs.length ∧ ok[i]? = some true := by
  unfold argminFirst at h
  simp only [Option.map_eq_some_iff] at h
  obtain ⟨r, hr, rfl⟩ := h
  rcases argminFirst_go_index _ _ _ _ _ hr with h' | ⟨j, hj, hoj, hrj⟩
  · simp at h'
  · rw [hrj]; simpa using ⟨hj, hoj⟩

theorem argminFirst_isSome (costs : List α) (ok : List Bool) (hl : costs.length = ok.length)
    (hm : true ∈ ok) : ∃ i, argminFirst costs ok = some i := by
  have := argminFirst_go_isSome_of_mem costs ok 0 none hl hm
  obtain ⟨r, hr⟩ := Option.isSome_iff_exists.mp this
  exact ⟨r.1, by unfold argminFirst; simp [hr]⟩

end Generic

/-! ### `listModify` -/

theorem length_listModify (l : List Nat) : ∀ (i : Nat) (f : Nat → Nat),
    (listModify l i f).length = l.length := by
  induction l with
  | nil => intro i f; simp [listModify]
  | cons x xs ih =>
    intro i f
    cases i with
    | zero => simp [listModify]
    | succ i => simp [listModify, ih]

theorem sum_listModify_succ (l : List Nat) : ∀ (i : Nat), i < l.length →
    (listModify l i (· + 1)).sum = l.sum + 1 := by
  induction l with
  | nil => intro i h; simp at h
  | cons x xs ih =>
    intro i h
    cases i with
    | zero => simp [listModify]; omega
    | succ i =>
      have := ih i (by simpa using h)
      simp [listModify, this]; omega

theorem mem_listModify_succ (l : List Nat) : ∀ (i : Nat), (∀ x ∈ l, 1 ≤ x) →
    ∀ x ∈ listModify l i (· + 1), 1 ≤ x := by
  induction l with
  | nil => intro i h x hx; simp [listModify] at hx
  | cons y ys ih =>
    intro i h x hx
    cases i with
    | zero =>
      simp only [listModify, List.mem_cons] at hx
      rcases hx with rfl | hx
      · omega
      · exact h x (by simp [hx])
    | succ i =>
      simp only [listModify, List.mem_cons] at hx
      rcases hx with rfl | hx
      · exact h x (by simp)
      · exact ih i (fun z hz => h z (by simp [hz])) x hx

theorem sum_listModify_pred (l : List Nat) : ∀ (i : Nat),
    (l.map fun d => decide (1 < d))[i]? = some true →
    (listModify l i (· - 1)).sum + 1 = l.sum := by
  induction l with
  | nil => intro i h; simp at h
  | cons x xs ih =>
    intro i h
    cases i with
    | zero =>
      simp at h
      simp [listModify]; omega
    | succ i =>
      have := ih i (by simpa using h)
      simp [listModify]; omega

theorem mem_listModify_pred (l : List Nat) : ∀ (i : Nat),
    (l.map fun d => decide (1 < d))[i]? = some true → (∀ x ∈ l, 1 ≤ x) →
    ∀ x ∈ listModify l i (· - 1), 1 ≤ x := by
  induction l with
  | nil => intro i _ h x hx; simp [listModify] at hx
  | cons y ys ih =>
    intro i hi h x hx
    cases i with
    | zero =>
      simp at hi
      simp only [listModify, List.mem_cons] at hx
      rcases hx with rfl | hx
      · omega
      · exact h x (by simp [hx])
    | succ i =>
      simp only [listModify, List.mem_cons] at hx
      rcases hx with rfl | hx
      · exact h x (by simp)
      · exact ih i (by simpa using hi) (fun z hz => h z (by simp [hz])) x hx

/-- pigeonhole: entries ≥ 1 summing to more than the length ⇒ some entry ≥ 2. -/
theorem exists_gt_one_of_length_lt_sum (l : List Nat) (h1 : ∀ x ∈ l, 1 ≤ x)
    (h : l.length < l.sum) : true ∈ l.map fun d => decide (1 < d) := by
  induction l with
  | nil => simp at h
  | cons x xs ih =>
    by_cases hx : 1 < x
    · simp [hx]
    · have hx1 : x = 1 := by have := h1 x (by simp); omega
      have : true ∈ xs.map fun d => decide (1 < d) := by
        apply ih (fun z hz => h1 z (by simp [hz]))
        simp [hx1] at h; omega
      simp only [List.map_cons, List.mem_cons]
      exact Or.inr this

variable {K : Type} [Field K] [LinearOrder K] [IsStrictOrderedRing K] [FloorRing K]

theorem greedyLoop_spec (ps : List (MeanVari K)) (rho : K) (target : Nat) (hne : ps ≠ [])
    (hlt : ps.length < target) :
    ∀ (fuel : Nat) (dur : List Nat) (sum : Nat), dur.sum = sum → dur.length = ps.length →
      (∀ x ∈ dur, 1 ≤ x) → target ≤ sum + fuel → sum ≤ target + fuel →
      ∃ d, greedyLoop ps rho target fuel dur sum = .ok (some d) ∧ d.sum = target ∧
        d.length = ps.length ∧ ∀ x ∈ d, 1 ≤ x := by
  intro fuel
  induction fuel with
  | zero =>
    intro dur sum hs hl h1 ha hb
    have : target = sum := by omega
    exact ⟨dur, by simp [greedyLoop, this], by omega, hl, h1⟩
  | succ fuel ih =>
    intro dur sum hs hl h1 ha hb
    rw [greedyLoop]
    by_cases ht : target = sum
    · rw [if_pos ht]; exact ⟨dur, rfl, by omega, hl, h1⟩
    · rw [if_neg ht]
      by_cases hlt' : sum < target
      · rw [if_pos hlt']
        dsimp only
        generalize hcs : List.map _ (dur.zip ps) = costs
        have hcl : costs.length = (List.map (fun _ => true) dur).length := by
          rw [← hcs]; simp [hl]
        have hdne : dur ≠ [] := by
          intro h; apply hne; rw [h] at hl; exact List.length_eq_zero_iff.mp hl.symm
        have hm : true ∈ List.map (fun _ => true) dur := by
          cases dur with
          | nil => exact absurd rfl hdne
          | cons x xs => simp
        obtain ⟨i, hi⟩ := argminFirst_isSome costs _ hcl hm
        rw [hi]
        have hil : i < dur.length := by
          have := (argminFirst_some _ _ _ hi).1
          rw [hcl] at this; simpa using this
        exact ih _ _ (by rw [sum_listModify_succ _ _ hil, hs]) (by rw [length_listModify, hl])
          (mem_listModify_succ _ _ h1) (by omega) (by omega)
      · rw [if_neg hlt']
        dsimp only
        generalize hcs : List.map _ (dur.zip ps) = costs
        have hcl : costs.length = (List.map (fun d => decide (1 < d)) dur).length := by
          rw [← hcs]; simp [hl]
        have hm : true ∈ List.map (fun d => decide (1 < d)) dur :=
          exists_gt_one_of_length_lt_sum dur h1 (by omega)
        obtain ⟨i, hi⟩ := argminFirst_isSome costs _ hcl hm
        rw [hi]
        have hio := (argminFirst_some _ _ _ hi).2
        have hsum := sum_listModify_pred _ _ hio
        exact ih _ _ (by omega) (by rw [length_listModify, hl])
          (mem_listModify_pred _ _ hio h1) (by omega) (by omega)

theorem estimateDuration_length (ps : List (MeanVari K)) (rho : K) :
    (estimateDuration ps rho).length = ps.length := by
  simp [estimateDuration]

theorem estimateDuration_pos (ps : List (MeanVari K)) (rho : K) :
    ∀ x ∈ estimateDuration ps rho, 1 ≤ x := by
  intro x hx
  simp only [estimateDuration, List.mem_map] at hx
  obtain ⟨p, _, rfl⟩ := hx
  exact roundMax1_pos _

/-- Everything the callers need about `estimate_duration_with_frame_length`. -/
theorem estimateWithFrameLength_spec (ps : List (MeanVari K)) (x : K) :
    ∃ d, estimateWithFrameLength ps x = .ok d ∧ d.length = ps.length ∧ (∀ y ∈ d, 1 ≤ y) ∧
      (RoundNat.roundMax1 x ≤ ps.length → d = List.replicate ps.length 1) ∧
      (ps ≠ [] → ps.length < RoundNat.roundMax1 x → d.sum = RoundNat.roundMax1 x) := by
  unfold estimateWithFrameLength
  dsimp only
  by_cases h : RoundNat.roundMax1 x ≤ ps.length
  · rw [if_pos h]
    exact ⟨_, rfl, by simp, by simp, fun _ => rfl, fun _ h' => by omega⟩
  · rw [if_neg h]
    by_cases hps : ps = []
    · subst hps
      refine ⟨[], by simp [estimateDuration], rfl, by simp, fun h' => absurd h' h, fun h' => absurd rfl h'⟩
    · generalize hrho : ((RoundNat.roundMax1 x : K) - (sumMeanVari ps).mean) / (sumMeanVari ps).vari = rho
      have hemp : (estimateDuration ps rho).isEmpty = false := by
        cases ps with
        | nil => exact absurd rfl hps
        | cons p ps => simp [estimateDuration]
      rw [hemp]
      simp only [Bool.false_eq_true, if_false]
      obtain ⟨d, hd, hsum, hlen, hpos⟩ := greedyLoop_spec ps rho (RoundNat.roundMax1 x) hps
        (by omega)
        (if (estimateDuration ps rho).sum < RoundNat.roundMax1 x
          then RoundNat.roundMax1 x - (estimateDuration ps rho).sum
          else (estimateDuration ps rho).sum - RoundNat.roundMax1 x)
        (estimateDuration ps rho) _ rfl (estimateDuration_length ps rho)
        (estimateDuration_pos ps rho) (by split_ifs <;> omega) (by split_ifs <;> omega)
      rw [hd]
      exact ⟨d, rfl, hlen, hpos, fun h' => absurd h' h, fun _ _ => hsum⟩

theorem durationCreate_one (ps : List (MeanVari K)) :
    durationCreate ps 1 true = .ok (ps.map fun p => max 1 ⌊p.mean + 1 / 2⌋₊) := by
  simp [durationCreate, estimateDuration, roundMax1_def]

theorem durationCreate_nil (s : K) (b : Bool) :
    durationCreate ([] : List (MeanVari K)) s b = .ok [] := by
  cases b with
  | true => simp [durationCreate, estimateDuration]
  | false =>
    obtain ⟨d, hd, hl, -⟩ := estimateWithFrameLength_spec ([] : List (MeanVari K))
      (((estimateDuration ([] : List (MeanVari K)) 0).sum : K) / s)
    have : d = [] := List.length_eq_zero_iff.mp hl
    subst this
    simpa [durationCreate] using hd

theorem durationCreate_ok (ps : List (MeanVari K)) (s : K) (b : Bool) :
    ∃ d, durationCreate ps s b = .ok d := by
  cases b with
  | true => exact ⟨estimateDuration ps 0, by simp [durationCreate]⟩
  | false =>
    obtain ⟨d, hd, -⟩ := estimateWithFrameLength_spec ps
      (((estimateDuration ps 0).sum : K) / s)
    exact ⟨d, by simpa [durationCreate] using hd⟩

theorem durationCreate_shape (ps : List (MeanVari K)) (s : K) (b : Bool) (d : List Nat)
    (h : durationCreate ps s b = .ok d) : d.length = ps.length ∧ ∀ x ∈ d, 1 ≤ x := by
  cases b with
  | true =>
    simp only [durationCreate, if_true, Outcome.ok.injEq] at h
    subst h
    exact ⟨estimateDuration_length ps 0, estimateDuration_pos ps 0⟩
  | false =>
    obtain ⟨d', hd, hl, hp, -⟩ := estimateWithFrameLength_spec ps
      (((estimateDuration ps 0).sum : K) / s)
    simp only [durationCreate, Bool.false_eq_true, if_false] at h
    rw [hd, Outcome.ok.injEq] at h
    subst h
    exact ⟨hl, hp⟩

theorem durationCreate_sum (ps : List (MeanVari K)) (s : K) (d : List Nat) (hne : ps ≠ [])
    (h : durationCreate ps s false = .ok d) :
    d.sum = max (RoundNat.roundMax1 (((estimateDuration ps (0 : K)).sum : K) / s)) ps.length := by
  obtain ⟨d', hd, hl, hp, hle, hgt⟩ := estimateWithFrameLength_spec ps
    (((estimateDuration ps 0).sum : K) / s)
  simp only [durationCreate, Bool.false_eq_true, if_false] at h
  rw [hd, Outcome.ok.injEq] at h
  subst h
  by_cases hc : RoundNat.roundMax1 (((estimateDuration ps (0 : K)).sum : K) / s) ≤ ps.length
  · rw [hle hc, max_eq_right hc]; simp
  · rw [hgt hne (by omega), max_eq_left (by omega)]

end Jb
