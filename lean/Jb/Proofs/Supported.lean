/-
  From "the reader accepted the file" to `Synth.VoicesWF`, by a COMPUTABLE check, and the capstone from bytes to waveform.

  The check is `Jb/Model/Supported.lean` (`treeOk`, `modelOk`, `supportedVoice`, `compatibleVoice`: plain `Bool` functions,
  no Mathlib, linked into the driver).  It covers exactly what the reader does not check (ParseShape.lean N1..N7: window
  count vs `NUM_WINDOWS`, zero header numbers, leaf ids vs PDF counts, cyclic / empty trees, missing states, empty PDF lists).

  Proved here (all statements as requested; none turned out false of the model, nothing was added to `supportedVoice`):
    1. `Hts.treeOk_treeWF`   : `treeOk n t = true → TreeWF t ∧ t.rows ≠ [] ∧ ∀ r ∈ t.rows, ∀ k, (r.yes = .pdf k ∨ r.no = .pdf k) → 1 ≤ k ∧ k ≤ n`
    2. `Hts.modelOk_total`   : every tree converts + `modelOk states m` ⇒ `getParameter m k label` is `some _` for every
                               `k ∈ states` and every label.  (The hypothesis `m.pdfs.length = m.trees.length` is kept in the
                               statement but NOT used: `modelOk` itself checks that `m.pdfs[ti]?` exists.)
    3. `Synth.accepted_supported_voicesWF` : accepted ∧ `supportedVoice` ∧ `compatibleVoice v0 ·` for every voice, one weight
                               per voice ⇒ `VoicesWF voices iw`.  The acceptance hypothesis is used for: every tree converts
                               (`parseVoice_*_shape`), PDF widths (`selected_shape`: `nstates`, `veclen × NUM_WINDOWS`), and
                               "`USE_GV` ⇒ a GV model was read".  `supportedVoice` supplies the rest; `#windows ≤ NUM_WINDOWS`
                               turns the announced PDF width into `HeadWF.streamShape`.
    4. `Synth.bytes_synth_total` : the capstone (3 + `synthesize_total` + `length_le_sum`).
    5. `SupportedEx.ok_accepted` / `ok_supported` / `ok_compatible` : a complete file image `okBytes` (one state; spectrum
                               stream of order 2 with a question and a two-row tree, three PDFs; MSD log-F0 stream with a GV
                               model) is accepted by `parseVoice true` (kernel evaluation) and passes the check;
       `Synth.okBytes_synth_total` : hence the capstone applies to that file;
       `SupportedEx.ex_not_supported`, `ex_trees_rejected` : the accepted-but-broken `ParseShapeEx.exVoice` fails the check
                               (cyclic tree, empty tree, leaf id 7 of 1 PDF, missing state 3).
-/
import Jb.Model.Supported
import Jb.Proofs.SynthTotal
import Jb.Proofs.ParseShape

set_option linter.unusedSectionVars false
set_option linter.unusedVariables false

namespace Jb.Hts

/-! ### 1. `treeOk` gives `TreeWF`, a row, and leaf ids within the PDF list -/

theorem any_id_getElem (rows : List Row) (id : Int) (h : rows.any (fun r => r.id == id) = true) :
    ∃ j : Nat, (rows[j]?).map (fun (x : Row) => x.id) = some id := by
  rw [List.any_eq_true] at h
  obtain ⟨r, hr, hid⟩ := h
  obtain ⟨j, hj, rfl⟩ := List.mem_iff_getElem.1 hr
  exact ⟨j, by rw [List.getElem?_eq_getElem hj]; simpa using hid⟩

theorem childOk_spec (n : Nat) (later : List Row) (c : Child) (h : childOk n later c = true) :
    (∀ id, c = .node id → ∃ j : Nat, (later[j]?).map (fun (x : Row) => x.id) = some id) ∧
    (∀ k, c = .pdf k → 1 ≤ k ∧ k ≤ n) := by
  cases c with
  | node id =>
    refine ⟨?_, by intro k hk; cases hk⟩
    intro id' hid
    cases hid
    exact any_id_getElem later id h
  | pdf k =>
    refine ⟨(by intro id hid; cases hid), ?_⟩
    intro k' hk
    cases hk
    simpa [childOk] using h

theorem rowsOk_spec (n : Nat) (rows : List Row) (h : rowsOk n rows = true) :
    (rows.map (fun (x : Row) => x.id)).Nodup ∧
    (∀ (i : Nat) (r : Row), rows[i]? = some r →
      (∀ id, r.yes = .node id → ∃ j : Nat, i < j ∧ (rows[j]?).map (fun (x : Row) => x.id) = some id) ∧
      (∀ id, r.no = .node id → ∃ j : Nat, i < j ∧ (rows[j]?).map (fun (x : Row) => x.id) = some id)) ∧
    (∀ r ∈ rows, ∀ k, (r.yes = .pdf k ∨ r.no = .pdf k) → 1 ≤ k ∧ k ≤ n) := by
  induction rows with
  | nil =>
    refine ⟨by simp, ?_, by simp⟩
    intro i r hr
    simp at hr
  | cons r0 rest ih =>
    simp only [rowsOk, Bool.and_eq_true, Bool.not_eq_true'] at h
    obtain ⟨⟨⟨hid, hy⟩, hn⟩, hrest⟩ := h
    obtain ⟨ih1, ih2, ih3⟩ := ih hrest
    obtain ⟨hy1, hy2⟩ := childOk_spec n rest r0.yes hy
    obtain ⟨hn1, hn2⟩ := childOk_spec n rest r0.no hn
    refine ⟨?_, ?_, ?_⟩
    · rw [List.map_cons, List.nodup_cons]
      refine ⟨?_, ih1⟩
      intro hmem
      obtain ⟨r', hr', hidr⟩ := List.mem_map.1 hmem
      have : rest.any (fun r' => r'.id == r0.id) = true := by
        rw [List.any_eq_true]
        exact ⟨r', hr', by simpa using hidr⟩
      rw [hid] at this
      cases this
    · intro i r hr
      cases i with
      | zero =>
        simp only [List.getElem?_cons_zero, Option.some.injEq] at hr
        subst hr
        refine ⟨?_, ?_⟩
        · intro id hc
          obtain ⟨j, hj⟩ := hy1 id hc
          exact ⟨j + 1, by omega, by simpa using hj⟩
        · intro id hc
          obtain ⟨j, hj⟩ := hn1 id hc
          exact ⟨j + 1, by omega, by simpa using hj⟩
      | succ i =>
        simp only [List.getElem?_cons_succ] at hr
        obtain ⟨a, b⟩ := ih2 i r hr
        refine ⟨?_, ?_⟩
        · intro id hc
          obtain ⟨j, hij, hj⟩ := a id hc
          exact ⟨j + 1, by omega, by simpa using hj⟩
        · intro id hc
          obtain ⟨j, hij, hj⟩ := b id hc
          exact ⟨j + 1, by omega, by simpa using hj⟩
    · intro r hr k hk
      rcases List.mem_cons.1 hr with rfl | hr
      · rcases hk with hk | hk
        · exact hy2 k hk
        · exact hn2 k hk
      · exact ih3 r hr k hk

/-- **1.** an accepted-by-`treeOk` tree is `TreeWF`, has a row, and every PDF id written in it is in `[1, n]` -/
theorem treeOk_treeWF (n : Nat) (t : FileTree) (h : treeOk n t = true) :
    TreeWF t ∧ t.rows ≠ [] ∧
      ∀ r ∈ t.rows, ∀ k, (r.yes = .pdf k ∨ r.no = .pdf k) → 1 ≤ k ∧ k ≤ n := by
  simp only [treeOk, Bool.and_eq_true, Bool.not_eq_true', List.isEmpty_eq_false_iff] at h
  obtain ⟨hne, hrows⟩ := h
  obtain ⟨h1, h2, h3⟩ := rowsOk_spec n t.rows hrows
  exact ⟨⟨h1, h2⟩, hne, h3⟩

/-! ### 2. `modelOk` gives totality of `getParameter` -/

theorem stateOk_total (m : FileModel)
    (hconv : ∀ t ∈ m.trees, ∃ r, convertTree true m.questions t = .ok r)
    (k : Nat) (h : stateOk m k = true) (label : List Char) :
    ∃ ti id p, getParameter m k label = some (ti, id, p) := by
  unfold stateOk at h
  split at h
  · cases h
  · next ti hidx =>
    split at h
    · next t ps ht hp =>
      obtain ⟨hwf, hne, hleaf⟩ := treeOk_treeWF _ _ h
      obtain ⟨r, hr⟩ := hconv t (List.mem_of_getElem? ht)
      obtain ⟨k', hk'⟩ := evalTree_total_of_wf m.questions t hwf hne r hr label
      obtain ⟨id, p, hg, _⟩ := Synth.getParameter_of_tree m k ti t ps label hidx ht hp (by simp [hk'])
        (fun r hr k hk => by have := hleaf r hr k hk; omega)
      exact ⟨_, _, _, hg⟩
    · cases h

/-- **2.** (the hypothesis `pdfs.length = trees.length` is what the reader gives; the proof does not need it, because
    `modelOk` itself checks that the PDF list of the chosen tree exists) -/
theorem modelOk_total (states : List Nat) (m : FileModel) (hlen : m.pdfs.length = m.trees.length)
    (hconv : ∀ t ∈ m.trees, ∃ r, convertTree true m.questions t = .ok r)
    (h : modelOk states m = true) :
    ∀ k ∈ states, ∀ label, ∃ ti id p, getParameter m k label = some (ti, id, p) := by
  intro k hk label
  exact stateOk_total m hconv k (List.all_eq_true.1 h k hk) label

theorem modelOk_isSome (states : List Nat) (m : FileModel)
    (hconv : ∀ t ∈ m.trees, ∃ r, convertTree true m.questions t = .ok r)
    (h : modelOk states m = true) (k : Nat) (hk : k ∈ states) (label : List Char) :
    (getParameter m k label).isSome = true := by
  obtain ⟨ti, id, p, hg⟩ := stateOk_total m hconv k (List.all_eq_true.1 h k hk) label
  rw [hg]; rfl

end Jb.Hts

namespace Jb.Synth
open Hts

variable {K : Type} [Field K] [LinearOrder K] [IsStrictOrderedRing K] [FloorRing K]
  [Transc K] [Consts K] [MlpgConsts K] [FromFile K]

/-! ### 3. accepted + supported + compatible voices are a well-formed voice set -/

theorem zip_all_getElem {α β : Type} (P : α × β → Bool) (l1 : List α) (l2 : List β)
    (hl : l1.length = l2.length) (h : (l1.zip l2).all P = true) (i : Nat) (a : α) (ha : l1[i]? = some a) :
    ∃ b, l2[i]? = some b ∧ P (a, b) = true := by
  obtain ⟨hi, rfl⟩ := List.getElem?_eq_some_iff.1 ha
  have hi2 : i < l2.length := by omega
  refine ⟨l2[i], List.getElem?_eq_getElem hi2, ?_⟩
  have hz : i < (l1.zip l2).length := by simp; omega
  have hmem : (l1.zip l2)[i] ∈ l1.zip l2 := List.getElem_mem hz
  rw [List.getElem_zip] at hmem
  exact List.all_eq_true.1 h _ hmem

/-- what `streamOk` gives on a stream of an accepted voice -/
theorem streamOk_spec (bytes : List Nat) (v : ParsedVoice) (hp : parseVoice true bytes = .ok v)
    (ns : Nat) (s : ParsedStream) (hs : s ∈ v.streams) (h : streamOk ns s = true) :
    1 ≤ s.windows.length ∧ s.windows.length ≤ s.info.nwin ∧
    (∀ k < ns, ∀ label, (getParameter s.model (k + 2) label).isSome = true) ∧
    (s.info.useGv = true → ∃ g, s.gv = some g ∧ ∀ label, (getParameter g 2 label).isSome = true) := by
  simp only [streamOk, Bool.and_eq_true, decide_eq_true_eq] at h
  obtain ⟨⟨⟨h1, h2⟩, h3⟩, h4⟩ := h
  have hconv := (parseVoice_stream_shape bytes v hp s hs).2.2
  refine ⟨h1, h2, ?_, ?_⟩
  · intro k hk label
    refine modelOk_isSome _ _ hconv h3 (k + 2) ?_ label
    exact List.mem_map.2 ⟨k, List.mem_range.2 hk, rfl⟩
  · intro hu
    obtain ⟨g, hg, -, -, hgconv⟩ := (parseVoice_gv_shape bytes v hp s hs).1 hu
    refine ⟨g, hg, ?_⟩
    rw [hu, hg] at h4
    simp only [if_true] at h4
    intro label
    exact modelOk_isSome _ _ hgconv h4 2 (by simp) label

/-- everything `supportedVoice` says about an accepted voice, in the vocabulary of `HeadWF` / `VoiceWF` -/
theorem supportedVoice_spec (bytes : List Nat) (v : ParsedVoice) (hp : parseVoice true bytes = .ok v)
    (h : supportedVoice v = true) :
    0 < v.global.nstates ∧ (v.global.nstreams = 2 ∨ v.global.nstreams = 3) ∧
    v.streams.length = v.global.nstreams ∧
    (∀ s, v.streams[1]? = some s → s.info.veclen = 1) ∧
    (∀ s, v.streams[2]? = some s → s.info.veclen % 2 = 1) ∧
    (∀ label, (getParameter v.duration 2 label).isSome = true) ∧
    ∀ s ∈ v.streams,
      1 ≤ s.windows.length ∧ s.windows.length ≤ s.info.nwin ∧
      (∀ k < v.global.nstates, ∀ label, (getParameter s.model (k + 2) label).isSome = true) ∧
      (s.info.useGv = true → ∃ g, s.gv = some g ∧ ∀ label, (getParameter g 2 label).isSome = true) := by
  simp only [supportedVoice, Bool.and_eq_true, Bool.or_eq_true, decide_eq_true_eq, beq_iff_eq] at h
  obtain ⟨⟨⟨⟨⟨⟨h1, h2⟩, h3⟩, h4⟩, h5⟩, h6⟩, h7⟩ := h
  refine ⟨h1, h2, h3, ?_, ?_, ?_, ?_⟩
  · intro s hs
    rw [hs] at h4
    simpa using h4
  · intro s hs
    rw [hs] at h5
    simpa using h5
  · intro label
    exact modelOk_isSome _ _ (parseVoice_duration_shape bytes v hp).2.2 h6 2 (by simp) label
  · intro s hs
    exact streamOk_spec bytes v hp _ s hs (List.all_eq_true.1 h7 s hs)

theorem supported_headWF (bytes : List Nat) (v0 : ParsedVoice) (hp : parseVoice true bytes = .ok v0)
    (h : supportedVoice v0 = true) : HeadWF v0 := by
  obtain ⟨h1, h2, h3, h4, h5, h6, h7⟩ := supportedVoice_spec bytes v0 hp h
  refine ⟨h1, h2, h3, h4, h5, fun s hs => (h7 s hs).1, ?_, ?_⟩
  · intro label x hx
    obtain ⟨ti, id, p⟩ := x
    obtain ⟨e1, e2, -⟩ := (selected_shape bytes v0 hp 2 label ti id p).1 hx
    exact ⟨e1, e2⟩
  · intro s hs k hk label x hx
    obtain ⟨ti, id, p⟩ := x
    obtain ⟨e1, e2, -⟩ := (selected_shape bytes v0 hp (k + 2) label ti id p).2.1 s hs hx
    have hle : s.info.veclen * s.windows.length ≤ s.info.veclen * s.info.nwin :=
      Nat.mul_le_mul_left _ (h7 s hs).2.1
    show _ ≤ p.means.length ∧ _ ≤ p.varis.length
    rw [e1, e2]
    exact ⟨hle, hle⟩

theorem supported_voiceWF (bytes : List Nat) (v0 v : ParsedVoice) (hp : parseVoice true bytes = .ok v)
    (h : supportedVoice v = true) (hc : compatibleVoice v0 v = true) : VoiceWF v0 v := by
  obtain ⟨-, -, -, -, -, h6, h7⟩ := supportedVoice_spec bytes v hp h
  simp only [compatibleVoice, Bool.and_eq_true, beq_iff_eq] at hc
  obtain ⟨⟨⟨c1, c2⟩, c3⟩, c4⟩ := hc
  refine ⟨h6, ?_⟩
  intro i s0 hs0
  obtain ⟨s, hs, hcs⟩ := zip_all_getElem _ _ _ c3 c4 i s0 hs0
  have hmem : s ∈ v.streams := List.mem_of_getElem? hs
  obtain ⟨-, -, t1, t2⟩ := h7 s hmem
  simp only [streamCompatible, Bool.and_eq_true, beq_iff_eq] at hcs
  refine ⟨s, hs, ?_, ?_⟩
  · intro k hk label
    exact t1 k (by rw [← c1]; exact hk) label
  · intro hu
    exact t2 (by rw [← hcs.1.1.1]; exact hu)

/-- **3.** every voice was accepted by the guarded reader, passes the computable check `supportedVoice`, and agrees
    with the first voice on the metadata `VoiceSet::new` compares: then the set is well formed -/
theorem accepted_supported_voicesWF (voices : List ParsedVoice) (v0 : ParsedVoice) (hv0 : voices.head? = some v0)
    (iw : IW K)
    (hall : ∀ v ∈ voices, (∃ bytes, parseVoice true bytes = .ok v) ∧ supportedVoice v = true ∧
      compatibleVoice v0 v = true)
    (hw : WeightsWF voices.length v0.global.nstreams iw) : VoicesWF voices iw := by
  have hmem0 : v0 ∈ voices := List.mem_of_mem_head? (by rw [hv0]; exact rfl)
  refine ⟨?_, ?_, ?_, ?_⟩
  · intro h; rw [h] at hv0; cases hv0
  · intro v0' h
    rw [hv0, Option.some.injEq] at h
    subst h
    obtain ⟨⟨bytes, hp⟩, hs, -⟩ := hall v0 hmem0
    exact supported_headWF bytes v0 hp hs
  · intro v0' h v hv
    rw [hv0, Option.some.injEq] at h
    subst h
    obtain ⟨⟨bytes, hp⟩, hs, hc⟩ := hall v hv
    exact supported_voiceWF bytes v0 v hp hs hc
  · intro v0' h
    rw [hv0, Option.some.injEq] at h
    subst h
    exact hw

/-! ### 4. from bytes to waveform -/

/-- **4. Capstone.** Voice files the guarded reader accepts, that pass `supportedVoice` and are mutually compatible,
    with one weight per voice: for every setter history, every label sequence (and every time list of the right length
    when alignment is on) synthesis returns a waveform of exactly `frame period × total frames` samples, every state of
    every label lasting at least one frame. -/
theorem bytes_synth_total (fx : Fix) (big : K) (voices : List ParsedVoice) (v0 : ParsedVoice)
    (hv0 : voices.head? = some v0) (iw : IW K)
    (hall : ∀ v ∈ voices, (∃ bytes, parseVoice true bytes = .ok v) ∧ supportedVoice v = true ∧
      compatibleVoice v0 v = true)
    (hw : WeightsWF voices.length v0.global.nstreams iw)
    (ops : List (CondOp K)) (f : Condition K → Bool) (labels : List (List Char)) (times : List (K × K))
    (halign : (condOf (K := K) v0 ops).alignment = true → times.length = labels.length) :
    ∃ (durs : List Nat) (w : List K), synthesize fx big voices iw ops f labels times = .ok w ∧
      w.length = (condOf (K := K) v0 ops).fperiod * durs.sum ∧
      labels.length * v0.global.nstates ≤ durs.sum ∧ ∀ d ∈ durs, 1 ≤ d := by
  have hwf := accepted_supported_voicesWF voices v0 hv0 iw hall hw
  obtain ⟨durs, w, h1, h2, h3, h4⟩ := synthesize_total fx big voices iw hwf v0 hv0 ops f labels times halign
  refine ⟨durs, w, h1, h2, ?_, h4⟩
  rw [← h3]
  exact length_le_sum durs h4

end Jb.Synth

/-! ### 5. non-vacuity: a complete file image that is accepted AND supported; the broken example is rejected -/

namespace Jb.Hts.SupportedEx
open Jb.Hts.ParseShapeEx

def okHeader : String :=
  "[GLOBAL]\nHTS_VOICE_VERSION:1.0\nSAMPLING_FREQUENCY:48000\nFRAME_PERIOD:240\nNUM_STATES:1\nNUM_STREAMS:2\n" ++
  "STREAM_TYPE:MCP,LF0\nFULLCONTEXT_FORMAT:HTS_TTS_JPN\nFULLCONTEXT_VERSION:1.0\nGV_OFF_CONTEXT:\nCOMMENT:\n" ++
  "[STREAM]\nVECTOR_LENGTH[MCP]:2\nNUM_WINDOWS[MCP]:1\nIS_MSD[MCP]:0\nUSE_GV[MCP]:0\nOPTION[MCP]:\n" ++
  "VECTOR_LENGTH[LF0]:1\nNUM_WINDOWS[LF0]:1\nIS_MSD[LF0]:1\nUSE_GV[LF0]:1\nOPTION[LF0]:\n" ++
  "[POSITION]\nDURATION_PDF:11-22\nDURATION_TREE:0-10\n" ++
  "STREAM_WIN[MCP]:133-137\nSTREAM_PDF[MCP]:81-132\nSTREAM_TREE[MCP]:23-80\n" ++
  "STREAM_WIN[LF0]:165-169\nSTREAM_PDF[LF0]:149-164\nSTREAM_TREE[LF0]:138-148\n" ++
  "GV_PDF[LF0]:181-192\nGV_TREE[LF0]:170-180\n[DATA]\n"

/-- the UTF-8 bytes of `okHeader`, written out as numbers (kernel evaluation of `String.toUTF8` on a long literal is
    slow); the `#guard` below documents that they spell `okHeader` -/
def okHeaderBytes : List Nat :=
  [91, 71, 76, 79, 66, 65, 76, 93, 10, 72, 84, 83, 95, 86, 79, 73, 67, 69, 95, 86, 69, 82, 83, 73, 79, 78, 58, 49,
   46, 48, 10, 83, 65, 77, 80, 76, 73, 78, 71, 95, 70, 82, 69, 81, 85, 69, 78, 67, 89, 58, 52, 56, 48, 48, 48, 10,
   70, 82, 65, 77, 69, 95, 80, 69, 82, 73, 79, 68, 58, 50, 52, 48, 10, 78, 85, 77, 95, 83, 84, 65, 84, 69, 83, 58,
   49, 10, 78, 85, 77, 95, 83, 84, 82, 69, 65, 77, 83, 58, 50, 10, 83, 84, 82, 69, 65, 77, 95, 84, 89, 80, 69, 58,
   77, 67, 80, 44, 76, 70, 48, 10, 70, 85, 76, 76, 67, 79, 78, 84, 69, 88, 84, 95, 70, 79, 82, 77, 65, 84, 58, 72,
   84, 83, 95, 84, 84, 83, 95, 74, 80, 78, 10, 70, 85, 76, 76, 67, 79, 78, 84, 69, 88, 84, 95, 86, 69, 82, 83, 73,
   79, 78, 58, 49, 46, 48, 10, 71, 86, 95, 79, 70, 70, 95, 67, 79, 78, 84, 69, 88, 84, 58, 10, 67, 79, 77, 77, 69,
   78, 84, 58, 10, 91, 83, 84, 82, 69, 65, 77, 93, 10, 86, 69, 67, 84, 79, 82, 95, 76, 69, 78, 71, 84, 72, 91, 77,
   67, 80, 93, 58, 50, 10, 78, 85, 77, 95, 87, 73, 78, 68, 79, 87, 83, 91, 77, 67, 80, 93, 58, 49, 10, 73, 83, 95,
   77, 83, 68, 91, 77, 67, 80, 93, 58, 48, 10, 85, 83, 69, 95, 71, 86, 91, 77, 67, 80, 93, 58, 48, 10, 79, 80, 84,
   73, 79, 78, 91, 77, 67, 80, 93, 58, 10, 86, 69, 67, 84, 79, 82, 95, 76, 69, 78, 71, 84, 72, 91, 76, 70, 48, 93,
   58, 49, 10, 78, 85, 77, 95, 87, 73, 78, 68, 79, 87, 83, 91, 76, 70, 48, 93, 58, 49, 10, 73, 83, 95, 77, 83, 68,
   91, 76, 70, 48, 93, 58, 49, 10, 85, 83, 69, 95, 71, 86, 91, 76, 70, 48, 93, 58, 49, 10, 79, 80, 84, 73, 79, 78,
   91, 76, 70, 48, 93, 58, 10, 91, 80, 79, 83, 73, 84, 73, 79, 78, 93, 10, 68, 85, 82, 65, 84, 73, 79, 78, 95, 80,
   68, 70, 58, 49, 49, 45, 50, 50, 10, 68, 85, 82, 65, 84, 73, 79, 78, 95, 84, 82, 69, 69, 58, 48, 45, 49, 48, 10,
   83, 84, 82, 69, 65, 77, 95, 87, 73, 78, 91, 77, 67, 80, 93, 58, 49, 51, 51, 45, 49, 51, 55, 10, 83, 84, 82, 69,
   65, 77, 95, 80, 68, 70, 91, 77, 67, 80, 93, 58, 56, 49, 45, 49, 51, 50, 10, 83, 84, 82, 69, 65, 77, 95, 84, 82,
   69, 69, 91, 77, 67, 80, 93, 58, 50, 51, 45, 56, 48, 10, 83, 84, 82, 69, 65, 77, 95, 87, 73, 78, 91, 76, 70, 48,
   93, 58, 49, 54, 53, 45, 49, 54, 57, 10, 83, 84, 82, 69, 65, 77, 95, 80, 68, 70, 91, 76, 70, 48, 93, 58, 49, 52,
   57, 45, 49, 54, 52, 10, 83, 84, 82, 69, 65, 77, 95, 84, 82, 69, 69, 91, 76, 70, 48, 93, 58, 49, 51, 56, 45, 49,
   52, 56, 10, 71, 86, 95, 80, 68, 70, 91, 76, 70, 48, 93, 58, 49, 56, 49, 45, 49, 57, 50, 10, 71, 86, 95, 84, 82,
   69, 69, 91, 76, 70, 48, 93, 58, 49, 55, 48, 45, 49, 56, 48, 10, 91, 68, 65, 84, 65, 93, 10]

#guard bytesOf okHeader == okHeaderBytes

/-- data section: duration tree (0-10) and its one PDF of 2 words (11-22); the spectrum model: one question and a
    TWO-ROW tree for state 2 (row 0 refers to the later row -1; leaves 1, 2, 3) (23-80) with three PDFs of 4 words
    (81-132) and one window (133-137); the log-F0 model: single leaf (138-148), one MSD PDF of 3 words (149-164), one
    window (165-169); its GV model: single leaf (170-180), one PDF of 2 words (181-192) -/
def okBytes : List Nat :=
  okHeaderBytes ++
  bytesOf "{*}[2] d_1\n" ++ ([1,0,0,0] ++ List.replicate 8 0) ++
  bytesOf "QS Q { \"*a*\" }\n{*}[2]\n{\n 0 Q -1 \"m_1\"\n -1 Q \"m_2\" \"m_3\"\n}\n" ++
    ([3,0,0,0] ++ List.replicate 48 0) ++ bytesOf "1 1.0" ++
  bytesOf "{*}[2] f_1\n" ++ ([1,0,0,0] ++ List.replicate 12 0) ++ bytesOf "1 1.0" ++
  bytesOf "{*}[2] g_1\n" ++ ([1,0,0,0] ++ List.replicate 8 0)

def leaf1 (p : PdfBits) : FileModel :=
  { questions := [],
    trees := [{ state := 2, rows := [{ id := 0, qname := "", no := .pdf 1, yes := .pdf 1 }] }],
    pdfs := [[p]] }

def okMcp : FileModel :=
  { questions := [("Q", [['*', 'a', '*']])],
    trees := [{ state := 2, rows := [{ id := 0, qname := "Q", no := .node (-1), yes := .pdf 1 },
                                     { id := -1, qname := "Q", no := .pdf 2, yes := .pdf 3 }] }],
    pdfs := [List.replicate 3 { means := [0, 0], varis := [0, 0], msd := none }] }

/-- one state, two streams: spectrum of order 2 without GV, scalar MSD log-F0 with GV; one window each -/
def okVoice : ParsedVoice :=
  { global := { version := "1.0", sr := 48000, fp := 240, nstates := 1, nstreams := 2, streamType := ["MCP", "LF0"],
                fmt := "HTS_TTS_JPN", fver := "1.0", gvOff := [] },
    duration := leaf1 { means := [0], varis := [0], msd := none },
    streams := [
      { name := "MCP", info := { veclen := 2, nwin := 1, isMsd := false, useGv := false, option := [] },
        model := okMcp, gv := none, windows := [["1.0"]] },
      { name := "LF0", info := { veclen := 1, nwin := 1, isMsd := true, useGv := true, option := [] },
        model := leaf1 { means := [0], varis := [0], msd := some 0 },
        gv := some (leaf1 { means := [0], varis := [0], msd := none }), windows := [["1.0"]] }] }

/-- **the guarded reader accepts `okBytes`** and returns exactly `okVoice` (kernel evaluation of the reader model) -/
theorem ok_accepted : parseVoice true okBytes = .ok okVoice := by decide +kernel

/-- **and the computable check passes on it** -/
theorem ok_supported : supportedVoice okVoice = true := by decide

theorem ok_compatible : compatibleVoice okVoice okVoice = true := by decide

/-- the deliberately broken (but accepted: `ParseShapeEx.ex_accepted`) example is rejected by the check -/
theorem ex_not_supported : supportedVoice exVoice = false := by decide

/-- … already tree by tree: the cyclic tree, the empty tree, and the leaf id outside the PDF list -/
theorem ex_trees_rejected :
    treeOk 1 exCyc = false ∧ treeOk 0 ⟨5, []⟩ = false ∧ modelOk [2] exDur = false ∧ modelOk [2, 3] exMcp = false := by
  decide

end Jb.Hts.SupportedEx

namespace Jb.Synth
open Hts

variable {K : Type} [Field K] [LinearOrder K] [IsStrictOrderedRing K] [FloorRing K]
  [Transc K] [Consts K] [MlpgConsts K] [FromFile K]

/-- the capstone is not vacuous: its hypotheses hold of the one-voice set read from `okBytes` (unit weights), so
    synthesis from that FILE returns for every setter history and every label sequence -/
theorem okBytes_synth_total (fx : Fix) (big : K) (ops : List (CondOp K)) (f : Condition K → Bool)
    (labels : List (List Char)) (times : List (K × K))
    (halign : (condOf (K := K) SupportedEx.okVoice ops).alignment = true → times.length = labels.length) :
    ∃ v, parseVoice true SupportedEx.okBytes = .ok v ∧
    ∃ (durs : List Nat) (w : List K), synthesize fx big [v] Tiny.weights ops f labels times = .ok w ∧
      w.length = (condOf (K := K) v ops).fperiod * durs.sum ∧
      labels.length * 1 ≤ durs.sum ∧ ∀ d ∈ durs, 1 ≤ d := by
  refine ⟨SupportedEx.okVoice, SupportedEx.ok_accepted, ?_⟩
  refine bytes_synth_total fx big [SupportedEx.okVoice] SupportedEx.okVoice rfl Tiny.weights ?_ ?_ ops f labels times halign
  · intro v hv
    rw [List.mem_singleton] at hv
    subst hv
    exact ⟨⟨_, SupportedEx.ok_accepted⟩, SupportedEx.ok_supported, SupportedEx.ok_compatible⟩
  · refine ⟨rfl, ?_, ?_⟩ <;>
    · intro i hi
      have : i = 0 ∨ i = 1 := by
        have : i < 2 := hi
        omega
      rcases this with rfl | rfl <;> rfl

end Jb.Synth
