/-
  `engineWFb` (computable, `Jb/Model/EngineWFb.lean`) implies the hypothesis `EngineWF` of the totality theorem.
-/
import Jb.Model.EngineWFb
import Jb.Proofs.Total

set_option linter.unusedSectionVars false

namespace Jb

variable {K : Type} [Field K] [LinearOrder K] [IsStrictOrderedRing K] [FloorRing K]
  [Transc K] [Consts K] [MlpgConsts K]

theorem streamWFb_spec (n : Nat) (s : StreamIn K) (h : streamWFb n s = true) :
    StreamWF s ∧ s.stream.length = n ∧ (∀ g sw, s.gv = some (g, sw) → n ≤ sw.length) := by
  unfold streamWFb at h
  simp only [Bool.and_eq_true, decide_eq_true_eq, List.all_eq_true] at h
  obtain ⟨⟨⟨h1, h2⟩, h3⟩, h4⟩ := h
  refine ⟨⟨h1, fun st hst => h2 st hst⟩, h3, ?_⟩
  intro g sw hg
  rw [hg] at h4
  simpa using h4

/-- the computable check implies the hypothesis of `engineSynthesize_total` -/
theorem engineWFb_sound (c : Condition K) (inp : EngineIn K) (h : engineWFb c inp = true) : EngineWF c inp := by
  unfold engineWFb at h
  simp only [Bool.and_eq_true, Bool.or_eq_true, decide_eq_true_eq, List.all_eq_true, beq_iff_eq,
    Bool.not_eq_true'] at h
  obtain ⟨⟨⟨⟨⟨⟨⟨h1, h2⟩, h3⟩, h4⟩, h5⟩, h6⟩, h7⟩, h8⟩ := h
  refine ⟨h1, h2, fun s hs => streamWFb_spec _ s (h3 s hs), ?_, ?_, h6, h7, ?_⟩
  · intro s hs
    rw [hs] at h4
    simpa using h4
  · intro s hs
    rw [hs] at h5
    simpa using h5
  · intro ha
    rcases h8 with h8 | h8
    · rw [ha] at h8; cases h8
    · exact h8

/-- hence: whenever the check passes, synthesis is total and frame-exact -/
theorem engineWFb_total (fx : Fix) (c : Condition K) (inp : EngineIn K) (h : engineWFb c inp = true) (b : Bool) :
    ∃ durs w, engineDurations c b inp = .ok durs ∧ durs.length = inp.duration.length ∧ (∀ x ∈ durs, 1 ≤ x) ∧
      engineSynthesize fx c b inp = .ok w ∧ w.length = c.fperiod * durs.sum :=
  engineSynthesize_total fx c inp (engineWFb_sound c inp h) b

end Jb
